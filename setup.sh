#!/bin/sh
# Build the framework offline from files on disk: regenerate Gen/*.lean from /repo, build the
# model, the driver executable, every proof module and every property module.
set -e
cd "$(dirname "$0")"
PY=/venv/bin/python; [ -x "$PY" ] || PY=python3
$PY tools/py2lean.py > /dev/null || echo "setup: translator reported broken obligations (checks will report them)"
cd lean
PROPS=$(ls Spake2Verif/Properties/*.lean 2>/dev/null | sed 's/\.lean$//; s#/#.#g')
lake build driver Spake2Model Spake2Verif $PROPS 2>&1 | tail -5
