import time, sys, pickle
from sympy import symbols, QQ, Poly, reduced, expand, together, fraction, cancel, factor, numer, denom
x1,y1,x2,y2,x3,y3,d = symbols('x1 y1 x2 y2 x3 y3 d')
def e(x,y): return -x**2 + y**2 - 1 - d*x**2*y**2
def add(P,Qp):
    (xa,ya),(xb,yb)=P,Qp
    return ((xa*yb+ya*xb),(1+d*xa*xb*ya*yb),(ya*yb+xa*xb),(1-d*xa*xb*ya*yb))  # nx,dx,ny,dy
# closure
nx,dx,ny,dy = add((x1,y1),(x2,y2))
g = expand(-(nx**2)*(dy**2) + (ny**2)*(dx**2) - dx**2*dy**2 - d*nx**2*ny**2)   # e(x3,y3)*dx^2*dy^2
K = QQ.frac_field(d)
t=time.time()
qs, r = reduced(g, [e(x1,y1), e(x2,y2)], x1,y1,x2,y2, domain=K, order='grevlex')
print("closure: rem", r, "time %.1f"%(time.time()-t))
for q in qs: print("  cof terms", len(Poly(q,x1,y1,x2,y2).terms()))
print(qs)
pickle.dump(qs, open("closure.pkl","wb"))
