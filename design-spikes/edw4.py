import pickle
from sympy import symbols, expand
x1,y1,x2,y2,x3,y3,d = symbols('x1 y1 x2 y2 x3 y3 d')
L=lambda e: str(expand(e)).replace("**","^")
res=pickle.load(open("assoc.pkl","rb")); clo=pickle.load(open("closure.pkl","rb"))
out=[]
out.append("""import Spk.Edw
namespace Edw
variable {F : Type*} [Field F]

def addX (d x1 y1 x2 y2 : F) : F := (x1*y2 + y1*x2) / (1 + d*x1*x2*y1*y2)
def addY (d x1 y1 x2 y2 : F) : F := (y1*y2 + x1*x2) / (1 - d*x1*x2*y1*y2)

theorem denoms_ne {d x1 y1 x2 y2 : F} (h : (d*x1*x2*y1*y2)^2 ≠ 1) :
    1 + d*x1*x2*y1*y2 ≠ 0 ∧ 1 - d*x1*x2*y1*y2 ≠ 0 := by
  constructor
  · intro h0; apply h; have : d*x1*x2*y1*y2 = -1 := by linear_combination h0
    rw [this]; ring
  · intro h0; apply h; have : d*x1*x2*y1*y2 = 1 := by linear_combination -h0
    rw [this]; ring

theorem closure {d x1 y1 x2 y2 : F} (h1 : OnCurve d x1 y1) (h2 : OnCurve d x2 y2)
    (hn : (d*x1*x2*y1*y2)^2 ≠ 1) : OnCurve d (addX d x1 y1 x2 y2) (addY d x1 y1 x2 y2) := by
  obtain ⟨hp, hm⟩ := denoms_ne hn
  unfold OnCurve at *
  unfold addX addY
  rw [div_pow, div_pow]
  field_simp
  linear_combination (C1) * h1 + (C2) * h2
""".replace("C1",L(clo[0])).replace("C2",L(clo[1])))
open("/tmp/spike/spk/Spk/Edw2.lean","w").write("\n".join(out)+"\nend Edw\n")
