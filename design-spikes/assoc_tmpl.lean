import Spk.Edw2
namespace Edw
variable {F : Type*} [Field F]

theorem addX_fracL (d nxa dxa nya dya x3 y3 : F) (hdx : dxa ≠ 0) (hdy : dya ≠ 0) :
    addX d (nxa/dxa) (nya/dya) x3 y3 = (nxa*dya*y3 + nya*dxa*x3) / (dxa*dya + d*nxa*nya*x3*y3) := by
  unfold addX
  have e1 : nxa/dxa*y3 + nya/dya*x3 = (nxa*dya*y3 + nya*dxa*x3)/(dxa*dya) := by field_simp
  have e2 : 1 + d*(nxa/dxa)*x3*(nya/dya)*y3 = (dxa*dya + d*nxa*nya*x3*y3)/(dxa*dya) := by field_simp
  rw [e1, e2, div_div_div_cancel_right₀ (mul_ne_zero hdx hdy)]

theorem addX_fracR (d x1 y1 nxb dxb nyb dyb : F) (hdx : dxb ≠ 0) (hdy : dyb ≠ 0) :
    addX d x1 y1 (nxb/dxb) (nyb/dyb) = (x1*nyb*dxb + y1*nxb*dyb) / (dxb*dyb + d*x1*y1*nxb*nyb) := by
  unfold addX
  have e1 : x1*(nyb/dyb) + y1*(nxb/dxb) = (x1*nyb*dxb + y1*nxb*dyb)/(dxb*dyb) := by field_simp
  have e2 : 1 + d*x1*(nxb/dxb)*y1*(nyb/dyb) = (dxb*dyb + d*x1*y1*nxb*nyb)/(dxb*dyb) := by field_simp
  rw [e1, e2, div_div_div_cancel_right₀ (mul_ne_zero hdx hdy)]

theorem addY_fracL (d nxa dxa nya dya x3 y3 : F) (hdx : dxa ≠ 0) (hdy : dya ≠ 0) :
    addY d (nxa/dxa) (nya/dya) x3 y3 = (nya*y3*dxa + nxa*x3*dya) / (dxa*dya - d*nxa*nya*x3*y3) := by
  unfold addY
  have e1 : nya/dya*y3 + nxa/dxa*x3 = (nya*y3*dxa + nxa*x3*dya)/(dxa*dya) := by field_simp
  have e2 : 1 - d*(nxa/dxa)*x3*(nya/dya)*y3 = (dxa*dya - d*nxa*nya*x3*y3)/(dxa*dya) := by field_simp
  rw [e1, e2, div_div_div_cancel_right₀ (mul_ne_zero hdx hdy)]

theorem addY_fracR (d x1 y1 nxb dxb nyb dyb : F) (hdx : dxb ≠ 0) (hdy : dyb ≠ 0) :
    addY d x1 y1 (nxb/dxb) (nyb/dyb) = (y1*nyb*dxb + x1*nxb*dyb) / (dxb*dyb - d*x1*y1*nxb*nyb) := by
  unfold addY
  have e1 : y1*(nyb/dyb) + x1*(nxb/dxb) = (y1*nyb*dxb + x1*nxb*dyb)/(dxb*dyb) := by field_simp
  have e2 : 1 - d*x1*(nxb/dxb)*y1*(nyb/dyb) = (dxb*dyb - d*x1*y1*nxb*nyb)/(dxb*dyb) := by field_simp
  rw [e1, e2, div_div_div_cancel_right₀ (mul_ne_zero hdx hdy)]

/-- associativity, for any three curve points whose four partial sums have non-vanishing denominators -/
theorem assoc {d x1 y1 x2 y2 x3 y3 : F}
    (h1 : OnCurve d x1 y1) (h2 : OnCurve d x2 y2) (h3 : OnCurve d x3 y3)
    (n12 : (d*x1*x2*y1*y2)^2 ≠ 1) (n23 : (d*x2*x3*y2*y3)^2 ≠ 1)
    (nL : (d*(addX d x1 y1 x2 y2)*x3*(addY d x1 y1 x2 y2)*y3)^2 ≠ 1)
    (nR : (d*x1*(addX d x2 y2 x3 y3)*y1*(addY d x2 y2 x3 y3))^2 ≠ 1) :
    addX d (addX d x1 y1 x2 y2) (addY d x1 y1 x2 y2) x3 y3 = addX d x1 y1 (addX d x2 y2 x3 y3) (addY d x2 y2 x3 y3)
    ∧ addY d (addX d x1 y1 x2 y2) (addY d x1 y1 x2 y2) x3 y3 = addY d x1 y1 (addX d x2 y2 x3 y3) (addY d x2 y2 x3 y3) := by
  obtain ⟨p12, m12⟩ := denoms_ne n12
  obtain ⟨p23, m23⟩ := denoms_ne n23
  obtain ⟨pL, mL⟩ := denoms_ne nL
  obtain ⟨pR, mR⟩ := denoms_ne nR
  -- outer denominators in polynomial form
  have eL : ∀ s : F, (1 + s * (d*(addX d x1 y1 x2 y2)*x3*(addY d x1 y1 x2 y2)*y3)) * ((1 + d*x1*x2*y1*y2)*(1 - d*x1*x2*y1*y2))
        = (1 + d*x1*x2*y1*y2)*(1 - d*x1*x2*y1*y2) + s * (d*(x1*y2+y1*x2)*(y1*y2+x1*x2)*x3*y3) := by
    intro s; unfold addX addY
    generalize 1 + d*x1*x2*y1*y2 = A at p12 ⊢
    generalize 1 - d*x1*x2*y1*y2 = B at m12 ⊢
    field_simp
  have eR : ∀ s : F, (1 + s * (d*x1*(addX d x2 y2 x3 y3)*y1*(addY d x2 y2 x3 y3))) * ((1 + d*x2*x3*y2*y3)*(1 - d*x2*x3*y2*y3))
        = (1 + d*x2*x3*y2*y3)*(1 - d*x2*x3*y2*y3) + s * (d*x1*y1*(x2*y3+y2*x3)*(y2*y3+x2*x3)) := by
    intro s; unfold addX addY
    generalize 1 + d*x2*x3*y2*y3 = A at p23 ⊢
    generalize 1 - d*x2*x3*y2*y3 = B at m23 ⊢
    field_simp
  have dLp : (1 + d*x1*x2*y1*y2)*(1 - d*x1*x2*y1*y2) + d*(x1*y2+y1*x2)*(y1*y2+x1*x2)*x3*y3 ≠ 0 := by
    have := eL 1; rw [one_mul, one_mul] at this; rw [← this]; exact mul_ne_zero pL (mul_ne_zero p12 m12)
  have dLm : (1 + d*x1*x2*y1*y2)*(1 - d*x1*x2*y1*y2) - d*(x1*y2+y1*x2)*(y1*y2+x1*x2)*x3*y3 ≠ 0 := by
    have := eL (-1); rw [neg_one_mul, neg_one_mul, ← sub_eq_add_neg, ← sub_eq_add_neg] at this; rw [← this]; exact mul_ne_zero mL (mul_ne_zero p12 m12)
  have dRp : (1 + d*x2*x3*y2*y3)*(1 - d*x2*x3*y2*y3) + d*x1*y1*(x2*y3+y2*x3)*(y2*y3+x2*x3) ≠ 0 := by
    have := eR 1; rw [one_mul, one_mul] at this; rw [← this]; exact mul_ne_zero pR (mul_ne_zero p23 m23)
  have dRm : (1 + d*x2*x3*y2*y3)*(1 - d*x2*x3*y2*y3) - d*x1*y1*(x2*y3+y2*x3)*(y2*y3+x2*x3) ≠ 0 := by
    have := eR (-1); rw [neg_one_mul, neg_one_mul, ← sub_eq_add_neg, ← sub_eq_add_neg] at this; rw [← this]; exact mul_ne_zero mR (mul_ne_zero p23 m23)
  unfold OnCurve at h1 h2 h3
  constructor
  · conv_lhs => rw [show addX d x1 y1 x2 y2 = (x1*y2+y1*x2)/(1 + d*x1*x2*y1*y2) from rfl,
                    show addY d x1 y1 x2 y2 = (y1*y2+x1*x2)/(1 - d*x1*x2*y1*y2) from rfl]
    conv_rhs => rw [show addX d x2 y2 x3 y3 = (x2*y3+y2*x3)/(1 + d*x2*x3*y2*y3) from rfl,
                    show addY d x2 y2 x3 y3 = (y2*y3+x2*x3)/(1 - d*x2*x3*y2*y3) from rfl]
    rw [addX_fracL _ _ _ _ _ _ _ p12 m12, addX_fracR _ _ _ _ _ _ _ p23 m23]
    rw [div_eq_div_iff (by first | exact dLp | (convert dLp using 1; ring)) (by first | exact dRp | (convert dRp using 1; ring))]
    linear_combination (CX1) * h1 + (CX2) * h2 + (CX3) * h3
  · conv_lhs => rw [show addX d x1 y1 x2 y2 = (x1*y2+y1*x2)/(1 + d*x1*x2*y1*y2) from rfl,
                    show addY d x1 y1 x2 y2 = (y1*y2+x1*x2)/(1 - d*x1*x2*y1*y2) from rfl]
    conv_rhs => rw [show addX d x2 y2 x3 y3 = (x2*y3+y2*x3)/(1 + d*x2*x3*y2*y3) from rfl,
                    show addY d x2 y2 x3 y3 = (y2*y3+x2*x3)/(1 - d*x2*x3*y2*y3) from rfl]
    rw [addY_fracL _ _ _ _ _ _ _ p12 m12, addY_fracR _ _ _ _ _ _ _ p23 m23]
    rw [div_eq_div_iff (by first | exact dLm | (convert dLm using 1; ring)) (by first | exact dRm | (convert dRm using 1; ring))]
    linear_combination (CY1) * h1 + (CY2) * h2 + (CY3) * h3
end Edw
