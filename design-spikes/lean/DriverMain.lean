import Spk.Sha
import Spk.PowMod
open Sha
def unhex (s : String) : List Nat :=
  let cs := s.toList.map fun c => if c.isDigit then c.toNat - 48 else c.toNat - 87
  let rec go : List Nat → List Nat
    | a :: b :: r => (a*16+b) :: go r
    | _ => []
  go cs
partial def loop (h : IO.FS.Stream) : IO Unit := do
  let line ← h.getLine
  if line.isEmpty then return ()
  match (line.trimAscii.toString.splitOn " ") with
  | ["sha", x] => IO.println (hex (sha256 (unhex x)))
  | ["hkdf", x, n] => IO.println (hex (hkdf (unhex x) [] ("SPAKE2 pw".toUTF8.toList.map UInt8.toNat) n.toNat!))
  | ["pow", b, e, m] => IO.println (powMod b.toNat! e.toNat! m.toNat!)
  | _ => IO.println "bad-op"
  loop h
def main : IO Unit := do loop (← IO.getStdin)
