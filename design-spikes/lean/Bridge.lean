import Spk.GenArith
import Spk.Edw3
import Mathlib.Data.ZMod.Basic
import Mathlib.Algebra.Field.ZMod

open Edw

def Qn : ℕ := 57896044618658097711785492504343953926634992332820282019728792003956564819949
abbrev K := ZMod Qn

theorem Q_cast : Q = ((Qn : ℕ) : ℤ) := by unfold Q Qn; norm_num

/-- cast of `a % Q` -/
@[simp] theorem cast_emod_Q (a : ℤ) : ((a % Q : ℤ) : K) = (a : K) := by
  rw [Q_cast]; exact ZMod.intCast_mod a Qn

/-- extended coordinates (X,Y,Z,T) represent the affine point (x,y) -/
def Rep (p : ℤ × ℤ × ℤ × ℤ) (x y : K) : Prop :=
  (p.2.2.1 : K) ≠ 0 ∧ (p.1 : K) = x * p.2.2.1 ∧ (p.2.1 : K) = y * p.2.2.1 ∧ (p.2.2.2 : K) = x * y * p.2.2.1

theorem add_elements_rep [Fact (Nat.Prime Qn)] (dI : ℤ) (p1 p2 : ℤ × ℤ × ℤ × ℤ) (x1 y1 x2 y2 : K)
    (r1 : Rep p1 x1 y1) (r2 : Rep p2 x2 y2)
    (hn : ((dI:K)*x1*x2*y1*y2)^2 ≠ 1) :
    Rep (add_elements dI p1 p2) (addX (dI:K) x1 y1 x2 y2) (addY (dI:K) x1 y1 x2 y2) := by
  obtain ⟨X1, Y1, Z1, T1⟩ := p1
  obtain ⟨X2, Y2, Z2, T2⟩ := p2
  obtain ⟨hz1, hx1, hy1, ht1⟩ := r1
  obtain ⟨hz2, hx2, hy2, ht2⟩ := r2
  obtain ⟨hp, hm⟩ := denoms_ne hn
  simp only [Rep, add_elements] at *
  simp only [Int.cast_sub, Int.cast_add, Int.cast_mul, Int.cast_neg, cast_emod_Q, Int.cast_ofNat]
  rw [hx1, hy1, ht1, hx2, hy2, ht2]
  unfold addX addY
  generalize hA : 1 + (dI:K)*x1*x2*y1*y2 = A at hp ⊢
  generalize hB : 1 - (dI:K)*x1*x2*y1*y2 = B at hm ⊢
  have h2 : (2:K) ≠ 0 := by
    sorry
  refine ⟨?_, ?_, ?_, ?_⟩
  · have : ((Z1:K) * 2 * Z2 - x1 * y1 * Z1 * (2 * dI) * (x2 * y2 * Z2)) * ((Z1:K) * 2 * Z2 + x1 * y1 * Z1 * (2 * dI) * (x2 * y2 * Z2)) = 4 * Z1^2 * Z2^2 * A * B := by
      subst hA hB; ring
    rw [this]
    have h4 : (4:K) ≠ 0 := by have : (4:K) = 2*2 := by norm_num
                              rw [this]; exact mul_ne_zero h2 h2
    exact mul_ne_zero (mul_ne_zero (mul_ne_zero (mul_ne_zero h4 (pow_ne_zero 2 hz1)) (pow_ne_zero 2 hz2)) hp) hm
  · field_simp; subst hA hB; ring
  · field_simp; subst hA hB; ring
  · field_simp; subst hA hB; ring
