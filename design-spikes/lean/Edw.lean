import Mathlib.Tactic.FieldSimp
import Mathlib.Tactic.LinearCombination
import Mathlib.Tactic.Ring
import Mathlib.Algebra.Field.Basic

namespace Edw
variable {F : Type*} [Field F]

/-- a = -1 twisted Edwards curve  -x² + y² = 1 + d x² y² -/
def OnCurve (d x y : F) : Prop := -x^2 + y^2 = 1 + d*x^2*y^2

theorem complete (d i : F) (hi : i^2 = -1) (hd : ∀ s : F, s^2 ≠ d) (h2 : (2:F) ≠ 0)
    {x1 y1 x2 y2 : F} (h1 : OnCurve d x1 y1) (h2c : OnCurve d x2 y2) :
    (d*x1*x2*y1*y2)^2 ≠ 1 := by
  intro he
  unfold OnCurve at h1 h2c
  set ε := d*x1*x2*y1*y2 with hε
  have hx1 : x1 ≠ 0 := by rintro rfl; simp [hε] at he
  have hy1 : y1 ≠ 0 := by rintro rfl; simp [hε] at he
  have key : d*x1^2*y1^2*(-x2^2 + y2^2) = -x1^2 + y1^2 := by
    rw [h2c, h1]; linear_combination he
  have sqp : (i*x1 + ε*y1)^2 = d*x1^2*y1^2*(i*x2 + y2)^2 := by
    linear_combination (x1^2 - d*x1^2*y1^2*x2^2) * hi + y1^2 * he - key + 2*i*x1*y1*hε
  have sqm : (i*x1 - ε*y1)^2 = d*x1^2*y1^2*(i*x2 - y2)^2 := by
    linear_combination (x1^2 - d*x1^2*y1^2*x2^2) * hi + y1^2 * he - key - 2*i*x1*y1*hε
  by_cases hp : i*x2 + y2 = 0
  · by_cases hm : i*x2 - y2 = 0
    · have : 2*y2 = 0 := by linear_combination hp - hm
      have hy2 : y2 = 0 := by
        rcases mul_eq_zero.1 this with h | h
        · exact absurd h h2
        · exact h
      subst hy2; simp [hε] at he
    · apply hd ((i*x1 - ε*y1)/(x1*y1*(i*x2 - y2)))
      field_simp
      linear_combination sqm
  · apply hd ((i*x1 + ε*y1)/(x1*y1*(i*x2 + y2)))
    field_simp
    linear_combination sqp
end Edw
