import Spk.Sha
open Sha
def info : List Nat := "SPAKE2 arbitrary element".toUTF8.toList.map UInt8.toNat
#eval hex (sha256 ("abc".toUTF8.toList.map UInt8.toNat))
theorem t_abc : hex (sha256 [0x61,0x62,0x63]) = "ba7816bf8f01cfea414140de5dae2223b00361a396177a9cb410ff61f20015ad" := by decide +kernel
theorem t_hkdf : (hex (hkdf [0x4d] [] info 384)).length = 768 := by decide +kernel
#eval hex (hkdf [0x4d] [] info 48)
