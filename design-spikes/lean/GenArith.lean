def Q : Int := 2^255 - 19
variable (d_ : Int)

def double_element (pt : Int × Int × Int × Int) : Int × Int × Int × Int :=
  let (X1, Y1, Z1, _u) := pt
  let A := (X1 * X1)
  let B := (Y1 * Y1)
  let C := ((2 * Z1) * Z1)
  let D := ((-A) % Q)
  let J := ((X1 + Y1) % Q)
  let E := ((((J * J) - A) - B) % Q)
  let G := ((D + B) % Q)
  let F := ((G - C) % Q)
  let H := ((D - B) % Q)
  let X3 := ((E * F) % Q)
  let Y3 := ((G * H) % Q)
  let Z3 := ((F * G) % Q)
  let T3 := ((E * H) % Q)
  (X3, Y3, Z3, T3)

def add_elements (pt1 : Int × Int × Int × Int) (pt2 : Int × Int × Int × Int) : Int × Int × Int × Int :=
  let (X1, Y1, Z1, T1) := pt1
  let (X2, Y2, Z2, T2) := pt2
  let A := (((Y1 - X1) * (Y2 - X2)) % Q)
  let B := (((Y1 + X1) * (Y2 + X2)) % Q)
  let C := (((T1 * (2 * d_)) * T2) % Q)
  let D := (((Z1 * 2) * Z2) % Q)
  let E := ((B - A) % Q)
  let F := ((D - C) % Q)
  let G := ((D + C) % Q)
  let H := ((B + A) % Q)
  let X3 := ((E * F) % Q)
  let Y3 := ((G * H) % Q)
  let T3 := ((E * H) % Q)
  let Z3 := ((F * G) % Q)
  (X3, Y3, Z3, T3)

def add_elements_nonunfied (pt1 : Int × Int × Int × Int) (pt2 : Int × Int × Int × Int) : Int × Int × Int × Int :=
  let (X1, Y1, Z1, T1) := pt1
  let (X2, Y2, Z2, T2) := pt2
  let A := (((Y1 - X1) * (Y2 + X2)) % Q)
  let B := (((Y1 + X1) * (Y2 - X2)) % Q)
  let C := (((Z1 * 2) * T2) % Q)
  let D := (((T1 * 2) * Z2) % Q)
  let E := ((D + C) % Q)
  let F := ((B - A) % Q)
  let G := ((B + A) % Q)
  let H := ((D - C) % Q)
  let X3 := ((E * F) % Q)
  let Y3 := ((G * H) % Q)
  let Z3 := ((F * G) % Q)
  let T3 := ((E * H) % Q)
  (X3, Y3, Z3, T3)

