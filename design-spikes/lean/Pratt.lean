import Spk.PowMod
import Mathlib.NumberTheory.LucasPrimality
import Mathlib.Tactic.NormNum.Prime

theorem powModAux_spec : ∀ (fuel b e n acc : Nat), e < 2^fuel →
    powModAux fuel b e n acc % n = acc * b^e % n
  | 0, b, e, n, acc, h => by
      have : e = 0 := by simpa using h
      subst this; simp [powModAux]
  | fuel+1, b, e, n, acc, h => by
      unfold powModAux
      split
      · next he => subst he; simp
      · next he =>
        have hlt : e / 2 < 2^fuel := by
          rw [Nat.div_lt_iff_lt_mul (by norm_num)]; rw [pow_succ] at h; exact h
        rw [powModAux_spec fuel _ _ _ _ hlt]
        have hb : (b*b % n)^(e/2) % n = (b*b)^(e/2) % n := (Nat.pow_mod (b*b) (e/2) n).symm
        have he2 : e = 2*(e/2) + e%2 := (Nat.div_add_mod e 2).symm
        split
        · next h1 =>
          calc (acc*b % n) * (b*b % n)^(e/2) % n
              = ((acc*b % n) * ((b*b % n)^(e/2) % n)) % n := by simp [Nat.mul_mod]
            _ = (acc*b) * (b*b)^(e/2) % n := by rw [hb]; simp [Nat.mul_mod]
            _ = acc * b^e % n := by
                conv_rhs => rw [he2, h1, pow_add, pow_mul]
                ring_nf
        · next h1 =>
          have h0 : e % 2 = 0 := by omega
          calc acc * (b*b % n)^(e/2) % n
              = (acc * ((b*b % n)^(e/2) % n)) % n := by simp [Nat.mul_mod]
            _ = acc * (b*b)^(e/2) % n := by rw [hb]; simp [Nat.mul_mod]
            _ = acc * b^e % n := by
                conv_rhs => rw [he2, h0, pow_add, pow_mul]
                ring_nf

theorem powModAux_lt : ∀ (fuel b e n acc : Nat), 0 < n → acc < n → powModAux fuel b e n acc < n
  | 0, _, _, _, _, _, h => by simpa [powModAux] using h
  | fuel+1, b, e, n, acc, hn, h => by
      unfold powModAux
      split
      · exact h
      · apply powModAux_lt fuel _ _ _ _ hn
        split
        · exact Nat.mod_lt _ hn
        · exact h

theorem powMod_spec (b e n : Nat) (hn : 1 < n) : powMod b e n = b^e % n := by
  unfold powMod
  have hfuel : e < 2^(e.log2+1) := Nat.lt_log2_self
  have h := powModAux_spec (e.log2+1) (b % n) e n (1 % n) hfuel
  have hlt : powModAux (e.log2 + 1) (b % n) e n (1 % n) < n :=
    powModAux_lt _ _ _ _ _ (by omega) (Nat.mod_lt _ (by omega))
  rw [← Nat.mod_eq_of_lt hlt, h, Nat.mod_eq_of_lt hn, one_mul, ← Nat.pow_mod]

theorem prime_dvd_prod_pow {q : ℕ} (hq : q.Prime) :
    ∀ (fs : List (ℕ × ℕ)), (∀ f ∈ fs, f.1.Prime) → q ∣ (fs.map (fun f => f.1^f.2)).prod → ∃ f ∈ fs, f.1 = q
  | [], _, h => by simp at h; exact absurd h hq.one_lt.ne'
  | f :: fs, hp, h => by
      rw [List.map_cons, List.prod_cons] at h
      rcases (Nat.Prime.dvd_mul hq).1 h with h | h
      · have := hq.dvd_of_dvd_pow h
        exact ⟨f, by simp, ((Nat.prime_dvd_prime_iff_eq hq (hp f (by simp))).1 this).symm⟩
      · obtain ⟨g, hg, hg'⟩ := prime_dvd_prod_pow hq fs (fun f hf => hp f (by simp [hf])) h
        exact ⟨g, by simp [hg], hg'⟩

/-- Pratt / Lucas certificate, with all arithmetic side conditions kernel-decidable. -/
theorem prime_of_pratt (p a : ℕ) (fs : List (ℕ × ℕ)) (hp : 1 < p)
    (hprime : ∀ f ∈ fs, f.1.Prime)
    (hprod : (fs.map (fun f => f.1^f.2)).prod = p - 1)
    (h1 : powMod a (p-1) p = 1)
    (h2 : ∀ f ∈ fs, powMod a ((p-1)/f.1) p ≠ 1) : p.Prime := by
  have cast : ∀ e, ((powMod a e p : ℕ) : ZMod p) = (a : ZMod p)^e := by
    intro e; rw [powMod_spec _ _ _ hp]; simp
  apply lucas_primality p (a : ZMod p)
  · rw [← cast, h1]; simp
  · intro q hq hdvd
    rw [← hprod] at hdvd
    obtain ⟨f, hf, rfl⟩ := prime_dvd_prod_pow hq fs hprime hdvd
    rw [← cast]
    intro hcontra
    apply h2 f hf
    have hlt : powMod a ((p-1)/f.1) p < p := by
      rw [powMod_spec _ _ _ hp]; exact Nat.mod_lt _ (by omega)
    have : ((powMod a ((p-1)/f.1) p : ℕ) : ZMod p) = ((1 : ℕ) : ZMod p) := by simpa using hcontra
    rw [ZMod.natCast_eq_natCast_iff'] at this
    rwa [Nat.mod_eq_of_lt hlt, Nat.mod_eq_of_lt hp] at this
