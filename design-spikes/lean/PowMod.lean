/-- square-and-multiply, structural on fuel so the kernel can evaluate it -/
def powModAux : Nat → Nat → Nat → Nat → Nat → Nat
  | 0, _, _, _, acc => acc
  | fuel+1, b, e, n, acc =>
    if e = 0 then acc
    else powModAux fuel (b*b % n) (e / 2) n (if e % 2 = 1 then acc*b % n else acc)

def powMod (b e n : Nat) : Nat := powModAux (e.log2 + 1) (b % n) e n (1 % n)
