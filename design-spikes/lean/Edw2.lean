import Spk.Edw
namespace Edw
variable {F : Type*} [Field F]

def addX (d x1 y1 x2 y2 : F) : F := (x1*y2 + y1*x2) / (1 + d*x1*x2*y1*y2)
def addY (d x1 y1 x2 y2 : F) : F := (y1*y2 + x1*x2) / (1 - d*x1*x2*y1*y2)

theorem denoms_ne {d x1 y1 x2 y2 : F} (h : (d*x1*x2*y1*y2)^2 ≠ 1) :
    1 + d*x1*x2*y1*y2 ≠ 0 ∧ 1 - d*x1*x2*y1*y2 ≠ 0 := by
  constructor
  · intro h0; apply h; have : d*x1*x2*y1*y2 = -1 := by linear_combination h0
    rw [this]; ring
  · intro h0; apply h; have : d*x1*x2*y1*y2 = 1 := by linear_combination -h0
    rw [this]; ring

theorem closure {d x1 y1 x2 y2 : F} (h1 : OnCurve d x1 y1) (h2 : OnCurve d x2 y2)
    (hn : (d*x1*x2*y1*y2)^2 ≠ 1) : OnCurve d (addX d x1 y1 x2 y2) (addY d x1 y1 x2 y2) := by
  obtain ⟨hp, hm⟩ := denoms_ne hn
  unfold OnCurve at *
  unfold addX addY
  generalize hDp : 1 + d*x1*x2*y1*y2 = Dp at hp ⊢
  generalize hDm : 1 - d*x1*x2*y1*y2 = Dm at hm ⊢
  field_simp
  subst hDp hDm
  linear_combination (d^3*x1^2*x2^4*y1^2*y2^4 - d^2*x1^2*x2^4*y2^4 + d^2*x2^4*y1^2*y2^4 - d^2*x2^4*y2^4 - d*x1^2*x2^4*y2^2 + d*x1^2*x2^2*y2^4 + d*x2^4*y1^2*y2^2 - 2*d*x2^4*y2^4 - d*x2^2*y1^2*y2^4 - 2*d*x2^2*y2^2 - 2*x2^4*y2^2 + x2^4 + 2*x2^2*y2^4 - 4*x2^2*y2^2 + y2^4) * h1 + (d*x1^4*x2^2*y2^2 + 2*d*x1^2*x2^2*y2^2 + d*x2^2*y1^4*y2^2 - 2*d*x2^2*y1^2*y2^2 + d*x2^2*y2^2 + 2*x1^2*x2^2*y2^2 - x1^2*x2^2 + x1^2*y2^2 - 2*x2^2*y1^2*y2^2 + x2^2*y1^2 + 2*x2^2*y2^2 - x2^2 - y1^2*y2^2 + y2^2 + 1) * h2

end Edw
