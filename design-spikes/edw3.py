import pickle, re
from sympy import symbols, Poly, expand
x1,y1,x2,y2,x3,y3,d = symbols('x1 y1 x2 y2 x3 y3 d')
def lean(expr):
    s=str(expand(expr))
    s=s.replace("**","^")
    return s
res=pickle.load(open("assoc.pkl","rb"))
clo=pickle.load(open("closure.pkl","rb"))
print("-- closure"); 
for q in clo: print(lean(q)); print()
for k,(g,qs) in res.items():
    print("--",k,"g"); print(lean(g)); print()
    for q in qs: print(lean(q)); print()
