import sys
sys.path.insert(0,'/repo/src')
from spake2 import ed25519_basic as eb, groups, util
from spake2.ed25519_group import Ed25519Group as G
from spake2 import spake2 as S
from spake2.spake2 import *
from spake2.params import _Params
from spake2.parameters.ed25519 import ParamsEd25519
from binascii import hexlify, unhexlify
import os
# C02: trailing-bytes ambiguity
a=SPAKE2_A(b"pw"); b=SPAKE2_B(b"pw")
ma=a.start(); mb=b.start()
X=ma[1:]; Y=mb[1:]
ka=a.finish(b"B"+Y+Y); kb=b.finish(b"A"+X+Y)
print("C02 trailing: keys equal despite both altered:", ka==kb)
# C02: mismatch in M with y=0
P2=_Params(G, M=b"M-other")
zero=lambda n: b"\0"*n
a=SPAKE2_A(b"pw", params=P2); b=SPAKE2_B(b"pw", entropy_f=zero)
ma=a.start(); mb=b.start()
try:
    ka=a.finish(mb); kb=b.finish(ma); print("C02 M-mismatch, y=0: equal keys:", ka==kb)
except Exception as e: print("raised", type(e).__name__, e)
# same on integer group
I23 = groups.IntegerGroup(p=23,q=11,g=2)
# find two param sets differing in M
Pa=_Params(I23, M=b"M"); Pb=_Params(I23, M=b"Mx")
print("I23 M:", Pa.M._e, Pb.M._e, "N", Pa.N._e, "S", Pa.S._e)
a=SPAKE2_A(b"pw", params=Pa); b=SPAKE2_B(b"pw", params=Pb, entropy_f=zero)
ma=a.start(); mb=b.start()
try:
    ka=a.finish(mb); kb=b.finish(ma); print("I23 M-mismatch, y=0: equal keys:", ka==kb)
except Exception as e: print("raised", type(e).__name__, e)
# C09: generator not in fingerprint
Ia = groups.IntegerGroup(p=23,q=11,g=2); Ib=groups.IntegerGroup(p=23,q=11,g=4)
pa=_Params(Ia); pb=_Params(Ib)
s=SPAKE2_A(b"pw", params=pa); m=s.start(); d=s.serialize()
try:
    r=SPAKE2_A.from_serialized(d, params=pb); print("C09 restored under different generator silently; same outbound:", r.outbound_message==s.outbound_message)
except Exception as e: print("raised", type(e).__name__)
# C14: toy identity
import itertools
for i in range(200):
    seed=b"s%d"%i
    try:
        e=Ia.arbitrary_element(seed)
        if e._e==1: print("C14 identity arbitrary_element seed",seed); break
    except AssertionError: print("C14 assertion seed", seed)
# Symmetric: sym state offered to A
ss=SPAKE2_Symmetric(b"pw"); ss.start(); sd=ss.serialize()
for k in (SPAKE2_A,SPAKE2_B):
    try: k.from_serialized(sd); print("silently")
    except Exception as e: print("sym->",k.__name__, type(e).__name__)
# empty / unknown side for symmetric
for m in (b"", b"C"+mb[1:]):
    ss=SPAKE2_Symmetric(b"pw"); ss.start()
    try: ss.finish(m)
    except Exception as e: print("sym finish", m[:1], type(e).__name__)
a=SPAKE2_A(b"pw"); a.start()
try: a.finish(b"")
except Exception as e: print("A finish empty", type(e).__name__)
# finish before start
a=SPAKE2_A(b"pw")
try: a.finish(mb)
except Exception as e: print("finish before start", type(e).__name__, e)
try: a.start(); print("then start ok")
except Exception as e: print(type(e).__name__)
try: a.finish(mb)
except Exception as e: print("finish again", type(e).__name__)
# sizes
from spake2.parameters.all import *
for p in (ParamsEd25519,Params1024,Params2048,Params3072):
    s=SPAKE2_A(b"pw",params=p); print(len(s.start()), len(s.serialize()))
print(s.serialize()[:150])
