import sys
sys.path.insert(0,'/repo/src')
from spake2.spake2 import *
from spake2.test.common import PRG
s1=SPAKE2_Symmetric(b"pw", entropy_f=PRG(b"x")); s2=SPAKE2_Symmetric(b"pw", entropy_f=PRG(b"x"))
s3=SPAKE2_Symmetric(b"other")
m1,m2,z=s1.start(),s2.start(),s3.start()
print("same outbound:", m1==m2)
k1,k2=s1.finish(z),s2.finish(z)
print("C02 symmetric equal scalars, both messages substituted, equal keys:", k1==k2)
# installed spake2 location
import spake2; print(spake2.__file__)
