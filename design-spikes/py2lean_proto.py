import ast, sys
src=open('/repo/src/spake2/ed25519_basic.py').read()
mod=ast.parse(src)
BIN={ast.Add:'+',ast.Sub:'-',ast.Mult:'*',ast.Mod:'%'}
def ex(e):
    if isinstance(e,ast.BinOp):
        if type(e.op) in BIN: return f"({ex(e.left)} {BIN[type(e.op)]} {ex(e.right)})"
        if isinstance(e.op,ast.Pow): return f"({ex(e.left)} ^ {ex(e.right)})"
        raise NotImplementedError(ast.dump(e))
    if isinstance(e,ast.UnaryOp) and isinstance(e.op,ast.USub): return f"(-{ex(e.operand)})"
    if isinstance(e,ast.Name): return {'_':'u_'}.get(e.id,e.id+"_" if e.id in ('d','I') else e.id)
    if isinstance(e,ast.Constant) and isinstance(e.value,int): return str(e.value)
    if isinstance(e,ast.Tuple): return "("+", ".join(ex(x) for x in e.elts)+")"
    raise NotImplementedError(ast.dump(e))
def fn(f):
    args=[a.arg for a in f.args.args]
    lines=[f"def {f.name.lstrip('_')} "+" ".join(f"({a} : Int × Int × Int × Int)" for a in args)+" : Int × Int × Int × Int :="]
    for st in f.body:
        if isinstance(st,ast.Assign):
            t=st.targets[0]
            if isinstance(t,ast.Tuple):
                lines.append(f"  let ({', '.join('_u' if x.id=='_' else x.id for x in t.elts)}) := {ex(st.value)}")
            else:
                lines.append(f"  let {t.id} := {ex(st.value)}")
        elif isinstance(st,ast.Return): lines.append("  "+ex(st.value))
        elif isinstance(st,ast.Expr): pass
        else: raise NotImplementedError(ast.dump(st))
    return "\n".join(lines)
want={'double_element','add_elements','_add_elements_nonunfied'}
print("def Q : Int := 2^255 - 19\nvariable (d_ : Int)\n")
for n in mod.body:
    if isinstance(n,ast.FunctionDef) and n.name in want: print(fn(n)); print()
