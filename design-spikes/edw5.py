import pickle
from sympy import symbols, expand
x1,y1,x2,y2,x3,y3,d = symbols('x1 y1 x2 y2 x3 y3 d')
L=lambda e: str(expand(e)).replace("**","^")
res=pickle.load(open("assoc.pkl","rb"))
tmpl = open("/tmp/spike/assoc_tmpl.lean").read()
for k in ("x","y"):
    g,qs=res[k]
    for j,q in enumerate(qs): tmpl=tmpl.replace("C%s%d"%(k.upper(),j+1), L(q))
open("/tmp/spike/spk/Spk/Edw3.lean","w").write(tmpl)
