import sys, json
sys.path.insert(0,'/repo/src')
from spake2 import ed25519_basic as eb
Q,L,d=eb.Q,eb.L,eb.d
# 1. a point of order 8: take points with arbitrary y, multiply by L
def aff(pt): return eb.xform_extended_to_affine(pt)
found=None
for y in range(2,200):
    x=eb.xrecover(y)
    if not eb.isoncurve([x,y]): continue
    P=eb.xform_affine_to_extended([x,y])
    T=eb.scalarmult_element_safe_slow(P,L)
    T4=eb.scalarmult_element_safe_slow(T,4)
    T8=eb.scalarmult_element_safe_slow(T,8)
    if not eb.is_extended_zero(T4) and eb.is_extended_zero(T8):
        found=aff(T); print("order-8 point from y=",y, found); break
assert eb.isoncurve(found)
# 2. toy curve search: q prime = 5 mod 8, a=-1, d nonsquare, #E = 8*l, l prime
def isprime(n):
    if n<2: return False
    i=2
    while i*i<=n:
        if n%i==0: return False
        i+=1
    return True
def count(q,dd):
    n=0
    sq={}
    for x in range(q): sq.setdefault(x*x%q,[]).append(x)
    for y in range(q):
        den=(dd*y*y+1)%q
        if den==0: continue
        xx=(y*y-1)*pow(den,q-2,q)%q
        n+=len(sq.get(xx,[]))
    return n
res=[]
for q in range(100,3000):
    if not isprime(q) or q%8!=5: continue
    for dd in range(2,q):
        if pow(dd,(q-1)//2,q)!=q-1: continue
        n=count(q,dd)
        if n%8==0 and isprime(n//8) and n//8>50:
            res.append((q,dd,n//8)); break
    if len(res)>=4: break
print("toy curves (Q,d,L):",res)
json.dump({"order8":[int(found[0]),int(found[1])],"toy":res}, open("misc.json","w"))
