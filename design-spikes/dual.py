from sympy import symbols, QQ, Poly, reduced, expand
x1,y1,x2,y2,d = symbols('x1 y1 x2 y2 d')
e=lambda x,y: -x**2 + y**2 - 1 - d*x**2*y**2
K=QQ.frac_field(d)
# unified: x3 = (x1y2+y1x2)/(1+d x1x2y1y2); dual: x3 = (x1y1+x2y2)/(y1y2 - x1x2)
gx = expand((x1*y2+y1*x2)*(y1*y2-x1*x2) - (x1*y1+x2*y2)*(1+d*x1*x2*y1*y2))
gy = expand((y1*y2+x1*x2)*(x1*y2-y1*x2) - (x1*y1-x2*y2)*(1-d*x1*x2*y1*y2))
for n,g in (("x",gx),("y",gy)):
    qs,r=reduced(g,[e(x1,y1),e(x2,y2)],x1,y1,x2,y2,domain=K,order='grevlex')
    print(n,"rem",r,"cof:",[str(q).replace('**','^') for q in qs])
