import sys, json, time
from sympy import factorint, isprime, primitive_root
sys.setrecursionlimit(10000)
Q = 2**255-19
L = 2**252 + 27742317777372353535851937790883648493
q1024=0xE950511EAB424B9A19A2AEB4E159B7844C589C4F
q2048=0x90EAF4D1AF0708B1B612FF35E0A2997EB9E9D263C9CE659528945C0D
q3072=0xCFA0478A54717B08CE64805B76E5B14249A77A4838469DF7F7DC987EFCCFB11D
cert={}
def witness(p, fs):
    for a in range(2, 1000):
        if pow(a,p-1,p)!=1: raise Exception("composite %d"%p)
        if all(pow(a,(p-1)//f,p)!=1 for f in fs): return a
    raise Exception("no witness")
def pratt(p, depth=0):
    if p in cert or p < 1000: return
    t=time.time()
    if p==L:
        f={2:2,3:1,11:1,198211423230930754013084525763697:1,276602624281642239937218680557139826668747:1}
    else:
        f=factorint(p-1)
    print("  "*depth, p.bit_length(), "bits factored in %.1fs"%(time.time()-t), f, flush=True)
    cert[p]={"a":witness(p,list(f)), "factors":{str(k):v for k,v in f.items()}}
    for k in f: pratt(k, depth+1)
name=sys.argv[1]
n={"Q":Q,"L":L,"q1024":q1024,"q2048":q2048,"q3072":q3072}[name]
assert isprime(n)
pratt(n)
json.dump({str(k):v for k,v in cert.items()}, open("/tmp/spike/pratt_%s.json"%name,"w"), indent=1)
print("DONE", name, len(cert))
