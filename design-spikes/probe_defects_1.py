import sys
sys.path.insert(0,'/repo/src')
from spake2 import ed25519_basic as eb, groups, util
from spake2.ed25519_group import Ed25519Group as G
from spake2.spake2 import *
from spake2.params import _Params
from binascii import hexlify, unhexlify
Q,L=eb.Q,eb.L
# negate
P=eb.Base
print("negate==-1*P:", P.negate()==P.scalarmult(-1), " negate==-2P:", P.negate()==P.scalarmult(-2))
# add Zero
r=P.add(eb.Zero); print("P.add(Zero) type:", type(r).__name__)
try: r.scalarmult(-1); print("neg ok")
except AssertionError as e: print("P.add(Zero).scalarmult(-1) AssertionError")
r2=eb.Zero.add(P); print("Zero.add(P) type", type(r2).__name__)
# int group eq
g=groups.I1024
print("int eq:", g.Base.scalarmult(2)==g.Base.add(g.Base), g.Base.scalarmult(2).to_bytes()==g.Base.add(g.Base).to_bytes())
# decoding: long/short
b=P.to_bytes()
for t in [b+b, b+b"\0", b[:31], b""]:
    try:
        e=G.bytes_to_element(t); print(len(t),"accepted", e.to_bytes()==b)
    except Exception as ex: print(len(t),"rejected",type(ex).__name__, ex)
# noncanonical
def le(n): return n.to_bytes(32,'little')
cands={"y=1,sign":le(1|(1<<255)), "y=Q+1":le(Q+1), "y=Q+1,sign":le((Q+1)|(1<<255)), "zero":le(1)}
for k,v in cands.items():
    try:
        e=G.bytes_to_element(v); print(k,"accepted",type(e).__name__, hexlify(e.to_bytes()))
    except Exception as ex: print(k,"rejected",type(ex).__name__, ex)
for yy in range(0,19):
  for s in (0,1):
    v=le((Q+yy)|(s<<255))
    try:
        e=G.bytes_to_element(v); print("y=Q+%d s=%d accepted"%(yy,s), hexlify(e.to_bytes()))
    except Exception as ex: pass
# x=0,y=-1 with sign
for name,y in [("y=-1",Q-1)]:
  for s in (0,1):
    try:
        e=eb.bytes_to_unknown_group_element(le(y|(s<<255))); print(name,s,"unknown-accepted", hexlify(e.to_bytes())==hexlify(le(y|(s<<255))))
    except Exception as ex: print(name,s,"rejected",ex)
