import json,sys
name=sys.argv[1]
cert=json.load(open(f"/tmp/spike/pratt_{name}.json"))
out=["import Spk.Pratt","set_option maxRecDepth 100000",""]
done=set()
def thm(p): return f"prime_{p}"
def emit(p):
    p=int(p)
    if p in done: return
    done.add(p)
    if str(p) not in cert:
        out.append(f"theorem {thm(p)} : Nat.Prime {p} := by norm_num")
        return
    c=cert[str(p)]
    for f in c["factors"]: emit(f)
    fs=", ".join(f"({f}, {e})" for f,e in c["factors"].items())
    cases=" ".join(f"exact {thm(f)};" for f in c["factors"])
    out.append(f"theorem {thm(p)} : Nat.Prime {p} := by\n  apply prime_of_pratt {p} {c['a']} [{fs}] (by decide +kernel)\n  · intro f hf; simp only [List.mem_cons, List.mem_nil_iff, or_false] at hf; rcases hf with " + " | ".join(["rfl"]*len(c["factors"])) + "\n" + "\n".join(f"    · exact {thm(f)}" for f in c["factors"]) + "\n  · decide +kernel\n  · decide +kernel\n  · decide +kernel")
for p in cert: emit(p)
open(f"/tmp/spike/spk/Spk/Prime{name}.lean","w").write("\n".join(out)+"\n")
