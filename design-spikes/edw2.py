import time, sys, pickle
from sympy import symbols, QQ, Poly, reduced, expand
x1,y1,x2,y2,x3,y3,d = symbols('x1 y1 x2 y2 x3 y3 d')
def e(x,y): return -x**2 + y**2 - 1 - d*x**2*y**2
# addition on fractions: point = (nx,dx,ny,dy) meaning x=nx/dx, y=ny/dy
def addf(P,R):
    (nxa,dxa,nya,dya),(nxb,dxb,nyb,dyb)=P,R
    # x = (xa*yb + ya*xb)/(1 + d xa xb ya yb)
    # common denominators: D = dxa*dya*dxb*dyb
    nx = nxa*dya*nyb*dxb + nya*dxa*nxb*dyb
    dx = dxa*dya*dxb*dyb + d*nxa*nxb*nya*nyb
    ny = nya*nyb*dxa*dxb + nxa*nxb*dya*dyb
    dy = dxa*dya*dxb*dyb - d*nxa*nxb*nya*nyb
    return (nx,dx,ny,dy)
P1=(x1,1,y1,1); P2=(x2,1,y2,1); P3=(x3,1,y3,1)
Lh = addf(addf(P1,P2),P3)
Rh = addf(P1,addf(P2,P3))
K = QQ.frac_field(d)
gens=(x1,y1,x2,y2,x3,y3)
res={}
for name,(a,b,c,dd) in {"x":(Lh[0],Lh[1],Rh[0],Rh[1]), "y":(Lh[2],Lh[3],Rh[2],Rh[3])}.items():
    t=time.time()
    g = expand(a*dd - c*b)
    print(name, "g terms", len(Poly(g,*gens,d).terms()), "expand %.1fs"%(time.time()-t), flush=True)
    t=time.time()
    qs, r = reduced(g, [e(x1,y1), e(x2,y2), e(x3,y3)], *gens, domain=K, order='grevlex')
    print(name, "rem", r, "time %.1f"%(time.time()-t), [len(Poly(q,*gens).terms()) for q in qs], flush=True)
    res[name]=(g,qs)
pickle.dump(res, open("assoc.pkl","wb"))
