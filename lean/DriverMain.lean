import Spake2Model.Model.Driver
def main : IO Unit := do
  let out ← IO.getStdout
  Spake2Model.Driver.loop (← IO.getStdin) out {}
