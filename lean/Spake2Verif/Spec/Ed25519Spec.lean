import Spake2Verif.Spec.GroupSpec
import Spake2Verif.Proofs.EdOps
import Spake2Verif.Proofs.EdCodec

/-!
# The Ed25519 instance of `GroupSpec`

For every curve record `c` satisfying `CurveOK c`, the Python-level operations bundled in
`edGroup c` realise — on `Valid` element objects — the prime-order subgroup of the group of points
of the twisted Edwards curve `-x² + y² = 1 + d·x²·y²` over `ZMod Q`.
-/
namespace Spake2Verif
open Spake2Model Spake2Model.Gen Spake2Verif.Edw Spake2Verif.EdBridge

namespace CurveOK
variable {c : Curve} [Fact c.Q.toNat.Prime] (h : CurveOK c)
include h

/-- completeness of `bytes_to_element` on the encodings of valid non-identity elements -/
theorem dec_enc (a : EdElem) (va : Valid h a) (hnz : abs h a ≠ 0) :
    ∃ e, Ed25519.dec c (Ed25519.toBytes c a) = .ok e ∧ abs h e = abs h a := by
  have : NeZero c.Q.toNat := ⟨(Fact.out : c.Q.toNat.Prime).ne_zero⟩
  obtain ⟨P, r, -, tor, hP, -⟩ := Valid.view h va
  rw [hP] at hnz ⊢
  rw [(h.toBytes_rep r).2]
  -- the unknown-group element built from the decoded coordinates represents `P`
  have rU := h.affine_rep ((P.x.val : ℤ), (P.y.val : ℤ)) P
    (by show (((P.x.val : ℕ) : ℤ) : ZMod c.Q.toNat) = P.x
        rw [Int.cast_natCast, ZMod.natCast_zmod_val])
    (by show (((P.y.val : ℕ) : ℤ) : ZMod c.Q.toNat) = P.y
        rw [Int.cast_natCast, ZMod.natCast_zmod_val])
  set pt := Ed.xform_affine_to_extended c.Q ((P.x.val : ℤ), (P.y.val : ℤ)) with hpt
  have hU : Ed25519.decUnknown c (encP h P) = .ok ⟨.unknown, pt⟩ := by
    unfold Ed25519.decUnknown
    rw [if_neg (fun e => hnz (h.encP_injective (e.trans h.zeroBytes_eq))), h.decode_encode P]
  have rL := h.safe_rep rU.1 c.L (by have := h.L_gt; omega)
  have hz : Ed.is_extended_zero c.Q (Ed.scalarmult_element_safe_slow c.Q c.d pt c.L) = true :=
    (h.zero_iff rL.1 rL.2).2 (h.L_zsmul tor)
  have hb : Ed25519.toBytes c ⟨.elem, pt⟩ = encP h P := (h.toBytes_rep (e := ⟨.elem, pt⟩) rU.1).2
  refine ⟨⟨.elem, pt⟩, ?_, h.abs_of_rep (e := ⟨.elem, pt⟩) rU.1⟩
  unfold Ed25519.dec
  rw [hU]
  simp only [hz, hb]
  rw [if_neg (by decide)]
  simp

end CurveOK

/-- **the Ed25519 instance**: the operations of `edGroup c` against the group of curve points -/
noncomputable def ed25519Spec (c : Curve) (h : CurveOK c) : GroupSpec (edGroup c) :=
  haveI : Fact c.Q.toNat.Prime := h.fact
  { A := Point (CurveOK.EC h)
    abs := CurveOK.abs h
    Valid := CurveOK.Valid h
    q := c.L.toNat
    q_pos := h.L_prime.pos
    order_eq := h.L_cast.symm
    rejectsIdentity := true
    base_valid := h.valid_base
    zero_valid := h.valid_zero
    abs_zero := h.abs_zero
    add_ok := h.add_ok
    smul_ok := h.smul_ok
    order_smul := h.order_smul
    enc_len := h.enc_len
    enc_inj := h.enc_inj
    dec_strict := fun b e _ hd => h.dec_strict b e hd
    dec_nonzero := fun _ b e _ hd => h.dec_nonzero b e hd
    dec_enc := fun a va hnz => h.dec_enc a va (hnz rfl)
    dec_zero := fun _ a va ha => h.dec_zero a va ha
    scalar_rt := fun x h0 h1 => h.scalar_rt x h0 (by rw [← h.L_cast]; exact h1)
    p2s_range := fun pw => by
      have := h.p2s_range pw
      rw [h.L_cast]; exact this
    random_range := fun ent x ent' hr => by
      have := h.random_range ent x ent' hr
      rw [h.L_cast]; exact this
    arb_valid := h.arb_valid }

namespace Ed25519Spec
variable (c : Curve) (h : CurveOK c)

@[simp] theorem q_eq : (ed25519Spec c h).q = c.L.toNat := rfl
@[simp] theorem rejectsIdentity_eq : (ed25519Spec c h).rejectsIdentity = true := rfl

/-- unfolding of `Valid`: the `Zero` object, or an `Element` whose reduced coordinates represent a
non-identity point killed by `L` -/
theorem valid_iff (e : EdElem) :
    (ed25519Spec c h).Valid e ↔
      haveI : Fact c.Q.toNat.Prime := h.fact
      (e = Ed25519.Zero c ∨
        (e.kind = .elem ∧ EdBridge.Reduced c.Q.toNat e.pt ∧
          ∃ P : Point (CurveOK.EC h), EdBridge.Rep (CurveOK.EC h) e.pt P ∧ P ≠ 0 ∧
            c.L.toNat • P = 0)) := Iff.rfl

/-- `abs` of a valid `Element` is zero only for the `Zero` object -/
theorem abs_eq_zero_iff (e : EdElem) (v : (ed25519Spec c h).Valid e) :
    (ed25519Spec c h).abs e = 0 ↔ e = Ed25519.Zero c := by
  have : Fact c.Q.toNat.Prime := h.fact
  constructor
  · intro h0
    obtain ⟨P, -, -, -, hP, hcase⟩ := CurveOK.Valid.view h v
    rcases hcase with ⟨he, -⟩ | ⟨-, hne⟩
    · exact he
    · exact absurd (hP.symm.trans h0) hne
  · rintro rfl
    exact h.abs_zero

/-- the base point generates a subgroup of order exactly `L` -/
theorem baseOrder : (ed25519Spec c h).BaseOrder := by
  have : Fact c.Q.toNat.Prime := h.fact
  intro n hn
  have := h.base_order n hn
  show ((c.L.toNat : ℕ) : ℤ) ∣ n
  rw [h.L_cast]; exact this

/-- `a.negate()` on valid elements is group negation -/
theorem negate_spec (a : EdElem) (va : (ed25519Spec c h).Valid a) :
    ∃ b, Ed25519.negate c a = .ok b ∧ (ed25519Spec c h).Valid b ∧
      (ed25519Spec c h).abs b = - (ed25519Spec c h).abs a :=
  haveI : Fact c.Q.toNat.Prime := h.fact
  h.negate_spec a va

/-- `a.subtract(b)` on valid elements is group subtraction -/
theorem subtract_spec (a b : EdElem) (va : (ed25519Spec c h).Valid a)
    (vb : (ed25519Spec c h).Valid b) :
    ∃ r, Ed25519.subtract c a b = .ok r ∧ (ed25519Spec c h).Valid r ∧
      (ed25519Spec c h).abs r = (ed25519Spec c h).abs a - (ed25519Spec c h).abs b :=
  haveI : Fact c.Q.toNat.Prime := h.fact
  h.subtract_spec a b va vb

/-- `a == b` on valid elements is equality of the points -/
theorem eq_spec (a b : EdElem) (va : (ed25519Spec c h).Valid a) (vb : (ed25519Spec c h).Valid b) :
    Ed25519.eq c a b = true ↔ (ed25519Spec c h).abs a = (ed25519Spec c h).abs b :=
  haveI : Fact c.Q.toNat.Prime := h.fact
  h.eq_spec a b va vb

/-- the `neg` field of `edGroup c` is `negate` -/
theorem neg_eq : (edGroup c).neg = Ed25519.negate c := rfl

/-- the scalar `Element.negate` multiplies by -/
theorem negate_scalar_eq (L : ℤ) : Ed.negate_scalar L = L - 1 := by
  unfold Ed.negate_scalar; omega

end Ed25519Spec

#print axioms ed25519Spec
#print axioms Ed25519Spec.baseOrder
#print axioms Ed25519Spec.negate_spec
#print axioms Ed25519Spec.subtract_spec
#print axioms Ed25519Spec.eq_spec

end Spake2Verif

