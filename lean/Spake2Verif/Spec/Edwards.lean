import Mathlib.Tactic.FieldSimp
import Mathlib.Tactic.LinearCombination
import Mathlib.Tactic.Ring
import Mathlib.Algebra.Field.Basic
import Mathlib.Algebra.Group.Defs

/-!
# The `a = -1` twisted Edwards curve `-x² + y² = 1 + d x² y²` over an arbitrary field

Hypotheses: `i² = -1` (so `a = -1` is a square), `d` a non-square, `2 ≠ 0`.
Under these the addition law is complete; curve points form a commutative group.
Cofactors of the `linear_combination` certificates were produced by sympy
(`design-spikes/edw*.py`) and are re-checked here by `ring`.
-/
namespace Spake2Verif.Edw
variable {F : Type*} [Field F]

/-- a = -1 twisted Edwards curve  -x² + y² = 1 + d x² y² -/
def OnCurve (d x y : F) : Prop := -x^2 + y^2 = 1 + d*x^2*y^2

theorem complete (d i : F) (hi : i^2 = -1) (hd : ∀ s : F, s^2 ≠ d) (h2 : (2:F) ≠ 0)
    {x1 y1 x2 y2 : F} (h1 : OnCurve d x1 y1) (h2c : OnCurve d x2 y2) :
    (d*x1*x2*y1*y2)^2 ≠ 1 := by
  intro he
  unfold OnCurve at h1 h2c
  set ε := d*x1*x2*y1*y2 with hε
  have hx1 : x1 ≠ 0 := by rintro rfl; simp [hε] at he
  have hy1 : y1 ≠ 0 := by rintro rfl; simp [hε] at he
  have key : d*x1^2*y1^2*(-x2^2 + y2^2) = -x1^2 + y1^2 := by
    rw [h2c, h1]; linear_combination he
  have sqp : (i*x1 + ε*y1)^2 = d*x1^2*y1^2*(i*x2 + y2)^2 := by
    linear_combination (x1^2 - d*x1^2*y1^2*x2^2) * hi + y1^2 * he - key + 2*i*x1*y1*hε
  have sqm : (i*x1 - ε*y1)^2 = d*x1^2*y1^2*(i*x2 - y2)^2 := by
    linear_combination (x1^2 - d*x1^2*y1^2*x2^2) * hi + y1^2 * he - key - 2*i*x1*y1*hε
  by_cases hp : i*x2 + y2 = 0
  · by_cases hm : i*x2 - y2 = 0
    · have : 2*y2 = 0 := by linear_combination hp - hm
      have hy2 : y2 = 0 := by
        rcases mul_eq_zero.1 this with h | h
        · exact absurd h h2
        · exact h
      subst hy2; simp [hε] at he
    · apply hd ((i*x1 - ε*y1)/(x1*y1*(i*x2 - y2)))
      field_simp
      linear_combination sqm
  · apply hd ((i*x1 + ε*y1)/(x1*y1*(i*x2 + y2)))
    field_simp
    linear_combination sqp

def addX (d x1 y1 x2 y2 : F) : F := (x1*y2 + y1*x2) / (1 + d*x1*x2*y1*y2)
def addY (d x1 y1 x2 y2 : F) : F := (y1*y2 + x1*x2) / (1 - d*x1*x2*y1*y2)

theorem denoms_ne {d x1 y1 x2 y2 : F} (h : (d*x1*x2*y1*y2)^2 ≠ 1) :
    1 + d*x1*x2*y1*y2 ≠ 0 ∧ 1 - d*x1*x2*y1*y2 ≠ 0 := by
  constructor
  · intro h0; apply h; have : d*x1*x2*y1*y2 = -1 := by linear_combination h0
    rw [this]; ring
  · intro h0; apply h; have : d*x1*x2*y1*y2 = 1 := by linear_combination -h0
    rw [this]; ring

theorem closure {d x1 y1 x2 y2 : F} (h1 : OnCurve d x1 y1) (h2 : OnCurve d x2 y2)
    (hn : (d*x1*x2*y1*y2)^2 ≠ 1) : OnCurve d (addX d x1 y1 x2 y2) (addY d x1 y1 x2 y2) := by
  obtain ⟨hp, hm⟩ := denoms_ne hn
  unfold OnCurve at *
  unfold addX addY
  generalize hDp : 1 + d*x1*x2*y1*y2 = Dp at hp ⊢
  generalize hDm : 1 - d*x1*x2*y1*y2 = Dm at hm ⊢
  field_simp
  subst hDp hDm
  linear_combination (d^3*x1^2*x2^4*y1^2*y2^4 - d^2*x1^2*x2^4*y2^4 + d^2*x2^4*y1^2*y2^4 - d^2*x2^4*y2^4 - d*x1^2*x2^4*y2^2 + d*x1^2*x2^2*y2^4 + d*x2^4*y1^2*y2^2 - 2*d*x2^4*y2^4 - d*x2^2*y1^2*y2^4 - 2*d*x2^2*y2^2 - 2*x2^4*y2^2 + x2^4 + 2*x2^2*y2^4 - 4*x2^2*y2^2 + y2^4) * h1 + (d*x1^4*x2^2*y2^2 + 2*d*x1^2*x2^2*y2^2 + d*x2^2*y1^4*y2^2 - 2*d*x2^2*y1^2*y2^2 + d*x2^2*y2^2 + 2*x1^2*x2^2*y2^2 - x1^2*x2^2 + x1^2*y2^2 - 2*x2^2*y1^2*y2^2 + x2^2*y1^2 + 2*x2^2*y2^2 - x2^2 - y1^2*y2^2 + y2^2 + 1) * h2

theorem addX_fracL (d nxa dxa nya dya x3 y3 : F) (hdx : dxa ≠ 0) (hdy : dya ≠ 0) :
    addX d (nxa/dxa) (nya/dya) x3 y3 = (nxa*dya*y3 + nya*dxa*x3) / (dxa*dya + d*nxa*nya*x3*y3) := by
  unfold addX
  have e1 : nxa/dxa*y3 + nya/dya*x3 = (nxa*dya*y3 + nya*dxa*x3)/(dxa*dya) := by field_simp
  have e2 : 1 + d*(nxa/dxa)*x3*(nya/dya)*y3 = (dxa*dya + d*nxa*nya*x3*y3)/(dxa*dya) := by field_simp
  rw [e1, e2, div_div_div_cancel_right₀ (mul_ne_zero hdx hdy)]

theorem addX_fracR (d x1 y1 nxb dxb nyb dyb : F) (hdx : dxb ≠ 0) (hdy : dyb ≠ 0) :
    addX d x1 y1 (nxb/dxb) (nyb/dyb) = (x1*nyb*dxb + y1*nxb*dyb) / (dxb*dyb + d*x1*y1*nxb*nyb) := by
  unfold addX
  have e1 : x1*(nyb/dyb) + y1*(nxb/dxb) = (x1*nyb*dxb + y1*nxb*dyb)/(dxb*dyb) := by field_simp
  have e2 : 1 + d*x1*(nxb/dxb)*y1*(nyb/dyb) = (dxb*dyb + d*x1*y1*nxb*nyb)/(dxb*dyb) := by field_simp
  rw [e1, e2, div_div_div_cancel_right₀ (mul_ne_zero hdx hdy)]

theorem addY_fracL (d nxa dxa nya dya x3 y3 : F) (hdx : dxa ≠ 0) (hdy : dya ≠ 0) :
    addY d (nxa/dxa) (nya/dya) x3 y3 = (nya*y3*dxa + nxa*x3*dya) / (dxa*dya - d*nxa*nya*x3*y3) := by
  unfold addY
  have e1 : nya/dya*y3 + nxa/dxa*x3 = (nya*y3*dxa + nxa*x3*dya)/(dxa*dya) := by field_simp
  have e2 : 1 - d*(nxa/dxa)*x3*(nya/dya)*y3 = (dxa*dya - d*nxa*nya*x3*y3)/(dxa*dya) := by field_simp
  rw [e1, e2, div_div_div_cancel_right₀ (mul_ne_zero hdx hdy)]

theorem addY_fracR (d x1 y1 nxb dxb nyb dyb : F) (hdx : dxb ≠ 0) (hdy : dyb ≠ 0) :
    addY d x1 y1 (nxb/dxb) (nyb/dyb) = (y1*nyb*dxb + x1*nxb*dyb) / (dxb*dyb - d*x1*y1*nxb*nyb) := by
  unfold addY
  have e1 : y1*(nyb/dyb) + x1*(nxb/dxb) = (y1*nyb*dxb + x1*nxb*dyb)/(dxb*dyb) := by field_simp
  have e2 : 1 - d*x1*(nxb/dxb)*y1*(nyb/dyb) = (dxb*dyb - d*x1*y1*nxb*nyb)/(dxb*dyb) := by field_simp
  rw [e1, e2, div_div_div_cancel_right₀ (mul_ne_zero hdx hdy)]

/-- associativity, for any three curve points whose four partial sums have non-vanishing denominators -/
theorem assoc {d x1 y1 x2 y2 x3 y3 : F}
    (h1 : OnCurve d x1 y1) (h2 : OnCurve d x2 y2) (h3 : OnCurve d x3 y3)
    (n12 : (d*x1*x2*y1*y2)^2 ≠ 1) (n23 : (d*x2*x3*y2*y3)^2 ≠ 1)
    (nL : (d*(addX d x1 y1 x2 y2)*x3*(addY d x1 y1 x2 y2)*y3)^2 ≠ 1)
    (nR : (d*x1*(addX d x2 y2 x3 y3)*y1*(addY d x2 y2 x3 y3))^2 ≠ 1) :
    addX d (addX d x1 y1 x2 y2) (addY d x1 y1 x2 y2) x3 y3 = addX d x1 y1 (addX d x2 y2 x3 y3) (addY d x2 y2 x3 y3)
    ∧ addY d (addX d x1 y1 x2 y2) (addY d x1 y1 x2 y2) x3 y3 = addY d x1 y1 (addX d x2 y2 x3 y3) (addY d x2 y2 x3 y3) := by
  obtain ⟨p12, m12⟩ := denoms_ne n12
  obtain ⟨p23, m23⟩ := denoms_ne n23
  obtain ⟨pL, mL⟩ := denoms_ne nL
  obtain ⟨pR, mR⟩ := denoms_ne nR
  -- outer denominators in polynomial form
  have eL : ∀ s : F, (1 + s * (d*(addX d x1 y1 x2 y2)*x3*(addY d x1 y1 x2 y2)*y3)) * ((1 + d*x1*x2*y1*y2)*(1 - d*x1*x2*y1*y2))
        = (1 + d*x1*x2*y1*y2)*(1 - d*x1*x2*y1*y2) + s * (d*(x1*y2+y1*x2)*(y1*y2+x1*x2)*x3*y3) := by
    intro s; unfold addX addY
    generalize 1 + d*x1*x2*y1*y2 = A at p12 ⊢
    generalize 1 - d*x1*x2*y1*y2 = B at m12 ⊢
    field_simp
  have eR : ∀ s : F, (1 + s * (d*x1*(addX d x2 y2 x3 y3)*y1*(addY d x2 y2 x3 y3))) * ((1 + d*x2*x3*y2*y3)*(1 - d*x2*x3*y2*y3))
        = (1 + d*x2*x3*y2*y3)*(1 - d*x2*x3*y2*y3) + s * (d*x1*y1*(x2*y3+y2*x3)*(y2*y3+x2*x3)) := by
    intro s; unfold addX addY
    generalize 1 + d*x2*x3*y2*y3 = A at p23 ⊢
    generalize 1 - d*x2*x3*y2*y3 = B at m23 ⊢
    field_simp
  have dLp : (1 + d*x1*x2*y1*y2)*(1 - d*x1*x2*y1*y2) + d*(x1*y2+y1*x2)*(y1*y2+x1*x2)*x3*y3 ≠ 0 := by
    have := eL 1; rw [one_mul, one_mul] at this; rw [← this]; exact mul_ne_zero pL (mul_ne_zero p12 m12)
  have dLm : (1 + d*x1*x2*y1*y2)*(1 - d*x1*x2*y1*y2) - d*(x1*y2+y1*x2)*(y1*y2+x1*x2)*x3*y3 ≠ 0 := by
    have := eL (-1); rw [neg_one_mul, neg_one_mul, ← sub_eq_add_neg, ← sub_eq_add_neg] at this; rw [← this]; exact mul_ne_zero mL (mul_ne_zero p12 m12)
  have dRp : (1 + d*x2*x3*y2*y3)*(1 - d*x2*x3*y2*y3) + d*x1*y1*(x2*y3+y2*x3)*(y2*y3+x2*x3) ≠ 0 := by
    have := eR 1; rw [one_mul, one_mul] at this; rw [← this]; exact mul_ne_zero pR (mul_ne_zero p23 m23)
  have dRm : (1 + d*x2*x3*y2*y3)*(1 - d*x2*x3*y2*y3) - d*x1*y1*(x2*y3+y2*x3)*(y2*y3+x2*x3) ≠ 0 := by
    have := eR (-1); rw [neg_one_mul, neg_one_mul, ← sub_eq_add_neg, ← sub_eq_add_neg] at this; rw [← this]; exact mul_ne_zero mR (mul_ne_zero p23 m23)
  unfold OnCurve at h1 h2 h3
  constructor
  · conv_lhs => rw [show addX d x1 y1 x2 y2 = (x1*y2+y1*x2)/(1 + d*x1*x2*y1*y2) from rfl,
                    show addY d x1 y1 x2 y2 = (y1*y2+x1*x2)/(1 - d*x1*x2*y1*y2) from rfl]
    conv_rhs => rw [show addX d x2 y2 x3 y3 = (x2*y3+y2*x3)/(1 + d*x2*x3*y2*y3) from rfl,
                    show addY d x2 y2 x3 y3 = (y2*y3+x2*x3)/(1 - d*x2*x3*y2*y3) from rfl]
    rw [addX_fracL _ _ _ _ _ _ _ p12 m12, addX_fracR _ _ _ _ _ _ _ p23 m23]
    rw [div_eq_div_iff dLp dRp]
    linear_combination (-d^2*x1*x2^4*x3^2*y2^3*y3 - d^2*x1*x2^3*x3*y2^4*y3^2 + d^2*x2^4*x3*y1*y2^3*y3^2 + d^2*x2^3*x3^2*y1*y2^4*y3 - d*x1*x2^4*x3^2*y2*y3 - d*x1*x2^3*x3^3*y2^2 - d*x1*x2^3*x3*y2^2 + d*x1*x2^2*y2^3*y3^3 - d*x1*x2^2*y2^3*y3 + d*x1*x2*x3*y2^4*y3^2 + d*x2^4*x3*y1*y2*y3^2 + d*x2^3*y1*y2^2*y3^3 - d*x2^3*y1*y2^2*y3 - d*x2^2*x3^3*y1*y2^3 - d*x2^2*x3*y1*y2^3 - d*x2*x3^2*y1*y2^4*y3) * h1 + (d^2*x1^2*x2^2*x3^3*y1*y2*y3^2 - d^2*x1^2*x2*x3^2*y1*y2^2*y3^3 - d^2*x1*x2^2*x3^2*y1^2*y2*y3^3 + d^2*x1*x2*x3^3*y1^2*y2^2*y3^2 + d*x1^3*x2^2*x3^2*y2*y3 + d*x1^3*x2*x3^3*y3^2 + d*x1^3*x2*x3*y2^2*y3^2 + d*x1^3*x3^2*y2*y3^3 - d*x1^2*x2^2*x3*y1*y2*y3^2 - d*x1^2*x2*x3^2*y1*y2^2*y3 + d*x1^2*x2*x3^2*y1*y3^3 + d*x1^2*x3^3*y1*y2*y3^2 - d*x1*x2^2*x3^2*y1^2*y2*y3 + d*x1*x2^2*x3^2*y2*y3 - d*x1*x2*x3^3*y1^2*y3^2 + d*x1*x2*x3^3*y3^2 - d*x1*x2*x3*y1^2*y2^2*y3^2 + d*x1*x2*x3*y2^2*y3^2 - d*x1*x3^2*y1^2*y2*y3^3 + d*x1*x3^2*y2*y3^3 + d*x2^2*x3*y1^3*y2*y3^2 - d*x2^2*x3*y1*y2*y3^2 + d*x2*x3^2*y1^3*y2^2*y3 - d*x2*x3^2*y1^3*y3^3 - d*x2*x3^2*y1*y2^2*y3 + d*x2*x3^2*y1*y3^3 - d*x3^3*y1^3*y2*y3^2 + d*x3^3*y1*y2*y3^2 + x1^3*x2*x3^3 - x1^3*x2*x3*y3^2 + x1^3*x2*x3 + x1^3*x3^2*y2*y3 - x1^3*y2*y3^3 + x1^3*y2*y3 + x1^2*x2*x3^2*y1*y3 - x1^2*x2*y1*y3^3 + x1^2*x2*y1*y3 + x1^2*x3^3*y1*y2 - x1^2*x3*y1*y2*y3^2 + x1^2*x3*y1*y2 - x1*x2*x3^3*y1^2 + x1*x2*x3^3 + x1*x2*x3*y1^2*y3^2 - x1*x2*x3*y1^2 - x1*x2*x3*y3^2 + x1*x2*x3 - x1*x3^2*y1^2*y2*y3 + x1*x3^2*y2*y3 + x1*y1^2*y2*y3^3 - x1*y1^2*y2*y3 - x1*y2*y3^3 + x1*y2*y3 - x2*x3^2*y1^3*y3 + x2*x3^2*y1*y3 + x2*y1^3*y3^3 - x2*y1^3*y3 - x2*y1*y3^3 + x2*y1*y3 - x3^3*y1^3*y2 + x3^3*y1*y2 + x3*y1^3*y2*y3^2 - x3*y1^3*y2 - x3*y1*y2*y3^2 + x3*y1*y2) * h2 + (-d*x1^2*x2^2*x3*y1*y2 + d*x1^2*x2*y1*y2^2*y3 + d*x1*x2^2*y1^2*y2*y3 - d*x1*x2*x3*y1^2*y2^2 - x1^3*x2^3*x3 - x1^3*x2^2*y2*y3 + x1^3*x2*x3*y2^2 - x1^3*x2*x3 + x1^3*y2^3*y3 - x1^3*y2*y3 - x1^2*x2^3*y1*y3 - x1^2*x2^2*x3*y1*y2 + x1^2*x2*y1*y2^2*y3 - x1^2*x2*y1*y3 + x1^2*x3*y1*y2^3 - x1^2*x3*y1*y2 + x1*x2^3*x3*y1^2 - x1*x2^3*x3 + x1*x2^2*y1^2*y2*y3 - x1*x2^2*y2*y3 - x1*x2*x3*y1^2*y2^2 + x1*x2*x3*y1^2 + x1*x2*x3*y2^2 - x1*x2*x3 - x1*y1^2*y2^3*y3 + x1*y1^2*y2*y3 + x1*y2^3*y3 - x1*y2*y3 + x2^3*y1^3*y3 - x2^3*y1*y3 + x2^2*x3*y1^3*y2 - x2^2*x3*y1*y2 - x2*y1^3*y2^2*y3 + x2*y1^3*y3 + x2*y1*y2^2*y3 - x2*y1*y3 - x3*y1^3*y2^3 + x3*y1^3*y2 + x3*y1*y2^3 - x3*y1*y2) * h3
  · conv_lhs => rw [show addX d x1 y1 x2 y2 = (x1*y2+y1*x2)/(1 + d*x1*x2*y1*y2) from rfl,
                    show addY d x1 y1 x2 y2 = (y1*y2+x1*x2)/(1 - d*x1*x2*y1*y2) from rfl]
    conv_rhs => rw [show addX d x2 y2 x3 y3 = (x2*y3+y2*x3)/(1 + d*x2*x3*y2*y3) from rfl,
                    show addY d x2 y2 x3 y3 = (y2*y3+x2*x3)/(1 - d*x2*x3*y2*y3) from rfl]
    rw [addY_fracL _ _ _ _ _ _ _ p12 m12, addY_fracR _ _ _ _ _ _ _ p23 m23]
    rw [div_eq_div_iff dLm dRm]
    linear_combination (d^2*x1*x2^4*x3*y2^3*y3^2 + d^2*x1*x2^3*x3^2*y2^4*y3 - d^2*x2^4*x3^2*y1*y2^3*y3 - d^2*x2^3*x3*y1*y2^4*y3^2 + d*x1*x2^4*x3*y2*y3^2 + d*x1*x2^3*y2^2*y3^3 - d*x1*x2^3*y2^2*y3 - d*x1*x2^2*x3^3*y2^3 - d*x1*x2^2*x3*y2^3 - d*x1*x2*x3^2*y2^4*y3 - d*x2^4*x3^2*y1*y2*y3 - d*x2^3*x3^3*y1*y2^2 - d*x2^3*x3*y1*y2^2 + d*x2^2*y1*y2^3*y3^3 - d*x2^2*y1*y2^3*y3 + d*x2*x3*y1*y2^4*y3^2) * h1 + (d^2*x1^2*x2^2*x3^2*y1*y2*y3^3 - d^2*x1^2*x2*x3^3*y1*y2^2*y3^2 - d^2*x1*x2^2*x3^3*y1^2*y2*y3^2 + d^2*x1*x2*x3^2*y1^2*y2^2*y3^3 - d*x1^3*x2^2*x3*y2*y3^2 - d*x1^3*x2*x3^2*y2^2*y3 + d*x1^3*x2*x3^2*y3^3 + d*x1^3*x3^3*y2*y3^2 + d*x1^2*x2^2*x3^2*y1*y2*y3 + d*x1^2*x2*x3^3*y1*y3^2 + d*x1^2*x2*x3*y1*y2^2*y3^2 + d*x1^2*x3^2*y1*y2*y3^3 + d*x1*x2^2*x3*y1^2*y2*y3^2 - d*x1*x2^2*x3*y2*y3^2 + d*x1*x2*x3^2*y1^2*y2^2*y3 - d*x1*x2*x3^2*y1^2*y3^3 - d*x1*x2*x3^2*y2^2*y3 + d*x1*x2*x3^2*y3^3 - d*x1*x3^3*y1^2*y2*y3^2 + d*x1*x3^3*y2*y3^2 - d*x2^2*x3^2*y1^3*y2*y3 + d*x2^2*x3^2*y1*y2*y3 - d*x2*x3^3*y1^3*y3^2 + d*x2*x3^3*y1*y3^2 - d*x2*x3*y1^3*y2^2*y3^2 + d*x2*x3*y1*y2^2*y3^2 - d*x3^2*y1^3*y2*y3^3 + d*x3^2*y1*y2*y3^3 + x1^3*x2*x3^2*y3 - x1^3*x2*y3^3 + x1^3*x2*y3 + x1^3*x3^3*y2 - x1^3*x3*y2*y3^2 + x1^3*x3*y2 + x1^2*x2*x3^3*y1 - x1^2*x2*x3*y1*y3^2 + x1^2*x2*x3*y1 + x1^2*x3^2*y1*y2*y3 - x1^2*y1*y2*y3^3 + x1^2*y1*y2*y3 - x1*x2*x3^2*y1^2*y3 + x1*x2*x3^2*y3 + x1*x2*y1^2*y3^3 - x1*x2*y1^2*y3 - x1*x2*y3^3 + x1*x2*y3 - x1*x3^3*y1^2*y2 + x1*x3^3*y2 + x1*x3*y1^2*y2*y3^2 - x1*x3*y1^2*y2 - x1*x3*y2*y3^2 + x1*x3*y2 - x2*x3^3*y1^3 + x2*x3^3*y1 + x2*x3*y1^3*y3^2 - x2*x3*y1^3 - x2*x3*y1*y3^2 + x2*x3*y1 - x3^2*y1^3*y2*y3 + x3^2*y1*y2*y3 + y1^3*y2*y3^3 - y1^3*y2*y3 - y1*y2*y3^3 + y1*y2*y3) * h2 + (-d*x1^2*x2^2*y1*y2*y3 + d*x1^2*x2*x3*y1*y2^2 + d*x1*x2^2*x3*y1^2*y2 - d*x1*x2*y1^2*y2^2*y3 - x1^3*x2^3*y3 - x1^3*x2^2*x3*y2 + x1^3*x2*y2^2*y3 - x1^3*x2*y3 + x1^3*x3*y2^3 - x1^3*x3*y2 - x1^2*x2^3*x3*y1 - x1^2*x2^2*y1*y2*y3 + x1^2*x2*x3*y1*y2^2 - x1^2*x2*x3*y1 + x1^2*y1*y2^3*y3 - x1^2*y1*y2*y3 + x1*x2^3*y1^2*y3 - x1*x2^3*y3 + x1*x2^2*x3*y1^2*y2 - x1*x2^2*x3*y2 - x1*x2*y1^2*y2^2*y3 + x1*x2*y1^2*y3 + x1*x2*y2^2*y3 - x1*x2*y3 - x1*x3*y1^2*y2^3 + x1*x3*y1^2*y2 + x1*x3*y2^3 - x1*x3*y2 + x2^3*x3*y1^3 - x2^3*x3*y1 + x2^2*y1^3*y2*y3 - x2^2*y1*y2*y3 - x2*x3*y1^3*y2^2 + x2*x3*y1^3 + x2*x3*y1*y2^2 - x2*x3*y1 - y1^3*y2^3*y3 + y1^3*y2*y3 + y1*y2^3*y3 - y1*y2*y3) * h3

/-! ## Unconditional group laws on curve points -/

section Laws
variable {d i : F}

/-- associativity for curve points, the four side conditions discharged by completeness + closure -/
theorem assoc' (hi : i^2 = -1) (hd : ∀ s : F, s^2 ≠ d) (h2 : (2:F) ≠ 0)
    {x1 y1 x2 y2 x3 y3 : F}
    (h1 : OnCurve d x1 y1) (h2c : OnCurve d x2 y2) (h3 : OnCurve d x3 y3) :
    addX d (addX d x1 y1 x2 y2) (addY d x1 y1 x2 y2) x3 y3 = addX d x1 y1 (addX d x2 y2 x3 y3) (addY d x2 y2 x3 y3)
    ∧ addY d (addX d x1 y1 x2 y2) (addY d x1 y1 x2 y2) x3 y3 = addY d x1 y1 (addX d x2 y2 x3 y3) (addY d x2 y2 x3 y3) := by
  have n12 := complete d i hi hd h2 h1 h2c
  have n23 := complete d i hi hd h2 h2c h3
  have c12 := closure h1 h2c n12
  have c23 := closure h2c h3 n23
  exact assoc h1 h2c h3 n12 n23 (complete d i hi hd h2 c12 h3) (complete d i hi hd h2 h1 c23)

theorem onCurve_zero : OnCurve d (0:F) 1 := by unfold OnCurve; ring

theorem onCurve_neg {x y : F} (h : OnCurve d x y) : OnCurve d (-x) y := by
  unfold OnCurve at *; linear_combination h

theorem addX_comm (x1 y1 x2 y2 : F) : addX d x1 y1 x2 y2 = addX d x2 y2 x1 y1 := by
  unfold addX; congr 1 <;> ring

theorem addY_comm (x1 y1 x2 y2 : F) : addY d x1 y1 x2 y2 = addY d x2 y2 x1 y1 := by
  unfold addY; congr 1 <;> ring

theorem addX_zero (x y : F) : addX d x y 0 1 = x := by unfold addX; simp
theorem addY_zero (x y : F) : addY d x y 0 1 = y := by unfold addY; simp
theorem zero_addX (x y : F) : addX d 0 1 x y = x := by unfold addX; simp
theorem zero_addY (x y : F) : addY d 0 1 x y = y := by unfold addY; simp

theorem neg_addX (x y : F) : addX d (-x) y x y = 0 := by
  unfold addX
  have : -x*y + y*x = 0 := by ring
  rw [this, zero_div]

theorem neg_addY (hi : i^2 = -1) (hd : ∀ s : F, s^2 ≠ d) (h2 : (2:F) ≠ 0)
    {x y : F} (h : OnCurve d x y) : addY d (-x) y x y = 1 := by
  have hn := (denoms_ne (complete d i hi hd h2 (onCurve_neg h) h)).2
  unfold addY
  rw [div_eq_one_iff_eq hn]
  unfold OnCurve at h
  linear_combination h

end Laws


/-! ## The dual (hwcd-4 / "dedicated") addition formulas agree with the unified ones on the curve -/

theorem dual_x {d x1 y1 x2 y2 : F} (h1 : OnCurve d x1 y1) (h2 : OnCurve d x2 y2) :
    (x1*y1 + x2*y2) * (1 + d*x1*x2*y1*y2) = (x1*y2 + y1*x2) * (y1*y2 - x1*x2) := by
  unfold OnCurve at h1 h2
  linear_combination (-(x2*y2)) * h1 + (-(x1*y1)) * h2

theorem dual_y {d x1 y1 x2 y2 : F} (h1 : OnCurve d x1 y1) (h2 : OnCurve d x2 y2) :
    (x1*y1 - x2*y2) * (1 - d*x1*x2*y1*y2) = (y1*y2 + x1*x2) * (x1*y2 - y1*x2) := by
  unfold OnCurve at h1 h2
  linear_combination (x2*y2) * h1 + (-(x1*y1)) * h2

/-! ## The group of curve points -/

/-- curve parameters bundled with the three hypotheses -/
structure EdCurve (F : Type*) [Field F] where
  d : F
  i : F
  hi : i^2 = -1
  hd : ∀ s : F, s^2 ≠ d
  h2 : (2:F) ≠ 0

/-- a point of the curve -/
@[ext] structure Point (C : EdCurve F) where
  x : F
  y : F
  on : OnCurve C.d x y

namespace Point
variable {C : EdCurve F}

theorem complete (P R : Point C) : (C.d*P.x*R.x*P.y*R.y)^2 ≠ 1 :=
  Edw.complete C.d C.i C.hi C.hd C.h2 P.on R.on

instance : Zero (Point C) := ⟨⟨0, 1, onCurve_zero⟩⟩
instance : Neg (Point C) := ⟨fun P => ⟨-P.x, P.y, onCurve_neg P.on⟩⟩
instance : Add (Point C) := ⟨fun P R =>
  ⟨addX C.d P.x P.y R.x R.y, addY C.d P.x P.y R.x R.y, closure P.on R.on (complete P R)⟩⟩

@[simp] theorem zero_x : (0 : Point C).x = 0 := rfl
@[simp] theorem zero_y : (0 : Point C).y = 1 := rfl
@[simp] theorem neg_x (P : Point C) : (-P).x = -P.x := rfl
@[simp] theorem neg_y (P : Point C) : (-P).y = P.y := rfl
theorem add_x (P R : Point C) : (P + R).x = addX C.d P.x P.y R.x R.y := rfl
theorem add_y (P R : Point C) : (P + R).y = addY C.d P.x P.y R.x R.y := rfl

instance : AddCommGroup (Point C) where
  add_assoc P R S := by
    have h := assoc' C.hi C.hd C.h2 P.on R.on S.on
    exact Point.ext h.1 h.2
  zero_add P := Point.ext (zero_addX _ _) (zero_addY _ _)
  add_zero P := Point.ext (addX_zero _ _) (addY_zero _ _)
  nsmul := nsmulRec
  zsmul := zsmulRec
  neg_add_cancel P := Point.ext (neg_addX _ _) (neg_addY C.hi C.hd C.h2 P.on)
  add_comm P R := Point.ext (addX_comm _ _ _ _) (addY_comm _ _ _ _)

/-! ### points of order dividing 4 -/

theorem sub_x (P R : Point C) : (P - R).x = addX C.d P.x P.y (-R.x) R.y := by
  rw [sub_eq_add_neg]; rfl
theorem sub_y (P R : Point C) : (P - R).y = addY C.d P.x P.y (-R.x) R.y := by
  rw [sub_eq_add_neg]; rfl

theorem y_sq_of_x_eq_zero {P : Point C} (h : P.x = 0) : P.y^2 = 1 := by
  have := P.on; unfold OnCurve at this; rw [h] at this; linear_combination this

theorem x_sq_of_y_eq_zero {P : Point C} (h : P.y = 0) : P.x^2 = -1 := by
  have := P.on; unfold OnCurve at this; rw [h] at this; linear_combination -this

theorem add_self_of_x_eq_zero {P : Point C} (h : P.x = 0) : P + P = 0 := by
  apply Point.ext
  · rw [add_x, h]; unfold addX; simp
  · rw [add_y, h]; unfold addY; simp; linear_combination y_sq_of_x_eq_zero h

theorem add_self_x_of_y_eq_zero {P : Point C} (h : P.y = 0) : (P + P).x = 0 := by
  rw [add_x, h]; unfold addX; simp

/-- the points with `x = 0` or `y = 0` are killed by 4 -/
theorem four_zsmul_of_x_or_y_eq_zero {P : Point C} (h : P.x = 0 ∨ P.y = 0) : (4:ℤ) • P = 0 := by
  have e : (4:ℤ) • P = (P + P) + (P + P) := by
    have : (4:ℤ) = 1 + 1 + (1 + 1) := by norm_num
    rw [this, add_zsmul, add_zsmul, one_zsmul]
  rw [e]
  rcases h with h | h
  · rw [add_self_of_x_eq_zero h, add_zero]
  · exact add_self_of_x_eq_zero (add_self_x_of_y_eq_zero h)

/-- `x = 0 ∨ y = 0` singles out exactly the four points `(0,1), (0,-1), (i,0), (-i,0)` -/
theorem x_or_y_eq_zero_iff (P : Point C) :
    (P.x = 0 ∨ P.y = 0) ↔
      ((P.x = 0 ∧ P.y = 1) ∨ (P.x = 0 ∧ P.y = -1) ∨ (P.x = C.i ∧ P.y = 0) ∨ (P.x = -C.i ∧ P.y = 0)) := by
  constructor
  · rintro (h | h)
    · have h1 : (P.y - 1) * (P.y + 1) = 0 := by linear_combination y_sq_of_x_eq_zero h
      rcases mul_eq_zero.1 h1 with h1 | h1
      · exact Or.inl ⟨h, by linear_combination h1⟩
      · exact Or.inr (Or.inl ⟨h, by linear_combination h1⟩)
    · have h1 : (P.x - C.i) * (P.x + C.i) = 0 := by linear_combination x_sq_of_y_eq_zero h - C.hi
      rcases mul_eq_zero.1 h1 with h1 | h1
      · exact Or.inr (Or.inr (Or.inl ⟨by linear_combination h1, h⟩))
      · exact Or.inr (Or.inr (Or.inr ⟨by linear_combination h1, h⟩))
  · rintro (⟨h, -⟩ | ⟨h, -⟩ | ⟨-, h⟩ | ⟨-, h⟩)
    · exact Or.inl h
    · exact Or.inl h
    · exact Or.inr h
    · exact Or.inr h

end Point

/-! ## Summary -/
#print axioms complete
#print axioms closure
#print axioms assoc'
#print axioms Point.instAddCommGroup
#print axioms dual_x
#print axioms dual_y
#print axioms Point.four_zsmul_of_x_or_y_eq_zero
#print axioms Point.x_or_y_eq_zero_iff

end Spake2Verif.Edw
