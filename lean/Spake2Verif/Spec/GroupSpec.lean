import Spake2Model.Model.Group
import Mathlib.Algebra.Group.Defs
import Mathlib.Algebra.Group.Basic
import Mathlib.Algebra.Module.Defs

/-!
`GroupSpec G`: what the protocol theorems need from a group implementation `G : Group`
(the record of Python-level operations, each of which may raise).

On `Valid` elements the operations never raise, stay inside `Valid`, and commute with an
abstraction map `abs` into a mathematical abelian group `A` in which every valid element is
killed by the subgroup order `q`; `enc` is a fixed-width injective encoding of `abs`, `dec` is
strict.  Two instances are proved: `IntGroupSpec` (any `(p, q, g)` the constructor accepts — no
primality needed) and `Ed25519Spec` (any twisted-Edwards curve meeting the listed side
conditions, instantiated at the shipped constants).
-/
namespace Spake2Verif
open Spake2Model

structure GroupSpec (G : Group) where
  A : Type
  [grp : AddCommGroup A]
  abs : G.Elem → A
  Valid : G.Elem → Prop
  /-- the subgroup order as a natural number -/
  q : ℕ
  q_pos : 0 < q
  order_eq : G.order = (q : ℤ)
  /-- whether `dec` refuses the identity (Ed25519 does, integer groups do not) -/
  rejectsIdentity : Bool
  base_valid : Valid G.base
  zero_valid : Valid G.zero
  abs_zero : abs G.zero = 0
  add_ok : ∀ a b, Valid a → Valid b → ∃ c, G.add a b = .ok c ∧ Valid c ∧ abs c = abs a + abs b
  smul_ok : ∀ a (n : ℤ), Valid a → ∃ c, G.smul a n = .ok c ∧ Valid c ∧ abs c = n • abs a
  order_smul : ∀ a, Valid a → (q : ℤ) • abs a = 0
  enc_len : ∀ a, Valid a → (G.enc a).length = G.elemSize ∧ IsBytes (G.enc a)
  enc_inj : ∀ a b, Valid a → Valid b → (G.enc a = G.enc b ↔ abs a = abs b)
  /-- strict decoding: an accepted *byte* string (`Bytes = List Nat` also contains lists with entries ≥ 256,
  which no Python `bytes` object can be) is the encoding of the (valid) element returned -/
  dec_strict : ∀ b e, IsBytes b → G.dec b = .ok e → Valid e ∧ G.enc e = b
  dec_nonzero : rejectsIdentity = true → ∀ b e, IsBytes b → G.dec b = .ok e → abs e ≠ 0
  /-- completeness of decoding on valid (acceptable) elements -/
  dec_enc : ∀ a, Valid a → (rejectsIdentity = true → abs a ≠ 0) →
    ∃ e, G.dec (G.enc a) = .ok e ∧ abs e = abs a
  /-- the identity is refused outright when `rejectsIdentity` -/
  dec_zero : rejectsIdentity = true → ∀ a, Valid a → abs a = 0 → ∃ err, G.dec (G.enc a) = .error err
  scalar_rt : ∀ x : ℤ, 0 ≤ x → x < q →
    ∃ b, G.scalarEnc x = .ok b ∧ b.length = G.scalarSize ∧ IsBytes b ∧ G.scalarDec b = .ok x
  p2s_range : ∀ pw, 0 ≤ G.p2s pw ∧ G.p2s pw < q
  random_range : ∀ ent x ent', G.randomScalar ent = .ok (x, ent') → 0 ≤ x ∧ x < q
  arb_valid : ∀ seed e, G.arb seed = .ok e → Valid e

attribute [instance] GroupSpec.grp

namespace GroupSpec
variable {G : Group} (S : GroupSpec G)

/-- the base point generates a subgroup of order exactly `q` (needed only for C04 / C18) -/
def BaseOrder : Prop := ∀ n : ℤ, n • S.abs G.base = 0 → (S.q : ℤ) ∣ n

/-- the subgroup killed by `q` has exactly `q` elements (needs primality of the modulus for the
integer groups; proved for Ed25519 from `#E = 8L`) -/
def TorsionIsCyclic : Prop := ∀ a : S.A, (S.q : ℤ) • a = 0 → ∃ n : ℤ, a = n • S.abs G.base

end GroupSpec
end Spake2Verif
