import Spake2Verif.Spec.IntGroupSpec
import Mathlib.Tactic.NormNum.Prime

/-!
The small integer groups `IntegerGroup(p, q, g)` that the differential tests enumerate exhaustively:
`(p, q, g) = (23,11,2), (23,11,4), (47,23,2), (59,29,4), (2039,1019,4), (263,131,2), (1019,509,4)`.

For each: the parameter record `toy_p_q_g`, the `GroupSpec` instance `specToy_p_q_g` (from `intGroupSpec`,
side conditions by evaluation), and -- **without hypothesis** -- `BaseOrder` (`q` prime, `g ≢ 1`) and
`TorsionIsCyclic` (`p` prime as well); primality by `norm_num`.  `toyGroups` is the list of the seven
parameter records, `toyGroups_side` the side conditions for each of its members, so that statements can be
made once for all of them (`ToyInt.spec`).
-/
namespace Spake2Verif
open Spake2Model Spake2Model.Gen

namespace ToyInt

/-- the side conditions of `intGroupSpec`, `baseOrder_of_prime`, `torsionIsCyclic_of_prime_modulus`, bundled -/
structure Side (P : IntGroupParams) : Prop where
  hp : 1 < P.p
  hq : 0 < P.q
  hg : 0 < P.g ∧ P.g < P.p
  hctor : Gen.IntGroup.ctor_ok P.p P.q P.g = true
  hg1 : P.g % P.p ≠ 1
  hqp : Nat.Prime P.q.toNat
  hpp : Nat.Prime P.p.toNat

/-- the `GroupSpec` instance of an integer group meeting `Side` -/
noncomputable def spec (P : IntGroupParams) (h : Side P) : GroupSpec (intGroup P) :=
  intGroupSpec P h.hp h.hq h.hg h.hctor

theorem spec_baseOrder (P : IntGroupParams) (h : Side P) : (spec P h).BaseOrder :=
  baseOrder_of_prime _ _ _ _ _ h.hqp h.hg1

theorem spec_torsionIsCyclic (P : IntGroupParams) (h : Side P) : (spec P h).TorsionIsCyclic :=
  torsionIsCyclic_of_prime_modulus _ _ _ _ _ h.hpp h.hqp h.hg1

@[simp] theorem spec_q (P : IntGroupParams) (h : Side P) : (spec P h).q = P.q.toNat := rfl

end ToyInt

/-! ### `IntegerGroup(23, 11, 2)` -/

def toy23_11_2 : IntGroupParams := ⟨23, 11, 2⟩

theorem toy23_11_2_side : ToyInt.Side toy23_11_2 where
  hp := by decide
  hq := by decide
  hg := by decide
  hctor := by decide +kernel
  hg1 := by decide
  hqp := by show Nat.Prime 11; norm_num
  hpp := by show Nat.Prime 23; norm_num

noncomputable def specToy23_11_2 : GroupSpec (intGroup toy23_11_2) := ToyInt.spec toy23_11_2 toy23_11_2_side

theorem specToy23_11_2_baseOrder : specToy23_11_2.BaseOrder := ToyInt.spec_baseOrder _ _

theorem specToy23_11_2_torsionIsCyclic : specToy23_11_2.TorsionIsCyclic := ToyInt.spec_torsionIsCyclic _ _

@[simp] theorem specToy23_11_2_q : specToy23_11_2.q = 11 := rfl

/-! ### `IntegerGroup(23, 11, 4)` -/

def toy23_11_4 : IntGroupParams := ⟨23, 11, 4⟩

theorem toy23_11_4_side : ToyInt.Side toy23_11_4 where
  hp := by decide
  hq := by decide
  hg := by decide
  hctor := by decide +kernel
  hg1 := by decide
  hqp := by show Nat.Prime 11; norm_num
  hpp := by show Nat.Prime 23; norm_num

noncomputable def specToy23_11_4 : GroupSpec (intGroup toy23_11_4) := ToyInt.spec toy23_11_4 toy23_11_4_side

theorem specToy23_11_4_baseOrder : specToy23_11_4.BaseOrder := ToyInt.spec_baseOrder _ _

theorem specToy23_11_4_torsionIsCyclic : specToy23_11_4.TorsionIsCyclic := ToyInt.spec_torsionIsCyclic _ _

@[simp] theorem specToy23_11_4_q : specToy23_11_4.q = 11 := rfl

/-! ### `IntegerGroup(47, 23, 2)` -/

def toy47_23_2 : IntGroupParams := ⟨47, 23, 2⟩

theorem toy47_23_2_side : ToyInt.Side toy47_23_2 where
  hp := by decide
  hq := by decide
  hg := by decide
  hctor := by decide +kernel
  hg1 := by decide
  hqp := by show Nat.Prime 23; norm_num
  hpp := by show Nat.Prime 47; norm_num

noncomputable def specToy47_23_2 : GroupSpec (intGroup toy47_23_2) := ToyInt.spec toy47_23_2 toy47_23_2_side

theorem specToy47_23_2_baseOrder : specToy47_23_2.BaseOrder := ToyInt.spec_baseOrder _ _

theorem specToy47_23_2_torsionIsCyclic : specToy47_23_2.TorsionIsCyclic := ToyInt.spec_torsionIsCyclic _ _

@[simp] theorem specToy47_23_2_q : specToy47_23_2.q = 23 := rfl

/-! ### `IntegerGroup(59, 29, 4)` -/

def toy59_29_4 : IntGroupParams := ⟨59, 29, 4⟩

theorem toy59_29_4_side : ToyInt.Side toy59_29_4 where
  hp := by decide
  hq := by decide
  hg := by decide
  hctor := by decide +kernel
  hg1 := by decide
  hqp := by show Nat.Prime 29; norm_num
  hpp := by show Nat.Prime 59; norm_num

noncomputable def specToy59_29_4 : GroupSpec (intGroup toy59_29_4) := ToyInt.spec toy59_29_4 toy59_29_4_side

theorem specToy59_29_4_baseOrder : specToy59_29_4.BaseOrder := ToyInt.spec_baseOrder _ _

theorem specToy59_29_4_torsionIsCyclic : specToy59_29_4.TorsionIsCyclic := ToyInt.spec_torsionIsCyclic _ _

@[simp] theorem specToy59_29_4_q : specToy59_29_4.q = 29 := rfl

/-! ### `IntegerGroup(2039, 1019, 4)` -/

def toy2039_1019_4 : IntGroupParams := ⟨2039, 1019, 4⟩

theorem toy2039_1019_4_side : ToyInt.Side toy2039_1019_4 where
  hp := by decide
  hq := by decide
  hg := by decide
  hctor := by decide +kernel
  hg1 := by decide
  hqp := by show Nat.Prime 1019; norm_num
  hpp := by show Nat.Prime 2039; norm_num

noncomputable def specToy2039_1019_4 : GroupSpec (intGroup toy2039_1019_4) := ToyInt.spec toy2039_1019_4 toy2039_1019_4_side

theorem specToy2039_1019_4_baseOrder : specToy2039_1019_4.BaseOrder := ToyInt.spec_baseOrder _ _

theorem specToy2039_1019_4_torsionIsCyclic : specToy2039_1019_4.TorsionIsCyclic := ToyInt.spec_torsionIsCyclic _ _

@[simp] theorem specToy2039_1019_4_q : specToy2039_1019_4.q = 1019 := rfl

/-! ### `IntegerGroup(263, 131, 2)` -/

def toy263_131_2 : IntGroupParams := ⟨263, 131, 2⟩

theorem toy263_131_2_side : ToyInt.Side toy263_131_2 where
  hp := by decide
  hq := by decide
  hg := by decide
  hctor := by decide +kernel
  hg1 := by decide
  hqp := by show Nat.Prime 131; norm_num
  hpp := by show Nat.Prime 263; norm_num

noncomputable def specToy263_131_2 : GroupSpec (intGroup toy263_131_2) := ToyInt.spec toy263_131_2 toy263_131_2_side

theorem specToy263_131_2_baseOrder : specToy263_131_2.BaseOrder := ToyInt.spec_baseOrder _ _

theorem specToy263_131_2_torsionIsCyclic : specToy263_131_2.TorsionIsCyclic := ToyInt.spec_torsionIsCyclic _ _

@[simp] theorem specToy263_131_2_q : specToy263_131_2.q = 131 := rfl

/-! ### `IntegerGroup(1019, 509, 4)` -/

def toy1019_509_4 : IntGroupParams := ⟨1019, 509, 4⟩

theorem toy1019_509_4_side : ToyInt.Side toy1019_509_4 where
  hp := by decide
  hq := by decide
  hg := by decide
  hctor := by decide +kernel
  hg1 := by decide
  hqp := by show Nat.Prime 509; norm_num
  hpp := by show Nat.Prime 1019; norm_num

noncomputable def specToy1019_509_4 : GroupSpec (intGroup toy1019_509_4) := ToyInt.spec toy1019_509_4 toy1019_509_4_side

theorem specToy1019_509_4_baseOrder : specToy1019_509_4.BaseOrder := ToyInt.spec_baseOrder _ _

theorem specToy1019_509_4_torsionIsCyclic : specToy1019_509_4.TorsionIsCyclic := ToyInt.spec_torsionIsCyclic _ _

@[simp] theorem specToy1019_509_4_q : specToy1019_509_4.q = 509 := rfl

/-! ### all of them -/

/-- the seven small groups of the differential tests -/
def toyGroups : List IntGroupParams :=
  [toy23_11_2, toy23_11_4, toy47_23_2, toy59_29_4, toy2039_1019_4, toy263_131_2, toy1019_509_4]

theorem toyGroups_side : ∀ P ∈ toyGroups, ToyInt.Side P := by
  intro P hP
  simp only [toyGroups, List.mem_cons, List.not_mem_nil, or_false] at hP
  rcases hP with rfl | rfl | rfl | rfl | rfl | rfl | rfl
  · exact toy23_11_2_side
  · exact toy23_11_4_side
  · exact toy47_23_2_side
  · exact toy59_29_4_side
  · exact toy2039_1019_4_side
  · exact toy263_131_2_side
  · exact toy1019_509_4_side

end Spake2Verif

#print axioms Spake2Verif.specToy23_11_2
#print axioms Spake2Verif.specToy23_11_2_baseOrder
#print axioms Spake2Verif.specToy23_11_2_torsionIsCyclic
#print axioms Spake2Verif.specToy23_11_4
#print axioms Spake2Verif.specToy23_11_4_baseOrder
#print axioms Spake2Verif.specToy23_11_4_torsionIsCyclic
#print axioms Spake2Verif.specToy47_23_2
#print axioms Spake2Verif.specToy47_23_2_baseOrder
#print axioms Spake2Verif.specToy47_23_2_torsionIsCyclic
#print axioms Spake2Verif.specToy59_29_4
#print axioms Spake2Verif.specToy59_29_4_baseOrder
#print axioms Spake2Verif.specToy59_29_4_torsionIsCyclic
#print axioms Spake2Verif.specToy2039_1019_4
#print axioms Spake2Verif.specToy2039_1019_4_baseOrder
#print axioms Spake2Verif.specToy2039_1019_4_torsionIsCyclic
#print axioms Spake2Verif.specToy263_131_2
#print axioms Spake2Verif.specToy263_131_2_baseOrder
#print axioms Spake2Verif.specToy263_131_2_torsionIsCyclic
#print axioms Spake2Verif.specToy1019_509_4
#print axioms Spake2Verif.specToy1019_509_4_baseOrder
#print axioms Spake2Verif.specToy1019_509_4_torsionIsCyclic
#print axioms Spake2Verif.toyGroups_side
