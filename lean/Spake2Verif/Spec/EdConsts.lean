import Spake2Model.Gen.Ed25519Arith
import Spake2Verif.Basic.PyLemmas
import Spake2Verif.Spec.Primes
import Mathlib.Data.ZMod.Basic
import Mathlib.NumberTheory.LegendreSymbol.Basic

/-!
Facts about the *generated* Ed25519 constants (`Spake2Model.Gen.Ed.*`, produced from
`ed25519_basic.py` on every run), obtained by kernel evaluation of the generated definitions
plus short algebraic arguments in `ZMod Q`.
-/
set_option maxRecDepth 100000
namespace Spake2Verif.Spec
open Spake2Model Spake2Model.Gen

/-! ### the field size and the group order -/

theorem Q_c_eq : Ed.Q_c = 2 ^ 255 - 19 := by decide +kernel

theorem L_c_eq : Ed.L_c = 2 ^ 252 + 27742317777372353535851937790883648493 := by decide +kernel

theorem Q_c_pos : 0 < Ed.Q_c := by decide +kernel

theorem Q_toNat_cast : (Ed.Q_c.toNat : Int) = Ed.Q_c := by decide +kernel

theorem Q_toNat_pos : 0 < Ed.Q_c.toNat := by decide +kernel

instance : Fact (2 < Ed.Q_c.toNat) := ⟨by decide +kernel⟩

/-- `Q ≡ 5 (mod 8)` (so `I = 2^((Q-1)/4)` is a square root of `-1` and `xrecover` is sound) -/
theorem Q_mod_8 : Ed.Q_c % 8 = 5 := by decide +kernel

/-- reduction of an integer mod `Q` does not change its image in `ZMod Q` -/
theorem intCast_emod_Q (a : Int) : ((a % Ed.Q_c : Int) : ZMod Ed.Q_c.toNat) = (a : ZMod Ed.Q_c.toNat) := by
  have := ZMod.intCast_mod a Ed.Q_c.toNat
  rwa [Q_toNat_cast] at this

theorem Q_cast_zero : ((Ed.Q_c : Int) : ZMod Ed.Q_c.toNat) = 0 :=
  (ZMod.intCast_zmod_eq_zero_iff_dvd _ _).2 (by rw [Q_toNat_cast])

/-! ### `I`: a square root of `-1` -/

theorem I_c_range : 0 ≤ Ed.I_c ∧ Ed.I_c < Ed.Q_c := by decide +kernel

theorem I_c_sq_emod : Ed.I_c * Ed.I_c % Ed.Q_c = Ed.Q_c - 1 := by decide +kernel

/-- `I² = -1` in `ZMod Q` -/
theorem I_c_sq : (Ed.I_c : ZMod Ed.Q_c.toNat) ^ 2 = -1 := by
  have h : ((Ed.I_c * Ed.I_c % Ed.Q_c : Int) : ZMod Ed.Q_c.toNat)
      = ((Ed.Q_c - 1 : Int) : ZMod Ed.Q_c.toNat) := by rw [I_c_sq_emod]
  rw [intCast_emod_Q, Int.cast_mul, Int.cast_sub, Q_cast_zero] at h
  rw [sq, h]; simp

/-! ### `d = -121665/121666`, a non-square -/

theorem d_c_range : Ed.d_c < 0 := by decide +kernel  -- python keeps the unreduced product

/-- `d · 121666 ≡ -121665 (mod Q)` -/
theorem d_c_def : (Ed.d_c * 121666 + 121665) % Ed.Q_c = 0 := by decide +kernel

/-- `d = -121665/121666` in `ZMod Q` -/
theorem d_c_zmod : (Ed.d_c : ZMod Ed.Q_c.toNat) * 121666 = -121665 := by
  have h : (((Ed.d_c * 121666 + 121665) % Ed.Q_c : Int) : ZMod Ed.Q_c.toNat)
      = ((0 : Int) : ZMod Ed.Q_c.toNat) := by rw [d_c_def]
  rw [intCast_emod_Q] at h
  push_cast at h
  exact eq_neg_of_add_eq_zero_left h

/-- Euler's criterion, evaluated by the kernel: `d^((Q-1)/2) ≡ -1 (mod Q)` -/
theorem d_c_euler_powMod :
    Py.powMod (Ed.d_c % Ed.Q_c).toNat (Ed.Q_c.toNat / 2) Ed.Q_c.toNat = Ed.Q_c.toNat - 1 := by
  decide +kernel

theorem d_c_euler : (Ed.d_c : ZMod Ed.Q_c.toNat) ^ (Ed.Q_c.toNat / 2) = -1 := by
  have h := d_c_euler_powMod
  rw [Py.powMod_spec _ _ _ Q_toNat_pos] at h
  have hd : (Ed.d_c : ZMod Ed.Q_c.toNat) = (((Ed.d_c % Ed.Q_c).toNat : ℕ) : ZMod Ed.Q_c.toNat) := by
    have h1 : (((Ed.d_c % Ed.Q_c).toNat : ℕ) : Int) = Ed.d_c % Ed.Q_c :=
      Int.toNat_of_nonneg (Int.emod_nonneg _ (ne_of_gt Q_c_pos))
    rw [← Int.cast_natCast, h1, intCast_emod_Q]
  rw [hd, ← Nat.cast_pow, ← ZMod.natCast_mod, h, Nat.cast_sub Q_toNat_pos, ZMod.natCast_self]
  simp

theorem d_c_ne_zero : (Ed.d_c : ZMod Ed.Q_c.toNat) ≠ 0 := by
  intro h0
  have h := d_c_euler
  rw [h0, zero_pow (by decide +kernel)] at h
  have : (1 : ZMod Ed.Q_c.toNat) = 0 := by
    have := congrArg (fun x => -x) h; simpa using this.symm
  exact one_ne_zero this

/-- `d` is not a square in `ZMod Q` (this is what makes the Edwards addition law complete) -/
theorem d_c_nonsquare : ∀ s : ZMod Ed.Q_c.toNat, s ^ 2 ≠ (Ed.d_c : ZMod Ed.Q_c.toNat) := by
  intro s hs
  have hsq : IsSquare (Ed.d_c : ZMod Ed.Q_c.toNat) := ⟨s, by rw [← hs, sq]⟩
  rw [ZMod.euler_criterion _ d_c_ne_zero, d_c_euler] at hsq
  exact ZMod.neg_one_ne_one hsq

/-! ### the base point -/

/-- `By = 4/5` -/
theorem By_c_def : Ed.By_c % Ed.Q_c * 5 % Ed.Q_c = 4 := by decide +kernel

theorem By_c_zmod : (Ed.By_c : ZMod Ed.Q_c.toNat) * 5 = 4 := by
  have h : ((Ed.By_c % Ed.Q_c * 5 % Ed.Q_c : Int) : ZMod Ed.Q_c.toNat)
      = ((4 : Int) : ZMod Ed.Q_c.toNat) := by rw [By_c_def]
  rw [intCast_emod_Q, Int.cast_mul, intCast_emod_Q] at h
  exact_mod_cast h

/-- `Bx` is the even root, already reduced -/
theorem Bx_c_even_range : Ed.Bx_c % 2 = 0 ∧ 0 ≤ Ed.Bx_c ∧ Ed.Bx_c < Ed.Q_c := by decide +kernel

/-- the generated base point is the RFC 8032 base point -/
theorem B_c_eq : Ed.B_c =
    (15112221349535400772501151409588531511454012693041857206046113283949847762202,
     46316835694926478169428394003475163141307993866256225615783033603165251855960) := by
  decide +kernel

theorem B_c_isoncurve : Ed.isoncurve Ed.Q_c Ed.d_c Ed.B_c = true := by decide +kernel

/-- `L·B` is the identity (kernel evaluation of the generated safe ladder) -/
theorem L_smul_B_zero :
    Ed.is_extended_zero Ed.Q_c
      (Ed.scalarmult_element_safe_slow Ed.Q_c Ed.d_c
        (Ed.xform_affine_to_extended Ed.Q_c Ed.B_c) Ed.L_c) = true := by
  decide +kernel

/-- `1·B` is not the identity; with `L` prime this pins the order of `B` to exactly `L` -/
theorem one_smul_B_ne_zero :
    Ed.is_extended_zero Ed.Q_c
      (Ed.scalarmult_element_safe_slow Ed.Q_c Ed.d_c
        (Ed.xform_affine_to_extended Ed.Q_c Ed.B_c) 1) = false := by
  decide +kernel

/-- the (possibly faster, non-unified) ladder agrees on `L·B` -/
theorem L_smul_B_zero_fast :
    Ed.is_extended_zero Ed.Q_c
      (Ed.scalarmult_element Ed.Q_c (Ed.xform_affine_to_extended Ed.Q_c Ed.B_c) Ed.L_c) = true := by
  decide +kernel

/-! ### a point of order 8 (the full group has order `8·L`) -/

/-- a point of exact order 8 (affine coordinates) -/
def P8 : Int × Int :=
  (14399317868200118260347934320527232580618823971194345261214217575416788799818,
   55188659117513257062467267217118295137698188065244968500265048394206261417927)

theorem P8_range : 0 ≤ P8.1 ∧ P8.1 < Ed.Q_c ∧ 0 ≤ P8.2 ∧ P8.2 < Ed.Q_c := by decide +kernel

theorem P8_isoncurve : Ed.isoncurve Ed.Q_c Ed.d_c P8 = true := by decide +kernel

theorem eight_smul_P8_zero :
    Ed.is_extended_zero Ed.Q_c
      (Ed.scalarmult_element_safe_slow Ed.Q_c Ed.d_c
        (Ed.xform_affine_to_extended Ed.Q_c P8) 8) = true := by
  decide +kernel

theorem four_smul_P8_ne_zero :
    Ed.is_extended_zero Ed.Q_c
      (Ed.scalarmult_element_safe_slow Ed.Q_c Ed.d_c
        (Ed.xform_affine_to_extended Ed.Q_c P8) 4) = false := by
  decide +kernel

/-- `L·P8 ≠ 0`: `P8` is outside the prime-order subgroup -/
theorem L_smul_P8_ne_zero :
    Ed.is_extended_zero Ed.Q_c
      (Ed.scalarmult_element_safe_slow Ed.Q_c Ed.d_c
        (Ed.xform_affine_to_extended Ed.Q_c P8) Ed.L_c) = false := by
  decide +kernel

end Spake2Verif.Spec
