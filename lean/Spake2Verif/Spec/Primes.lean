import Spake2Model.Gen.Ed25519Arith
import Spake2Model.Gen.IntGroupArith
import Spake2Verif.Basic.PyLemmas
import Spake2Verif.Spec.PrimeQ
import Spake2Verif.Spec.PrimeL
import Spake2Verif.Spec.Prime1024
import Spake2Verif.Spec.Prime2048
import Spake2Verif.Spec.Prime3072
import Mathlib.Data.ZMod.Basic
import Mathlib.GroupTheory.OrderOfElement

/-!
Primality of the group orders, tied to the *generated* constants (`Spake2Model.Gen.*`, produced
from the Python source on every run), and the order of the generators of the three integer
groups.  Nothing is stated about primality of the moduli `p` (not needed: `ZMod p` is a
commutative ring for every `p`, and `orderOf` is about its multiplicative monoid).
-/
set_option maxRecDepth 100000
namespace Spake2Verif.Spec
open Spake2Model Spake2Model.Gen

/-- From the kernel-checked facts `pow(g,q,p) = 1` and `g % p ≠ 1` to the statement in `ZMod p`. -/
theorem zmod_order_of_pow3 (p q g : Int) (hp : 1 < p) (hq : 0 ≤ q)
    (h1 : Py.pow3 g q p = 1) (h2 : g % p ≠ 1) :
    (g : ZMod p.toNat) ^ q.toNat = 1 ∧ (g : ZMod p.toNat) ≠ 1 := by
  have hpn : (p.toNat : Int) = p := Int.toNat_of_nonneg (by omega)
  have one_mod : (1 : Int) % p = 1 := Int.emod_eq_of_lt (by omega) hp
  rw [Py.pow3_spec _ _ _ hq (by omega)] at h1
  constructor
  · have : ((g ^ q.toNat : Int) : ZMod p.toNat) = ((1 : Int) : ZMod p.toNat) := by
      rw [ZMod.intCast_eq_intCast_iff', hpn, h1, one_mod]
    simpa using this
  · intro h
    have : ((g : Int) : ZMod p.toNat) = ((1 : Int) : ZMod p.toNat) := by simpa using h
    rw [ZMod.intCast_eq_intCast_iff', hpn, one_mod] at this
    exact h2 this

/-- With `q` prime the multiplicative order is exactly `q`. -/
theorem zmod_orderOf_of_pow3 (p q g : Int) (hp : 1 < p) (hq : Nat.Prime q.toNat)
    (h1 : Py.pow3 g q p = 1) (h2 : g % p ≠ 1) :
    orderOf (g : ZMod p.toNat) = q.toNat := by
  have hq0 : 0 ≤ q := by
    rcases lt_or_ge q 0 with h | h
    · exfalso
      have : q.toNat = 0 := Int.toNat_of_nonpos (le_of_lt h)
      rw [this] at hq; exact Nat.not_prime_zero hq
    · exact h
  obtain ⟨a, b⟩ := zmod_order_of_pow3 p q g hp hq0 h1 h2
  have : Fact (Nat.Prime q.toNat) := ⟨hq⟩
  exact orderOf_eq_prime a b

/-! ### Ed25519: field size `Q` and group order `L` -/

theorem Q_toNat : Ed.Q_c.toNat =
    57896044618658097711785492504343953926634992332820282019728792003956564819949 := by
  decide +kernel

theorem L_toNat : Ed.L_c.toNat =
    7237005577332262213973186563042994240857116359379907606001950938285454250989 := by
  decide +kernel

theorem Q_prime : Nat.Prime Ed.Q_c.toNat := by rw [Q_toNat]; exact PrimeQ.target_prime

theorem L_prime : Nat.Prime Ed.L_c.toNat := by rw [L_toNat]; exact PrimeL.target_prime

instance : Fact (Nat.Prime Ed.Q_c.toNat) := ⟨Q_prime⟩
instance : Fact (Nat.Prime Ed.L_c.toNat) := ⟨L_prime⟩

/-! ### Integer group `I1024` -/

theorem q1024_toNat : IntGroup.I1024_q.toNat =
    1331985975749110751467452671644594430583873510479 := by
  decide +kernel

/-- the subgroup order `q` of the 1024-bit group is prime -/
theorem q1024_prime : Nat.Prime IntGroup.I1024_q.toNat := by
  rw [q1024_toNat]; exact Prime1024.target_prime

instance : Fact (Nat.Prime IntGroup.I1024_q.toNat) := ⟨q1024_prime⟩

/-- `q ∣ p - 1` -/
theorem I1024_q_dvd : (IntGroup.I1024_p - 1) % IntGroup.I1024_q = 0 := by decide +kernel

/-- `pow(g, q, p) == 1` (the constructor's assertion), by kernel evaluation -/
theorem I1024_pow3 : Py.pow3 IntGroup.I1024_g IntGroup.I1024_q IntGroup.I1024_p = 1 := by decide +kernel

theorem I1024_g_mod_ne_one : IntGroup.I1024_g % IntGroup.I1024_p ≠ 1 := by decide +kernel

theorem I1024_g_range : 1 < IntGroup.I1024_g ∧ IntGroup.I1024_g < IntGroup.I1024_p := by decide +kernel

theorem I1024_p_gt_one : 1 < IntGroup.I1024_p := by decide +kernel

theorem I1024_q_pos : 0 < IntGroup.I1024_q := by decide +kernel

/-- `g^q = 1` and `g ≠ 1` in `ZMod p` (no primality of `p` needed) -/
theorem I1024_g_order :
    (IntGroup.I1024_g : ZMod IntGroup.I1024_p.toNat) ^ IntGroup.I1024_q.toNat = 1 ∧
      (IntGroup.I1024_g : ZMod IntGroup.I1024_p.toNat) ≠ 1 :=
  zmod_order_of_pow3 _ _ _ I1024_p_gt_one (le_of_lt I1024_q_pos) I1024_pow3 I1024_g_mod_ne_one

/-- the multiplicative order of the generator is exactly `q` -/
theorem I1024_g_orderOf :
    orderOf (IntGroup.I1024_g : ZMod IntGroup.I1024_p.toNat) = IntGroup.I1024_q.toNat :=
  zmod_orderOf_of_pow3 _ _ _ I1024_p_gt_one q1024_prime I1024_pow3 I1024_g_mod_ne_one

/-! ### Integer group `I2048` -/

theorem q2048_toNat : IntGroup.I2048_q.toNat =
    15261625425964248561513994220766546135279149251392602188294735027213 := by
  decide +kernel

/-- the subgroup order `q` of the 2048-bit group is prime -/
theorem q2048_prime : Nat.Prime IntGroup.I2048_q.toNat := by
  rw [q2048_toNat]; exact Prime2048.target_prime

instance : Fact (Nat.Prime IntGroup.I2048_q.toNat) := ⟨q2048_prime⟩

/-- `q ∣ p - 1` -/
theorem I2048_q_dvd : (IntGroup.I2048_p - 1) % IntGroup.I2048_q = 0 := by decide +kernel

/-- `pow(g, q, p) == 1` (the constructor's assertion), by kernel evaluation -/
theorem I2048_pow3 : Py.pow3 IntGroup.I2048_g IntGroup.I2048_q IntGroup.I2048_p = 1 := by decide +kernel

theorem I2048_g_mod_ne_one : IntGroup.I2048_g % IntGroup.I2048_p ≠ 1 := by decide +kernel

theorem I2048_g_range : 1 < IntGroup.I2048_g ∧ IntGroup.I2048_g < IntGroup.I2048_p := by decide +kernel

theorem I2048_p_gt_one : 1 < IntGroup.I2048_p := by decide +kernel

theorem I2048_q_pos : 0 < IntGroup.I2048_q := by decide +kernel

/-- `g^q = 1` and `g ≠ 1` in `ZMod p` (no primality of `p` needed) -/
theorem I2048_g_order :
    (IntGroup.I2048_g : ZMod IntGroup.I2048_p.toNat) ^ IntGroup.I2048_q.toNat = 1 ∧
      (IntGroup.I2048_g : ZMod IntGroup.I2048_p.toNat) ≠ 1 :=
  zmod_order_of_pow3 _ _ _ I2048_p_gt_one (le_of_lt I2048_q_pos) I2048_pow3 I2048_g_mod_ne_one

/-- the multiplicative order of the generator is exactly `q` -/
theorem I2048_g_orderOf :
    orderOf (IntGroup.I2048_g : ZMod IntGroup.I2048_p.toNat) = IntGroup.I2048_q.toNat :=
  zmod_orderOf_of_pow3 _ _ _ I2048_p_gt_one q2048_prime I2048_pow3 I2048_g_mod_ne_one

/-! ### Integer group `I3072` -/

theorem q3072_toNat : IntGroup.I3072_q.toNat =
    93911948940456861795388745207400704369329482570245279608597521715921884786973 := by
  decide +kernel

/-- the subgroup order `q` of the 3072-bit group is prime -/
theorem q3072_prime : Nat.Prime IntGroup.I3072_q.toNat := by
  rw [q3072_toNat]; exact Prime3072.target_prime

instance : Fact (Nat.Prime IntGroup.I3072_q.toNat) := ⟨q3072_prime⟩

/-- `q ∣ p - 1` -/
theorem I3072_q_dvd : (IntGroup.I3072_p - 1) % IntGroup.I3072_q = 0 := by decide +kernel

/-- `pow(g, q, p) == 1` (the constructor's assertion), by kernel evaluation -/
theorem I3072_pow3 : Py.pow3 IntGroup.I3072_g IntGroup.I3072_q IntGroup.I3072_p = 1 := by decide +kernel

theorem I3072_g_mod_ne_one : IntGroup.I3072_g % IntGroup.I3072_p ≠ 1 := by decide +kernel

theorem I3072_g_range : 1 < IntGroup.I3072_g ∧ IntGroup.I3072_g < IntGroup.I3072_p := by decide +kernel

theorem I3072_p_gt_one : 1 < IntGroup.I3072_p := by decide +kernel

theorem I3072_q_pos : 0 < IntGroup.I3072_q := by decide +kernel

/-- `g^q = 1` and `g ≠ 1` in `ZMod p` (no primality of `p` needed) -/
theorem I3072_g_order :
    (IntGroup.I3072_g : ZMod IntGroup.I3072_p.toNat) ^ IntGroup.I3072_q.toNat = 1 ∧
      (IntGroup.I3072_g : ZMod IntGroup.I3072_p.toNat) ≠ 1 :=
  zmod_order_of_pow3 _ _ _ I3072_p_gt_one (le_of_lt I3072_q_pos) I3072_pow3 I3072_g_mod_ne_one

/-- the multiplicative order of the generator is exactly `q` -/
theorem I3072_g_orderOf :
    orderOf (IntGroup.I3072_g : ZMod IntGroup.I3072_p.toNat) = IntGroup.I3072_q.toNat :=
  zmod_orderOf_of_pow3 _ _ _ I3072_p_gt_one q3072_prime I3072_pow3 I3072_g_mod_ne_one

end Spake2Verif.Spec
