import Spake2Verif.Spec.Ed25519Inst
import Spake2Verif.Proofs.PropAuxC1
import Mathlib.Tactic.NormNum.Prime

/-!
# The toy twisted-Edwards curves of the correspondence check satisfy `CurveOK`

The correspondence check of the project runs the library's own code (and the model) on small
twisted-Edwards curves `-x² + y² = 1 + d·x²·y²` over `ZMod Q`, which the differential tests
enumerate exhaustively.  The constants `(Q, L, d, I, Bx, By)` are

* `(389, 53, 61, 115, 118, 64)`, `(397, 53, 39, 63, 172, 7)`, `(421, 53, 50, 29, 360, 7)`
  (424 = 8·53 points each), and `(461, 61, 3, 48, 394, 5)` (488 = 8·61 points).

For each of them every field of `CurveOK` is a closed decidable statement, discharged by
`norm_num` (primality) or kernel evaluation (`I² = -1`, Euler's criterion for `d`, the base point
on the curve and of order `L` by running the *generated* ladder).  Hence every Ed25519 theorem of
the project (`ed25519Spec`, `BaseOrder`, `#E = 8·L`, `TorsionIsCyclic`, …) holds, unconditionally,
on these curves as well.
-/
set_option maxRecDepth 100000
namespace Spake2Verif
open Spake2Model Spake2Model.Gen

/-! ### `(Q, L, d, I, B) = (389, 53, 61, 115, (118, 64))` -/

def toy389 : Curve := ⟨389, 53, 61, 115, (118, 64)⟩

theorem toy389_Q_prime : toy389.Q.toNat.Prime := by
  show Nat.Prime 389
  norm_num

theorem toy389_L_prime : toy389.L.toNat.Prime := by
  show Nat.Prime 53
  norm_num

theorem curveOK_toy389 : CurveOK toy389 where
  Q_prime := toy389_Q_prime
  Q_mod8 := by decide
  Q_lt := by decide +kernel
  I_sq := I_sq_of_emod (by decide) (by decide)
  d_nonsq := nonsquare_of_powMod toy389_Q_prime (by decide) (by decide +kernel)
  L_prime := toy389_L_prime
  L_gt := by decide
  L_lt := by decide +kernel
  B_red := by decide
  B_on := by decide +kernel
  B_tors := by decide +kernel
  B_ne := by decide

/-- a point of order exactly 8: `(163, 73)` -/
theorem cardWitness_toy389 : CardWitness toy389 where
  T := ⟨(163, 73), by decide +kernel, by decide +kernel, by decide +kernel⟩
  Q_lt := by decide

/-! ### `(Q, L, d, I, B) = (397, 53, 39, 63, (172, 7))` -/

def toy397 : Curve := ⟨397, 53, 39, 63, (172, 7)⟩

theorem toy397_Q_prime : toy397.Q.toNat.Prime := by
  show Nat.Prime 397
  norm_num

theorem toy397_L_prime : toy397.L.toNat.Prime := by
  show Nat.Prime 53
  norm_num

theorem curveOK_toy397 : CurveOK toy397 where
  Q_prime := toy397_Q_prime
  Q_mod8 := by decide
  Q_lt := by decide +kernel
  I_sq := I_sq_of_emod (by decide) (by decide)
  d_nonsq := nonsquare_of_powMod toy397_Q_prime (by decide) (by decide +kernel)
  L_prime := toy397_L_prime
  L_gt := by decide
  L_lt := by decide +kernel
  B_red := by decide
  B_on := by decide +kernel
  B_tors := by decide +kernel
  B_ne := by decide

/-- a point of order exactly 8: `(189, 3)` -/
theorem cardWitness_toy397 : CardWitness toy397 where
  T := ⟨(189, 3), by decide +kernel, by decide +kernel, by decide +kernel⟩
  Q_lt := by decide

/-! ### `(Q, L, d, I, B) = (421, 53, 50, 29, (360, 7))` -/

def toy421 : Curve := ⟨421, 53, 50, 29, (360, 7)⟩

theorem toy421_Q_prime : toy421.Q.toNat.Prime := by
  show Nat.Prime 421
  norm_num

theorem toy421_L_prime : toy421.L.toNat.Prime := by
  show Nat.Prime 53
  norm_num

theorem curveOK_toy421 : CurveOK toy421 where
  Q_prime := toy421_Q_prime
  Q_mod8 := by decide
  Q_lt := by decide +kernel
  I_sq := I_sq_of_emod (by decide) (by decide)
  d_nonsq := nonsquare_of_powMod toy421_Q_prime (by decide) (by decide +kernel)
  L_prime := toy421_L_prime
  L_gt := by decide
  L_lt := by decide +kernel
  B_red := by decide
  B_on := by decide +kernel
  B_tors := by decide +kernel
  B_ne := by decide

/-- a point of order exactly 8: `(62, 114)` -/
theorem cardWitness_toy421 : CardWitness toy421 where
  T := ⟨(62, 114), by decide +kernel, by decide +kernel, by decide +kernel⟩
  Q_lt := by decide

/-! ### `(Q, L, d, I, B) = (461, 61, 3, 48, (394, 5))` -/

def toy461 : Curve := ⟨461, 61, 3, 48, (394, 5)⟩

theorem toy461_Q_prime : toy461.Q.toNat.Prime := by
  show Nat.Prime 461
  norm_num

theorem toy461_L_prime : toy461.L.toNat.Prime := by
  show Nat.Prime 61
  norm_num

theorem curveOK_toy461 : CurveOK toy461 where
  Q_prime := toy461_Q_prime
  Q_mod8 := by decide
  Q_lt := by decide +kernel
  I_sq := I_sq_of_emod (by decide) (by decide)
  d_nonsq := nonsquare_of_powMod toy461_Q_prime (by decide) (by decide +kernel)
  L_prime := toy461_L_prime
  L_gt := by decide
  L_lt := by decide +kernel
  B_red := by decide
  B_on := by decide +kernel
  B_tors := by decide +kernel
  B_ne := by decide

/-- a point of order exactly 8: `(1, 48)` -/
theorem cardWitness_toy461 : CardWitness toy461 where
  T := ⟨(1, 48), by decide +kernel, by decide +kernel, by decide +kernel⟩
  Q_lt := by decide

/-! ### the instances: every `GroupSpec` theorem of the project holds on the toy curves -/

noncomputable def specToy389 : GroupSpec (edGroup toy389) := ed25519Spec toy389 curveOK_toy389
noncomputable def specToy397 : GroupSpec (edGroup toy397) := ed25519Spec toy397 curveOK_toy397
noncomputable def specToy421 : GroupSpec (edGroup toy421) := ed25519Spec toy421 curveOK_toy421
noncomputable def specToy461 : GroupSpec (edGroup toy461) := ed25519Spec toy461 curveOK_toy461

theorem specToy389_baseOrder : specToy389.BaseOrder := Ed25519Spec.baseOrder _ _
theorem specToy397_baseOrder : specToy397.BaseOrder := Ed25519Spec.baseOrder _ _
theorem specToy421_baseOrder : specToy421.BaseOrder := Ed25519Spec.baseOrder _ _
theorem specToy461_baseOrder : specToy461.BaseOrder := Ed25519Spec.baseOrder _ _

/-- the curves have `8·L` points: 424, 424, 424, 488 -/
theorem specToy389_card : Nat.card specToy389.A = 424 := curveOK_toy389.spec_card cardWitness_toy389
theorem specToy397_card : Nat.card specToy397.A = 424 := curveOK_toy397.spec_card cardWitness_toy397
theorem specToy421_card : Nat.card specToy421.A = 424 := curveOK_toy421.spec_card cardWitness_toy421
theorem specToy461_card : Nat.card specToy461.A = 488 := curveOK_toy461.spec_card cardWitness_toy461

/-- the `L`-torsion is exactly the subgroup generated by the base point -/
theorem specToy389_torsionIsCyclic : specToy389.TorsionIsCyclic :=
  curveOK_toy389.torsionIsCyclic cardWitness_toy389
theorem specToy397_torsionIsCyclic : specToy397.TorsionIsCyclic :=
  curveOK_toy397.torsionIsCyclic cardWitness_toy397
theorem specToy421_torsionIsCyclic : specToy421.TorsionIsCyclic :=
  curveOK_toy421.torsionIsCyclic cardWitness_toy421
theorem specToy461_torsionIsCyclic : specToy461.TorsionIsCyclic :=
  curveOK_toy461.torsionIsCyclic cardWitness_toy461

/-- `arbitrary_element` never trips its final assertion on the toy curves either -/
theorem toy389_arb_never_asserts (seed : Bytes) :
    (edGroup toy389).arb seed ≠ raise .AssertionError :=
  PropAuxB.ed_arb_never_asserts curveOK_toy389 (curveOK_toy389.spec_card cardWitness_toy389) seed

/-! ## Summary -/

#print axioms curveOK_toy389
#print axioms curveOK_toy397
#print axioms curveOK_toy421
#print axioms curveOK_toy461
#print axioms cardWitness_toy389
#print axioms cardWitness_toy397
#print axioms cardWitness_toy421
#print axioms cardWitness_toy461
#print axioms specToy389
#print axioms specToy397
#print axioms specToy389_baseOrder
#print axioms specToy397_baseOrder
#print axioms specToy389_card
#print axioms specToy397_card
#print axioms specToy421_card
#print axioms specToy461_card
#print axioms specToy389_torsionIsCyclic
#print axioms specToy397_torsionIsCyclic
#print axioms specToy421_torsionIsCyclic
#print axioms specToy461_torsionIsCyclic
#print axioms toy389_arb_never_asserts

end Spake2Verif
