import Spake2Verif.Spec.Ed25519Spec
import Spake2Verif.Spec.EdConsts
import Spake2Model.Model.Published

/-!
# `CurveOK` for the shipped constants, and the two concrete Ed25519 instances

* `curveOK_gen`: the curve built from the constants *generated from the current source*
  (`Spake2Model.ed25519`, fields `Gen.Ed.Q_c, L_c, d_c, I_c, B_c`) — every field is a lemma of
  `Spec/Primes.lean` / `Spec/EdConsts.lean` or a closed kernel evaluation.
* `curveOK_published`: the curve of literal RFC 8032 constants (`Spake2Model.Published.curve`) —
  primality from the same Pratt certificates, `I² = -1` and Euler's criterion for `d` by kernel
  evaluation, the base-point facts by running the generated ladder in the kernel.
-/
set_option maxRecDepth 100000
namespace Spake2Verif
open Spake2Model Spake2Model.Gen

/-! ### generic discharge lemmas (from closed integer facts to `ZMod Q`) -/

theorem intCast_emod_toNat {Q : ℤ} (hQ : 0 < Q) (a : ℤ) :
    ((a % Q : ℤ) : ZMod Q.toNat) = (a : ZMod Q.toNat) := by
  have hc : ((Q.toNat : ℕ) : ℤ) = Q := Int.toNat_of_nonneg hQ.le
  have := ZMod.intCast_mod a Q.toNat
  rwa [hc] at this

theorem intCast_self_toNat {Q : ℤ} (hQ : 0 < Q) : ((Q : ℤ) : ZMod Q.toNat) = 0 := by
  have hc : ((Q.toNat : ℕ) : ℤ) = Q := Int.toNat_of_nonneg hQ.le
  exact (ZMod.intCast_zmod_eq_zero_iff_dvd _ _).2 (by rw [hc])

/-- `I·I mod Q = Q - 1` gives `I² = -1` in `ZMod Q` -/
theorem I_sq_of_emod {Q I : ℤ} (hQ : 0 < Q) (hI : I * I % Q = Q - 1) :
    ((I : ZMod Q.toNat)) ^ 2 = -1 := by
  have h1 : ((I * I % Q : ℤ) : ZMod Q.toNat) = ((Q - 1 : ℤ) : ZMod Q.toNat) := by rw [hI]
  rw [intCast_emod_toNat hQ, Int.cast_mul, Int.cast_sub, intCast_self_toNat hQ] at h1
  rw [sq, h1]; simp

/-- Euler's criterion evaluated by `powMod`: `d^((Q-1)/2) ≡ -1` makes `d` a non-square -/
theorem nonsquare_of_powMod {Q d : ℤ} (hp : Q.toNat.Prime) (h2 : 2 < Q.toNat)
    (he : Py.powMod (d % Q).toNat (Q.toNat / 2) Q.toNat = Q.toNat - 1) :
    ∀ s : ZMod Q.toNat, s ^ 2 ≠ (d : ZMod Q.toNat) := by
  have : Fact Q.toNat.Prime := ⟨hp⟩
  have : Fact (2 < Q.toNat) := ⟨h2⟩
  have hQ : 0 < Q := by omega
  have hQn : 0 < Q.toNat := by omega
  have heul : (d : ZMod Q.toNat) ^ (Q.toNat / 2) = -1 := by
    rw [Py.powMod_spec _ _ _ hQn] at he
    have hd : (d : ZMod Q.toNat) = (((d % Q).toNat : ℕ) : ZMod Q.toNat) := by
      have h1 : (((d % Q).toNat : ℕ) : ℤ) = d % Q :=
        Int.toNat_of_nonneg (Int.emod_nonneg _ (ne_of_gt hQ))
      rw [← Int.cast_natCast, h1, intCast_emod_toNat hQ]
    rw [hd, ← Nat.cast_pow, ← ZMod.natCast_mod, he, Nat.cast_sub hQn, ZMod.natCast_self]
    simp
  have hne : (d : ZMod Q.toNat) ≠ 0 := by
    intro h0
    rw [h0, zero_pow (by omega)] at heul
    have : (1 : ZMod Q.toNat) = 0 := by
      have := congrArg (fun x => -x) heul; simpa using this.symm
    exact one_ne_zero this
  intro s hs
  have hsq : IsSquare (d : ZMod Q.toNat) := ⟨s, by rw [← hs, sq]⟩
  rw [ZMod.euler_criterion _ hne, heul] at hsq
  exact ZMod.neg_one_ne_one hsq

/-! ### the curve generated from the current source -/

/-- the side conditions hold for the constants the module computes -/
theorem curveOK_gen : CurveOK Spake2Model.ed25519 where
  Q_prime := Spec.Q_prime
  Q_mod8 := Spec.Q_mod_8
  Q_lt := by decide +kernel
  I_sq := Spec.I_c_sq
  d_nonsq := Spec.d_c_nonsquare
  L_prime := Spec.L_prime
  L_gt := by decide +kernel
  L_lt := by decide +kernel
  B_red := by decide +kernel
  B_on := Spec.B_c_isoncurve
  B_tors := Spec.L_smul_B_zero
  B_ne := by decide +kernel

/-! ### the published (RFC 8032) curve -/

theorem published_Q_toNat : Published.curve.Q.toNat =
    57896044618658097711785492504343953926634992332820282019728792003956564819949 := by
  decide +kernel

theorem published_L_toNat : Published.curve.L.toNat =
    7237005577332262213973186563042994240857116359379907606001950938285454250989 := by
  decide +kernel

theorem published_Q_prime : Published.curve.Q.toNat.Prime := by
  rw [published_Q_toNat]; exact Spec.PrimeQ.target_prime

theorem published_L_prime : Published.curve.L.toNat.Prime := by
  rw [published_L_toNat]; exact Spec.PrimeL.target_prime

theorem published_I_sq_emod :
    Published.curve.I * Published.curve.I % Published.curve.Q = Published.curve.Q - 1 := by
  decide +kernel

theorem published_d_euler :
    Py.powMod (Published.curve.d % Published.curve.Q).toNat (Published.curve.Q.toNat / 2)
      Published.curve.Q.toNat = Published.curve.Q.toNat - 1 := by
  decide +kernel

/-- the side conditions hold for the literal RFC 8032 constants -/
theorem curveOK_published : CurveOK Published.curve where
  Q_prime := published_Q_prime
  Q_mod8 := by decide +kernel
  Q_lt := by decide +kernel
  I_sq := I_sq_of_emod (by decide +kernel) published_I_sq_emod
  d_nonsq := nonsquare_of_powMod published_Q_prime (by decide +kernel) published_d_euler
  L_prime := published_L_prime
  L_gt := by decide +kernel
  L_lt := by decide +kernel
  B_red := by decide +kernel
  B_on := by decide +kernel
  B_tors := by decide +kernel
  B_ne := by decide +kernel

/-! ### the instances -/

/-- `GroupSpec` for the Ed25519 group as computed by the current source -/
noncomputable def specGen : GroupSpec (edGroup Spake2Model.ed25519) :=
  ed25519Spec Spake2Model.ed25519 curveOK_gen

/-- `GroupSpec` for the Ed25519 group of the published constants -/
noncomputable def specPublished : GroupSpec (edGroup Published.curve) :=
  ed25519Spec Published.curve curveOK_published

theorem specGen_baseOrder : specGen.BaseOrder := Ed25519Spec.baseOrder _ _

theorem specPublished_baseOrder : specPublished.BaseOrder := Ed25519Spec.baseOrder _ _

/-- the generated curve differs from the published record only in the representative of `d`
(Python keeps the unreduced product `-121665 * inv(121666)`) -/
theorem gen_vs_published :
    Spake2Model.ed25519.Q = Published.curve.Q ∧ Spake2Model.ed25519.L = Published.curve.L ∧
      Spake2Model.ed25519.d % Spake2Model.ed25519.Q = Published.curve.d ∧
      Spake2Model.ed25519.I = Published.curve.I ∧ Spake2Model.ed25519.B = Published.curve.B := by
  decide +kernel

#print axioms curveOK_gen
#print axioms curveOK_published
#print axioms specGen
#print axioms specPublished
#print axioms specGen_baseOrder
#print axioms specPublished_baseOrder
#print axioms gen_vs_published

end Spake2Verif

