import Spake2Model.Py
import Spake2Verif.Basic.PyLemmas
import Mathlib.NumberTheory.LucasPrimality
import Mathlib.Tactic.NormNum.Prime

/-!
Pratt (Lucas) primality certificates whose arithmetic side conditions are closed terms over
`Spake2Model.Py.powMod`, hence decidable by kernel evaluation (`decide +kernel`).
-/
namespace Spake2Verif.Spec
open Spake2Model.Py

theorem prime_dvd_prod_pow {q : ℕ} (hq : q.Prime) :
    ∀ (fs : List (ℕ × ℕ)), (∀ f ∈ fs, f.1.Prime) →
      q ∣ (fs.map (fun f => f.1^f.2)).prod → ∃ f ∈ fs, f.1 = q
  | [], _, h => by simp at h; exact absurd h hq.one_lt.ne'
  | f :: fs, hp, h => by
      rw [List.map_cons, List.prod_cons] at h
      rcases (Nat.Prime.dvd_mul hq).1 h with h | h
      · have := hq.dvd_of_dvd_pow h
        exact ⟨f, by simp, ((Nat.prime_dvd_prime_iff_eq hq (hp f (by simp))).1 this).symm⟩
      · obtain ⟨g, hg, hg'⟩ := prime_dvd_prod_pow hq fs (fun f hf => hp f (by simp [hf])) h
        exact ⟨g, by simp [hg], hg'⟩

/-- Pratt / Lucas certificate: `a` is a witness of order exactly `p-1` modulo `p`, where
`fs` is the complete prime factorisation of `p-1`.  All arithmetic side conditions are
kernel-decidable. -/
theorem prime_of_pratt (p a : ℕ) (fs : List (ℕ × ℕ)) (hp : 1 < p)
    (hprime : ∀ f ∈ fs, f.1.Prime)
    (hprod : (fs.map (fun f => f.1^f.2)).prod = p - 1)
    (h1 : powMod a (p-1) p = 1)
    (h2 : ∀ f ∈ fs, powMod a ((p-1)/f.1) p ≠ 1) : p.Prime := by
  have hp0 : 0 < p := by omega
  have cast : ∀ e, ((powMod a e p : ℕ) : ZMod p) = (a : ZMod p)^e := by
    intro e; rw [powMod_spec _ _ _ hp0]; simp
  apply lucas_primality p (a : ZMod p)
  · rw [← cast, h1]; simp
  · intro q hq hdvd
    rw [← hprod] at hdvd
    obtain ⟨f, hf, rfl⟩ := prime_dvd_prod_pow hq fs hprime hdvd
    rw [← cast]
    intro hcontra
    apply h2 f hf
    have hlt : powMod a ((p-1)/f.1) p < p := powMod_lt _ _ _ hp0
    have : ((powMod a ((p-1)/f.1) p : ℕ) : ZMod p) = ((1 : ℕ) : ZMod p) := by
      simpa using hcontra
    rw [ZMod.natCast_eq_natCast_iff'] at this
    rwa [Nat.mod_eq_of_lt hlt, Nat.mod_eq_of_lt hp] at this

end Spake2Verif.Spec
