import Spake2Verif.Spec.EdConsts
import Spake2Verif.Spec.Primes
import Spake2Verif.Proofs.EdBridge
import Spake2Verif.Proofs.EdLadder
import Mathlib.GroupTheory.OrderOfElement

/-!
# The Ed25519 curve as a group, the base point of order `L`, a point of order `8`

The kernel-evaluated facts of `EdConsts` (`L_smul_B_zero`, …: the *generated* safe ladder run on
the *generated* constants) are turned into statements about the abelian group `Point C25519`
through the ladder theorem `scalarmult_element_safe_slow_rep`.
-/
namespace Spake2Verif.Spec
open Spake2Model Spake2Model.Gen Spake2Verif.Edw Spake2Verif.EdBridge Spake2Verif.EdLadder

/-- the field size `2^255 - 19` as a natural number -/
abbrev Qn : ℕ := Ed.Q_c.toNat

/-- the order `L` of the base point as a natural number -/
abbrev Ln : ℕ := Ed.L_c.toNat

/-- the Ed25519 curve `-x² + y² = 1 + d x² y²` over `ZMod (2^255 - 19)`, all parameters being the
generated constants -/
def C25519 : EdCurve (ZMod Qn) :=
  mkCurve Qn Ed.d_c Ed.I_c (Fact.out : 2 < Ed.Q_c.toNat) I_c_sq d_c_nonsquare

theorem C25519_d : C25519.d = (Ed.d_c : ZMod Qn) := rfl

theorem C25519_i : C25519.i = (Ed.I_c : ZMod Qn) := rfl

theorem Qn_cast : ((Qn : ℕ) : ℤ) = Ed.Q_c := Q_toNat_cast

theorem L_c_pos : 0 < Ed.L_c := by decide +kernel

theorem Ln_cast : ((Ln : ℕ) : ℤ) = Ed.L_c := Int.toNat_of_nonneg (le_of_lt L_c_pos)

/-- a pair accepted by the generated `isoncurve` (at the generated `Q`, `d`) is a point of `C25519` -/
def pointOfIsoncurve25519 (P : ℤ × ℤ) (h : Ed.isoncurve Ed.Q_c Ed.d_c P = true) : Point C25519 :=
  pointOfIsoncurve C25519 Ed.d_c rfl P (by rw [Qn_cast]; exact h)

@[simp] theorem pointOfIsoncurve25519_x (P : ℤ × ℤ) (h) :
    (pointOfIsoncurve25519 P h).x = (P.1 : ZMod Qn) := rfl

@[simp] theorem pointOfIsoncurve25519_y (P : ℤ × ℤ) (h) :
    (pointOfIsoncurve25519 P h).y = (P.2 : ZMod Qn) := rfl

/-- the generated safe ladder, run on the affine integer pair `P`, decides `n • P = 0` in the group -/
theorem safe_ladder_zero_iff (P : ℤ × ℤ) (h : Ed.isoncurve Ed.Q_c Ed.d_c P = true) (n : ℤ)
    (hn : 0 ≤ n) :
    Ed.is_extended_zero Ed.Q_c
        (Ed.scalarmult_element_safe_slow Ed.Q_c Ed.d_c (Ed.xform_affine_to_extended Ed.Q_c P) n)
        = true
      ↔ n • pointOfIsoncurve25519 P h = 0 := by
  have r0 := (xform_affine_to_extended_rep C25519 P (pointOfIsoncurve25519 P h) rfl rfl).1
  obtain ⟨r, red⟩ := scalarmult_element_safe_slow_rep C25519 Ed.d_c rfl r0 n hn
  have := is_extended_zero_iff C25519 r red.1.1 red.1.2
  rwa [Qn_cast] at this

/-! ### the base point -/

/-- the base point `B` as a point of the curve -/
def Bpt : Point C25519 := pointOfIsoncurve25519 Ed.B_c B_c_isoncurve

theorem Bpt_x : Bpt.x = (Ed.B_c.1 : ZMod Qn) := rfl
theorem Bpt_y : Bpt.y = (Ed.B_c.2 : ZMod Qn) := rfl

/-- `L • B = 0` -/
theorem L_zsmul_Bpt : (Ln : ℤ) • Bpt = 0 := by
  rw [Ln_cast]
  exact (safe_ladder_zero_iff Ed.B_c B_c_isoncurve Ed.L_c (le_of_lt L_c_pos)).1 L_smul_B_zero

theorem L_nsmul_Bpt : Ln • Bpt = 0 := by
  have := L_zsmul_Bpt
  rwa [natCast_zsmul] at this

/-- `B ≠ 0` -/
theorem Bpt_ne_zero : Bpt ≠ 0 := by
  intro h0
  have h := (safe_ladder_zero_iff Ed.B_c B_c_isoncurve 1 (by norm_num)).2
    (by rw [one_zsmul]; exact h0)
  rw [one_smul_B_ne_zero] at h
  exact Bool.false_ne_true h

/-- the base point has order exactly `L` -/
theorem addOrderOf_Bpt : addOrderOf Bpt = Ln :=
  addOrderOf_eq_prime L_nsmul_Bpt Bpt_ne_zero

/-- `n • B = 0 ↔ L ∣ n` -/
theorem zsmul_Bpt_eq_zero_iff (n : ℤ) : n • Bpt = 0 ↔ (Ln : ℤ) ∣ n := by
  rw [← addOrderOf_Bpt]; exact (addOrderOf_dvd_iff_zsmul_eq_zero).symm

/-! ### a point of order 8 -/

/-- the order-8 literal point `P8` as a point of the curve -/
def T8 : Point C25519 := pointOfIsoncurve25519 P8 P8_isoncurve

theorem T8_x : T8.x = (P8.1 : ZMod Qn) := rfl
theorem T8_y : T8.y = (P8.2 : ZMod Qn) := rfl

theorem eight_zsmul_T8 : (8 : ℤ) • T8 = 0 :=
  (safe_ladder_zero_iff P8 P8_isoncurve 8 (by norm_num)).1 eight_smul_P8_zero

theorem four_zsmul_T8_ne : (4 : ℤ) • T8 ≠ 0 := by
  intro h0
  have h := (safe_ladder_zero_iff P8 P8_isoncurve 4 (by norm_num)).2 h0
  rw [four_smul_P8_ne_zero] at h
  exact Bool.false_ne_true h

theorem L_zsmul_T8_ne : (Ln : ℤ) • T8 ≠ 0 := by
  intro h0
  rw [Ln_cast] at h0
  have h := (safe_ladder_zero_iff P8 P8_isoncurve Ed.L_c (le_of_lt L_c_pos)).2 h0
  rw [L_smul_P8_ne_zero] at h
  exact Bool.false_ne_true h

/-- `T8` has order exactly `8` -/
theorem addOrderOf_T8 : addOrderOf T8 = 8 := by
  have h8 : (2 ^ (2 + 1)) • T8 = 0 := by
    have := eight_zsmul_T8
    rwa [show (8 : ℤ) = ((2 ^ (2 + 1) : ℕ) : ℤ) by norm_num, natCast_zsmul] at this
  have h4 : ¬ (2 ^ 2) • T8 = 0 := by
    intro h
    apply four_zsmul_T8_ne
    rw [show (4 : ℤ) = ((2 ^ 2 : ℕ) : ℤ) by norm_num, natCast_zsmul]; exact h
  have := addOrderOf_eq_prime_pow (p := 2) h4 h8
  simpa using this

/-! ### `B + T8` has order `8 L` -/

theorem Ln_odd : Ln % 2 = 1 := by decide +kernel

theorem coprime_Ln_eight : Nat.Coprime Ln 8 := by
  have h2 : Nat.Coprime Ln 2 := by
    rw [Nat.coprime_comm, Nat.coprime_two_left]
    exact Nat.odd_iff.2 Ln_odd
  exact Nat.Coprime.pow_right 3 h2

/-- the point `B + T8` has order `8 L` -/
theorem addOrderOf_Bpt_add_T8 : addOrderOf (Bpt + T8) = 8 * Ln := by
  have := (AddCommute.all Bpt T8).addOrderOf_add_eq_mul_addOrderOf_of_coprime
    (by rw [addOrderOf_Bpt, addOrderOf_T8]; exact coprime_Ln_eight)
  rw [this, addOrderOf_Bpt, addOrderOf_T8, mul_comm]

#print axioms C25519
#print axioms L_zsmul_Bpt
#print axioms Bpt_ne_zero
#print axioms addOrderOf_Bpt
#print axioms zsmul_Bpt_eq_zero_iff
#print axioms addOrderOf_T8
#print axioms L_zsmul_T8_ne
#print axioms addOrderOf_Bpt_add_T8

end Spake2Verif.Spec
