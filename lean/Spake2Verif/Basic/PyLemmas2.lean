import Spake2Verif.Basic.PyLemmas
import Mathlib.Data.Nat.Bitwise
import Mathlib.Tactic.Linarith

/-!
Further specifications of the Python-integer helpers: `n >> 1`, `n & 1`, `bit_length` as fuel.
-/
namespace Spake2Model.Py

theorem shr_one (n : Int) : shr n 1 = n / 2 := by
  unfold shr
  show Int.fdiv n (2 ^ (1:Int).toNat) = n / 2
  have : (2:Int) ^ (1:Int).toNat = 2 := by norm_num
  rw [this]
  exact Int.fdiv_eq_ediv_of_nonneg n (by norm_num)

theorem bitLength_one : bitLength 1 = 1 := by
  unfold bitLength
  have : Nat.log2 1 = 0 := by simpa using (Nat.log2_two_pow (n := 0))
  simp [this]

theorem band_one (n : Int) : band n 1 = n % 2 := by
  unfold band
  rw [if_pos (by norm_num), bitLength_one]
  have h2 : (2:Int) ^ (1:Int).toNat = 2 := by norm_num
  rw [h2]
  show ((((n % 2).toNat &&& (1:Int).toNat : Nat)) : Int) = n % 2
  have h1 : (1:Int).toNat = 1 := rfl
  rw [h1, Nat.and_one_is_mod]
  have hnn : 0 ≤ n % 2 := Int.emod_nonneg n (by norm_num)
  have hlt : n % 2 < 2 := Int.emod_lt_of_pos n (by norm_num)
  omega

/-- the fuel supplied by the generated ladders is sufficient -/
theorem lt_two_pow_bitLength_succ (n : Int) (hn : 0 ≤ n) : n < 2 ^ (bitLength n).toNat.succ := by
  unfold bitLength
  split
  · next h => subst h; positivity
  · next h =>
    have h1 : n.natAbs < 2 ^ (n.natAbs.log2 + 1) := Nat.lt_log2_self
    have h2 : (Int.ofNat (n.natAbs.log2 + 1)).toNat = n.natAbs.log2 + 1 := rfl
    rw [h2]
    have h3 : (n.natAbs : Int) = n := Int.natAbs_of_nonneg hn
    have h4 : ((n.natAbs : Nat) : Int) < ((2 ^ (n.natAbs.log2 + 1) : Nat) : Int) := by exact_mod_cast h1
    rw [h3] at h4
    push_cast at h4
    calc n < 2 ^ (n.natAbs.log2 + 1) := h4
      _ ≤ 2 ^ (n.natAbs.log2 + 1).succ := by
          have : (0:Int) < 2 ^ (n.natAbs.log2 + 1) := by positivity
          rw [Nat.succ_eq_add_one, pow_succ (2:Int) (n.natAbs.log2 + 1)]; linarith

end Spake2Model.Py
