import Spake2Model.Py
import Mathlib.Tactic.Ring
import Mathlib.Tactic.NormNum
import Mathlib.Data.Nat.Log
import Mathlib.Data.Int.Basic
import Mathlib.Data.Int.ModEq

/-!
Specifications of the Python-integer helpers in `Spake2Model.Py`.
-/
namespace Spake2Model.Py

theorem powModAux_spec : ∀ (fuel b e n acc : Nat), e < 2^fuel →
    powModAux fuel b e n acc % n = acc * b^e % n
  | 0, b, e, n, acc, h => by
      have : e = 0 := by simpa using h
      subst this; simp [powModAux]
  | fuel+1, b, e, n, acc, h => by
      unfold powModAux
      split
      · next he => subst he; simp
      · next he =>
        have hlt : e / 2 < 2^fuel := by
          rw [Nat.div_lt_iff_lt_mul (by norm_num)]; rw [pow_succ] at h; exact h
        rw [powModAux_spec fuel _ _ _ _ hlt]
        have hb : (b*b % n)^(e/2) % n = (b*b)^(e/2) % n := (Nat.pow_mod (b*b) (e/2) n).symm
        have he2 : e = 2*(e/2) + e%2 := (Nat.div_add_mod e 2).symm
        split
        · next h1 =>
          calc (acc*b % n) * (b*b % n)^(e/2) % n
              = ((acc*b % n) * ((b*b % n)^(e/2) % n)) % n := by simp [Nat.mul_mod]
            _ = (acc*b) * (b*b)^(e/2) % n := by rw [hb]; simp [Nat.mul_mod]
            _ = acc * b^e % n := by
                conv_rhs => rw [he2, h1, pow_add, pow_mul]
                ring_nf
        · next h1 =>
          have h0 : e % 2 = 0 := by omega
          calc acc * (b*b % n)^(e/2) % n
              = (acc * ((b*b % n)^(e/2) % n)) % n := by simp [Nat.mul_mod]
            _ = acc * (b*b)^(e/2) % n := by rw [hb]; simp [Nat.mul_mod]
            _ = acc * b^e % n := by
                conv_rhs => rw [he2, h0, pow_add, pow_mul]
                ring_nf

theorem powModAux_lt : ∀ (fuel b e n acc : Nat), 0 < n → acc < n → powModAux fuel b e n acc < n
  | 0, _, _, _, _, _, h => by simpa [powModAux] using h
  | fuel+1, b, e, n, acc, hn, h => by
      unfold powModAux
      split
      · exact h
      · apply powModAux_lt fuel _ _ _ _ hn
        split
        · exact Nat.mod_lt _ hn
        · exact h

/-- the kernel-evaluable `powMod` is modular exponentiation -/
theorem powMod_spec (b e n : Nat) (hn : 0 < n) : powMod b e n = b^e % n := by
  unfold powMod
  have hfuel : e < 2^(e.log2+1) := Nat.lt_log2_self
  have h := powModAux_spec (e.log2+1) (b % n) e n (1 % n) hfuel
  have hlt : powModAux (e.log2 + 1) (b % n) e n (1 % n) < n :=
    powModAux_lt _ _ _ _ _ hn (Nat.mod_lt _ hn)
  rw [← Nat.mod_eq_of_lt hlt, h]
  rcases Nat.lt_or_ge 1 n with h1 | h1
  · rw [Nat.mod_eq_of_lt h1, one_mul, ← Nat.pow_mod]
  · have : n = 1 := by omega
    subst this; simp [Nat.mod_one]

theorem powMod_lt (b e n : Nat) (hn : 0 < n) : powMod b e n < n := by
  rw [powMod_spec _ _ _ hn]; exact Nat.mod_lt _ hn

/-- Python's `pow(b, e, n)` for `e ≥ 0`, `n > 0` -/
theorem pow3_spec (b e n : Int) (he : 0 ≤ e) (hn : 0 < n) :
    pow3 b e n = (b ^ e.toNat) % n := by
  unfold pow3
  rw [if_pos ⟨he, hn⟩]
  have hn' : 0 < n.toNat := by omega
  rw [powMod_spec _ _ _ hn']
  have h1 : ((b.emod n).toNat : Int) = b % n := by
    have := Int.emod_nonneg b (ne_of_gt hn); exact Int.toNat_of_nonneg this
  have h2 : (n.toNat : Int) = n := Int.toNat_of_nonneg (le_of_lt hn)
  show ((((b.emod n).toNat ^ e.toNat % n.toNat : Nat)) : Int) = b ^ e.toNat % n
  push_cast
  rw [h1, h2]
  exact (Int.ModEq.pow e.toNat (Int.mod_modEq b n))

theorem pow3_nonneg (b e n : Int) : 0 ≤ pow3 b e n := by
  unfold pow3; split
  · exact Int.natCast_nonneg _
  · exact le_refl _

theorem pow3_lt (b e n : Int) (hn : 0 < n) : pow3 b e n < n := by
  unfold pow3; split
  · have := powMod_lt (b.emod n).toNat e.toNat n.toNat (by omega)
    have h2 : (n.toNat : Int) = n := Int.toNat_of_nonneg (le_of_lt hn)
    calc ((powMod (b.emod n).toNat e.toNat n.toNat : Nat) : Int) < (n.toNat : Int) := by exact_mod_cast this
      _ = n := h2
  · exact hn

end Spake2Model.Py
