import Spake2Verif.Proofs.PropAuxB3
import Spake2Verif.Proofs.UnknownGroup
import Spake2Verif.Proofs.EdShapeTie
import Spake2Verif.Spec.ToyCurves
import Spake2Verif.Proofs.GroupShapeTie
/-!
# C13 — Group elements obey the group axioms through the element API, in every group

Statement (properties.jsonl):
"In every group (Ed25519 and IntegerGroup over any valid p, q, g), for all elements obtainable through the API (Base,
Zero, arbitrary_element, bytes_to_element and results of operations): add is commutative and associative with Zero as
identity; scalarmult(n) equals n-fold addition for every integer n (negative, zero, >= q), depends only on n mod q and
distributes over add and over scalar addition and multiplication; == and != are value equality; negate/subtract, where
offered, give the additive inverse.  Every result is again a full element (same operations, encodable, and decodable unless
it is an identity the group refuses)."

How it is stated.  `G : Group` is the record of Python-level operations (each may raise: `R α = Except Err α`);
`S : GroupSpec G` is the contract (`Spec/GroupSpec.lean`) relating them to an abelian group `S.A` on a set `S.Valid` of
element objects.  Every law is stated **on what a caller can observe**: the operation returns (`= .ok c`, it never raises
on valid operands) and the two sides have the same `to_bytes` encoding (`G.enc c = G.enc c'`); `enc` is injective on values
(`S.enc_inj`), so this is value equality.  `PropAuxB.Obtainable G e` is the closed world of the statement: the element
objects reachable from `Base`, `Zero`, `arbitrary_element(seed)`, `bytes_to_element(b)` by `add`, `scalarmult`, `negate`.
`PropAuxB.addN G a n` is `n`-fold addition through the API (`Zero.add(a).add(a)…`).

Clause → theorem (all for every `G` with a `GroupSpec`, hence for both kinds of group)
* commutative / associative / Zero identity        : `add_commutative`, `add_associative`, `add_identity`
* scalarmult(n) = n-fold addition, n ≥ 0           : `scalarmult_nfold`;  n < 0: `scalarmult_negative` (`(-n)·a + n·a = Zero`);
  n = 0, 1                                          : `scalarmult_zero_one`
* depends only on n mod q (also n ≥ q, n < 0)       : `scalarmult_mod_q`, `scalarmult_order` (`q·a = Zero`)
* distributes over add / scalar add / scalar mul    : `scalarmult_distrib_add`, `scalarmult_scalar_add`, `scalarmult_scalar_mul`
* every result is again a full element              : `closed_world` (obtainable ⇒ valid ⇒ all operations succeed again, fixed-width
                                                      encodable, decodable unless the refused identity), `obtainable_valid`
* instances: every accepted `(p,q,g)`               : `obtainable_valid_int` (no primality assumption), `ctor_accepts_iff`
             Ed25519 (any `CurveOK` curve; shipped) : `obtainable_valid_ed`, `obtainable_valid_ed25519`
             the three shipped integer groups       : `obtainable_valid_shipped_int`
  worked instantiations                             : `add_commutative_ed25519`, `scalarmult_mod_L_ed25519`, `add_commutative_int`,
                                                      `scalarmult_nfold_int`
* == and != are value equality                      : `eq_int` (integer groups), `eq_ed` (Ed25519; `==` compares encodings)
* negate / subtract give the additive inverse       : `negate_ed`, `subtract_ed`, `negate_is_inverse_ed`, `negate_scalar` (the generated
                                                      constant is `L - 1`); integer groups offer no `negate`: `negate_int`; in every group
                                                      `scalarmult(-1)` is the inverse: `scalarmult_neg_one_inverse`

Assumed / partial
* Nothing is assumed.  Integer groups: any `1 < p`, `0 < q`, `0 < g < p` with `pow(g, q, p) == 1` (what the constructor
  checks) — p and q need not be prime.  Ed25519: `CurveOK` is proved for the constants generated from the current source.
* These theorems are about the model **with fixes F1–F3** (negate used `L-2`; `Element.add(Zero)` demoted the class;
  integer `_Element` had no `__eq__`).  On the pinned tree the property is violated in those three ways; see the known
  findings / fix commits.  The generated constant `Gen.Ed.negate_scalar` is re-read from the source on every run, so a
  regression of F1 breaks `negate_scalar` and `negate_ed`.
* "same operations": an `Obtainable` element is `Valid`, and every operation is total on `Valid` operands with `Valid`
  results; the Python class of the result (`Element` vs `ElementOfUnknownGroup`) is part of `Valid` for Ed25519
  (`Ed25519Spec.valid_iff`).
-/
namespace Spake2Verif.C13
open Spake2Model Spake2Model.Gen Spake2Verif.PropAuxB

variable {G : Group}

/-! ### the abelian-group laws of `add` -/

/-- `a.add(b)` and `b.add(a)` both return, with equal encodings -/
theorem add_commutative (S : GroupSpec G) (a b : G.Elem) (va : S.Valid a) (vb : S.Valid b) :
    ∃ c c', G.add a b = .ok c ∧ G.add b a = .ok c' ∧ S.Valid c ∧ S.Valid c' ∧ G.enc c = G.enc c' := by
  obtain ⟨c, hc, vc, ac⟩ := S.add_ok a b va vb
  obtain ⟨c', hc', vc', ac'⟩ := S.add_ok b a vb va
  exact ⟨c, c', hc, hc', vc, vc', (S.enc_inj c c' vc vc').2 (by rw [ac, ac', add_comm])⟩

/-- `(a.add(b)).add(c)` and `a.add(b.add(c))` both return, with equal encodings -/
theorem add_associative (S : GroupSpec G) (a b c : G.Elem) (va : S.Valid a) (vb : S.Valid b)
    (vc : S.Valid c) :
    ∃ ab l bc r, G.add a b = .ok ab ∧ G.add ab c = .ok l ∧ G.add b c = .ok bc ∧ G.add a bc = .ok r ∧
      S.Valid l ∧ S.Valid r ∧ G.enc l = G.enc r := by
  obtain ⟨ab, hab, vab, aab⟩ := S.add_ok a b va vb
  obtain ⟨l, hl, vl, al⟩ := S.add_ok ab c vab vc
  obtain ⟨bc, hbc, vbc, abc⟩ := S.add_ok b c vb vc
  obtain ⟨r, hr, vr, ar⟩ := S.add_ok a bc va vbc
  exact ⟨ab, l, bc, r, hab, hl, hbc, hr, vl, vr,
    (S.enc_inj l r vl vr).2 (by rw [al, aab, ar, abc, add_assoc])⟩

/-- `a.add(Zero)` and `Zero.add(a)` return an element with the encoding of `a` -/
theorem add_identity (S : GroupSpec G) (a : G.Elem) (va : S.Valid a) :
    ∃ c c', G.add a G.zero = .ok c ∧ G.add G.zero a = .ok c' ∧ G.enc c = G.enc a ∧ G.enc c' = G.enc a := by
  obtain ⟨c, hc, vc, ac⟩ := S.add_ok a G.zero va S.zero_valid
  obtain ⟨c', hc', vc', ac'⟩ := S.add_ok G.zero a S.zero_valid va
  exact ⟨c, c', hc, hc', (S.enc_inj c a vc va).2 (by rw [ac, S.abs_zero, add_zero]),
    (S.enc_inj c' a vc' va).2 (by rw [ac', S.abs_zero, zero_add])⟩

/-! ### `scalarmult` -/

/-- for every `n ≥ 0`, `a.scalarmult(n)` has the encoding of the `n`-fold sum `Zero + a + … + a` (also for `n ≥ q`) -/
theorem scalarmult_nfold (S : GroupSpec G) (a : G.Elem) (va : S.Valid a) (n : ℕ) :
    ∃ c d, G.smul a (n : ℤ) = .ok c ∧ addN G a n = .ok d ∧ S.Valid c ∧ S.Valid d ∧ G.enc c = G.enc d := by
  obtain ⟨c, hc, vc, ac⟩ := S.smul_ok a n va
  obtain ⟨d, hd, vd, ad⟩ := addN_ok S a va n
  exact ⟨c, d, hc, hd, vc, vd, (S.enc_inj c d vc vd).2 (by rw [ac, ad])⟩

/-- negative scalars: `a.scalarmult(-n)` is the inverse of `a.scalarmult(n)`, for every integer `n` -/
theorem scalarmult_negative (S : GroupSpec G) (a : G.Elem) (va : S.Valid a) (n : ℤ) :
    ∃ c d z, G.smul a (-n) = .ok c ∧ G.smul a n = .ok d ∧ G.add c d = .ok z ∧
      G.enc z = G.enc G.zero := by
  obtain ⟨c, hc, vc, ac⟩ := S.smul_ok a (-n) va
  obtain ⟨d, hd, vd, ad⟩ := S.smul_ok a n va
  obtain ⟨z, hz, vz, az⟩ := S.add_ok c d vc vd
  exact ⟨c, d, z, hc, hd, hz,
    (S.enc_inj z G.zero vz S.zero_valid).2 (by rw [az, ac, ad, S.abs_zero, neg_zsmul, neg_add_cancel])⟩

/-- `a.scalarmult(0)` encodes as `Zero`, `a.scalarmult(1)` encodes as `a` -/
theorem scalarmult_zero_one (S : GroupSpec G) (a : G.Elem) (va : S.Valid a) :
    ∃ c d, G.smul a 0 = .ok c ∧ G.smul a 1 = .ok d ∧ G.enc c = G.enc G.zero ∧ G.enc d = G.enc a := by
  obtain ⟨c, hc, vc, ac⟩ := S.smul_ok a 0 va
  obtain ⟨d, hd, vd, ad⟩ := S.smul_ok a 1 va
  exact ⟨c, d, hc, hd, (S.enc_inj c G.zero vc S.zero_valid).2 (by rw [ac, S.abs_zero, zero_zsmul]),
    (S.enc_inj d a vd va).2 (by rw [ad, one_zsmul])⟩

/-- `a.scalarmult(n)` depends only on `n mod q` (every integer `n`: negative, zero, `≥ q`) -/
theorem scalarmult_mod_q (S : GroupSpec G) (a : G.Elem) (va : S.Valid a) (n : ℤ) :
    ∃ c d, G.smul a n = .ok c ∧ G.smul a (n % (S.q : ℤ)) = .ok d ∧ G.enc c = G.enc d := by
  obtain ⟨c, hc, vc, ac⟩ := S.smul_ok a n va
  obtain ⟨d, hd, vd, ad⟩ := S.smul_ok a (n % (S.q : ℤ)) va
  exact ⟨c, d, hc, hd,
    (S.enc_inj c d vc vd).2 (by rw [ac, ad, zsmul_emod_order _ _ _ (S.order_smul a va)])⟩

/-- `a.scalarmult(q)` encodes as `Zero`, and two scalars congruent mod `q` give the same result -/
theorem scalarmult_order (S : GroupSpec G) (a : G.Elem) (va : S.Valid a) :
    (∃ c, G.smul a (S.q : ℤ) = .ok c ∧ G.enc c = G.enc G.zero) ∧
    (∀ m n : ℤ, m % (S.q : ℤ) = n % (S.q : ℤ) →
      ∃ c d, G.smul a m = .ok c ∧ G.smul a n = .ok d ∧ G.enc c = G.enc d) := by
  constructor
  · obtain ⟨c, hc, vc, ac⟩ := S.smul_ok a (S.q : ℤ) va
    exact ⟨c, hc, (S.enc_inj c G.zero vc S.zero_valid).2 (by rw [ac, S.order_smul a va, S.abs_zero])⟩
  · intro m n hmn
    obtain ⟨c, hc, vc, ac⟩ := S.smul_ok a m va
    obtain ⟨d, hd, vd, ad⟩ := S.smul_ok a n va
    refine ⟨c, d, hc, hd, (S.enc_inj c d vc vd).2 ?_⟩
    rw [ac, ad, ← zsmul_emod_order _ _ m (S.order_smul a va),
      ← zsmul_emod_order _ _ n (S.order_smul a va), hmn]

/-- `(a.add(b)).scalarmult(n)` = `a.scalarmult(n).add(b.scalarmult(n))` -/
theorem scalarmult_distrib_add (S : GroupSpec G) (a b : G.Elem) (va : S.Valid a) (vb : S.Valid b)
    (n : ℤ) :
    ∃ ab l na nb r, G.add a b = .ok ab ∧ G.smul ab n = .ok l ∧ G.smul a n = .ok na ∧
      G.smul b n = .ok nb ∧ G.add na nb = .ok r ∧ G.enc l = G.enc r := by
  obtain ⟨ab, hab, vab, aab⟩ := S.add_ok a b va vb
  obtain ⟨l, hl, vl, al⟩ := S.smul_ok ab n vab
  obtain ⟨na, hna, vna, ana⟩ := S.smul_ok a n va
  obtain ⟨nb, hnb, vnb, anb⟩ := S.smul_ok b n vb
  obtain ⟨r, hr, vr, ar⟩ := S.add_ok na nb vna vnb
  exact ⟨ab, l, na, nb, r, hab, hl, hna, hnb, hr,
    (S.enc_inj l r vl vr).2 (by rw [al, aab, ar, ana, anb, zsmul_add])⟩

/-- `a.scalarmult(m + n)` = `a.scalarmult(m).add(a.scalarmult(n))` -/
theorem scalarmult_scalar_add (S : GroupSpec G) (a : G.Elem) (va : S.Valid a) (m n : ℤ) :
    ∃ l ma na r, G.smul a (m + n) = .ok l ∧ G.smul a m = .ok ma ∧ G.smul a n = .ok na ∧
      G.add ma na = .ok r ∧ G.enc l = G.enc r := by
  obtain ⟨l, hl, vl, al⟩ := S.smul_ok a (m + n) va
  obtain ⟨ma, hma, vma, ama⟩ := S.smul_ok a m va
  obtain ⟨na, hna, vna, ana⟩ := S.smul_ok a n va
  obtain ⟨r, hr, vr, ar⟩ := S.add_ok ma na vma vna
  exact ⟨l, ma, na, r, hl, hma, hna, hr,
    (S.enc_inj l r vl vr).2 (by rw [al, ar, ama, ana, add_zsmul])⟩

/-- `a.scalarmult(m).scalarmult(n)` = `a.scalarmult(m * n)` -/
theorem scalarmult_scalar_mul (S : GroupSpec G) (a : G.Elem) (va : S.Valid a) (m n : ℤ) :
    ∃ ma l r, G.smul a m = .ok ma ∧ G.smul ma n = .ok l ∧ G.smul a (m * n) = .ok r ∧
      G.enc l = G.enc r := by
  obtain ⟨ma, hma, vma, ama⟩ := S.smul_ok a m va
  obtain ⟨l, hl, vl, al⟩ := S.smul_ok ma n vma
  obtain ⟨r, hr, vr, ar⟩ := S.smul_ok a (m * n) va
  exact ⟨ma, l, r, hma, hl, hr,
    (S.enc_inj l r vl vr).2 (by rw [al, ama, ar, mul_comm, mul_zsmul])⟩

/-- in every group `a.scalarmult(-1)` is the additive inverse of `a` -/
theorem scalarmult_neg_one_inverse (S : GroupSpec G) (a : G.Elem) (va : S.Valid a) :
    ∃ c z, G.smul a (-1) = .ok c ∧ G.add a c = .ok z ∧ G.enc z = G.enc G.zero := by
  obtain ⟨c, hc, vc, ac⟩ := S.smul_ok a (-1) va
  obtain ⟨z, hz, vz, az⟩ := S.add_ok a c va vc
  exact ⟨c, z, hc, hz,
    (S.enc_inj z G.zero vz S.zero_valid).2 (by rw [az, ac, S.abs_zero, neg_one_zsmul, add_neg_cancel])⟩

/-! ### the closed world -/

/-- everything obtainable through the API is `Valid` (`hneg`: `negate`, where offered, returns valid elements —
discharged for both kinds of group below) -/
theorem obtainable_valid (S : GroupSpec G) (hneg : ∀ a c, S.Valid a → G.neg a = .ok c → S.Valid c)
    (e : G.Elem) (he : Obtainable G e) : S.Valid e :=
  PropAuxB.obtainable_valid S hneg e he

/-- **every result is again a full element**: an obtainable element is valid; on valid elements `add` and `scalarmult`
never raise and return valid elements; the encoding has exactly `element_size_bytes` bytes; it decodes back to an
element with the same encoding — unless the element is an identity the group refuses, in which case decoding raises -/
theorem closed_world (S : GroupSpec G) (hneg : ∀ a c, S.Valid a → G.neg a = .ok c → S.Valid c)
    (e : G.Elem) (he : Obtainable G e) :
    S.Valid e ∧
    (∀ b, S.Valid b → ∃ c, G.add e b = .ok c ∧ S.Valid c) ∧
    (∀ b, S.Valid b → ∃ c, G.add b e = .ok c ∧ S.Valid c) ∧
    (∀ n : ℤ, ∃ c, G.smul e n = .ok c ∧ S.Valid c) ∧
    ((G.enc e).length = G.elemSize ∧ IsBytes (G.enc e)) ∧
    ((∃ e', G.dec (G.enc e) = .ok e' ∧ S.Valid e' ∧ G.enc e' = G.enc e) ∨
      (S.rejectsIdentity = true ∧ G.enc e = G.enc G.zero ∧ ∃ err, G.dec (G.enc e) = .error err)) := by
  have ve := PropAuxB.obtainable_valid S hneg e he
  refine ⟨ve, fun b vb => ?_, fun b vb => ?_, fun n => ?_, S.enc_len e ve, ?_⟩
  · obtain ⟨c, hc, vc, -⟩ := S.add_ok e b ve vb; exact ⟨c, hc, vc⟩
  · obtain ⟨c, hc, vc, -⟩ := S.add_ok b e vb ve; exact ⟨c, hc, vc⟩
  · obtain ⟨c, hc, vc, -⟩ := S.smul_ok e n ve; exact ⟨c, hc, vc⟩
  · by_cases hz : S.rejectsIdentity = true ∧ S.abs e = 0
    · right
      exact ⟨hz.1, (S.enc_inj e G.zero ve S.zero_valid).2 (by rw [hz.2, S.abs_zero]),
        S.dec_zero hz.1 e ve hz.2⟩
    · left
      obtain ⟨e', he', -⟩ := S.dec_enc e ve (fun hr h0 => hz ⟨hr, h0⟩)
      obtain ⟨ve', hee⟩ := S.dec_strict _ e' (S.enc_len e ve).2 he'
      exact ⟨e', he', ve', hee⟩

/-! ### the instances -/

/-- the constructor `IntegerGroup(p, q, g)` returns iff `pow(g, q, p) == 1` -/
theorem ctor_accepts_iff (P : IntGroupParams) :
    IG.ctor P = .ok () ↔ IntGroup.ctor_ok P.p P.q P.g = true := by
  unfold IG.ctor
  cases IntGroup.ctor_ok P.p P.q P.g <;> simp [raise]

/-- integer groups over **any** accepted `(p, q, g)` (no primality): obtainable elements are valid, where
`Valid e ↔ 0 < e < p ∧ pow(e, q, p) = 1` -/
theorem obtainable_valid_int (P : IntGroupParams) (hp : 1 < P.p) (hq : 0 < P.q)
    (hg : 0 < P.g ∧ P.g < P.p) (hctor : IntGroup.ctor_ok P.p P.q P.g = true) (e : Int)
    (he : Obtainable (intGroup P) e) :
    (intGroupSpec P hp hq hg hctor).Valid e ∧ (0 < e ∧ e < P.p ∧ Py.pow3 e P.q P.p = 1) :=
  have v := PropAuxB.obtainable_valid (intGroupSpec P hp hq hg hctor) (int_hneg P _) e he
  ⟨v, v⟩

/-- Ed25519 over any curve record meeting `CurveOK` -/
theorem obtainable_valid_ed (c : Curve) (h : CurveOK c) (e : EdElem) (he : Obtainable (edGroup c) e) :
    (ed25519Spec c h).Valid e :=
  PropAuxB.obtainable_valid _ (ed_hneg c h) e he

/-- Ed25519 with the constants generated from the current source -/
theorem obtainable_valid_ed25519 (e : EdElem) (he : Obtainable (edGroup ed25519) e) : specGen.Valid e :=
  PropAuxB.obtainable_valid _ (ed_hneg ed25519 curveOK_gen) e he

/-- the three shipped integer groups (constants generated from the current source) -/
theorem obtainable_valid_shipped_int :
    (∀ e, Obtainable (intGroup ⟨IntGroup.I1024_p, IntGroup.I1024_q, IntGroup.I1024_g⟩) e → spec1024.Valid e) ∧
    (∀ e, Obtainable (intGroup ⟨IntGroup.I2048_p, IntGroup.I2048_q, IntGroup.I2048_g⟩) e → spec2048.Valid e) ∧
    (∀ e, Obtainable (intGroup ⟨IntGroup.I3072_p, IntGroup.I3072_q, IntGroup.I3072_g⟩) e → spec3072.Valid e) :=
  ⟨fun e he => PropAuxB.obtainable_valid _ (int_hneg _ _) e he,
   fun e he => PropAuxB.obtainable_valid _ (int_hneg _ _) e he,
   fun e he => PropAuxB.obtainable_valid _ (int_hneg _ _) e he⟩

/-- worked instantiation: commutativity for all obtainable Ed25519 elements -/
theorem add_commutative_ed25519 (a b : EdElem) (ha : Obtainable (edGroup ed25519) a)
    (hb : Obtainable (edGroup ed25519) b) :
    ∃ c c', (edGroup ed25519).add a b = .ok c ∧ (edGroup ed25519).add b a = .ok c' ∧
      (edGroup ed25519).enc c = (edGroup ed25519).enc c' := by
  obtain ⟨c, c', h1, h2, -, -, h3⟩ := add_commutative specGen a b
    (obtainable_valid_ed25519 a ha) (obtainable_valid_ed25519 b hb)
  exact ⟨c, c', h1, h2, h3⟩

/-- worked instantiation: on Ed25519 `scalarmult(n)` depends only on `n mod L`, `L = Gen.Ed.L_c` -/
theorem scalarmult_mod_L_ed25519 (a : EdElem) (ha : Obtainable (edGroup ed25519) a) (n : ℤ) :
    ∃ c d, (edGroup ed25519).smul a n = .ok c ∧ (edGroup ed25519).smul a (n % Ed.L_c) = .ok d ∧
      (edGroup ed25519).enc c = (edGroup ed25519).enc d := by
  have hq : (specGen.q : ℤ) = Ed.L_c := curveOK_gen.L_cast
  have := scalarmult_mod_q specGen a (obtainable_valid_ed25519 a ha) n
  rwa [hq] at this

/-- worked instantiation: commutativity in every accepted integer group -/
theorem add_commutative_int (P : IntGroupParams) (hp : 1 < P.p) (hq : 0 < P.q)
    (hg : 0 < P.g ∧ P.g < P.p) (hctor : IntGroup.ctor_ok P.p P.q P.g = true) (a b : Int)
    (ha : Obtainable (intGroup P) a) (hb : Obtainable (intGroup P) b) :
    ∃ c c', (intGroup P).add a b = .ok c ∧ (intGroup P).add b a = .ok c' ∧ c = c' := by
  have va := (obtainable_valid_int P hp hq hg hctor a ha).1
  have vb := (obtainable_valid_int P hp hq hg hctor b hb).1
  obtain ⟨c, c', h1, h2, vc, vc', h3⟩ := add_commutative (intGroupSpec P hp hq hg hctor) a b va vb
  exact ⟨c, c', h1, h2, intGroupSpec_abs_inj P hp hq hg hctor vc vc'
    (((intGroupSpec P hp hq hg hctor).enc_inj c c' vc vc').1 h3)⟩

/-- worked instantiation: in every accepted integer group `scalarmult(n)` is the `n`-fold product, as integers -/
theorem scalarmult_nfold_int (P : IntGroupParams) (hp : 1 < P.p) (hq : 0 < P.q)
    (hg : 0 < P.g ∧ P.g < P.p) (hctor : IntGroup.ctor_ok P.p P.q P.g = true) (a : Int)
    (ha : Obtainable (intGroup P) a) (n : ℕ) :
    ∃ c, (intGroup P).smul a (n : ℤ) = .ok c ∧ addN (intGroup P) a n = .ok c := by
  have va := (obtainable_valid_int P hp hq hg hctor a ha).1
  obtain ⟨c, d, h1, h2, vc, vd, h3⟩ := scalarmult_nfold (intGroupSpec P hp hq hg hctor) a va n
  have : c = d := intGroupSpec_abs_inj P hp hq hg hctor vc vd
    (((intGroupSpec P hp hq hg hctor).enc_inj c d vc vd).1 h3)
  exact ⟨c, h1, this ▸ h2⟩

/-! ### `==`, `!=` -/

/-- integer groups: `a == b` is equality of the integer values (fix F3); on valid elements this is equality of
the encodings and of the abstract group elements -/
theorem eq_int (P : IntGroupParams) (a b : Int) :
    ((intGroup P).eq a b = true ↔ a = b) ∧ ((intGroup P).eq a b = false ↔ a ≠ b) ∧
    (∀ (hp : 1 < P.p) (hq : 0 < P.q) (hg : 0 < P.g ∧ P.g < P.p)
       (hctor : IntGroup.ctor_ok P.p P.q P.g = true),
       (intGroupSpec P hp hq hg hctor).Valid a → (intGroupSpec P hp hq hg hctor).Valid b →
       ((intGroup P).eq a b = true ↔ (intGroup P).enc a = (intGroup P).enc b) ∧
       ((intGroup P).eq a b = true ↔
          (intGroupSpec P hp hq hg hctor).abs a = (intGroupSpec P hp hq hg hctor).abs b)) := by
  have h1 : (intGroup P).eq a b = true ↔ a = b := by
    show decide (a = b) = true ↔ a = b
    exact decide_eq_true_iff
  refine ⟨h1, ?_, fun hp hq hg hctor va vb => ?_⟩
  · constructor
    · intro hf he; rw [h1.2 he] at hf; cases hf
    · intro hne
      cases hh : (intGroup P).eq a b
      · rfl
      · exact absurd (h1.1 hh) hne
  · have h2 : (intGroupSpec P hp hq hg hctor).abs a = (intGroupSpec P hp hq hg hctor).abs b ↔ a = b :=
      ⟨intGroupSpec_abs_inj P hp hq hg hctor va vb, fun e => by rw [e]⟩
    exact ⟨by rw [h1, (intGroupSpec P hp hq hg hctor).enc_inj a b va vb, h2], by rw [h1, h2]⟩

/-- Ed25519: `a == b` compares the encodings; on valid elements it is equality of the curve points -/
theorem eq_ed (c : Curve) (h : CurveOK c) (a b : EdElem) :
    ((edGroup c).eq a b = true ↔ (edGroup c).enc a = (edGroup c).enc b) ∧
    ((edGroup c).eq a b = false ↔ (edGroup c).enc a ≠ (edGroup c).enc b) ∧
    ((ed25519Spec c h).Valid a → (ed25519Spec c h).Valid b →
      ((edGroup c).eq a b = true ↔ (ed25519Spec c h).abs a = (ed25519Spec c h).abs b)) := by
  have h1 : (edGroup c).eq a b = true ↔ (edGroup c).enc a = (edGroup c).enc b := by
    show (Ed25519.toBytes c a == Ed25519.toBytes c b) = true ↔ _
    exact beq_iff_eq
  refine ⟨h1, ?_, fun va vb => Ed25519Spec.eq_spec c h a b va vb⟩
  constructor
  · intro hf he; rw [h1.2 he] at hf; cases hf
  · intro hne
    cases hh : (edGroup c).eq a b
    · rfl
    · exact absurd (h1.1 hh) hne

/-! ### `negate`, `subtract` -/

/-- the scalar `Element.negate` multiplies by, generated from the source: `L - 1` (fix F1; it was `L - 2`) -/
theorem negate_scalar (L : ℤ) : Ed.negate_scalar L = L - 1 := by
  unfold Ed.negate_scalar; omega

/-- Ed25519 `a.negate()` is the group inverse -/
theorem negate_ed (c : Curve) (h : CurveOK c) (a : EdElem) (va : (ed25519Spec c h).Valid a) :
    ∃ b, (edGroup c).neg a = .ok b ∧ (ed25519Spec c h).Valid b ∧
      (ed25519Spec c h).abs b = - (ed25519Spec c h).abs a :=
  Ed25519Spec.negate_spec c h a va

/-- Ed25519 `a.subtract(b)` is `a - b` -/
theorem subtract_ed (c : Curve) (h : CurveOK c) (a b : EdElem) (va : (ed25519Spec c h).Valid a)
    (vb : (ed25519Spec c h).Valid b) :
    ∃ r, Ed25519.subtract c a b = .ok r ∧ (ed25519Spec c h).Valid r ∧
      (ed25519Spec c h).abs r = (ed25519Spec c h).abs a - (ed25519Spec c h).abs b :=
  Ed25519Spec.subtract_spec c h a b va vb

/-- observable form: `a.add(a.negate())` and `a.subtract(a)` encode as `Zero`, and `a.subtract(b)` encodes as
`a.add(b.negate())` -/
theorem negate_is_inverse_ed (c : Curve) (h : CurveOK c) (a b : EdElem)
    (va : (ed25519Spec c h).Valid a) (vb : (ed25519Spec c h).Valid b) :
    (∃ na z, (edGroup c).neg a = .ok na ∧ (edGroup c).add a na = .ok z ∧
      (edGroup c).enc z = (edGroup c).enc (edGroup c).zero) ∧
    (∃ z, Ed25519.subtract c a a = .ok z ∧ (edGroup c).enc z = (edGroup c).enc (edGroup c).zero) ∧
    (∃ nb r r', (edGroup c).neg b = .ok nb ∧ (edGroup c).add a nb = .ok r ∧
      Ed25519.subtract c a b = .ok r' ∧ (edGroup c).enc r = (edGroup c).enc r') := by
  refine ⟨?_, ?_, ?_⟩
  · obtain ⟨na, hna, vna, ana⟩ := Ed25519Spec.negate_spec c h a va
    obtain ⟨z, hz, vz, az⟩ := (ed25519Spec c h).add_ok a na va vna
    exact ⟨na, z, hna, hz, ((ed25519Spec c h).enc_inj z _ vz (ed25519Spec c h).zero_valid).2
      (by rw [az, ana, (ed25519Spec c h).abs_zero, add_neg_cancel])⟩
  · obtain ⟨z, hz, vz, az⟩ := Ed25519Spec.subtract_spec c h a a va va
    exact ⟨z, hz, ((ed25519Spec c h).enc_inj z _ vz (ed25519Spec c h).zero_valid).2
      (by rw [az, (ed25519Spec c h).abs_zero, sub_self])⟩
  · obtain ⟨nb, hnb, vnb, anb⟩ := Ed25519Spec.negate_spec c h b vb
    obtain ⟨r, hr, vr, ar⟩ := (ed25519Spec c h).add_ok a nb va vnb
    obtain ⟨r', hr', vr', ar'⟩ := Ed25519Spec.subtract_spec c h a b va vb
    exact ⟨nb, r, r', hnb, hr, hr', ((ed25519Spec c h).enc_inj r r' vr vr').2
      (by rw [ar, anb, ar', sub_eq_add_neg])⟩

/-- integer-group elements offer no `negate` (`AttributeError`) -/
theorem negate_int (P : IntGroupParams) (a : Int) : (intGroup P).neg a = raise .AttributeError := rfl

/-! ### non-vacuity -/

/-- the toy group `(23, 11, 2)`: `Base` is obtainable, and the laws can be observed by evaluation -/
example : Obtainable (intGroup ⟨23, 11, 2⟩) (2 : Int) := Obtainable.base

example : (intGroup ⟨23, 11, 2⟩).smul (2 : Int) 25 = .ok (8 : Int) ∧ (intGroup ⟨23, 11, 2⟩).smul (2 : Int) (25 % 11) = .ok (8 : Int) ∧
    (intGroup ⟨23, 11, 2⟩).smul (2 : Int) (-8) = .ok (8 : Int) ∧ addN (intGroup ⟨23, 11, 2⟩) (2 : Int) 3 = .ok (8 : Int) :=
  ⟨rfl, rfl, rfl, rfl⟩

/-- the Ed25519 base point is obtainable and valid; `Zero` too -/
example : specGen.Valid (edGroup ed25519).base ∧ specGen.Valid (edGroup ed25519).zero :=
  ⟨obtainable_valid_ed25519 _ Obtainable.base, obtainable_valid_ed25519 _ Obtainable.zero⟩

/-! ### Beyond the prime-order subgroup: the `ElementOfUnknownGroup` class (all curve points)

The element API also offers `bytes_to_unknown_group_element` / `ElementOfUnknownGroup`, used for
points of every order.  Proved in `Proofs/UnknownGroup.lean` for every curve meeting `CurveOK`; restated
here for the generated Ed25519 constants.  `GenRep e P` : the object `e` represents the curve point `P`
with reduced coordinates. -/

/-- `add` on arbitrary curve points (small-order and off-subgroup included) is the group law; the identity
result is normalised to `Zero`. -/
theorem unknown_add_is_group_law {a b : EdElem} {P R : GenPoint} (ra : GenRep a P) (rb : GenRep b R) :
    GenRep (Ed25519.addUnknown ed25519 a b) (P + R) ∧
    (P + R = 0 → Ed25519.addUnknown ed25519 a b = Ed25519.Zero ed25519) ∧
    (P + R ≠ 0 → Ed25519.addUnknown ed25519 a b = ⟨.unknown, Ed.add_elements ed25519.Q ed25519.d a.pt b.pt⟩) :=
  gen_addUnknown_spec ra rb

/-- `scalarmult(n)` on an unknown-group element is `n • P` for every `n ≥ 0` (safe ladder) and raises for `n < 0`. -/
theorem unknown_scalarmult {a : EdElem} {P : GenPoint} (ka : a.kind = .unknown) (ra : GenRep a P) (n : ℤ) :
    (0 ≤ n → Ed25519.smul ed25519 a n =
        .ok ⟨.unknown, Ed.scalarmult_element_safe_slow ed25519.Q ed25519.d a.pt n⟩ ∧
      GenRep ⟨.unknown, Ed.scalarmult_element_safe_slow ed25519.Q ed25519.d a.pt n⟩ (n • P)) ∧
    (n < 0 → Ed25519.smul ed25519 a n = raise .AssertionError) :=
  gen_smul_unknown_spec ka ra n

/-- `==` is value equality between objects of ANY of the three classes. -/
theorem eq_is_value_equality_all_classes {a b : EdElem} {P R : GenPoint} (ra : GenRep a P) (rb : GenRep b R) :
    Ed25519.eq ed25519 a b = true ↔ P = R :=
  gen_eq_unknown_spec ra rb

/-- the promotion rules of `add` for every combination of classes -/
theorem add_promotion_rules {a b : EdElem} {P R : GenPoint} (ra : GenRep a P) (rb : GenRep b R)
    (hza : a.kind = .zero → P = 0) (hzb : b.kind = .zero → R = 0) :
    ∃ r, Ed25519.add ed25519 a b = .ok r ∧ GenRep r (P + R) ∧
      (a.kind = .zero → r = b) ∧
      (a.kind = .elem → b.kind = .zero → r = a) ∧
      (a.kind ≠ .zero → ¬ (a.kind = .elem ∧ b.kind = .zero) →
        (P + R = 0 → r = Ed25519.Zero ed25519) ∧
        (P + R ≠ 0 → r = ⟨promote a.kind b.kind, Ed.add_elements ed25519.Q ed25519.d a.pt b.pt⟩)) :=
  gen_add_mixed_spec ra rb hza hzb

/-- the toy curves of the exhaustive correspondence runs satisfy `CurveOK`: every Ed25519 theorem of this
project holds on them too (424 resp. 488 points, cyclic prime-order subgroup). -/
theorem toy_curves_are_instances :
    CurveOK toy389 ∧ CurveOK toy397 ∧ CurveOK toy421 ∧ CurveOK toy461 ∧
    Nat.card specToy389.A = 424 ∧ Nat.card specToy397.A = 424 ∧ specToy389.TorsionIsCyclic ∧ specToy397.TorsionIsCyclic :=
  ⟨curveOK_toy389, curveOK_toy397, curveOK_toy421, curveOK_toy461, specToy389_card, specToy397_card,
   specToy389_torsionIsCyclic, specToy397_torsionIsCyclic⟩

/-! ### Tie A for the class layer -/

/-- the model's `scalarmult`, `add`, `negate` (dispatch on the class of the receiver, promotion rules, `Zero`) and
the checks of `bytes_to_element` ARE the translation `Gen/EdShape.lean` that `tools/py2lean.py` regenerates from the
three classes of `ed25519_basic.py` on every run (objects as `(kind, XYTZ)` via `EdShapeTie.toS`), for every curve. -/
theorem class_layer_is_translated (c : Curve) :
    (∀ a s, (Ed25519.smul c a s).map EdShapeTie.toS =
      EdShape.smul c.Q c.L c.d (Ed25519.zeroPt c) (EdShapeTie.toS a) s) ∧
    (∀ a b, (Ed25519.add c a b).map EdShapeTie.toS =
      EdShape.add c.Q c.L c.d (Ed25519.zeroPt c) (EdShapeTie.toS a) (EdShapeTie.toS b)) ∧
    (∀ a, (Ed25519.negate c a).map EdShapeTie.toS =
      EdShape.negate c.Q c.L c.d (Ed25519.zeroPt c) (EdShapeTie.toS a)) ∧
    (0 ≤ c.L → ∀ b, (Ed25519.dec c b).map EdShapeTie.toS =
      EdShape.dec_checks c.Q c.L c.d (Ed25519.zeroPt c) (fun x => (Ed25519.decUnknown c x).map EdShapeTie.toS)
        (fun p => Ed25519.toBytes c (EdShapeTie.ofS p)) b) ∧
    Ed25519.zeroPt c = EdShape.zero_pt c.Q :=
  ⟨EdShapeTie.smul_tie c, EdShapeTie.add_tie c, EdShapeTie.negate_tie c, fun h => EdShapeTie.dec_tie c h,
   EdShapeTie.zeroPt_tie c⟩

/-! ### Tie A for the element API of the integer groups -/

/-- `_Element.add / scalarmult / to_bytes / __eq__ / __ne__` with their dispatch into `IntegerGroup._add / _scalarmult /
_element_to_bytes` (same-group assertions included), `Zero`, `Base` and `order()` ARE the translation
`Gen/GroupShape.lean` of the current `groups.py`, for every `(p, q, g)` -/
theorem int_element_api_is_translated (P : IntGroupParams) :
    (∀ a b, ((intGroup P).add a b).map GroupShapeTie.toE =
      GroupShape.IntShape.elem_add GroupShapeTie.modelPrims P.p P.q P.g (GroupShapeTie.toE a) (GroupShapeTie.toE b)) ∧
    (∀ a i, ((intGroup P).smul a i).map GroupShapeTie.toE =
      GroupShape.IntShape.elem_scalarmult GroupShapeTie.modelPrims P.p P.q P.g (GroupShapeTie.toE a) i) ∧
    (∀ a, (intGroup P).enc a =
      GroupShapeTie.orNil (GroupShape.IntShape.elem_to_bytes GroupShapeTie.modelPrims P.p P.q P.g (GroupShapeTie.toE a))) ∧
    (∀ a b, GroupShape.IntShape.elem_eq GroupShapeTie.modelPrims P.p P.q P.g (GroupShapeTie.toE a) (GroupShapeTie.toE b) =
        .ok ((intGroup P).eq a b) ∧
      GroupShape.IntShape.elem_ne GroupShapeTie.modelPrims P.p P.q P.g (GroupShapeTie.toE a) (GroupShapeTie.toE b) =
        .ok (!(intGroup P).eq a b)) ∧
    GroupShapeTie.toE (intGroup P).zero = GroupShape.IntShape.zero P.p P.q P.g ∧
    GroupShapeTie.toE (intGroup P).base = GroupShape.IntShape.base P.p P.q P.g ∧
    GroupShape.IntShape.order GroupShapeTie.modelPrims P.p P.q P.g = .ok (intGroup P).order :=
  ⟨GroupShapeTie.int_add_tie P, GroupShapeTie.int_smul_tie P, fun a => (GroupShapeTie.int_enc_tie P a).2,
   GroupShapeTie.int_eq_tie P, (GroupShapeTie.int_consts_tie P).1, (GroupShapeTie.int_consts_tie P).2.1,
   (GroupShapeTie.int_consts_tie P).2.2.1⟩

end Spake2Verif.C13
