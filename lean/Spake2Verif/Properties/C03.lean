import Spake2Verif.Proofs.PropAuxA
import Spake2Verif.Proofs.PublishedEvalEd
import Spake2Verif.Proofs.PublishedEval1024
import Spake2Verif.Proofs.PublishedEval2048
import Spake2Verif.Proofs.PublishedEval3072
import Spake2Verif.Proofs.PublishedEvalVectorsA1
import Spake2Verif.Proofs.PublishedEvalVectorsA2
import Spake2Verif.Proofs.PublishedEvalVectorsS1
import Spake2Verif.Proofs.PublishedEvalVectorsS2
import Spake2Verif.Proofs.ProtoShapeTie
/-!
# C03 — Messages and keys conform to the published SPAKE2 definition (interop)

**Statement.** "For every input the start() message is the side byte (A, B or S) followed by the
fixed-width encoding of x*G + w*M (M for side A, N for side B, S for symmetric), and the finish()
key is SHA256(SHA256(pw) || SHA256(idA) || SHA256(idB) || X* || Y* || K) with K = encode(x*(peer
element - w*N_or_M)) (symmetric: SHA256(pw) || SHA256(idS) || the two messages in sorted order ||
K), where w is the HKDF-derived password scalar and x the scalar derived from the entropy
function.  G, M, N, S, the encodings and the derivations are exactly those of the released 0.7+
wire format (pinned by the library's published vectors) for each shipped parameter set, so
independently written implementations and other library versions interoperate; messages are
33/129/257/385 bytes for Ed25519/1024/2048/3072."

**Clause → theorem.**
* `start()`: `start_spec` (+ instances `_intgroup`, `_1024`, `_2048`, `_3072`, `_ed25519`,
  `_ed25519_published`, parameter sets built by `mkParams`): a fresh session whose entropy source
  yields `x` sends `side ‖ enc e` with `⟦e⟧ = x•B + w•(M|N|S)`, `w = password_to_scalar(pw)`,
  `enc e` of exactly `elemSize` bytes; if the entropy source raises, so does `start()`.
* `finish()`: `finish_spec` (+ instances): for a started session and a message with the peer's
  label, the key is `_finalize(body, own message, enc K)` with `⟦K⟧ = x•(⟦e⟧ − w•(N|M|S))`, `e` the
  decoded peer element; `key_layout`: `_finalize` is the SHA-256 of
  `sha256 pw ‖ sha256 idA ‖ sha256 idB ‖ X* ‖ Y* ‖ K` with `X*` the A-side message (so own‖peer on
  side A, peer‖own on side B) and of `sha256 pw ‖ sha256 idS ‖ sorted messages ‖ K` on side S.
* restored instances: `restored_same` (a session obtained by any number of
  serialize/from_serialized round trips is again a started session with the same secret and
  outbound message, to which `finish_spec` applies verbatim).
* sizes: `sizes_ed25519`, `sizes_1024`, `sizes_2048`, `sizes_3072` (element/scalar widths
  32/32, 128/20, 256/28, 384/32 for the generated *and* the published constants, by kernel
  evaluation), `start_message_shape` (+ instances) and `message_length_ed25519/_1024/_2048/_3072`
  (33/129/257/385 bytes).
* derivations: `derivations` (`w` is `HKDF(pw, salt "", info "SPAKE2 pw", scalar_size+16)` read
  big-endian and reduced mod `q`; `arbitrary_element` expands its seed with info
  `"SPAKE2 arbitrary element"`; the session's password scalar is `password_to_scalar(pw)`; the
  secret scalar is whatever `random_scalar(entropy_f)` returns -- its definition is C11).
* constants: `published_constants` (the constants *generated from the current source* equal the
  published literals: `p, q, g` of the three integer groups, the seeds `M`, `N`, `symmetric`, the
  side bytes, the default parameter set name), `published_curve` (the curve constants `Q, L, I, B`
  and `d mod Q`), `shipped_groups_are_published` (hence the shipped group objects are the groups
  over the published constants).
* blinding elements: `published_blinding_elements_ed25519` (RFC literals),
  `generated_blinding_elements_ed25519`, `published_blinding_elements_1024/_2048/_3072`:
  `arbitrary_element(seed)` succeeds and its encoding is the released `M`/`N`/`S` literal
  (SHA-256/HKDF and the group arithmetic evaluated inside the Lean kernel);
  `default_params_ed25519/_1024/_2048/_3072`: the default parameter set of each shipped group object
  (generated constants) exists and its three elements have the released encodings;
  `hash_params_total_shipped`: `arbitrary_element(b"")` succeeds for the four shipped groups.
* vectors: `vector_asymmetric`, `vector_symmetric`: the model reproduces both end-to-end vectors of
  `test_compat.py` (messages, password scalar, secret scalars, keys), with the test's PRG
  (`sha256("prng-<counter>-<seed>")`) as entropy source -- kernel evaluations; these are tests.

**Assumed / remarks.**
* `Sha.sha256`, `Sha.hkdf` are the model's own implementations (tied to `hashlib`/`cryptography`
  by the correspondence runs and by the vectors above).
* All kernel evaluations completed within the time budget (≤ ~1.5 min per file); none was left out.
* "released 0.7+ wire format": the `Published.*` literals are the reference; nothing is read from
  the source tree at check time.
-/
namespace Spake2Verif.C03
open Spake2Model Spake2Model.Gen Spake2Verif.PropAux

/-- **C03 (start).**  A fresh session whose entropy source yields `x` sends `side ‖ enc(x•B + w•M)`
(`M`, `N` or `S` by side, `w = password_to_scalar(pw)`), `enc …` a fixed-width byte string, and
records `x` and the message; if the entropy source raises, `start()` raises the same error; a
second `start()` raises `OnlyCallStartOnce`. -/
theorem start_spec {G : Group} (S : GroupSpec G) {P : Params G} (hP : ValidParams S P)
    (side : Side) (pw idA idB : Bytes) (ent : Entropy) :
    (∀ x ent', G.randomScalar ent = .ok (x, ent') →
      ∃ e m i', S.Valid e ∧
        S.abs e = x • S.abs G.base + G.p2s pw • S.abs (blinding P side) ∧
        m = G.enc e ∧ m.length = G.elemSize ∧ IsBytes m ∧ 0 ≤ x ∧ x < (S.q : ℤ) ∧
        (Inst.new side pw idA idB P ent).start = (i', .ok (side.byte ++ m)) ∧
        i' = { Inst.new side pw idA idB P ent with
                started := true, entropy := ent', xyScalar := some x, outbound := some m } ∧
        i'.started = true ∧ i'.finished = false ∧ i'.xyScalar = some x ∧ i'.outbound = some m ∧
        Ready S i' x m ∧
        i'.start = (i', .error .OnlyCallStartOnce)) ∧
    (∀ err, G.randomScalar ent = .error err →
      ∃ i', (Inst.new side pw idA idB P ent).start = (i', .error err) ∧ i'.started = true ∧
        i'.start = (i', .error .OnlyCallStartOnce)) ∧
    (∀ i : Inst G, i.started = true → i.start = (i, .error .OnlyCallStartOnce)) :=
  C03_start_spec S P hP side pw idA idB ent

/-- `start_spec` for every integer group `IntegerGroup(p, q, g)` the constructor accepts (no primality assumption); the parameter set is any one built by `mkParams` (valid by `arb_valid`). -/
theorem start_spec_intgroup (IP : IntGroupParams) (hp : 1 < IP.p) (hq : 0 < IP.q) (hg : 0 < IP.g ∧ IP.g < IP.p)
    (hctor : IntGroup.ctor_ok IP.p IP.q IP.g = true)
    {mSeed nSeed sSeed : Bytes} {P : Params (intGroup IP)}
    (hP : mkParams (intGroup IP) mSeed nSeed sSeed = .ok P)
    (side : Side) (pw idA idB : Bytes) (ent : Entropy) :
    (∀ x ent', (intGroup IP).randomScalar ent = .ok (x, ent') →
      ∃ e m i', (intGroupSpec IP hp hq hg hctor).Valid e ∧
        (intGroupSpec IP hp hq hg hctor).abs e = x • (intGroupSpec IP hp hq hg hctor).abs (intGroup IP).base + (intGroup IP).p2s pw • (intGroupSpec IP hp hq hg hctor).abs (blinding P side) ∧
        m = (intGroup IP).enc e ∧ m.length = (intGroup IP).elemSize ∧ IsBytes m ∧ 0 ≤ x ∧ x < ((intGroupSpec IP hp hq hg hctor).q : ℤ) ∧
        (Inst.new side pw idA idB P ent).start = (i', .ok (side.byte ++ m)) ∧
        i' = { Inst.new side pw idA idB P ent with
                started := true, entropy := ent', xyScalar := some x, outbound := some m } ∧
        i'.started = true ∧ i'.finished = false ∧ i'.xyScalar = some x ∧ i'.outbound = some m ∧
        Ready (intGroupSpec IP hp hq hg hctor) i' x m ∧
        i'.start = (i', .error .OnlyCallStartOnce)) ∧
    (∀ err, (intGroup IP).randomScalar ent = .error err →
      ∃ i', (Inst.new side pw idA idB P ent).start = (i', .error err) ∧ i'.started = true ∧
        i'.start = (i', .error .OnlyCallStartOnce)) ∧
    (∀ i : Inst (intGroup IP), i.started = true → i.start = (i, .error .OnlyCallStartOnce)) :=
  C03.start_spec (G := (intGroup IP)) (intGroupSpec IP hp hq hg hctor) (PropAux.validParams_of_mkParams _ hP) side pw idA idB ent

/-- `start_spec` for the shipped 1024-bit integer group (generated constants); the parameter set is any one built by `mkParams` (valid by `arb_valid`). -/
theorem start_spec_1024 {mSeed nSeed sSeed : Bytes} {P : Params G1024}
    (hP : mkParams G1024 mSeed nSeed sSeed = .ok P)
    (side : Side) (pw idA idB : Bytes) (ent : Entropy) :
    (∀ x ent', G1024.randomScalar ent = .ok (x, ent') →
      ∃ e m i', spec1024.Valid e ∧
        spec1024.abs e = x • spec1024.abs G1024.base + G1024.p2s pw • spec1024.abs (blinding P side) ∧
        m = G1024.enc e ∧ m.length = G1024.elemSize ∧ IsBytes m ∧ 0 ≤ x ∧ x < (spec1024.q : ℤ) ∧
        (Inst.new side pw idA idB P ent).start = (i', .ok (side.byte ++ m)) ∧
        i' = { Inst.new side pw idA idB P ent with
                started := true, entropy := ent', xyScalar := some x, outbound := some m } ∧
        i'.started = true ∧ i'.finished = false ∧ i'.xyScalar = some x ∧ i'.outbound = some m ∧
        Ready spec1024 i' x m ∧
        i'.start = (i', .error .OnlyCallStartOnce)) ∧
    (∀ err, G1024.randomScalar ent = .error err →
      ∃ i', (Inst.new side pw idA idB P ent).start = (i', .error err) ∧ i'.started = true ∧
        i'.start = (i', .error .OnlyCallStartOnce)) ∧
    (∀ i : Inst G1024, i.started = true → i.start = (i, .error .OnlyCallStartOnce)) :=
  C03.start_spec (G := G1024) spec1024 (PropAux.validParams_of_mkParams _ hP) side pw idA idB ent

/-- `start_spec` for the shipped 2048-bit integer group (generated constants); the parameter set is any one built by `mkParams` (valid by `arb_valid`). -/
theorem start_spec_2048 {mSeed nSeed sSeed : Bytes} {P : Params G2048}
    (hP : mkParams G2048 mSeed nSeed sSeed = .ok P)
    (side : Side) (pw idA idB : Bytes) (ent : Entropy) :
    (∀ x ent', G2048.randomScalar ent = .ok (x, ent') →
      ∃ e m i', spec2048.Valid e ∧
        spec2048.abs e = x • spec2048.abs G2048.base + G2048.p2s pw • spec2048.abs (blinding P side) ∧
        m = G2048.enc e ∧ m.length = G2048.elemSize ∧ IsBytes m ∧ 0 ≤ x ∧ x < (spec2048.q : ℤ) ∧
        (Inst.new side pw idA idB P ent).start = (i', .ok (side.byte ++ m)) ∧
        i' = { Inst.new side pw idA idB P ent with
                started := true, entropy := ent', xyScalar := some x, outbound := some m } ∧
        i'.started = true ∧ i'.finished = false ∧ i'.xyScalar = some x ∧ i'.outbound = some m ∧
        Ready spec2048 i' x m ∧
        i'.start = (i', .error .OnlyCallStartOnce)) ∧
    (∀ err, G2048.randomScalar ent = .error err →
      ∃ i', (Inst.new side pw idA idB P ent).start = (i', .error err) ∧ i'.started = true ∧
        i'.start = (i', .error .OnlyCallStartOnce)) ∧
    (∀ i : Inst G2048, i.started = true → i.start = (i, .error .OnlyCallStartOnce)) :=
  C03.start_spec (G := G2048) spec2048 (PropAux.validParams_of_mkParams _ hP) side pw idA idB ent

/-- `start_spec` for the shipped 3072-bit integer group (generated constants); the parameter set is any one built by `mkParams` (valid by `arb_valid`). -/
theorem start_spec_3072 {mSeed nSeed sSeed : Bytes} {P : Params G3072}
    (hP : mkParams G3072 mSeed nSeed sSeed = .ok P)
    (side : Side) (pw idA idB : Bytes) (ent : Entropy) :
    (∀ x ent', G3072.randomScalar ent = .ok (x, ent') →
      ∃ e m i', spec3072.Valid e ∧
        spec3072.abs e = x • spec3072.abs G3072.base + G3072.p2s pw • spec3072.abs (blinding P side) ∧
        m = G3072.enc e ∧ m.length = G3072.elemSize ∧ IsBytes m ∧ 0 ≤ x ∧ x < (spec3072.q : ℤ) ∧
        (Inst.new side pw idA idB P ent).start = (i', .ok (side.byte ++ m)) ∧
        i' = { Inst.new side pw idA idB P ent with
                started := true, entropy := ent', xyScalar := some x, outbound := some m } ∧
        i'.started = true ∧ i'.finished = false ∧ i'.xyScalar = some x ∧ i'.outbound = some m ∧
        Ready spec3072 i' x m ∧
        i'.start = (i', .error .OnlyCallStartOnce)) ∧
    (∀ err, G3072.randomScalar ent = .error err →
      ∃ i', (Inst.new side pw idA idB P ent).start = (i', .error err) ∧ i'.started = true ∧
        i'.start = (i', .error .OnlyCallStartOnce)) ∧
    (∀ i : Inst G3072, i.started = true → i.start = (i, .error .OnlyCallStartOnce)) :=
  C03.start_spec (G := G3072) spec3072 (PropAux.validParams_of_mkParams _ hP) side pw idA idB ent

/-- `start_spec` for Ed25519 with the constants generated from the current source; the parameter set is any one built by `mkParams` (valid by `arb_valid`). -/
theorem start_spec_ed25519 {mSeed nSeed sSeed : Bytes} {P : Params GEd}
    (hP : mkParams GEd mSeed nSeed sSeed = .ok P)
    (side : Side) (pw idA idB : Bytes) (ent : Entropy) :
    (∀ x ent', GEd.randomScalar ent = .ok (x, ent') →
      ∃ e m i', specGen.Valid e ∧
        specGen.abs e = x • specGen.abs GEd.base + GEd.p2s pw • specGen.abs (blinding P side) ∧
        m = GEd.enc e ∧ m.length = GEd.elemSize ∧ IsBytes m ∧ 0 ≤ x ∧ x < (specGen.q : ℤ) ∧
        (Inst.new side pw idA idB P ent).start = (i', .ok (side.byte ++ m)) ∧
        i' = { Inst.new side pw idA idB P ent with
                started := true, entropy := ent', xyScalar := some x, outbound := some m } ∧
        i'.started = true ∧ i'.finished = false ∧ i'.xyScalar = some x ∧ i'.outbound = some m ∧
        Ready specGen i' x m ∧
        i'.start = (i', .error .OnlyCallStartOnce)) ∧
    (∀ err, GEd.randomScalar ent = .error err →
      ∃ i', (Inst.new side pw idA idB P ent).start = (i', .error err) ∧ i'.started = true ∧
        i'.start = (i', .error .OnlyCallStartOnce)) ∧
    (∀ i : Inst GEd, i.started = true → i.start = (i, .error .OnlyCallStartOnce)) :=
  C03.start_spec (G := GEd) specGen (PropAux.validParams_of_mkParams _ hP) side pw idA idB ent

/-- `start_spec` for Ed25519 with the literal RFC 8032 constants; the parameter set is any one built by `mkParams` (valid by `arb_valid`). -/
theorem start_spec_ed25519_published {mSeed nSeed sSeed : Bytes} {P : Params GEdPub}
    (hP : mkParams GEdPub mSeed nSeed sSeed = .ok P)
    (side : Side) (pw idA idB : Bytes) (ent : Entropy) :
    (∀ x ent', GEdPub.randomScalar ent = .ok (x, ent') →
      ∃ e m i', specPublished.Valid e ∧
        specPublished.abs e = x • specPublished.abs GEdPub.base + GEdPub.p2s pw • specPublished.abs (blinding P side) ∧
        m = GEdPub.enc e ∧ m.length = GEdPub.elemSize ∧ IsBytes m ∧ 0 ≤ x ∧ x < (specPublished.q : ℤ) ∧
        (Inst.new side pw idA idB P ent).start = (i', .ok (side.byte ++ m)) ∧
        i' = { Inst.new side pw idA idB P ent with
                started := true, entropy := ent', xyScalar := some x, outbound := some m } ∧
        i'.started = true ∧ i'.finished = false ∧ i'.xyScalar = some x ∧ i'.outbound = some m ∧
        Ready specPublished i' x m ∧
        i'.start = (i', .error .OnlyCallStartOnce)) ∧
    (∀ err, GEdPub.randomScalar ent = .error err →
      ∃ i', (Inst.new side pw idA idB P ent).start = (i', .error err) ∧ i'.started = true ∧
        i'.start = (i', .error .OnlyCallStartOnce)) ∧
    (∀ i : Inst GEdPub, i.started = true → i.start = (i, .error .OnlyCallStartOnce)) :=
  C03.start_spec (G := GEdPub) specPublished (PropAux.validParams_of_mkParams _ hP) side pw idA idB ent

/-- **C03 (finish).**  A started, unfinished session with secret `x` and outbound encoding `ob`, given
`peer-side-byte ‖ body`: `body` does not decode → the decoder's error; `body` decodes to `e` with
`enc e = ob` → `ReflectionThwarted`; otherwise the key is the transcript hash `_finalize` over
`enc K`, `⟦K⟧ = x•(⟦e⟧ − w•(N|M|S))`, a 32-byte string.  The session is marked finished. -/
theorem finish_spec {G : Group} (S : GroupSpec G)
    {i : Inst G} {x : ℤ} {ob msg body : Bytes}
    (h : Ready S i x ob) (hx : extractMessage i.side msg = .ok body) (hb : IsBytes body) :
    msg = peerByte i.side ++ body ∧
    (i.finish msg).1 = { i with finished := true, inbound := some body } ∧
    (∀ m', ((i.finish msg).1.finish m').2 = .error .OnlyCallFinishOnce) ∧
    (∀ err, G.dec body = .error err → (i.finish msg).2 = .error err) ∧
    (∀ e, G.dec body = .ok e → G.enc e = ob → (i.finish msg).2 = .error .ReflectionThwarted) ∧
    (∀ e, G.dec body = .ok e → G.enc e ≠ ob → ∃ K, S.Valid e ∧ G.enc e = body ∧ S.Valid K ∧
        S.abs K = x • (S.abs e - G.p2s i.pw • S.abs (unblinding i.params i.side)) ∧
        (i.finish msg).2 = .ok (i.finalize body ob (G.enc K)) ∧
        (i.finalize body ob (G.enc K)).length = 32) :=
  C03_finish_spec S h hx hb

/-- `finish_spec` for every integer group `IntegerGroup(p, q, g)` the constructor accepts (no primality assumption). -/
theorem finish_spec_intgroup (IP : IntGroupParams) (hp : 1 < IP.p) (hq : 0 < IP.q) (hg : 0 < IP.g ∧ IP.g < IP.p)
    (hctor : IntGroup.ctor_ok IP.p IP.q IP.g = true)
    {i : Inst (intGroup IP)} {x : ℤ} {ob msg body : Bytes}
    (h : Ready (intGroupSpec IP hp hq hg hctor) i x ob) (hx : extractMessage i.side msg = .ok body) (hb : IsBytes body) :
    msg = peerByte i.side ++ body ∧
    (i.finish msg).1 = { i with finished := true, inbound := some body } ∧
    (∀ m', ((i.finish msg).1.finish m').2 = .error .OnlyCallFinishOnce) ∧
    (∀ err, (intGroup IP).dec body = .error err → (i.finish msg).2 = .error err) ∧
    (∀ e, (intGroup IP).dec body = .ok e → (intGroup IP).enc e = ob → (i.finish msg).2 = .error .ReflectionThwarted) ∧
    (∀ e, (intGroup IP).dec body = .ok e → (intGroup IP).enc e ≠ ob → ∃ K, (intGroupSpec IP hp hq hg hctor).Valid e ∧ (intGroup IP).enc e = body ∧ (intGroupSpec IP hp hq hg hctor).Valid K ∧
        (intGroupSpec IP hp hq hg hctor).abs K = x • ((intGroupSpec IP hp hq hg hctor).abs e - (intGroup IP).p2s i.pw • (intGroupSpec IP hp hq hg hctor).abs (unblinding i.params i.side)) ∧
        (i.finish msg).2 = .ok (i.finalize body ob ((intGroup IP).enc K)) ∧
        (i.finalize body ob ((intGroup IP).enc K)).length = 32) :=
  C03.finish_spec (G := (intGroup IP)) (intGroupSpec IP hp hq hg hctor) h hx hb

/-- `finish_spec` for the shipped 1024-bit integer group (generated constants). -/
theorem finish_spec_1024 
    {i : Inst G1024} {x : ℤ} {ob msg body : Bytes}
    (h : Ready spec1024 i x ob) (hx : extractMessage i.side msg = .ok body) (hb : IsBytes body) :
    msg = peerByte i.side ++ body ∧
    (i.finish msg).1 = { i with finished := true, inbound := some body } ∧
    (∀ m', ((i.finish msg).1.finish m').2 = .error .OnlyCallFinishOnce) ∧
    (∀ err, G1024.dec body = .error err → (i.finish msg).2 = .error err) ∧
    (∀ e, G1024.dec body = .ok e → G1024.enc e = ob → (i.finish msg).2 = .error .ReflectionThwarted) ∧
    (∀ e, G1024.dec body = .ok e → G1024.enc e ≠ ob → ∃ K, spec1024.Valid e ∧ G1024.enc e = body ∧ spec1024.Valid K ∧
        spec1024.abs K = x • (spec1024.abs e - G1024.p2s i.pw • spec1024.abs (unblinding i.params i.side)) ∧
        (i.finish msg).2 = .ok (i.finalize body ob (G1024.enc K)) ∧
        (i.finalize body ob (G1024.enc K)).length = 32) :=
  C03.finish_spec (G := G1024) spec1024 h hx hb

/-- `finish_spec` for the shipped 2048-bit integer group (generated constants). -/
theorem finish_spec_2048 
    {i : Inst G2048} {x : ℤ} {ob msg body : Bytes}
    (h : Ready spec2048 i x ob) (hx : extractMessage i.side msg = .ok body) (hb : IsBytes body) :
    msg = peerByte i.side ++ body ∧
    (i.finish msg).1 = { i with finished := true, inbound := some body } ∧
    (∀ m', ((i.finish msg).1.finish m').2 = .error .OnlyCallFinishOnce) ∧
    (∀ err, G2048.dec body = .error err → (i.finish msg).2 = .error err) ∧
    (∀ e, G2048.dec body = .ok e → G2048.enc e = ob → (i.finish msg).2 = .error .ReflectionThwarted) ∧
    (∀ e, G2048.dec body = .ok e → G2048.enc e ≠ ob → ∃ K, spec2048.Valid e ∧ G2048.enc e = body ∧ spec2048.Valid K ∧
        spec2048.abs K = x • (spec2048.abs e - G2048.p2s i.pw • spec2048.abs (unblinding i.params i.side)) ∧
        (i.finish msg).2 = .ok (i.finalize body ob (G2048.enc K)) ∧
        (i.finalize body ob (G2048.enc K)).length = 32) :=
  C03.finish_spec (G := G2048) spec2048 h hx hb

/-- `finish_spec` for the shipped 3072-bit integer group (generated constants). -/
theorem finish_spec_3072 
    {i : Inst G3072} {x : ℤ} {ob msg body : Bytes}
    (h : Ready spec3072 i x ob) (hx : extractMessage i.side msg = .ok body) (hb : IsBytes body) :
    msg = peerByte i.side ++ body ∧
    (i.finish msg).1 = { i with finished := true, inbound := some body } ∧
    (∀ m', ((i.finish msg).1.finish m').2 = .error .OnlyCallFinishOnce) ∧
    (∀ err, G3072.dec body = .error err → (i.finish msg).2 = .error err) ∧
    (∀ e, G3072.dec body = .ok e → G3072.enc e = ob → (i.finish msg).2 = .error .ReflectionThwarted) ∧
    (∀ e, G3072.dec body = .ok e → G3072.enc e ≠ ob → ∃ K, spec3072.Valid e ∧ G3072.enc e = body ∧ spec3072.Valid K ∧
        spec3072.abs K = x • (spec3072.abs e - G3072.p2s i.pw • spec3072.abs (unblinding i.params i.side)) ∧
        (i.finish msg).2 = .ok (i.finalize body ob (G3072.enc K)) ∧
        (i.finalize body ob (G3072.enc K)).length = 32) :=
  C03.finish_spec (G := G3072) spec3072 h hx hb

/-- `finish_spec` for Ed25519 with the constants generated from the current source. -/
theorem finish_spec_ed25519 
    {i : Inst GEd} {x : ℤ} {ob msg body : Bytes}
    (h : Ready specGen i x ob) (hx : extractMessage i.side msg = .ok body) (hb : IsBytes body) :
    msg = peerByte i.side ++ body ∧
    (i.finish msg).1 = { i with finished := true, inbound := some body } ∧
    (∀ m', ((i.finish msg).1.finish m').2 = .error .OnlyCallFinishOnce) ∧
    (∀ err, GEd.dec body = .error err → (i.finish msg).2 = .error err) ∧
    (∀ e, GEd.dec body = .ok e → GEd.enc e = ob → (i.finish msg).2 = .error .ReflectionThwarted) ∧
    (∀ e, GEd.dec body = .ok e → GEd.enc e ≠ ob → ∃ K, specGen.Valid e ∧ GEd.enc e = body ∧ specGen.Valid K ∧
        specGen.abs K = x • (specGen.abs e - GEd.p2s i.pw • specGen.abs (unblinding i.params i.side)) ∧
        (i.finish msg).2 = .ok (i.finalize body ob (GEd.enc K)) ∧
        (i.finalize body ob (GEd.enc K)).length = 32) :=
  C03.finish_spec (G := GEd) specGen h hx hb

/-- `finish_spec` for Ed25519 with the literal RFC 8032 constants. -/
theorem finish_spec_ed25519_published 
    {i : Inst GEdPub} {x : ℤ} {ob msg body : Bytes}
    (h : Ready specPublished i x ob) (hx : extractMessage i.side msg = .ok body) (hb : IsBytes body) :
    msg = peerByte i.side ++ body ∧
    (i.finish msg).1 = { i with finished := true, inbound := some body } ∧
    (∀ m', ((i.finish msg).1.finish m').2 = .error .OnlyCallFinishOnce) ∧
    (∀ err, GEdPub.dec body = .error err → (i.finish msg).2 = .error err) ∧
    (∀ e, GEdPub.dec body = .ok e → GEdPub.enc e = ob → (i.finish msg).2 = .error .ReflectionThwarted) ∧
    (∀ e, GEdPub.dec body = .ok e → GEdPub.enc e ≠ ob → ∃ K, specPublished.Valid e ∧ GEdPub.enc e = body ∧ specPublished.Valid K ∧
        specPublished.abs K = x • (specPublished.abs e - GEdPub.p2s i.pw • specPublished.abs (unblinding i.params i.side)) ∧
        (i.finish msg).2 = .ok (i.finalize body ob (GEdPub.enc K)) ∧
        (i.finalize body ob (GEdPub.enc K)).length = 32) :=
  C03.finish_spec (G := GEdPub) specPublished h hx hb

/-- the message `start()` returns is the side byte followed by exactly `elemSize` bytes -/
theorem start_message_shape {G : Group} (S : GroupSpec G) {P : Params G} (hP : ValidParams S P)
    {side : Side} {pw idA idB : Bytes} {ent : Entropy} {a : Inst G} {m : Bytes}
    (h : (Inst.new side pw idA idB P ent).start = (a, .ok m)) :
    ∃ body, m = side.byte ++ body ∧ body.length = G.elemSize ∧ m.length = G.elemSize + 1 ∧
      IsBytes m :=
  PropAux.start_message_shape S hP h

/-- `start_message_shape` for every integer group `IntegerGroup(p, q, g)` the constructor accepts (no primality assumption); the parameter set is any one built by `mkParams` (valid by `arb_valid`). -/
theorem start_message_shape_intgroup (IP : IntGroupParams) (hp : 1 < IP.p) (hq : 0 < IP.q) (hg : 0 < IP.g ∧ IP.g < IP.p)
    (hctor : IntGroup.ctor_ok IP.p IP.q IP.g = true)
    {mSeed nSeed sSeed : Bytes} {P : Params (intGroup IP)}
    (hP : mkParams (intGroup IP) mSeed nSeed sSeed = .ok P)
    {side : Side} {pw idA idB : Bytes} {ent : Entropy} {a : Inst (intGroup IP)} {m : Bytes}
    (h : (Inst.new side pw idA idB P ent).start = (a, .ok m)) :
    ∃ body, m = side.byte ++ body ∧ body.length = (intGroup IP).elemSize ∧ m.length = (intGroup IP).elemSize + 1 ∧
      IsBytes m :=
  C03.start_message_shape (G := (intGroup IP)) (intGroupSpec IP hp hq hg hctor) (PropAux.validParams_of_mkParams _ hP) h

/-- `start_message_shape` for the shipped 1024-bit integer group (generated constants); the parameter set is any one built by `mkParams` (valid by `arb_valid`). -/
theorem start_message_shape_1024 {mSeed nSeed sSeed : Bytes} {P : Params G1024}
    (hP : mkParams G1024 mSeed nSeed sSeed = .ok P)
    {side : Side} {pw idA idB : Bytes} {ent : Entropy} {a : Inst G1024} {m : Bytes}
    (h : (Inst.new side pw idA idB P ent).start = (a, .ok m)) :
    ∃ body, m = side.byte ++ body ∧ body.length = G1024.elemSize ∧ m.length = G1024.elemSize + 1 ∧
      IsBytes m :=
  C03.start_message_shape (G := G1024) spec1024 (PropAux.validParams_of_mkParams _ hP) h

/-- `start_message_shape` for the shipped 2048-bit integer group (generated constants); the parameter set is any one built by `mkParams` (valid by `arb_valid`). -/
theorem start_message_shape_2048 {mSeed nSeed sSeed : Bytes} {P : Params G2048}
    (hP : mkParams G2048 mSeed nSeed sSeed = .ok P)
    {side : Side} {pw idA idB : Bytes} {ent : Entropy} {a : Inst G2048} {m : Bytes}
    (h : (Inst.new side pw idA idB P ent).start = (a, .ok m)) :
    ∃ body, m = side.byte ++ body ∧ body.length = G2048.elemSize ∧ m.length = G2048.elemSize + 1 ∧
      IsBytes m :=
  C03.start_message_shape (G := G2048) spec2048 (PropAux.validParams_of_mkParams _ hP) h

/-- `start_message_shape` for the shipped 3072-bit integer group (generated constants); the parameter set is any one built by `mkParams` (valid by `arb_valid`). -/
theorem start_message_shape_3072 {mSeed nSeed sSeed : Bytes} {P : Params G3072}
    (hP : mkParams G3072 mSeed nSeed sSeed = .ok P)
    {side : Side} {pw idA idB : Bytes} {ent : Entropy} {a : Inst G3072} {m : Bytes}
    (h : (Inst.new side pw idA idB P ent).start = (a, .ok m)) :
    ∃ body, m = side.byte ++ body ∧ body.length = G3072.elemSize ∧ m.length = G3072.elemSize + 1 ∧
      IsBytes m :=
  C03.start_message_shape (G := G3072) spec3072 (PropAux.validParams_of_mkParams _ hP) h

/-- `start_message_shape` for Ed25519 with the constants generated from the current source; the parameter set is any one built by `mkParams` (valid by `arb_valid`). -/
theorem start_message_shape_ed25519 {mSeed nSeed sSeed : Bytes} {P : Params GEd}
    (hP : mkParams GEd mSeed nSeed sSeed = .ok P)
    {side : Side} {pw idA idB : Bytes} {ent : Entropy} {a : Inst GEd} {m : Bytes}
    (h : (Inst.new side pw idA idB P ent).start = (a, .ok m)) :
    ∃ body, m = side.byte ++ body ∧ body.length = GEd.elemSize ∧ m.length = GEd.elemSize + 1 ∧
      IsBytes m :=
  C03.start_message_shape (G := GEd) specGen (PropAux.validParams_of_mkParams _ hP) h

/-- `start_message_shape` for Ed25519 with the literal RFC 8032 constants; the parameter set is any one built by `mkParams` (valid by `arb_valid`). -/
theorem start_message_shape_ed25519_published {mSeed nSeed sSeed : Bytes} {P : Params GEdPub}
    (hP : mkParams GEdPub mSeed nSeed sSeed = .ok P)
    {side : Side} {pw idA idB : Bytes} {ent : Entropy} {a : Inst GEdPub} {m : Bytes}
    (h : (Inst.new side pw idA idB P ent).start = (a, .ok m)) :
    ∃ body, m = side.byte ++ body ∧ body.length = GEdPub.elemSize ∧ m.length = GEdPub.elemSize + 1 ∧
      IsBytes m :=
  C03.start_message_shape (G := GEdPub) specPublished (PropAux.validParams_of_mkParams _ hP) h

/-- **the transcript hash** (`_finalize`): SHA-256 over
`sha256(pw) ‖ sha256(idA) ‖ sha256(idB) ‖ X* ‖ Y* ‖ K` where `X*` is the A-side and `Y*` the B-side
element encoding (`ob` = own outbound, `inb` = inbound body), and over
`sha256(pw) ‖ sha256(idS) ‖ sorted(inb, ob) ‖ K` for the symmetric class -/
theorem key_layout {G : Group} (i : Inst G) (inb ob K : Bytes) :
    (i.side = .A → i.finalize inb ob K =
      Sha.sha256 (Sha.sha256 i.pw ++ Sha.sha256 i.idA ++ Sha.sha256 i.idB ++ ob ++ inb ++ K)) ∧
    (i.side = .B → i.finalize inb ob K =
      Sha.sha256 (Sha.sha256 i.pw ++ Sha.sha256 i.idA ++ Sha.sha256 i.idB ++ inb ++ ob ++ K)) ∧
    (i.side = .S → i.finalize inb ob K =
      Sha.sha256 (Sha.sha256 i.pw ++ Sha.sha256 i.idA ++ (sorted2 inb ob).1 ++ (sorted2 inb ob).2
        ++ K)) :=
  PropAux.finalize_layout i inb ob K

/-- **restored instances**: after any number of `from_serialized(serialize())` round trips the
session is again a started, unfinished session with the same secret scalar and outbound message
(`Ready`), so `finish_spec` applies to it verbatim, and it returns the same result as the original
on every message -/
theorem restored_same {G : Group} (S : GroupSpec G) {i i' : Inst G} {x : ℤ} {ob : Bytes}
    (h : Ready S i x ob) (hA : IsBytes i.idA) (hB : IsBytes i.idB) (hpw : IsBytes i.pw)
    (hr : RestoredFrom i i') :
    Ready S i' x ob ∧ (∀ m, (i'.finish m).2 = (i.finish m).2) ∧ i'.serialize = i.serialize :=
  hr.finish_eq S h hA hB hpw

/-- **derivations**: the password scalar of a session is `password_to_scalar(pw)`; for the integer
groups it is `HKDF-SHA256(pw, salt = "", info = "SPAKE2 pw", len = scalar_size + 16)` read
big-endian, reduced mod `q`; for Ed25519 the same with `len = 32 + 16` reduced mod `L`;
`arbitrary_element` expands its seed with info `"SPAKE2 arbitrary element"` -/
theorem derivations :
    (∀ (G : Group) (side : Side) (pw idA idB : Bytes) (P : Params G) (ent : Entropy),
      (Inst.new side pw idA idB P ent).pwScalar = G.p2s pw) ∧
    (∀ (IP : IntGroupParams) (pw : Bytes), (intGroup IP).p2s pw =
      (Int.ofNat (beToNat (Sha.hkdf pw [] (asciiOf "SPAKE2 pw")
        ((sizeBytes IP.q : ℤ) + 16).toNat))) % IP.q) ∧
    (∀ (c : Curve) (pw : Bytes), (edGroup c).p2s pw =
      (Int.ofNat (beToNat (Sha.hkdf pw [] (asciiOf "SPAKE2 pw") 48))) % c.L) ∧
    (∀ (seed : Bytes) (n : ℕ),
      expandArbSeed seed n = Sha.hkdf seed [] (asciiOf "SPAKE2 arbitrary element") n) :=
  ⟨fun _ _ _ _ _ _ _ => rfl, fun _ _ => rfl, fun _ _ => rfl, fun _ _ => rfl⟩

/-- **the generated constants are the published ones**: moduli, subgroup orders and generators of
the three integer groups, the three seeds, the side bytes and the default parameter set -/
theorem published_constants :
    IntGroup.I1024_p = Published.p1024 ∧ IntGroup.I1024_q = Published.q1024 ∧
    IntGroup.I1024_g = Published.g1024 ∧
    IntGroup.I2048_p = Published.p2048 ∧ IntGroup.I2048_q = Published.q2048 ∧
    IntGroup.I2048_g = Published.g2048 ∧
    IntGroup.I3072_p = Published.p3072 ∧ IntGroup.I3072_q = Published.q3072 ∧
    IntGroup.I3072_g = Published.g3072 ∧
    Consts.seedM = Published.seedM ∧ Consts.seedN = Published.seedN ∧
    Consts.seedS = Published.seedS ∧
    Consts.seedM = asciiOf "M" ∧ Consts.seedN = asciiOf "N" ∧ Consts.seedS = asciiOf "symmetric" ∧
    Consts.sideA = asciiOf "A" ∧ Consts.sideB = asciiOf "B" ∧ Consts.sideS = asciiOf "S" ∧
    Consts.defaultParams = "ParamsEd25519" := by
  decide +kernel

/-- the generated curve record equals the RFC 8032 record field by field; only the *representative*
of `d` differs (Python keeps the unreduced product `-121665 * inv(121666)`), its residue is the
published `d` -/
theorem published_curve :
    Spake2Model.ed25519.Q = Published.curve.Q ∧ Spake2Model.ed25519.L = Published.curve.L ∧
      Spake2Model.ed25519.d % Spake2Model.ed25519.Q = Published.curve.d ∧
      Spake2Model.ed25519.I = Published.curve.I ∧ Spake2Model.ed25519.B = Published.curve.B :=
  gen_vs_published

/-- hence the shipped integer group objects are the groups over the published constants -/
theorem shipped_groups_are_published :
    G1024 = intGroup Published.i1024 ∧ G2048 = intGroup Published.i2048 ∧
    G3072 = intGroup Published.i3072 :=
  ⟨congrArg intGroup (by decide +kernel), congrArg intGroup (by decide +kernel),
   congrArg intGroup (by decide +kernel)⟩

/-- element and scalar widths of the Ed25519 group (generated and published constants) -/
theorem sizes_ed25519 :
    GEd.elemSize = 32 ∧ GEd.scalarSize = 32 ∧ GEdPub.elemSize = 32 ∧ GEdPub.scalarSize = 32 := by
  decide +kernel

/-- element and scalar widths of the 1024-bit group (generated and published constants) -/
theorem sizes_1024 :
    G1024.elemSize = 128 ∧ G1024.scalarSize = 20 ∧
    (intGroup Published.i1024).elemSize = 128 ∧ (intGroup Published.i1024).scalarSize = 20 := by
  decide +kernel

/-- element and scalar widths of the 2048-bit group -/
theorem sizes_2048 :
    G2048.elemSize = 256 ∧ G2048.scalarSize = 28 ∧
    (intGroup Published.i2048).elemSize = 256 ∧ (intGroup Published.i2048).scalarSize = 28 := by
  decide +kernel

/-- element and scalar widths of the 3072-bit group -/
theorem sizes_3072 :
    G3072.elemSize = 384 ∧ G3072.scalarSize = 32 ∧
    (intGroup Published.i3072).elemSize = 384 ∧ (intGroup Published.i3072).scalarSize = 32 := by
  decide +kernel

/-- every `start()` message of the ed25519 parameter sets has 33 bytes -/
theorem message_length_ed25519 {mSeed nSeed sSeed : Bytes} {P : Params GEd}
    (hP : mkParams GEd mSeed nSeed sSeed = .ok P)
    {side : Side} {pw idA idB : Bytes} {ent : Entropy} {a : Inst GEd} {m : Bytes}
    (h : (Inst.new side pw idA idB P ent).start = (a, .ok m)) : m.length = 33 := by
  obtain ⟨body, -, -, hl, -⟩ := start_message_shape_ed25519 hP h
  rw [hl, sizes_ed25519.1]

/-- every `start()` message of the 1024 parameter sets has 129 bytes -/
theorem message_length_1024 {mSeed nSeed sSeed : Bytes} {P : Params G1024}
    (hP : mkParams G1024 mSeed nSeed sSeed = .ok P)
    {side : Side} {pw idA idB : Bytes} {ent : Entropy} {a : Inst G1024} {m : Bytes}
    (h : (Inst.new side pw idA idB P ent).start = (a, .ok m)) : m.length = 129 := by
  obtain ⟨body, -, -, hl, -⟩ := start_message_shape_1024 hP h
  rw [hl, sizes_1024.1]

/-- every `start()` message of the 2048 parameter sets has 257 bytes -/
theorem message_length_2048 {mSeed nSeed sSeed : Bytes} {P : Params G2048}
    (hP : mkParams G2048 mSeed nSeed sSeed = .ok P)
    {side : Side} {pw idA idB : Bytes} {ent : Entropy} {a : Inst G2048} {m : Bytes}
    (h : (Inst.new side pw idA idB P ent).start = (a, .ok m)) : m.length = 257 := by
  obtain ⟨body, -, -, hl, -⟩ := start_message_shape_2048 hP h
  rw [hl, sizes_2048.1]

/-- every `start()` message of the 3072 parameter sets has 385 bytes -/
theorem message_length_3072 {mSeed nSeed sSeed : Bytes} {P : Params G3072}
    (hP : mkParams G3072 mSeed nSeed sSeed = .ok P)
    {side : Side} {pw idA idB : Bytes} {ent : Entropy} {a : Inst G3072} {m : Bytes}
    (h : (Inst.new side pw idA idB P ent).start = (a, .ok m)) : m.length = 385 := by
  obtain ⟨body, -, -, hl, -⟩ := start_message_shape_3072 hP h
  rw [hl, sizes_3072.1]

/-- **published blinding elements, Ed25519 (RFC 8032 literals)**: `arbitrary_element` of the seeds
`M`, `N`, `symmetric` succeeds and the elements encode to the released 32-byte strings -/
theorem published_blinding_elements_ed25519 :
    (∃ e, Ed25519.arb Published.curve Published.seedM = .ok e ∧
      Ed25519.toBytes Published.curve e = Published.M_ed) ∧
    (∃ e, Ed25519.arb Published.curve Published.seedN = .ok e ∧
      Ed25519.toBytes Published.curve e = Published.N_ed) ∧
    (∃ e, Ed25519.arb Published.curve Published.seedS = .ok e ∧
      Ed25519.toBytes Published.curve e = Published.S_ed) :=
  ⟨exists_of_map_ok PublishedEval.published_M_ed, exists_of_map_ok PublishedEval.published_N_ed,
   exists_of_map_ok PublishedEval.published_S_ed⟩

/-- **the same for the constants generated from the current source** -/
theorem generated_blinding_elements_ed25519 :
    (∃ e, Ed25519.arb Spake2Model.ed25519 Consts.seedM = .ok e ∧
      Ed25519.toBytes Spake2Model.ed25519 e = Published.M_ed) ∧
    (∃ e, Ed25519.arb Spake2Model.ed25519 Consts.seedN = .ok e ∧
      Ed25519.toBytes Spake2Model.ed25519 e = Published.N_ed) ∧
    (∃ e, Ed25519.arb Spake2Model.ed25519 Consts.seedS = .ok e ∧
      Ed25519.toBytes Spake2Model.ed25519 e = Published.S_ed) :=
  ⟨exists_of_map_ok PublishedEval.generated_M_ed, exists_of_map_ok PublishedEval.generated_N_ed,
   exists_of_map_ok PublishedEval.generated_S_ed⟩

/-- **published blinding elements, 1024-bit group**: `arbitrary_element` of the three seeds succeeds
and the values encode to the released 128-byte strings -/
theorem published_blinding_elements_1024 :
    (∃ v, IG.arb Published.i1024 Published.seedM = .ok v ∧ IG.enc Published.i1024 v = Published.M_1024) ∧
    (∃ v, IG.arb Published.i1024 Published.seedN = .ok v ∧ IG.enc Published.i1024 v = Published.N_1024) ∧
    (∃ v, IG.arb Published.i1024 Published.seedS = .ok v ∧ IG.enc Published.i1024 v = Published.S_1024) :=
  ⟨exists_of_map_ok PublishedEval.published_M_1024, exists_of_map_ok PublishedEval.published_N_1024,
   exists_of_map_ok PublishedEval.published_S_1024⟩

/-- **published blinding elements, 2048-bit group**: `arbitrary_element` of the three seeds succeeds
and the values encode to the released 256-byte strings -/
theorem published_blinding_elements_2048 :
    (∃ v, IG.arb Published.i2048 Published.seedM = .ok v ∧ IG.enc Published.i2048 v = Published.M_2048) ∧
    (∃ v, IG.arb Published.i2048 Published.seedN = .ok v ∧ IG.enc Published.i2048 v = Published.N_2048) ∧
    (∃ v, IG.arb Published.i2048 Published.seedS = .ok v ∧ IG.enc Published.i2048 v = Published.S_2048) :=
  ⟨exists_of_map_ok PublishedEval.published_M_2048, exists_of_map_ok PublishedEval.published_N_2048,
   exists_of_map_ok PublishedEval.published_S_2048⟩

/-- **published blinding elements, 3072-bit group**: `arbitrary_element` of the three seeds succeeds
and the values encode to the released 384-byte strings -/
theorem published_blinding_elements_3072 :
    (∃ v, IG.arb Published.i3072 Published.seedM = .ok v ∧ IG.enc Published.i3072 v = Published.M_3072) ∧
    (∃ v, IG.arb Published.i3072 Published.seedN = .ok v ∧ IG.enc Published.i3072 v = Published.N_3072) ∧
    (∃ v, IG.arb Published.i3072 Published.seedS = .ok v ∧ IG.enc Published.i3072 v = Published.S_3072) :=
  ⟨exists_of_map_ok PublishedEval.published_M_3072, exists_of_map_ok PublishedEval.published_N_3072,
   exists_of_map_ok PublishedEval.published_S_3072⟩

/-- **the default parameter set of the shipped Ed25519 group object** (generated constants) exists
and its `M`, `N`, `S` have the released encodings -/
theorem default_params_ed25519 :
    ∃ P, defaultParams GEd = .ok P ∧ GEd.enc P.M = Published.M_ed ∧ GEd.enc P.N = Published.N_ed ∧
      GEd.enc P.S = Published.S_ed :=
  edGroup_params_encodings Spake2Model.ed25519 PublishedEval.generated_M_ed
    PublishedEval.generated_N_ed PublishedEval.generated_S_ed

/-- **the default parameter set of the shipped 1024-bit group object** (generated constants) exists
and its `M`, `N`, `S` have the released encodings -/
theorem default_params_1024 :
    ∃ P, defaultParams G1024 = .ok P ∧ G1024.enc P.M = Published.M_1024 ∧
      G1024.enc P.N = Published.N_1024 ∧ G1024.enc P.S = Published.S_1024 := by
  have h := intGroup_params_encodings Published.i1024 PublishedEval.published_M_1024
    PublishedEval.published_N_1024 PublishedEval.published_S_1024
  rw [← shipped_groups_are_published.1] at h
  exact h

/-- **the default parameter set of the shipped 2048-bit group object** (generated constants) exists
and its `M`, `N`, `S` have the released encodings -/
theorem default_params_2048 :
    ∃ P, defaultParams G2048 = .ok P ∧ G2048.enc P.M = Published.M_2048 ∧
      G2048.enc P.N = Published.N_2048 ∧ G2048.enc P.S = Published.S_2048 := by
  have h := intGroup_params_encodings Published.i2048 PublishedEval.published_M_2048
    PublishedEval.published_N_2048 PublishedEval.published_S_2048
  rw [← shipped_groups_are_published.2.1] at h
  exact h

/-- **the default parameter set of the shipped 3072-bit group object** (generated constants) exists
and its `M`, `N`, `S` have the released encodings -/
theorem default_params_3072 :
    ∃ P, defaultParams G3072 = .ok P ∧ G3072.enc P.M = Published.M_3072 ∧
      G3072.enc P.N = Published.N_3072 ∧ G3072.enc P.S = Published.S_3072 := by
  have h := intGroup_params_encodings Published.i3072 PublishedEval.published_M_3072
    PublishedEval.published_N_3072 PublishedEval.published_S_3072
  rw [← shipped_groups_are_published.2.2] at h
  exact h

/-- `arbitrary_element(b"")`, which `hash_params()` evaluates, succeeds for the four shipped groups
(so `serialize()` of a started session never raises there, cf. C08) -/
theorem hash_params_total_shipped :
    ((Ed25519.arb Spake2Model.ed25519 []).toOption.isSome = true ∧
      (Ed25519.arb Published.curve []).toOption.isSome = true) ∧
    (IG.arb Published.i1024 []).toOption.isSome = true ∧
    (IG.arb Published.i2048 []).toOption.isSome = true ∧
    (IG.arb Published.i3072 []).toOption.isSome = true :=
  ⟨PublishedEval.hash_params_total_ed, PublishedEval.hash_params_total_1024,
   PublishedEval.hash_params_total_2048, PublishedEval.hash_params_total_3072⟩

/-- **test vector (asymmetric)** of `test_compat.py`: password `b"password"`, empty identities,
default parameters, entropy `PRG(b"A")` / `PRG(b"B")` (`sha256("prng-0-A") ‖ sha256("prng-1-A")`, …):
the model reproduces both messages, the password scalar, both secret scalars and the key
(hex strings as in the test file).  A kernel-evaluated test. -/
theorem vector_asymmetric :
    ((defaultParams (edGroup Spake2Model.ed25519)).toOption.map (fun P =>
      (Inst.new (G := edGroup Spake2Model.ed25519) .A (asciiOf "password") [] [] P ⟨Sha.sha256 (asciiOf "prng-0-A") ++ Sha.sha256 (asciiOf "prng-1-A")⟩).start.2.toOption.map hexlify) =
    some (some (asciiOf "416fc960df73c9cf8ed7198b0c9534e2e96a5984bfc5edc023fd24dacf371f2af9"))) ∧
    ((defaultParams (edGroup Spake2Model.ed25519)).toOption.map (fun P =>
      (Inst.new (G := edGroup Spake2Model.ed25519) .B (asciiOf "password") [] [] P ⟨Sha.sha256 (asciiOf "prng-0-B") ++ Sha.sha256 (asciiOf "prng-1-B")⟩).start.2.toOption.map hexlify) =
    some (some (asciiOf "42354e97b88406922b1df4bea1d7870f17aed3dba7c720b313edae315b00959309"))) ∧
    ((defaultParams (edGroup Spake2Model.ed25519)).toOption.map (fun P =>
      ((Inst.new (G := edGroup Spake2Model.ed25519) .A (asciiOf "password") [] [] P ⟨Sha.sha256 (asciiOf "prng-0-A") ++ Sha.sha256 (asciiOf "prng-1-A")⟩).start.1.pwScalar,
       (Inst.new (G := edGroup Spake2Model.ed25519) .A (asciiOf "password") [] [] P ⟨Sha.sha256 (asciiOf "prng-0-A") ++ Sha.sha256 (asciiOf "prng-1-A")⟩).start.1.xyScalar,
       (Inst.new (G := edGroup Spake2Model.ed25519) .B (asciiOf "password") [] [] P ⟨Sha.sha256 (asciiOf "prng-0-B") ++ Sha.sha256 (asciiOf "prng-1-B")⟩).start.1.xyScalar)) =
    some (3515301705789368674385125653994241092664323519848410154015274772661223168839,
      some 2611694063369306139794446498317402240796898290761098242657700742213257926693,
      some 7002393159576182977806091886122272758628412261510164356026361256515836884383)) ∧
    ((defaultParams (edGroup Spake2Model.ed25519)).toOption.map (fun P =>
      ((Inst.new (G := edGroup Spake2Model.ed25519) .A (asciiOf "password") [] [] P ⟨Sha.sha256 (asciiOf "prng-0-A") ++ Sha.sha256 (asciiOf "prng-1-A")⟩).start.1.finish
        ((Inst.new (G := edGroup Spake2Model.ed25519) .B (asciiOf "password") [] [] P ⟨Sha.sha256 (asciiOf "prng-0-B") ++ Sha.sha256 (asciiOf "prng-1-B")⟩).start.2.toOption.getD [])).2.toOption.map hexlify) =
    some (some (asciiOf "a480bca13fa04464bb644f10e340125e96c9494f7399fef7c2bda67eb0fdf06d"))) ∧
    ((defaultParams (edGroup Spake2Model.ed25519)).toOption.map (fun P =>
      ((Inst.new (G := edGroup Spake2Model.ed25519) .B (asciiOf "password") [] [] P ⟨Sha.sha256 (asciiOf "prng-0-B") ++ Sha.sha256 (asciiOf "prng-1-B")⟩).start.1.finish
        ((Inst.new (G := edGroup Spake2Model.ed25519) .A (asciiOf "password") [] [] P ⟨Sha.sha256 (asciiOf "prng-0-A") ++ Sha.sha256 (asciiOf "prng-1-A")⟩).start.2.toOption.getD [])).2.toOption.map hexlify) =
    some (some (asciiOf "a480bca13fa04464bb644f10e340125e96c9494f7399fef7c2bda67eb0fdf06d"))) :=
  ⟨PublishedEval.vector_asym_msgA, PublishedEval.vector_asym_msgB, PublishedEval.vector_asym_scalars,
   PublishedEval.vector_asym_keyA, PublishedEval.vector_asym_keyB⟩

/-- **test vector (symmetric)** of `test_compat.py`: entropy `PRG(b"1")` / `PRG(b"2")`: both
messages and the common key.  A kernel-evaluated test. -/
theorem vector_symmetric :
    ((defaultParams (edGroup Spake2Model.ed25519)).toOption.map (fun P =>
      (Inst.new (G := edGroup Spake2Model.ed25519) .S (asciiOf "password") [] [] P ⟨Sha.sha256 (asciiOf "prng-0-1") ++ Sha.sha256 (asciiOf "prng-1-1")⟩).start.2.toOption.map hexlify) =
    some (some (asciiOf "5308f692d38c4034ad6e2e1054c469ca1dbe990bcaec4bbd3ad78c7d968eadd0b3"))) ∧
    ((defaultParams (edGroup Spake2Model.ed25519)).toOption.map (fun P =>
      (Inst.new (G := edGroup Spake2Model.ed25519) .S (asciiOf "password") [] [] P ⟨Sha.sha256 (asciiOf "prng-0-2") ++ Sha.sha256 (asciiOf "prng-1-2")⟩).start.2.toOption.map hexlify) =
    some (some (asciiOf "5329e2d5f9b7a53e609204115c6458921b0bb27419ce82a27679fc5961002897df"))) ∧
    ((defaultParams (edGroup Spake2Model.ed25519)).toOption.map (fun P =>
      ((Inst.new (G := edGroup Spake2Model.ed25519) .S (asciiOf "password") [] [] P ⟨Sha.sha256 (asciiOf "prng-0-1") ++ Sha.sha256 (asciiOf "prng-1-1")⟩).start.1.finish
        ((Inst.new (G := edGroup Spake2Model.ed25519) .S (asciiOf "password") [] [] P ⟨Sha.sha256 (asciiOf "prng-0-2") ++ Sha.sha256 (asciiOf "prng-1-2")⟩).start.2.toOption.getD [])).2.toOption.map hexlify) =
    some (some (asciiOf "9c4fccaa3f0740615cee6fd10ed5d3a311b91b5bdc65f53e4ea7cb2fe8aa96eb"))) ∧
    ((defaultParams (edGroup Spake2Model.ed25519)).toOption.map (fun P =>
      ((Inst.new (G := edGroup Spake2Model.ed25519) .S (asciiOf "password") [] [] P ⟨Sha.sha256 (asciiOf "prng-0-2") ++ Sha.sha256 (asciiOf "prng-1-2")⟩).start.1.finish
        ((Inst.new (G := edGroup Spake2Model.ed25519) .S (asciiOf "password") [] [] P ⟨Sha.sha256 (asciiOf "prng-0-1") ++ Sha.sha256 (asciiOf "prng-1-1")⟩).start.2.toOption.getD [])).2.toOption.map hexlify) =
    some (some (asciiOf "9c4fccaa3f0740615cee6fd10ed5d3a311b91b5bdc65f53e4ea7cb2fe8aa96eb"))) :=
  ⟨PublishedEval.vector_sym_msg1, PublishedEval.vector_sym_msg2, PublishedEval.vector_sym_key1,
   PublishedEval.vector_sym_key2⟩

/-! ### non-vacuity -/

/-- the hypothesis of the first clause of `start_spec` is satisfiable (toy group, `x = 7`), and the
message is then `A ‖ enc(7•B + w•M)` -/
example : ∃ (i' : Inst toyG) (m : Bytes),
    (Inst.new .A [1] [1] [2] toyParams ⟨[7]⟩).start = (i', .ok (Side.A.byte ++ m)) ∧
    m.length = toyG.elemSize ∧ Ready toySpec i' 7 m := by
  obtain ⟨e, m, i', -, -, -, hl, -, -, -, hst, -, -, -, -, -, rd, -⟩ :=
    (start_spec toySpec toy_valid .A [1] [1] [2] ⟨[7]⟩).1 7 ⟨[]⟩ (toy_random 7 (by decide))
  exact ⟨i', m, hst, hl, rd⟩

/-- the default parameter set of the toy group exists (so the `mkParams` hypothesis of the
instances is satisfiable there), and a toy message has `1 + 1` bytes -/
example : defaultParams toyG = .ok toyParams ∧
    (Inst.new (G := toyG) .A [1] [1] [2] toyParams ⟨[7]⟩).start.2 = .ok [65, 6] := by
  exact ⟨toy_defaultParams, by decide +kernel⟩

/-- Tie A: the key layout and the side byte of the messages are those of the *source* -- the two
transcript functions and the class side constants as translated by `tools/py2lean.py` -/
theorem key_layout_and_side_bytes_are_the_source :
    finalizeSPAKE2 = Spake2Model.Gen.Proto.finalize_asym ∧
    finalizeSymmetric = Spake2Model.Gen.Proto.finalize_sym ∧
    (Side.byte .A = Spake2Model.Gen.Proto.class_side_A ∧ Side.byte .B = Spake2Model.Gen.Proto.class_side_B ∧
      Side.byte .S = Spake2Model.Gen.Proto.class_side_S) :=
  ⟨ProtoShapeTie.finalize_asym_tie, ProtoShapeTie.finalize_sym_tie, ProtoShapeTie.class_sides_tie⟩

end Spake2Verif.C03
