import Spake2Verif.Proofs.PropAuxA
import Spake2Verif.Proofs.ProtoFlowTie
/-!
# C01 — Key agreement: matching inputs always yield the same session key

**Statement.** "Whenever the two ends of an exchange (SPAKE2_A with SPAKE2_B, or two
SPAKE2_Symmetric) are created with the same password, identity strings and parameter set, and each
is given the other's unmodified start() message, both finish() calls return the same 32-byte key.
This holds for every shipped parameter set and for any valid prime-order group passed as
parameters, and also when either end was persisted with serialize() and revived with
from_serialized() in between.  The only runs allowed to end otherwise are the degenerate
coincidences the protocol itself refuses: both ends sent the same blinded element
(ReflectionThwarted) or, on Ed25519, a blinded element is the identity (the peer rejects it)."

**Vocabulary** (defined in `Proofs/ProtoBasics.lean`, `Proofs/Agreement.lean`, `Proofs/Restore.lean`;
spelled out again by `agreementOutcome_iff` below).
`msgAbs S P side w x = x•B + w•(M|N|S)` is the mathematical blinded element.
`AgreementOutcome S XA YB obA obB rA rB` (`XA`,`YB` the blinded elements of the two ends, `obA`,`obB`
their encodings, `rA`,`rB` the two `finish()` results) is the disjunction of
1. *(normal)* no refused identity is involved, `XA ≠ YB`, and `rA = rB = ok k` with `k.length = 32`;
2. *(reflection)* no refused identity is involved, `XA = YB`, `obA = obB`, and both ends raise
   `ReflectionThwarted`;
3. *(identity)* the group's decoder refuses the identity (`rejectsIdentity`, Ed25519 only) and
   `XA = 0 ∨ YB = 0`: the end receiving the identity raises, the other end returns a 32-byte key
   unless it received the identity too.
`RestoredFrom a a'`: `a'` is obtained from `a` by any number (possibly 0) of
`from_serialized(serialize())` round trips under the same class and parameters.

**Clause → theorem.**
* A/B, same password, identities, parameters, unmodified messages ⇒ same 32-byte key, except in
  the two degenerate cases: `agreement_asym`; two symmetric ends: `agreement_sym`.
* "also when either end was persisted and revived in between" (any number of times, either or
  both ends): `agreement_asym_with_restores`, `agreement_sym_with_restores`; such restored sessions
  exist: `restore_chain_exists`.
* "the only runs allowed to end otherwise …": the three alternatives are mutually exclusive:
  `agreement_outcomes_exclusive`; for groups whose decoder accepts the identity (all integer
  groups) the third alternative is impossible: `agreement_two_outcomes`,
  `agreement_asym_intgroup_two_outcomes`, `agreement_sym_intgroup_two_outcomes`.
* whenever both ends return a key it is the same key: `agreement_keys_equal`.
* "every shipped parameter set and any valid prime-order group": the suffixes `_intgroup` (every
  `(p, q, g)` with `1 < p`, `0 < q`, `0 < g < p`, `pow(g, q, p) == 1` — neither `p` nor `q` needs to
  be prime for agreement), `_1024`, `_2048`, `_3072`, `_ed25519` (constants generated from the
  current source), `_ed25519_published` (RFC 8032 literals).  In the instances the parameter set is
  *any* set returned by `mkParams G mSeed nSeed sSeed` (the model of
  `_Params(group, M=arbitrary_element(mSeed), …)`), so the shipped seeds `M`, `N`, `symmetric` and
  all custom seeds are covered and no validity hypothesis is left open.

**Quantification.**  All theorems are for every password, every identity string, every entropy
stream (hence every pair of secret scalars the sampler can return, including 0 and q-1) and every
password scalar (including 0).  The hypotheses "`start()` returned a message" are the only ones;
`start()` fails only when the entropy stream is exhausted.

**Assumed / not covered here.**
* The restore variants need the passwords and identities to be byte strings (`IsBytes`, entries
  `< 256`; the model's `Bytes = List Nat` is wider than Python's `bytes`) because they are
  hex-encoded in the serialised state.
* `Json.parse` is the model's own parser (proved to invert `Json.dumps` in `Proofs/JsonProofs.lean`);
  the real `json.loads` is tied to it by the correspondence runs, not by proof.
* Identity of the *model* with the Python source is the subject of the correspondence slice, not of
  these theorems.
-/
namespace Spake2Verif.C01
open Spake2Model Spake2Model.Gen Spake2Verif.PropAux

/-- the definition of the three-way outcome predicate, spelled out -/
theorem agreementOutcome_iff {G : Group} (S : GroupSpec G) (XA YB : S.A) (obA obB : Bytes)
    (rA rB : R Bytes) :
    AgreementOutcome S XA YB obA obB rA rB ↔
      ((¬(S.rejectsIdentity = true ∧ (XA = 0 ∨ YB = 0)) ∧ XA ≠ YB ∧
          ∃ k, rA = .ok k ∧ rB = .ok k ∧ k.length = 32) ∨
       (¬(S.rejectsIdentity = true ∧ (XA = 0 ∨ YB = 0)) ∧ XA = YB ∧ obA = obB ∧
          rA = .error .ReflectionThwarted ∧ rB = .error .ReflectionThwarted) ∨
       (S.rejectsIdentity = true ∧ (XA = 0 ∨ YB = 0) ∧
          (YB = 0 → ∃ err, rA = .error err) ∧ (XA = 0 → ∃ err, rB = .error err) ∧
          (YB ≠ 0 → ∃ k, rA = .ok k ∧ k.length = 32) ∧ (XA ≠ 0 → ∃ k, rB = .ok k ∧ k.length = 32))) :=
  Iff.rfl

/-- **exclusive trichotomy**: the guards of the three alternatives of `AgreementOutcome` are
pairwise contradictory, so exactly one alternative describes a run -/
theorem agreement_outcomes_exclusive {G : Group} (S : GroupSpec G) (XA YB : S.A) :
    let C3 := S.rejectsIdentity = true ∧ (XA = 0 ∨ YB = 0)
    ¬((¬C3 ∧ XA ≠ YB) ∧ (¬C3 ∧ XA = YB)) ∧ ¬((¬C3 ∧ XA ≠ YB) ∧ C3) ∧ ¬((¬C3 ∧ XA = YB) ∧ C3) :=
  AgreementOutcome.exclusive S XA YB

/-- when the decoder accepts the identity (integer groups) only two outcomes remain: the same
32-byte key at both ends, or both ends sent the same element and both raise `ReflectionThwarted` -/
theorem agreement_two_outcomes {G : Group} (S : GroupSpec G) (hrej : S.rejectsIdentity = false)
    {XA YB : S.A} {obA obB : Bytes} {rA rB : R Bytes}
    (h : AgreementOutcome S XA YB obA obB rA rB) :
    (XA ≠ YB ∧ ∃ k, rA = .ok k ∧ rB = .ok k ∧ k.length = 32) ∨
    (XA = YB ∧ obA = obB ∧ rA = .error .ReflectionThwarted ∧ rB = .error .ReflectionThwarted) := by
  rcases h with ⟨-, h1, h2⟩ | ⟨-, h1, h2⟩ | ⟨h0, -⟩
  · exact Or.inl ⟨h1, h2⟩
  · exact Or.inr ⟨h1, h2⟩
  · rw [hrej] at h0; cases h0

/-- **C01, `SPAKE2_A` with `SPAKE2_B`.**  Same password, identities and (valid) parameters; both
`start()` calls returned a message; each end is given the other's message unmodified.  Then with
`x`, `y` the secret scalars, exactly one of the three `AgreementOutcome`s holds: the same 32-byte key
at both ends / both sent the same element and both raise `ReflectionThwarted` / an identity
element that the decoder refuses. -/
theorem agreement_asym {G : Group} (S : GroupSpec G) {P : Params G} (hP : ValidParams S P)
    {pw idA idB : Bytes} {entA entB : Entropy} {a b : Inst G} {mA mB : Bytes}
    (hA : (Inst.new .A pw idA idB P entA).start = (a, .ok mA))
    (hB : (Inst.new .B pw idA idB P entB).start = (b, .ok mB)) :
    ∃ x y, a.xyScalar = some x ∧ b.xyScalar = some y ∧
      AgreementOutcome S (msgAbs S P .A (G.p2s pw) x) (msgAbs S P .B (G.p2s pw) y)
        (mA.drop 1) (mB.drop 1) (a.finish mB).2 (b.finish mA).2 :=
  Spake2Verif.agreement_asym S hP hA hB

/-- `agreement_asym` for every integer group `IntegerGroup(p, q, g)` the constructor accepts (no primality assumption); the parameter set is any one built by `mkParams` (valid by `arb_valid`). -/
theorem agreement_asym_intgroup (IP : IntGroupParams) (hp : 1 < IP.p) (hq : 0 < IP.q) (hg : 0 < IP.g ∧ IP.g < IP.p)
    (hctor : IntGroup.ctor_ok IP.p IP.q IP.g = true)
    {mSeed nSeed sSeed : Bytes} {P : Params (intGroup IP)}
    (hP : mkParams (intGroup IP) mSeed nSeed sSeed = .ok P)
    {pw idA idB : Bytes} {entA entB : Entropy} {a b : Inst (intGroup IP)} {mA mB : Bytes}
    (hA : (Inst.new .A pw idA idB P entA).start = (a, .ok mA))
    (hB : (Inst.new .B pw idA idB P entB).start = (b, .ok mB)) :
    ∃ x y, a.xyScalar = some x ∧ b.xyScalar = some y ∧
      AgreementOutcome (intGroupSpec IP hp hq hg hctor) (msgAbs (intGroupSpec IP hp hq hg hctor) P .A ((intGroup IP).p2s pw) x) (msgAbs (intGroupSpec IP hp hq hg hctor) P .B ((intGroup IP).p2s pw) y)
        (mA.drop 1) (mB.drop 1) (a.finish mB).2 (b.finish mA).2 :=
  C01.agreement_asym (G := (intGroup IP)) (intGroupSpec IP hp hq hg hctor) (PropAux.validParams_of_mkParams _ hP) hA hB

/-- `agreement_asym` for the shipped 1024-bit integer group (generated constants); the parameter set is any one built by `mkParams` (valid by `arb_valid`). -/
theorem agreement_asym_1024 {mSeed nSeed sSeed : Bytes} {P : Params G1024}
    (hP : mkParams G1024 mSeed nSeed sSeed = .ok P)
    {pw idA idB : Bytes} {entA entB : Entropy} {a b : Inst G1024} {mA mB : Bytes}
    (hA : (Inst.new .A pw idA idB P entA).start = (a, .ok mA))
    (hB : (Inst.new .B pw idA idB P entB).start = (b, .ok mB)) :
    ∃ x y, a.xyScalar = some x ∧ b.xyScalar = some y ∧
      AgreementOutcome spec1024 (msgAbs spec1024 P .A (G1024.p2s pw) x) (msgAbs spec1024 P .B (G1024.p2s pw) y)
        (mA.drop 1) (mB.drop 1) (a.finish mB).2 (b.finish mA).2 :=
  C01.agreement_asym (G := G1024) spec1024 (PropAux.validParams_of_mkParams _ hP) hA hB

/-- `agreement_asym` for the shipped 2048-bit integer group (generated constants); the parameter set is any one built by `mkParams` (valid by `arb_valid`). -/
theorem agreement_asym_2048 {mSeed nSeed sSeed : Bytes} {P : Params G2048}
    (hP : mkParams G2048 mSeed nSeed sSeed = .ok P)
    {pw idA idB : Bytes} {entA entB : Entropy} {a b : Inst G2048} {mA mB : Bytes}
    (hA : (Inst.new .A pw idA idB P entA).start = (a, .ok mA))
    (hB : (Inst.new .B pw idA idB P entB).start = (b, .ok mB)) :
    ∃ x y, a.xyScalar = some x ∧ b.xyScalar = some y ∧
      AgreementOutcome spec2048 (msgAbs spec2048 P .A (G2048.p2s pw) x) (msgAbs spec2048 P .B (G2048.p2s pw) y)
        (mA.drop 1) (mB.drop 1) (a.finish mB).2 (b.finish mA).2 :=
  C01.agreement_asym (G := G2048) spec2048 (PropAux.validParams_of_mkParams _ hP) hA hB

/-- `agreement_asym` for the shipped 3072-bit integer group (generated constants); the parameter set is any one built by `mkParams` (valid by `arb_valid`). -/
theorem agreement_asym_3072 {mSeed nSeed sSeed : Bytes} {P : Params G3072}
    (hP : mkParams G3072 mSeed nSeed sSeed = .ok P)
    {pw idA idB : Bytes} {entA entB : Entropy} {a b : Inst G3072} {mA mB : Bytes}
    (hA : (Inst.new .A pw idA idB P entA).start = (a, .ok mA))
    (hB : (Inst.new .B pw idA idB P entB).start = (b, .ok mB)) :
    ∃ x y, a.xyScalar = some x ∧ b.xyScalar = some y ∧
      AgreementOutcome spec3072 (msgAbs spec3072 P .A (G3072.p2s pw) x) (msgAbs spec3072 P .B (G3072.p2s pw) y)
        (mA.drop 1) (mB.drop 1) (a.finish mB).2 (b.finish mA).2 :=
  C01.agreement_asym (G := G3072) spec3072 (PropAux.validParams_of_mkParams _ hP) hA hB

/-- `agreement_asym` for Ed25519 with the constants generated from the current source; the parameter set is any one built by `mkParams` (valid by `arb_valid`). -/
theorem agreement_asym_ed25519 {mSeed nSeed sSeed : Bytes} {P : Params GEd}
    (hP : mkParams GEd mSeed nSeed sSeed = .ok P)
    {pw idA idB : Bytes} {entA entB : Entropy} {a b : Inst GEd} {mA mB : Bytes}
    (hA : (Inst.new .A pw idA idB P entA).start = (a, .ok mA))
    (hB : (Inst.new .B pw idA idB P entB).start = (b, .ok mB)) :
    ∃ x y, a.xyScalar = some x ∧ b.xyScalar = some y ∧
      AgreementOutcome specGen (msgAbs specGen P .A (GEd.p2s pw) x) (msgAbs specGen P .B (GEd.p2s pw) y)
        (mA.drop 1) (mB.drop 1) (a.finish mB).2 (b.finish mA).2 :=
  C01.agreement_asym (G := GEd) specGen (PropAux.validParams_of_mkParams _ hP) hA hB

/-- `agreement_asym` for Ed25519 with the literal RFC 8032 constants; the parameter set is any one built by `mkParams` (valid by `arb_valid`). -/
theorem agreement_asym_ed25519_published {mSeed nSeed sSeed : Bytes} {P : Params GEdPub}
    (hP : mkParams GEdPub mSeed nSeed sSeed = .ok P)
    {pw idA idB : Bytes} {entA entB : Entropy} {a b : Inst GEdPub} {mA mB : Bytes}
    (hA : (Inst.new .A pw idA idB P entA).start = (a, .ok mA))
    (hB : (Inst.new .B pw idA idB P entB).start = (b, .ok mB)) :
    ∃ x y, a.xyScalar = some x ∧ b.xyScalar = some y ∧
      AgreementOutcome specPublished (msgAbs specPublished P .A (GEdPub.p2s pw) x) (msgAbs specPublished P .B (GEdPub.p2s pw) y)
        (mA.drop 1) (mB.drop 1) (a.finish mB).2 (b.finish mA).2 :=
  C01.agreement_asym (G := GEdPub) specPublished (PropAux.validParams_of_mkParams _ hP) hA hB

/-- **C01, two `SPAKE2_Symmetric` ends** (the unused `idB` field of the record may differ). -/
theorem agreement_sym {G : Group} (S : GroupSpec G) {P : Params G} (hP : ValidParams S P)
    {pw idS idB₁ idB₂ : Bytes} {ent₁ ent₂ : Entropy} {a b : Inst G} {m₁ m₂ : Bytes}
    (hA : (Inst.new .S pw idS idB₁ P ent₁).start = (a, .ok m₁))
    (hB : (Inst.new .S pw idS idB₂ P ent₂).start = (b, .ok m₂)) :
    ∃ x y, a.xyScalar = some x ∧ b.xyScalar = some y ∧
      AgreementOutcome S (msgAbs S P .S (G.p2s pw) x) (msgAbs S P .S (G.p2s pw) y)
        (m₁.drop 1) (m₂.drop 1) (a.finish m₂).2 (b.finish m₁).2 :=
  Spake2Verif.agreement_sym S hP hA hB

/-- `agreement_sym` for every integer group `IntegerGroup(p, q, g)` the constructor accepts (no primality assumption); the parameter set is any one built by `mkParams` (valid by `arb_valid`). -/
theorem agreement_sym_intgroup (IP : IntGroupParams) (hp : 1 < IP.p) (hq : 0 < IP.q) (hg : 0 < IP.g ∧ IP.g < IP.p)
    (hctor : IntGroup.ctor_ok IP.p IP.q IP.g = true)
    {mSeed nSeed sSeed : Bytes} {P : Params (intGroup IP)}
    (hP : mkParams (intGroup IP) mSeed nSeed sSeed = .ok P)
    {pw idS idB₁ idB₂ : Bytes} {ent₁ ent₂ : Entropy} {a b : Inst (intGroup IP)} {m₁ m₂ : Bytes}
    (hA : (Inst.new .S pw idS idB₁ P ent₁).start = (a, .ok m₁))
    (hB : (Inst.new .S pw idS idB₂ P ent₂).start = (b, .ok m₂)) :
    ∃ x y, a.xyScalar = some x ∧ b.xyScalar = some y ∧
      AgreementOutcome (intGroupSpec IP hp hq hg hctor) (msgAbs (intGroupSpec IP hp hq hg hctor) P .S ((intGroup IP).p2s pw) x) (msgAbs (intGroupSpec IP hp hq hg hctor) P .S ((intGroup IP).p2s pw) y)
        (m₁.drop 1) (m₂.drop 1) (a.finish m₂).2 (b.finish m₁).2 :=
  C01.agreement_sym (G := (intGroup IP)) (intGroupSpec IP hp hq hg hctor) (PropAux.validParams_of_mkParams _ hP) hA hB

/-- `agreement_sym` for the shipped 1024-bit integer group (generated constants); the parameter set is any one built by `mkParams` (valid by `arb_valid`). -/
theorem agreement_sym_1024 {mSeed nSeed sSeed : Bytes} {P : Params G1024}
    (hP : mkParams G1024 mSeed nSeed sSeed = .ok P)
    {pw idS idB₁ idB₂ : Bytes} {ent₁ ent₂ : Entropy} {a b : Inst G1024} {m₁ m₂ : Bytes}
    (hA : (Inst.new .S pw idS idB₁ P ent₁).start = (a, .ok m₁))
    (hB : (Inst.new .S pw idS idB₂ P ent₂).start = (b, .ok m₂)) :
    ∃ x y, a.xyScalar = some x ∧ b.xyScalar = some y ∧
      AgreementOutcome spec1024 (msgAbs spec1024 P .S (G1024.p2s pw) x) (msgAbs spec1024 P .S (G1024.p2s pw) y)
        (m₁.drop 1) (m₂.drop 1) (a.finish m₂).2 (b.finish m₁).2 :=
  C01.agreement_sym (G := G1024) spec1024 (PropAux.validParams_of_mkParams _ hP) hA hB

/-- `agreement_sym` for the shipped 2048-bit integer group (generated constants); the parameter set is any one built by `mkParams` (valid by `arb_valid`). -/
theorem agreement_sym_2048 {mSeed nSeed sSeed : Bytes} {P : Params G2048}
    (hP : mkParams G2048 mSeed nSeed sSeed = .ok P)
    {pw idS idB₁ idB₂ : Bytes} {ent₁ ent₂ : Entropy} {a b : Inst G2048} {m₁ m₂ : Bytes}
    (hA : (Inst.new .S pw idS idB₁ P ent₁).start = (a, .ok m₁))
    (hB : (Inst.new .S pw idS idB₂ P ent₂).start = (b, .ok m₂)) :
    ∃ x y, a.xyScalar = some x ∧ b.xyScalar = some y ∧
      AgreementOutcome spec2048 (msgAbs spec2048 P .S (G2048.p2s pw) x) (msgAbs spec2048 P .S (G2048.p2s pw) y)
        (m₁.drop 1) (m₂.drop 1) (a.finish m₂).2 (b.finish m₁).2 :=
  C01.agreement_sym (G := G2048) spec2048 (PropAux.validParams_of_mkParams _ hP) hA hB

/-- `agreement_sym` for the shipped 3072-bit integer group (generated constants); the parameter set is any one built by `mkParams` (valid by `arb_valid`). -/
theorem agreement_sym_3072 {mSeed nSeed sSeed : Bytes} {P : Params G3072}
    (hP : mkParams G3072 mSeed nSeed sSeed = .ok P)
    {pw idS idB₁ idB₂ : Bytes} {ent₁ ent₂ : Entropy} {a b : Inst G3072} {m₁ m₂ : Bytes}
    (hA : (Inst.new .S pw idS idB₁ P ent₁).start = (a, .ok m₁))
    (hB : (Inst.new .S pw idS idB₂ P ent₂).start = (b, .ok m₂)) :
    ∃ x y, a.xyScalar = some x ∧ b.xyScalar = some y ∧
      AgreementOutcome spec3072 (msgAbs spec3072 P .S (G3072.p2s pw) x) (msgAbs spec3072 P .S (G3072.p2s pw) y)
        (m₁.drop 1) (m₂.drop 1) (a.finish m₂).2 (b.finish m₁).2 :=
  C01.agreement_sym (G := G3072) spec3072 (PropAux.validParams_of_mkParams _ hP) hA hB

/-- `agreement_sym` for Ed25519 with the constants generated from the current source; the parameter set is any one built by `mkParams` (valid by `arb_valid`). -/
theorem agreement_sym_ed25519 {mSeed nSeed sSeed : Bytes} {P : Params GEd}
    (hP : mkParams GEd mSeed nSeed sSeed = .ok P)
    {pw idS idB₁ idB₂ : Bytes} {ent₁ ent₂ : Entropy} {a b : Inst GEd} {m₁ m₂ : Bytes}
    (hA : (Inst.new .S pw idS idB₁ P ent₁).start = (a, .ok m₁))
    (hB : (Inst.new .S pw idS idB₂ P ent₂).start = (b, .ok m₂)) :
    ∃ x y, a.xyScalar = some x ∧ b.xyScalar = some y ∧
      AgreementOutcome specGen (msgAbs specGen P .S (GEd.p2s pw) x) (msgAbs specGen P .S (GEd.p2s pw) y)
        (m₁.drop 1) (m₂.drop 1) (a.finish m₂).2 (b.finish m₁).2 :=
  C01.agreement_sym (G := GEd) specGen (PropAux.validParams_of_mkParams _ hP) hA hB

/-- `agreement_sym` for Ed25519 with the literal RFC 8032 constants; the parameter set is any one built by `mkParams` (valid by `arb_valid`). -/
theorem agreement_sym_ed25519_published {mSeed nSeed sSeed : Bytes} {P : Params GEdPub}
    (hP : mkParams GEdPub mSeed nSeed sSeed = .ok P)
    {pw idS idB₁ idB₂ : Bytes} {ent₁ ent₂ : Entropy} {a b : Inst GEdPub} {m₁ m₂ : Bytes}
    (hA : (Inst.new .S pw idS idB₁ P ent₁).start = (a, .ok m₁))
    (hB : (Inst.new .S pw idS idB₂ P ent₂).start = (b, .ok m₂)) :
    ∃ x y, a.xyScalar = some x ∧ b.xyScalar = some y ∧
      AgreementOutcome specPublished (msgAbs specPublished P .S (GEdPub.p2s pw) x) (msgAbs specPublished P .S (GEdPub.p2s pw) y)
        (m₁.drop 1) (m₂.drop 1) (a.finish m₂).2 (b.finish m₁).2 :=
  C01.agreement_sym (G := GEdPub) specPublished (PropAux.validParams_of_mkParams _ hP) hA hB

/-- **C01 with persistence, A/B.**  `a'` (resp. `b'`) is obtained from the started session `a`
(resp. `b`) by any number of `from_serialized(serialize())` round trips -- none, one or many, on
either or both ends; the outcome is that of the uninterrupted exchange. -/
theorem agreement_asym_with_restores {G : Group} (S : GroupSpec G) {P : Params G} (hP : ValidParams S P)
    {pw idA idB : Bytes} (hpw : IsBytes pw) (hidA : IsBytes idA) (hidB : IsBytes idB)
    {entA entB : Entropy} {a b a' b' : Inst G} {mA mB : Bytes}
    (hA : (Inst.new .A pw idA idB P entA).start = (a, .ok mA))
    (hB : (Inst.new .B pw idA idB P entB).start = (b, .ok mB))
    (ra : RestoredFrom a a') (rb : RestoredFrom b b') :
    ∃ x y, a'.xyScalar = some x ∧ b'.xyScalar = some y ∧
      AgreementOutcome S (msgAbs S P .A (G.p2s pw) x) (msgAbs S P .B (G.p2s pw) y)
        (mA.drop 1) (mB.drop 1) (a'.finish mB).2 (b'.finish mA).2 :=
  Spake2Verif.agreement_with_restores S hP hpw hidA hidB hA hB ra rb

/-- `agreement_asym_with_restores` for every integer group `IntegerGroup(p, q, g)` the constructor accepts (no primality assumption); the parameter set is any one built by `mkParams` (valid by `arb_valid`). -/
theorem agreement_asym_with_restores_intgroup (IP : IntGroupParams) (hp : 1 < IP.p) (hq : 0 < IP.q) (hg : 0 < IP.g ∧ IP.g < IP.p)
    (hctor : IntGroup.ctor_ok IP.p IP.q IP.g = true)
    {mSeed nSeed sSeed : Bytes} {P : Params (intGroup IP)}
    (hP : mkParams (intGroup IP) mSeed nSeed sSeed = .ok P)
    {pw idA idB : Bytes} (hpw : IsBytes pw) (hidA : IsBytes idA) (hidB : IsBytes idB)
    {entA entB : Entropy} {a b a' b' : Inst (intGroup IP)} {mA mB : Bytes}
    (hA : (Inst.new .A pw idA idB P entA).start = (a, .ok mA))
    (hB : (Inst.new .B pw idA idB P entB).start = (b, .ok mB))
    (ra : RestoredFrom a a') (rb : RestoredFrom b b') :
    ∃ x y, a'.xyScalar = some x ∧ b'.xyScalar = some y ∧
      AgreementOutcome (intGroupSpec IP hp hq hg hctor) (msgAbs (intGroupSpec IP hp hq hg hctor) P .A ((intGroup IP).p2s pw) x) (msgAbs (intGroupSpec IP hp hq hg hctor) P .B ((intGroup IP).p2s pw) y)
        (mA.drop 1) (mB.drop 1) (a'.finish mB).2 (b'.finish mA).2 :=
  C01.agreement_asym_with_restores (G := (intGroup IP)) (intGroupSpec IP hp hq hg hctor) (PropAux.validParams_of_mkParams _ hP) hpw hidA hidB hA hB ra rb

/-- `agreement_asym_with_restores` for the shipped 1024-bit integer group (generated constants); the parameter set is any one built by `mkParams` (valid by `arb_valid`). -/
theorem agreement_asym_with_restores_1024 {mSeed nSeed sSeed : Bytes} {P : Params G1024}
    (hP : mkParams G1024 mSeed nSeed sSeed = .ok P)
    {pw idA idB : Bytes} (hpw : IsBytes pw) (hidA : IsBytes idA) (hidB : IsBytes idB)
    {entA entB : Entropy} {a b a' b' : Inst G1024} {mA mB : Bytes}
    (hA : (Inst.new .A pw idA idB P entA).start = (a, .ok mA))
    (hB : (Inst.new .B pw idA idB P entB).start = (b, .ok mB))
    (ra : RestoredFrom a a') (rb : RestoredFrom b b') :
    ∃ x y, a'.xyScalar = some x ∧ b'.xyScalar = some y ∧
      AgreementOutcome spec1024 (msgAbs spec1024 P .A (G1024.p2s pw) x) (msgAbs spec1024 P .B (G1024.p2s pw) y)
        (mA.drop 1) (mB.drop 1) (a'.finish mB).2 (b'.finish mA).2 :=
  C01.agreement_asym_with_restores (G := G1024) spec1024 (PropAux.validParams_of_mkParams _ hP) hpw hidA hidB hA hB ra rb

/-- `agreement_asym_with_restores` for the shipped 2048-bit integer group (generated constants); the parameter set is any one built by `mkParams` (valid by `arb_valid`). -/
theorem agreement_asym_with_restores_2048 {mSeed nSeed sSeed : Bytes} {P : Params G2048}
    (hP : mkParams G2048 mSeed nSeed sSeed = .ok P)
    {pw idA idB : Bytes} (hpw : IsBytes pw) (hidA : IsBytes idA) (hidB : IsBytes idB)
    {entA entB : Entropy} {a b a' b' : Inst G2048} {mA mB : Bytes}
    (hA : (Inst.new .A pw idA idB P entA).start = (a, .ok mA))
    (hB : (Inst.new .B pw idA idB P entB).start = (b, .ok mB))
    (ra : RestoredFrom a a') (rb : RestoredFrom b b') :
    ∃ x y, a'.xyScalar = some x ∧ b'.xyScalar = some y ∧
      AgreementOutcome spec2048 (msgAbs spec2048 P .A (G2048.p2s pw) x) (msgAbs spec2048 P .B (G2048.p2s pw) y)
        (mA.drop 1) (mB.drop 1) (a'.finish mB).2 (b'.finish mA).2 :=
  C01.agreement_asym_with_restores (G := G2048) spec2048 (PropAux.validParams_of_mkParams _ hP) hpw hidA hidB hA hB ra rb

/-- `agreement_asym_with_restores` for the shipped 3072-bit integer group (generated constants); the parameter set is any one built by `mkParams` (valid by `arb_valid`). -/
theorem agreement_asym_with_restores_3072 {mSeed nSeed sSeed : Bytes} {P : Params G3072}
    (hP : mkParams G3072 mSeed nSeed sSeed = .ok P)
    {pw idA idB : Bytes} (hpw : IsBytes pw) (hidA : IsBytes idA) (hidB : IsBytes idB)
    {entA entB : Entropy} {a b a' b' : Inst G3072} {mA mB : Bytes}
    (hA : (Inst.new .A pw idA idB P entA).start = (a, .ok mA))
    (hB : (Inst.new .B pw idA idB P entB).start = (b, .ok mB))
    (ra : RestoredFrom a a') (rb : RestoredFrom b b') :
    ∃ x y, a'.xyScalar = some x ∧ b'.xyScalar = some y ∧
      AgreementOutcome spec3072 (msgAbs spec3072 P .A (G3072.p2s pw) x) (msgAbs spec3072 P .B (G3072.p2s pw) y)
        (mA.drop 1) (mB.drop 1) (a'.finish mB).2 (b'.finish mA).2 :=
  C01.agreement_asym_with_restores (G := G3072) spec3072 (PropAux.validParams_of_mkParams _ hP) hpw hidA hidB hA hB ra rb

/-- `agreement_asym_with_restores` for Ed25519 with the constants generated from the current source; the parameter set is any one built by `mkParams` (valid by `arb_valid`). -/
theorem agreement_asym_with_restores_ed25519 {mSeed nSeed sSeed : Bytes} {P : Params GEd}
    (hP : mkParams GEd mSeed nSeed sSeed = .ok P)
    {pw idA idB : Bytes} (hpw : IsBytes pw) (hidA : IsBytes idA) (hidB : IsBytes idB)
    {entA entB : Entropy} {a b a' b' : Inst GEd} {mA mB : Bytes}
    (hA : (Inst.new .A pw idA idB P entA).start = (a, .ok mA))
    (hB : (Inst.new .B pw idA idB P entB).start = (b, .ok mB))
    (ra : RestoredFrom a a') (rb : RestoredFrom b b') :
    ∃ x y, a'.xyScalar = some x ∧ b'.xyScalar = some y ∧
      AgreementOutcome specGen (msgAbs specGen P .A (GEd.p2s pw) x) (msgAbs specGen P .B (GEd.p2s pw) y)
        (mA.drop 1) (mB.drop 1) (a'.finish mB).2 (b'.finish mA).2 :=
  C01.agreement_asym_with_restores (G := GEd) specGen (PropAux.validParams_of_mkParams _ hP) hpw hidA hidB hA hB ra rb

/-- `agreement_asym_with_restores` for Ed25519 with the literal RFC 8032 constants; the parameter set is any one built by `mkParams` (valid by `arb_valid`). -/
theorem agreement_asym_with_restores_ed25519_published {mSeed nSeed sSeed : Bytes} {P : Params GEdPub}
    (hP : mkParams GEdPub mSeed nSeed sSeed = .ok P)
    {pw idA idB : Bytes} (hpw : IsBytes pw) (hidA : IsBytes idA) (hidB : IsBytes idB)
    {entA entB : Entropy} {a b a' b' : Inst GEdPub} {mA mB : Bytes}
    (hA : (Inst.new .A pw idA idB P entA).start = (a, .ok mA))
    (hB : (Inst.new .B pw idA idB P entB).start = (b, .ok mB))
    (ra : RestoredFrom a a') (rb : RestoredFrom b b') :
    ∃ x y, a'.xyScalar = some x ∧ b'.xyScalar = some y ∧
      AgreementOutcome specPublished (msgAbs specPublished P .A (GEdPub.p2s pw) x) (msgAbs specPublished P .B (GEdPub.p2s pw) y)
        (mA.drop 1) (mB.drop 1) (a'.finish mB).2 (b'.finish mA).2 :=
  C01.agreement_asym_with_restores (G := GEdPub) specPublished (PropAux.validParams_of_mkParams _ hP) hpw hidA hidB hA hB ra rb

/-- **C01 with persistence, symmetric.** -/
theorem agreement_sym_with_restores {G : Group} (S : GroupSpec G) {P : Params G} (hP : ValidParams S P)
    {pw idS idB₁ idB₂ : Bytes} (hpw : IsBytes pw) (hidS : IsBytes idS)
    (h₁ : IsBytes idB₁) (h₂ : IsBytes idB₂)
    {ent₁ ent₂ : Entropy} {a b a' b' : Inst G} {m₁ m₂ : Bytes}
    (hA : (Inst.new .S pw idS idB₁ P ent₁).start = (a, .ok m₁))
    (hB : (Inst.new .S pw idS idB₂ P ent₂).start = (b, .ok m₂))
    (ra : RestoredFrom a a') (rb : RestoredFrom b b') :
    ∃ x y, a'.xyScalar = some x ∧ b'.xyScalar = some y ∧
      AgreementOutcome S (msgAbs S P .S (G.p2s pw) x) (msgAbs S P .S (G.p2s pw) y)
        (m₁.drop 1) (m₂.drop 1) (a'.finish m₂).2 (b'.finish m₁).2 :=
  Spake2Verif.agreement_sym_with_restores S hP hpw hidS h₁ h₂ hA hB ra rb

/-- `agreement_sym_with_restores` for every integer group `IntegerGroup(p, q, g)` the constructor accepts (no primality assumption); the parameter set is any one built by `mkParams` (valid by `arb_valid`). -/
theorem agreement_sym_with_restores_intgroup (IP : IntGroupParams) (hp : 1 < IP.p) (hq : 0 < IP.q) (hg : 0 < IP.g ∧ IP.g < IP.p)
    (hctor : IntGroup.ctor_ok IP.p IP.q IP.g = true)
    {mSeed nSeed sSeed : Bytes} {P : Params (intGroup IP)}
    (hP : mkParams (intGroup IP) mSeed nSeed sSeed = .ok P)
    {pw idS idB₁ idB₂ : Bytes} (hpw : IsBytes pw) (hidS : IsBytes idS)
    (h₁ : IsBytes idB₁) (h₂ : IsBytes idB₂)
    {ent₁ ent₂ : Entropy} {a b a' b' : Inst (intGroup IP)} {m₁ m₂ : Bytes}
    (hA : (Inst.new .S pw idS idB₁ P ent₁).start = (a, .ok m₁))
    (hB : (Inst.new .S pw idS idB₂ P ent₂).start = (b, .ok m₂))
    (ra : RestoredFrom a a') (rb : RestoredFrom b b') :
    ∃ x y, a'.xyScalar = some x ∧ b'.xyScalar = some y ∧
      AgreementOutcome (intGroupSpec IP hp hq hg hctor) (msgAbs (intGroupSpec IP hp hq hg hctor) P .S ((intGroup IP).p2s pw) x) (msgAbs (intGroupSpec IP hp hq hg hctor) P .S ((intGroup IP).p2s pw) y)
        (m₁.drop 1) (m₂.drop 1) (a'.finish m₂).2 (b'.finish m₁).2 :=
  C01.agreement_sym_with_restores (G := (intGroup IP)) (intGroupSpec IP hp hq hg hctor) (PropAux.validParams_of_mkParams _ hP) hpw hidS h₁ h₂ hA hB ra rb

/-- `agreement_sym_with_restores` for the shipped 1024-bit integer group (generated constants); the parameter set is any one built by `mkParams` (valid by `arb_valid`). -/
theorem agreement_sym_with_restores_1024 {mSeed nSeed sSeed : Bytes} {P : Params G1024}
    (hP : mkParams G1024 mSeed nSeed sSeed = .ok P)
    {pw idS idB₁ idB₂ : Bytes} (hpw : IsBytes pw) (hidS : IsBytes idS)
    (h₁ : IsBytes idB₁) (h₂ : IsBytes idB₂)
    {ent₁ ent₂ : Entropy} {a b a' b' : Inst G1024} {m₁ m₂ : Bytes}
    (hA : (Inst.new .S pw idS idB₁ P ent₁).start = (a, .ok m₁))
    (hB : (Inst.new .S pw idS idB₂ P ent₂).start = (b, .ok m₂))
    (ra : RestoredFrom a a') (rb : RestoredFrom b b') :
    ∃ x y, a'.xyScalar = some x ∧ b'.xyScalar = some y ∧
      AgreementOutcome spec1024 (msgAbs spec1024 P .S (G1024.p2s pw) x) (msgAbs spec1024 P .S (G1024.p2s pw) y)
        (m₁.drop 1) (m₂.drop 1) (a'.finish m₂).2 (b'.finish m₁).2 :=
  C01.agreement_sym_with_restores (G := G1024) spec1024 (PropAux.validParams_of_mkParams _ hP) hpw hidS h₁ h₂ hA hB ra rb

/-- `agreement_sym_with_restores` for the shipped 2048-bit integer group (generated constants); the parameter set is any one built by `mkParams` (valid by `arb_valid`). -/
theorem agreement_sym_with_restores_2048 {mSeed nSeed sSeed : Bytes} {P : Params G2048}
    (hP : mkParams G2048 mSeed nSeed sSeed = .ok P)
    {pw idS idB₁ idB₂ : Bytes} (hpw : IsBytes pw) (hidS : IsBytes idS)
    (h₁ : IsBytes idB₁) (h₂ : IsBytes idB₂)
    {ent₁ ent₂ : Entropy} {a b a' b' : Inst G2048} {m₁ m₂ : Bytes}
    (hA : (Inst.new .S pw idS idB₁ P ent₁).start = (a, .ok m₁))
    (hB : (Inst.new .S pw idS idB₂ P ent₂).start = (b, .ok m₂))
    (ra : RestoredFrom a a') (rb : RestoredFrom b b') :
    ∃ x y, a'.xyScalar = some x ∧ b'.xyScalar = some y ∧
      AgreementOutcome spec2048 (msgAbs spec2048 P .S (G2048.p2s pw) x) (msgAbs spec2048 P .S (G2048.p2s pw) y)
        (m₁.drop 1) (m₂.drop 1) (a'.finish m₂).2 (b'.finish m₁).2 :=
  C01.agreement_sym_with_restores (G := G2048) spec2048 (PropAux.validParams_of_mkParams _ hP) hpw hidS h₁ h₂ hA hB ra rb

/-- `agreement_sym_with_restores` for the shipped 3072-bit integer group (generated constants); the parameter set is any one built by `mkParams` (valid by `arb_valid`). -/
theorem agreement_sym_with_restores_3072 {mSeed nSeed sSeed : Bytes} {P : Params G3072}
    (hP : mkParams G3072 mSeed nSeed sSeed = .ok P)
    {pw idS idB₁ idB₂ : Bytes} (hpw : IsBytes pw) (hidS : IsBytes idS)
    (h₁ : IsBytes idB₁) (h₂ : IsBytes idB₂)
    {ent₁ ent₂ : Entropy} {a b a' b' : Inst G3072} {m₁ m₂ : Bytes}
    (hA : (Inst.new .S pw idS idB₁ P ent₁).start = (a, .ok m₁))
    (hB : (Inst.new .S pw idS idB₂ P ent₂).start = (b, .ok m₂))
    (ra : RestoredFrom a a') (rb : RestoredFrom b b') :
    ∃ x y, a'.xyScalar = some x ∧ b'.xyScalar = some y ∧
      AgreementOutcome spec3072 (msgAbs spec3072 P .S (G3072.p2s pw) x) (msgAbs spec3072 P .S (G3072.p2s pw) y)
        (m₁.drop 1) (m₂.drop 1) (a'.finish m₂).2 (b'.finish m₁).2 :=
  C01.agreement_sym_with_restores (G := G3072) spec3072 (PropAux.validParams_of_mkParams _ hP) hpw hidS h₁ h₂ hA hB ra rb

/-- `agreement_sym_with_restores` for Ed25519 with the constants generated from the current source; the parameter set is any one built by `mkParams` (valid by `arb_valid`). -/
theorem agreement_sym_with_restores_ed25519 {mSeed nSeed sSeed : Bytes} {P : Params GEd}
    (hP : mkParams GEd mSeed nSeed sSeed = .ok P)
    {pw idS idB₁ idB₂ : Bytes} (hpw : IsBytes pw) (hidS : IsBytes idS)
    (h₁ : IsBytes idB₁) (h₂ : IsBytes idB₂)
    {ent₁ ent₂ : Entropy} {a b a' b' : Inst GEd} {m₁ m₂ : Bytes}
    (hA : (Inst.new .S pw idS idB₁ P ent₁).start = (a, .ok m₁))
    (hB : (Inst.new .S pw idS idB₂ P ent₂).start = (b, .ok m₂))
    (ra : RestoredFrom a a') (rb : RestoredFrom b b') :
    ∃ x y, a'.xyScalar = some x ∧ b'.xyScalar = some y ∧
      AgreementOutcome specGen (msgAbs specGen P .S (GEd.p2s pw) x) (msgAbs specGen P .S (GEd.p2s pw) y)
        (m₁.drop 1) (m₂.drop 1) (a'.finish m₂).2 (b'.finish m₁).2 :=
  C01.agreement_sym_with_restores (G := GEd) specGen (PropAux.validParams_of_mkParams _ hP) hpw hidS h₁ h₂ hA hB ra rb

/-- `agreement_sym_with_restores` for Ed25519 with the literal RFC 8032 constants; the parameter set is any one built by `mkParams` (valid by `arb_valid`). -/
theorem agreement_sym_with_restores_ed25519_published {mSeed nSeed sSeed : Bytes} {P : Params GEdPub}
    (hP : mkParams GEdPub mSeed nSeed sSeed = .ok P)
    {pw idS idB₁ idB₂ : Bytes} (hpw : IsBytes pw) (hidS : IsBytes idS)
    (h₁ : IsBytes idB₁) (h₂ : IsBytes idB₂)
    {ent₁ ent₂ : Entropy} {a b a' b' : Inst GEdPub} {m₁ m₂ : Bytes}
    (hA : (Inst.new .S pw idS idB₁ P ent₁).start = (a, .ok m₁))
    (hB : (Inst.new .S pw idS idB₂ P ent₂).start = (b, .ok m₂))
    (ra : RestoredFrom a a') (rb : RestoredFrom b b') :
    ∃ x y, a'.xyScalar = some x ∧ b'.xyScalar = some y ∧
      AgreementOutcome specPublished (msgAbs specPublished P .S (GEdPub.p2s pw) x) (msgAbs specPublished P .S (GEdPub.p2s pw) y)
        (m₁.drop 1) (m₂.drop 1) (a'.finish m₂).2 (b'.finish m₁).2 :=
  C01.agreement_sym_with_restores (G := GEdPub) specPublished (PropAux.validParams_of_mkParams _ hP) hpw hidS h₁ h₂ hA hB ra rb

/-- integer groups accept the identity, so an honest A/B exchange has only two outcomes:
the same 32-byte key, or (both ends sent the same element) `ReflectionThwarted` at both ends -/
theorem agreement_asym_intgroup_two_outcomes (IP : IntGroupParams) (hp : 1 < IP.p) (hq : 0 < IP.q)
    (hg : 0 < IP.g ∧ IP.g < IP.p) (hctor : IntGroup.ctor_ok IP.p IP.q IP.g = true)
    {mSeed nSeed sSeed : Bytes} {P : Params (intGroup IP)}
    (hP : mkParams (intGroup IP) mSeed nSeed sSeed = .ok P)
    {pw idA idB : Bytes} {entA entB : Entropy} {a b : Inst (intGroup IP)} {mA mB : Bytes}
    (hA : (Inst.new .A pw idA idB P entA).start = (a, .ok mA))
    (hB : (Inst.new .B pw idA idB P entB).start = (b, .ok mB)) :
    (∃ k, (a.finish mB).2 = .ok k ∧ (b.finish mA).2 = .ok k ∧ k.length = 32) ∨
    (mA.drop 1 = mB.drop 1 ∧ (a.finish mB).2 = .error .ReflectionThwarted ∧
      (b.finish mA).2 = .error .ReflectionThwarted) := by
  obtain ⟨x, y, -, -, h⟩ := agreement_asym_intgroup IP hp hq hg hctor hP hA hB
  rcases agreement_two_outcomes _ rfl h with ⟨-, h⟩ | ⟨-, h⟩
  · exact Or.inl h
  · exact Or.inr h

/-- the same for two symmetric ends -/
theorem agreement_sym_intgroup_two_outcomes (IP : IntGroupParams) (hp : 1 < IP.p) (hq : 0 < IP.q)
    (hg : 0 < IP.g ∧ IP.g < IP.p) (hctor : IntGroup.ctor_ok IP.p IP.q IP.g = true)
    {mSeed nSeed sSeed : Bytes} {P : Params (intGroup IP)}
    (hP : mkParams (intGroup IP) mSeed nSeed sSeed = .ok P)
    {pw idS idB₁ idB₂ : Bytes} {ent₁ ent₂ : Entropy} {a b : Inst (intGroup IP)} {m₁ m₂ : Bytes}
    (hA : (Inst.new .S pw idS idB₁ P ent₁).start = (a, .ok m₁))
    (hB : (Inst.new .S pw idS idB₂ P ent₂).start = (b, .ok m₂)) :
    (∃ k, (a.finish m₂).2 = .ok k ∧ (b.finish m₁).2 = .ok k ∧ k.length = 32) ∨
    (m₁.drop 1 = m₂.drop 1 ∧ (a.finish m₂).2 = .error .ReflectionThwarted ∧
      (b.finish m₁).2 = .error .ReflectionThwarted) := by
  obtain ⟨x, y, -, -, h⟩ := agreement_sym_intgroup IP hp hq hg hctor hP hA hB
  rcases agreement_two_outcomes _ rfl h with ⟨-, h⟩ | ⟨-, h⟩
  · exact Or.inl h
  · exact Or.inr h

/-- readable corollary over started sessions `a`, `b` (fresh or restored, `Ready`) with the same
password, identities and parameters (`Peers`): whenever both ends return a key, it is the same
32-byte key -/
theorem agreement_keys_equal {G : Group} (S : GroupSpec G) {a b : Inst G} {x y : ℤ}
    {obA obB kA kB : Bytes} (ha : Ready S a x obA) (hb : Ready S b y obB) (hp : Peers a b)
    (hA : (a.finish (b.side.byte ++ obB)).2 = .ok kA)
    (hB : (b.finish (a.side.byte ++ obA)).2 = .ok kB) : kA = kB ∧ kA.length = 32 :=
  Spake2Verif.agreement_keys_equal S ha hb hp hA hB

/-- the hypothesis `RestoredFrom` of the persistence variants is inhabited beyond `refl`: for a
started session with byte-string password and identities, `serialize()` succeeds and
`from_serialized` of the result succeeds (given that `arbitrary_element(b"")`, evaluated by
`hash_params()`, does not raise) -/
theorem restore_chain_exists {G : Group} (S : GroupSpec G) {i : Inst G} {x : ℤ} {ob : Bytes}
    (h : Ready S i x ob) (hA : IsBytes i.idA) (hB : IsBytes i.idB) (hpw : IsBytes i.pw)
    {a0 : G.Elem} (ha : G.arb [] = .ok a0) :
    ∃ s i', i.serialize = .ok s ∧ fromSerialized i.side s i.params = .ok i' ∧ RestoredFrom i i' :=
  Spake2Verif.restore_chain_exists S h hA hB hpw ha

/-! ### non-vacuity -/

/-- the hypotheses of `agreement_asym` are satisfiable, on the edge inputs `x = 0`, `y = q - 1`,
password scalar `w = 0` (toy group `IntegerGroup(23, 11, 2)`, default seeds) -/
example : ∃ (a b : Inst toyG) (mA mB : Bytes),
    (Inst.new .A [13] [1] [2] toyParams ⟨[0]⟩).start = (a, .ok mA) ∧
    (Inst.new .B [13] [1] [2] toyParams ⟨[10]⟩).start = (b, .ok mB) ∧
    a.xyScalar = some 0 ∧ b.xyScalar = some 10 ∧ toyG.p2s [13] = 0 := by
  obtain ⟨a, mA, hA, xa⟩ := toy_start .A [13] [1] [2] 0 (by decide)
  obtain ⟨b, mB, hB, xb⟩ := toy_start .B [13] [1] [2] 10 (by decide)
  exact ⟨a, b, mA, mB, hA, hB, xa, xb, toy_pw_zero⟩

/-- … and there the theorem yields a common 32-byte key or a double `ReflectionThwarted` -/
example : ∃ (a b : Inst toyG) (mA mB : Bytes),
    (Inst.new .A [13] [1] [2] toyParams ⟨[0]⟩).start = (a, .ok mA) ∧
    (Inst.new .B [13] [1] [2] toyParams ⟨[10]⟩).start = (b, .ok mB) ∧
    ((∃ k, (a.finish mB).2 = .ok k ∧ (b.finish mA).2 = .ok k ∧ k.length = 32) ∨
     (mA.drop 1 = mB.drop 1 ∧ (a.finish mB).2 = .error .ReflectionThwarted ∧
       (b.finish mA).2 = .error .ReflectionThwarted)) := by
  obtain ⟨a, mA, hA, -⟩ := toy_start .A [13] [1] [2] 0 (by decide)
  obtain ⟨b, mB, hB, -⟩ := toy_start .B [13] [1] [2] 10 (by decide)
  exact ⟨a, b, mA, mB, hA, hB,
    agreement_asym_intgroup_two_outcomes toyP (by decide) (by decide) (by decide) (by decide)
      toy_mkParams hA hB⟩

/-- the normal outcome does occur: a complete toy exchange evaluated in the kernel
(password `b"\x01"`, identities `b"\x01"`, `b"\x02"`, scalars 4 and 7): both keys are equal -/
example :
    ((Inst.new (G := toyG) .A [1] [1] [2] toyParams ⟨[4]⟩).start.1.finish
        ((Inst.new (G := toyG) .B [1] [1] [2] toyParams ⟨[7]⟩).start.2.toOption.getD [])).2 =
    ((Inst.new (G := toyG) .B [1] [1] [2] toyParams ⟨[7]⟩).start.1.finish
        ((Inst.new (G := toyG) .A [1] [1] [2] toyParams ⟨[4]⟩).start.2.toOption.getD [])).2 ∧
    (∃ k, ((Inst.new (G := toyG) .A [1] [1] [2] toyParams ⟨[4]⟩).start.1.finish
        ((Inst.new (G := toyG) .B [1] [1] [2] toyParams ⟨[7]⟩).start.2.toOption.getD [])).2 = .ok k) := by
  refine ⟨by decide +kernel, ?_⟩
  exact ⟨_, (by decide +kernel :
    ((Inst.new (G := toyG) .A [1] [1] [2] toyParams ⟨[4]⟩).start.1.finish
        ((Inst.new (G := toyG) .B [1] [1] [2] toyParams ⟨[7]⟩).start.2.toOption.getD [])).2 =
      .ok (((Inst.new (G := toyG) .A [1] [1] [2] toyParams ⟨[4]⟩).start.1.finish
        ((Inst.new (G := toyG) .B [1] [1] [2] toyParams ⟨[7]⟩).start.2.toOption.getD [])).2.toOption.getD []))⟩

/-- **Ed25519, edge scalars**: the hypotheses of `agreement_asym_ed25519` are satisfiable under the
default parameter set with secret scalars `x = 0` (side A) and `y = L - 1` (side B) -- kernel
evaluation of `arbitrary_element` and `random_scalar` -- and the theorem applies -/
example : ∃ (P : Params GEd) (a b : Inst GEd) (mA mB : Bytes), defaultParams GEd = .ok P ∧
    (Inst.new .A [112, 119] [] [] P ⟨List.replicate 64 0⟩).start = (a, .ok mA) ∧
    (Inst.new .B [112, 119] [] [] P ⟨natToBE 64 (Ed.L_c - 1).toNat⟩).start = (b, .ok mB) ∧
    a.xyScalar = some 0 ∧ b.xyScalar = some (Ed.L_c - 1) ∧
    ∃ x y, AgreementOutcome specGen (msgAbs specGen P .A (GEd.p2s [112, 119]) x)
        (msgAbs specGen P .B (GEd.p2s [112, 119]) y) (mA.drop 1) (mB.drop 1)
        (a.finish mB).2 (b.finish mA).2 := by
  obtain ⟨P, a, -, mA, -, hP, hA, xa, -, -⟩ := ed_start_edge .A [112, 119] [] []
  obtain ⟨P', -, b, -, mB, hP', -, -, hB, xb⟩ := ed_start_edge .B [112, 119] [] []
  rw [hP] at hP'; injection hP' with hP'; subst hP'
  obtain ⟨x, y, -, -, h⟩ := agreement_asym_ed25519 hP hA hB
  exact ⟨P, a, b, mA, mB, hP, hA, hB, xa, xb, x, y, h⟩

/-- the persistence hypotheses are satisfiable: a started toy session can be serialised and
restored (a non-trivial `RestoredFrom` chain) -/
example : ∃ (a a' : Inst toyG) (m s : Bytes),
    (Inst.new .S [1] [7, 7] [] toyParams ⟨[5]⟩).start = (a, .ok m) ∧
    a.serialize = .ok s ∧ fromSerialized .S s toyParams = .ok a' ∧ RestoredFrom a a' := by
  obtain ⟨a, m, hA, -⟩ := toy_start .S [1] [7, 7] [] 5 (by decide)
  obtain ⟨x, ob, -, rd, sa, pa, ia, ja, qa, -⟩ := start_ready toySpec toy_valid hA
  obtain ⟨s, a', h1, h2, h3⟩ := restore_chain_exists toySpec rd (ia ▸ by decide) (ja ▸ by decide)
    (pa ▸ by decide) toyG_arb_empty
  rw [sa, qa] at h2
  exact ⟨a, a', m, s, hA, h1, h2, h3⟩

/-- Tie A: the `start()` / `finish()` reasoned about above are those of the *source* -- the model's state machine
equals the translation of the method bodies of `_SPAKE2_Base.start`, `compute_outbound_message`, `finish`, the role
accessors and `_finalize` (flag tests and sets, order of effects, blinding / unblinding element per class, the
reflection test and its position, `K = (Y* + N·(-pw))·x`, transcript arguments per class), for every group -/
theorem start_finish_are_the_source {G : Group} :
    @Inst.start G = ProtoFlowTie.flowStart ∧ @Inst.finish G = ProtoFlowTie.flowFinish :=
  ⟨ProtoFlowTie.start_is_source, ProtoFlowTie.finish_is_source⟩

end Spake2Verif.C01
