import Spake2Verif.Proofs.PropAuxB5
import Spake2Verif.Proofs.PropAuxB7
import Spake2Verif.Proofs.PropAuxC1
import Spake2Verif.Proofs.PropAuxC3
import Spake2Verif.Proofs.PropAuxC4
import Spake2Verif.Proofs.GroupShapeTie
/-!
# C14 — Password-to-scalar and seed-to-element derivations are exact and in-group

Statement (properties.jsonl):
"For every password, password_to_scalar is the big-endian integer of HKDF-SHA256(pw, salt='', info='SPAKE2 pw',
scalar_size+16 bytes) reduced mod q, hence in [0,q) and deterministic.  For every seed, arbitrary_element is
deterministic, is a non-identity member of the prime-order subgroup, and equals the published construction (integer
groups: HKDF output mod p raised to (p-1)/q; Ed25519: first curve point at or after the HKDF-derived y, multiplied by 8);
in particular M, N, S of every shipped parameter set are the released constants."

Clause → theorem
* the fixed strings / lengths, generated from the source  : `derivation_constants` (`info = "SPAKE2 pw"`, `"SPAKE2 arbitrary element"`, salts
                                                            empty, `scalar_size + 16`, cofactor 8, 48 seed bytes), `hkdf_length`
* `password_to_scalar` = big-endian HKDF output mod q      : `p2s_def`; how the two kinds of group call it: `p2s_groups`
* in `[0,q)`                                               : `p2s_range` (any `q > 0`), `p2s_range_spec` (any group with a `GroupSpec`)
* integer groups: `(HKDF(seed) mod p)^((p-1)/q) mod p`     : `arb_int_def` (with the two assertions of the code), `pow3_is_modpow`
  returns unless the expanded seed ≡ 0 mod p               : `arb_int_total` (**hypothesis: p prime**)
* Ed25519: try-and-increment from the HKDF-derived y, ×8   : `arb_ed_def` (the loop, one step), `arb_ed_candidates` (the candidate point, its
                                                            multiple by 8, the acceptance test, spelled out), `arb_ed_first_point` (the result is
                                                            `8·P` for the **first** candidate at or after y that is on the curve with `8·P ≠ 0`)
  the final assertion `L·(8·P) = identity` never fails    : `ed_curve_card` (both shipped curve records: the point group has exactly `8·L` elements),
                                                            `arb_ed_assert_holds` (every usable candidate passes), `arb_ed_never_asserts` (loop and
                                                            `arbitrary_element` never return `AssertionError`; any `CurveOK` curve with `8·L` points),
                                                            `arb_ed_never_asserts_ed25519` (generated constants and RFC literals, every seed)
  complete outcome under the model's bound of 4096         : `arb_ed_total` (+ `_ed25519`, `_ed25519_published`): either no usable candidate among
                                                            `y … y+4095` (`Fuel`), or `.ok` of `8·P` for the first one — valid, **non-identity**, killed by L
* integer groups, exact class of K3 (**hypothesis: p prime**): `arb_int_never_identity_partial` (`AssertionError` ⇔ `q ∤ p-1` or `h = 0`; identity ⇔
                                                            `h ≠ 0 ∧ h^((p-1)/q) ≡ 1`; otherwise a member ≠ identity), `pow3_eq_one_iff_zmod`
* member of the subgroup                                   : `arb_member` (every group with a `GroupSpec`), `arb_member_int` (explicit),
                                                            `arb_member_ed` (valid, **non-identity**, killed by L — from the code's own tests
                                                            and the ladder theorems)
* deterministic                                            : all of these are pure functions of their arguments in the model (no state, no
                                                            entropy argument); nothing to prove beyond `p2s_def` / `arb_*_def`
* recorded finding K3 ("non-identity" fails on toy groups) : `known_finding_K3`

Assumed / partial — **read this**
* **"non-identity member" is FALSE for integer groups in general** and cannot be repaired inside the published
  construction: on `IntegerGroup(23, 11, 2)` the seed `b"s5"` yields the identity and `b"s0"` makes `arbitrary_element` raise
  `AssertionError` (`known_finding_K3`, kernel evaluation of the model; replayed on the real code as known finding K3).  For
  integer groups only *membership* is proved (`arb_member_int`) — plus, for prime p, the exact set of seeds on which the
  construction asserts or returns the identity (`arb_int_never_identity_partial`); for Ed25519 non-identity is proved
  (`arb_member_ed`) and the construction never asserts (`arb_ed_never_asserts_ed25519`).
* "prime-order subgroup": for integer groups membership means `0 < e < p ∧ e^q ≡ 1 (mod p)`; that this set is a group of
  prime order q needs **p prime, which is not proved** for the three shipped moduli (see C18).  `arb_int_total` carries
  `Nat.Prime p` as a hypothesis.
* "M, N, S of every shipped parameter set are the released constants" is a closed evaluation of `arbitrary_element` on the
  seeds `M`, `N`, `symmetric` in the four groups; it lives in `Spake2Verif/Proofs/PublishedEval*.lean` (not in this file).
* `Sha.hkdf` is the project's own executable HKDF-SHA256; its agreement with `hkdf.Hkdf(salt=b"", …).expand` is established
  by the byte-exact correspondence runs (lengths 0, 1, 31–33, 55–56, 63–65, 200), not by a theorem.
* `arb_ed_first_point` / `arb_ed_total` are stated for the model's loop bound of 4096 candidates (the Python loop is unbounded;
  about half of all y are x-coordinates of curve points, so the bound is not reached in practice — not proved; for the three
  shipped seeds it is not reached: `PublishedEval*`).  The clause "(or the `L`-torsion assertion fails)" of `arb_ed_first_point`
  is discharged by `arb_ed_assert_holds`: on the shipped curve (generated constants and RFC literals) the assertion cannot fail.
* `arb_int_never_identity_partial` pins K3 down exactly but, like `arb_int_total`, carries `Nat.Prime p` as a hypothesis; for
  composite `p` only `arb_int_def` / `arb_member_int` apply.
-/
namespace Spake2Verif.C14
open Spake2Model Spake2Model.Gen Spake2Verif.PropAuxB

/-! ### constants -/

/-- the strings and lengths the current source uses -/
theorem derivation_constants :
    IntGroup.info_pw = asciiOf "SPAKE2 pw" ∧ IntGroup.info_pw_salt = [] ∧
    IntGroup.info_arb = asciiOf "SPAKE2 arbitrary element" ∧ IntGroup.info_arb_salt = [] ∧
    (∀ s : Nat, (IntGroup.p2s_len (s : Int)).toNat = s + 16) ∧
    Ed.arb_cofactor = 8 ∧ Ed.arb_seed_len = 48 :=
  ⟨info_pw_eq.1, info_pw_eq.2, info_arb_eq.1, info_arb_eq.2, p2s_len_eq, rfl, rfl⟩

/-- HKDF returns exactly the number of bytes requested -/
theorem hkdf_length (ikm salt info : Bytes) (len : Nat) : (Sha.hkdf ikm salt info len).length = len :=
  PropAuxB.hkdf_length ikm salt info len

/-! ### `password_to_scalar` -/

/-- `password_to_scalar(pw, scalar_size_bytes, q)` is the big-endian integer of
`HKDF-SHA256(pw, salt = "", info = "SPAKE2 pw", scalar_size_bytes + 16)` reduced mod `q` -/
theorem p2s_def (pw : Bytes) (scalarSize : Nat) (q : Int) :
    passwordToScalar pw scalarSize q =
      (beToNat (Sha.hkdf pw [] (asciiOf "SPAKE2 pw") (scalarSize + 16)) : Int) % q :=
  p2s_unfold pw scalarSize q

/-- the integer groups call it with `size_bytes(q)` and `q`, Ed25519 with 32 and `L` -/
theorem p2s_groups (P : IntGroupParams) (c : Curve) (pw : Bytes) :
    (intGroup P).p2s pw = passwordToScalar pw (sizeBytes P.q) P.q ∧
    (edGroup c).p2s pw = passwordToScalar pw 32 c.L :=
  ⟨rfl, rfl⟩

/-- the result lies in `[0, q)` -/
theorem p2s_range (pw : Bytes) (scalarSize : Nat) {q : Int} (hq : 0 < q) :
    0 ≤ passwordToScalar pw scalarSize q ∧ passwordToScalar pw scalarSize q < q :=
  PropAuxB.p2s_range pw scalarSize hq

/-- in every group meeting the contract -/
theorem p2s_range_spec {G : Group} (S : GroupSpec G) (pw : Bytes) : 0 ≤ G.p2s pw ∧ G.p2s pw < S.q :=
  S.p2s_range pw

/-! ### integer groups -/

/-- Python's three-argument `pow` on a non-negative exponent and positive modulus -/
theorem pow3_is_modpow (b e n : Int) (he : 0 ≤ e) (hn : 0 < n) : Py.pow3 b e n = (b ^ e.toNat) % n :=
  Py.pow3_spec b e n he hn

/-- **the published construction** for `IntegerGroup(p, q, g)` (`p ≥ 0`): with
`h = bigendian(HKDF(seed, "", "SPAKE2 arbitrary element", size_bytes(p))) mod p` and `r = (p-1) // q`, the result is
`pow(h, r, p)`, provided `r·q = p-1` and `pow(result, q, p) = 1` (the two assertions; otherwise `AssertionError`) -/
theorem arb_int_def (P : IntGroupParams) (hp : 0 ≤ P.p) (seed : Bytes) :
    (intGroup P).arb seed =
      if Int.fdiv (P.p - 1) P.q * P.q ≠ P.p - 1 then raise .AssertionError
      else if Py.pow3
          (Py.pow3 ((beToNat (Sha.hkdf seed [] (asciiOf "SPAKE2 arbitrary element") (sizeBytes P.p)) : Int) % P.p)
            (Int.fdiv (P.p - 1) P.q) P.p) P.q P.p = 1
        then .ok (Py.pow3
          ((beToNat (Sha.hkdf seed [] (asciiOf "SPAKE2 arbitrary element") (sizeBytes P.p)) : Int) % P.p)
          (Int.fdiv (P.p - 1) P.q) P.p)
        else raise .AssertionError :=
  ig_arb_unfold P hp seed

/-- **with p prime** (hypothesis), `q > 0`, `q ∣ p-1`: `arbitrary_element` returns `h^((p-1)/q) mod p` unless `h ≡ 0` -/
theorem arb_int_total (P : IntGroupParams) (hpp : Nat.Prime P.p.toNat) (hq : 0 < P.q)
    (hrq : Int.fdiv (P.p - 1) P.q * P.q = P.p - 1) (seed : Bytes)
    (hh : (beToNat (Sha.hkdf seed [] (asciiOf "SPAKE2 arbitrary element") (sizeBytes P.p)) : Int) % P.p ≠ 0) :
    (intGroup P).arb seed = .ok (Py.pow3
      ((beToNat (Sha.hkdf seed [] (asciiOf "SPAKE2 arbitrary element") (sizeBytes P.p)) : Int) % P.p)
      (Int.fdiv (P.p - 1) P.q) P.p) :=
  ig_arb_total P hpp hq hrq seed hh

/-! ### Ed25519 -/

/-- the vocabulary of the loop: candidate `(x', y')` with `y' = (y + plus) mod Q`, `x' = xrecover(y')`; its multiple by the
cofactor 8 through the safe ladder; the acceptance test "on the curve and `8·P` not the identity" -/
theorem arb_ed_candidates (c : Curve) (y plus : Int) :
    arbPoint c y plus = (Ed.xrecover c.Q c.d c.I ((y + plus) % c.Q), (y + plus) % c.Q) ∧
    arbTimes8 c y plus =
      Ed.scalarmult_element_safe_slow c.Q c.d (Ed.xform_affine_to_extended c.Q (arbPoint c y plus)) 8 ∧
    arbGood c y plus =
      (Ed.isoncurve c.Q c.d (arbPoint c y plus) && !(Ed.is_extended_zero c.Q (arbTimes8 c y plus))) :=
  ⟨rfl, rfl, rfl⟩

/-- **the published construction** for Ed25519: `y = bigendian(HKDF(seed, "", "SPAKE2 arbitrary element", 48)) mod Q`, then
the loop over `plus = 0, 1, 2, …`; one step of the loop: a good candidate is returned as an `Element` holding `8·P` after the
assertion `L·(8·P) = identity`, a bad one moves on to `plus + 1` -/
theorem arb_ed_def (c : Curve) (seed : Bytes) (y : Int) (fuel : Nat) (plus : Int) :
    (edGroup c).arb seed =
      Ed25519.arbLoop c
        ((beToNat (Sha.hkdf seed [] (asciiOf "SPAKE2 arbitrary element") 48) : Int) % c.Q) 4096 0 ∧
    Ed25519.arbLoop c y (fuel + 1) plus =
      (if arbGood c y plus then
        (if Ed.is_extended_zero c.Q (Ed.scalarmult_element_safe_slow c.Q c.d (arbTimes8 c y plus) c.L)
          then .ok ⟨.elem, arbTimes8 c y plus⟩ else raise .AssertionError)
      else Ed25519.arbLoop c y fuel (plus + 1)) :=
  ⟨ed_arb_unfold c seed, arbLoop_succ c y fuel plus⟩

/-- **first curve point at or after y, multiplied by 8**: if the candidates `y, y+1, …, y+n-1` are all rejected and `y+n` is
good (`n < 4096`), the result is the `Element` holding `8·(x', y+n)` (or the `L`-torsion assertion fails) -/
theorem arb_ed_first_point (c : Curve) (seed : Bytes) (n : Nat) (hn : n < 4096)
    (hrej : ∀ k : Nat, k < n → arbGood c
      ((beToNat (Sha.hkdf seed [] (asciiOf "SPAKE2 arbitrary element") 48) : Int) % c.Q) (k : Int) = false)
    (hgood : arbGood c
      ((beToNat (Sha.hkdf seed [] (asciiOf "SPAKE2 arbitrary element") 48) : Int) % c.Q) (n : Int) = true) :
    (edGroup c).arb seed =
      if Ed.is_extended_zero c.Q (Ed.scalarmult_element_safe_slow c.Q c.d
          (arbTimes8 c ((beToNat (Sha.hkdf seed [] (asciiOf "SPAKE2 arbitrary element") 48) : Int) % c.Q) (n : Int))
          c.L)
        then .ok ⟨.elem,
          arbTimes8 c ((beToNat (Sha.hkdf seed [] (asciiOf "SPAKE2 arbitrary element") 48) : Int) % c.Q) (n : Int)⟩
        else raise .AssertionError := by
  have h := arbLoop_first c
    ((beToNat (Sha.hkdf seed [] (asciiOf "SPAKE2 arbitrary element") 48) : Int) % c.Q) n 4096 0 hn
    (fun k hk => by rw [zero_add]; exact hrej k hk) (by rw [zero_add]; exact hgood)
  rw [zero_add] at h
  exact (ed_arb_unfold c seed).trans h

/-! ### membership -/

/-- every group meeting the contract: whatever `arbitrary_element` returns is a valid element killed by `q` -/
theorem arb_member {G : Group} (S : GroupSpec G) (seed : Bytes) (e : G.Elem) (h : G.arb seed = .ok e) :
    S.Valid e ∧ (S.q : ℤ) • S.abs e = 0 :=
  ⟨S.arb_valid seed e h, S.order_smul e (S.arb_valid seed e h)⟩

/-- integer groups (`1 < p`, `0 < q`): the result is an integer `0 < e < p` with `pow(e, q, p) = 1` -/
theorem arb_member_int (P : IntGroupParams) (hp : 1 < P.p) (hq : 0 < P.q) (seed : Bytes) (e : Int)
    (h : (intGroup P).arb seed = .ok e) : 0 < e ∧ e < P.p ∧ Py.pow3 e P.q P.p = 1 :=
  IntGroupSpec.arb_valid hp hq seed e h

/-- Ed25519 (any curve with `CurveOK`; in particular the shipped one): the result is a valid `Element`, **not the identity**,
killed by `L` -/
theorem arb_member_ed (c : Curve) (h : CurveOK c) (seed : Bytes) (e : EdElem)
    (he : (edGroup c).arb seed = .ok e) :
    e.kind = .elem ∧ (ed25519Spec c h).Valid e ∧ (ed25519Spec c h).abs e ≠ 0 ∧
      (c.L : ℤ) • (ed25519Spec c h).abs e = 0 := by
  obtain ⟨v, hne, hq⟩ := ed_arb_member c h seed e he
  have hL : ((ed25519Spec c h).q : ℤ) = c.L := h.L_cast
  rw [hL] at hq
  exact ⟨arb_kind c seed e he, v, hne, hq⟩

/-- the shipped curve -/
theorem arb_member_ed25519 (seed : Bytes) (e : EdElem) (he : (edGroup ed25519).arb seed = .ok e) :
    specGen.Valid e ∧ specGen.abs e ≠ 0 ∧ (Ed.L_c : ℤ) • specGen.abs e = 0 :=
  (arb_member_ed ed25519 curveOK_gen seed e he).2

/-! ### Ed25519: the final assertion of `arbitrary_element` never fails -/

/-- the groups of curve points behind the two shipped curve records (constants generated from the current source; RFC 8032
literals) have exactly `8·L` elements (`Proofs/PropAuxC1.lean`: a point of order exactly 8 checked by the code's own ladder,
the base point of prime order `L`, Lagrange, and `#E ≤ 2Q < 16L`) -/
theorem ed_curve_card :
    Nat.card specGen.A = 8 * ed25519.L.toNat ∧ Nat.card specPublished.A = 8 * Published.curve.L.toNat :=
  ⟨specGen_card, specPublished_card⟩

/-- **a usable candidate always passes the code's final assertion**: on a curve whose point group has `8·L` elements, whenever
the candidate `(x', y')` is on the curve and `8·(x', y')` is not the identity (`arbGood`), `L·(8·(x', y'))` IS the identity,
as computed by the code's own safe ladder and zero test -/
theorem arb_ed_assert_holds (c : Curve) (h : CurveOK c) (hcard : Nat.card (ed25519Spec c h).A = 8 * c.L.toNat)
    (y plus : Int) (hg : arbGood c y plus = true) :
    Ed.is_extended_zero c.Q (Ed.scalarmult_element_safe_slow c.Q c.d (arbTimes8 c y plus) c.L) = true :=
  arbGood_assert_holds h hcard y plus hg

/-- … hence the loop, from any starting point and with any fuel, and `arbitrary_element` itself **never return
`AssertionError`**; and one step of the loop simplifies to "take `8·P` for a good candidate, else move on" -/
theorem arb_ed_never_asserts (c : Curve) (h : CurveOK c) (hcard : Nat.card (ed25519Spec c h).A = 8 * c.L.toNat) :
    (∀ seed : Bytes, (edGroup c).arb seed ≠ raise .AssertionError) ∧
    (∀ (y : Int) (fuel : Nat) (plus : Int), Ed25519.arbLoop c y fuel plus ≠ raise .AssertionError) ∧
    (∀ (y : Int) (fuel : Nat) (plus : Int), Ed25519.arbLoop c y (fuel + 1) plus =
      if arbGood c y plus then .ok ⟨.elem, arbTimes8 c y plus⟩ else Ed25519.arbLoop c y fuel (plus + 1)) :=
  ⟨ed_arb_never_asserts h hcard, arbLoop_never_asserts h hcard, arbLoop_succ' h hcard⟩

/-- the two shipped curve records: `arbitrary_element` never raises `AssertionError`, for every seed -/
theorem arb_ed_never_asserts_ed25519 (seed : Bytes) :
    (edGroup ed25519).arb seed ≠ raise .AssertionError ∧
    (edGroup Published.curve).arb seed ≠ raise .AssertionError :=
  ⟨ed_arb_never_asserts curveOK_gen specGen_card seed, ed_arb_never_asserts curveOK_published specPublished_card seed⟩

/-- **the complete outcome, with the model's bound of 4096 candidates**: with `y` the HKDF-derived start value, either none
of the candidates `y, y+1, …, y+4095` is a curve point with `8·P ≠ 0` and the model reports `Fuel` (the Python loop would go
on), or `arbitrary_element` returns the `Element` holding `8·P` for the FIRST such candidate, and that element is valid,
**not the identity**, and killed by `L` -/
theorem arb_ed_total (c : Curve) (h : CurveOK c) (hcard : Nat.card (ed25519Spec c h).A = 8 * c.L.toNat)
    (seed : Bytes) (y : Int) (hy : y = (beToNat (Sha.hkdf seed [] (asciiOf "SPAKE2 arbitrary element") 48) : Int) % c.Q) :
    (((edGroup c).arb seed = raise .Fuel ∧ ∀ k : ℕ, k < 4096 → arbGood c y (k : ℤ) = false) ∨
     (∃ n : ℕ, n < 4096 ∧ (∀ k : ℕ, k < n → arbGood c y (k : ℤ) = false) ∧ arbGood c y (n : ℤ) = true ∧
       (edGroup c).arb seed = .ok ⟨.elem, arbTimes8 c y (n : ℤ)⟩ ∧
       (ed25519Spec c h).Valid ⟨.elem, arbTimes8 c y (n : ℤ)⟩ ∧
       (ed25519Spec c h).abs ⟨.elem, arbTimes8 c y (n : ℤ)⟩ ≠ 0 ∧
       (c.L : ℤ) • (ed25519Spec c h).abs ⟨.elem, arbTimes8 c y (n : ℤ)⟩ = 0)) :=
  ed_arb_total h hcard seed y hy

/-- `arb_ed_total` for the curve record generated from the current source -/
theorem arb_ed_total_ed25519 (seed : Bytes) (y : Int) (hy : y = (beToNat (Sha.hkdf seed [] (asciiOf "SPAKE2 arbitrary element") 48) : Int) % ed25519.Q) :
    (((edGroup ed25519).arb seed = raise .Fuel ∧ ∀ k : ℕ, k < 4096 → arbGood ed25519 y (k : ℤ) = false) ∨
     (∃ n : ℕ, n < 4096 ∧ (∀ k : ℕ, k < n → arbGood ed25519 y (k : ℤ) = false) ∧ arbGood ed25519 y (n : ℤ) = true ∧
       (edGroup ed25519).arb seed = .ok ⟨.elem, arbTimes8 ed25519 y (n : ℤ)⟩ ∧
       specGen.Valid ⟨.elem, arbTimes8 ed25519 y (n : ℤ)⟩ ∧
       specGen.abs ⟨.elem, arbTimes8 ed25519 y (n : ℤ)⟩ ≠ 0 ∧
       (ed25519.L : ℤ) • specGen.abs ⟨.elem, arbTimes8 ed25519 y (n : ℤ)⟩ = 0)) :=
  ed_arb_total curveOK_gen specGen_card seed y hy

/-- `arb_ed_total` for the curve record of RFC 8032 literals -/
theorem arb_ed_total_ed25519_published (seed : Bytes) (y : Int) (hy : y = (beToNat (Sha.hkdf seed [] (asciiOf "SPAKE2 arbitrary element") 48) : Int) % Published.curve.Q) :
    (((edGroup Published.curve).arb seed = raise .Fuel ∧ ∀ k : ℕ, k < 4096 → arbGood Published.curve y (k : ℤ) = false) ∨
     (∃ n : ℕ, n < 4096 ∧ (∀ k : ℕ, k < n → arbGood Published.curve y (k : ℤ) = false) ∧ arbGood Published.curve y (n : ℤ) = true ∧
       (edGroup Published.curve).arb seed = .ok ⟨.elem, arbTimes8 Published.curve y (n : ℤ)⟩ ∧
       specPublished.Valid ⟨.elem, arbTimes8 Published.curve y (n : ℤ)⟩ ∧
       specPublished.abs ⟨.elem, arbTimes8 Published.curve y (n : ℤ)⟩ ≠ 0 ∧
       (Published.curve.L : ℤ) • specPublished.abs ⟨.elem, arbTimes8 Published.curve y (n : ℤ)⟩ = 0)) :=
  ed_arb_total curveOK_published specPublished_card seed y hy

/-! ### integer groups: exactly when the construction asserts or yields the identity (the class of K3) -/

/-- **exact characterisation, p prime (hypothesis), q > 0**, for every seed; `h` is the reduced HKDF output, `r = (p-1) // q`
(the generator `g` does not enter `arbitrary_element`):
* `AssertionError`  ⇔  `r·q ≠ p-1` (q does not divide p-1), or `h = 0` (then the candidate `0^r = 0` fails `_is_member`);
* the identity `1`  ⇔  `r·q = p-1`, `h ≠ 0` and `pow(h, r, p) = 1` (h is an r-th root of unity mod p);
* in every other case the result is `pow(h, r, p)`, a member (`0 < e < p`, `pow(e, q, p) = 1`) **different from the identity** -/
theorem arb_int_never_identity_partial (P : IntGroupParams) (hpp : Nat.Prime P.p.toNat) (hq : 0 < P.q) (seed : Bytes)
    (h r : Int) (hh : h = (beToNat (Sha.hkdf seed [] (asciiOf "SPAKE2 arbitrary element") (sizeBytes P.p)) : Int) % P.p) (hr : r = Int.fdiv (P.p - 1) P.q) :
    ((intGroup P).arb seed = raise .AssertionError ↔ (r * P.q ≠ P.p - 1 ∨ h = 0)) ∧
    ((intGroup P).arb seed = .ok (intGroup P).zero ↔ (r * P.q = P.p - 1 ∧ h ≠ 0 ∧ Py.pow3 h r P.p = 1)) ∧
    (r * P.q = P.p - 1 → h ≠ 0 → Py.pow3 h r P.p ≠ 1 →
      ∃ e : Int, (intGroup P).arb seed = .ok e ∧ e = Py.pow3 h r P.p ∧ e ≠ (intGroup P).zero ∧
        0 < e ∧ e < P.p ∧ Py.pow3 e P.q P.p = 1) :=
  ⟨(PropAuxC.ig_arb_char P hpp hq seed h r hh hr).1, (PropAuxC.ig_arb_char P hpp hq seed h r hh hr).2.1,
   PropAuxC.ig_arb_member_ne_one P hpp hq seed h r hh hr⟩

/-- the condition `pow(h, r, p) = 1` in `ZMod p`: `h^r = 1` -/
theorem pow3_eq_one_iff_zmod {p r : Int} (hp : 1 < p) (hr : 0 ≤ r) (h : Int) :
    Py.pow3 h r p = 1 ↔ (h : ZMod p.toNat) ^ r.toNat = 1 :=
  IntGroupSpec.pow3_eq_one_iff hp hr h

/-! ### the recorded finding K3 -/

/-- **K3**: on the toy group `IntegerGroup(23, 11, 2)` "non-identity for every seed" is false — `arbitrary_element(b"s5")` is
the identity `1` (`HKDF = 0xfc = 252 ≡ -1 (mod 23)`, `(-1)^2 = 1`), and `arbitrary_element(b"s0")` raises `AssertionError`
(`HKDF = 0x00`, `0^2 = 0` is not a member) -/
theorem known_finding_K3 :
    IG.arb ⟨23, 11, 2⟩ (asciiOf "s5") = .ok 1 ∧
    IG.arb ⟨23, 11, 2⟩ (asciiOf "s0") = raise .AssertionError ∧
    (intGroup ⟨23, 11, 2⟩).arb = IG.arb ⟨23, 11, 2⟩ ∧ (intGroup ⟨23, 11, 2⟩).zero = (1 : Int) ∧
    Sha.hkdf (asciiOf "s5") [] (asciiOf "SPAKE2 arbitrary element") 1 = [252] ∧
    Sha.hkdf (asciiOf "s0") [] (asciiOf "SPAKE2 arbitrary element") 1 = [0] := by
  refine ⟨?_, ?_, rfl, rfl, ?_, ?_⟩
  · decide +kernel
  · decide +kernel
  · decide +kernel
  · decide +kernel

/-! ### non-vacuity -/

/-- K3 through the characterisation: on `IntegerGroup(23, 11, 2)` (`r = 2`) the seed `b"s5"` has `h = 252 mod 23 = 22 ≡ -1`,
an `r`-th root of unity, so the result is the identity; `b"s0"` has `h = 0`, so the construction asserts -/
example :
    (intGroup ⟨23, 11, 2⟩).arb (asciiOf "s5") = .ok (1 : Int) ∧
    (intGroup ⟨23, 11, 2⟩).arb (asciiOf "s0") = raise .AssertionError :=
  ⟨(arb_int_never_identity_partial ⟨23, 11, 2⟩ (by decide) (by decide) (asciiOf "s5") 22 2
      (by decide +kernel) (by decide)).2.1.2 ⟨by decide, by decide, by decide⟩,
   (arb_int_never_identity_partial ⟨23, 11, 2⟩ (by decide) (by decide) (asciiOf "s0") 0 2
      (by decide +kernel) (by decide)).1.2 (Or.inr rfl)⟩

/-- the Ed25519 outcome is not vacuous: for the seed `b"M"` the first usable candidate is found within the bound
(kernel evaluation `PublishedEval.generated_M_ed`, C03), so the second alternative of `arb_ed_total_ed25519` is the one that
holds; in particular the result is not `Fuel` -/
example : (edGroup ed25519).arb Consts.seedM ≠ raise .Fuel ∧ (edGroup ed25519).arb Consts.seedM ≠ raise .AssertionError :=
  ⟨PropAuxC.ed_arb_M_not_fuel, (arb_ed_never_asserts_ed25519 Consts.seedM).1⟩

/-- an ordinary seed on the toy group: `arbitrary_element(b"s1") = 3`, a member (`3^11 ≡ 1 mod 23`) different from the identity -/
example : IG.arb ⟨23, 11, 2⟩ (asciiOf "s1") = .ok 3 ∧ Py.pow3 3 11 23 = 1 := by decide +kernel

/-- `password_to_scalar` on the toy group lands in `[0, 11)` -/
example : 0 ≤ (intGroup ⟨23, 11, 2⟩).p2s (asciiOf "pw") ∧ (intGroup ⟨23, 11, 2⟩).p2s (asciiOf "pw") < 11 :=
  p2s_range _ _ (by decide)

/-! ### Tie A for the two derivations as whole flows -/

/-- `password_to_scalar` (the shared function: `scalar_size_bytes + 16` HKDF bytes, length assertion, big-endian number,
`% q`) and its two callers `IntegerGroup.password_to_scalar` (`size_bytes(q)`, `q`) and
`_Ed25519Group.password_to_scalar` (`32`, `order() = L`) ARE the translation `Gen/GroupShape.lean` of the current source -/
theorem password_to_scalar_is_translated :
    (∀ (pw : Bytes) (n : Nat) (q : Int),
      GroupShape.IntShape.password_to_scalar GroupShapeTie.modelPrims pw (n : Int) q = .ok (passwordToScalar pw n q)) ∧
    (∀ (P : IntGroupParams) (pw : Bytes),
      GroupShape.IntShape.g_password_to_scalar GroupShapeTie.modelPrims P.p P.q P.g pw = .ok ((intGroup P).p2s pw)) ∧
    (∀ (c : Curve) (pw : Bytes),
      GroupShape.EdGroupShape.g_password_to_scalar GroupShapeTie.modelPrims c.Q c.L c.d c.I (Ed25519.zeroPt c) pw =
        .ok ((edGroup c).p2s pw)) :=
  ⟨GroupShapeTie.p2s_tie, GroupShapeTie.int_p2s_tie, GroupShapeTie.ed_p2s_tie⟩

/-- `IntegerGroup.arbitrary_element` (expand to `element_size_bytes`, `r = (p-1)//q`, `assert r*q == p-1`,
`h = number % p`, `pow(h, r, p)`, `assert _is_member`) and the Ed25519 `arbitrary_element` (48 HKDF bytes, `% Q`, the retry
loop over `y + plus`: `xrecover`, reject off-curve candidates, multiply by the cofactor with `scalarmult(8)`, reject the
identity, `assert` that `L` kills the result, return an `Element`; the model runs the loop with 4096 rounds of fuel) ARE the
translation `Gen/GroupShape.lean` of the current source -/
theorem arbitrary_element_is_translated :
    (∀ (P : IntGroupParams) (seed : Bytes), ((intGroup P).arb seed).map GroupShapeTie.toE =
      GroupShape.IntShape.arbitrary_element GroupShapeTie.modelPrims P.p P.q P.g seed) ∧
    (∀ (c : Curve), 0 ≤ c.L → ∀ (seed : Bytes), ((edGroup c).arb seed).map EdShapeTie.toS =
      GroupShape.EdGroupShape.g_arbitrary_element GroupShapeTie.modelPrims c.Q c.L c.d c.I (Ed25519.zeroPt c) 4096 seed) :=
  ⟨GroupShapeTie.int_arb_tie, fun c hL => (GroupShapeTie.ed_group_tie c hL).2.2.2.2.1⟩

end Spake2Verif.C14
