import Spake2Verif.Proofs.PropAuxA
import Spake2Verif.Proofs.ProtoFlowTie
/-!
# C07 — An instance is single-use over every call history

**Statement.** "Over any sequence of calls on one instance - succeeding or failing, including
serialize() and instances produced by from_serialized() - start() returns an outbound message at
most once (never on a restored instance; further calls raise OnlyCallStartOnce) and finish()
returns a key at most once (further calls raise OnlyCallFinishOnce).  finish() before start() and
serialize() before start() raise (the latter SerializedTooEarly), and the secret scalar reported
by serialize() never changes during the life of an instance."

**Vocabulary** (`Proofs/History.lean`, namespace `Spake2Model.History`).
`HOp = start | finish msg | serialize | restore`; `restore` = "serialise the instance in use and
continue with `from_serialized` of the result under the same class and parameters" (if either half
fails the instance in use is kept and the error is the output; if both succeed the output is the
blob and the *restored* instance is the one in use from then on).  `runHist i ops` runs a whole
history from the record `i` and returns the final record and the list of per-call results;
`stateAt i ops k` is the record in use just before call number `k`.  All theorems quantify over
*every* finite history `ops : List HOp` (arbitrary messages inside `finish`), every initial record
and every group object `G` (whose operations may raise anything) unless stated otherwise.

**The per-object reading of "single use" (stated explicitly).**  `_finished` is **not** part of
the serialised state: `from_serialized` creates a *new* object that is started and unfinished, even
if the object that was serialised had already been finished.  Hence "finish() returns a key at most
once" is proved *per instance object*, i.e. between two successful `restore` steps
(`finish_once`, `finish_ok_once`); across a successful restore the new object accepts one `finish`
again.  This behaviour is not hidden: it is the theorem `restore_resets_finished` and it is
exercised by the last `example` (a history in which a key is returned after a restore although an
earlier `finish` had consumed the original object).  `start()`, by contrast, is refused on every
restored instance (`start_once`, third clause), so at most one `start()` of the whole history ever
returns a message.

**Clause → theorem.**
* `start()` returns a message at most once; later calls raise `OnlyCallStartOnce`; never on a
  restored instance: `start_once`.
* `finish()` at most once per object, later calls raise `OnlyCallFinishOnce` -- whatever the first
  call did (key, `OffSides`, decoding error, `ReflectionThwarted`, …): `finish_once`,
  `finish_ok_once`; the behaviour across restores: `restore_resets_finished`.
* `serialize()` (and hence `restore`) before `start()` raises `SerializedTooEarly`: `early_calls`;
  `finish()` before `start()` never returns a key (it raises -- the finish-once guard,
  `_extract_message`, the decoder, or the missing `outbound_message` attribute):
  `finish_before_start_not_ok`.
* the secret scalar never changes (restores included): `scalar_constant` (group contract), with
  instances `_intgroup`, `_1024`, `_2048`, `_3072`, `_ed25519`, `_ed25519_published`; on one object
  and for every group object: `scalar_constant_same_object`; what `serialize()` reports is the
  encoding of that field: C10 `serialize_format`.
* comparison with a specification automaton (the four flag states): `automaton_table` (the
  automaton itself), `refines_automaton_any` (every group), `refines_automaton_intgroup`,
  `refines_automaton_edgroup` (the two group implementations of the model: exact refinement),
  `fsm_errors_exact_intgroup`, `fsm_errors_exact_edgroup` (the three guard exceptions occur *exactly*
  when the automaton says), `fsm_errors_forced` (every group: they occur whenever it says).

**Assumed / remarks.**
* `scalar_constant` needs password and identities to be byte strings (they travel hex-encoded
  through a restore) and the group contract (`scalarDec ∘ scalarEnc = id` on `[0,q)`,
  `random_scalar` in range); the parameter set is arbitrary.
* "finish() before start() raises": on the real code the exception is `AttributeError` after the
  flag has been set; the model mirrors that (the instance is consumed).
* `Json.parse` is the model's parser (trusted correspondence with `json.loads`).
-/
namespace Spake2Verif.C07
open Spake2Model Spake2Model.Gen Spake2Model.History Spake2Model.Serialize Spake2Verif.PropAux

/-- **`start` at most once.**  For every initial instance and every history:
1. every `start` after an earlier `start` (successful or not) returns `OnlyCallStartOnce`;
2. at most one `start` returns a message;
3. every `start` after a successful `restore` returns `OnlyCallStartOnce` (a restored instance
   never starts). -/
theorem start_once {G : Group} (i : Inst G) (ops : List HOp) :
    (∀ j k : Nat, j < k → ops[j]? = some .start → ops[k]? = some .start →
      (runHist i ops).2[k]? = some (.error .OnlyCallStartOnce)) ∧
    (∀ (j k : Nat) (b b' : Bytes), ops[j]? = some .start → ops[k]? = some .start →
      (runHist i ops).2[j]? = some (.ok b) → (runHist i ops).2[k]? = some (.ok b') → j = k) ∧
    (∀ (j k : Nat) (d : Bytes), j < k → ops[j]? = some .restore →
      (runHist i ops).2[j]? = some (.ok d) →
      ops[k]? = some .start → (runHist i ops).2[k]? = some (.error .OnlyCallStartOnce)) :=
  History.start_once i ops

/-- **`finish` at most once per instance object.**  After any `finish` call (succeeding or failing,
e.g. with `OffSides`, a decoding error or `ReflectionThwarted`), every later `finish` on the same
object -- i.e. with no successful `restore` in between -- returns `OnlyCallFinishOnce`. -/
theorem finish_once {G : Group} (i : Inst G) (ops : List HOp) (j k : Nat) (m m' : Bytes)
    (hjk : j < k) (hj : ops[j]? = some (.finish m)) (hk : ops[k]? = some (.finish m'))
    (hno : ∀ (l : Nat) (d : Bytes), j < l → l < k → ops[l]? = some .restore →
      (runHist i ops).2[l]? ≠ some (.ok d)) :
    (runHist i ops).2[k]? = some (.error .OnlyCallFinishOnce) :=
  History.finish_once i ops j k m m' hjk hj hk hno

/-- at most one `finish` returns a key on one instance object (a history without successful
`restore`) -/
theorem finish_ok_once {G : Group} (i : Inst G) (ops : List HOp) (j k : Nat)
    (m m' key key' : Bytes)
    (hj : ops[j]? = some (.finish m)) (hk : ops[k]? = some (.finish m'))
    (hoj : (runHist i ops).2[j]? = some (.ok key)) (hok : (runHist i ops).2[k]? = some (.ok key'))
    (hno : ∀ (l : Nat) (d : Bytes), ops[l]? = some .restore → (runHist i ops).2[l]? ≠ some (.ok d)) :
    j = k :=
  History.finish_ok_once i ops j k m m' key key' hj hk hoj hok hno

/-- **`finished` is not part of the serialised state** (the per-object reading made visible): right
after a successful `restore` the instance in use is started, *unfinished* and has no inbound
message -- even if the serialised object had been finished -- and a `finish` issued next is not
stopped by the finish-once guard but runs `_extract_message` and the key computation. -/
theorem restore_resets_finished {G : Group} (i : Inst G) (ops : List HOp) (k : Nat) (d : Bytes)
    (hk : ops[k]? = some .restore) (ho : (runHist i ops).2[k]? = some (.ok d)) :
    (stateAt i ops (k + 1)).finished = false ∧ (stateAt i ops (k + 1)).started = true ∧
    (stateAt i ops (k + 1)).inbound = none ∧
    ∀ m, ops[k + 1]? = some (.finish m) →
      (runHist i ops).2[k + 1]? = some
        (match extractMessage (stateAt i ops (k + 1)).side m with
         | .error e => .error e
         | .ok inb => ({ stateAt i ops (k + 1) with finished := true, inbound := some inb } :
              Inst G).finishKey inb) :=
  History.restore_resets_finished i ops k d hk ho

/-- **`serialize` (and `restore`) before any `start` returns `SerializedTooEarly`** (freshly
constructed instance, any calls other than `start` before) -/
theorem early_calls {G : Group} (side : Side) (pw idA idB : Bytes) (params : Params G)
    (ent : Entropy) (ops : List HOp) (k : Nat) (hno : ∀ j : Nat, j < k → ops[j]? ≠ some .start) :
    (ops[k]? = some .serialize →
      (runHist (Inst.new side pw idA idB params ent) ops).2[k]? = some (.error .SerializedTooEarly)) ∧
    (ops[k]? = some .restore →
      (runHist (Inst.new side pw idA idB params ent) ops).2[k]? = some (.error .SerializedTooEarly)) :=
  History.early_calls side pw idA idB params ent ops k hno

/-- **`finish` before `start` never returns a key** (it raises) -/
theorem finish_before_start_not_ok {G : Group} (side : Side) (pw idA idB : Bytes)
    (params : Params G) (ent : Entropy) (ops : List HOp) (k : Nat) (m : Bytes)
    (hno : ∀ j : Nat, j < k → ops[j]? ≠ some .start) (hk : ops[k]? = some (.finish m))
    (key : Bytes) :
    (runHist (Inst.new side pw idA idB params ent) ops).2[k]? ≠ some (.ok key) :=
  History.finish_before_start_not_ok side pw idA idB params ent ops k m hno hk key

/-- **once set, the scalar never changes on the same instance object** (every group object; no
successful restore between the two positions; `NoScalarYet`: an unstarted record has no scalar,
true of every freshly constructed instance) -/
theorem scalar_constant_same_object {G : Group} (i : Inst G) (hi : NoScalarYet i) (ops : List HOp)
    {j k : Nat} {x : Int} (hjk : j ≤ k) (hk : k ≤ ops.length)
    (hno : ∀ (l : Nat) (d : Bytes), j ≤ l → l < k → ops[l]? = some .restore →
      (runHist i ops).2[l]? ≠ some (.ok d))
    (hx : (stateAt i ops j).xyScalar = some x) : (stateAt i ops k).xyScalar = some x :=
  History.scalar_constant_no_restore i hi ops hjk hk hx hno

/-- **the secret scalar is constant over the whole history, restores included**: for a freshly
constructed instance with byte-string password and identities, if the record in use before call `j`
holds the scalar `x`, so does the record in use before every later call `k` (whatever calls,
failures, serialisations and restorations lie in between) -/
theorem scalar_constant {G : Group} (S : GroupSpec G) (hsc : ScalarEncBytes G)
    (side : Side) (pw idA idB : Bytes) (params : Params G) (ent : Entropy)
    (hpw : IsBytes pw) (hA : IsBytes idA) (hB : IsBytes idB) (ops : List HOp) {j k : Nat}
    {x : Int} (hjk : j ≤ k) (hk : k ≤ ops.length)
    (hx : (stateAt (Inst.new side pw idA idB params ent) ops j).xyScalar = some x) :
    (stateAt (Inst.new side pw idA idB params ent) ops k).xyScalar = some x :=
  PropAux.scalar_constant_spec S hsc side pw idA idB params ent hpw hA hB ops hjk hk hx

/-- `scalar_constant` for every integer group `IntegerGroup(p, q, g)` the constructor accepts (no primality assumption). -/
theorem scalar_constant_intgroup (IP : IntGroupParams) (hp : 1 < IP.p) (hq : 0 < IP.q) (hg : 0 < IP.g ∧ IP.g < IP.p)
    (hctor : IntGroup.ctor_ok IP.p IP.q IP.g = true)
    (side : Side) (pw idA idB : Bytes) (params : Params (intGroup IP)) (ent : Entropy)
    (hpw : IsBytes pw) (hA : IsBytes idA) (hB : IsBytes idB) (ops : List HOp) {j k : Nat}
    {x : Int} (hjk : j ≤ k) (hk : k ≤ ops.length)
    (hx : (stateAt (Inst.new side pw idA idB params ent) ops j).xyScalar = some x) :
    (stateAt (Inst.new side pw idA idB params ent) ops k).xyScalar = some x :=
  C07.scalar_constant (G := (intGroup IP)) (intGroupSpec IP hp hq hg hctor) (scalarEncBytes_intGroup _) side pw idA idB params ent hpw hA hB ops hjk hk hx

/-- `scalar_constant` for the shipped 1024-bit integer group (generated constants). -/
theorem scalar_constant_1024 
    (side : Side) (pw idA idB : Bytes) (params : Params G1024) (ent : Entropy)
    (hpw : IsBytes pw) (hA : IsBytes idA) (hB : IsBytes idB) (ops : List HOp) {j k : Nat}
    {x : Int} (hjk : j ≤ k) (hk : k ≤ ops.length)
    (hx : (stateAt (Inst.new side pw idA idB params ent) ops j).xyScalar = some x) :
    (stateAt (Inst.new side pw idA idB params ent) ops k).xyScalar = some x :=
  C07.scalar_constant (G := G1024) spec1024 (scalarEncBytes_intGroup _) side pw idA idB params ent hpw hA hB ops hjk hk hx

/-- `scalar_constant` for the shipped 2048-bit integer group (generated constants). -/
theorem scalar_constant_2048 
    (side : Side) (pw idA idB : Bytes) (params : Params G2048) (ent : Entropy)
    (hpw : IsBytes pw) (hA : IsBytes idA) (hB : IsBytes idB) (ops : List HOp) {j k : Nat}
    {x : Int} (hjk : j ≤ k) (hk : k ≤ ops.length)
    (hx : (stateAt (Inst.new side pw idA idB params ent) ops j).xyScalar = some x) :
    (stateAt (Inst.new side pw idA idB params ent) ops k).xyScalar = some x :=
  C07.scalar_constant (G := G2048) spec2048 (scalarEncBytes_intGroup _) side pw idA idB params ent hpw hA hB ops hjk hk hx

/-- `scalar_constant` for the shipped 3072-bit integer group (generated constants). -/
theorem scalar_constant_3072 
    (side : Side) (pw idA idB : Bytes) (params : Params G3072) (ent : Entropy)
    (hpw : IsBytes pw) (hA : IsBytes idA) (hB : IsBytes idB) (ops : List HOp) {j k : Nat}
    {x : Int} (hjk : j ≤ k) (hk : k ≤ ops.length)
    (hx : (stateAt (Inst.new side pw idA idB params ent) ops j).xyScalar = some x) :
    (stateAt (Inst.new side pw idA idB params ent) ops k).xyScalar = some x :=
  C07.scalar_constant (G := G3072) spec3072 (scalarEncBytes_intGroup _) side pw idA idB params ent hpw hA hB ops hjk hk hx

/-- `scalar_constant` for Ed25519 with the constants generated from the current source. -/
theorem scalar_constant_ed25519 
    (side : Side) (pw idA idB : Bytes) (params : Params GEd) (ent : Entropy)
    (hpw : IsBytes pw) (hA : IsBytes idA) (hB : IsBytes idB) (ops : List HOp) {j k : Nat}
    {x : Int} (hjk : j ≤ k) (hk : k ≤ ops.length)
    (hx : (stateAt (Inst.new side pw idA idB params ent) ops j).xyScalar = some x) :
    (stateAt (Inst.new side pw idA idB params ent) ops k).xyScalar = some x :=
  C07.scalar_constant (G := GEd) specGen (scalarEncBytes_edGroup _) side pw idA idB params ent hpw hA hB ops hjk hk hx

/-- `scalar_constant` for Ed25519 with the literal RFC 8032 constants. -/
theorem scalar_constant_ed25519_published 
    (side : Side) (pw idA idB : Bytes) (params : Params GEdPub) (ent : Entropy)
    (hpw : IsBytes pw) (hA : IsBytes idA) (hB : IsBytes idB) (ops : List HOp) {j k : Nat}
    {x : Int} (hjk : j ≤ k) (hk : k ≤ ops.length)
    (hx : (stateAt (Inst.new side pw idA idB params ent) ops j).xyScalar = some x) :
    (stateAt (Inst.new side pw idA idB params ent) ops k).xyScalar = some x :=
  C07.scalar_constant (G := GEdPub) specPublished (scalarEncBytes_edGroup _) side pw idA idB params ent hpw hA hB ops hjk hk hx

/-- **the specification automaton**: states are the flag pairs `(started, finished)`; `forced`
gives the outcome class the automaton prescribes (`none`: the call is let through and ends `ok` or
with a non-guard exception), `next` the successor state (a successful `restore` replaces the object
by a started, unfinished one) -/
theorem automaton_table (st : St) (m : Bytes) (c : Cls) :
    forced st .start = (if st.started then some .startOnce else none) ∧
    forced st (.finish m) = (if st.finished then some .finishOnce else none) ∧
    forced st .serialize = (if st.started then none else some .tooEarly) ∧
    forced st .restore = (if st.started then none else some .tooEarly) ∧
    next st .start c = ⟨true, st.finished⟩ ∧
    next st (.finish m) c = ⟨st.started, true⟩ ∧
    next st .serialize c = st ∧
    next st .restore c = (if c = .ok then ⟨true, false⟩ else st) :=
  ⟨rfl, rfl, rfl, rfl, rfl, rfl, rfl, rfl⟩

/-- **refinement, every group object.**  From a freshly constructed instance: the flag pair after
every history (and before every call of it) equals the state of the specification automaton
started in `fresh`; whenever the automaton forces `OnlyCallStartOnce` / `OnlyCallFinishOnce` /
`SerializedTooEarly` the model returns it; `finish` in an unstarted state never returns a key. -/
theorem refines_automaton_any {G : Group} (side : Side) (pw idA idB : Bytes) (params : Params G)
    (ent : Entropy) (ops : List HOp) :
    let i0 : Inst G := Inst.new side pw idA idB params ent
    flags (runHist i0 ops).1 = specRun St.fresh (trace i0 ops) ∧
    (∀ k, flags (stateAt i0 ops k) = specRun St.fresh ((trace i0 ops).take k)) ∧
    Accepts AllowedWeak St.fresh (trace i0 ops) :=
  History.refines_automaton_any side pw idA idB params ent ops

/-- **exact refinement for every integer group** (any `(p, q, g)`, no hypothesis): the trace of
every history of a freshly constructed instance is a run of the specification automaton -/
theorem refines_automaton_intgroup (IP : IntGroupParams) (side : Side) (pw idA idB : Bytes)
    (params : Params (intGroup IP)) (ent : Entropy) (ops : List HOp) :
    let i0 : Inst (intGroup IP) := Inst.new side pw idA idB params ent
    flags (runHist i0 ops).1 = specRun St.fresh (trace i0 ops) ∧
    (∀ k, flags (stateAt i0 ops k) = specRun St.fresh ((trace i0 ops).take k)) ∧
    Accepts Allowed St.fresh (trace i0 ops) :=
  History.refines_automaton side pw idA idB params ent (intGroup_quiet IP) ops

/-- **exact refinement for the Ed25519 group over every curve record** (in particular the generated
and the published constants) -/
theorem refines_automaton_edgroup (c : Curve) (side : Side) (pw idA idB : Bytes)
    (params : Params (edGroup c)) (ent : Entropy) (ops : List HOp) :
    let i0 : Inst (edGroup c) := Inst.new side pw idA idB params ent
    flags (runHist i0 ops).1 = specRun St.fresh (trace i0 ops) ∧
    (∀ k, flags (stateAt i0 ops k) = specRun St.fresh ((trace i0 ops).take k)) ∧
    Accepts Allowed St.fresh (trace i0 ops) :=
  History.refines_automaton side pw idA idB params ent (edGroup_quiet c) ops

/-- **the three guard exceptions occur exactly when the automaton says so** (integer groups): at
every position `k` of every history, with `st` the automaton state before call `k`,
`OnlyCallStartOnce` ⇔ the call is `start` and `st` is started; `OnlyCallFinishOnce` ⇔ the call is
`finish` and `st` is finished; `SerializedTooEarly` ⇔ the call is `serialize`/`restore` and `st`
is not started. -/
theorem fsm_errors_exact_intgroup (IP : IntGroupParams) (side : Side) (pw idA idB : Bytes)
    (params : Params (intGroup IP)) (ent : Entropy) (ops : List HOp) (k : Nat) (op : HOp)
    (o : R Bytes) (hop : ops[k]? = some op)
    (ho : (runHist (Inst.new side pw idA idB params ent) ops).2[k]? = some o) :
    let st := specRun St.fresh ((trace (Inst.new side pw idA idB params ent) ops).take k)
    (o = .error .OnlyCallStartOnce ↔ op = .start ∧ st.started = true) ∧
    (o = .error .OnlyCallFinishOnce ↔ (∃ m, op = .finish m) ∧ st.finished = true) ∧
    (o = .error .SerializedTooEarly ↔ (op = .serialize ∨ op = .restore) ∧ st.started = false) :=
  History.fsm_errors_exact side pw idA idB params ent (intGroup_quiet IP) ops k op o hop ho

/-- the same for the Ed25519 group over every curve record -/
theorem fsm_errors_exact_edgroup (c : Curve) (side : Side) (pw idA idB : Bytes)
    (params : Params (edGroup c)) (ent : Entropy) (ops : List HOp) (k : Nat) (op : HOp)
    (o : R Bytes) (hop : ops[k]? = some op)
    (ho : (runHist (Inst.new side pw idA idB params ent) ops).2[k]? = some o) :
    let st := specRun St.fresh ((trace (Inst.new side pw idA idB params ent) ops).take k)
    (o = .error .OnlyCallStartOnce ↔ op = .start ∧ st.started = true) ∧
    (o = .error .OnlyCallFinishOnce ↔ (∃ m, op = .finish m) ∧ st.finished = true) ∧
    (o = .error .SerializedTooEarly ↔ (op = .serialize ∨ op = .restore) ∧ st.started = false) :=
  History.fsm_errors_exact side pw idA idB params ent (edGroup_quiet c) ops k op o hop ho

/-- every group object: the guard exceptions are raised whenever the automaton prescribes them -/
theorem fsm_errors_forced {G : Group} (side : Side) (pw idA idB : Bytes) (params : Params G)
    (ent : Entropy) (ops : List HOp) (k : Nat) (op : HOp) (hop : ops[k]? = some op) :
    let i0 : Inst G := Inst.new side pw idA idB params ent
    let st := specRun St.fresh ((trace i0 ops).take k)
    (op = .start → st.started = true → (runHist i0 ops).2[k]? = some (.error .OnlyCallStartOnce)) ∧
    ((∃ m, op = .finish m) → st.finished = true →
      (runHist i0 ops).2[k]? = some (.error .OnlyCallFinishOnce)) ∧
    ((op = .serialize ∨ op = .restore) → st.started = false →
      (runHist i0 ops).2[k]? = some (.error .SerializedTooEarly)) :=
  History.fsm_errors_forced side pw idA idB params ent ops k op hop

/-! ### non-vacuity -/

/-- a concrete toy history evaluated in the kernel.  It exercises every clause: `serialize` too
early; `finish` before `start` (raises, consumes the object); `start` ok; second `start` refused;
`finish` now refused by the finish-once guard; `serialize` ok; `restore` ok; `start` on the
restored instance refused; **`finish` on the restored instance returns a key** (the per-object
reading: `_finished` is not serialised); a further `finish` refused. -/
example :
    (runHist (Inst.new (G := toyG) .A [1] [1] [2] toyParams ⟨[4]⟩)
      [.serialize, .finish [66, 1], .start, .start, .finish [66, 2], .serialize, .restore, .start,
       .finish [66, 2], .finish [66, 2]]).2.map classOf =
    [.tooEarly, .other, .ok, .startOnce, .finishOnce, .ok, .ok, .startOnce, .ok, .finishOnce] := by
  decide +kernel

/-- in that history the hypotheses of `restore_resets_finished` hold at position 6 -/
example : ∃ d,
    (runHist (Inst.new (G := toyG) .A [1] [1] [2] toyParams ⟨[4]⟩)
      [.serialize, .finish [66, 1], .start, .start, .finish [66, 2], .serialize, .restore, .start,
       .finish [66, 2], .finish [66, 2]]).2[6]? = some (.ok d) :=
  ⟨((runHist (Inst.new (G := toyG) .A [1] [1] [2] toyParams ⟨[4]⟩)
      [.serialize, .finish [66, 1], .start, .start, .finish [66, 2], .serialize, .restore, .start,
       .finish [66, 2], .finish [66, 2]]).2[6]?.bind Except.toOption).getD [], by decide +kernel⟩

/-- the hypothesis of `scalar_constant` is satisfiable and the scalar survives the restore: before
call 3 and before call 9 of that history the record in use holds the scalar 4 -/
example :
    (stateAt (Inst.new (G := toyG) .A [1] [1] [2] toyParams ⟨[4]⟩)
      [.serialize, .finish [66, 1], .start, .start, .finish [66, 2], .serialize, .restore, .start,
       .finish [66, 2], .finish [66, 2]] 3).xyScalar = some 4 ∧
    (stateAt (Inst.new (G := toyG) .A [1] [1] [2] toyParams ⟨[4]⟩)
      [.serialize, .finish [66, 1], .start, .start, .finish [66, 2], .serialize, .restore, .start,
       .finish [66, 2], .finish [66, 2]] 9).xyScalar = some 4 := by
  constructor <;> decide +kernel

/-- Tie A: the single-use state machine reasoned about above is that of the *source* -- `start`, `finish`, the guard
of `serialize` and the restore path equal the translation of the method bodies (each flag is tested, then set, before
any other effect; `serialize` only tests `_started`; restore sets `_started`), and `__init__` leaves both flags `False` -/
theorem state_machine_is_the_source {G : Group} :
    @Inst.start G = ProtoFlowTie.flowStart ∧ @Inst.finish G = ProtoFlowTie.flowFinish ∧
    (fun i : Inst G => (i, i.serialize)) = ProtoFlowTie.flowSerialize ∧
    @fromDict G = ProtoFlowTie.flowRestore ∧
    (∀ (side : Side) (pw idA idB : Bytes) (params : Params G) (ent : Entropy),
      (Inst.new side pw idA idB params ent).started = Spake2Model.Gen.ProtoFlow.init_started ∧
      (Inst.new side pw idA idB params ent).finished = Spake2Model.Gen.ProtoFlow.init_finished) :=
  ⟨ProtoFlowTie.start_is_source, ProtoFlowTie.finish_is_source, ProtoFlowTie.serialize_is_source,
    ProtoFlowTie.restore_is_source, ProtoFlowTie.init_flags_tie⟩

end Spake2Verif.C07
