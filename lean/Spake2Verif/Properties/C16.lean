import Spake2Verif.Proofs.Isolation
/-!
# C16 — Sessions are pure and isolated under any interleaving

Statement (properties.jsonl):
"The message and key produced by a session are a function only of that session's own constructor arguments, the bytes its
entropy function returned and the message it received: they are identical whenever these are identical, and are unaffected
by how many other sessions (any role, password, parameter set) exist or how their calls interleave with it, on one thread
or on many.  Running sessions never modifies the shared parameter-set and group objects."

Model.  `Sys G` (Spake2Model/Model/System.lean) is a multi-session system over one group object `G` and one table of
parameter sets: an association list of sessions keyed by a session id and an association list of parameter sets keyed by a
parameter id.  `Sys.step s sid op` applies one of the five API operations (`new`, `start`, `finish msg`, `serialize`,
`restore blob`) to session `sid`, built only from `Inst.new / start / finish / serialize / fromSerialized`; `Sys.run` folds a
schedule — an arbitrary list of `(sid, op)` — and collects the outputs tagged by session id.  The theorems hold for **every**
`G : Group` (no assumption on the group operations) and every schedule.

Clause → theorem
* a step of session `sid` reads/writes only component `sid` (and reads the table)   : `step_local`, `step_depends_only_on_own`, `step_congr`,
                                                                                       `step_is_local_function` (output and new value are an explicit
                                                                                       function `localStep` of the session's old value and the table)
* the shared parameter table is never modified                                       : `params_immutable` (one step), `run_params_immutable` (any schedule);
  a session's own reference to its parameter set is never changed by `start`/`finish` : `session_keeps_params`
* unaffected by other sessions and by the interleaving                               : `interleaving_independent` (outputs and final state of `sid` = those of
                                                                                       running `sid`'s own subsequence alone), `interleavings_agree` (two
                                                                                       schedules with the same per-session subsequences agree for every session)
* identical inputs ⇒ identical message and key                                       : `deterministic` (equal table, equal initial value, equal operation sequence —
                                                                                       i.e. equal constructor arguments, entropy bytes, inbound messages, restored
                                                                                       blobs — give equal outputs, whatever the session ids, the other sessions and the
                                                                                       interleavings), `deterministic_session` (the explicit new/start/finish instance)

Assumed / partial — **this property is decided only partially by theorems**
* **Multi-threaded executions are argued, not proved.**  A Lean theorem cannot exhibit CPython thread scheduling.  The
  theorems cover every *atomic interleaving* of API calls (all schedules, unboundedly many sessions).  The step from
  there to threads is an argument: the translator's write analysis lists every attribute/global store in
  `src/spake2/*.py` and checks that each is `self.<attr>` inside a session method or a module-level constant definition (no
  shared mutable state), and the harness snapshots `Base/Zero/M/N/S` and the `__dict__`s of the shared objects before/after;
  from "no shared mutable state" a multi-threaded execution is, per session, equivalent to an atomic interleaving.  The
  thorough tier runs 16-thread executions as supporting evidence — a test.
* The group object `G` and the parameter sets are immutable values in the model by construction; that the Python objects
  behind them are not mutated is what the write analysis and the snapshots check.
* The entropy function of the model is a per-session byte stream (field `entropy`); a Python `entropy_f` shared between
  sessions (e.g. `os.urandom`) is outside the statement ("the bytes its entropy function returned" are then the inputs).
-/
namespace Spake2Verif.C16
open Spake2Model Spake2Model.Isolation

variable {G : Group}

/-- **a step on `sid` leaves every other session unchanged** -/
theorem step_local (s : Sys G) (sid : Nat) (op : SOp) {sid' : Nat} (h : sid' ≠ sid) :
    (s.step sid op).1.session sid' = s.session sid' :=
  Isolation.step_local s sid op h

/-- **a step never changes the parameter table** -/
theorem params_immutable (s : Sys G) (sid : Nat) (op : SOp) : (s.step sid op).1.params = s.params :=
  Isolation.params_immutable s sid op

/-- no schedule changes the parameter table -/
theorem run_params_immutable (s : Sys G) (sched : List (Nat × SOp)) : (s.run sched).1.params = s.params :=
  Isolation.run_params s sched

/-- `start()` and `finish()` keep the session's reference to its parameter set, its side, identities and password -/
theorem session_keeps_params (i : Inst G) (msg : Bytes) :
    (i.start.1.params = i.params ∧ i.start.1.side = i.side ∧ i.start.1.pw = i.pw ∧
      i.start.1.idA = i.idA ∧ i.start.1.idB = i.idB) ∧
    ((i.finish msg).1.params = i.params ∧ (i.finish msg).1.side = i.side ∧ (i.finish msg).1.pw = i.pw ∧
      (i.finish msg).1.idA = i.idA ∧ (i.finish msg).1.idB = i.idB) := by
  constructor
  · unfold Inst.start
    cases hs : i.started
    · simp only [Bool.false_eq_true, if_false]
      cases hr : G.randomScalar i.entropy with
      | error e => exact ⟨rfl, rfl, rfl, rfl, rfl⟩
      | ok xe =>
        obtain ⟨x, ent⟩ := xe
        simp only []
        split <;> exact ⟨rfl, rfl, rfl, rfl, rfl⟩
    · simp only [if_true]
      exact ⟨trivial, trivial, trivial, trivial, trivial⟩
  · unfold Inst.finish
    cases hf : i.finished
    · simp only [Bool.false_eq_true, if_false]
      cases extractMessage i.side msg with
      | error e => exact ⟨rfl, rfl, rfl, rfl, rfl⟩
      | ok inb => exact ⟨rfl, rfl, rfl, rfl, rfl⟩
    · simp only [if_true]
      exact ⟨trivial, trivial, trivial, trivial, trivial⟩

/-- output and new value of session `sid` are the explicit function `localStep` of (old value of `sid`, table) -/
theorem step_is_local_function (s : Sys G) (sid : Nat) (op : SOp) :
    (s.step sid op).2 = (localStep (s.session sid) s.params op).2 ∧
    (s.step sid op).1.session sid = (localStep (s.session sid) s.params op).1 :=
  step_eq_localStep s sid op

/-- two systems (two session ids) agreeing on the session's value and on the table give the same output and the same
new value -/
theorem step_congr {s₁ s₂ : Sys G} {sid₁ sid₂ : Nat} (op : SOp)
    (hs : s₁.session sid₁ = s₂.session sid₂) (hp : s₁.params = s₂.params) :
    (s₁.step sid₁ op).2 = (s₂.step sid₂ op).2 ∧
    (s₁.step sid₁ op).1.session sid₁ = (s₂.step sid₂ op).1.session sid₂ :=
  Isolation.step_congr op hs hp

/-- the same with one session id: the other sessions of the two systems may differ arbitrarily -/
theorem step_depends_only_on_own {s₁ s₂ : Sys G} {sid : Nat} (op : SOp)
    (hs : alookup sid s₁.sessions = alookup sid s₂.sessions) (hp : s₁.params = s₂.params) :
    (s₁.step sid op).2 = (s₂.step sid op).2 ∧
    alookup sid (s₁.step sid op).1.sessions = alookup sid (s₂.step sid op).1.sessions :=
  Isolation.step_depends_only_on_own op hs hp

/-- **interleaving independence**: in every schedule, the outputs (messages, keys, serialised states, errors) and the
final state of session `sid` are those of running `sid`'s own subsequence alone -/
theorem interleaving_independent (s : Sys G) (sched : List (Nat × SOp)) (sid : Nat) :
    outputsOf sid (s.run sched).2 = outputsOf sid (s.run (sched.filter (fun a => a.1 = sid))).2 ∧
    (s.run sched).2.filter (fun p => p.1 = sid) = (s.run (sched.filter (fun a => a.1 = sid))).2 ∧
    alookup sid (s.run sched).1.sessions
      = alookup sid (s.run (sched.filter (fun a => a.1 = sid))).1.sessions :=
  Isolation.interleaving_independent s sched sid

/-- **all interleavings agree**: two schedules with the same per-session subsequences give every session the same
outputs and the same final state -/
theorem interleavings_agree (s : Sys G) (sched₁ sched₂ : List (Nat × SOp))
    (h : ∀ sid, sched₁.filter (fun a => a.1 = sid) = sched₂.filter (fun a => a.1 = sid)) (sid : Nat) :
    outputsOf sid (s.run sched₁).2 = outputsOf sid (s.run sched₂).2 ∧
    alookup sid (s.run sched₁).1.sessions = alookup sid (s.run sched₂).1.sessions :=
  Isolation.interleavings_agree s sched₁ sched₂ h sid

/-- **purity / determinism**: a session's outputs are a function of the parameter table, its initial value and the
sequence of operations applied to it (constructor arguments, entropy bytes, inbound messages, restored blobs) — not of the
session id, the other sessions or the interleaving -/
theorem deterministic {s₁ s₂ : Sys G} {sid₁ sid₂ : Nat} (sched₁ sched₂ : List (Nat × SOp))
    (hp : s₁.params = s₂.params) (hs : alookup sid₁ s₁.sessions = alookup sid₂ s₂.sessions)
    (hops : (sched₁.filter (fun a => a.1 = sid₁)).map (·.2)
          = (sched₂.filter (fun a => a.1 = sid₂)).map (·.2)) :
    outputsOf sid₁ (s₁.run sched₁).2 = outputsOf sid₂ (s₂.run sched₂).2 ∧
    alookup sid₁ (s₁.run sched₁).1.sessions = alookup sid₂ (s₂.run sched₂).1.sessions :=
  Isolation.deterministic sched₁ sched₂ hp hs hops

/-- the explicit instance: equal constructor arguments, entropy and inbound message ⇒ equal outbound message and key -/
theorem deterministic_session (params : List (Nat × Params G)) (sid₁ sid₂ : Nat)
    (side : Side) (pid : Nat) (pw idA idB : Bytes) (ent : Entropy) (msg : Bytes) :
    ((Sys.init params).run [(sid₁, .new side pid pw idA idB ent), (sid₁, .start), (sid₁, .finish msg)]).2.map (·.2)
    = ((Sys.init params).run [(sid₂, .new side pid pw idA idB ent), (sid₂, .start), (sid₂, .finish msg)]).2.map (·.2) :=
  Isolation.deterministic_session params sid₁ sid₂ side pid pw idA idB ent msg

/-! ### non-vacuity -/

/-- two sessions A (id 1) and B (id 2): running A's three calls first, or interleaved with B's, or after them, gives
session 1 the same message and key -/
example (s : Sys G) (a1 a2 a3 b1 b2 b3 : SOp) :
    outputsOf 1 (s.run [(1, a1), (1, a2), (1, a3), (2, b1), (2, b2), (2, b3)]).2 =
    outputsOf 1 (s.run [(2, b1), (1, a1), (2, b2), (1, a2), (2, b3), (1, a3)]).2 := by
  refine (interleavings_agree s _ _ (fun sid => ?_) 1).1
  by_cases h1 : sid = 1
  · subst h1; simp
  · by_cases h2 : sid = 2
    · subst h2; simp
    · have e1 : (1 = sid) = False := by simp; omega
      have e2 : (2 = sid) = False := by simp; omega
      simp [e1, e2]

end Spake2Verif.C16
