import Spake2Verif.Proofs.RandrangeProofs
import Spake2Verif.Proofs.PropAuxB2
import Spake2Verif.Proofs.PropAuxD
import Spake2Verif.Proofs.GroupShapeTie
/-!
# C11 — Secret scalars are sampled without bias and only from the entropy function

Statement (properties.jsonl):
"start() obtains its secret scalar exclusively from the supplied entropy function and nothing else consumes entropy
(construction, finish(), serialize() and from_serialized() draw none).  For integer groups the scalar is produced by
rejection sampling that is exactly uniform on [0,q) for uniform input bytes - unbiased_randrange(start, stop, f) returns
every value of [start, stop) for exactly the same number of byte inputs, never a value outside it, with at most two
expected draws - and for Ed25519 by reducing 512 fresh bits modulo the group order."

Vocabulary (definitions of `Proofs/RandrangeProofs.lean`, pinned down here by `helper_defs`, `mask_def`,
`bytesOfLen_spec`): for `m = stop - start`, `nb = sizeBytes m` bytes are requested per draw, `maskOf m = 2^k - 1` is the
top-byte mask, `cand mask bs` the masked big-endian value of one chunk, `chunk nb s i` the `i`-th `nb`-byte slice of the
stream `s`, `bytesOfLen n` the finite set of all `256^n` byte strings of length `n`.  The entropy function is the
model's `Entropy` (successive slices of one byte stream).  `Util.generate_mask`, `Util.size_bits`, `Util.size_bytes`,
`Util.randrange_accept`, `Util.randrange_result` are the functions *generated* from util.py.

Clause → theorem
* never a value outside `[start, stop)`                   : `randrange_range`
* mask / bytes per draw from the generated `generate_mask`: `mask_def`, `generate_mask_spec`, `candidate_range`
* one draw: every candidate `< 2^bits` has the same number `2^(8nb-bits)` of pre-images among the `256^nb` chunks
                                                          : `draw_uniform`
* at most two expected draws: `2^bits ≤ 2·maxval`, and at least half of all chunks are accepted
                                                          : `accept_half`, `accept_chunks_half` (acceptance probability ≥ 1/2
                                                            per independent draw ⇒ geometric expectation ≤ 2);
                                                            as counting statements over the `256^(K·nb)` streams of `K` chunks:
                                                            `randrange_undecided_iff` (not returned within `k` draws ⇔ all `k`
                                                            candidates rejected ⇔ `EntropyExhausted`), `randrange_tail_bound`
                                                            (such streams number `(rejecting chunks)^k ≤ (256^nb/2)^k`, a fraction
                                                            `≤ 2^-k`), `randrange_returns_at_iff`, `randrange_returns_at_count`,
                                                            `randrange_expected_draws_le_two` (`∑_{j<K} (j+1)·#{streams returning
                                                            at draw j+1} ≤ 2·256^(K·nb)` for every horizon `K`: the partial
                                                            expectation of the number of draws is at most 2)
* every value for exactly the same number of byte inputs  : `randrange_uniform` (explicit count for every number `k` of draws),
                                                            `randrange_unbiased` (count independent of the value)
* which value / how many bytes are consumed               : `randrange_first_accept`; otherwise `randrange_exhausted`;
                                                            the model's fuel bound is never hit: `randrange_no_fuel`
* integer groups use exactly this sampler on `[0,q)`      : `integer_random_scalar_is_randrange`
* Ed25519 reduces 512 fresh bits mod L                    : `ed_random_scalar_def` (exactly `Gen.Ed.random_scalar_bytes = 64` bytes, once,
                                                            big-endian value mod L), bias `ed25519_sampler_bias` (integers),
                                                            `ed_scalar_bias` (64-byte strings: ⌊2^512/L⌋ or ⌊2^512/L⌋+1 pre-images),
                                                            `ed_scalar_bias_shipped` (the shipped curve)
* entropy only through `start()`                          : `entropy_only_in_start` (constructor stores it; `finish` neither reads nor
                                                            changes it; `serialize` independent of it; restored sessions hold the
                                                            empty stream; `start` passes it once to `G.randomScalar` and stores the
                                                            remainder), `start_depends_only_on_random_scalar`,
                                                            `start_consumption_int`, `start_consumption_ed` (exact number of bytes)
* summary                                                 : `unbiased_randrange_summary` (= `C11_unbiased_randrange`)

Assumed / partial
* "Uniform for uniform input bytes" is a **counting** statement (numbers of byte strings); no probability space is
  formalised.  The Ed25519 sampler is *not* exactly uniform (nor does the property claim so): the bias is bounded by one
  pre-image in `⌊2^512/L⌋ ≈ 2^259`.
* That `os.urandom`/`random`/`secrets` are not called elsewhere in the Python code is a statement about the source text:
  in the model it holds by construction (only `Inst.start` mentions `G.randomScalar`; `G.arb`, `G.p2s`, `G.dec`, … have no
  `Entropy` argument); the tie to the source is the correspondence run, which patches those modules to raise.
* `G.randomScalar` for an abstract `G` is whatever the group supplies; the two shipped kinds are characterised above.
-/
namespace Spake2Verif.C11
open Spake2Model Spake2Model.Gen

/-! ### vocabulary -/

/-- the helper definitions used in the statements below, unfolded -/
theorem helper_defs (mask nb i : Nat) (bs s : Bytes) (m : Int) :
    cand mask bs = beToNat (maskTop mask bs) ∧
    chunk nb s i = (s.drop (i * nb)).take nb ∧
    maskOf m = 2 ^ (sizeBits m - 8 * (sizeBytes m - 1)) - 1 :=
  ⟨rfl, rfl, rfl⟩

/-- `bytesOfLen n` is the set of all byte strings of length `n`; there are `256^n` of them -/
theorem bytesOfLen_spec (n : Nat) :
    (∀ bs, bs ∈ bytesOfLen n ↔ IsBytes bs ∧ bs.length = n) ∧ (bytesOfLen n).card = 256 ^ n :=
  ⟨fun _ => mem_bytesOfLen, card_bytesOfLen n⟩

/-- the generated `generate_mask` returns `(maskOf m, sizeBytes m)` -/
theorem mask_def {m : Int} (h : 0 ≤ m) :
    Util.generate_mask m = ((maskOf m : Int), (sizeBytes m : Int)) :=
  generate_mask_eq h

/-- for `maxval ≥ 1`: mask `2^k - 1`, `nb = size_bytes maxval ≥ 1`, `1 ≤ k ≤ 8`, `8(nb-1)+k = bits` -/
theorem generate_mask_spec (maxval : Int) (h : 1 ≤ maxval) :
    ∃ k : Nat, Util.generate_mask maxval = (((2 ^ k - 1 : Nat) : Int), (sizeBytes maxval : Int)) ∧
      Util.size_bytes maxval = (sizeBytes maxval : Int) ∧ 1 ≤ sizeBytes maxval ∧
      1 ≤ k ∧ k ≤ 8 ∧ 8 * (sizeBytes maxval - 1) + k = sizeBits maxval ∧
      (2 ^ k - 1) + 1 = 2 ^ (sizeBits maxval - 8 * (sizeBytes maxval - 1)) :=
  Spake2Model.generate_mask_spec maxval h

/-- the masked chunk is the big-endian value reduced mod `2^bits` -/
theorem candidate_range (maxval : Int) (h : 1 ≤ maxval) (bs : Bytes) (hb : IsBytes bs)
    (hlen : bs.length = sizeBytes maxval) :
    beToNat (maskTop (Util.generate_mask maxval).1.toNat bs) = beToNat bs % 2 ^ sizeBits maxval ∧
    beToNat (maskTop (Util.generate_mask maxval).1.toNat bs) < 2 ^ sizeBits maxval :=
  Spake2Model.candidate_range maxval h bs hb hlen

/-! ### `unbiased_randrange` -/

/-- **range**: a returned value satisfies `start ≤ v < stop` (every entropy stream, every range) -/
theorem randrange_range {start stop v : Int} {ent ent' : Entropy}
    (h : unbiasedRandrange start stop ent = .ok (v, ent')) : start ≤ v ∧ v < stop :=
  Spake2Model.randrange_range h

/-- **single draw**: each candidate value `c < 2^bits` is produced by exactly `2^(8·nb − bits)` of the chunks -/
theorem draw_uniform {m : Int} (h : 0 ≤ m) {c : Nat} (hc : c < 2 ^ sizeBits m) :
    ((bytesOfLen (sizeBytes m)).filter (fun bs => cand (maskOf m) bs = c)).card =
      2 ^ (8 * sizeBytes m - sizeBits m) :=
  Spake2Model.draw_uniform h hc

/-- **accept ≥ half**: `2^bits ≤ 2·maxval` -/
theorem accept_half {m : Int} (h : 0 < m) : 2 ^ sizeBits m ≤ 2 * m.toNat :=
  Spake2Model.accept_half h

/-- at least half of all `256^nb` chunks are accepted -/
theorem accept_chunks_half {m : Int} (h : 0 < m) :
    256 ^ sizeBytes m ≤
      2 * ((bytesOfLen (sizeBytes m)).filter (fun bs => (cand (maskOf m) bs : Int) < m)).card :=
  PropAuxB.accept_chunks_half h

/-- **first accept**: the value returned is `start + c` for the candidate `c` of the first chunk with
`c < stop - start`; exactly `nb·(j+1)` bytes are consumed -/
theorem randrange_first_accept {start stop : Int} (h : start < stop) (s : Bytes) (j : Nat)
    (hlen : (j + 1) * sizeBytes (stop - start) ≤ s.length)
    (hrej : ∀ i < j, ¬ (cand (maskOf (stop - start)) (chunk (sizeBytes (stop - start)) s i) : Int)
        < stop - start)
    (hacc : (cand (maskOf (stop - start)) (chunk (sizeBytes (stop - start)) s j) : Int)
        < stop - start) :
    unbiasedRandrange start stop ⟨s⟩ =
      .ok (start + (cand (maskOf (stop - start)) (chunk (sizeBytes (stop - start)) s j) : Int),
           ⟨s.drop ((j + 1) * sizeBytes (stop - start))⟩) ∧
    (s.drop ((j + 1) * sizeBytes (stop - start))).length =
      s.length - sizeBytes (stop - start) * (j + 1) :=
  Spake2Model.randrange_first_accept h s j hlen hrej hacc

/-- no acceptable complete chunk ⇒ the entropy source is exhausted (the only failure) -/
theorem randrange_exhausted {start stop : Int} (h : start < stop) (s : Bytes)
    (hrej : ∀ i, (i + 1) * sizeBytes (stop - start) ≤ s.length →
      ¬ (cand (maskOf (stop - start)) (chunk (sizeBytes (stop - start)) s i) : Int) < stop - start) :
    unbiasedRandrange start stop ⟨s⟩ = raise .EntropyExhausted :=
  Spake2Model.randrange_exhausted h s hrej

/-- the fuel bound of the model's loop is never hit -/
theorem randrange_no_fuel {start stop : Int} (h : start < stop) (s : Bytes) :
    unbiasedRandrange start stop ⟨s⟩ ≠ raise .Fuel :=
  Spake2Model.randrange_no_fuel h s

open Classical in
/-- **uniformity over k draws**: the number of `k`-chunk streams on which `start + c` is returned after reading
exactly `k` chunks is `(rejecting chunks)^(k-1) · 2^(8nb-bits)` — an expression without `c` -/
theorem randrange_uniform {start stop : Int} (h : start < stop) (k : Nat) (hk : 1 ≤ k) (c : Nat)
    (hc : (c : Int) < stop - start) :
    ((bytesOfLen (k * sizeBytes (stop - start))).filter (fun s =>
        unbiasedRandrange start stop ⟨s⟩ = .ok (start + (c : Int), ⟨[]⟩))).card =
      ((2 ^ sizeBits (stop - start) - (stop - start).toNat) *
          2 ^ (8 * sizeBytes (stop - start) - sizeBits (stop - start))) ^ (k - 1) *
        2 ^ (8 * sizeBytes (stop - start) - sizeBits (stop - start)) :=
  Spake2Model.randrange_uniform h k hk c hc

open Classical in
/-- **unbiased**: any two values of `[start, stop)` are returned for exactly the same number of byte inputs -/
theorem randrange_unbiased {start stop : Int} (h : start < stop) (k : Nat) (hk : 1 ≤ k) (c c' : Nat)
    (hc : (c : Int) < stop - start) (hc' : (c' : Int) < stop - start) :
    ((bytesOfLen (k * sizeBytes (stop - start))).filter (fun s =>
        unbiasedRandrange start stop ⟨s⟩ = .ok (start + (c : Int), ⟨[]⟩))).card =
    ((bytesOfLen (k * sizeBytes (stop - start))).filter (fun s =>
        unbiasedRandrange start stop ⟨s⟩ = .ok (start + (c' : Int), ⟨[]⟩))).card :=
  Spake2Model.randrange_unbiased h k hk c c' hc hc'

/-- summary (restatement of `C11_unbiased_randrange`) -/
theorem unbiased_randrange_summary {start stop : Int} (h : start < stop) :
    2 ^ sizeBits (stop - start) ≤ 2 * (stop - start).toNat ∧
    (∀ c, c < 2 ^ sizeBits (stop - start) →
      ((bytesOfLen (sizeBytes (stop - start))).filter
        (fun bs => cand (maskOf (stop - start)) bs = c)).card =
        2 ^ (8 * sizeBytes (stop - start) - sizeBits (stop - start))) ∧
    (∀ ent v ent', unbiasedRandrange start stop ent = .ok (v, ent') → start ≤ v ∧ v < stop) ∧
    (∀ s, unbiasedRandrange start stop ⟨s⟩ ≠ raise .Fuel) :=
  C11_unbiased_randrange h

/-! ### the two kinds of group -/

/-- `IntegerGroup.random_scalar = unbiased_randrange(0, q, entropy_f)` -/
theorem integer_random_scalar_is_randrange (P : IntGroupParams) (ent : Entropy) :
    (intGroup P).randomScalar ent = unbiasedRandrange 0 P.q ent := rfl

/-- Ed25519 `random_scalar`: exactly `32+32 = 64` bytes are requested, once; the result is their big-endian
value reduced mod `L` -/
theorem ed_random_scalar_def (c : Curve) (ent : Entropy) :
    Ed.random_scalar_bytes = 64 ∧
    (edGroup c).randomScalar ent =
      (if ent.stream.length < 64 then raise .EntropyExhausted
       else .ok ((beToNat (ent.stream.take 64) : Int) % c.L, ⟨ent.stream.drop 64⟩)) :=
  ⟨PropAuxB.random_scalar_bytes_eq, PropAuxB.ed_randomScalar_eq c ent⟩

/-- bias of "reduce a 512-bit integer mod L": every residue has `⌊2^512/L⌋` or `⌊2^512/L⌋+1` pre-images -/
theorem ed25519_sampler_bias (L r : Nat) (hL : 0 < L) (hr : r < L) :
    ((Finset.range (2 ^ 512)).filter (fun n => n % L = r)).card = 2 ^ 512 / L ∨
    ((Finset.range (2 ^ 512)).filter (fun n => n % L = r)).card = 2 ^ 512 / L + 1 :=
  Spake2Model.ed25519_sampler_bias L r hL hr

open Classical in
/-- the same on the 64-byte strings the entropy function can return, through the model's `random_scalar` -/
theorem ed_scalar_bias (c : Curve) (hL : 0 < c.L) (r : Nat) (hr : (r : Int) < c.L) :
    ((bytesOfLen 64).filter (fun s => (edGroup c).randomScalar ⟨s⟩ = .ok ((r : Int), ⟨[]⟩))).card
        = 2 ^ 512 / c.L.toNat ∨
    ((bytesOfLen 64).filter (fun s => (edGroup c).randomScalar ⟨s⟩ = .ok ((r : Int), ⟨[]⟩))).card
        = 2 ^ 512 / c.L.toNat + 1 :=
  PropAuxB.ed_scalar_bias c hL r hr

open Classical in
/-- the shipped curve (`ed25519.L` is `Gen.Ed.L_c`, the constant generated from the source) -/
theorem ed_scalar_bias_shipped (r : Nat) (hr : (r : Int) < ed25519.L) :
    ((bytesOfLen 64).filter (fun s => (edGroup ed25519).randomScalar ⟨s⟩ = .ok ((r : Int), ⟨[]⟩))).card
        = 2 ^ 512 / ed25519.L.toNat ∨
    ((bytesOfLen 64).filter (fun s => (edGroup ed25519).randomScalar ⟨s⟩ = .ok ((r : Int), ⟨[]⟩))).card
        = 2 ^ 512 / ed25519.L.toNat + 1 :=
  PropAuxB.ed_scalar_bias ed25519 (by decide +kernel) r hr

/-! ### entropy is used by `start()` only -/

/-- **entropy only in start** (any group `G`):
1. the constructor stores the entropy function and nothing else depends on it;
2. `finish()` does not change it, and its result and new state do not depend on it;
3. `serialize()` does not depend on it;
4. a restored session holds the empty stream (`from_serialized` has no entropy argument);
5. `start()` leaves it alone when it raises `OnlyCallStartOnce`; otherwise it passes it to `G.randomScalar` exactly once:
   on an error the field is unchanged and the error is re-raised, on success the remainder returned by
   `randomScalar` is stored together with the scalar. -/
theorem entropy_only_in_start {G : Group} (i : Inst G) :
    (∀ side pw idA idB (P : Params G) ent ent',
        (Inst.new side pw idA idB P ent).entropy = ent ∧
        Inst.new side pw idA idB P ent = { Inst.new side pw idA idB P ent' with entropy := ent }) ∧
    (∀ msg, (i.finish msg).1.entropy = i.entropy) ∧
    (∀ e msg, Inst.finish { i with entropy := e } msg =
        ({ (i.finish msg).1 with entropy := e }, (i.finish msg).2)) ∧
    (∀ e, Inst.serialize { i with entropy := e } = i.serialize) ∧
    (∀ side data (P : Params G) i', fromSerialized side data P = .ok i' → i'.entropy = ⟨[]⟩) ∧
    (i.started = true → i.start.1.entropy = i.entropy) ∧
    (i.started = false → ∀ err, G.randomScalar i.entropy = .error err →
        i.start.1.entropy = i.entropy ∧ i.start.2 = .error err) ∧
    (i.started = false → ∀ x ent', G.randomScalar i.entropy = .ok (x, ent') →
        i.start.1.entropy = ent' ∧ i.start.1.xyScalar = some x) :=
  ⟨fun side pw idA idB P ent ent' => PropAuxB.new_entropy side pw idA idB P ent ent',
   fun msg => PropAuxB.finish_entropy i msg,
   fun e msg => PropAuxB.finish_entropy_congr i e msg,
   fun e => serialize_entropy i e,
   fun _ _ _ _ h => PropAuxB.restored_entropy h,
   (PropAuxB.start_entropy i).1, (PropAuxB.start_entropy i).2.1, (PropAuxB.start_entropy i).2.2⟩

/-- `start()` depends on the entropy function only through the scalar `randomScalar` returns: two sources that
yield the same scalar give the same message and the same state up to the remaining stream -/
theorem start_depends_only_on_random_scalar {G : Group} (i : Inst G) (e₁ e₂ : Entropy) {x : Int}
    {r₁ r₂ : Entropy} (h₁ : G.randomScalar e₁ = .ok (x, r₁)) (h₂ : G.randomScalar e₂ = .ok (x, r₂)) :
    (Inst.start { i with entropy := e₁ }).2 = (Inst.start { i with entropy := e₂ }).2 ∧
    (Inst.start { i with entropy := e₁ }).1 =
      { (Inst.start { i with entropy := e₂ }).1 with
          entropy := (Inst.start { i with entropy := e₁ }).1.entropy } :=
  PropAuxB.start_only_via_randomScalar i e₁ e₂ h₁ h₂

/-- integer groups: `start()` consumes exactly `nb·(j+1)` bytes, `j` the index of the first accepted chunk, and
the secret scalar is that chunk's candidate -/
theorem start_consumption_int (P : IntGroupParams) (hq : 0 < P.q) (i : Inst (intGroup P))
    (hs : i.started = false) (j : Nat)
    (hlen : (j + 1) * sizeBytes P.q ≤ i.entropy.stream.length)
    (hrej : ∀ k < j, ¬ (cand (maskOf P.q) (chunk (sizeBytes P.q) i.entropy.stream k) : Int) < P.q)
    (hacc : (cand (maskOf P.q) (chunk (sizeBytes P.q) i.entropy.stream j) : Int) < P.q) :
    i.start.1.entropy = ⟨i.entropy.stream.drop ((j + 1) * sizeBytes P.q)⟩ ∧
    i.start.1.xyScalar = some (cand (maskOf P.q) (chunk (sizeBytes P.q) i.entropy.stream j) : Int) :=
  PropAuxB.start_consumption_int P hq i hs j hlen hrej hacc

/-- Ed25519: `start()` consumes exactly 64 bytes (or raises when fewer are available) -/
theorem start_consumption_ed (c : Curve) (i : Inst (edGroup c)) (hs : i.started = false) :
    (i.entropy.stream.length < 64 → i.start.1.entropy = i.entropy ∧
        i.start.2 = raise .EntropyExhausted) ∧
    (64 ≤ i.entropy.stream.length → i.start.1.entropy = ⟨i.entropy.stream.drop 64⟩ ∧
        i.start.1.xyScalar = some ((beToNat (i.entropy.stream.take 64) : Int) % c.L)) :=
  PropAuxB.start_consumption_ed c i hs

/-! ### non-vacuity -/

/-- range `[0, 11)`: one byte per draw, mask `0x0f`; `0x1f & 0x0f = 15` and `0x2b & 0x0f = 11` are rejected,
`0x03` is accepted, `0x77` is left in the stream -/
example : unbiasedRandrange 0 11 ⟨[0x1f, 0x2b, 0x03, 0x77]⟩ = .ok (3, ⟨[0x77]⟩) := by decide

example : unbiasedRandrange 5 16 ⟨[0x1f, 0x2b]⟩ = raise .EntropyExhausted := by decide

example : Util.generate_mask 11 = (15, 1) ∧ Util.generate_mask 256 = (1, 2) := by decide

/-- the toy group draws its scalar with the sampler above -/
example : (intGroup ⟨23, 11, 2⟩).randomScalar ⟨[0xfa, 0x01]⟩ = .ok (10, ⟨[0x01]⟩) := by decide

/-! ### at most two expected draws (counting over the streams of `K` chunks) -/

/-- on a stream of exactly `k` chunks, "not returned within the first `k` draws" has one meaning: the call raises
`EntropyExhausted` iff all `k` chunk candidates are rejected -/
theorem randrange_undecided_iff {start stop : Int} (h : start < stop) {k : Nat} {s : Bytes}
    (hs : s ∈ bytesOfLen (k * sizeBytes (stop - start))) :
    unbiasedRandrange start stop ⟨s⟩ = raise .EntropyExhausted ↔
      ∀ i < k, ¬ (cand (maskOf (stop - start)) (chunk (sizeBytes (stop - start)) s i) : Int)
        < stop - start :=
  PropAuxD.exhausted_iff h hs

open Classical in
/-- **tail bound**: among the `256^(k·nb)` streams of `k` chunks, those on which `unbiased_randrange` has not returned
within the first `k` draws number exactly `(rejecting chunks)^k`; that is at most `(256^nb / 2)^k`, i.e. at most a
fraction `2^-k` of all streams -/
theorem randrange_tail_bound {start stop : Int} (h : start < stop) (k : Nat) :
    ((bytesOfLen (k * sizeBytes (stop - start))).filter (fun s =>
        unbiasedRandrange start stop ⟨s⟩ = raise .EntropyExhausted)).card =
      ((2 ^ sizeBits (stop - start) - (stop - start).toNat) *
          2 ^ (8 * sizeBytes (stop - start) - sizeBits (stop - start))) ^ k ∧
    ((bytesOfLen (k * sizeBytes (stop - start))).filter (fun s =>
        unbiasedRandrange start stop ⟨s⟩ = raise .EntropyExhausted)).card ≤
      (256 ^ sizeBytes (stop - start) / 2) ^ k ∧
    2 ^ k * ((bytesOfLen (k * sizeBytes (stop - start))).filter (fun s =>
        unbiasedRandrange start stop ⟨s⟩ = raise .EntropyExhausted)).card ≤
      256 ^ (k * sizeBytes (stop - start)) :=
  PropAuxD.randrange_tail_bound h k

/-- on a stream of `K` chunks and for `j < K`: the call returns leaving exactly the bytes after chunk `j` ("returns at
draw `j+1`") iff chunk `j` is the first whose candidate is accepted -/
theorem randrange_returns_at_iff {start stop : Int} (h : start < stop) {K : Nat} {s : Bytes}
    (hs : s ∈ bytesOfLen (K * sizeBytes (stop - start))) {j : Nat} (hj : j < K) :
    (∃ v, unbiasedRandrange start stop ⟨s⟩ =
        .ok (v, ⟨s.drop ((j + 1) * sizeBytes (stop - start))⟩)) ↔
      ((∀ i < j, ¬ (cand (maskOf (stop - start)) (chunk (sizeBytes (stop - start)) s i) : Int)
          < stop - start) ∧
        (cand (maskOf (stop - start)) (chunk (sizeBytes (stop - start)) s j) : Int)
          < stop - start) :=
  PropAuxD.returnsAt_iff h hs hj

open Classical in
/-- the number of `K`-chunk streams on which the call returns at draw `j+1` (`j < K`):
`(rejecting chunks)^j · (accepting chunks) · (256^nb)^(K-1-j)` -/
theorem randrange_returns_at_count {start stop : Int} (h : start < stop) (K j : Nat) (hj : j < K) :
    ((bytesOfLen (K * sizeBytes (stop - start))).filter (fun s =>
        ∃ v, unbiasedRandrange start stop ⟨s⟩ =
          .ok (v, ⟨s.drop ((j + 1) * sizeBytes (stop - start))⟩))).card =
      ((2 ^ sizeBits (stop - start) - (stop - start).toNat) *
          2 ^ (8 * sizeBytes (stop - start) - sizeBits (stop - start))) ^ j *
        ((stop - start).toNat * 2 ^ (8 * sizeBytes (stop - start) - sizeBits (stop - start))) *
        (256 ^ sizeBytes (stop - start)) ^ (K - 1 - j) :=
  PropAuxD.randrange_returnsAt_count h K j hj

open Classical in
/-- **at most two expected draws**: over the `256^(K·nb)` streams of `K` chunks, the sum over the draws `j+1 = 1..K` of
`(j+1) ·` (number of streams on which the call returns exactly at draw `j+1`) is at most `2 · 256^(K·nb)`: the partial
expectation of the number of draws (scaled by the number of streams) is at most 2, for every horizon `K` -/
theorem randrange_expected_draws_le_two {start stop : Int} (h : start < stop) (K : Nat) :
    (∑ j ∈ Finset.range K, (j + 1) *
      ((bytesOfLen (K * sizeBytes (stop - start))).filter (fun s =>
        ∃ v, unbiasedRandrange start stop ⟨s⟩ =
          .ok (v, ⟨s.drop ((j + 1) * sizeBytes (stop - start))⟩))).card) ≤
      2 * 256 ^ (K * sizeBytes (stop - start)) :=
  PropAuxD.randrange_expected_draws_le_two h K

/-- non-vacuity: range `[0, 11)`, two one-byte chunks: `0x1f, 0x2b` are both rejected (exhausted), `0x1f, 0x03` returns at
draw 2 leaving nothing -/
example : unbiasedRandrange 0 11 ⟨[0x1f, 0x2b]⟩ = raise .EntropyExhausted ∧
    unbiasedRandrange 0 11 ⟨[0x1f, 0x03]⟩ = .ok (3, ⟨[]⟩) := by decide

/-! ### Tie A for `random_scalar` of both groups -/

/-- `IntegerGroup.random_scalar` is `unbiased_randrange(0, q, entropy_f)` and the Ed25519 `random_scalar` is one draw of
`32+32` bytes, read big-endian, reduced `% L` (entropy state threaded, nothing else drawn): the translation
`Gen/GroupShape.lean` of the current source -/
theorem random_scalar_is_translated :
    (∀ (P : IntGroupParams) (ent : Entropy),
      (intGroup P).randomScalar ent = GroupShape.IntShape.random_scalar GroupShapeTie.modelPrims P.p P.q P.g ent) ∧
    (∀ (c : Curve) (ent : Entropy), (edGroup c).randomScalar ent =
      GroupShape.EdGroupShape.g_random_scalar GroupShapeTie.modelPrims c.Q c.L c.d c.I (Ed25519.zeroPt c) ent) :=
  ⟨GroupShapeTie.int_randomScalar_tie, fun c => (GroupShapeTie.ed_codecs_tie c).2.2.1⟩

end Spake2Verif.C11
