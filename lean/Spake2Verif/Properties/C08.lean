import Spake2Verif.Proofs.PropAuxA
import Spake2Verif.Proofs.History
import Spake2Verif.Proofs.ProtoFlowTie
/-!
# C08 — Persist/restore is transparent at every point between start and finish

**Statement.** "For every started instance, from_serialized(serialize()) - performed any number of
times, at any point between start() and finish() - yields an instance indistinguishable from the
original: it finishes to the same key for every inbound message, raises the same kind of error for
the same bad message (including reflection of the message originally sent), and serializes again
to equivalent data.  serialize() itself needs no entropy, does not change the instance, returns the
same data each time and its output is printable-ASCII JSON."

**Vocabulary.** `Ready S i x ob`: `i` is a started, unfinished session (produced by `start()` or by
`from_serialized`) with secret scalar `x` and outbound encoding `ob`.  `SameSession i i'`: the two
records agree on every field `finish()` and `serialize()` read (side, password, identities,
parameters, password scalar, flags, secret scalar, outbound message).  `RestoredFrom a a'`: `a'` is
`a` after any number (≥ 0) of `from_serialized(serialize())` round trips, same class and parameters.

**Clause → theorem.**
* one round trip succeeds and gives an indistinguishable instance: `restore_transparent`
  (any `Ready` session, hence also an already restored one), `restore_transparent_started`
  (a session produced by `start()`, everything in one statement; instances `_intgroup`, `_1024`,
  `_2048`, `_3072`, `_ed25519`, `_ed25519_published` for parameter sets built by `mkParams`).
  "Finishes to the same key for every inbound message, raises the same kind of error for the same
  bad message" is the single equation `∀ msg, (a'.finish msg).2 = (a.finish msg).2` (results are
  `ok key` or `error e`, so equal results means equal keys *and* equal exceptions; reflection of
  the message originally sent is the instance `msg := m`, also stated separately in
  `C06.own_start_message_refused_restored`).  "Serializes again to equivalent data" is proved as
  *identical* data: `a'.serialize = .ok s`.
* any number of times: `restored_same_session`, `restored_indistinguishable` (induction over
  `RestoredFrom`), and the last conjunct of `restore_transparent_started`.
* `serialize()` needs no entropy: `serialize_needs_no_entropy`; does not change the instance and
  returns the same data each time: `serialize_pure` (in the model `serialize` is a *function*
  `Inst G → R Bytes`; the history step leaves the record unchanged);
  reads only the session fields: `serialize_reads_session_fields`;
  printable ASCII (every byte in 0x20…0x7e) and re-parsable JSON: `serialize_printable`;
  before `start()`: `serialize_too_early`; succeeds on started sessions: `serialize_succeeds`.

**Assumed / remarks.**
* Password and identities must be byte strings (`IsBytes`; Python `bytes` always are) -- they are
  hex-encoded; `serialize()` must have succeeded, which it does as soon as
  `arbitrary_element(b"")` (evaluated by `hash_params()`) does not raise (`serialize_succeeds`; for a
  custom integer group that call can raise, cf. known finding K3).
* Entropy and the `inbound` field are not part of the serialised state; they are not read by
  `finish()`/`serialize()`, so they are not observable (`SameSession` does not mention them).
* `Json.parse` is the model's parser, proved to invert the model's `Json.dumps`; its agreement with
  Python's `json.loads` is trusted / exercised by the correspondence runs.
* "At any point between start() and finish()": a session is only ever in one started-unfinished
  state (no intermediate operations change it, see C07), so "any point" is "any `Ready` session".
-/
namespace Spake2Verif.C08
open Spake2Model Spake2Model.Gen Spake2Verif.PropAux

/-- **C08, one round trip** for any started, unfinished session (fresh or itself restored). -/
theorem restore_transparent {G : Group} (S : GroupSpec G) {i : Inst G} {x : ℤ} {ob s : Bytes}
    (h : Ready S i x ob) (hA : IsBytes i.idA) (hB : IsBytes i.idB) (hpw : IsBytes i.pw)
    (hs : i.serialize = .ok s) :
    ∃ i', fromSerialized i.side s i.params = .ok i' ∧
      SameSession i i' ∧ Ready S i' x ob ∧
      i'.entropy = ⟨[]⟩ ∧ i'.inbound = none ∧ (i.side = .S → i'.idB = []) ∧
      i'.serialize = .ok s ∧ (∀ m, (i'.finish m).2 = (i.finish m).2) :=
  Spake2Verif.restore_transparent S h hA hB hpw hs

/-- **C08 for a session produced by `start()`.**  If `serialize()` returned `s`, then `s` is
printable ASCII, `from_serialized(s)` under the same class and parameters succeeds, the restored
session `a'` is the same session (same `finish()` result -- key or exception -- on every message,
identical `serialize()` output), and so is every `a''` reached by further round trips. -/
theorem restore_transparent_started {G : Group} (S : GroupSpec G) {P : Params G} (hP : ValidParams S P)
    {side : Side} {pw idA idB : Bytes} (hpw : IsBytes pw) (hidA : IsBytes idA) (hidB : IsBytes idB)
    {ent : Entropy} {a : Inst G} {m s : Bytes}
    (hst : (Inst.new side pw idA idB P ent).start = (a, .ok m)) (hs : a.serialize = .ok s) :
    (∀ c ∈ s, 0x20 ≤ c ∧ c ≤ 0x7e) ∧
    ∃ a', fromSerialized side s P = .ok a' ∧ SameSession a a' ∧ a'.serialize = .ok s ∧
      (∀ msg, (a'.finish msg).2 = (a.finish msg).2) ∧
      ∀ a'', RestoredFrom a a'' →
        a''.serialize = .ok s ∧ ∀ msg, (a''.finish msg).2 = (a.finish msg).2 :=
  PropAux.restore_transparent_started S hP hpw hidA hidB hst hs

/-- `restore_transparent_started` for every integer group `IntegerGroup(p, q, g)` the constructor accepts (no primality assumption); the parameter set is any one built by `mkParams` (valid by `arb_valid`). -/
theorem restore_transparent_started_intgroup (IP : IntGroupParams) (hp : 1 < IP.p) (hq : 0 < IP.q) (hg : 0 < IP.g ∧ IP.g < IP.p)
    (hctor : IntGroup.ctor_ok IP.p IP.q IP.g = true)
    {mSeed nSeed sSeed : Bytes} {P : Params (intGroup IP)}
    (hP : mkParams (intGroup IP) mSeed nSeed sSeed = .ok P)
    {side : Side} {pw idA idB : Bytes} (hpw : IsBytes pw) (hidA : IsBytes idA) (hidB : IsBytes idB)
    {ent : Entropy} {a : Inst (intGroup IP)} {m s : Bytes}
    (hst : (Inst.new side pw idA idB P ent).start = (a, .ok m)) (hs : a.serialize = .ok s) :
    (∀ c ∈ s, 0x20 ≤ c ∧ c ≤ 0x7e) ∧
    ∃ a', fromSerialized side s P = .ok a' ∧ SameSession a a' ∧ a'.serialize = .ok s ∧
      (∀ msg, (a'.finish msg).2 = (a.finish msg).2) ∧
      ∀ a'', RestoredFrom a a'' →
        a''.serialize = .ok s ∧ ∀ msg, (a''.finish msg).2 = (a.finish msg).2 :=
  C08.restore_transparent_started (G := (intGroup IP)) (intGroupSpec IP hp hq hg hctor) (PropAux.validParams_of_mkParams _ hP) hpw hidA hidB hst hs

/-- `restore_transparent_started` for the shipped 1024-bit integer group (generated constants); the parameter set is any one built by `mkParams` (valid by `arb_valid`). -/
theorem restore_transparent_started_1024 {mSeed nSeed sSeed : Bytes} {P : Params G1024}
    (hP : mkParams G1024 mSeed nSeed sSeed = .ok P)
    {side : Side} {pw idA idB : Bytes} (hpw : IsBytes pw) (hidA : IsBytes idA) (hidB : IsBytes idB)
    {ent : Entropy} {a : Inst G1024} {m s : Bytes}
    (hst : (Inst.new side pw idA idB P ent).start = (a, .ok m)) (hs : a.serialize = .ok s) :
    (∀ c ∈ s, 0x20 ≤ c ∧ c ≤ 0x7e) ∧
    ∃ a', fromSerialized side s P = .ok a' ∧ SameSession a a' ∧ a'.serialize = .ok s ∧
      (∀ msg, (a'.finish msg).2 = (a.finish msg).2) ∧
      ∀ a'', RestoredFrom a a'' →
        a''.serialize = .ok s ∧ ∀ msg, (a''.finish msg).2 = (a.finish msg).2 :=
  C08.restore_transparent_started (G := G1024) spec1024 (PropAux.validParams_of_mkParams _ hP) hpw hidA hidB hst hs

/-- `restore_transparent_started` for the shipped 2048-bit integer group (generated constants); the parameter set is any one built by `mkParams` (valid by `arb_valid`). -/
theorem restore_transparent_started_2048 {mSeed nSeed sSeed : Bytes} {P : Params G2048}
    (hP : mkParams G2048 mSeed nSeed sSeed = .ok P)
    {side : Side} {pw idA idB : Bytes} (hpw : IsBytes pw) (hidA : IsBytes idA) (hidB : IsBytes idB)
    {ent : Entropy} {a : Inst G2048} {m s : Bytes}
    (hst : (Inst.new side pw idA idB P ent).start = (a, .ok m)) (hs : a.serialize = .ok s) :
    (∀ c ∈ s, 0x20 ≤ c ∧ c ≤ 0x7e) ∧
    ∃ a', fromSerialized side s P = .ok a' ∧ SameSession a a' ∧ a'.serialize = .ok s ∧
      (∀ msg, (a'.finish msg).2 = (a.finish msg).2) ∧
      ∀ a'', RestoredFrom a a'' →
        a''.serialize = .ok s ∧ ∀ msg, (a''.finish msg).2 = (a.finish msg).2 :=
  C08.restore_transparent_started (G := G2048) spec2048 (PropAux.validParams_of_mkParams _ hP) hpw hidA hidB hst hs

/-- `restore_transparent_started` for the shipped 3072-bit integer group (generated constants); the parameter set is any one built by `mkParams` (valid by `arb_valid`). -/
theorem restore_transparent_started_3072 {mSeed nSeed sSeed : Bytes} {P : Params G3072}
    (hP : mkParams G3072 mSeed nSeed sSeed = .ok P)
    {side : Side} {pw idA idB : Bytes} (hpw : IsBytes pw) (hidA : IsBytes idA) (hidB : IsBytes idB)
    {ent : Entropy} {a : Inst G3072} {m s : Bytes}
    (hst : (Inst.new side pw idA idB P ent).start = (a, .ok m)) (hs : a.serialize = .ok s) :
    (∀ c ∈ s, 0x20 ≤ c ∧ c ≤ 0x7e) ∧
    ∃ a', fromSerialized side s P = .ok a' ∧ SameSession a a' ∧ a'.serialize = .ok s ∧
      (∀ msg, (a'.finish msg).2 = (a.finish msg).2) ∧
      ∀ a'', RestoredFrom a a'' →
        a''.serialize = .ok s ∧ ∀ msg, (a''.finish msg).2 = (a.finish msg).2 :=
  C08.restore_transparent_started (G := G3072) spec3072 (PropAux.validParams_of_mkParams _ hP) hpw hidA hidB hst hs

/-- `restore_transparent_started` for Ed25519 with the constants generated from the current source; the parameter set is any one built by `mkParams` (valid by `arb_valid`). -/
theorem restore_transparent_started_ed25519 {mSeed nSeed sSeed : Bytes} {P : Params GEd}
    (hP : mkParams GEd mSeed nSeed sSeed = .ok P)
    {side : Side} {pw idA idB : Bytes} (hpw : IsBytes pw) (hidA : IsBytes idA) (hidB : IsBytes idB)
    {ent : Entropy} {a : Inst GEd} {m s : Bytes}
    (hst : (Inst.new side pw idA idB P ent).start = (a, .ok m)) (hs : a.serialize = .ok s) :
    (∀ c ∈ s, 0x20 ≤ c ∧ c ≤ 0x7e) ∧
    ∃ a', fromSerialized side s P = .ok a' ∧ SameSession a a' ∧ a'.serialize = .ok s ∧
      (∀ msg, (a'.finish msg).2 = (a.finish msg).2) ∧
      ∀ a'', RestoredFrom a a'' →
        a''.serialize = .ok s ∧ ∀ msg, (a''.finish msg).2 = (a.finish msg).2 :=
  C08.restore_transparent_started (G := GEd) specGen (PropAux.validParams_of_mkParams _ hP) hpw hidA hidB hst hs

/-- `restore_transparent_started` for Ed25519 with the literal RFC 8032 constants; the parameter set is any one built by `mkParams` (valid by `arb_valid`). -/
theorem restore_transparent_started_ed25519_published {mSeed nSeed sSeed : Bytes} {P : Params GEdPub}
    (hP : mkParams GEdPub mSeed nSeed sSeed = .ok P)
    {side : Side} {pw idA idB : Bytes} (hpw : IsBytes pw) (hidA : IsBytes idA) (hidB : IsBytes idB)
    {ent : Entropy} {a : Inst GEdPub} {m s : Bytes}
    (hst : (Inst.new side pw idA idB P ent).start = (a, .ok m)) (hs : a.serialize = .ok s) :
    (∀ c ∈ s, 0x20 ≤ c ∧ c ≤ 0x7e) ∧
    ∃ a', fromSerialized side s P = .ok a' ∧ SameSession a a' ∧ a'.serialize = .ok s ∧
      (∀ msg, (a'.finish msg).2 = (a.finish msg).2) ∧
      ∀ a'', RestoredFrom a a'' →
        a''.serialize = .ok s ∧ ∀ msg, (a''.finish msg).2 = (a.finish msg).2 :=
  C08.restore_transparent_started (G := GEdPub) specPublished (PropAux.validParams_of_mkParams _ hP) hpw hidA hidB hst hs

/-- **any number of round trips**: the restored record still agrees with the original on every
session field -/
theorem restored_same_session {G : Group} (S : GroupSpec G) {i i' : Inst G} {x : ℤ} {ob : Bytes}
    (h : Ready S i x ob) (hA : IsBytes i.idA) (hB : IsBytes i.idB) (hpw : IsBytes i.pw)
    (hr : RestoredFrom i i') : SameSession i i' ∧ IsBytes i'.idB :=
  hr.sameSession S h hA hB hpw

/-- **any number of round trips**: same `finish()` result on every message, same `serialize()`
result, and the restored session is again `Ready` with the same secret and outbound message -/
theorem restored_indistinguishable {G : Group} (S : GroupSpec G) {i i' : Inst G} {x : ℤ}
    {ob : Bytes} (h : Ready S i x ob) (hA : IsBytes i.idA) (hB : IsBytes i.idB)
    (hpw : IsBytes i.pw) (hr : RestoredFrom i i') :
    Ready S i' x ob ∧ (∀ m, (i'.finish m).2 = (i.finish m).2) ∧ i'.serialize = i.serialize :=
  hr.finish_eq S h hA hB hpw

/-- `serialize()` never reads the entropy source -/
theorem serialize_needs_no_entropy {G : Group} (i : Inst G) (e : Entropy) :
    Inst.serialize { i with entropy := e } = i.serialize :=
  Spake2Verif.serialize_entropy i e

/-- `serialize()` does not change the instance and returns the same data each time: as a step of
a call history it leaves the record untouched, so repeated calls return the same result -/
theorem serialize_pure {G : Group} (i : Inst G) :
    History.stepH i .serialize = (i, i.serialize) ∧
    History.runHist i [.serialize, .serialize, .serialize] =
      (i, [i.serialize, i.serialize, i.serialize]) :=
  ⟨rfl, rfl⟩

/-- `serialize()` reads only the fields collected in `SameSession` -/
theorem serialize_reads_session_fields {G : Group} {i i' : Inst G} (h : SameSession i i') :
    i.serialize = i'.serialize :=
  Spake2Verif.serialize_congr h

/-- everything `serialize()` emits is printable ASCII (0x20…0x7e), in particular it passes the
ASCII decoding step of `from_serialized` -/
theorem serialize_printable {G : Group} (S : GroupSpec G) {i : Inst G} {x : ℤ} {ob s : Bytes}
    (h : Ready S i x ob) (hA : IsBytes i.idA) (hB : IsBytes i.idB) (hpw : IsBytes i.pw)
    (hs : i.serialize = .ok s) :
    (∀ c ∈ s, 0x20 ≤ c ∧ c ≤ 0x7e) ∧ s.any (· ≥ 128) = false :=
  Spake2Verif.serialize_printable S h hA hB hpw hs

/-- `serialize()` before `start()` raises `SerializedTooEarly` -/
theorem serialize_too_early {G : Group} (i : Inst G) (h : i.started = false) :
    i.serialize = .error .SerializedTooEarly :=
  Spake2Verif.serialize_too_early i h

/-- `serialize()` of a started session succeeds as soon as `arbitrary_element(b"")` does not raise -/
theorem serialize_succeeds {G : Group} (S : GroupSpec G) {i : Inst G} {x : ℤ} {ob : Bytes}
    (h : Ready S i x ob) {a0 : G.Elem} (ha : G.arb [] = .ok a0) : ∃ s, i.serialize = .ok s :=
  Spake2Verif.serialize_succeeds S h ha

/-! ### non-vacuity -/

/-- all hypotheses of `restore_transparent_started` hold for a toy symmetric session with binary
password and identity: `start()` and `serialize()` succeed -/
example : ∃ (a : Inst toyG) (m s : Bytes),
    (Inst.new .S [0, 255] [200, 0] [] toyParams ⟨[9]⟩).start = (a, .ok m) ∧
    a.serialize = .ok s := by
  obtain ⟨a, m, hA, -⟩ := toy_start .S [0, 255] [200, 0] [] 9 (by decide)
  obtain ⟨x, ob, -, rd, -⟩ := start_ready toySpec toy_valid hA
  obtain ⟨s, hs⟩ := serialize_succeeds toySpec rd toyG_arb_empty
  exact ⟨a, m, s, hA, hs⟩

/-- … and the theorem then produces a restored session -/
example : ∃ (a a' : Inst toyG) (m s : Bytes),
    (Inst.new .B [0, 255] [200, 0] [3] toyParams ⟨[9]⟩).start = (a, .ok m) ∧
    a.serialize = .ok s ∧ fromSerialized .B s toyParams = .ok a' ∧
    ∀ msg, (a'.finish msg).2 = (a.finish msg).2 := by
  obtain ⟨a, m, hA, -⟩ := toy_start .B [0, 255] [200, 0] [3] 9 (by decide)
  obtain ⟨x, ob, -, rd, -⟩ := start_ready toySpec toy_valid hA
  obtain ⟨s, hs⟩ := serialize_succeeds toySpec rd toyG_arb_empty
  obtain ⟨-, a', h1, -, -, h2, -⟩ := restore_transparent_started toySpec toy_valid
    (by decide) (by decide) (by decide) hA hs
  exact ⟨a, a', m, s, hA, hs, h1, h2⟩

/-- concrete evaluation of `serialize()` on a started toy session (kernel): printable JSON -/
example :
    (Inst.new (G := toyG) .S [1] [7] [] toyParams ⟨[4]⟩).start.1.serialize =
      .ok (asciiOf ("{\"hashed_params\": \"" ++
        String.ofList (((Inst.new (G := toyG) .S [1] [7] [] toyParams ⟨[4]⟩).start.1.hashParams.toOption.getD []).map
          Char.ofNat) ++
        "\", \"side\": \"S\", \"idS\": \"07\", \"password\": \"01\", \"xy_scalar\": \"04\"}")) := by
  decide +kernel

/-- Tie A: `serialize()` (its guard) and both `_deserialize_from_dict` (constructor, checks, `_started = True`,
`bytes_to_scalar`, recomputation of the outbound message) are the translation of the source, as is the `finish()`
that is run on the restored instance -/
theorem persist_restore_are_the_source {G : Group} :
    (fun i : Inst G => (i, i.serialize)) = ProtoFlowTie.flowSerialize ∧
    @fromDict G = ProtoFlowTie.flowRestore ∧ @Inst.finish G = ProtoFlowTie.flowFinish :=
  ⟨ProtoFlowTie.serialize_is_source, ProtoFlowTie.restore_is_source, ProtoFlowTie.finish_is_source⟩

end Spake2Verif.C08
