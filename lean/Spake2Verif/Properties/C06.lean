import Spake2Verif.Proofs.PropAuxA
import Spake2Verif.Proofs.ProtoShapeTie
import Spake2Verif.Proofs.ProtoFlowTie
/-!
# C06 — Side-confusion and reflection are always refused

**Statement.** "finish() never returns a key for a message labelled with the receiver's own side,
with the side of the other protocol flavour (A/B versus S), or with an unknown or missing side
byte; A/B-labelled mismatches raise OffSides.  It never returns a key when the received element
equals the element the instance itself sent (ReflectionThwarted) - in all three classes, for every
parameter set, for fresh and restored instances."

**Vocabulary.** `peerByte side` is the one label a session of that side accepts (`B` for side A,
`A` for side B, `S` for side S); `Consts.sideA/B/S = [65]/[66]/[83]`.  `Ready S i x ob`: started,
unfinished session with secret `x` and outbound element encoding `ob`.

**Clause → theorem.**  The side-byte theorems hold for *every* group object `G : Group` (no
contract needed, hence for every parameter set and every custom group) and every record `i`,
fresh or restored.
* a key is returned only for a message starting with the peer's side byte:
  `finish_key_only_for_peer_byte` (no hypothesis at all), `finish_accepts_iff_peer_byte`.
* own side / other flavour / unknown / missing byte ⇒ error, no key, and *which* error:
  `finish_side` (general), `finish_side_AB` (A/B sessions: always `OffSides`),
  `finish_first_byte_table` (every first byte value `c : ℕ` -- in particular all 256 byte values --
  and the empty message, for the three classes: A/B sessions raise `OffSides` for everything but the
  peer byte; symmetric sessions raise `OffSides` for `A`/`B` and `AssertionError` for every other
  byte except `S` and for the empty message).
* reflection: `no_reflection` (body decodes to an element whose encoding is the own outbound
  message ⇒ `ReflectionThwarted`), `no_reflection_bytes` (body *equal* to the own outbound bytes:
  `ReflectionThwarted` or the decoder's own error, never a key), `own_message_refused` (the own
  element under every label `c`), `own_start_message_refused` (the very message `start()` returned).
* restored instances: `finish_side_restored`, `no_reflection_restored`,
  `own_message_refused_restored` (whatever blob was deserialised), and
  `own_start_message_refused_restored` (the original `start()` message offered to the session after
  any number of serialize/restore round trips).
* the theorems that need the group contract are instantiated (`_intgroup`, `_1024`, `_2048`, `_3072`,
  `_ed25519`, `_ed25519_published`) for parameter sets built by `mkParams`.

**Assumed / remarks.**
* The checks are Python `assert`s / explicit raises; `python -O` (assertions stripped) is outside
  the model.  On side `S` an unknown label is an `AssertionError`, not `OffSides` -- the statement
  only requires `OffSides` for A/B-labelled mismatches, which is what is proved.
* `finish()` consumes the session even when it raises (`finished := true`), see C07.
* `Json.parse` is the model's parser (restored variants); trusted correspondence with `json.loads`.
-/
namespace Spake2Verif.C06
open Spake2Model Spake2Model.Gen Spake2Verif.PropAux

/-- **no key without the peer's label.**  For every group object and every session record (fresh,
restored, started or not): if `finish(msg)` returns a key then the session was unfinished and `msg`
is `peer-side-byte ‖ body`; so the own side byte, the byte of the other flavour, any unknown byte
and the empty message never produce a key. -/
theorem finish_key_only_for_peer_byte {G : Group} (i : Inst G) {msg k : Bytes}
    (h : (i.finish msg).2 = .ok k) :
    i.finished = false ∧ msg.take 1 = peerByte i.side ∧
      ∃ body, msg = peerByte i.side ++ body ∧ extractMessage i.side msg = .ok body :=
  finish_ok_peer_byte i h

/-- the side check lets a message through iff it starts with the peer's side byte -/
theorem finish_accepts_iff_peer_byte (side : Side) (msg : Bytes) :
    (∃ body, extractMessage side msg = .ok body) ↔ msg.take 1 = peerByte side ∧ msg ≠ [] :=
  extract_ok_iff side msg

/-- **C06 (side byte).**  An unfinished session given a message whose first byte is not the peer's
side byte raises -- `OffSides` on sides `A`/`B` and for `A`/`B` bytes on side `S`, `AssertionError`
otherwise -- returns no key, and is consumed. -/
theorem finish_side {G : Group} (i : Inst G) (hf : i.finished = false) {msg : Bytes}
    (h : msg.take 1 ≠ peerByte i.side) :
    ∃ err, i.finish msg = ({ i with finished := true }, .error err) ∧
      (∀ k, (i.finish msg).2 ≠ .ok k) ∧
      (i.side ≠ .S → err = .OffSides) ∧
      (i.side = .S → (msg.take 1 = Consts.sideA ∨ msg.take 1 = Consts.sideB → err = .OffSides) ∧
                     (msg.take 1 ≠ Consts.sideA → msg.take 1 ≠ Consts.sideB →
                        err = .other .AssertionError)) :=
  Spake2Verif.finish_side i hf h

/-- `SPAKE2_A` / `SPAKE2_B`: every message not labelled with the peer's side raises `OffSides` -/
theorem finish_side_AB {G : Group} (i : Inst G) (hf : i.finished = false) (hs : i.side ≠ .S)
    {msg : Bytes} (h : msg.take 1 ≠ peerByte i.side) : (i.finish msg).2 = .error .OffSides :=
  Spake2Verif.finish_side_AB i hf hs h

/-- **all first bytes and the empty message, per class** (`65 = 'A'`, `66 = 'B'`, `83 = 'S'`) -/
theorem finish_first_byte_table {G : Group} (i : Inst G) (hf : i.finished = false) (c : ℕ)
    (rest : Bytes) :
    (i.side = .A → c ≠ 66 → (i.finish (c :: rest)).2 = .error .OffSides) ∧
    (i.side = .B → c ≠ 65 → (i.finish (c :: rest)).2 = .error .OffSides) ∧
    (i.side = .S → c = 65 ∨ c = 66 → (i.finish (c :: rest)).2 = .error .OffSides) ∧
    (i.side = .S → c ≠ 65 → c ≠ 66 → c ≠ 83 →
      (i.finish (c :: rest)).2 = .error (.other .AssertionError)) ∧
    (i.side ≠ .S → (i.finish []).2 = .error .OffSides) ∧
    (i.side = .S → (i.finish []).2 = .error (.other .AssertionError)) := by
  refine ⟨fun hs hc => ?_, fun hs hc => ?_, fun hs hc => ?_, fun hs h1 h2 h3 => ?_,
    fun hs => ?_, fun hs => ?_⟩
  · exact Spake2Verif.finish_side_AB i hf (by simp [hs])
      (by simp [hs, peerByte, Consts.sideB, hc])
  · exact Spake2Verif.finish_side_AB i hf (by simp [hs])
      (by simp [hs, peerByte, Consts.sideA, hc])
  · have : extractMessage i.side (c :: rest) = .error .OffSides := by
      rw [hs]; apply extract_S_offsides
      rcases hc with rfl | rfl <;> simp [Consts.sideA, Consts.sideB]
    rw [finish_extract_error i hf this]
  · have : extractMessage i.side (c :: rest) = .error (.other .AssertionError) := by
      rw [hs]; apply extract_S_assert <;> simp [Consts.sideA, Consts.sideB, Consts.sideS, h1, h2, h3]
    rw [finish_extract_error i hf this]
  · exact Spake2Verif.finish_side_AB i hf hs (by cases i.side <;> simp [peerByte, Consts.sideA, Consts.sideB, Consts.sideS])
  · have : extractMessage i.side [] = .error (.other .AssertionError) := by
      rw [hs]; apply extract_S_assert <;> simp [Consts.sideA, Consts.sideB, Consts.sideS]
    rw [finish_extract_error i hf this]

/-- the message classes named in the statement do fail the label test: the empty message, the own
side byte and `S` (for A/B sessions), and every byte value other than `A`, `B`, `S` -/
theorem wrong_first_byte_examples (side : Side) (rest : Bytes) :
    ([] : Bytes).take 1 ≠ peerByte side ∧
    (side ≠ .S → (side.byte ++ rest).take 1 ≠ peerByte side) ∧
    (side ≠ .S → (Consts.sideS ++ rest).take 1 ≠ peerByte side) ∧
    (∀ c : Nat, c ≠ 65 → c ≠ 66 → c ≠ 83 → (c :: rest).take 1 ≠ peerByte side) :=
  Spake2Verif.wrong_first_byte_examples side rest

/-- **C06 (reflection).**  If the body of an accepted message decodes to an element whose encoding
is the session's own outbound message, `finish()` raises `ReflectionThwarted` (every group object,
fresh or restored session). -/
theorem no_reflection {G : Group} (i : Inst G) (hf : i.finished = false) {ob msg body : Bytes}
    {e : G.Elem} (hob : i.outbound = some ob) (hx : extractMessage i.side msg = .ok body)
    (hd : G.dec body = .ok e) (he : G.enc e = ob) :
    (i.finish msg).2 = .error .ReflectionThwarted ∧ ∀ k, (i.finish msg).2 ≠ .ok k :=
  Spake2Verif.no_reflection i hf hob hx hd he

/-- a body equal to the session's own outbound bytes never produces a key: under the group contract
the decoder either refuses it (Ed25519 when the own element is the identity) or the reflection check fires -/
theorem no_reflection_bytes {G : Group} (S : GroupSpec G)
    (i : Inst G) (hf : i.finished = false)
    {ob msg : Bytes} (hob : i.outbound = some ob) (hb : IsBytes ob)
    (hx : extractMessage i.side msg = .ok ob) :
    ((i.finish msg).2 = .error .ReflectionThwarted ∨ ∃ err, G.dec ob = .error err ∧
        (i.finish msg).2 = .error err) ∧ ∀ k, (i.finish msg).2 ≠ .ok k :=
  Spake2Verif.no_reflection_bytes S i hf hob hb hx

/-- `no_reflection_bytes` for every integer group `IntegerGroup(p, q, g)` the constructor accepts (no primality assumption). -/
theorem no_reflection_bytes_intgroup (IP : IntGroupParams) (hp : 1 < IP.p) (hq : 0 < IP.q) (hg : 0 < IP.g ∧ IP.g < IP.p)
    (hctor : IntGroup.ctor_ok IP.p IP.q IP.g = true)
    (i : Inst (intGroup IP)) (hf : i.finished = false)
    {ob msg : Bytes} (hob : i.outbound = some ob) (hb : IsBytes ob)
    (hx : extractMessage i.side msg = .ok ob) :
    ((i.finish msg).2 = .error .ReflectionThwarted ∨ ∃ err, (intGroup IP).dec ob = .error err ∧
        (i.finish msg).2 = .error err) ∧ ∀ k, (i.finish msg).2 ≠ .ok k :=
  C06.no_reflection_bytes (G := (intGroup IP)) (intGroupSpec IP hp hq hg hctor) i hf hob hb hx

/-- `no_reflection_bytes` for the shipped 1024-bit integer group (generated constants). -/
theorem no_reflection_bytes_1024 
    (i : Inst G1024) (hf : i.finished = false)
    {ob msg : Bytes} (hob : i.outbound = some ob) (hb : IsBytes ob)
    (hx : extractMessage i.side msg = .ok ob) :
    ((i.finish msg).2 = .error .ReflectionThwarted ∨ ∃ err, G1024.dec ob = .error err ∧
        (i.finish msg).2 = .error err) ∧ ∀ k, (i.finish msg).2 ≠ .ok k :=
  C06.no_reflection_bytes (G := G1024) spec1024 i hf hob hb hx

/-- `no_reflection_bytes` for the shipped 2048-bit integer group (generated constants). -/
theorem no_reflection_bytes_2048 
    (i : Inst G2048) (hf : i.finished = false)
    {ob msg : Bytes} (hob : i.outbound = some ob) (hb : IsBytes ob)
    (hx : extractMessage i.side msg = .ok ob) :
    ((i.finish msg).2 = .error .ReflectionThwarted ∨ ∃ err, G2048.dec ob = .error err ∧
        (i.finish msg).2 = .error err) ∧ ∀ k, (i.finish msg).2 ≠ .ok k :=
  C06.no_reflection_bytes (G := G2048) spec2048 i hf hob hb hx

/-- `no_reflection_bytes` for the shipped 3072-bit integer group (generated constants). -/
theorem no_reflection_bytes_3072 
    (i : Inst G3072) (hf : i.finished = false)
    {ob msg : Bytes} (hob : i.outbound = some ob) (hb : IsBytes ob)
    (hx : extractMessage i.side msg = .ok ob) :
    ((i.finish msg).2 = .error .ReflectionThwarted ∨ ∃ err, G3072.dec ob = .error err ∧
        (i.finish msg).2 = .error err) ∧ ∀ k, (i.finish msg).2 ≠ .ok k :=
  C06.no_reflection_bytes (G := G3072) spec3072 i hf hob hb hx

/-- `no_reflection_bytes` for Ed25519 with the constants generated from the current source. -/
theorem no_reflection_bytes_ed25519 
    (i : Inst GEd) (hf : i.finished = false)
    {ob msg : Bytes} (hob : i.outbound = some ob) (hb : IsBytes ob)
    (hx : extractMessage i.side msg = .ok ob) :
    ((i.finish msg).2 = .error .ReflectionThwarted ∨ ∃ err, GEd.dec ob = .error err ∧
        (i.finish msg).2 = .error err) ∧ ∀ k, (i.finish msg).2 ≠ .ok k :=
  C06.no_reflection_bytes (G := GEd) specGen i hf hob hb hx

/-- `no_reflection_bytes` for Ed25519 with the literal RFC 8032 constants. -/
theorem no_reflection_bytes_ed25519_published 
    (i : Inst GEdPub) (hf : i.finished = false)
    {ob msg : Bytes} (hob : i.outbound = some ob) (hb : IsBytes ob)
    (hx : extractMessage i.side msg = .ok ob) :
    ((i.finish msg).2 = .error .ReflectionThwarted ∨ ∃ err, GEdPub.dec ob = .error err ∧
        (i.finish msg).2 = .error err) ∧ ∀ k, (i.finish msg).2 ≠ .ok k :=
  C06.no_reflection_bytes (G := GEdPub) specPublished i hf hob hb hx

/-- a started session never accepts its own outbound element, whatever single label `c` is put in
front of it (own side byte: `OffSides`; on side `S` the accepted label is `S` itself: reflection) -/
theorem own_message_refused {G : Group} (S : GroupSpec G)
    {i : Inst G} {x : ℤ} {ob : Bytes}
    (h : Ready S i x ob) (c : Nat) :
    ∀ k, (i.finish (c :: ob)).2 ≠ .ok k :=
  Spake2Verif.own_message_refused S h c

/-- `own_message_refused` for every integer group `IntegerGroup(p, q, g)` the constructor accepts (no primality assumption). -/
theorem own_message_refused_intgroup (IP : IntGroupParams) (hp : 1 < IP.p) (hq : 0 < IP.q) (hg : 0 < IP.g ∧ IP.g < IP.p)
    (hctor : IntGroup.ctor_ok IP.p IP.q IP.g = true)
    {i : Inst (intGroup IP)} {x : ℤ} {ob : Bytes}
    (h : Ready (intGroupSpec IP hp hq hg hctor) i x ob) (c : Nat) :
    ∀ k, (i.finish (c :: ob)).2 ≠ .ok k :=
  C06.own_message_refused (G := (intGroup IP)) (intGroupSpec IP hp hq hg hctor) h c

/-- `own_message_refused` for the shipped 1024-bit integer group (generated constants). -/
theorem own_message_refused_1024 
    {i : Inst G1024} {x : ℤ} {ob : Bytes}
    (h : Ready spec1024 i x ob) (c : Nat) :
    ∀ k, (i.finish (c :: ob)).2 ≠ .ok k :=
  C06.own_message_refused (G := G1024) spec1024 h c

/-- `own_message_refused` for the shipped 2048-bit integer group (generated constants). -/
theorem own_message_refused_2048 
    {i : Inst G2048} {x : ℤ} {ob : Bytes}
    (h : Ready spec2048 i x ob) (c : Nat) :
    ∀ k, (i.finish (c :: ob)).2 ≠ .ok k :=
  C06.own_message_refused (G := G2048) spec2048 h c

/-- `own_message_refused` for the shipped 3072-bit integer group (generated constants). -/
theorem own_message_refused_3072 
    {i : Inst G3072} {x : ℤ} {ob : Bytes}
    (h : Ready spec3072 i x ob) (c : Nat) :
    ∀ k, (i.finish (c :: ob)).2 ≠ .ok k :=
  C06.own_message_refused (G := G3072) spec3072 h c

/-- `own_message_refused` for Ed25519 with the constants generated from the current source. -/
theorem own_message_refused_ed25519 
    {i : Inst GEd} {x : ℤ} {ob : Bytes}
    (h : Ready specGen i x ob) (c : Nat) :
    ∀ k, (i.finish (c :: ob)).2 ≠ .ok k :=
  C06.own_message_refused (G := GEd) specGen h c

/-- `own_message_refused` for Ed25519 with the literal RFC 8032 constants. -/
theorem own_message_refused_ed25519_published 
    {i : Inst GEdPub} {x : ℤ} {ob : Bytes}
    (h : Ready specPublished i x ob) (c : Nat) :
    ∀ k, (i.finish (c :: ob)).2 ≠ .ok k :=
  C06.own_message_refused (G := GEdPub) specPublished h c

/-- **the message `start()` returned is refused by the session that sent it** (all three classes) -/
theorem own_start_message_refused {G : Group} (S : GroupSpec G) {P : Params G} (hP : ValidParams S P)
    {side : Side} {pw idA idB : Bytes} {ent : Entropy} {a : Inst G} {m : Bytes}
    (h : (Inst.new side pw idA idB P ent).start = (a, .ok m)) :
    ∀ k, (a.finish m).2 ≠ .ok k :=
  Spake2Verif.own_start_message_refused S hP h

/-- `own_start_message_refused` for every integer group `IntegerGroup(p, q, g)` the constructor accepts (no primality assumption); the parameter set is any one built by `mkParams` (valid by `arb_valid`). -/
theorem own_start_message_refused_intgroup (IP : IntGroupParams) (hp : 1 < IP.p) (hq : 0 < IP.q) (hg : 0 < IP.g ∧ IP.g < IP.p)
    (hctor : IntGroup.ctor_ok IP.p IP.q IP.g = true)
    {mSeed nSeed sSeed : Bytes} {P : Params (intGroup IP)}
    (hP : mkParams (intGroup IP) mSeed nSeed sSeed = .ok P)
    {side : Side} {pw idA idB : Bytes} {ent : Entropy} {a : Inst (intGroup IP)} {m : Bytes}
    (h : (Inst.new side pw idA idB P ent).start = (a, .ok m)) :
    ∀ k, (a.finish m).2 ≠ .ok k :=
  C06.own_start_message_refused (G := (intGroup IP)) (intGroupSpec IP hp hq hg hctor) (PropAux.validParams_of_mkParams _ hP) h

/-- `own_start_message_refused` for the shipped 1024-bit integer group (generated constants); the parameter set is any one built by `mkParams` (valid by `arb_valid`). -/
theorem own_start_message_refused_1024 {mSeed nSeed sSeed : Bytes} {P : Params G1024}
    (hP : mkParams G1024 mSeed nSeed sSeed = .ok P)
    {side : Side} {pw idA idB : Bytes} {ent : Entropy} {a : Inst G1024} {m : Bytes}
    (h : (Inst.new side pw idA idB P ent).start = (a, .ok m)) :
    ∀ k, (a.finish m).2 ≠ .ok k :=
  C06.own_start_message_refused (G := G1024) spec1024 (PropAux.validParams_of_mkParams _ hP) h

/-- `own_start_message_refused` for the shipped 2048-bit integer group (generated constants); the parameter set is any one built by `mkParams` (valid by `arb_valid`). -/
theorem own_start_message_refused_2048 {mSeed nSeed sSeed : Bytes} {P : Params G2048}
    (hP : mkParams G2048 mSeed nSeed sSeed = .ok P)
    {side : Side} {pw idA idB : Bytes} {ent : Entropy} {a : Inst G2048} {m : Bytes}
    (h : (Inst.new side pw idA idB P ent).start = (a, .ok m)) :
    ∀ k, (a.finish m).2 ≠ .ok k :=
  C06.own_start_message_refused (G := G2048) spec2048 (PropAux.validParams_of_mkParams _ hP) h

/-- `own_start_message_refused` for the shipped 3072-bit integer group (generated constants); the parameter set is any one built by `mkParams` (valid by `arb_valid`). -/
theorem own_start_message_refused_3072 {mSeed nSeed sSeed : Bytes} {P : Params G3072}
    (hP : mkParams G3072 mSeed nSeed sSeed = .ok P)
    {side : Side} {pw idA idB : Bytes} {ent : Entropy} {a : Inst G3072} {m : Bytes}
    (h : (Inst.new side pw idA idB P ent).start = (a, .ok m)) :
    ∀ k, (a.finish m).2 ≠ .ok k :=
  C06.own_start_message_refused (G := G3072) spec3072 (PropAux.validParams_of_mkParams _ hP) h

/-- `own_start_message_refused` for Ed25519 with the constants generated from the current source; the parameter set is any one built by `mkParams` (valid by `arb_valid`). -/
theorem own_start_message_refused_ed25519 {mSeed nSeed sSeed : Bytes} {P : Params GEd}
    (hP : mkParams GEd mSeed nSeed sSeed = .ok P)
    {side : Side} {pw idA idB : Bytes} {ent : Entropy} {a : Inst GEd} {m : Bytes}
    (h : (Inst.new side pw idA idB P ent).start = (a, .ok m)) :
    ∀ k, (a.finish m).2 ≠ .ok k :=
  C06.own_start_message_refused (G := GEd) specGen (PropAux.validParams_of_mkParams _ hP) h

/-- `own_start_message_refused` for Ed25519 with the literal RFC 8032 constants; the parameter set is any one built by `mkParams` (valid by `arb_valid`). -/
theorem own_start_message_refused_ed25519_published {mSeed nSeed sSeed : Bytes} {P : Params GEdPub}
    (hP : mkParams GEdPub mSeed nSeed sSeed = .ok P)
    {side : Side} {pw idA idB : Bytes} {ent : Entropy} {a : Inst GEdPub} {m : Bytes}
    (h : (Inst.new side pw idA idB P ent).start = (a, .ok m)) :
    ∀ k, (a.finish m).2 ≠ .ok k :=
  C06.own_start_message_refused (G := GEdPub) specPublished (PropAux.validParams_of_mkParams _ hP) h

/-- **restored sessions, side byte.**  Whatever bytes were deserialised, the session returned by
`from_serialized` enforces the side check of the class it was restored as (every group object). -/
theorem finish_side_restored {G : Group} {side : Side} {data : Bytes} {P : Params G} {i' : Inst G}
    (hr : fromSerialized side data P = .ok i') {msg : Bytes} (h : msg.take 1 ≠ peerByte side) :
    ∃ err, (i'.finish msg).2 = .error err ∧ (∀ k, (i'.finish msg).2 ≠ .ok k) ∧
      (side ≠ .S → err = .OffSides) ∧
      (side = .S → (msg.take 1 = Consts.sideA ∨ msg.take 1 = Consts.sideB → err = .OffSides) ∧
                   (msg.take 1 ≠ Consts.sideA → msg.take 1 ≠ Consts.sideB →
                      err = .other .AssertionError)) :=
  Spake2Verif.finish_side_restored hr h

/-- **restored sessions, reflection.**  The outbound message of a restored session is recomputed
from the restored scalar; a body decoding to it is refused with `ReflectionThwarted`. -/
theorem no_reflection_restored {G : Group} {side : Side} {data : Bytes} {P : Params G}
    {i' : Inst G} (hr : fromSerialized side data P = .ok i') :
    ∃ ob, i'.outbound = some ob ∧
      ∀ msg body e, extractMessage side msg = .ok body → G.dec body = .ok e → G.enc e = ob →
        (i'.finish msg).2 = .error .ReflectionThwarted :=
  Spake2Verif.no_reflection_restored hr

/-- a session returned by `from_serialized` (from *any* accepted blob) refuses its own recomputed
outbound element under every label -/
theorem own_message_refused_restored {G : Group} (S : GroupSpec G) {P : Params G} (hP : ValidParams S P)
    {side : Side} {data : Bytes} {i' : Inst G} (hr : fromSerialized side data P = .ok i') :
    ∃ ob, i'.outbound = some ob ∧ ∀ (c : Nat) (k : Bytes), (i'.finish (c :: ob)).2 ≠ .ok k :=
  PropAux.own_message_refused_restored S hP hr

/-- `own_message_refused_restored` for every integer group `IntegerGroup(p, q, g)` the constructor accepts (no primality assumption); the parameter set is any one built by `mkParams` (valid by `arb_valid`). -/
theorem own_message_refused_restored_intgroup (IP : IntGroupParams) (hp : 1 < IP.p) (hq : 0 < IP.q) (hg : 0 < IP.g ∧ IP.g < IP.p)
    (hctor : IntGroup.ctor_ok IP.p IP.q IP.g = true)
    {mSeed nSeed sSeed : Bytes} {P : Params (intGroup IP)}
    (hP : mkParams (intGroup IP) mSeed nSeed sSeed = .ok P)
    {side : Side} {data : Bytes} {i' : Inst (intGroup IP)} (hr : fromSerialized side data P = .ok i') :
    ∃ ob, i'.outbound = some ob ∧ ∀ (c : Nat) (k : Bytes), (i'.finish (c :: ob)).2 ≠ .ok k :=
  C06.own_message_refused_restored (G := (intGroup IP)) (intGroupSpec IP hp hq hg hctor) (PropAux.validParams_of_mkParams _ hP) hr

/-- `own_message_refused_restored` for the shipped 1024-bit integer group (generated constants); the parameter set is any one built by `mkParams` (valid by `arb_valid`). -/
theorem own_message_refused_restored_1024 {mSeed nSeed sSeed : Bytes} {P : Params G1024}
    (hP : mkParams G1024 mSeed nSeed sSeed = .ok P)
    {side : Side} {data : Bytes} {i' : Inst G1024} (hr : fromSerialized side data P = .ok i') :
    ∃ ob, i'.outbound = some ob ∧ ∀ (c : Nat) (k : Bytes), (i'.finish (c :: ob)).2 ≠ .ok k :=
  C06.own_message_refused_restored (G := G1024) spec1024 (PropAux.validParams_of_mkParams _ hP) hr

/-- `own_message_refused_restored` for the shipped 2048-bit integer group (generated constants); the parameter set is any one built by `mkParams` (valid by `arb_valid`). -/
theorem own_message_refused_restored_2048 {mSeed nSeed sSeed : Bytes} {P : Params G2048}
    (hP : mkParams G2048 mSeed nSeed sSeed = .ok P)
    {side : Side} {data : Bytes} {i' : Inst G2048} (hr : fromSerialized side data P = .ok i') :
    ∃ ob, i'.outbound = some ob ∧ ∀ (c : Nat) (k : Bytes), (i'.finish (c :: ob)).2 ≠ .ok k :=
  C06.own_message_refused_restored (G := G2048) spec2048 (PropAux.validParams_of_mkParams _ hP) hr

/-- `own_message_refused_restored` for the shipped 3072-bit integer group (generated constants); the parameter set is any one built by `mkParams` (valid by `arb_valid`). -/
theorem own_message_refused_restored_3072 {mSeed nSeed sSeed : Bytes} {P : Params G3072}
    (hP : mkParams G3072 mSeed nSeed sSeed = .ok P)
    {side : Side} {data : Bytes} {i' : Inst G3072} (hr : fromSerialized side data P = .ok i') :
    ∃ ob, i'.outbound = some ob ∧ ∀ (c : Nat) (k : Bytes), (i'.finish (c :: ob)).2 ≠ .ok k :=
  C06.own_message_refused_restored (G := G3072) spec3072 (PropAux.validParams_of_mkParams _ hP) hr

/-- `own_message_refused_restored` for Ed25519 with the constants generated from the current source; the parameter set is any one built by `mkParams` (valid by `arb_valid`). -/
theorem own_message_refused_restored_ed25519 {mSeed nSeed sSeed : Bytes} {P : Params GEd}
    (hP : mkParams GEd mSeed nSeed sSeed = .ok P)
    {side : Side} {data : Bytes} {i' : Inst GEd} (hr : fromSerialized side data P = .ok i') :
    ∃ ob, i'.outbound = some ob ∧ ∀ (c : Nat) (k : Bytes), (i'.finish (c :: ob)).2 ≠ .ok k :=
  C06.own_message_refused_restored (G := GEd) specGen (PropAux.validParams_of_mkParams _ hP) hr

/-- `own_message_refused_restored` for Ed25519 with the literal RFC 8032 constants; the parameter set is any one built by `mkParams` (valid by `arb_valid`). -/
theorem own_message_refused_restored_ed25519_published {mSeed nSeed sSeed : Bytes} {P : Params GEdPub}
    (hP : mkParams GEdPub mSeed nSeed sSeed = .ok P)
    {side : Side} {data : Bytes} {i' : Inst GEdPub} (hr : fromSerialized side data P = .ok i') :
    ∃ ob, i'.outbound = some ob ∧ ∀ (c : Nat) (k : Bytes), (i'.finish (c :: ob)).2 ≠ .ok k :=
  C06.own_message_refused_restored (G := GEdPub) specPublished (PropAux.validParams_of_mkParams _ hP) hr

/-- **reflection of the message originally sent, after persistence**: `a'` obtained from the started
session `a` by any number of `from_serialized(serialize())` round trips refuses the message `a` sent -/
theorem own_start_message_refused_restored {G : Group} (S : GroupSpec G) {P : Params G} (hP : ValidParams S P)
    {side : Side} {pw idA idB : Bytes} (hpw : IsBytes pw) (hidA : IsBytes idA) (hidB : IsBytes idB)
    {ent : Entropy} {a a' : Inst G} {m : Bytes}
    (h : (Inst.new side pw idA idB P ent).start = (a, .ok m)) (hr : RestoredFrom a a') :
    ∀ k, (a'.finish m).2 ≠ .ok k :=
  PropAux.own_start_message_refused_restored S hP hpw hidA hidB h hr

/-- `own_start_message_refused_restored` for every integer group `IntegerGroup(p, q, g)` the constructor accepts (no primality assumption); the parameter set is any one built by `mkParams` (valid by `arb_valid`). -/
theorem own_start_message_refused_restored_intgroup (IP : IntGroupParams) (hp : 1 < IP.p) (hq : 0 < IP.q) (hg : 0 < IP.g ∧ IP.g < IP.p)
    (hctor : IntGroup.ctor_ok IP.p IP.q IP.g = true)
    {mSeed nSeed sSeed : Bytes} {P : Params (intGroup IP)}
    (hP : mkParams (intGroup IP) mSeed nSeed sSeed = .ok P)
    {side : Side} {pw idA idB : Bytes} (hpw : IsBytes pw) (hidA : IsBytes idA) (hidB : IsBytes idB)
    {ent : Entropy} {a a' : Inst (intGroup IP)} {m : Bytes}
    (h : (Inst.new side pw idA idB P ent).start = (a, .ok m)) (hr : RestoredFrom a a') :
    ∀ k, (a'.finish m).2 ≠ .ok k :=
  C06.own_start_message_refused_restored (G := (intGroup IP)) (intGroupSpec IP hp hq hg hctor) (PropAux.validParams_of_mkParams _ hP) hpw hidA hidB h hr

/-- `own_start_message_refused_restored` for the shipped 1024-bit integer group (generated constants); the parameter set is any one built by `mkParams` (valid by `arb_valid`). -/
theorem own_start_message_refused_restored_1024 {mSeed nSeed sSeed : Bytes} {P : Params G1024}
    (hP : mkParams G1024 mSeed nSeed sSeed = .ok P)
    {side : Side} {pw idA idB : Bytes} (hpw : IsBytes pw) (hidA : IsBytes idA) (hidB : IsBytes idB)
    {ent : Entropy} {a a' : Inst G1024} {m : Bytes}
    (h : (Inst.new side pw idA idB P ent).start = (a, .ok m)) (hr : RestoredFrom a a') :
    ∀ k, (a'.finish m).2 ≠ .ok k :=
  C06.own_start_message_refused_restored (G := G1024) spec1024 (PropAux.validParams_of_mkParams _ hP) hpw hidA hidB h hr

/-- `own_start_message_refused_restored` for the shipped 2048-bit integer group (generated constants); the parameter set is any one built by `mkParams` (valid by `arb_valid`). -/
theorem own_start_message_refused_restored_2048 {mSeed nSeed sSeed : Bytes} {P : Params G2048}
    (hP : mkParams G2048 mSeed nSeed sSeed = .ok P)
    {side : Side} {pw idA idB : Bytes} (hpw : IsBytes pw) (hidA : IsBytes idA) (hidB : IsBytes idB)
    {ent : Entropy} {a a' : Inst G2048} {m : Bytes}
    (h : (Inst.new side pw idA idB P ent).start = (a, .ok m)) (hr : RestoredFrom a a') :
    ∀ k, (a'.finish m).2 ≠ .ok k :=
  C06.own_start_message_refused_restored (G := G2048) spec2048 (PropAux.validParams_of_mkParams _ hP) hpw hidA hidB h hr

/-- `own_start_message_refused_restored` for the shipped 3072-bit integer group (generated constants); the parameter set is any one built by `mkParams` (valid by `arb_valid`). -/
theorem own_start_message_refused_restored_3072 {mSeed nSeed sSeed : Bytes} {P : Params G3072}
    (hP : mkParams G3072 mSeed nSeed sSeed = .ok P)
    {side : Side} {pw idA idB : Bytes} (hpw : IsBytes pw) (hidA : IsBytes idA) (hidB : IsBytes idB)
    {ent : Entropy} {a a' : Inst G3072} {m : Bytes}
    (h : (Inst.new side pw idA idB P ent).start = (a, .ok m)) (hr : RestoredFrom a a') :
    ∀ k, (a'.finish m).2 ≠ .ok k :=
  C06.own_start_message_refused_restored (G := G3072) spec3072 (PropAux.validParams_of_mkParams _ hP) hpw hidA hidB h hr

/-- `own_start_message_refused_restored` for Ed25519 with the constants generated from the current source; the parameter set is any one built by `mkParams` (valid by `arb_valid`). -/
theorem own_start_message_refused_restored_ed25519 {mSeed nSeed sSeed : Bytes} {P : Params GEd}
    (hP : mkParams GEd mSeed nSeed sSeed = .ok P)
    {side : Side} {pw idA idB : Bytes} (hpw : IsBytes pw) (hidA : IsBytes idA) (hidB : IsBytes idB)
    {ent : Entropy} {a a' : Inst GEd} {m : Bytes}
    (h : (Inst.new side pw idA idB P ent).start = (a, .ok m)) (hr : RestoredFrom a a') :
    ∀ k, (a'.finish m).2 ≠ .ok k :=
  C06.own_start_message_refused_restored (G := GEd) specGen (PropAux.validParams_of_mkParams _ hP) hpw hidA hidB h hr

/-- `own_start_message_refused_restored` for Ed25519 with the literal RFC 8032 constants; the parameter set is any one built by `mkParams` (valid by `arb_valid`). -/
theorem own_start_message_refused_restored_ed25519_published {mSeed nSeed sSeed : Bytes} {P : Params GEdPub}
    (hP : mkParams GEdPub mSeed nSeed sSeed = .ok P)
    {side : Side} {pw idA idB : Bytes} (hpw : IsBytes pw) (hidA : IsBytes idA) (hidB : IsBytes idB)
    {ent : Entropy} {a a' : Inst GEdPub} {m : Bytes}
    (h : (Inst.new side pw idA idB P ent).start = (a, .ok m)) (hr : RestoredFrom a a') :
    ∀ k, (a'.finish m).2 ≠ .ok k :=
  C06.own_start_message_refused_restored (G := GEdPub) specPublished (PropAux.validParams_of_mkParams _ hP) hpw hidA hidB h hr

/-! ### non-vacuity -/

/-- hypotheses of `finish_side` / `own_start_message_refused`: a started, unfinished toy session
whose own message carries a label it does not accept -/
example : ∃ (a : Inst toyG) (m : Bytes),
    (Inst.new .A [1] [1] [2] toyParams ⟨[4]⟩).start = (a, .ok m) ∧ a.finished = false ∧
    m.take 1 ≠ peerByte a.side ∧ (a.finish m).2 = .error .OffSides := by
  obtain ⟨a, m, hA, -⟩ := toy_start .A [1] [1] [2] 4 (by decide)
  obtain ⟨x, ob, rfl, rd, sa, -⟩ := start_ready toySpec toy_valid hA
  have hne : (Side.A.byte ++ ob).take 1 ≠ peerByte a.side := by
    rw [sa]; simp [Side.byte, peerByte, Consts.sideA, Consts.sideB]
  exact ⟨a, _, hA, rd.finished, hne, finish_side_AB a rd.finished (by simp [sa]) hne⟩

/-- reflection on a symmetric toy session: its own message carries the accepted label `S` and is
refused -/
example : ∃ (a : Inst toyG) (m : Bytes),
    (Inst.new .S [1] [7] [] toyParams ⟨[4]⟩).start = (a, .ok m) ∧ m.take 1 = peerByte a.side ∧
    ∀ k, (a.finish m).2 ≠ .ok k := by
  obtain ⟨a, m, hA, -⟩ := toy_start .S [1] [7] [] 4 (by decide)
  obtain ⟨x, ob, rfl, rd, sa, -⟩ := start_ready toySpec toy_valid hA
  exact ⟨a, _, hA, by rw [sa]; rfl, own_start_message_refused toySpec toy_valid hA⟩

/-- concrete evaluation: the symmetric toy session raises exactly `ReflectionThwarted` on its own
message, and `OffSides` on the same element labelled `A` -/
example :
    ((Inst.new (G := toyG) .S [1] [7] [] toyParams ⟨[4]⟩).start.1.finish
      ((Inst.new (G := toyG) .S [1] [7] [] toyParams ⟨[4]⟩).start.2.toOption.getD [])).2
        = .error .ReflectionThwarted ∧
    ((Inst.new (G := toyG) .S [1] [7] [] toyParams ⟨[4]⟩).start.1.finish
      (65 :: ((Inst.new (G := toyG) .S [1] [7] [] toyParams ⟨[4]⟩).start.2.toOption.getD []).drop 1)).2
        = .error .OffSides := by
  constructor <;> decide +kernel

/-- Tie A: the side checks reasoned about above are those of the *source* -- `extractMessage` is the
translation of the two `_extract_message` methods (every message), with the class side constants -/
theorem side_checks_are_the_source :
    (∀ s : Side, s ≠ .S → extractMessage s = Spake2Model.Gen.Proto.extract_asym s.byte) ∧
    extractMessage .S = Spake2Model.Gen.Proto.extract_sym ∧
    (Side.byte .A = Spake2Model.Gen.Proto.class_side_A ∧ Side.byte .B = Spake2Model.Gen.Proto.class_side_B ∧
      Side.byte .S = Spake2Model.Gen.Proto.class_side_S) :=
  ⟨ProtoShapeTie.extract_asym_tie, ProtoShapeTie.extract_sym_tie, ProtoShapeTie.class_sides_tie⟩

/-- Tie A: `finish()` (flag, side check, decoding, position of the reflection test) is the translation of the
method body of `_SPAKE2_Base.finish`; `_extract_message` is dispatched on the class as in the source -/
theorem finish_is_the_source {G : Group} :
    @Inst.finish G = ProtoFlowTie.flowFinish ∧
    (∀ (role : Spake2Model.Gen.ProtoFlow.Role) (m : Bytes),
      Spake2Model.Gen.ProtoFlow.extract_message role m = extractMessage (ProtoFlowTie.ofRole role) m) :=
  ⟨ProtoFlowTie.finish_is_source, ProtoFlowTie.extract_tie⟩

end Spake2Verif.C06
