import Spake2Verif.Proofs.PropAuxA
import Spake2Verif.Proofs.ProtoShapeTie
/-!
# C10 — The persisted state format is stable across library versions

**Statement.** "serialize() emits an ASCII JSON object carrying hashed_params, side, password,
xy_scalar and idA+idB (or idS), each hex-encoded, the scalar in the group's fixed-width scalar
encoding and hashed_params equal to SHA256(arbitrary_element('') || scalar(password_to_scalar(''))
|| M || N) (symmetric: ... || S).  from_serialized() accepts every such object in this released
format (that of 0.9 and of the pinned tree) for the same role and parameters, regardless of key
order or whitespace, and resumes exactly the session it describes."

**Vocabulary.** `dictOf side hp idA idB pw xs` is the dictionary `_serialize_to_dict` builds
(`dict_layout`); `Json.dumps` is `json.dumps` of a flat `dict[str, str]` (`dumps_layout`);
`dumpsWs w0 w1 ws d` renders `d` with *arbitrary* JSON whitespace (`w0`, `w1` around the object,
`ws n` the four whitespace strings around member `n`); `List.Perm` = any reordering of members.

**Clause → theorem.**
* exact output of `serialize()`: `serialize_format` (JSON text of `dictOf …` with the scalar in
  the fixed-width encoding `scalarEnc x`, `xs.length = scalarSize`, and `scalarDec xs = x`).
* the object has exactly the members `hashed_params, side, idA, idB, password, xy_scalar` (A/B) or
  `hashed_params, side, idS, password, xy_scalar` (symmetric), values lower-case hex except `side`
  which is the letter itself: `dict_layout`, `key_names`, `hex_is_lowercase`, `dumps_layout`.
  (In the released format `side` is the plain letter `"A"`/`"B"`/`"S"`, hex-encoding applies to
  ids, password and scalar; `hashed_params` is a hex digest.)
* `hashed_params` = hex of `SHA256(enc(arb "") ‖ scalarEnc(p2s "") ‖ enc M ‖ enc N)`, symmetric
  `… ‖ enc S`: `hashed_params_formula`.
* ASCII / printable: C08 `serialize_printable`.
* acceptance "regardless of key order or whitespace": `fromDict_perm` (only look-ups by key),
  `accepts_released_format` (any reordering, any whitespace ⇒ same result as on `serialize()`'s
  own output, for every class and every parameter set).
* "accepts every such object … and resumes exactly the session it describes" -- for an
  *independent* encoder, not only for blobs produced by the tree: `released_format_restores`
  (+ instances `_intgroup`, `_1024`, `_2048`, `_3072`, `_ed25519`, `_ed25519_published`): for any
  role, byte-string password/identities, scalar `x ∈ [0,q)` and valid parameters, the released-format
  object written down from these fields -- any order, any whitespace -- restores to a started,
  unfinished session with exactly these fields, secret `x` and outbound element `x•B + w•M`.

**Assumed / remarks.**
* `Json.parse`/`Json.dumps` are the model's JSON fragment (flat string→string objects without
  escapes; proved inverse to each other and insensitive to whitespace and member order in `Proofs/JsonProofs.lean`).
  Agreement with Python's `json` module (including its whitespace rules) is exercised by the
  correspondence runs, not proved.
* "(that of 0.9 and of the pinned tree)": that the model's format *is* the released one is the
  byte-exact correspondence with the tree plus the recorded 0.9 vectors; the theorems fix the format
  the model emits and accepts.
* `released_format_restores` needs `arbitrary_element(b"")` not to raise (`hash_params()` total).
-/
namespace Spake2Verif.C10
open Spake2Model Spake2Model.Gen Spake2Model.Json Spake2Model.Serialize Spake2Verif.PropAux

/-- **C10 (format).**  The exact output of `serialize()` on a started session: `json.dumps` of the
dictionary `dictOf` (6 members, 5 on side `S`), with `xs` the fixed-width encoding of the secret. -/
theorem serialize_format {G : Group} (S : GroupSpec G) {i : Inst G} {x : ℤ} {ob hp : Bytes}
    (h : Ready S i x ob) (hh : i.hashParams = .ok hp) :
    ∃ xs, G.scalarEnc x = .ok xs ∧ xs.length = G.scalarSize ∧ IsBytes xs ∧ G.scalarDec xs = .ok x ∧
      i.serialize = .ok (Json.dumps (dictOf i.side hp i.idA i.idB i.pw xs)) :=
  Spake2Verif.serialize_format S h hh

/-- the members of the serialised object, in the order `serialize()` emits them -/
theorem dict_layout (hp idA idB pw xs : Bytes) :
    dictOf .A hp idA idB pw xs =
      [(k_hashed_params, hp), (k_side, [65]), (k_idA, hexlify idA), (k_idB, hexlify idB),
       (k_password, hexlify pw), (k_xy_scalar, hexlify xs)] ∧
    dictOf .B hp idA idB pw xs =
      [(k_hashed_params, hp), (k_side, [66]), (k_idA, hexlify idA), (k_idB, hexlify idB),
       (k_password, hexlify pw), (k_xy_scalar, hexlify xs)] ∧
    dictOf .S hp idA idB pw xs =
      [(k_hashed_params, hp), (k_side, [83]), (k_idS, hexlify idA),
       (k_password, hexlify pw), (k_xy_scalar, hexlify xs)] :=
  ⟨rfl, rfl, rfl⟩

/-- the member names as ASCII strings; they are pairwise different -/
theorem key_names :
    k_hashed_params = asciiOf "hashed_params" ∧ k_side = asciiOf "side" ∧ k_idA = asciiOf "idA" ∧
    k_idB = asciiOf "idB" ∧ k_idS = asciiOf "idS" ∧ k_password = asciiOf "password" ∧
    k_xy_scalar = asciiOf "xy_scalar" ∧
    [k_hashed_params, k_side, k_idA, k_idB, k_idS, k_password, k_xy_scalar].Nodup :=
  ⟨rfl, rfl, rfl, rfl, rfl, rfl, rfl, by decide⟩

/-- `hexlify` writes two lower-case hex digits per byte, high nibble first -/
theorem hex_is_lowercase (b : ℕ) (bs : Bytes) :
    hexlify (b :: bs) = hexDigit (b / 16) :: hexDigit (b % 16) :: hexlify bs ∧
    (List.range 16).map hexDigit = asciiOf "0123456789abcdef" :=
  ⟨rfl, by decide⟩

/-- the JSON text: `{"k": "v", "k'": "v'"}` with `": "` and `", "` as separators -/
theorem dumps_layout (k v k' v' : Bytes) :
    Json.dumps [(k, v), (k', v')] =
      asciiOf "{\"" ++ k ++ asciiOf "\": \"" ++ v ++ asciiOf "\", \"" ++ k' ++ asciiOf "\": \"" ++
        v' ++ asciiOf "\"}" := by
  simp [Json.dumps, Json.dumpsPairs, Json.quote, asciiOf]

/-- **`hashed_params`** is the lower-case hex digest of
`SHA256(arbitrary_element(b"") ‖ scalar_to_bytes(password_to_scalar(b"")) ‖ M ‖ N)` for `A`/`B`
and of `SHA256(… ‖ S)` for the symmetric class (every group object) -/
theorem hashed_params_formula {G : Group} {i : Inst G} {hp : Bytes} (h : i.hashParams = .ok hp) :
    ∃ a0 s0, G.arb [] = .ok a0 ∧ G.scalarEnc (G.p2s []) = .ok s0 ∧
      (i.side = .S → hp = hexlify (Sha.sha256 (G.enc a0 ++ s0 ++ G.enc i.params.S))) ∧
      (i.side ≠ .S → hp = hexlify (Sha.sha256
        (G.enc a0 ++ s0 ++ G.enc i.params.M ++ G.enc i.params.N))) :=
  PropAux.hashParams_formula h

/-- `_deserialize_from_dict` only looks members up by key: the member order is irrelevant -/
theorem fromDict_perm {G : Group} {d d' : Json.Dict} (hn : (keys d).Nodup) (hp : d'.Perm d)
    (side : Side) (P' : Params G) : fromDict side d' P' = fromDict side d P' :=
  Spake2Verif.fromDict_perm hn hp side P'

/-- **C10 (accepted formats).**  Any reordering of the members `serialize()` wrote, rendered with
any JSON whitespace, is treated by `from_serialized` (of any class, under any parameters) exactly
as `serialize()`'s own output. -/
theorem accepts_released_format {G : Group} (S : GroupSpec G) {i : Inst G} {x : ℤ}
    {ob s : Bytes}
    (h : Ready S i x ob) (hA : IsBytes i.idA) (hB : IsBytes i.idB) (hpw : IsBytes i.pw)
    (hs : i.serialize = .ok s) :
    ∃ hp xs, i.hashParams = .ok hp ∧ G.scalarEnc x = .ok xs ∧
      s = Json.dumps (dictOf i.side hp i.idA i.idB i.pw xs) ∧
      ∀ (d' : Json.Dict) (w0 w1 : Bytes) (ws : Nat → PairWs) (side : Side) (P' : Params G),
        d'.Perm (dictOf i.side hp i.idA i.idB i.pw xs) → IsWs w0 → IsWs w1 → (∀ n, (ws n).Ok) →
        fromSerialized side (dumpsWs w0 w1 ws d') P' = fromSerialized side s P' :=
  Spake2Verif.accepts_released_format S h hA hB hpw hs

/-- **C10 (an independent encoder of the released format is accepted).**  For any role, byte-string
password and identities, scalar `x ∈ [0,q)` and valid parameters: let `fp` be the fingerprint and `xs`
the fixed-width encoding of `x`.  Every reordering `d'` of the released-format dictionary
`dictOf side fp idA idB pw xs`, rendered with any JSON whitespace, is accepted by `from_serialized`
of that role and parameters, and the result is a started, unfinished session with exactly these
fields, secret `x`, and outbound element `x•B + w•(M|N|S)`. -/
theorem released_format_restores {G : Group} (S : GroupSpec G) {P : Params G} (hP : ValidParams S P)
    (side : Side) {pw idA idB : Bytes} (hpw : IsBytes pw) (hA : IsBytes idA) (hB : IsBytes idB)
    {x : ℤ} (hx : 0 ≤ x ∧ x < (S.q : ℤ)) {a0 : G.Elem} (harb : G.arb [] = .ok a0) :
    ∃ fp xs ob, (Inst.new side pw idA idB P ⟨[]⟩).hashParams = .ok fp ∧
      G.scalarEnc x = .ok xs ∧ xs.length = G.scalarSize ∧
      (∃ e, S.Valid e ∧ S.abs e = msgAbs S P side (G.p2s pw) x ∧ ob = G.enc e) ∧
      ∀ (d' : Json.Dict) (w0 w1 : Bytes) (ws : Nat → PairWs),
        d'.Perm (dictOf side fp idA idB pw xs) → IsWs w0 → IsWs w1 → (∀ n, (ws n).Ok) →
        ∃ i', fromSerialized side (dumpsWs w0 w1 ws d') P = .ok i' ∧ Ready S i' x ob ∧
          i'.side = side ∧ i'.pw = pw ∧ i'.idA = idA ∧ (side ≠ .S → i'.idB = idB) ∧
          i'.params = P ∧ i'.xyScalar = some x ∧ i'.outbound = some ob :=
  PropAux.released_format_restores S hP side hpw hA hB hx harb

/-- `released_format_restores` for every integer group `IntegerGroup(p, q, g)` the constructor accepts (no primality assumption); the parameter set is any one built by `mkParams` (valid by `arb_valid`). -/
theorem released_format_restores_intgroup (IP : IntGroupParams) (hp : 1 < IP.p) (hq : 0 < IP.q) (hg : 0 < IP.g ∧ IP.g < IP.p)
    (hctor : IntGroup.ctor_ok IP.p IP.q IP.g = true)
    {mSeed nSeed sSeed : Bytes} {P : Params (intGroup IP)}
    (hP : mkParams (intGroup IP) mSeed nSeed sSeed = .ok P)
    (side : Side) {pw idA idB : Bytes} (hpw : IsBytes pw) (hA : IsBytes idA) (hB : IsBytes idB)
    {x : ℤ} (hx : 0 ≤ x ∧ x < ((intGroupSpec IP hp hq hg hctor).q : ℤ)) {a0 : (intGroup IP).Elem} (harb : (intGroup IP).arb [] = .ok a0) :
    ∃ fp xs ob, (Inst.new side pw idA idB P ⟨[]⟩).hashParams = .ok fp ∧
      (intGroup IP).scalarEnc x = .ok xs ∧ xs.length = (intGroup IP).scalarSize ∧
      (∃ e, (intGroupSpec IP hp hq hg hctor).Valid e ∧ (intGroupSpec IP hp hq hg hctor).abs e = msgAbs (intGroupSpec IP hp hq hg hctor) P side ((intGroup IP).p2s pw) x ∧ ob = (intGroup IP).enc e) ∧
      ∀ (d' : Json.Dict) (w0 w1 : Bytes) (ws : Nat → PairWs),
        d'.Perm (dictOf side fp idA idB pw xs) → IsWs w0 → IsWs w1 → (∀ n, (ws n).Ok) →
        ∃ i', fromSerialized side (dumpsWs w0 w1 ws d') P = .ok i' ∧ Ready (intGroupSpec IP hp hq hg hctor) i' x ob ∧
          i'.side = side ∧ i'.pw = pw ∧ i'.idA = idA ∧ (side ≠ .S → i'.idB = idB) ∧
          i'.params = P ∧ i'.xyScalar = some x ∧ i'.outbound = some ob :=
  C10.released_format_restores (G := (intGroup IP)) (intGroupSpec IP hp hq hg hctor) (PropAux.validParams_of_mkParams _ hP) side hpw hA hB hx harb

/-- `released_format_restores` for the shipped 1024-bit integer group (generated constants); the parameter set is any one built by `mkParams` (valid by `arb_valid`). -/
theorem released_format_restores_1024 {mSeed nSeed sSeed : Bytes} {P : Params G1024}
    (hP : mkParams G1024 mSeed nSeed sSeed = .ok P)
    (side : Side) {pw idA idB : Bytes} (hpw : IsBytes pw) (hA : IsBytes idA) (hB : IsBytes idB)
    {x : ℤ} (hx : 0 ≤ x ∧ x < (spec1024.q : ℤ)) {a0 : G1024.Elem} (harb : G1024.arb [] = .ok a0) :
    ∃ fp xs ob, (Inst.new side pw idA idB P ⟨[]⟩).hashParams = .ok fp ∧
      G1024.scalarEnc x = .ok xs ∧ xs.length = G1024.scalarSize ∧
      (∃ e, spec1024.Valid e ∧ spec1024.abs e = msgAbs spec1024 P side (G1024.p2s pw) x ∧ ob = G1024.enc e) ∧
      ∀ (d' : Json.Dict) (w0 w1 : Bytes) (ws : Nat → PairWs),
        d'.Perm (dictOf side fp idA idB pw xs) → IsWs w0 → IsWs w1 → (∀ n, (ws n).Ok) →
        ∃ i', fromSerialized side (dumpsWs w0 w1 ws d') P = .ok i' ∧ Ready spec1024 i' x ob ∧
          i'.side = side ∧ i'.pw = pw ∧ i'.idA = idA ∧ (side ≠ .S → i'.idB = idB) ∧
          i'.params = P ∧ i'.xyScalar = some x ∧ i'.outbound = some ob :=
  C10.released_format_restores (G := G1024) spec1024 (PropAux.validParams_of_mkParams _ hP) side hpw hA hB hx harb

/-- `released_format_restores` for the shipped 2048-bit integer group (generated constants); the parameter set is any one built by `mkParams` (valid by `arb_valid`). -/
theorem released_format_restores_2048 {mSeed nSeed sSeed : Bytes} {P : Params G2048}
    (hP : mkParams G2048 mSeed nSeed sSeed = .ok P)
    (side : Side) {pw idA idB : Bytes} (hpw : IsBytes pw) (hA : IsBytes idA) (hB : IsBytes idB)
    {x : ℤ} (hx : 0 ≤ x ∧ x < (spec2048.q : ℤ)) {a0 : G2048.Elem} (harb : G2048.arb [] = .ok a0) :
    ∃ fp xs ob, (Inst.new side pw idA idB P ⟨[]⟩).hashParams = .ok fp ∧
      G2048.scalarEnc x = .ok xs ∧ xs.length = G2048.scalarSize ∧
      (∃ e, spec2048.Valid e ∧ spec2048.abs e = msgAbs spec2048 P side (G2048.p2s pw) x ∧ ob = G2048.enc e) ∧
      ∀ (d' : Json.Dict) (w0 w1 : Bytes) (ws : Nat → PairWs),
        d'.Perm (dictOf side fp idA idB pw xs) → IsWs w0 → IsWs w1 → (∀ n, (ws n).Ok) →
        ∃ i', fromSerialized side (dumpsWs w0 w1 ws d') P = .ok i' ∧ Ready spec2048 i' x ob ∧
          i'.side = side ∧ i'.pw = pw ∧ i'.idA = idA ∧ (side ≠ .S → i'.idB = idB) ∧
          i'.params = P ∧ i'.xyScalar = some x ∧ i'.outbound = some ob :=
  C10.released_format_restores (G := G2048) spec2048 (PropAux.validParams_of_mkParams _ hP) side hpw hA hB hx harb

/-- `released_format_restores` for the shipped 3072-bit integer group (generated constants); the parameter set is any one built by `mkParams` (valid by `arb_valid`). -/
theorem released_format_restores_3072 {mSeed nSeed sSeed : Bytes} {P : Params G3072}
    (hP : mkParams G3072 mSeed nSeed sSeed = .ok P)
    (side : Side) {pw idA idB : Bytes} (hpw : IsBytes pw) (hA : IsBytes idA) (hB : IsBytes idB)
    {x : ℤ} (hx : 0 ≤ x ∧ x < (spec3072.q : ℤ)) {a0 : G3072.Elem} (harb : G3072.arb [] = .ok a0) :
    ∃ fp xs ob, (Inst.new side pw idA idB P ⟨[]⟩).hashParams = .ok fp ∧
      G3072.scalarEnc x = .ok xs ∧ xs.length = G3072.scalarSize ∧
      (∃ e, spec3072.Valid e ∧ spec3072.abs e = msgAbs spec3072 P side (G3072.p2s pw) x ∧ ob = G3072.enc e) ∧
      ∀ (d' : Json.Dict) (w0 w1 : Bytes) (ws : Nat → PairWs),
        d'.Perm (dictOf side fp idA idB pw xs) → IsWs w0 → IsWs w1 → (∀ n, (ws n).Ok) →
        ∃ i', fromSerialized side (dumpsWs w0 w1 ws d') P = .ok i' ∧ Ready spec3072 i' x ob ∧
          i'.side = side ∧ i'.pw = pw ∧ i'.idA = idA ∧ (side ≠ .S → i'.idB = idB) ∧
          i'.params = P ∧ i'.xyScalar = some x ∧ i'.outbound = some ob :=
  C10.released_format_restores (G := G3072) spec3072 (PropAux.validParams_of_mkParams _ hP) side hpw hA hB hx harb

/-- `released_format_restores` for Ed25519 with the constants generated from the current source; the parameter set is any one built by `mkParams` (valid by `arb_valid`). -/
theorem released_format_restores_ed25519 {mSeed nSeed sSeed : Bytes} {P : Params GEd}
    (hP : mkParams GEd mSeed nSeed sSeed = .ok P)
    (side : Side) {pw idA idB : Bytes} (hpw : IsBytes pw) (hA : IsBytes idA) (hB : IsBytes idB)
    {x : ℤ} (hx : 0 ≤ x ∧ x < (specGen.q : ℤ)) {a0 : GEd.Elem} (harb : GEd.arb [] = .ok a0) :
    ∃ fp xs ob, (Inst.new side pw idA idB P ⟨[]⟩).hashParams = .ok fp ∧
      GEd.scalarEnc x = .ok xs ∧ xs.length = GEd.scalarSize ∧
      (∃ e, specGen.Valid e ∧ specGen.abs e = msgAbs specGen P side (GEd.p2s pw) x ∧ ob = GEd.enc e) ∧
      ∀ (d' : Json.Dict) (w0 w1 : Bytes) (ws : Nat → PairWs),
        d'.Perm (dictOf side fp idA idB pw xs) → IsWs w0 → IsWs w1 → (∀ n, (ws n).Ok) →
        ∃ i', fromSerialized side (dumpsWs w0 w1 ws d') P = .ok i' ∧ Ready specGen i' x ob ∧
          i'.side = side ∧ i'.pw = pw ∧ i'.idA = idA ∧ (side ≠ .S → i'.idB = idB) ∧
          i'.params = P ∧ i'.xyScalar = some x ∧ i'.outbound = some ob :=
  C10.released_format_restores (G := GEd) specGen (PropAux.validParams_of_mkParams _ hP) side hpw hA hB hx harb

/-- `released_format_restores` for Ed25519 with the literal RFC 8032 constants; the parameter set is any one built by `mkParams` (valid by `arb_valid`). -/
theorem released_format_restores_ed25519_published {mSeed nSeed sSeed : Bytes} {P : Params GEdPub}
    (hP : mkParams GEdPub mSeed nSeed sSeed = .ok P)
    (side : Side) {pw idA idB : Bytes} (hpw : IsBytes pw) (hA : IsBytes idA) (hB : IsBytes idB)
    {x : ℤ} (hx : 0 ≤ x ∧ x < (specPublished.q : ℤ)) {a0 : GEdPub.Elem} (harb : GEdPub.arb [] = .ok a0) :
    ∃ fp xs ob, (Inst.new side pw idA idB P ⟨[]⟩).hashParams = .ok fp ∧
      GEdPub.scalarEnc x = .ok xs ∧ xs.length = GEdPub.scalarSize ∧
      (∃ e, specPublished.Valid e ∧ specPublished.abs e = msgAbs specPublished P side (GEdPub.p2s pw) x ∧ ob = GEdPub.enc e) ∧
      ∀ (d' : Json.Dict) (w0 w1 : Bytes) (ws : Nat → PairWs),
        d'.Perm (dictOf side fp idA idB pw xs) → IsWs w0 → IsWs w1 → (∀ n, (ws n).Ok) →
        ∃ i', fromSerialized side (dumpsWs w0 w1 ws d') P = .ok i' ∧ Ready specPublished i' x ob ∧
          i'.side = side ∧ i'.pw = pw ∧ i'.idA = idA ∧ (side ≠ .S → i'.idB = idB) ∧
          i'.params = P ∧ i'.xyScalar = some x ∧ i'.outbound = some ob :=
  C10.released_format_restores (G := GEdPub) specPublished (PropAux.validParams_of_mkParams _ hP) side hpw hA hB hx harb

/-! ### non-vacuity -/

/-- the hypotheses of `released_format_restores` hold on the toy group -/
example : ∃ hp xs ob, (Inst.new (G := toyG) .S [1] [7] [] toyParams ⟨[]⟩).hashParams = .ok hp ∧
    toyG.scalarEnc 4 = .ok xs ∧ xs.length = toyG.scalarSize ∧
    (∃ e, toySpec.Valid e ∧ toySpec.abs e = msgAbs toySpec toyParams .S (toyG.p2s [1]) 4 ∧
      ob = toyG.enc e) ∧ True := by
  obtain ⟨hp, xs, ob, h1, h2, h3, h4, -⟩ := released_format_restores toySpec toy_valid .S
    (pw := [1]) (idA := [7]) (idB := []) (by decide) (by decide) (by decide) (x := 4)
    ⟨by decide, by decide⟩ toyG_arb_empty
  exact ⟨hp, xs, ob, h1, h2, h3, h4, trivial⟩

/-- concrete evaluation (kernel): a hand-written released-format object for the toy symmetric
session -- members in a different order, spaces, tab, CR and LF as whitespace -- restores to the
session with scalar 4, password `01`, identity `07`, the outbound element `[4]` the original
session sent, started and unfinished -/
example :
    (fromSerialized (G := toyG) .S
      (asciiOf ("  {\"xy_scalar\" : \"04\",\n\t\"password\":\"01\", \"idS\": \"07\" , " ++
        "\"side\":\"S\", \"hashed_params\": \"" ++
        "d6a0facb8d648bf4375fc49aff52ef38cf442087e539a8ea26667b31be82539b" ++ "\"}\r\n"))
      toyParams).toOption.map (fun i => (i.xyScalar, i.pw, i.idA)) = some (some 4, [1], [7]) ∧
    (fromSerialized (G := toyG) .S
      (asciiOf ("  {\"xy_scalar\" : \"04\",\n\t\"password\":\"01\", \"idS\": \"07\" , " ++
        "\"side\":\"S\", \"hashed_params\": \"" ++
        "d6a0facb8d648bf4375fc49aff52ef38cf442087e539a8ea26667b31be82539b" ++ "\"}\r\n"))
      toyParams).toOption.map (fun i => (i.outbound, i.started, i.finished)) =
        some (some [4], true, false) ∧
    (Inst.new (G := toyG) .S [1] [7] [] toyParams ⟨[4]⟩).start.1.outbound = some [4] := by
  refine ⟨by decide +kernel, by decide +kernel, by decide +kernel⟩

/-- … and the tree-side direction: `serialize()` of that session is the released-format text -/
example :
    (Inst.new (G := toyG) .S [1] [7] [] toyParams ⟨[4]⟩).start.1.serialize =
      .ok (asciiOf ("{\"hashed_params\": \"" ++
        "d6a0facb8d648bf4375fc49aff52ef38cf442087e539a8ea26667b31be82539b" ++
        "\", \"side\": \"S\", \"idS\": \"07\", \"password\": \"01\", \"xy_scalar\": \"04\"}")) := by
  decide +kernel

/-- Tie A: the member names, their order and the field each value is taken from are those of the
*source* -- `_serialize_to_dict` as read off the code by `tools/py2lean.py` (`dict_keys_*`), and
`hashed_params` hashes the translated pieces -/
theorem state_dictionary_is_the_source {G : Group} (i : Inst G) :
    (i.side ≠ .S → i.toDict = ProtoShapeTie.toDictVia i Spake2Model.Gen.Proto.dict_keys_asym) ∧
    (i.side = .S → i.toDict = ProtoShapeTie.toDictVia i Spake2Model.Gen.Proto.dict_keys_sym) ∧
    i.hashParams = (do
      let a ← G.arb []
      let s ← G.scalarEnc (G.p2s [])
      pure (hexlify (Sha.sha256 (ProtoShapeTie.hashPieces i.side (G.enc a) s
        (G.enc i.params.M) (G.enc i.params.N) (G.enc i.params.S)).flatten))) :=
  ⟨ProtoShapeTie.toDict_tie_asym i, ProtoShapeTie.toDict_tie_sym i, (ProtoShapeTie.hashParams_tie i).1⟩

end Spake2Verif.C10
