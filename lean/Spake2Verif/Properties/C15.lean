import Spake2Verif.Proofs.UtilProofs
import Spake2Verif.Proofs.PropAuxB1
import Spake2Verif.Proofs.GroupShapeTie
/-!
# C15 — Number, scalar and element encodings are fixed-width bijections

Statement (properties.jsonl):
"number_to_bytes(n, maxval) is the big-endian encoding of n in exactly size_bytes(maxval) bytes for every
0 <= n <= maxval, bytes_to_number inverts it, and n > maxval raises.  In every group
scalar_to_bytes/bytes_to_scalar are mutually inverse on [0,q) with exactly scalar_size_bytes bytes (big-endian for
integer groups, little-endian for Ed25519), and to_bytes/bytes_to_element are mutually inverse on subgroup elements
(for Ed25519: other than the identity) with exactly element_size_bytes bytes, distinct elements having distinct
encodings."

Clause → theorem
* util.py codecs (`size_bits`, `size_bytes`, `number_to_bytes`, `bytes_to_number`; width, big-endian value,
  both round trips, `ValueError` above `maxval`, injectivity)   : `util_codecs` (the *generated* `Gen.Util.size_bits/size_bytes`)
  `number_to_bytes` is literally big-endian                      : `number_to_bytes_is_big_endian`
  image = canonical-length strings with value ≤ maxval           : `number_to_bytes_image`
* scalar codecs, every group (`GroupSpec`)                       : `scalar_codec` (enc then dec = id on `[0,q)`, exact width)
  integer groups, explicit big-endian, any `(p,q,g)`             : `scalar_codec_int` (enc → dec), `scalar_codec_int_inv` (dec → enc)
  Ed25519, explicit little-endian 32 bytes                       : `scalar_codec_ed` (enc → dec), `scalar_codec_ed_inv` (dec → enc),
                                                                   `scalar_size_ed` (the generated constant 32)
* element codecs, every group (`GroupSpec`)                      : `element_dec_enc` (dec∘enc on valid elements, identity excluded
                                                                   iff the group refuses it), `element_enc_dec` (= `dec_strict`: an
                                                                   accepted byte string is the encoding of the valid element returned),
                                                                   `element_enc_inj` (distinct elements ⇔ distinct encodings),
                                                                   `element_enc_len` (exact width, bytes),
                                                                   `element_identity_refused` (Ed25519-style groups refuse the identity)
  integer groups: equality on the nose, big-endian layout        : `element_codec_int`
  Ed25519 (any curve with `CurveOK`; the shipped curve)          : `element_codec_ed`, `element_codec_ed25519`, layout
                                                                   `element_layout_ed` (LE32 of `y + 2^255·(x mod 2)`)
* instances exist                                                : `examples` at the end (toy group (23,11,2), shipped groups, Ed25519)

Assumed / partial
* Nothing is assumed for the util codecs, the integer groups (any `1 < p`, `0 < q`, `0 < g < p` with `pow(g,q,p) = 1`;
  **no primality**) or Ed25519 (`CurveOK` is *proved* for the constants generated from the current source:
  `curveOK_gen`).
* `Bytes = List Nat`; hypotheses `IsBytes b` restrict to lists a Python `bytes` object can be.
* Ed25519 `bytes_to_scalar` does not range-check: it accepts every 32-byte string (also values ≥ L).  The clause
  "mutually inverse on [0,q)" is therefore stated as: enc→dec is the identity on `[0,L)`, and dec→enc is the identity on the
  32-byte strings whose value is `< L` (`scalar_codec_ed_inv`).  For integer groups `bytes_to_scalar` checks the range itself.
* The theorems are about the model with fix F4 (canonical, exact-length Ed25519 decoding) — on the pinned tree the
  `enc∘dec` direction fails on Ed25519 (see C05 / known findings).
-/
namespace Spake2Verif.C15
open Spake2Model Spake2Model.Gen

/-- **util.py codecs** (restatement of `C15_util_codecs`) -/
theorem util_codecs (maxval : Int) (hm : 0 ≤ maxval) :
    (Util.size_bits 0 = 1) ∧
    (Util.size_bits maxval = (sizeBits maxval : Int)) ∧
    (0 < maxval → (2 : Int) ^ (sizeBits maxval - 1) ≤ maxval ∧ maxval < (2 : Int) ^ sizeBits maxval) ∧
    (Util.size_bytes maxval = (sizeBytes maxval : Int)) ∧
    (sizeBytes maxval = (sizeBits maxval + 7) / 8) ∧
    (maxval.toNat < 256 ^ sizeBytes maxval) ∧
    (∀ n, 0 ≤ n → n ≤ maxval → ∃ b, numberToBytes n maxval = .ok b ∧
        b.length = sizeBytes maxval ∧ IsBytes b ∧ (beToNat b : Int) = n) ∧
    (∀ n, maxval < n → numberToBytes n maxval = raise .ValueError) ∧
    (∀ b, b ≠ [] → bytesToNumber b = .ok (beToNat b : Int)) ∧
    (∀ n b, numberToBytes n maxval = .ok b → bytesToNumber b = .ok n) ∧
    (∀ b, IsBytes b → b.length = sizeBytes maxval → (beToNat b : Int) ≤ maxval →
        numberToBytes (beToNat b : Int) maxval = .ok b) ∧
    (∀ n₁ n₂, 0 ≤ n₁ → n₁ ≤ maxval → 0 ≤ n₂ → n₂ ≤ maxval →
        numberToBytes n₁ maxval = numberToBytes n₂ maxval → n₁ = n₂) :=
  C15_util_codecs maxval hm

/-- `number_to_bytes(n, maxval)` is the big-endian `size_bytes(maxval)`-byte string of `n` -/
theorem number_to_bytes_is_big_endian {n maxval : Int} (h0 : 0 ≤ n) (h1 : n ≤ maxval) :
    numberToBytes n maxval = .ok (natToBE (sizeBytes maxval) n.toNat) :=
  numberToBytes_ok h0 h1

/-- the image of `number_to_bytes(·, maxval)` -/
theorem number_to_bytes_image {maxval : Int} {b : Bytes} :
    (∃ n, numberToBytes n maxval = .ok b) ↔
      IsBytes b ∧ b.length = sizeBytes maxval ∧ (beToNat b : Int) ≤ maxval :=
  numberToBytes_image

/-! ### scalar codecs -/

/-- every group: `bytes_to_scalar (scalar_to_bytes x) = x` on `[0,q)`, exactly `scalar_size_bytes` bytes -/
theorem scalar_codec {G : Group} (S : GroupSpec G) (x : ℤ) (h0 : 0 ≤ x) (h1 : x < S.q) :
    ∃ b, G.scalarEnc x = .ok b ∧ b.length = G.scalarSize ∧ IsBytes b ∧ G.scalarDec b = .ok x :=
  S.scalar_rt x h0 h1

/-- integer groups (any `p, q, g`): `scalar_to_bytes` is big-endian in `size_bytes(q)` bytes, and decodes back -/
theorem scalar_codec_int (P : IntGroupParams) (x : Int) (h0 : 0 ≤ x) (h1 : x < P.q) :
    (intGroup P).scalarSize = sizeBytes P.q ∧
    (intGroup P).scalarEnc x = .ok (natToBE (sizeBytes P.q) x.toNat) ∧
    (intGroup P).scalarDec (natToBE (sizeBytes P.q) x.toNat) = .ok x :=
  ⟨rfl, PropAuxB.ig_scalarEnc_eq P h0 (le_of_lt h1), PropAuxB.ig_scalarDec_enc P h0 h1⟩

/-- integer groups: an accepted scalar string has the right width, its big-endian value is in `[0,q)`,
and re-encodes to itself -/
theorem scalar_codec_int_inv (P : IntGroupParams) (b : Bytes) (x : Int) (hb : IsBytes b)
    (h : (intGroup P).scalarDec b = .ok x) :
    b.length = sizeBytes P.q ∧ x = (beToNat b : Int) ∧ 0 ≤ x ∧ x < P.q ∧
      (intGroup P).scalarEnc x = .ok b :=
  PropAuxB.ig_scalarDec_sound P hb h

/-- Ed25519: `scalar_to_bytes` is little-endian in 32 bytes, and decodes back, on `[0,L)` -/
theorem scalar_codec_ed (c : Curve) (h : CurveOK c) (x : Int) (h0 : 0 ≤ x) (h1 : x < c.L) :
    (edGroup c).scalarEnc x = .ok (natToLE 32 x.toNat) ∧
    (edGroup c).scalarDec (natToLE 32 x.toNat) = .ok x :=
  ⟨PropAuxB.ed_scalarEnc_eq c h.L_lt h0 h1, PropAuxB.ed_scalarDec_enc h0 (lt_trans h1 h.L_lt)⟩

/-- Ed25519: an accepted scalar string has 32 bytes and its little-endian value is returned (no range
check); when that value is below `L` it re-encodes to the same string -/
theorem scalar_codec_ed_inv (c : Curve) (h : CurveOK c) (b : Bytes) (x : Int) (hb : IsBytes b)
    (hd : (edGroup c).scalarDec b = .ok x) :
    b.length = 32 ∧ x = (leToNat b : Int) ∧ (x < c.L → (edGroup c).scalarEnc x = .ok b) :=
  ⟨(PropAuxB.ed_scalarDec_sound hd).1, (PropAuxB.ed_scalarDec_sound hd).2,
   fun hx => PropAuxB.ed_scalarEnc_dec c h.L_lt hb hd hx⟩

/-- the widths generated from the current source -/
theorem scalar_size_ed (c : Curve) : (edGroup c).scalarSize = 32 ∧ (edGroup c).elemSize = 32 := ⟨rfl, rfl⟩

/-! ### element codecs -/

/-- every group: `bytes_to_element (to_bytes a)` returns (an object for) `a`, for every valid `a` that is not an
identity the group refuses -/
theorem element_dec_enc {G : Group} (S : GroupSpec G) (a : G.Elem) (va : S.Valid a)
    (hnz : S.rejectsIdentity = true → S.abs a ≠ 0) :
    ∃ e, G.dec (G.enc a) = .ok e ∧ S.Valid e ∧ S.abs e = S.abs a ∧ G.enc e = G.enc a := by
  obtain ⟨e, he, hab⟩ := S.dec_enc a va hnz
  obtain ⟨ve, hee⟩ := S.dec_strict _ e (S.enc_len a va).2 he
  exact ⟨e, he, ve, hab, hee⟩

/-- every group: an accepted byte string is the encoding of the valid element returned -/
theorem element_enc_dec {G : Group} (S : GroupSpec G) (b : Bytes) (e : G.Elem) (hb : IsBytes b)
    (h : G.dec b = .ok e) : S.Valid e ∧ G.enc e = b ∧ b.length = G.elemSize := by
  obtain ⟨ve, hee⟩ := S.dec_strict b e hb h
  exact ⟨ve, hee, hee ▸ (S.enc_len e ve).1⟩

/-- every group: equal encodings ⇔ equal elements (distinct elements have distinct encodings) -/
theorem element_enc_inj {G : Group} (S : GroupSpec G) (a b : G.Elem) (va : S.Valid a) (vb : S.Valid b) :
    G.enc a = G.enc b ↔ S.abs a = S.abs b :=
  S.enc_inj a b va vb

/-- every group: exactly `element_size_bytes` bytes -/
theorem element_enc_len {G : Group} (S : GroupSpec G) (a : G.Elem) (va : S.Valid a) :
    (G.enc a).length = G.elemSize ∧ IsBytes (G.enc a) :=
  S.enc_len a va

/-- a group that refuses the identity refuses its encoding, and never returns it -/
theorem element_identity_refused {G : Group} (S : GroupSpec G) (hr : S.rejectsIdentity = true) :
    (∀ a, S.Valid a → S.abs a = 0 → ∃ err, G.dec (G.enc a) = .error err) ∧
    (∀ b e, IsBytes b → G.dec b = .ok e → S.abs e ≠ 0) :=
  ⟨S.dec_zero hr, S.dec_nonzero hr⟩

/-- integer groups, any accepted `(p,q,g)`: `to_bytes` is big-endian in `size_bytes(p)` bytes, decoding returns the
same integer, the identity included; accepted strings are canonical; equal encodings mean equal integers -/
theorem element_codec_int (P : IntGroupParams) (hp : 1 < P.p) (hq : 0 < P.q) (hg : 0 < P.g ∧ P.g < P.p)
    (hctor : IntGroup.ctor_ok P.p P.q P.g = true) :
    (intGroupSpec P hp hq hg hctor).rejectsIdentity = false ∧
    (∀ a, (intGroupSpec P hp hq hg hctor).Valid a →
      (intGroup P).enc a = natToBE (sizeBytes P.p) a.toNat ∧
      ((intGroup P).enc a).length = (intGroup P).elemSize ∧
      (intGroup P).dec ((intGroup P).enc a) = .ok a) ∧
    (∀ b e, IsBytes b → (intGroup P).dec b = .ok e →
      (intGroupSpec P hp hq hg hctor).Valid e ∧ (intGroup P).enc e = b) ∧
    (∀ a b, (intGroupSpec P hp hq hg hctor).Valid a → (intGroupSpec P hp hq hg hctor).Valid b →
      (intGroup P).enc a = (intGroup P).enc b → a = b) :=
  ⟨rfl,
   fun a va => ⟨IntGroupSpec.enc_eq va, (IntGroupSpec.enc_len a va).1, IntGroupSpec.dec_enc a va⟩,
   fun b e hb h => IntGroupSpec.dec_strict b e hb h,
   fun a b va vb he =>
     intGroupSpec_abs_inj P hp hq hg hctor va vb (((intGroupSpec P hp hq hg hctor).enc_inj a b va vb).1 he)⟩

/-- Ed25519 on any curve with the side conditions `CurveOK` -/
theorem element_codec_ed (c : Curve) (h : CurveOK c) :
    (ed25519Spec c h).rejectsIdentity = true ∧
    (∀ a, (ed25519Spec c h).Valid a → (ed25519Spec c h).abs a ≠ 0 →
      ∃ e, (edGroup c).dec ((edGroup c).enc a) = .ok e ∧ (ed25519Spec c h).Valid e ∧
        (ed25519Spec c h).abs e = (ed25519Spec c h).abs a ∧ (edGroup c).enc e = (edGroup c).enc a) ∧
    (∀ a, (ed25519Spec c h).Valid a → (ed25519Spec c h).abs a = 0 →
      ∃ err, (edGroup c).dec ((edGroup c).enc a) = .error err) ∧
    (∀ b e, IsBytes b → (edGroup c).dec b = .ok e →
      (ed25519Spec c h).Valid e ∧ (edGroup c).enc e = b ∧ b.length = 32 ∧ (ed25519Spec c h).abs e ≠ 0) ∧
    (∀ a b, (ed25519Spec c h).Valid a → (ed25519Spec c h).Valid b →
      ((edGroup c).enc a = (edGroup c).enc b ↔ (ed25519Spec c h).abs a = (ed25519Spec c h).abs b)) ∧
    (∀ a, (ed25519Spec c h).Valid a → ((edGroup c).enc a).length = 32 ∧ IsBytes ((edGroup c).enc a)) :=
  ⟨rfl,
   fun a va hnz => element_dec_enc (ed25519Spec c h) a va (fun _ => hnz),
   fun a va hz => (ed25519Spec c h).dec_zero rfl a va hz,
   fun b e hb hd =>
     have r := element_enc_dec (ed25519Spec c h) b e hb hd
     ⟨r.1, r.2.1, r.2.2, (ed25519Spec c h).dec_nonzero rfl b e hb hd⟩,
   fun a b va vb => (ed25519Spec c h).enc_inj a b va vb,
   fun a va => (ed25519Spec c h).enc_len a va⟩

/-- the same for the curve whose constants are generated from the current source (`CurveOK` proved) -/
theorem element_codec_ed25519 :
    (∀ a, specGen.Valid a → specGen.abs a ≠ 0 →
      ∃ e, (edGroup ed25519).dec ((edGroup ed25519).enc a) = .ok e ∧ specGen.Valid e ∧
        specGen.abs e = specGen.abs a ∧ (edGroup ed25519).enc e = (edGroup ed25519).enc a) ∧
    (∀ b e, IsBytes b → (edGroup ed25519).dec b = .ok e →
      specGen.Valid e ∧ (edGroup ed25519).enc e = b ∧ b.length = 32 ∧ specGen.abs e ≠ 0) ∧
    (∀ a b, specGen.Valid a → specGen.Valid b →
      ((edGroup ed25519).enc a = (edGroup ed25519).enc b ↔ specGen.abs a = specGen.abs b)) :=
  have r := element_codec_ed ed25519 curveOK_gen
  ⟨r.2.1, r.2.2.2.1, r.2.2.2.2.1⟩

/-- Ed25519 `to_bytes` layout: 32 bytes, little-endian `y`, parity of `x` in the top bit -/
theorem element_layout_ed (c : Curve) (h : CurveOK c) (a : EdElem) (va : (ed25519Spec c h).Valid a) :
    have : Fact c.Q.toNat.Prime := h.fact
    ∃ P : Edw.Point (CurveOK.EC h), (ed25519Spec c h).abs a = P ∧
      (edGroup c).enc a = natToLE 32 (P.y.val + 2 ^ 255 * (P.x.val % 2)) :=
  PropAuxB.ed_enc_layout h a va

/-! ### non-vacuity -/

/-- the toy group `IntegerGroup(23, 11, 2)` meets all hypotheses; `4 = 2²` is a valid element -/
example : (intGroup ⟨23, 11, 2⟩).dec ((intGroup ⟨23, 11, 2⟩).enc (4 : Int)) = .ok (4 : Int) :=
  ((element_codec_int ⟨23, 11, 2⟩ (by decide) (by decide) (by decide) (by decide)).2.1 (4 : Int)
    (show IntGroupSpec.Valid ⟨23, 11, 2⟩ 4 from ⟨by decide, by decide, by decide⟩)).2.2

example : (intGroup ⟨23, 11, 2⟩).scalarEnc 10 = .ok [10] ∧ (intGroup ⟨23, 11, 2⟩).scalarDec [10] = .ok 10 :=
  (scalar_codec_int ⟨23, 11, 2⟩ 10 (by decide) (by decide)).2

/-- the shipped base point is a valid non-identity element, so the Ed25519 round trip is not vacuous -/
example : ∃ e, (edGroup ed25519).dec ((edGroup ed25519).enc (edGroup ed25519).base) = .ok e ∧
    (edGroup ed25519).enc e = (edGroup ed25519).enc (edGroup ed25519).base := by
  have hb : specGen.abs (edGroup ed25519).base ≠ 0 := by
    intro h0
    have := specGen_baseOrder 1 (by rw [one_zsmul]; exact h0)
    have hq : (specGen.q : ℤ) = ed25519.L := curveOK_gen.L_cast
    rw [hq] at this
    have h2 := curveOK_gen.L_gt
    have := Int.le_of_dvd one_pos this
    omega
  obtain ⟨e, he, -, -, hee⟩ := element_codec_ed25519.1 _ specGen.base_valid hb
  exact ⟨e, he, hee⟩

example : (edGroup ed25519).scalarEnc 258 = .ok (natToLE 32 258) :=
  (scalar_codec_ed ed25519 curveOK_gen 258 (by decide) (by decide +kernel)).1

/-! ### Tie A for the scalar codecs of both groups -/

/-- `IntegerGroup.bytes_to_scalar` (length assertion, `bytes_to_number`, `assert 0 <= i < q`) and `scalar_to_bytes`
(`number_to_bytes(i, q)`), the Ed25519 `bytes_to_scalar` (`assert len(s) == 32`, little-endian, no range check) and
`scalar_to_bytes` (`y % L`, `assert 0 <= y < 2**256`, 32 bytes little-endian), and the two size attributes ARE the
translation `Gen/GroupShape.lean` of the current source -/
theorem scalar_codecs_are_translated :
    (∀ (P : IntGroupParams) (b : Bytes),
      (intGroup P).scalarDec b = GroupShape.IntShape.bytes_to_scalar GroupShapeTie.modelPrims P.p P.q P.g b) ∧
    (∀ (P : IntGroupParams), 0 < P.q → ∀ (i : Int),
      (intGroup P).scalarEnc i = GroupShape.IntShape.scalar_to_bytes GroupShapeTie.modelPrims P.p P.q P.g i) ∧
    (∀ (P : IntGroupParams), ((intGroup P).scalarSize : Int) = GroupShape.IntShape.scalar_size_bytes P.p P.q P.g ∧
      ((intGroup P).elemSize : Int) = GroupShape.IntShape.element_size_bytes P.p P.q P.g) ∧
    (∀ (c : Curve) (b : Bytes), (edGroup c).scalarDec b =
      GroupShape.EdGroupShape.g_bytes_to_scalar GroupShapeTie.modelPrims c.Q c.L c.d c.I (Ed25519.zeroPt c) b) ∧
    (∀ (c : Curve) (y : Int), (edGroup c).scalarEnc y =
      GroupShape.EdGroupShape.g_scalar_to_bytes GroupShapeTie.modelPrims c.Q c.L c.d c.I (Ed25519.zeroPt c) y) ∧
    (∀ (c : Curve), ((edGroup c).scalarSize : Int) = GroupShape.EdGroupShape.g_scalar_size_bytes ∧
      ((edGroup c).elemSize : Int) = GroupShape.EdGroupShape.g_element_size_bytes) :=
  ⟨GroupShapeTie.int_scalarDec_tie, GroupShapeTie.int_scalarEnc_tie,
   fun P => (GroupShapeTie.int_consts_tie P).2.2.2,
   fun c => (GroupShapeTie.ed_codecs_tie c).1, fun c => (GroupShapeTie.ed_codecs_tie c).2.1,
   fun c => (GroupShapeTie.ed_codecs_tie c).2.2.2⟩

end Spake2Verif.C15
