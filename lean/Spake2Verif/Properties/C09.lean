import Spake2Verif.Proofs.PropAuxA
import Spake2Verif.Proofs.ProtoShapeTie
import Spake2Verif.Proofs.ProtoFlowTie
/-!
# C09 — Restoring under the wrong role or parameters is always detected

**Statement.** "from_serialized() never silently returns a wrongly configured instance: given state
saved by a different role (A, B, Symmetric) or under parameters that differ in the group or in any
blinding element that role uses, it raises (WrongSideSerialized for A/B state restored as another
role, WrongGroupError for a parameter mismatch).  Whenever it does return an instance, that instance
reproduces the original outbound message and derives the same keys as the original."

**Vocabulary.** `Ready S i x ob`: started, unfinished session (secret `x`, outbound encoding `ob`).
`i.hashParams` = `hash_params()` (hex of SHA-256 over `arbitrary_element(b"") ‖
scalar(password_to_scalar(b"")) ‖ M ‖ N`, symmetric: `… ‖ S`), `fpPieces` the hashed string.
`Collision`: an explicit pair of different strings with the same SHA-256.

**Clause → theorem.**
* what a *successful* restore has checked (any input bytes, any group object): the `"side"` member
  is the class's side byte and the `"hashed_params"` member equals the fingerprint of the supplied
  parameters: `restore_checks`.
* different role: A↔B and A/B→Symmetric raise `WrongSideSerialized`; Symmetric→A/B raises
  `KeyError` (there is no `"idA"` member) -- an error, as the statement requires:
  `restore_wrong_side`, `restore_wrong_side_started` (+ instances).
* parameter mismatch: different fingerprints ⇒ `WrongGroupError`: `restore_wrong_params`; a
  difference in a blinding element the role uses (`S` for Symmetric; `M` or `N` for A/B) is
  detected with `WrongGroupError`, unless a SHA-256 collision is exhibited:
  `restore_mismatch_detected`, `restore_mismatch_detected_started` (+ instances).
* what equal fingerprints bind (also across two group objects of equal widths):
  `fingerprint_binds`; restoring *across group objects*: `restore_cross_group_binds` (a successful
  restore of `G₁`-state by a `G₂`-class forces the same role and, collisions apart, equal encodings
  of `arbitrary_element(b"")`, of `password_to_scalar(b"")` and of the used blinding elements).
* "whenever it does return an instance, that instance reproduces the original outbound message
  and derives the same keys": `restored_equals_original` (parameters with the same encodings),
  `restore_other_params` / `restore_other_params_started` (+ instances): under *any* valid
  parameters of the same group object the restore fails, or exhibits a collision, or the restored
  session has the original outbound message and the same `finish()` result on every message.
* **known finding K2, stated honestly**: the fingerprint does not cover the generator of an
  integer group -- `fingerprint_ignores_generator` (the `hash_params()` of `IntegerGroup(p, q, g)`
  and of `IntegerGroup(p, q, g')` coincide for equal blinding elements), and the last `example`
  evaluates it: state saved under `IntegerGroup(23, 11, 2)` restores under `IntegerGroup(23, 11, 4)`
  and then sends a *different* message.  So "differ in the group" is detected only through
  `arbitrary_element(b"")`, `password_to_scalar(b"")`, `M`, `N`, `S` and the widths; for the four
  shipped parameter sets these differ (C03), for custom groups sharing `(p, q)` they need not.
  Repairing this would change `hashed_params` and contradict C10 (format stability).

**Assumed / remarks.**
* Password and identities are byte strings; `serialize()` succeeded.
* `Json.parse` is the model's parser (trusted correspondence with `json.loads`).
* The theorems compare parameter sets over one group object `G`, except `fingerprint_binds` and
  `restore_cross_group_binds` which relate two group objects of equal element and scalar widths.
-/
namespace Spake2Verif.C09
open Spake2Model Spake2Model.Gen Spake2Model.Transcript Spake2Verif.PropAux

/-- **C09 (checks).**  If `from_serialized` of the class `side` succeeds on *any* input under
parameters `P'`, the input is a JSON object whose `"side"` member is that class's side byte and
whose `"hashed_params"` member is the fingerprint of `P'` as computed by the restored session. -/
theorem restore_checks {G : Group} {side : Side} {data : Bytes} {P' : Params G} {i' : Inst G}
    (h : fromSerialized side data P' = .ok i') :
    ∃ d hp, Json.parse data = some d ∧
      getStr d k_side = .ok side.byte ∧
      getStr d k_hashed_params = .ok hp ∧ i'.hashParams = .ok hp ∧
      i'.side = side ∧ i'.params = P' :=
  Spake2Verif.restore_checks h

/-- **C09 (wrong role).**  Serialised state of a started session handed to another class:
`WrongSideSerialized` for A/B state, `KeyError` for symmetric state offered to A/B. -/
theorem restore_wrong_side {G : Group} (S : GroupSpec G) {i : Inst G} {x : ℤ} {ob s : Bytes}
    (h : Ready S i x ob) (hA : IsBytes i.idA) (hB : IsBytes i.idB) (hpw : IsBytes i.pw)
    (hs : i.serialize = .ok s) {side : Side} (hne : side ≠ i.side) (P' : Params G) :
    fromSerialized side s P' =
      .error (if i.side = .S then .other .KeyError else .WrongSideSerialized) :=
  Spake2Verif.restore_wrong_side S h hA hB hpw hs hne P'

/-- **C09 (wrong role), from construction**: the state of a session created as `side` and started,
offered to the class `side' ≠ side` under any parameters `Q`. -/
theorem restore_wrong_side_started {G : Group} (S : GroupSpec G) {P : Params G} (hP : ValidParams S P)
    {side : Side} {pw idA idB : Bytes} (hpw : IsBytes pw) (hidA : IsBytes idA) (hidB : IsBytes idB)
    {ent : Entropy} {a : Inst G} {m s : Bytes}
    (hst : (Inst.new side pw idA idB P ent).start = (a, .ok m)) (hs : a.serialize = .ok s)
    {side' : Side} (hne : side' ≠ side) (Q : Params G) :
    fromSerialized side' s Q =
      .error (if side = .S then .other .KeyError else .WrongSideSerialized) :=
  PropAux.restore_wrong_side_started S hP hpw hidA hidB hst hs hne Q

/-- `restore_wrong_side_started` for every integer group `IntegerGroup(p, q, g)` the constructor accepts (no primality assumption); the parameter set is any one built by `mkParams` (valid by `arb_valid`). -/
theorem restore_wrong_side_started_intgroup (IP : IntGroupParams) (hp : 1 < IP.p) (hq : 0 < IP.q) (hg : 0 < IP.g ∧ IP.g < IP.p)
    (hctor : IntGroup.ctor_ok IP.p IP.q IP.g = true)
    {mSeed nSeed sSeed : Bytes} {P : Params (intGroup IP)}
    (hP : mkParams (intGroup IP) mSeed nSeed sSeed = .ok P)
    {side : Side} {pw idA idB : Bytes} (hpw : IsBytes pw) (hidA : IsBytes idA) (hidB : IsBytes idB)
    {ent : Entropy} {a : Inst (intGroup IP)} {m s : Bytes}
    (hst : (Inst.new side pw idA idB P ent).start = (a, .ok m)) (hs : a.serialize = .ok s)
    {side' : Side} (hne : side' ≠ side) (Q : Params (intGroup IP)) :
    fromSerialized side' s Q =
      .error (if side = .S then .other .KeyError else .WrongSideSerialized) :=
  C09.restore_wrong_side_started (G := (intGroup IP)) (intGroupSpec IP hp hq hg hctor) (PropAux.validParams_of_mkParams _ hP) hpw hidA hidB hst hs hne Q

/-- `restore_wrong_side_started` for the shipped 1024-bit integer group (generated constants); the parameter set is any one built by `mkParams` (valid by `arb_valid`). -/
theorem restore_wrong_side_started_1024 {mSeed nSeed sSeed : Bytes} {P : Params G1024}
    (hP : mkParams G1024 mSeed nSeed sSeed = .ok P)
    {side : Side} {pw idA idB : Bytes} (hpw : IsBytes pw) (hidA : IsBytes idA) (hidB : IsBytes idB)
    {ent : Entropy} {a : Inst G1024} {m s : Bytes}
    (hst : (Inst.new side pw idA idB P ent).start = (a, .ok m)) (hs : a.serialize = .ok s)
    {side' : Side} (hne : side' ≠ side) (Q : Params G1024) :
    fromSerialized side' s Q =
      .error (if side = .S then .other .KeyError else .WrongSideSerialized) :=
  C09.restore_wrong_side_started (G := G1024) spec1024 (PropAux.validParams_of_mkParams _ hP) hpw hidA hidB hst hs hne Q

/-- `restore_wrong_side_started` for the shipped 2048-bit integer group (generated constants); the parameter set is any one built by `mkParams` (valid by `arb_valid`). -/
theorem restore_wrong_side_started_2048 {mSeed nSeed sSeed : Bytes} {P : Params G2048}
    (hP : mkParams G2048 mSeed nSeed sSeed = .ok P)
    {side : Side} {pw idA idB : Bytes} (hpw : IsBytes pw) (hidA : IsBytes idA) (hidB : IsBytes idB)
    {ent : Entropy} {a : Inst G2048} {m s : Bytes}
    (hst : (Inst.new side pw idA idB P ent).start = (a, .ok m)) (hs : a.serialize = .ok s)
    {side' : Side} (hne : side' ≠ side) (Q : Params G2048) :
    fromSerialized side' s Q =
      .error (if side = .S then .other .KeyError else .WrongSideSerialized) :=
  C09.restore_wrong_side_started (G := G2048) spec2048 (PropAux.validParams_of_mkParams _ hP) hpw hidA hidB hst hs hne Q

/-- `restore_wrong_side_started` for the shipped 3072-bit integer group (generated constants); the parameter set is any one built by `mkParams` (valid by `arb_valid`). -/
theorem restore_wrong_side_started_3072 {mSeed nSeed sSeed : Bytes} {P : Params G3072}
    (hP : mkParams G3072 mSeed nSeed sSeed = .ok P)
    {side : Side} {pw idA idB : Bytes} (hpw : IsBytes pw) (hidA : IsBytes idA) (hidB : IsBytes idB)
    {ent : Entropy} {a : Inst G3072} {m s : Bytes}
    (hst : (Inst.new side pw idA idB P ent).start = (a, .ok m)) (hs : a.serialize = .ok s)
    {side' : Side} (hne : side' ≠ side) (Q : Params G3072) :
    fromSerialized side' s Q =
      .error (if side = .S then .other .KeyError else .WrongSideSerialized) :=
  C09.restore_wrong_side_started (G := G3072) spec3072 (PropAux.validParams_of_mkParams _ hP) hpw hidA hidB hst hs hne Q

/-- `restore_wrong_side_started` for Ed25519 with the constants generated from the current source; the parameter set is any one built by `mkParams` (valid by `arb_valid`). -/
theorem restore_wrong_side_started_ed25519 {mSeed nSeed sSeed : Bytes} {P : Params GEd}
    (hP : mkParams GEd mSeed nSeed sSeed = .ok P)
    {side : Side} {pw idA idB : Bytes} (hpw : IsBytes pw) (hidA : IsBytes idA) (hidB : IsBytes idB)
    {ent : Entropy} {a : Inst GEd} {m s : Bytes}
    (hst : (Inst.new side pw idA idB P ent).start = (a, .ok m)) (hs : a.serialize = .ok s)
    {side' : Side} (hne : side' ≠ side) (Q : Params GEd) :
    fromSerialized side' s Q =
      .error (if side = .S then .other .KeyError else .WrongSideSerialized) :=
  C09.restore_wrong_side_started (G := GEd) specGen (PropAux.validParams_of_mkParams _ hP) hpw hidA hidB hst hs hne Q

/-- `restore_wrong_side_started` for Ed25519 with the literal RFC 8032 constants; the parameter set is any one built by `mkParams` (valid by `arb_valid`). -/
theorem restore_wrong_side_started_ed25519_published {mSeed nSeed sSeed : Bytes} {P : Params GEdPub}
    (hP : mkParams GEdPub mSeed nSeed sSeed = .ok P)
    {side : Side} {pw idA idB : Bytes} (hpw : IsBytes pw) (hidA : IsBytes idA) (hidB : IsBytes idB)
    {ent : Entropy} {a : Inst GEdPub} {m s : Bytes}
    (hst : (Inst.new side pw idA idB P ent).start = (a, .ok m)) (hs : a.serialize = .ok s)
    {side' : Side} (hne : side' ≠ side) (Q : Params GEdPub) :
    fromSerialized side' s Q =
      .error (if side = .S then .other .KeyError else .WrongSideSerialized) :=
  C09.restore_wrong_side_started (G := GEdPub) specPublished (PropAux.validParams_of_mkParams _ hP) hpw hidA hidB hst hs hne Q

/-- **C09 (wrong parameters).**  Same class, other parameters: if the fingerprints differ the
restore fails with `WrongGroupError`. -/
theorem restore_wrong_params {G : Group} (S : GroupSpec G) {i : Inst G} {x : ℤ}
    {ob s hp hp' : Bytes}
    (h : Ready S i x ob) (hA : IsBytes i.idA) (hB : IsBytes i.idB) (hpw : IsBytes i.pw)
    (hs : i.serialize = .ok s) (P' : Params G) (hh : i.hashParams = .ok hp)
    (hh' : (blank i.side i.pw i.idA i.idB P').hashParams = .ok hp') (hne : hp ≠ hp') :
    fromSerialized i.side s P' = .error .WrongGroupError :=
  Spake2Verif.restore_wrong_params S h hA hB hpw hs P' hh hh' hne

/-- **C09 (a differing blinding element is detected).**  Same group object; the parameters offered
on restore differ from the saved ones in (the encoding of) a blinding element the role uses: the
restore raises `WrongGroupError` -- or a SHA-256 collision is exhibited. -/
theorem restore_mismatch_detected {G : Group} (S : GroupSpec G) {i : Inst G} {x : ℤ}
    {ob s : Bytes}
    (h : Ready S i x ob) (hA : IsBytes i.idA) (hB : IsBytes i.idB) (hpw : IsBytes i.pw)
    (hs : i.serialize = .ok s) {P' : Params G} (hP' : ValidParams S P')
    (hdiff : (i.side = .S → G.enc P'.S ≠ G.enc i.params.S) ∧
      (i.side ≠ .S → G.enc P'.M ≠ G.enc i.params.M ∨ G.enc P'.N ≠ G.enc i.params.N)) :
    Collision ∨ fromSerialized i.side s P' = .error .WrongGroupError :=
  PropAux.restore_mismatch_detected S h hA hB hpw hs hP' hdiff

/-- **C09 (parameter mismatch), from construction**: state saved under `P`, restored by the same class
under `P'` that differs in a blinding element the role uses ⇒ `WrongGroupError` (or a collision). -/
theorem restore_mismatch_detected_started {G : Group} (S : GroupSpec G) {P : Params G} (hP : ValidParams S P) {P' : Params G} (hP' : ValidParams S P')
    {side : Side} {pw idA idB : Bytes} (hpw : IsBytes pw) (hidA : IsBytes idA) (hidB : IsBytes idB)
    {ent : Entropy} {a : Inst G} {m s : Bytes}
    (hst : (Inst.new side pw idA idB P ent).start = (a, .ok m)) (hs : a.serialize = .ok s)
    (hdiff : (side = .S → G.enc P'.S ≠ G.enc P.S) ∧
      (side ≠ .S → G.enc P'.M ≠ G.enc P.M ∨ G.enc P'.N ≠ G.enc P.N)) :
    Collision ∨ fromSerialized side s P' = .error .WrongGroupError :=
  PropAux.restore_mismatch_detected_started S hP hP' hpw hidA hidB hst hs hdiff

/-- `restore_mismatch_detected_started` for every integer group `IntegerGroup(p, q, g)` the constructor accepts (no primality assumption); the parameter set is any one built by `mkParams` (valid by `arb_valid`). -/
theorem restore_mismatch_detected_started_intgroup (IP : IntGroupParams) (hp : 1 < IP.p) (hq : 0 < IP.q) (hg : 0 < IP.g ∧ IP.g < IP.p)
    (hctor : IntGroup.ctor_ok IP.p IP.q IP.g = true)
    {mSeed1 nSeed1 sSeed1 : Bytes} {P : Params (intGroup IP)}
    (hP : mkParams (intGroup IP) mSeed1 nSeed1 sSeed1 = .ok P) {mSeed2 nSeed2 sSeed2 : Bytes} {P' : Params (intGroup IP)}
    (hP' : mkParams (intGroup IP) mSeed2 nSeed2 sSeed2 = .ok P')
    {side : Side} {pw idA idB : Bytes} (hpw : IsBytes pw) (hidA : IsBytes idA) (hidB : IsBytes idB)
    {ent : Entropy} {a : Inst (intGroup IP)} {m s : Bytes}
    (hst : (Inst.new side pw idA idB P ent).start = (a, .ok m)) (hs : a.serialize = .ok s)
    (hdiff : (side = .S → (intGroup IP).enc P'.S ≠ (intGroup IP).enc P.S) ∧
      (side ≠ .S → (intGroup IP).enc P'.M ≠ (intGroup IP).enc P.M ∨ (intGroup IP).enc P'.N ≠ (intGroup IP).enc P.N)) :
    Collision ∨ fromSerialized side s P' = .error .WrongGroupError :=
  C09.restore_mismatch_detected_started (G := (intGroup IP)) (intGroupSpec IP hp hq hg hctor) (PropAux.validParams_of_mkParams _ hP) (PropAux.validParams_of_mkParams _ hP') hpw hidA hidB hst hs hdiff

/-- `restore_mismatch_detected_started` for the shipped 1024-bit integer group (generated constants); the parameter set is any one built by `mkParams` (valid by `arb_valid`). -/
theorem restore_mismatch_detected_started_1024 {mSeed1 nSeed1 sSeed1 : Bytes} {P : Params G1024}
    (hP : mkParams G1024 mSeed1 nSeed1 sSeed1 = .ok P) {mSeed2 nSeed2 sSeed2 : Bytes} {P' : Params G1024}
    (hP' : mkParams G1024 mSeed2 nSeed2 sSeed2 = .ok P')
    {side : Side} {pw idA idB : Bytes} (hpw : IsBytes pw) (hidA : IsBytes idA) (hidB : IsBytes idB)
    {ent : Entropy} {a : Inst G1024} {m s : Bytes}
    (hst : (Inst.new side pw idA idB P ent).start = (a, .ok m)) (hs : a.serialize = .ok s)
    (hdiff : (side = .S → G1024.enc P'.S ≠ G1024.enc P.S) ∧
      (side ≠ .S → G1024.enc P'.M ≠ G1024.enc P.M ∨ G1024.enc P'.N ≠ G1024.enc P.N)) :
    Collision ∨ fromSerialized side s P' = .error .WrongGroupError :=
  C09.restore_mismatch_detected_started (G := G1024) spec1024 (PropAux.validParams_of_mkParams _ hP) (PropAux.validParams_of_mkParams _ hP') hpw hidA hidB hst hs hdiff

/-- `restore_mismatch_detected_started` for the shipped 2048-bit integer group (generated constants); the parameter set is any one built by `mkParams` (valid by `arb_valid`). -/
theorem restore_mismatch_detected_started_2048 {mSeed1 nSeed1 sSeed1 : Bytes} {P : Params G2048}
    (hP : mkParams G2048 mSeed1 nSeed1 sSeed1 = .ok P) {mSeed2 nSeed2 sSeed2 : Bytes} {P' : Params G2048}
    (hP' : mkParams G2048 mSeed2 nSeed2 sSeed2 = .ok P')
    {side : Side} {pw idA idB : Bytes} (hpw : IsBytes pw) (hidA : IsBytes idA) (hidB : IsBytes idB)
    {ent : Entropy} {a : Inst G2048} {m s : Bytes}
    (hst : (Inst.new side pw idA idB P ent).start = (a, .ok m)) (hs : a.serialize = .ok s)
    (hdiff : (side = .S → G2048.enc P'.S ≠ G2048.enc P.S) ∧
      (side ≠ .S → G2048.enc P'.M ≠ G2048.enc P.M ∨ G2048.enc P'.N ≠ G2048.enc P.N)) :
    Collision ∨ fromSerialized side s P' = .error .WrongGroupError :=
  C09.restore_mismatch_detected_started (G := G2048) spec2048 (PropAux.validParams_of_mkParams _ hP) (PropAux.validParams_of_mkParams _ hP') hpw hidA hidB hst hs hdiff

/-- `restore_mismatch_detected_started` for the shipped 3072-bit integer group (generated constants); the parameter set is any one built by `mkParams` (valid by `arb_valid`). -/
theorem restore_mismatch_detected_started_3072 {mSeed1 nSeed1 sSeed1 : Bytes} {P : Params G3072}
    (hP : mkParams G3072 mSeed1 nSeed1 sSeed1 = .ok P) {mSeed2 nSeed2 sSeed2 : Bytes} {P' : Params G3072}
    (hP' : mkParams G3072 mSeed2 nSeed2 sSeed2 = .ok P')
    {side : Side} {pw idA idB : Bytes} (hpw : IsBytes pw) (hidA : IsBytes idA) (hidB : IsBytes idB)
    {ent : Entropy} {a : Inst G3072} {m s : Bytes}
    (hst : (Inst.new side pw idA idB P ent).start = (a, .ok m)) (hs : a.serialize = .ok s)
    (hdiff : (side = .S → G3072.enc P'.S ≠ G3072.enc P.S) ∧
      (side ≠ .S → G3072.enc P'.M ≠ G3072.enc P.M ∨ G3072.enc P'.N ≠ G3072.enc P.N)) :
    Collision ∨ fromSerialized side s P' = .error .WrongGroupError :=
  C09.restore_mismatch_detected_started (G := G3072) spec3072 (PropAux.validParams_of_mkParams _ hP) (PropAux.validParams_of_mkParams _ hP') hpw hidA hidB hst hs hdiff

/-- `restore_mismatch_detected_started` for Ed25519 with the constants generated from the current source; the parameter set is any one built by `mkParams` (valid by `arb_valid`). -/
theorem restore_mismatch_detected_started_ed25519 {mSeed1 nSeed1 sSeed1 : Bytes} {P : Params GEd}
    (hP : mkParams GEd mSeed1 nSeed1 sSeed1 = .ok P) {mSeed2 nSeed2 sSeed2 : Bytes} {P' : Params GEd}
    (hP' : mkParams GEd mSeed2 nSeed2 sSeed2 = .ok P')
    {side : Side} {pw idA idB : Bytes} (hpw : IsBytes pw) (hidA : IsBytes idA) (hidB : IsBytes idB)
    {ent : Entropy} {a : Inst GEd} {m s : Bytes}
    (hst : (Inst.new side pw idA idB P ent).start = (a, .ok m)) (hs : a.serialize = .ok s)
    (hdiff : (side = .S → GEd.enc P'.S ≠ GEd.enc P.S) ∧
      (side ≠ .S → GEd.enc P'.M ≠ GEd.enc P.M ∨ GEd.enc P'.N ≠ GEd.enc P.N)) :
    Collision ∨ fromSerialized side s P' = .error .WrongGroupError :=
  C09.restore_mismatch_detected_started (G := GEd) specGen (PropAux.validParams_of_mkParams _ hP) (PropAux.validParams_of_mkParams _ hP') hpw hidA hidB hst hs hdiff

/-- `restore_mismatch_detected_started` for Ed25519 with the literal RFC 8032 constants; the parameter set is any one built by `mkParams` (valid by `arb_valid`). -/
theorem restore_mismatch_detected_started_ed25519_published {mSeed1 nSeed1 sSeed1 : Bytes} {P : Params GEdPub}
    (hP : mkParams GEdPub mSeed1 nSeed1 sSeed1 = .ok P) {mSeed2 nSeed2 sSeed2 : Bytes} {P' : Params GEdPub}
    (hP' : mkParams GEdPub mSeed2 nSeed2 sSeed2 = .ok P')
    {side : Side} {pw idA idB : Bytes} (hpw : IsBytes pw) (hidA : IsBytes idA) (hidB : IsBytes idB)
    {ent : Entropy} {a : Inst GEdPub} {m s : Bytes}
    (hst : (Inst.new side pw idA idB P ent).start = (a, .ok m)) (hs : a.serialize = .ok s)
    (hdiff : (side = .S → GEdPub.enc P'.S ≠ GEdPub.enc P.S) ∧
      (side ≠ .S → GEdPub.enc P'.M ≠ GEdPub.enc P.M ∨ GEdPub.enc P'.N ≠ GEdPub.enc P.N)) :
    Collision ∨ fromSerialized side s P' = .error .WrongGroupError :=
  C09.restore_mismatch_detected_started (G := GEdPub) specPublished (PropAux.validParams_of_mkParams _ hP) (PropAux.validParams_of_mkParams _ hP') hpw hidA hidB hst hs hdiff

/-- **C09 (what the fingerprint binds).**  Two sessions, possibly over different group objects with
equal element and scalar widths, of the same kind (both symmetric or both not): equal
`hash_params()` outputs exhibit a SHA-256 collision or force equal encodings of
`arbitrary_element(b"")`, of `password_to_scalar(b"")` and of the blinding elements (`M`, `N` resp.
`S`).  The generator and the group order enter only through these (finding K2). -/
theorem fingerprint_binds {G₁ G₂ : Group} (S₁ : GroupSpec G₁) (S₂ : GroupSpec G₂)
    {i₁ : Inst G₁} {i₂ : Inst G₂} (hP₁ : ValidParams S₁ i₁.params) (hP₂ : ValidParams S₂ i₂.params)
    (hel : G₁.elemSize = G₂.elemSize) (hsc : G₁.scalarSize = G₂.scalarSize)
    (hside : i₁.side = .S ↔ i₂.side = .S) {hp : Bytes}
    (h₁ : i₁.hashParams = .ok hp) (h₂ : i₂.hashParams = .ok hp) :
    Collision ∨ ∃ a₁ a₂ s₁ s₂, G₁.arb [] = .ok a₁ ∧ G₂.arb [] = .ok a₂ ∧
      G₁.scalarEnc (G₁.p2s []) = .ok s₁ ∧ G₂.scalarEnc (G₂.p2s []) = .ok s₂ ∧
      G₁.enc a₁ = G₂.enc a₂ ∧ s₁ = s₂ ∧
      (i₁.side = .S → G₁.enc i₁.params.S = G₂.enc i₂.params.S) ∧
      (i₁.side ≠ .S → G₁.enc i₁.params.M = G₂.enc i₂.params.M ∧
                      G₁.enc i₁.params.N = G₂.enc i₂.params.N) :=
  Spake2Verif.fingerprint_binds S₁ S₂ hP₁ hP₂ hel hsc hside h₁ h₂

/-- **C09 (restoring across group objects).**  State serialised by a started session over `G₁`,
accepted by `from_serialized` of class `side` over `G₂` (equal widths) under `P₂`: the class is the
saving class, and -- collisions apart -- the two groups agree on the encodings of
`arbitrary_element(b"")`, `password_to_scalar(b"")` and of the blinding elements the role uses. -/
theorem restore_cross_group_binds {G₁ G₂ : Group} (S₁ : GroupSpec G₁) (S₂ : GroupSpec G₂)
    {i : Inst G₁} {x : ℤ} {ob s : Bytes} (h : Ready S₁ i x ob) (hA : IsBytes i.idA)
    (hB : IsBytes i.idB) (hpw : IsBytes i.pw) (hs : i.serialize = .ok s)
    {side : Side} {P₂ : Params G₂} (hP₂ : ValidParams S₂ P₂) {i₂ : Inst G₂}
    (hr : fromSerialized side s P₂ = .ok i₂)
    (hel : G₁.elemSize = G₂.elemSize) (hsc : G₁.scalarSize = G₂.scalarSize) :
    side = i.side ∧ i₂.params = P₂ ∧
    (Collision ∨ ∃ a₁ a₂ s₁ s₂, G₁.arb [] = .ok a₁ ∧ G₂.arb [] = .ok a₂ ∧
      G₁.scalarEnc (G₁.p2s []) = .ok s₁ ∧ G₂.scalarEnc (G₂.p2s []) = .ok s₂ ∧
      G₁.enc a₁ = G₂.enc a₂ ∧ s₁ = s₂ ∧
      (i.side = .S → G₁.enc i.params.S = G₂.enc P₂.S) ∧
      (i.side ≠ .S → G₁.enc i.params.M = G₂.enc P₂.M ∧ G₁.enc i.params.N = G₂.enc P₂.N)) :=
  PropAux.restore_cross_group_binds S₁ S₂ h hA hB hpw hs hP₂ hr hel hsc

/-- **C09 (equivalent parameters).**  If the state of a started session is restored under
parameters whose blinding elements have the same encodings, the restored session has the same
outbound message and finishes to the same result on every byte string. -/
theorem restored_equals_original {G : Group} (S : GroupSpec G) {i i' : Inst G} {x : ℤ}
    {ob s : Bytes}
    (h : Ready S i x ob) (hA : IsBytes i.idA) (hB : IsBytes i.idB) (hpw : IsBytes i.pw)
    (hs : i.serialize = .ok s) {P' : Params G} (hP' : ValidParams S P')
    (hM : G.enc P'.M = G.enc i.params.M) (hN : G.enc P'.N = G.enc i.params.N)
    (hS : G.enc P'.S = G.enc i.params.S)
    (hr : fromSerialized i.side s P' = .ok i') :
    i'.outbound = some ob ∧ Ready S i' x ob ∧ i'.pw = i.pw ∧ i'.idA = i.idA ∧
      (i.side ≠ .S → i'.idB = i.idB) ∧
      ∀ m, IsBytes m → (i'.finish m).2 = (i.finish m).2 :=
  Spake2Verif.restored_equals_original S h hA hB hpw hs hP' hM hN hS hr

/-- **C09, combined.**  A restore of a started session's state under *any* valid parameters of the
same group object either fails, or exhibits a SHA-256 collision, or yields a session with the same
outbound message and the same `finish()` results. -/
theorem restore_other_params {G : Group} (S : GroupSpec G) {i i' : Inst G} {x : ℤ} {ob s : Bytes}
    (h : Ready S i x ob) (hA : IsBytes i.idA) (hB : IsBytes i.idB) (hpw : IsBytes i.pw)
    (hs : i.serialize = .ok s) {P' : Params G} (hP' : ValidParams S P')
    (hr : fromSerialized i.side s P' = .ok i') :
    Collision ∨ (i'.outbound = some ob ∧ ∀ m, IsBytes m → (i'.finish m).2 = (i.finish m).2) :=
  Spake2Verif.restore_other_params S h hA hB hpw hs hP' hr

/-- **C09, combined, from construction**: a session created under `P` and started (message `m`) is
serialised; `from_serialized` of the same class under any `P'` returned `a'`.  Then a collision is
exhibited, or `a'` has the original outbound message (`m` is `side ‖` that message) and returns the
same `finish()` result as the original on every message. -/
theorem restore_other_params_started {G : Group} (S : GroupSpec G) {P : Params G} (hP : ValidParams S P) {P' : Params G} (hP' : ValidParams S P')
    {side : Side} {pw idA idB : Bytes} (hpw : IsBytes pw) (hidA : IsBytes idA) (hidB : IsBytes idB)
    {ent : Entropy} {a a' : Inst G} {m s : Bytes}
    (hst : (Inst.new side pw idA idB P ent).start = (a, .ok m)) (hs : a.serialize = .ok s)
    (hr : fromSerialized side s P' = .ok a') :
    Collision ∨ (a'.outbound = a.outbound ∧ (∃ ob, a'.outbound = some ob ∧ m = side.byte ++ ob) ∧
      ∀ msg, IsBytes msg → (a'.finish msg).2 = (a.finish msg).2) :=
  PropAux.restore_other_params_started S hP hP' hpw hidA hidB hst hs hr

/-- `restore_other_params_started` for every integer group `IntegerGroup(p, q, g)` the constructor accepts (no primality assumption); the parameter set is any one built by `mkParams` (valid by `arb_valid`). -/
theorem restore_other_params_started_intgroup (IP : IntGroupParams) (hp : 1 < IP.p) (hq : 0 < IP.q) (hg : 0 < IP.g ∧ IP.g < IP.p)
    (hctor : IntGroup.ctor_ok IP.p IP.q IP.g = true)
    {mSeed1 nSeed1 sSeed1 : Bytes} {P : Params (intGroup IP)}
    (hP : mkParams (intGroup IP) mSeed1 nSeed1 sSeed1 = .ok P) {mSeed2 nSeed2 sSeed2 : Bytes} {P' : Params (intGroup IP)}
    (hP' : mkParams (intGroup IP) mSeed2 nSeed2 sSeed2 = .ok P')
    {side : Side} {pw idA idB : Bytes} (hpw : IsBytes pw) (hidA : IsBytes idA) (hidB : IsBytes idB)
    {ent : Entropy} {a a' : Inst (intGroup IP)} {m s : Bytes}
    (hst : (Inst.new side pw idA idB P ent).start = (a, .ok m)) (hs : a.serialize = .ok s)
    (hr : fromSerialized side s P' = .ok a') :
    Collision ∨ (a'.outbound = a.outbound ∧ (∃ ob, a'.outbound = some ob ∧ m = side.byte ++ ob) ∧
      ∀ msg, IsBytes msg → (a'.finish msg).2 = (a.finish msg).2) :=
  C09.restore_other_params_started (G := (intGroup IP)) (intGroupSpec IP hp hq hg hctor) (PropAux.validParams_of_mkParams _ hP) (PropAux.validParams_of_mkParams _ hP') hpw hidA hidB hst hs hr

/-- `restore_other_params_started` for the shipped 1024-bit integer group (generated constants); the parameter set is any one built by `mkParams` (valid by `arb_valid`). -/
theorem restore_other_params_started_1024 {mSeed1 nSeed1 sSeed1 : Bytes} {P : Params G1024}
    (hP : mkParams G1024 mSeed1 nSeed1 sSeed1 = .ok P) {mSeed2 nSeed2 sSeed2 : Bytes} {P' : Params G1024}
    (hP' : mkParams G1024 mSeed2 nSeed2 sSeed2 = .ok P')
    {side : Side} {pw idA idB : Bytes} (hpw : IsBytes pw) (hidA : IsBytes idA) (hidB : IsBytes idB)
    {ent : Entropy} {a a' : Inst G1024} {m s : Bytes}
    (hst : (Inst.new side pw idA idB P ent).start = (a, .ok m)) (hs : a.serialize = .ok s)
    (hr : fromSerialized side s P' = .ok a') :
    Collision ∨ (a'.outbound = a.outbound ∧ (∃ ob, a'.outbound = some ob ∧ m = side.byte ++ ob) ∧
      ∀ msg, IsBytes msg → (a'.finish msg).2 = (a.finish msg).2) :=
  C09.restore_other_params_started (G := G1024) spec1024 (PropAux.validParams_of_mkParams _ hP) (PropAux.validParams_of_mkParams _ hP') hpw hidA hidB hst hs hr

/-- `restore_other_params_started` for the shipped 2048-bit integer group (generated constants); the parameter set is any one built by `mkParams` (valid by `arb_valid`). -/
theorem restore_other_params_started_2048 {mSeed1 nSeed1 sSeed1 : Bytes} {P : Params G2048}
    (hP : mkParams G2048 mSeed1 nSeed1 sSeed1 = .ok P) {mSeed2 nSeed2 sSeed2 : Bytes} {P' : Params G2048}
    (hP' : mkParams G2048 mSeed2 nSeed2 sSeed2 = .ok P')
    {side : Side} {pw idA idB : Bytes} (hpw : IsBytes pw) (hidA : IsBytes idA) (hidB : IsBytes idB)
    {ent : Entropy} {a a' : Inst G2048} {m s : Bytes}
    (hst : (Inst.new side pw idA idB P ent).start = (a, .ok m)) (hs : a.serialize = .ok s)
    (hr : fromSerialized side s P' = .ok a') :
    Collision ∨ (a'.outbound = a.outbound ∧ (∃ ob, a'.outbound = some ob ∧ m = side.byte ++ ob) ∧
      ∀ msg, IsBytes msg → (a'.finish msg).2 = (a.finish msg).2) :=
  C09.restore_other_params_started (G := G2048) spec2048 (PropAux.validParams_of_mkParams _ hP) (PropAux.validParams_of_mkParams _ hP') hpw hidA hidB hst hs hr

/-- `restore_other_params_started` for the shipped 3072-bit integer group (generated constants); the parameter set is any one built by `mkParams` (valid by `arb_valid`). -/
theorem restore_other_params_started_3072 {mSeed1 nSeed1 sSeed1 : Bytes} {P : Params G3072}
    (hP : mkParams G3072 mSeed1 nSeed1 sSeed1 = .ok P) {mSeed2 nSeed2 sSeed2 : Bytes} {P' : Params G3072}
    (hP' : mkParams G3072 mSeed2 nSeed2 sSeed2 = .ok P')
    {side : Side} {pw idA idB : Bytes} (hpw : IsBytes pw) (hidA : IsBytes idA) (hidB : IsBytes idB)
    {ent : Entropy} {a a' : Inst G3072} {m s : Bytes}
    (hst : (Inst.new side pw idA idB P ent).start = (a, .ok m)) (hs : a.serialize = .ok s)
    (hr : fromSerialized side s P' = .ok a') :
    Collision ∨ (a'.outbound = a.outbound ∧ (∃ ob, a'.outbound = some ob ∧ m = side.byte ++ ob) ∧
      ∀ msg, IsBytes msg → (a'.finish msg).2 = (a.finish msg).2) :=
  C09.restore_other_params_started (G := G3072) spec3072 (PropAux.validParams_of_mkParams _ hP) (PropAux.validParams_of_mkParams _ hP') hpw hidA hidB hst hs hr

/-- `restore_other_params_started` for Ed25519 with the constants generated from the current source; the parameter set is any one built by `mkParams` (valid by `arb_valid`). -/
theorem restore_other_params_started_ed25519 {mSeed1 nSeed1 sSeed1 : Bytes} {P : Params GEd}
    (hP : mkParams GEd mSeed1 nSeed1 sSeed1 = .ok P) {mSeed2 nSeed2 sSeed2 : Bytes} {P' : Params GEd}
    (hP' : mkParams GEd mSeed2 nSeed2 sSeed2 = .ok P')
    {side : Side} {pw idA idB : Bytes} (hpw : IsBytes pw) (hidA : IsBytes idA) (hidB : IsBytes idB)
    {ent : Entropy} {a a' : Inst GEd} {m s : Bytes}
    (hst : (Inst.new side pw idA idB P ent).start = (a, .ok m)) (hs : a.serialize = .ok s)
    (hr : fromSerialized side s P' = .ok a') :
    Collision ∨ (a'.outbound = a.outbound ∧ (∃ ob, a'.outbound = some ob ∧ m = side.byte ++ ob) ∧
      ∀ msg, IsBytes msg → (a'.finish msg).2 = (a.finish msg).2) :=
  C09.restore_other_params_started (G := GEd) specGen (PropAux.validParams_of_mkParams _ hP) (PropAux.validParams_of_mkParams _ hP') hpw hidA hidB hst hs hr

/-- `restore_other_params_started` for Ed25519 with the literal RFC 8032 constants; the parameter set is any one built by `mkParams` (valid by `arb_valid`). -/
theorem restore_other_params_started_ed25519_published {mSeed1 nSeed1 sSeed1 : Bytes} {P : Params GEdPub}
    (hP : mkParams GEdPub mSeed1 nSeed1 sSeed1 = .ok P) {mSeed2 nSeed2 sSeed2 : Bytes} {P' : Params GEdPub}
    (hP' : mkParams GEdPub mSeed2 nSeed2 sSeed2 = .ok P')
    {side : Side} {pw idA idB : Bytes} (hpw : IsBytes pw) (hidA : IsBytes idA) (hidB : IsBytes idB)
    {ent : Entropy} {a a' : Inst GEdPub} {m s : Bytes}
    (hst : (Inst.new side pw idA idB P ent).start = (a, .ok m)) (hs : a.serialize = .ok s)
    (hr : fromSerialized side s P' = .ok a') :
    Collision ∨ (a'.outbound = a.outbound ∧ (∃ ob, a'.outbound = some ob ∧ m = side.byte ++ ob) ∧
      ∀ msg, IsBytes msg → (a'.finish msg).2 = (a.finish msg).2) :=
  C09.restore_other_params_started (G := GEdPub) specPublished (PropAux.validParams_of_mkParams _ hP) (PropAux.validParams_of_mkParams _ hP') hpw hidA hidB hst hs hr

/-- **known finding K2.**  `hash_params()` of an integer group never reads the generator: for equal
`p`, `q` and equal blinding elements the fingerprints of `IntegerGroup(p, q, g)` and
`IntegerGroup(p, q, g')` are the same (for every role, password, identities). -/
theorem fingerprint_ignores_generator (p q g g' : ℤ) (side : Side) (pw idA idB : Bytes)
    (M N S' : ℤ) (ent : Entropy) :
    (Inst.new (G := intGroup ⟨p, q, g⟩) side pw idA idB ⟨M, N, S'⟩ ent).hashParams =
    (Inst.new (G := intGroup ⟨p, q, g'⟩) side pw idA idB ⟨M, N, S'⟩ ent).hashParams :=
  PropAux.fingerprint_ignores_generator p q g g' side pw idA idB M N S' ent

/-! ### non-vacuity -/

/-- hypotheses of the `_started` theorems: a started toy session whose `serialize()` succeeds -/
example : ∃ (a : Inst toyG) (m s : Bytes),
    (Inst.new .A [1] [1] [2] toyParams ⟨[4]⟩).start = (a, .ok m) ∧ a.serialize = .ok s := by
  obtain ⟨a, m, hA, -⟩ := toy_start .A [1] [1] [2] 4 (by decide)
  obtain ⟨x, ob, -, rd, -⟩ := start_ready toySpec toy_valid hA
  obtain ⟨s, hs⟩ := serialize_succeeds toySpec rd toyG_arb_empty
  exact ⟨a, m, s, hA, hs⟩

/-- the mismatch hypothesis is satisfiable: `toyParamsM9` differs from `toyParams` in the encoding
of `M`; and the restore of `A`-state under it is refused with `WrongGroupError` (kernel
evaluation), as is the restore by the wrong class with `WrongSideSerialized` -/
example :
    toyG.enc toyParamsM9.M ≠ toyG.enc toyParams.M ∧
    (fromSerialized (G := toyG) .A
        ((Inst.new (G := toyG) .A [1] [1] [2] toyParams ⟨[4]⟩).start.1.serialize.toOption.getD [])
        toyParamsM9).toOption.isNone = true ∧
    (match fromSerialized (G := toyG) .A
        ((Inst.new (G := toyG) .A [1] [1] [2] toyParams ⟨[4]⟩).start.1.serialize.toOption.getD [])
        toyParamsM9 with | .error e => e | .ok _ => .OffSides) = .WrongGroupError ∧
    (match fromSerialized (G := toyG) .B
        ((Inst.new (G := toyG) .A [1] [1] [2] toyParams ⟨[4]⟩).start.1.serialize.toOption.getD [])
        toyParams with | .error e => e | .ok _ => .OffSides) = .WrongSideSerialized := by
  refine ⟨by decide +kernel, by decide +kernel, by decide +kernel, by decide +kernel⟩

/-- **K2 on the toy group** (kernel evaluation): state saved under `IntegerGroup(23, 11, 2)` is
accepted by `from_serialized` under `IntegerGroup(23, 11, 4)` with the same `M`, `N`, `S`, and the
restored session's outbound element (`12`) differs from the original one (`18`) -/
example :
    ((fromSerialized (G := intGroup ⟨23, 11, 4⟩) .A
        ((Inst.new (G := toyG) .A [1] [1] [2] toyParams ⟨[4]⟩).start.1.serialize.toOption.getD [])
        ⟨(3 : ℤ), (18 : ℤ), (8 : ℤ)⟩).toOption.map (fun i => i.outbound)) = some (some [12]) ∧
    (Inst.new (G := toyG) .A [1] [1] [2] toyParams ⟨[4]⟩).start.1.outbound = some [18] :=
  toy_k2

/-- Tie A: the fingerprint recipe is that of the *source* -- `hash_params` hashes exactly the pieces
`tools/py2lean.py` reads off the two `hash_params` methods, in their order -/
theorem fingerprint_recipe_is_the_source {G : Group} (i : Inst G) :
    i.hashParams = (do
      let a ← G.arb []
      let s ← G.scalarEnc (G.p2s [])
      pure (hexlify (Sha.sha256 (ProtoShapeTie.hashPieces i.side (G.enc a) s
        (G.enc i.params.M) (G.enc i.params.N) (G.enc i.params.S)).flatten))) ∧
    Spake2Model.Gen.Proto.hash_effects_asym = ["arb_empty", "scalar_enc"] ∧
    Spake2Model.Gen.Proto.hash_effects_sym = ["arb_empty", "scalar_enc"] :=
  ProtoShapeTie.hashParams_tie i

/-- Tie A: the order and content of the restore checks (side check / constructor / `hashed_params` comparison, per
class) are those of the *source*: `fromDict` equals the translation of the two `_deserialize_from_dict` -/
theorem restore_checks_are_the_source {G : Group} : @fromDict G = ProtoFlowTie.flowRestore :=
  ProtoFlowTie.restore_is_source

end Spake2Verif.C09
