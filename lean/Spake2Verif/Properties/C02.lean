import Spake2Verif.Proofs.PropAuxA
import Spake2Verif.Proofs.ProtoFlowTie
/-!
# C02 — Any mismatch or in-flight tampering prevents agreement on a key

**Statement.** "If the two ends differ in password, in idA, idB or idSymmetric (including swapped
identities), in the group or in a blinding element (M, N, S) they use, or if either start() message
is altered in any way before delivery (bits changed, bytes appended or removed, re-encoded,
replaced by another element), then every finish() either raises or the two returned keys differ.
Equivalently: two ends that obtain equal keys had identical views of the password, the identities
and both messages exactly as sent."

The theorems prove the "equivalently" form (which is the contrapositive of the first sentence):
*equal keys ⇒ identical views*, up to an explicitly exhibited SHA-256 collision
(`Collision := ∃ a b, a ≠ b ∧ sha256 a = sha256 b`; nothing is assumed about SHA-256 -- a violation
would have to produce a collision).

**Vocabulary.** `Ready S i x ob`: started, unfinished session with secret `x` that sent the element
encoding `ob` (its message is `side ‖ ob`).  `msgAbs S P side w x = x•B + w•(M|N|S)`,
`keyAbs S P side w x Y = x•(Y − w•(N|M|S))`.

**Clause → theorem.**
* A/B: equal keys ⇒ `Collision ∨` (same password, same idA, same idB, **each end was delivered
  exactly the message the other sent**, same key element): `binding_asym` (any two started
  sessions, fresh or restored), `binding_asym_started` (+ instances; the two ends may use different
  parameter sets `P`, `P'` of the same group object).  Every alteration of a message in flight --
  bit flips, appended or removed bytes, re-encodings, substitution by any other element -- makes
  `dB ≠ mA` or `dA ≠ mB` and is therefore excluded; swapped identities make `idA ≠ idA'`.
* symmetric: `binding_sym`, `binding_sym_started` (+ instances).  Because the symmetric transcript
  sorts the two messages there is a third disjunct besides faithful crossed delivery:
  `m₁ = m₂ ∧ d₁ = d₂` (both ends sent the same element *and* were fed the same message).  This is
  the **recorded known finding K1b** (two symmetric ends with equal secret scalars that are handed
  the same third message agree on a key); the theorem characterises the exceptional class exactly:
  anything else is a collision.  That the class is real: `k1b_same_scalar_agree` and the last
  `example`.
* different groups: `binding_asym_two_groups`, `binding_sym_two_groups` (two sessions over two
  different group objects: equal keys ⇒ `Collision ∨` equal element widths and identical views);
  e.g. `binding_asym_ed25519_vs_1024`: an Ed25519 end and a 1024-bit end never agree, collisions apart.
* different blinding elements: with everything else honest, `A` holding `(M, N)` and `B` holding
  `(M', N)`: the key *elements* coincide iff `(w·y)•(M − M') = 0` (`params_mismatch_iff`), and the
  *keys* are equal if that holds and only if it holds or a collision is exhibited
  (`params_mismatch_keys` + instances).  When `M − M'` has order exactly `q` this is
  `q ∣ w·y` (`params_mismatch_prime_order`), i.e. -- `q` prime -- the peer's secret scalar `y` or the
  password scalar `w` is `0`.  This is the **recorded known finding K1a** (a peer whose secret
  scalar is 0 agrees on a key although `M` differs); the `iff` characterises the exceptional class
  exactly, `k1a_zero_scalar_agree` exhibits it.  (The mirrored statement for `N` is symmetric.)
* framing: an accepted inbound message has exactly `1 + elemSize` bytes (from strict decoding,
  C05): `accepted_message_width` (+ instances); without fixed widths the transcript would be
  ambiguous: `framing_needed` (`X ‖ (Y‖Y) = (X‖Y) ‖ Y`, the formal shape of the pinned-tree defect F4).
* what a successful `finish()` has checked and computed: `finish_ok_inv`.

**Assumed / remarks.**
* Messages handed to `finish()` are byte strings (`IsBytes`).
* The model contains fix F4 (strict Ed25519 decoding); on the pinned tree `Y‖Y` delivered to A and
  `X‖Y` to B gave equal keys.
* K1a and K1b are *not* defects of the proof but genuine exceptional input classes of the
  protocol; they are listed in `known_findings.json` and delimited exactly by the theorems above.
-/
namespace Spake2Verif.C02
open Spake2Model Spake2Model.Gen Spake2Model.Transcript Spake2Verif.PropAux

/-- **inversion of a successful `finish()`.**  The message was `peer-byte ‖ body`, `body` is the
fixed-width canonical encoding of a valid element `e` different from the session's own, and the key
is the transcript hash over `enc K` with `K = x•(e − w•U)`. -/
theorem finish_ok_inv {G : Group} (S : GroupSpec G) {i : Inst G} {x : ℤ} {ob m k : Bytes}
    (h : Ready S i x ob) (hm : IsBytes m) (hk : (i.finish m).2 = .ok k) :
    ∃ body e K, m = peerByte i.side ++ body ∧ G.dec body = .ok e ∧ S.Valid e ∧ G.enc e = body ∧
      body.length = G.elemSize ∧ body ≠ ob ∧ S.Valid K ∧
      S.abs K = keyAbs S i.params i.side (G.p2s i.pw) x (S.abs e) ∧
      k = i.finalize body ob (G.enc K) :=
  Spake2Verif.finish_ok_inv S h hm hk

/-- **framing.**  A message for which `finish()` returns a key has exactly `1 + elemSize` bytes: the
side byte followed by a body of exactly `elemSize` bytes (strict decoding). -/
theorem accepted_message_width {G : Group} (S : GroupSpec G)
    (i : Inst G) {msg k : Bytes} (hm : IsBytes msg)
    (h : (i.finish msg).2 = .ok k) :
    msg.length = 1 + G.elemSize ∧
      ∃ body, msg = peerByte i.side ++ body ∧ body.length = G.elemSize :=
  let ⟨body, _, h1, _, h2, h3, _⟩ := PropAux.finish_only_on_members S i hm h
  ⟨h3, body, h1, h2⟩

/-- `accepted_message_width` for every integer group `IntegerGroup(p, q, g)` the constructor accepts (no primality assumption). -/
theorem accepted_message_width_intgroup (IP : IntGroupParams) (hp : 1 < IP.p) (hq : 0 < IP.q) (hg : 0 < IP.g ∧ IP.g < IP.p)
    (hctor : IntGroup.ctor_ok IP.p IP.q IP.g = true)
    (i : Inst (intGroup IP)) {msg k : Bytes} (hm : IsBytes msg)
    (h : (i.finish msg).2 = .ok k) :
    msg.length = 1 + (intGroup IP).elemSize ∧
      ∃ body, msg = peerByte i.side ++ body ∧ body.length = (intGroup IP).elemSize :=
  C02.accepted_message_width (G := (intGroup IP)) (intGroupSpec IP hp hq hg hctor) i hm h

/-- `accepted_message_width` for the shipped 1024-bit integer group (generated constants). -/
theorem accepted_message_width_1024 
    (i : Inst G1024) {msg k : Bytes} (hm : IsBytes msg)
    (h : (i.finish msg).2 = .ok k) :
    msg.length = 1 + G1024.elemSize ∧
      ∃ body, msg = peerByte i.side ++ body ∧ body.length = G1024.elemSize :=
  C02.accepted_message_width (G := G1024) spec1024 i hm h

/-- `accepted_message_width` for the shipped 2048-bit integer group (generated constants). -/
theorem accepted_message_width_2048 
    (i : Inst G2048) {msg k : Bytes} (hm : IsBytes msg)
    (h : (i.finish msg).2 = .ok k) :
    msg.length = 1 + G2048.elemSize ∧
      ∃ body, msg = peerByte i.side ++ body ∧ body.length = G2048.elemSize :=
  C02.accepted_message_width (G := G2048) spec2048 i hm h

/-- `accepted_message_width` for the shipped 3072-bit integer group (generated constants). -/
theorem accepted_message_width_3072 
    (i : Inst G3072) {msg k : Bytes} (hm : IsBytes msg)
    (h : (i.finish msg).2 = .ok k) :
    msg.length = 1 + G3072.elemSize ∧
      ∃ body, msg = peerByte i.side ++ body ∧ body.length = G3072.elemSize :=
  C02.accepted_message_width (G := G3072) spec3072 i hm h

/-- `accepted_message_width` for Ed25519 with the constants generated from the current source. -/
theorem accepted_message_width_ed25519 
    (i : Inst GEd) {msg k : Bytes} (hm : IsBytes msg)
    (h : (i.finish msg).2 = .ok k) :
    msg.length = 1 + GEd.elemSize ∧
      ∃ body, msg = peerByte i.side ++ body ∧ body.length = GEd.elemSize :=
  C02.accepted_message_width (G := GEd) specGen i hm h

/-- `accepted_message_width` for Ed25519 with the literal RFC 8032 constants. -/
theorem accepted_message_width_ed25519_published 
    (i : Inst GEdPub) {msg k : Bytes} (hm : IsBytes msg)
    (h : (i.finish msg).2 = .ok k) :
    msg.length = 1 + GEdPub.elemSize ∧
      ∃ body, msg = peerByte i.side ++ body ∧ body.length = GEdPub.elemSize :=
  C02.accepted_message_width (G := GEdPub) specPublished i hm h

/-- **C02, `SPAKE2_A` against `SPAKE2_B`** (started sessions, fresh or restored; passwords,
identities and parameter sets of the two ends are independent).  If `a.finish(dA)` and
`b.finish(dB)` return the same key then, unless a SHA-256 collision is exhibited, passwords and
identities agree, each end received exactly what the other sent, and the key elements coincide. -/
theorem binding_asym {G : Group} (S : GroupSpec G) {a b : Inst G} {x y : ℤ}
    {obA obB dA dB k : Bytes}
    (ha : Ready S a x obA) (hb : Ready S b y obB) (sa : a.side = .A) (sb : b.side = .B)
    (hdA : IsBytes dA) (hdB : IsBytes dB)
    (hkA : (a.finish dA).2 = .ok k) (hkB : (b.finish dB).2 = .ok k) :
    Collision ∨
    (a.pw = b.pw ∧ a.idA = b.idA ∧ a.idB = b.idB ∧
      dB = Consts.sideA ++ obA ∧ dA = Consts.sideB ++ obB ∧
      ∃ KA KB, S.Valid KA ∧ S.Valid KB ∧ G.enc KA = G.enc KB ∧ S.abs KA = S.abs KB ∧
        S.abs KA = keyAbs S a.params .A (G.p2s a.pw) x (msgAbs S b.params .B (G.p2s b.pw) y) ∧
        S.abs KB = keyAbs S b.params .B (G.p2s b.pw) y (msgAbs S a.params .A (G.p2s a.pw) x) ∧
        k = finalizeSPAKE2 a.idA a.idB obA obB (G.enc KA) a.pw) :=
  Spake2Verif.binding_asym S ha hb sa sb hdA hdB hkA hkB

/-- **C02, A/B, from construction.**  `A` created with `(pw, idA, idB, P)`, `B` with
`(pw', idA', idB', P')`; both started (messages `mA`, `mB`); `A` is delivered `dA`, `B` is delivered
`dB`; both `finish()` return the same key `k`.  Then a collision is exhibited, or the two ends had
identical views: `pw = pw'`, `idA = idA'`, `idB = idB'`, `dB = mA`, `dA = mB` (the messages exactly
as sent), and the two key elements coincide. -/
theorem binding_asym_started {G : Group} (S : GroupSpec G) {P : Params G} (hP : ValidParams S P) {P' : Params G} (hP' : ValidParams S P')
    {pw idA idB pw' idA' idB' : Bytes} {entA entB : Entropy}
    {a b : Inst G} {mA mB dA dB k : Bytes}
    (hA : (Inst.new .A pw idA idB P entA).start = (a, .ok mA))
    (hB : (Inst.new .B pw' idA' idB' P' entB).start = (b, .ok mB))
    (hdA : IsBytes dA) (hdB : IsBytes dB)
    (hkA : (a.finish dA).2 = .ok k) (hkB : (b.finish dB).2 = .ok k) :
    Collision ∨
    (pw = pw' ∧ idA = idA' ∧ idB = idB' ∧ dB = mA ∧ dA = mB ∧
      ∃ x y, a.xyScalar = some x ∧ b.xyScalar = some y ∧
        keyAbs S P .A (G.p2s pw) x (msgAbs S P' .B (G.p2s pw') y) =
          keyAbs S P' .B (G.p2s pw') y (msgAbs S P .A (G.p2s pw) x)) :=
  PropAux.binding_asym_started S hP hP' hA hB hdA hdB hkA hkB

/-- `binding_asym_started` for every integer group `IntegerGroup(p, q, g)` the constructor accepts (no primality assumption); the parameter set is any one built by `mkParams` (valid by `arb_valid`). -/
theorem binding_asym_started_intgroup (IP : IntGroupParams) (hp : 1 < IP.p) (hq : 0 < IP.q) (hg : 0 < IP.g ∧ IP.g < IP.p)
    (hctor : IntGroup.ctor_ok IP.p IP.q IP.g = true)
    {mSeed1 nSeed1 sSeed1 : Bytes} {P : Params (intGroup IP)}
    (hP : mkParams (intGroup IP) mSeed1 nSeed1 sSeed1 = .ok P) {mSeed2 nSeed2 sSeed2 : Bytes} {P' : Params (intGroup IP)}
    (hP' : mkParams (intGroup IP) mSeed2 nSeed2 sSeed2 = .ok P')
    {pw idA idB pw' idA' idB' : Bytes} {entA entB : Entropy}
    {a b : Inst (intGroup IP)} {mA mB dA dB k : Bytes}
    (hA : (Inst.new .A pw idA idB P entA).start = (a, .ok mA))
    (hB : (Inst.new .B pw' idA' idB' P' entB).start = (b, .ok mB))
    (hdA : IsBytes dA) (hdB : IsBytes dB)
    (hkA : (a.finish dA).2 = .ok k) (hkB : (b.finish dB).2 = .ok k) :
    Collision ∨
    (pw = pw' ∧ idA = idA' ∧ idB = idB' ∧ dB = mA ∧ dA = mB ∧
      ∃ x y, a.xyScalar = some x ∧ b.xyScalar = some y ∧
        keyAbs (intGroupSpec IP hp hq hg hctor) P .A ((intGroup IP).p2s pw) x (msgAbs (intGroupSpec IP hp hq hg hctor) P' .B ((intGroup IP).p2s pw') y) =
          keyAbs (intGroupSpec IP hp hq hg hctor) P' .B ((intGroup IP).p2s pw') y (msgAbs (intGroupSpec IP hp hq hg hctor) P .A ((intGroup IP).p2s pw) x)) :=
  C02.binding_asym_started (G := (intGroup IP)) (intGroupSpec IP hp hq hg hctor) (PropAux.validParams_of_mkParams _ hP) (PropAux.validParams_of_mkParams _ hP') hA hB hdA hdB hkA hkB

/-- `binding_asym_started` for the shipped 1024-bit integer group (generated constants); the parameter set is any one built by `mkParams` (valid by `arb_valid`). -/
theorem binding_asym_started_1024 {mSeed1 nSeed1 sSeed1 : Bytes} {P : Params G1024}
    (hP : mkParams G1024 mSeed1 nSeed1 sSeed1 = .ok P) {mSeed2 nSeed2 sSeed2 : Bytes} {P' : Params G1024}
    (hP' : mkParams G1024 mSeed2 nSeed2 sSeed2 = .ok P')
    {pw idA idB pw' idA' idB' : Bytes} {entA entB : Entropy}
    {a b : Inst G1024} {mA mB dA dB k : Bytes}
    (hA : (Inst.new .A pw idA idB P entA).start = (a, .ok mA))
    (hB : (Inst.new .B pw' idA' idB' P' entB).start = (b, .ok mB))
    (hdA : IsBytes dA) (hdB : IsBytes dB)
    (hkA : (a.finish dA).2 = .ok k) (hkB : (b.finish dB).2 = .ok k) :
    Collision ∨
    (pw = pw' ∧ idA = idA' ∧ idB = idB' ∧ dB = mA ∧ dA = mB ∧
      ∃ x y, a.xyScalar = some x ∧ b.xyScalar = some y ∧
        keyAbs spec1024 P .A (G1024.p2s pw) x (msgAbs spec1024 P' .B (G1024.p2s pw') y) =
          keyAbs spec1024 P' .B (G1024.p2s pw') y (msgAbs spec1024 P .A (G1024.p2s pw) x)) :=
  C02.binding_asym_started (G := G1024) spec1024 (PropAux.validParams_of_mkParams _ hP) (PropAux.validParams_of_mkParams _ hP') hA hB hdA hdB hkA hkB

/-- `binding_asym_started` for the shipped 2048-bit integer group (generated constants); the parameter set is any one built by `mkParams` (valid by `arb_valid`). -/
theorem binding_asym_started_2048 {mSeed1 nSeed1 sSeed1 : Bytes} {P : Params G2048}
    (hP : mkParams G2048 mSeed1 nSeed1 sSeed1 = .ok P) {mSeed2 nSeed2 sSeed2 : Bytes} {P' : Params G2048}
    (hP' : mkParams G2048 mSeed2 nSeed2 sSeed2 = .ok P')
    {pw idA idB pw' idA' idB' : Bytes} {entA entB : Entropy}
    {a b : Inst G2048} {mA mB dA dB k : Bytes}
    (hA : (Inst.new .A pw idA idB P entA).start = (a, .ok mA))
    (hB : (Inst.new .B pw' idA' idB' P' entB).start = (b, .ok mB))
    (hdA : IsBytes dA) (hdB : IsBytes dB)
    (hkA : (a.finish dA).2 = .ok k) (hkB : (b.finish dB).2 = .ok k) :
    Collision ∨
    (pw = pw' ∧ idA = idA' ∧ idB = idB' ∧ dB = mA ∧ dA = mB ∧
      ∃ x y, a.xyScalar = some x ∧ b.xyScalar = some y ∧
        keyAbs spec2048 P .A (G2048.p2s pw) x (msgAbs spec2048 P' .B (G2048.p2s pw') y) =
          keyAbs spec2048 P' .B (G2048.p2s pw') y (msgAbs spec2048 P .A (G2048.p2s pw) x)) :=
  C02.binding_asym_started (G := G2048) spec2048 (PropAux.validParams_of_mkParams _ hP) (PropAux.validParams_of_mkParams _ hP') hA hB hdA hdB hkA hkB

/-- `binding_asym_started` for the shipped 3072-bit integer group (generated constants); the parameter set is any one built by `mkParams` (valid by `arb_valid`). -/
theorem binding_asym_started_3072 {mSeed1 nSeed1 sSeed1 : Bytes} {P : Params G3072}
    (hP : mkParams G3072 mSeed1 nSeed1 sSeed1 = .ok P) {mSeed2 nSeed2 sSeed2 : Bytes} {P' : Params G3072}
    (hP' : mkParams G3072 mSeed2 nSeed2 sSeed2 = .ok P')
    {pw idA idB pw' idA' idB' : Bytes} {entA entB : Entropy}
    {a b : Inst G3072} {mA mB dA dB k : Bytes}
    (hA : (Inst.new .A pw idA idB P entA).start = (a, .ok mA))
    (hB : (Inst.new .B pw' idA' idB' P' entB).start = (b, .ok mB))
    (hdA : IsBytes dA) (hdB : IsBytes dB)
    (hkA : (a.finish dA).2 = .ok k) (hkB : (b.finish dB).2 = .ok k) :
    Collision ∨
    (pw = pw' ∧ idA = idA' ∧ idB = idB' ∧ dB = mA ∧ dA = mB ∧
      ∃ x y, a.xyScalar = some x ∧ b.xyScalar = some y ∧
        keyAbs spec3072 P .A (G3072.p2s pw) x (msgAbs spec3072 P' .B (G3072.p2s pw') y) =
          keyAbs spec3072 P' .B (G3072.p2s pw') y (msgAbs spec3072 P .A (G3072.p2s pw) x)) :=
  C02.binding_asym_started (G := G3072) spec3072 (PropAux.validParams_of_mkParams _ hP) (PropAux.validParams_of_mkParams _ hP') hA hB hdA hdB hkA hkB

/-- `binding_asym_started` for Ed25519 with the constants generated from the current source; the parameter set is any one built by `mkParams` (valid by `arb_valid`). -/
theorem binding_asym_started_ed25519 {mSeed1 nSeed1 sSeed1 : Bytes} {P : Params GEd}
    (hP : mkParams GEd mSeed1 nSeed1 sSeed1 = .ok P) {mSeed2 nSeed2 sSeed2 : Bytes} {P' : Params GEd}
    (hP' : mkParams GEd mSeed2 nSeed2 sSeed2 = .ok P')
    {pw idA idB pw' idA' idB' : Bytes} {entA entB : Entropy}
    {a b : Inst GEd} {mA mB dA dB k : Bytes}
    (hA : (Inst.new .A pw idA idB P entA).start = (a, .ok mA))
    (hB : (Inst.new .B pw' idA' idB' P' entB).start = (b, .ok mB))
    (hdA : IsBytes dA) (hdB : IsBytes dB)
    (hkA : (a.finish dA).2 = .ok k) (hkB : (b.finish dB).2 = .ok k) :
    Collision ∨
    (pw = pw' ∧ idA = idA' ∧ idB = idB' ∧ dB = mA ∧ dA = mB ∧
      ∃ x y, a.xyScalar = some x ∧ b.xyScalar = some y ∧
        keyAbs specGen P .A (GEd.p2s pw) x (msgAbs specGen P' .B (GEd.p2s pw') y) =
          keyAbs specGen P' .B (GEd.p2s pw') y (msgAbs specGen P .A (GEd.p2s pw) x)) :=
  C02.binding_asym_started (G := GEd) specGen (PropAux.validParams_of_mkParams _ hP) (PropAux.validParams_of_mkParams _ hP') hA hB hdA hdB hkA hkB

/-- `binding_asym_started` for Ed25519 with the literal RFC 8032 constants; the parameter set is any one built by `mkParams` (valid by `arb_valid`). -/
theorem binding_asym_started_ed25519_published {mSeed1 nSeed1 sSeed1 : Bytes} {P : Params GEdPub}
    (hP : mkParams GEdPub mSeed1 nSeed1 sSeed1 = .ok P) {mSeed2 nSeed2 sSeed2 : Bytes} {P' : Params GEdPub}
    (hP' : mkParams GEdPub mSeed2 nSeed2 sSeed2 = .ok P')
    {pw idA idB pw' idA' idB' : Bytes} {entA entB : Entropy}
    {a b : Inst GEdPub} {mA mB dA dB k : Bytes}
    (hA : (Inst.new .A pw idA idB P entA).start = (a, .ok mA))
    (hB : (Inst.new .B pw' idA' idB' P' entB).start = (b, .ok mB))
    (hdA : IsBytes dA) (hdB : IsBytes dB)
    (hkA : (a.finish dA).2 = .ok k) (hkB : (b.finish dB).2 = .ok k) :
    Collision ∨
    (pw = pw' ∧ idA = idA' ∧ idB = idB' ∧ dB = mA ∧ dA = mB ∧
      ∃ x y, a.xyScalar = some x ∧ b.xyScalar = some y ∧
        keyAbs specPublished P .A (GEdPub.p2s pw) x (msgAbs specPublished P' .B (GEdPub.p2s pw') y) =
          keyAbs specPublished P' .B (GEdPub.p2s pw') y (msgAbs specPublished P .A (GEdPub.p2s pw) x)) :=
  C02.binding_asym_started (G := GEdPub) specPublished (PropAux.validParams_of_mkParams _ hP) (PropAux.validParams_of_mkParams _ hP') hA hB hdA hdB hkA hkB

/-- **C02, two `SPAKE2_Symmetric` ends** (started sessions).  Equal keys: unless a collision is
exhibited, password and identity agree, the key elements have the same encoding, and the unordered
pairs `{in, out}` coincide -- either crossed (the honest run) or straight (`out₁ = out₂ ∧
in₁ = in₂`: both ends sent the same element and were fed the same message, finding K1b). -/
theorem binding_sym {G : Group} (S : GroupSpec G) {a b : Inst G} {x y : ℤ}
    {ob₁ ob₂ d₁ d₂ k : Bytes}
    (ha : Ready S a x ob₁) (hb : Ready S b y ob₂) (sa : a.side = .S) (sb : b.side = .S)
    (hd₁ : IsBytes d₁) (hd₂ : IsBytes d₂)
    (hk₁ : (a.finish d₁).2 = .ok k) (hk₂ : (b.finish d₂).2 = .ok k) :
    Collision ∨
    (a.pw = b.pw ∧ a.idA = b.idA ∧
      ∃ in₁ in₂ K₁ K₂, d₁ = Consts.sideS ++ in₁ ∧ d₂ = Consts.sideS ++ in₂ ∧
        S.Valid K₁ ∧ S.Valid K₂ ∧ G.enc K₁ = G.enc K₂ ∧ S.abs K₁ = S.abs K₂ ∧
        k = finalizeSymmetric a.idA in₁ ob₁ (G.enc K₁) a.pw ∧
        ((in₁ = ob₂ ∧ in₂ = ob₁) ∨ (ob₁ = ob₂ ∧ in₁ = in₂))) :=
  Spake2Verif.binding_sym S ha hb sa sb hd₁ hd₂ hk₁ hk₂

/-- **C02, symmetric, from construction.**  Equal keys ⇒ collision, or same password and identity
and either faithful crossed delivery (`d₁ = m₂ ∧ d₂ = m₁`) or the K1b class (`m₁ = m₂ ∧ d₁ = d₂`). -/
theorem binding_sym_started {G : Group} (S : GroupSpec G) {P : Params G} (hP : ValidParams S P) {P' : Params G} (hP' : ValidParams S P')
    {pw idS idB₁ pw' idS' idB₂ : Bytes} {ent₁ ent₂ : Entropy}
    {a b : Inst G} {m₁ m₂ d₁ d₂ k : Bytes}
    (hA : (Inst.new .S pw idS idB₁ P ent₁).start = (a, .ok m₁))
    (hB : (Inst.new .S pw' idS' idB₂ P' ent₂).start = (b, .ok m₂))
    (hd₁ : IsBytes d₁) (hd₂ : IsBytes d₂)
    (hk₁ : (a.finish d₁).2 = .ok k) (hk₂ : (b.finish d₂).2 = .ok k) :
    Collision ∨
    (pw = pw' ∧ idS = idS' ∧ ((d₁ = m₂ ∧ d₂ = m₁) ∨ (m₁ = m₂ ∧ d₁ = d₂))) :=
  PropAux.binding_sym_started S hP hP' hA hB hd₁ hd₂ hk₁ hk₂

/-- `binding_sym_started` for every integer group `IntegerGroup(p, q, g)` the constructor accepts (no primality assumption); the parameter set is any one built by `mkParams` (valid by `arb_valid`). -/
theorem binding_sym_started_intgroup (IP : IntGroupParams) (hp : 1 < IP.p) (hq : 0 < IP.q) (hg : 0 < IP.g ∧ IP.g < IP.p)
    (hctor : IntGroup.ctor_ok IP.p IP.q IP.g = true)
    {mSeed1 nSeed1 sSeed1 : Bytes} {P : Params (intGroup IP)}
    (hP : mkParams (intGroup IP) mSeed1 nSeed1 sSeed1 = .ok P) {mSeed2 nSeed2 sSeed2 : Bytes} {P' : Params (intGroup IP)}
    (hP' : mkParams (intGroup IP) mSeed2 nSeed2 sSeed2 = .ok P')
    {pw idS idB₁ pw' idS' idB₂ : Bytes} {ent₁ ent₂ : Entropy}
    {a b : Inst (intGroup IP)} {m₁ m₂ d₁ d₂ k : Bytes}
    (hA : (Inst.new .S pw idS idB₁ P ent₁).start = (a, .ok m₁))
    (hB : (Inst.new .S pw' idS' idB₂ P' ent₂).start = (b, .ok m₂))
    (hd₁ : IsBytes d₁) (hd₂ : IsBytes d₂)
    (hk₁ : (a.finish d₁).2 = .ok k) (hk₂ : (b.finish d₂).2 = .ok k) :
    Collision ∨
    (pw = pw' ∧ idS = idS' ∧ ((d₁ = m₂ ∧ d₂ = m₁) ∨ (m₁ = m₂ ∧ d₁ = d₂))) :=
  C02.binding_sym_started (G := (intGroup IP)) (intGroupSpec IP hp hq hg hctor) (PropAux.validParams_of_mkParams _ hP) (PropAux.validParams_of_mkParams _ hP') hA hB hd₁ hd₂ hk₁ hk₂

/-- `binding_sym_started` for the shipped 1024-bit integer group (generated constants); the parameter set is any one built by `mkParams` (valid by `arb_valid`). -/
theorem binding_sym_started_1024 {mSeed1 nSeed1 sSeed1 : Bytes} {P : Params G1024}
    (hP : mkParams G1024 mSeed1 nSeed1 sSeed1 = .ok P) {mSeed2 nSeed2 sSeed2 : Bytes} {P' : Params G1024}
    (hP' : mkParams G1024 mSeed2 nSeed2 sSeed2 = .ok P')
    {pw idS idB₁ pw' idS' idB₂ : Bytes} {ent₁ ent₂ : Entropy}
    {a b : Inst G1024} {m₁ m₂ d₁ d₂ k : Bytes}
    (hA : (Inst.new .S pw idS idB₁ P ent₁).start = (a, .ok m₁))
    (hB : (Inst.new .S pw' idS' idB₂ P' ent₂).start = (b, .ok m₂))
    (hd₁ : IsBytes d₁) (hd₂ : IsBytes d₂)
    (hk₁ : (a.finish d₁).2 = .ok k) (hk₂ : (b.finish d₂).2 = .ok k) :
    Collision ∨
    (pw = pw' ∧ idS = idS' ∧ ((d₁ = m₂ ∧ d₂ = m₁) ∨ (m₁ = m₂ ∧ d₁ = d₂))) :=
  C02.binding_sym_started (G := G1024) spec1024 (PropAux.validParams_of_mkParams _ hP) (PropAux.validParams_of_mkParams _ hP') hA hB hd₁ hd₂ hk₁ hk₂

/-- `binding_sym_started` for the shipped 2048-bit integer group (generated constants); the parameter set is any one built by `mkParams` (valid by `arb_valid`). -/
theorem binding_sym_started_2048 {mSeed1 nSeed1 sSeed1 : Bytes} {P : Params G2048}
    (hP : mkParams G2048 mSeed1 nSeed1 sSeed1 = .ok P) {mSeed2 nSeed2 sSeed2 : Bytes} {P' : Params G2048}
    (hP' : mkParams G2048 mSeed2 nSeed2 sSeed2 = .ok P')
    {pw idS idB₁ pw' idS' idB₂ : Bytes} {ent₁ ent₂ : Entropy}
    {a b : Inst G2048} {m₁ m₂ d₁ d₂ k : Bytes}
    (hA : (Inst.new .S pw idS idB₁ P ent₁).start = (a, .ok m₁))
    (hB : (Inst.new .S pw' idS' idB₂ P' ent₂).start = (b, .ok m₂))
    (hd₁ : IsBytes d₁) (hd₂ : IsBytes d₂)
    (hk₁ : (a.finish d₁).2 = .ok k) (hk₂ : (b.finish d₂).2 = .ok k) :
    Collision ∨
    (pw = pw' ∧ idS = idS' ∧ ((d₁ = m₂ ∧ d₂ = m₁) ∨ (m₁ = m₂ ∧ d₁ = d₂))) :=
  C02.binding_sym_started (G := G2048) spec2048 (PropAux.validParams_of_mkParams _ hP) (PropAux.validParams_of_mkParams _ hP') hA hB hd₁ hd₂ hk₁ hk₂

/-- `binding_sym_started` for the shipped 3072-bit integer group (generated constants); the parameter set is any one built by `mkParams` (valid by `arb_valid`). -/
theorem binding_sym_started_3072 {mSeed1 nSeed1 sSeed1 : Bytes} {P : Params G3072}
    (hP : mkParams G3072 mSeed1 nSeed1 sSeed1 = .ok P) {mSeed2 nSeed2 sSeed2 : Bytes} {P' : Params G3072}
    (hP' : mkParams G3072 mSeed2 nSeed2 sSeed2 = .ok P')
    {pw idS idB₁ pw' idS' idB₂ : Bytes} {ent₁ ent₂ : Entropy}
    {a b : Inst G3072} {m₁ m₂ d₁ d₂ k : Bytes}
    (hA : (Inst.new .S pw idS idB₁ P ent₁).start = (a, .ok m₁))
    (hB : (Inst.new .S pw' idS' idB₂ P' ent₂).start = (b, .ok m₂))
    (hd₁ : IsBytes d₁) (hd₂ : IsBytes d₂)
    (hk₁ : (a.finish d₁).2 = .ok k) (hk₂ : (b.finish d₂).2 = .ok k) :
    Collision ∨
    (pw = pw' ∧ idS = idS' ∧ ((d₁ = m₂ ∧ d₂ = m₁) ∨ (m₁ = m₂ ∧ d₁ = d₂))) :=
  C02.binding_sym_started (G := G3072) spec3072 (PropAux.validParams_of_mkParams _ hP) (PropAux.validParams_of_mkParams _ hP') hA hB hd₁ hd₂ hk₁ hk₂

/-- `binding_sym_started` for Ed25519 with the constants generated from the current source; the parameter set is any one built by `mkParams` (valid by `arb_valid`). -/
theorem binding_sym_started_ed25519 {mSeed1 nSeed1 sSeed1 : Bytes} {P : Params GEd}
    (hP : mkParams GEd mSeed1 nSeed1 sSeed1 = .ok P) {mSeed2 nSeed2 sSeed2 : Bytes} {P' : Params GEd}
    (hP' : mkParams GEd mSeed2 nSeed2 sSeed2 = .ok P')
    {pw idS idB₁ pw' idS' idB₂ : Bytes} {ent₁ ent₂ : Entropy}
    {a b : Inst GEd} {m₁ m₂ d₁ d₂ k : Bytes}
    (hA : (Inst.new .S pw idS idB₁ P ent₁).start = (a, .ok m₁))
    (hB : (Inst.new .S pw' idS' idB₂ P' ent₂).start = (b, .ok m₂))
    (hd₁ : IsBytes d₁) (hd₂ : IsBytes d₂)
    (hk₁ : (a.finish d₁).2 = .ok k) (hk₂ : (b.finish d₂).2 = .ok k) :
    Collision ∨
    (pw = pw' ∧ idS = idS' ∧ ((d₁ = m₂ ∧ d₂ = m₁) ∨ (m₁ = m₂ ∧ d₁ = d₂))) :=
  C02.binding_sym_started (G := GEd) specGen (PropAux.validParams_of_mkParams _ hP) (PropAux.validParams_of_mkParams _ hP') hA hB hd₁ hd₂ hk₁ hk₂

/-- `binding_sym_started` for Ed25519 with the literal RFC 8032 constants; the parameter set is any one built by `mkParams` (valid by `arb_valid`). -/
theorem binding_sym_started_ed25519_published {mSeed1 nSeed1 sSeed1 : Bytes} {P : Params GEdPub}
    (hP : mkParams GEdPub mSeed1 nSeed1 sSeed1 = .ok P) {mSeed2 nSeed2 sSeed2 : Bytes} {P' : Params GEdPub}
    (hP' : mkParams GEdPub mSeed2 nSeed2 sSeed2 = .ok P')
    {pw idS idB₁ pw' idS' idB₂ : Bytes} {ent₁ ent₂ : Entropy}
    {a b : Inst GEdPub} {m₁ m₂ d₁ d₂ k : Bytes}
    (hA : (Inst.new .S pw idS idB₁ P ent₁).start = (a, .ok m₁))
    (hB : (Inst.new .S pw' idS' idB₂ P' ent₂).start = (b, .ok m₂))
    (hd₁ : IsBytes d₁) (hd₂ : IsBytes d₂)
    (hk₁ : (a.finish d₁).2 = .ok k) (hk₂ : (b.finish d₂).2 = .ok k) :
    Collision ∨
    (pw = pw' ∧ idS = idS' ∧ ((d₁ = m₂ ∧ d₂ = m₁) ∨ (m₁ = m₂ ∧ d₁ = d₂))) :=
  C02.binding_sym_started (G := GEdPub) specPublished (PropAux.validParams_of_mkParams _ hP) (PropAux.validParams_of_mkParams _ hP') hA hB hd₁ hd₂ hk₁ hk₂

/-- **different groups, A/B.**  The two ends live over two different group objects `G₁`, `G₂`
(e.g. two parameter sets over different groups).  Equal keys ⇒ a collision, or the element widths
agree and the views are identical. -/
theorem binding_asym_two_groups {G₁ G₂ : Group} (S₁ : GroupSpec G₁) (S₂ : GroupSpec G₂)
    {a : Inst G₁} {b : Inst G₂} {x y : ℤ} {obA obB dA dB k : Bytes}
    (ha : Ready S₁ a x obA) (hb : Ready S₂ b y obB) (sa : a.side = .A) (sb : b.side = .B)
    (hdA : IsBytes dA) (hdB : IsBytes dB)
    (hkA : (a.finish dA).2 = .ok k) (hkB : (b.finish dB).2 = .ok k) :
    Collision ∨
    (G₁.elemSize = G₂.elemSize ∧ a.pw = b.pw ∧ a.idA = b.idA ∧ a.idB = b.idB ∧
      dB = Consts.sideA ++ obA ∧ dA = Consts.sideB ++ obB ∧
      ∃ KA KB, S₁.Valid KA ∧ S₂.Valid KB ∧ G₁.enc KA = G₂.enc KB ∧
        k = finalizeSPAKE2 a.idA a.idB obA obB (G₁.enc KA) a.pw) :=
  PropAux.binding_asym_two_groups S₁ S₂ ha hb sa sb hdA hdB hkA hkB

/-- **different groups, symmetric.** -/
theorem binding_sym_two_groups {G₁ G₂ : Group} (S₁ : GroupSpec G₁) (S₂ : GroupSpec G₂)
    {a : Inst G₁} {b : Inst G₂} {x y : ℤ} {ob₁ ob₂ d₁ d₂ k : Bytes}
    (ha : Ready S₁ a x ob₁) (hb : Ready S₂ b y ob₂) (sa : a.side = .S) (sb : b.side = .S)
    (hd₁ : IsBytes d₁) (hd₂ : IsBytes d₂)
    (hk₁ : (a.finish d₁).2 = .ok k) (hk₂ : (b.finish d₂).2 = .ok k) :
    Collision ∨
    (G₁.elemSize = G₂.elemSize ∧ a.pw = b.pw ∧ a.idA = b.idA ∧
      ∃ in₁ in₂, d₁ = Consts.sideS ++ in₁ ∧ d₂ = Consts.sideS ++ in₂ ∧
        ((in₁ = ob₂ ∧ in₂ = ob₁) ∨ (ob₁ = ob₂ ∧ in₁ = in₂))) :=
  PropAux.binding_sym_two_groups S₁ S₂ ha hb sa sb hd₁ hd₂ hk₁ hk₂

/-- example of the previous theorem on shipped groups: an Ed25519 `A` end and a 1024-bit `B` end
(32- versus 128-byte elements) can only return equal keys by exhibiting a SHA-256 collision -/
theorem binding_asym_ed25519_vs_1024 {a : Inst GEd} {b : Inst G1024} {x y : ℤ}
    {obA obB dA dB k : Bytes}
    (ha : Ready specGen a x obA) (hb : Ready spec1024 b y obB) (sa : a.side = .A) (sb : b.side = .B)
    (hdA : IsBytes dA) (hdB : IsBytes dB)
    (hkA : (a.finish dA).2 = .ok k) (hkB : (b.finish dB).2 = .ok k) : Collision := by
  rcases PropAux.binding_asym_two_groups specGen spec1024 ha hb sa sb hdA hdB hkA hkB with
    hc | ⟨hs, -⟩
  · exact hc
  · exact absurd hs (by decide +kernel)

/-- **why fixed widths are needed**: the asymmetric transcript concatenates `X`, `Y` unhashed, so
without the width discipline two different message pairs give the same key -- `X ‖ (Y‖Y)` versus
`(X‖Y) ‖ Y` (the pinned-tree defect: an over-long `Y‖Y` was accepted by the Ed25519 decoder) -/
theorem framing_needed (idA idB X Y K pw : Bytes) :
    finalizeSPAKE2 idA idB X (Y ++ Y) K pw = finalizeSPAKE2 idA idB (X ++ Y) Y K pw := by
  simp [finalizeSPAKE2, List.append_assoc]

/-- **parameter mismatch, key elements.**  Same password scalar `w`; `A` holds `(M, N)`, `B` holds
`(M', N')` with `N' = N` as group elements.  The key elements of an honest exchange coincide iff
`(w·y)•(M − M') = 0`. -/
theorem params_mismatch_iff {G : Group} (S : GroupSpec G) (Pa Pb : Params G) (w x y : ℤ)
    (hN : S.abs Pa.N = S.abs Pb.N) :
    keyAbs S Pa .A w x (msgAbs S Pb .B w y) = keyAbs S Pb .B w y (msgAbs S Pa .A w x) ↔
      (w * y) • (S.abs Pa.M - S.abs Pb.M) = 0 :=
  Spake2Verif.params_mismatch_iff S Pa Pb w x y hN

/-- when the difference `Δ = M − M'` of two valid elements has order exactly `q` (for prime `q`:
whenever `M ≠ M'`), the exceptional class is `q ∣ w·y`, i.e. `w·y ≡ 0 (mod q)` -/
theorem params_mismatch_prime_order {G : Group} (S : GroupSpec G) {M M' : G.Elem}
    (vM : S.Valid M) (vM' : S.Valid M')
    (hΔ : ∀ n : ℤ, n • (S.abs M - S.abs M') = 0 → (S.q : ℤ) ∣ n) (w y : ℤ) :
    (w * y) • (S.abs M - S.abs M') = 0 ↔ (S.q : ℤ) ∣ w * y := by
  refine ⟨hΔ _, fun ⟨c, hc⟩ => ?_⟩
  rw [hc, mul_comm, mul_smul, smul_sub, S.order_smul M vM, S.order_smul M' vM', sub_zero,
    smul_zero]

/-- **parameter mismatch, keys** (honest exchange between a started `A` and a started `B` session with
the same password and identities whose parameter sets agree on `N` but possibly not on `M`; both
ends return a key).  If `(w·y)•(M − M') = 0` the keys are equal; if the keys are equal, a collision
is exhibited or `(w·y)•(M − M') = 0`. -/
theorem params_mismatch_keys {G : Group} (S : GroupSpec G)
    {a b : Inst G} {x y : ℤ} {obA obB kA kB : Bytes}
    (ha : Ready S a x obA) (hb : Ready S b y obB) (sa : a.side = .A) (sb : b.side = .B)
    (hpw : a.pw = b.pw) (hidA : a.idA = b.idA) (hidB : a.idB = b.idB)
    (hN : S.abs a.params.N = S.abs b.params.N)
    (hkA : (a.finish (Consts.sideB ++ obB)).2 = .ok kA)
    (hkB : (b.finish (Consts.sideA ++ obA)).2 = .ok kB) :
    ((G.p2s a.pw * y) • (S.abs a.params.M - S.abs b.params.M) = 0 → kA = kB) ∧
    (kA = kB → Collision ∨ (G.p2s a.pw * y) • (S.abs a.params.M - S.abs b.params.M) = 0) :=
  Spake2Verif.params_mismatch_keys S ha hb sa sb hpw hidA hidB hN hkA hkB

/-- `params_mismatch_keys` for every integer group `IntegerGroup(p, q, g)` the constructor accepts (no primality assumption). -/
theorem params_mismatch_keys_intgroup (IP : IntGroupParams) (hp : 1 < IP.p) (hq : 0 < IP.q) (hg : 0 < IP.g ∧ IP.g < IP.p)
    (hctor : IntGroup.ctor_ok IP.p IP.q IP.g = true)
    {a b : Inst (intGroup IP)} {x y : ℤ} {obA obB kA kB : Bytes}
    (ha : Ready (intGroupSpec IP hp hq hg hctor) a x obA) (hb : Ready (intGroupSpec IP hp hq hg hctor) b y obB) (sa : a.side = .A) (sb : b.side = .B)
    (hpw : a.pw = b.pw) (hidA : a.idA = b.idA) (hidB : a.idB = b.idB)
    (hN : (intGroupSpec IP hp hq hg hctor).abs a.params.N = (intGroupSpec IP hp hq hg hctor).abs b.params.N)
    (hkA : (a.finish (Consts.sideB ++ obB)).2 = .ok kA)
    (hkB : (b.finish (Consts.sideA ++ obA)).2 = .ok kB) :
    (((intGroup IP).p2s a.pw * y) • ((intGroupSpec IP hp hq hg hctor).abs a.params.M - (intGroupSpec IP hp hq hg hctor).abs b.params.M) = 0 → kA = kB) ∧
    (kA = kB → Collision ∨ ((intGroup IP).p2s a.pw * y) • ((intGroupSpec IP hp hq hg hctor).abs a.params.M - (intGroupSpec IP hp hq hg hctor).abs b.params.M) = 0) :=
  C02.params_mismatch_keys (G := (intGroup IP)) (intGroupSpec IP hp hq hg hctor) ha hb sa sb hpw hidA hidB hN hkA hkB

/-- `params_mismatch_keys` for the shipped 1024-bit integer group (generated constants). -/
theorem params_mismatch_keys_1024 
    {a b : Inst G1024} {x y : ℤ} {obA obB kA kB : Bytes}
    (ha : Ready spec1024 a x obA) (hb : Ready spec1024 b y obB) (sa : a.side = .A) (sb : b.side = .B)
    (hpw : a.pw = b.pw) (hidA : a.idA = b.idA) (hidB : a.idB = b.idB)
    (hN : spec1024.abs a.params.N = spec1024.abs b.params.N)
    (hkA : (a.finish (Consts.sideB ++ obB)).2 = .ok kA)
    (hkB : (b.finish (Consts.sideA ++ obA)).2 = .ok kB) :
    ((G1024.p2s a.pw * y) • (spec1024.abs a.params.M - spec1024.abs b.params.M) = 0 → kA = kB) ∧
    (kA = kB → Collision ∨ (G1024.p2s a.pw * y) • (spec1024.abs a.params.M - spec1024.abs b.params.M) = 0) :=
  C02.params_mismatch_keys (G := G1024) spec1024 ha hb sa sb hpw hidA hidB hN hkA hkB

/-- `params_mismatch_keys` for the shipped 2048-bit integer group (generated constants). -/
theorem params_mismatch_keys_2048 
    {a b : Inst G2048} {x y : ℤ} {obA obB kA kB : Bytes}
    (ha : Ready spec2048 a x obA) (hb : Ready spec2048 b y obB) (sa : a.side = .A) (sb : b.side = .B)
    (hpw : a.pw = b.pw) (hidA : a.idA = b.idA) (hidB : a.idB = b.idB)
    (hN : spec2048.abs a.params.N = spec2048.abs b.params.N)
    (hkA : (a.finish (Consts.sideB ++ obB)).2 = .ok kA)
    (hkB : (b.finish (Consts.sideA ++ obA)).2 = .ok kB) :
    ((G2048.p2s a.pw * y) • (spec2048.abs a.params.M - spec2048.abs b.params.M) = 0 → kA = kB) ∧
    (kA = kB → Collision ∨ (G2048.p2s a.pw * y) • (spec2048.abs a.params.M - spec2048.abs b.params.M) = 0) :=
  C02.params_mismatch_keys (G := G2048) spec2048 ha hb sa sb hpw hidA hidB hN hkA hkB

/-- `params_mismatch_keys` for the shipped 3072-bit integer group (generated constants). -/
theorem params_mismatch_keys_3072 
    {a b : Inst G3072} {x y : ℤ} {obA obB kA kB : Bytes}
    (ha : Ready spec3072 a x obA) (hb : Ready spec3072 b y obB) (sa : a.side = .A) (sb : b.side = .B)
    (hpw : a.pw = b.pw) (hidA : a.idA = b.idA) (hidB : a.idB = b.idB)
    (hN : spec3072.abs a.params.N = spec3072.abs b.params.N)
    (hkA : (a.finish (Consts.sideB ++ obB)).2 = .ok kA)
    (hkB : (b.finish (Consts.sideA ++ obA)).2 = .ok kB) :
    ((G3072.p2s a.pw * y) • (spec3072.abs a.params.M - spec3072.abs b.params.M) = 0 → kA = kB) ∧
    (kA = kB → Collision ∨ (G3072.p2s a.pw * y) • (spec3072.abs a.params.M - spec3072.abs b.params.M) = 0) :=
  C02.params_mismatch_keys (G := G3072) spec3072 ha hb sa sb hpw hidA hidB hN hkA hkB

/-- `params_mismatch_keys` for Ed25519 with the constants generated from the current source. -/
theorem params_mismatch_keys_ed25519 
    {a b : Inst GEd} {x y : ℤ} {obA obB kA kB : Bytes}
    (ha : Ready specGen a x obA) (hb : Ready specGen b y obB) (sa : a.side = .A) (sb : b.side = .B)
    (hpw : a.pw = b.pw) (hidA : a.idA = b.idA) (hidB : a.idB = b.idB)
    (hN : specGen.abs a.params.N = specGen.abs b.params.N)
    (hkA : (a.finish (Consts.sideB ++ obB)).2 = .ok kA)
    (hkB : (b.finish (Consts.sideA ++ obA)).2 = .ok kB) :
    ((GEd.p2s a.pw * y) • (specGen.abs a.params.M - specGen.abs b.params.M) = 0 → kA = kB) ∧
    (kA = kB → Collision ∨ (GEd.p2s a.pw * y) • (specGen.abs a.params.M - specGen.abs b.params.M) = 0) :=
  C02.params_mismatch_keys (G := GEd) specGen ha hb sa sb hpw hidA hidB hN hkA hkB

/-- `params_mismatch_keys` for Ed25519 with the literal RFC 8032 constants. -/
theorem params_mismatch_keys_ed25519_published 
    {a b : Inst GEdPub} {x y : ℤ} {obA obB kA kB : Bytes}
    (ha : Ready specPublished a x obA) (hb : Ready specPublished b y obB) (sa : a.side = .A) (sb : b.side = .B)
    (hpw : a.pw = b.pw) (hidA : a.idA = b.idA) (hidB : a.idB = b.idB)
    (hN : specPublished.abs a.params.N = specPublished.abs b.params.N)
    (hkA : (a.finish (Consts.sideB ++ obB)).2 = .ok kA)
    (hkB : (b.finish (Consts.sideA ++ obA)).2 = .ok kB) :
    ((GEdPub.p2s a.pw * y) • (specPublished.abs a.params.M - specPublished.abs b.params.M) = 0 → kA = kB) ∧
    (kA = kB → Collision ∨ (GEdPub.p2s a.pw * y) • (specPublished.abs a.params.M - specPublished.abs b.params.M) = 0) :=
  C02.params_mismatch_keys (G := GEdPub) specPublished ha hb sa sb hpw hidA hidB hN hkA hkB

/-- **known finding K1a, exhibited**: in the situation of `params_mismatch_keys`, if the `B` end's
secret scalar is `0` the two keys are equal although `M ≠ M'` is allowed -/
theorem k1a_zero_scalar_agree {G : Group} (S : GroupSpec G) {a b : Inst G} {x : ℤ}
    {obA obB kA kB : Bytes}
    (ha : Ready S a x obA) (hb : Ready S b 0 obB) (sa : a.side = .A) (sb : b.side = .B)
    (hpw : a.pw = b.pw) (hidA : a.idA = b.idA) (hidB : a.idB = b.idB)
    (hN : S.abs a.params.N = S.abs b.params.N)
    (hkA : (a.finish (Consts.sideB ++ obB)).2 = .ok kA)
    (hkB : (b.finish (Consts.sideA ++ obA)).2 = .ok kB) : kA = kB :=
  (Spake2Verif.params_mismatch_keys S ha hb sa sb hpw hidA hidB hN hkA hkB).1
    (by rw [mul_zero, zero_smul])

/-- **known finding K1b, exhibited**: two session records that agree on the session fields (in
particular two symmetric ends created with the same password, identity, parameters *and secret
scalar*) return the same result on the same message -/
theorem k1b_same_scalar_agree {G : Group} {a b : Inst G} (h : SameSession a b) (d : Bytes) :
    (a.finish d).2 = (b.finish d).2 :=
  finish_congr h d

/-! ### non-vacuity -/

/-- the hypotheses of `binding_asym_started` are satisfiable: the honest toy exchange of C01
returns the same key at both ends (kernel evaluation) -/
example :
    ((Inst.new (G := toyG) .A [1] [1] [2] toyParams ⟨[4]⟩).start.1.finish
        ((Inst.new (G := toyG) .B [1] [1] [2] toyParams ⟨[7]⟩).start.2.toOption.getD [])).2 =
    ((Inst.new (G := toyG) .B [1] [1] [2] toyParams ⟨[7]⟩).start.1.finish
        ((Inst.new (G := toyG) .A [1] [1] [2] toyParams ⟨[4]⟩).start.2.toOption.getD [])).2 ∧
    (((Inst.new (G := toyG) .A [1] [1] [2] toyParams ⟨[4]⟩).start.1.finish
        ((Inst.new (G := toyG) .B [1] [1] [2] toyParams ⟨[7]⟩).start.2.toOption.getD [])).2).toOption.isSome
      = true := by
  decide +kernel

/-- tampering on the toy group: flipping one bit of `B`'s message (`[66, 12]` instead of
`[66, 13]`, still a valid element) makes the two keys differ -/
example :
    ((Inst.new (G := toyG) .A [1] [1] [2] toyParams ⟨[4]⟩).start.1.finish [66, 12]).2 ≠
    ((Inst.new (G := toyG) .B [1] [1] [2] toyParams ⟨[0]⟩).start.1.finish
        ((Inst.new (G := toyG) .A [1] [1] [2] toyParams ⟨[4]⟩).start.2.toOption.getD [])).2 := by
  decide +kernel

/-- K1a on the toy group (`A` holds `M = 3`, `B` holds `M = 9`): with `B`'s scalar `0` both ends
return the same key; with scalar `5` the keys differ -/
example :
    ((Inst.new (G := toyG) .A [1] [1] [2] toyParams ⟨[4]⟩).start.1.finish
        ((Inst.new (G := toyG) .B [1] [1] [2] toyParamsM9 ⟨[0]⟩).start.2.toOption.getD [])).2 =
    ((Inst.new (G := toyG) .B [1] [1] [2] toyParamsM9 ⟨[0]⟩).start.1.finish
        ((Inst.new (G := toyG) .A [1] [1] [2] toyParams ⟨[4]⟩).start.2.toOption.getD [])).2 ∧
    (((Inst.new (G := toyG) .A [1] [1] [2] toyParams ⟨[4]⟩).start.1.finish
        ((Inst.new (G := toyG) .B [1] [1] [2] toyParamsM9 ⟨[0]⟩).start.2.toOption.getD [])).2).toOption.isSome
      = true ∧
    ((Inst.new (G := toyG) .A [1] [1] [2] toyParams ⟨[4]⟩).start.1.finish
        ((Inst.new (G := toyG) .B [1] [1] [2] toyParamsM9 ⟨[5]⟩).start.2.toOption.getD [])).2 ≠
    ((Inst.new (G := toyG) .B [1] [1] [2] toyParamsM9 ⟨[5]⟩).start.1.finish
        ((Inst.new (G := toyG) .A [1] [1] [2] toyParams ⟨[4]⟩).start.2.toOption.getD [])).2 :=
  toy_k1a

/-- K1b on the toy group: two symmetric ends with the same secret scalar, handed the same third
message, return the same key -/
example :
    ((Inst.new (G := toyG) .S [1] [7] [] toyParams ⟨[4]⟩).start.1.finish [83, 2]).2 =
    ((Inst.new (G := toyG) .S [1] [7] [8] toyParams ⟨[4, 9]⟩).start.1.finish [83, 2]).2 ∧
    (((Inst.new (G := toyG) .S [1] [7] [] toyParams ⟨[4]⟩).start.1.finish [83, 2]).2).toOption.isSome
      = true :=
  toy_k1b

/-- Tie A: the `start()` / `finish()` reasoned about above are those of the *source* -- the model's state machine
equals the translation of the method bodies of `_SPAKE2_Base.start`, `compute_outbound_message`, `finish`, the role
accessors and `_finalize` (flag tests and sets, order of effects, blinding / unblinding element per class, the
reflection test and its position, `K = (Y* + N·(-pw))·x`, transcript arguments per class), for every group -/
theorem start_finish_are_the_source {G : Group} :
    @Inst.start G = ProtoFlowTie.flowStart ∧ @Inst.finish G = ProtoFlowTie.flowFinish :=
  ⟨ProtoFlowTie.start_is_source, ProtoFlowTie.finish_is_source⟩

end Spake2Verif.C02
