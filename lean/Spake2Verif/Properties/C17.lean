import Spake2Verif.Proofs.TranscriptProofs
import Spake2Verif.Proofs.ProtoShapeTie
/-!
# C17 — The transcript hash binds every field and is order-independent when symmetric

Statement (properties.jsonl):
"finalize_SPAKE2(idA, idB, X, Y, K, pw) equals SHA256(SHA256(pw) || SHA256(idA) || SHA256(idB) || X || Y || K)
and finalize_SPAKE2_symmetric(idS, m1, m2, K, pw) equals
SHA256(SHA256(pw) || SHA256(idS) || min(m1,m2) || max(m1,m2) || K) for all byte strings.  The symmetric form is
invariant under exchanging m1 and m2, and for messages of a group's fixed width changing any single argument
changes the key."

Clause → theorem
* layout of `finalize_SPAKE2`                        : `finalize_def`
* layout of `finalize_SPAKE2_symmetric`              : `finalize_sym_def`, with `min/max` = `sorted2` characterised by
                                                       `sorted2_is_min_max` (one of the two orders, first not above
                                                       the second in byte-lexicographic order, order-independent)
* invariance under exchanging m1, m2                 : `sym_swap`
* every field is bound (fixed-width messages)        : `finalize_injective`, `finalize_sym_injective`
                                                       (equal keys ⇒ `Collision` ∨ equal arguments),
                                                       `finalize_any_arg_changes` (contrapositive, any change),
                                                       `finalize_single_arg_changes` (one theorem, six clauses: changing
                                                       exactly one argument), `finalize_sym_single_arg_changes`
* quantifier example idA='ab', idB='c' vs 'a','bc'   : `id_pair_example` (all X, Y, K, pw) and
                                                       `id_pair_example_concrete` (kernel evaluation: the two digests differ)
* digest is 32 bytes                                 : `sha256_length`, `sha256_isBytes`
* both peers hash the same transcript                : `finalize_agree_AB`, `finalize_agree_S`

Assumed / partial
* "changes the key" is proved **up to an explicit SHA-256 collision**: the conclusion is
  `Collision ∨ …` where `Collision := ∃ a b, a ≠ b ∧ sha256 a = sha256 b` (`Spake2Model.Transcript.Collision`).
  Collision resistance of SHA-256 is not a theorem; nothing is assumed about it — a violation would exhibit a collision.
* `Sha.sha256` is the project's own executable SHA-256 (Spake2Model/Model/Sha256.lean); its agreement with
  `hashlib.sha256` is established by the byte-exact correspondence runs, not by a theorem.
* The fixed-width hypothesis (`X.length = X'.length`, `Y.length = Y'.length`; common length `n` for the symmetric form) is
  necessary: X, Y, K are concatenated unhashed.  No hypothesis on `K`, the ids or the password.
-/
namespace Spake2Verif.C17
open Spake2Model Spake2Model.Transcript

/-- layout of the asymmetric transcript hash -/
theorem finalize_def (idA idB X Y K pw : Bytes) :
    finalizeSPAKE2 idA idB X Y K pw
      = Sha.sha256 (Sha.sha256 pw ++ Sha.sha256 idA ++ Sha.sha256 idB ++ X ++ Y ++ K) :=
  Transcript.finalize_def idA idB X Y K pw

/-- layout of the symmetric transcript hash -/
theorem finalize_sym_def (idS m1 m2 K pw : Bytes) :
    finalizeSymmetric idS m1 m2 K pw
      = Sha.sha256 (Sha.sha256 pw ++ Sha.sha256 idS ++ (sorted2 m1 m2).1 ++ (sorted2 m1 m2).2 ++ K) :=
  Transcript.finalize_sym_def idS m1 m2 K pw

/-- `sorted2 m1 m2` is `(min, max)`: it is one of the two orders, its first component is not above its second
(byte-lexicographic `bytesLt`), and it does not depend on the order of the arguments -/
theorem sorted2_is_min_max (m1 m2 : Bytes) :
    (sorted2 m1 m2 = (m1, m2) ∨ sorted2 m1 m2 = (m2, m1)) ∧
    bytesLt (sorted2 m1 m2).2 (sorted2 m1 m2).1 = false ∧
    sorted2 m1 m2 = sorted2 m2 m1 :=
  ⟨sorted2_cases m1 m2, sorted2_ordered m1 m2, sorted2_swap m1 m2⟩

/-- the symmetric form is invariant under exchanging `m1` and `m2` -/
theorem sym_swap (idS m1 m2 K pw : Bytes) :
    finalizeSymmetric idS m1 m2 K pw = finalizeSymmetric idS m2 m1 K pw :=
  Transcript.sym_swap idS m1 m2 K pw

/-- every digest has 32 entries -/
theorem sha256_length (m : Bytes) : (Sha.sha256 m).length = 32 := Transcript.sha256_length m

/-- every digest consists of bytes -/
theorem sha256_isBytes (m : Bytes) : IsBytes (Sha.sha256 m) := Transcript.sha256_isBytes m

/-- equal keys ⇒ a SHA-256 collision is exhibited or all six arguments agree (fixed-width X, Y) -/
theorem finalize_injective {idA idB X Y K pw idA' idB' X' Y' K' pw' : Bytes}
    (hX : X.length = X'.length) (hY : Y.length = Y'.length)
    (h : finalizeSPAKE2 idA idB X Y K pw = finalizeSPAKE2 idA' idB' X' Y' K' pw') :
    Collision ∨ (idA = idA' ∧ idB = idB' ∧ X = X' ∧ Y = Y' ∧ K = K' ∧ pw = pw') :=
  Transcript.finalize_injective hX hY h

/-- symmetric analogue, up to the exchange of the two messages -/
theorem finalize_sym_injective {idS m1 m2 K pw idS' m1' m2' K' pw' : Bytes} {n : Nat}
    (h1 : m1.length = n) (h2 : m2.length = n) (h1' : m1'.length = n) (h2' : m2'.length = n)
    (h : finalizeSymmetric idS m1 m2 K pw = finalizeSymmetric idS' m1' m2' K' pw') :
    Collision ∨ (idS = idS' ∧ pw = pw' ∧ K = K' ∧
      ((m1 = m1' ∧ m2 = m2') ∨ (m1 = m2' ∧ m2 = m1'))) :=
  Transcript.finalize_sym_injective h1 h2 h1' h2' h

/-- any change of the argument tuple (fixed-width X, Y) changes the key, unless a collision is exhibited -/
theorem finalize_any_arg_changes {idA idB X Y K pw idA' idB' X' Y' K' pw' : Bytes}
    (hX : X.length = X'.length) (hY : Y.length = Y'.length)
    (hne : (idA, idB, X, Y, K, pw) ≠ (idA', idB', X', Y', K', pw')) :
    finalizeSPAKE2 idA idB X Y K pw ≠ finalizeSPAKE2 idA' idB' X' Y' K' pw' ∨ Collision := by
  by_cases h : finalizeSPAKE2 idA idB X Y K pw = finalizeSPAKE2 idA' idB' X' Y' K' pw'
  · rcases Transcript.finalize_injective hX hY h with hc | ⟨e1, e2, e3, e4, e5, e6⟩
    · exact Or.inr hc
    · exact absurd (by rw [e1, e2, e3, e4, e5, e6]) hne
  · exact Or.inl h

/-- changing exactly one of the six arguments (the other five held fixed; a changed X or Y keeps its width)
changes the key, unless a SHA-256 collision is exhibited -/
theorem finalize_single_arg_changes (idA idB X Y K pw : Bytes) :
    (∀ idA', idA ≠ idA' →
      finalizeSPAKE2 idA idB X Y K pw ≠ finalizeSPAKE2 idA' idB X Y K pw ∨ Collision) ∧
    (∀ idB', idB ≠ idB' →
      finalizeSPAKE2 idA idB X Y K pw ≠ finalizeSPAKE2 idA idB' X Y K pw ∨ Collision) ∧
    (∀ X', X.length = X'.length → X ≠ X' →
      finalizeSPAKE2 idA idB X Y K pw ≠ finalizeSPAKE2 idA idB X' Y K pw ∨ Collision) ∧
    (∀ Y', Y.length = Y'.length → Y ≠ Y' →
      finalizeSPAKE2 idA idB X Y K pw ≠ finalizeSPAKE2 idA idB X Y' K pw ∨ Collision) ∧
    (∀ K', K ≠ K' →
      finalizeSPAKE2 idA idB X Y K pw ≠ finalizeSPAKE2 idA idB X Y K' pw ∨ Collision) ∧
    (∀ pw', pw ≠ pw' →
      finalizeSPAKE2 idA idB X Y K pw ≠ finalizeSPAKE2 idA idB X Y K pw' ∨ Collision) := by
  refine ⟨?_, ?_, ?_, ?_, ?_, ?_⟩
  · intro idA' hne
    by_cases h : finalizeSPAKE2 idA idB X Y K pw = finalizeSPAKE2 idA' idB X Y K pw
    · rcases Transcript.finalize_injective rfl rfl h with hc | ⟨e, _⟩
      · exact Or.inr hc
      · exact absurd e hne
    · exact Or.inl h
  · intro idB' hne
    by_cases h : finalizeSPAKE2 idA idB X Y K pw = finalizeSPAKE2 idA idB' X Y K pw
    · rcases Transcript.finalize_injective rfl rfl h with hc | ⟨_, e, _⟩
      · exact Or.inr hc
      · exact absurd e hne
    · exact Or.inl h
  · intro X' hl hne
    by_cases h : finalizeSPAKE2 idA idB X Y K pw = finalizeSPAKE2 idA idB X' Y K pw
    · rcases Transcript.finalize_injective hl rfl h with hc | ⟨_, _, e, _⟩
      · exact Or.inr hc
      · exact absurd e hne
    · exact Or.inl h
  · intro Y' hl hne
    by_cases h : finalizeSPAKE2 idA idB X Y K pw = finalizeSPAKE2 idA idB X Y' K pw
    · rcases Transcript.finalize_injective rfl hl h with hc | ⟨_, _, _, e, _⟩
      · exact Or.inr hc
      · exact absurd e hne
    · exact Or.inl h
  · intro K' hne
    by_cases h : finalizeSPAKE2 idA idB X Y K pw = finalizeSPAKE2 idA idB X Y K' pw
    · rcases Transcript.finalize_injective rfl rfl h with hc | ⟨_, _, _, _, e, _⟩
      · exact Or.inr hc
      · exact absurd e hne
    · exact Or.inl h
  · intro pw' hne
    by_cases h : finalizeSPAKE2 idA idB X Y K pw = finalizeSPAKE2 idA idB X Y K pw'
    · rcases Transcript.finalize_injective rfl rfl h with hc | ⟨_, _, _, _, _, e⟩
      · exact Or.inr hc
      · exact absurd e hne
    · exact Or.inl h

/-- symmetric form, messages of one common width `n`: changing exactly one of `idS`, `m1`, `m2`, `K`, `pw`
changes the key, unless a SHA-256 collision is exhibited -/
theorem finalize_sym_single_arg_changes (idS m1 m2 K pw : Bytes) (n : Nat)
    (h1 : m1.length = n) (h2 : m2.length = n) :
    (∀ idS', idS ≠ idS' →
      finalizeSymmetric idS m1 m2 K pw ≠ finalizeSymmetric idS' m1 m2 K pw ∨ Collision) ∧
    (∀ m1', m1'.length = n → m1 ≠ m1' →
      finalizeSymmetric idS m1 m2 K pw ≠ finalizeSymmetric idS m1' m2 K pw ∨ Collision) ∧
    (∀ m2', m2'.length = n → m2 ≠ m2' →
      finalizeSymmetric idS m1 m2 K pw ≠ finalizeSymmetric idS m1 m2' K pw ∨ Collision) ∧
    (∀ K', K ≠ K' →
      finalizeSymmetric idS m1 m2 K pw ≠ finalizeSymmetric idS m1 m2 K' pw ∨ Collision) ∧
    (∀ pw', pw ≠ pw' →
      finalizeSymmetric idS m1 m2 K pw ≠ finalizeSymmetric idS m1 m2 K pw' ∨ Collision) := by
  refine ⟨?_, ?_, ?_, ?_, ?_⟩
  · intro idS' hne
    by_cases h : finalizeSymmetric idS m1 m2 K pw = finalizeSymmetric idS' m1 m2 K pw
    · rcases Transcript.finalize_sym_injective h1 h2 h1 h2 h with hc | ⟨e, _⟩
      · exact Or.inr hc
      · exact absurd e hne
    · exact Or.inl h
  · intro m1' hl hne
    by_cases h : finalizeSymmetric idS m1 m2 K pw = finalizeSymmetric idS m1' m2 K pw
    · rcases Transcript.finalize_sym_injective h1 h2 hl h2 h with hc | ⟨_, _, _, ⟨e, _⟩ | ⟨e, e'⟩⟩
      · exact Or.inr hc
      · exact absurd e hne
      · exact absurd (e.trans e') hne
    · exact Or.inl h
  · intro m2' hl hne
    by_cases h : finalizeSymmetric idS m1 m2 K pw = finalizeSymmetric idS m1 m2' K pw
    · rcases Transcript.finalize_sym_injective h1 h2 h1 hl h with hc | ⟨_, _, _, ⟨_, e⟩ | ⟨e, e'⟩⟩
      · exact Or.inr hc
      · exact absurd e hne
      · exact absurd (e'.trans e) hne
    · exact Or.inl h
  · intro K' hne
    by_cases h : finalizeSymmetric idS m1 m2 K pw = finalizeSymmetric idS m1 m2 K' pw
    · rcases Transcript.finalize_sym_injective h1 h2 h1 h2 h with hc | ⟨_, _, e, _⟩
      · exact Or.inr hc
      · exact absurd e hne
    · exact Or.inl h
  · intro pw' hne
    by_cases h : finalizeSymmetric idS m1 m2 K pw = finalizeSymmetric idS m1 m2 K pw'
    · rcases Transcript.finalize_sym_injective h1 h2 h1 h2 h with hc | ⟨_, e, _⟩
      · exact Or.inr hc
      · exact absurd e hne
    · exact Or.inl h

/-- the identities are hashed separately: `('ab','c')` and `('a','bc')` — equal concatenation — give
different keys for all X, Y, K, pw, unless a SHA-256 collision is exhibited -/
theorem id_pair_example (X Y K pw : Bytes) :
    finalizeSPAKE2 (asciiOf "ab") (asciiOf "c") X Y K pw
      ≠ finalizeSPAKE2 (asciiOf "a") (asciiOf "bc") X Y K pw ∨ Collision := by
  by_cases h : finalizeSPAKE2 (asciiOf "ab") (asciiOf "c") X Y K pw
      = finalizeSPAKE2 (asciiOf "a") (asciiOf "bc") X Y K pw
  · rcases Transcript.finalize_injective rfl rfl h with hc | ⟨e, _⟩
    · exact Or.inr hc
    · exact absurd e (by decide)
  · exact Or.inl h

/-- the same example evaluated by the kernel on one concrete transcript: the digests do differ -/
theorem id_pair_example_concrete :
    finalizeSPAKE2 (asciiOf "ab") (asciiOf "c") [1] [2] [3] (asciiOf "pw")
      ≠ finalizeSPAKE2 (asciiOf "a") (asciiOf "bc") [1] [2] [3] (asciiOf "pw") := by
  decide +kernel

/-- side A (outbound X, inbound Y) and side B (inbound X, outbound Y) hash the same transcript -/
theorem finalize_agree_AB {G : Group} (a b : Inst G) (ha : a.side = .A) (hb : b.side = .B)
    (hA : a.idA = b.idA) (hB : a.idB = b.idB) (hpw : a.pw = b.pw) (X Y K : Bytes) :
    a.finalize Y X K = b.finalize X Y K :=
  Transcript.finalize_agree_AB a b ha hb hA hB hpw X Y K

/-- two symmetric peers hash the same transcript -/
theorem finalize_agree_S {G : Group} (a b : Inst G) (ha : a.side = .S) (hb : b.side = .S)
    (hS : a.idA = b.idA) (hpw : a.pw = b.pw) (m1 m2 K : Bytes) :
    a.finalize m2 m1 K = b.finalize m1 m2 K :=
  Transcript.finalize_agree_S a b ha hb hS hpw m1 m2 K

/-- non-vacuity: the swap invariance on concrete, different messages, evaluated -/
example : finalizeSymmetric [1] [5, 6] [5, 7] [9] [2] = finalizeSymmetric [1] [5, 7] [5, 6] [9] [2] :=
  sym_swap _ _ _ _ _

/-- non-vacuity: `sorted2` really sorts -/
example : sorted2 [5, 7] [5, 6] = ([5, 6], [5, 7]) := by decide

/-- Tie A: the two transcript layouts proved above are those of the *source* -- `finalizeSPAKE2` /
`finalizeSymmetric` are the functions `tools/py2lean.py` translates from `finalize_SPAKE2` /
`finalize_SPAKE2_symmetric` on every run -/
theorem transcript_layout_is_the_source :
    finalizeSPAKE2 = Spake2Model.Gen.Proto.finalize_asym ∧
    finalizeSymmetric = Spake2Model.Gen.Proto.finalize_sym :=
  ⟨ProtoShapeTie.finalize_asym_tie, ProtoShapeTie.finalize_sym_tie⟩

end Spake2Verif.C17
