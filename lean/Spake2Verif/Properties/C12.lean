import Spake2Verif.Proofs.PropAuxB4
import Spake2Verif.Spec.Primes
import Spake2Verif.Spec.EdConsts
import Spake2Verif.Proofs.EdShapeTie
/-!
# C12 — Ed25519 point addition and doubling compute the Edwards group law

Statement (properties.jsonl):
"For all points of the Ed25519 curve, in every projective (extended-coordinate) representation, point addition and
point doubling return a valid representation of the mathematical sum under the twisted-Edwards addition law - with no
exceptional cases: also for the identity, equal, opposite and small-order points.  The faster dedicated addition used
inside scalar multiplication returns the same sum whenever the difference of its operands is not one of the four points
of order 1, 2 or 4, which cannot occur for a prime-order point multiplied by a scalar below the group order."

Objects.  `Gen.Ed.add_elements`, `double_element`, `add_elements_nonunfied`, `scalarmult_element`,
`scalarmult_element_safe_slow` are the functions **generated from ed25519_basic.py on every run** (integer arithmetic with
`% Q`).  `Edw.Point C` is the set of points of `-x² + y² = 1 + d x² y²` over a field, with the twisted-Edwards addition law
`(x₁,y₁)+(x₂,y₂) = ((x₁y₂+y₁x₂)/(1+d x₁x₂y₁y₂), (y₁y₂+x₁x₂)/(1−d x₁x₂y₁y₂))` — an abelian group (`Spec/Edwards.lean`:
completeness, closure, associativity by `linear_combination`).  `Rep C (X,Y,Z,T) P` says the integer quadruple is a
projective representation of `P`: `Z ≠ 0`, `X = xZ`, `Y = yZ`, `T = xyZ` in `ZMod Q` (`rep_def`) — any `Z`, any integer
representatives, reduced or not.  `C25519` is that curve over `ZMod (2^255-19)` with `d`, `I` the generated constants
`Gen.Ed.d_c`, `Gen.Ed.I_c`.

Clause → theorem
* field facts for the generated constants            : `field_facts` (Q = 2^255−19 prime (Pratt certificate), Q ≡ 5 mod 8, I² = −1,
                                                        d·121666 = −121665, d a non-square (Euler criterion)), `edwards_group_law`
                                                        (the law, identity, inverse on `Point C`)
* unified addition, no exceptional case              : `add_elements_ed25519`;  any curve: `add_elements_correct`
* doubling, no exceptional case                      : `double_element_ed25519`;  any curve: `double_element_correct`
* dedicated addition correct off the 4 points        : `dedicated_add_ed25519`, `dedicated_add_correct`;
  its `Z₃` vanishes exactly there                    : `dedicated_add_Z_ne_zero_iff_ed25519`, `dedicated_add_Z_ne_zero_iff`
* the 4 points are `(0,±1), (±i,0)` = the points of order 1, 2, 4
                                                      : `exceptional_points`, `exceptional_points_order`
* never met for a prime-order point and `0 ≤ n < L`  : `ladder_side_condition` (multiples `k•P`, `L ∤ k`, avoid them),
                                                        `fast_ladder_ed25519`, `fast_ladder_correct` (the ladder using the dedicated
                                                        addition computes `n•P`)
* the slow ladder (unified addition), any point, n≥0 : `safe_ladder_ed25519`, `safe_ladder_correct`; the two agree: `ladders_agree`
* every point has representations, outputs are reduced: `every_point_representable`

Assumed / partial
* Nothing is assumed.  All statements are about the generated code, over **all** integer quadruples representing curve
  points (a statement about polynomial identities in `ZMod Q`, not a sample).  Python integers are unbounded, as are Lean's.
* The generic versions hold for every prime `Q` and every curve record with `i² = −1`, `d` non-square, `2 ≠ 0`.
* If the Python source of these functions changes, `Gen/Ed25519Arith.lean` changes and these proofs are re-checked
  against the new text (they fail to build if the new code no longer computes the group law).
-/
namespace Spake2Verif.C12
open Spake2Model Spake2Model.Gen Spake2Verif.Edw Spake2Verif.EdBridge Spake2Verif.EdLadder Spake2Verif.Spec

/-! ### the curve and its field -/

/-- facts about the constants the module computes (`Q`, `d`, `I`) -/
theorem field_facts :
    Ed.Q_c = 2 ^ 255 - 19 ∧ Nat.Prime Ed.Q_c.toNat ∧ Ed.Q_c % 8 = 5 ∧
    (Ed.I_c : ZMod Ed.Q_c.toNat) ^ 2 = -1 ∧
    (Ed.d_c : ZMod Ed.Q_c.toNat) * 121666 = -121665 ∧
    (∀ s : ZMod Ed.Q_c.toNat, s ^ 2 ≠ (Ed.d_c : ZMod Ed.Q_c.toNat)) ∧
    C25519.d = (Ed.d_c : ZMod Ed.Q_c.toNat) ∧ C25519.i = (Ed.I_c : ZMod Ed.Q_c.toNat) :=
  ⟨Q_c_eq, Q_prime, Q_mod_8, I_c_sq, d_c_zmod, d_c_nonsquare, rfl, rfl⟩

/-- the group law on curve points: coordinates of the sum, the identity `(0,1)`, the inverse `(-x, y)`; the
denominators never vanish (completeness) -/
theorem edwards_group_law {F : Type*} [Field F] (C : EdCurve F) (P R : Point C) :
    (P + R).x = (P.x * R.y + P.y * R.x) / (1 + C.d * P.x * R.x * P.y * R.y) ∧
    (P + R).y = (P.y * R.y + P.x * R.x) / (1 - C.d * P.x * R.x * P.y * R.y) ∧
    1 + C.d * P.x * R.x * P.y * R.y ≠ 0 ∧ 1 - C.d * P.x * R.x * P.y * R.y ≠ 0 ∧
    (0 : Point C).x = 0 ∧ (0 : Point C).y = 1 ∧ (-P).x = -P.x ∧ (-P).y = P.y ∧
    (-P.x ^ 2 + P.y ^ 2 = 1 + C.d * P.x ^ 2 * P.y ^ 2) :=
  ⟨rfl, rfl, (denoms_ne (Point.complete P R)).1, (denoms_ne (Point.complete P R)).2, rfl, rfl, rfl, rfl, P.on⟩

/-- what "representation" means -/
theorem rep_def {Q : ℕ} [Fact Q.Prime] (C : EdCurve (ZMod Q)) (X Y Z T : ℤ) (P : Point C) :
    Rep C (X, Y, Z, T) P ↔
      ((Z : ZMod Q) ≠ 0 ∧ (X : ZMod Q) = P.x * Z ∧ (Y : ZMod Q) = P.y * Z ∧ (T : ZMod Q) = P.x * P.y * Z) :=
  Iff.rfl

/-- every point has representations: `xform_affine_to_extended` of any integer lifts of its coordinates is one, with
`Z = 1` and reduced coordinates -/
theorem every_point_representable {Q : ℕ} [Fact Q.Prime] (C : EdCurve (ZMod Q)) (P : Point C) :
    Rep C (Ed.xform_affine_to_extended (Q : ℤ) ((P.x.val : ℤ), (P.y.val : ℤ))) P ∧
    Reduced Q (Ed.xform_affine_to_extended (Q : ℤ) ((P.x.val : ℤ), (P.y.val : ℤ))) := by
  have : NeZero Q := ⟨(Fact.out : Q.Prime).ne_zero⟩
  exact xform_affine_to_extended_rep C _ P
    (by show (((P.x.val : ℕ) : ℤ) : ZMod Q) = P.x; rw [Int.cast_natCast, ZMod.natCast_zmod_val])
    (by show (((P.y.val : ℕ) : ℤ) : ZMod Q) = P.y; rw [Int.cast_natCast, ZMod.natCast_zmod_val])

/-! ### generic versions (any prime `Q`, any complete `a = -1` twisted Edwards curve over `ZMod Q`) -/

/-- **unified addition** (`add_elements`): no side condition -/
theorem add_elements_correct {Q : ℕ} [Fact Q.Prime] (C : EdCurve (ZMod Q)) (d : ℤ)
    (hd : (d : ZMod Q) = C.d) {p1 p2 : ℤ × ℤ × ℤ × ℤ} {P1 P2 : Point C}
    (r1 : Rep C p1 P1) (r2 : Rep C p2 P2) :
    Rep C (Ed.add_elements (Q : ℤ) d p1 p2) (P1 + P2) ∧ Reduced Q (Ed.add_elements (Q : ℤ) d p1 p2) :=
  add_elements_rep C d hd r1 r2

/-- **doubling** (`double_element`): no side condition; the `T` coordinate of the input is not used -/
theorem double_element_correct {Q : ℕ} [Fact Q.Prime] (C : EdCurve (ZMod Q))
    {p : ℤ × ℤ × ℤ × ℤ} {P : Point C} (r : RepXYZ C p P) :
    Rep C (Ed.double_element (Q : ℤ) p) (P + P) ∧ Reduced Q (Ed.double_element (Q : ℤ) p) :=
  double_element_rep C r

/-- **dedicated addition** (`_add_elements_nonunfied`): the sum, whenever `P1 - P2` has `x ≠ 0` and `y ≠ 0` -/
theorem dedicated_add_correct {Q : ℕ} [Fact Q.Prime] (C : EdCurve (ZMod Q))
    {p1 p2 : ℤ × ℤ × ℤ × ℤ} {P1 P2 : Point C} (r1 : Rep C p1 P1) (r2 : Rep C p2 P2)
    (hne : ¬ ((P1 - P2).x = 0 ∨ (P1 - P2).y = 0)) :
    Rep C (Ed.add_elements_nonunfied (Q : ℤ) p1 p2) (P1 + P2) ∧
      Reduced Q (Ed.add_elements_nonunfied (Q : ℤ) p1 p2) :=
  add_elements_nonunfied_rep C r1 r2 hne

/-- the `Z₃` of the dedicated addition is non-zero **iff** `P1 - P2` is none of the four exceptional points
(so on those, and only those, the output represents no point at all) -/
theorem dedicated_add_Z_ne_zero_iff {Q : ℕ} [Fact Q.Prime] (C : EdCurve (ZMod Q))
    (p1 p2 : ℤ × ℤ × ℤ × ℤ) (P1 P2 : Point C) (r1 : Rep C p1 P1) (r2 : Rep C p2 P2) :
    (((Ed.add_elements_nonunfied (Q : ℤ) p1 p2).2.2.1 : ℤ) : ZMod Q) ≠ 0 ↔
      ((P1 - P2).x ≠ 0 ∧ (P1 - P2).y ≠ 0) :=
  add_elements_nonunfied_Z_ne_zero_iff C p1 p2 P1 P2 r1 r2

/-- `x = 0 ∨ y = 0` singles out exactly the four points `(0,1), (0,-1), (i,0), (-i,0)` -/
theorem exceptional_points {F : Type*} [Field F] {C : EdCurve F} (P : Point C) :
    (P.x = 0 ∨ P.y = 0) ↔
      ((P.x = 0 ∧ P.y = 1) ∨ (P.x = 0 ∧ P.y = -1) ∨ (P.x = C.i ∧ P.y = 0) ∨ (P.x = -C.i ∧ P.y = 0)) :=
  Point.x_or_y_eq_zero_iff P

/-- … and these are exactly the points of order 1, 2 or 4: `4•P = 0 ↔ x = 0 ∨ y = 0`, `2•P = 0 ↔ x = 0` -/
theorem exceptional_points_order {F : Type*} [Field F] {C : EdCurve F} (P : Point C) :
    ((4 : ℤ) • P = 0 ↔ (P.x = 0 ∨ P.y = 0)) ∧ (addOrderOf P ∣ 4 ↔ (P.x = 0 ∨ P.y = 0)) ∧
    (P + P = 0 ↔ P.x = 0) :=
  ⟨PropAuxB.four_zsmul_eq_zero_iff P, PropAuxB.addOrderOf_dvd_four_iff P, PropAuxB.add_self_eq_zero_iff P⟩

/-- **side condition of the fast ladder**: for a non-identity point `P` killed by an odd prime `L`, no multiple
`k•P` with `L ∤ k` is one of the four exceptional points (in the ladder `P1 - P2 = (m-2)•P` with `m` odd, `0 < m < L`) -/
theorem ladder_side_condition {Q : ℕ} [Fact Q.Prime] (C : EdCurve (ZMod Q)) {L : ℕ} (hL : L.Prime)
    (hL2 : 2 < L) (P : Point C) (hLP : (L : ℤ) • P = 0) (hP : P ≠ 0) (k : ℤ) (hk : ¬ (L : ℤ) ∣ k) :
    ¬ ((k • P).x = 0 ∨ (k • P).y = 0) :=
  no_small_order C hL hL2 P hLP hP k hk

/-- **slow ladder** (`scalarmult_element_safe_slow`, unified addition): `n•P` for every represented point, `n ≥ 0` -/
theorem safe_ladder_correct {Q : ℕ} [Fact Q.Prime] (C : EdCurve (ZMod Q)) (d : ℤ)
    (hd : (d : ZMod Q) = C.d) {pt : ℤ × ℤ × ℤ × ℤ} {P : Point C} (r : Rep C pt P) (n : ℤ) (hn : 0 ≤ n) :
    Rep C (Ed.scalarmult_element_safe_slow (Q : ℤ) d pt n) (n • P) ∧
      Reduced Q (Ed.scalarmult_element_safe_slow (Q : ℤ) d pt n) :=
  scalarmult_element_safe_slow_rep C d hd r n hn

/-- **fast ladder** (`scalarmult_element`, dedicated addition inside): `n•P` for a non-identity point of odd prime
order `L` and `0 ≤ n < L` -/
theorem fast_ladder_correct {Q : ℕ} [Fact Q.Prime] (C : EdCurve (ZMod Q)) {L : ℕ} (hL : L.Prime)
    (hL2 : 2 < L) {pt : ℤ × ℤ × ℤ × ℤ} {P : Point C} (r : Rep C pt P) (hLP : L • P = 0) (hP : P ≠ 0)
    (n : ℤ) (hn : 0 ≤ n) (hnL : n < L) :
    Rep C (Ed.scalarmult_element (Q : ℤ) pt n) (n • P) ∧ Reduced Q (Ed.scalarmult_element (Q : ℤ) pt n) :=
  scalarmult_element_rep C hL hL2 r hLP hP n hn hnL

/-- on the prime-order subgroup both ladders give the same affine point -/
theorem ladders_agree {Q : ℕ} [Fact Q.Prime] (C : EdCurve (ZMod Q)) {L : ℕ} (hL : L.Prime) (hL2 : 2 < L)
    (d : ℤ) (hd : (d : ZMod Q) = C.d) {pt : ℤ × ℤ × ℤ × ℤ} {P : Point C} (r : Rep C pt P)
    (hLP : L • P = 0) (hP : P ≠ 0) (n : ℤ) (hn : 0 ≤ n) (hnL : n < L) :
    Ed.xform_extended_to_affine (Q : ℤ) (Ed.scalarmult_element (Q : ℤ) pt n) =
      Ed.xform_extended_to_affine (Q : ℤ) (Ed.scalarmult_element_safe_slow (Q : ℤ) d pt n) :=
  scalarmult_element_agrees C hL hL2 d hd r hLP hP n hn hnL

/-! ### the generated constants: `Q = Gen.Ed.Q_c`, `d = Gen.Ed.d_c` -/

/-- unified addition on Ed25519 -/
theorem add_elements_ed25519 {p1 p2 : ℤ × ℤ × ℤ × ℤ} {P1 P2 : Point C25519}
    (r1 : Rep C25519 p1 P1) (r2 : Rep C25519 p2 P2) :
    Rep C25519 (Ed.add_elements Ed.Q_c Ed.d_c p1 p2) (P1 + P2) ∧
      Reduced Qn (Ed.add_elements Ed.Q_c Ed.d_c p1 p2) := by
  have := add_elements_rep C25519 Ed.d_c rfl r1 r2
  rwa [Qn_cast] at this

/-- doubling on Ed25519 -/
theorem double_element_ed25519 {p : ℤ × ℤ × ℤ × ℤ} {P : Point C25519} (r : RepXYZ C25519 p P) :
    Rep C25519 (Ed.double_element Ed.Q_c p) (P + P) ∧ Reduced Qn (Ed.double_element Ed.Q_c p) := by
  have := double_element_rep C25519 r
  rwa [Qn_cast] at this

/-- dedicated addition on Ed25519 -/
theorem dedicated_add_ed25519 {p1 p2 : ℤ × ℤ × ℤ × ℤ} {P1 P2 : Point C25519}
    (r1 : Rep C25519 p1 P1) (r2 : Rep C25519 p2 P2)
    (hne : ¬ ((P1 - P2).x = 0 ∨ (P1 - P2).y = 0)) :
    Rep C25519 (Ed.add_elements_nonunfied Ed.Q_c p1 p2) (P1 + P2) ∧
      Reduced Qn (Ed.add_elements_nonunfied Ed.Q_c p1 p2) := by
  have := add_elements_nonunfied_rep C25519 r1 r2 hne
  rwa [Qn_cast] at this

/-- … and its `Z₃` on Ed25519 -/
theorem dedicated_add_Z_ne_zero_iff_ed25519 (p1 p2 : ℤ × ℤ × ℤ × ℤ) (P1 P2 : Point C25519)
    (r1 : Rep C25519 p1 P1) (r2 : Rep C25519 p2 P2) :
    (((Ed.add_elements_nonunfied Ed.Q_c p1 p2).2.2.1 : ℤ) : ZMod Qn) ≠ 0 ↔
      ((P1 - P2).x ≠ 0 ∧ (P1 - P2).y ≠ 0) := by
  have := add_elements_nonunfied_Z_ne_zero_iff C25519 p1 p2 P1 P2 r1 r2
  rwa [Qn_cast] at this

/-- the slow ladder on Ed25519 -/
theorem safe_ladder_ed25519 {pt : ℤ × ℤ × ℤ × ℤ} {P : Point C25519} (r : Rep C25519 pt P) (n : ℤ)
    (hn : 0 ≤ n) :
    Rep C25519 (Ed.scalarmult_element_safe_slow Ed.Q_c Ed.d_c pt n) (n • P) ∧
      Reduced Qn (Ed.scalarmult_element_safe_slow Ed.Q_c Ed.d_c pt n) := by
  have := scalarmult_element_safe_slow_rep C25519 Ed.d_c rfl r n hn
  rwa [Qn_cast] at this

/-- the fast ladder on Ed25519: for every non-identity point of the subgroup of order `L = Gen.Ed.L_c` (prime by
certificate) and every `0 ≤ n < L` -/
theorem fast_ladder_ed25519 {pt : ℤ × ℤ × ℤ × ℤ} {P : Point C25519} (r : Rep C25519 pt P)
    (hLP : Ln • P = 0) (hP : P ≠ 0) (n : ℤ) (hn : 0 ≤ n) (hnL : n < Ed.L_c) :
    Rep C25519 (Ed.scalarmult_element Ed.Q_c pt n) (n • P) ∧
      Reduced Qn (Ed.scalarmult_element Ed.Q_c pt n) := by
  have := scalarmult_element_rep C25519 L_prime (by decide +kernel) r hLP hP n hn
    (by rw [Ln_cast]; exact hnL)
  rwa [Qn_cast] at this

/-! ### non-vacuity -/

/-- the base point is a point of `C25519` of order exactly `L`, so the hypotheses of the fast ladder are met -/
example : Ln • Bpt = 0 ∧ Bpt ≠ 0 := ⟨L_nsmul_Bpt, Bpt_ne_zero⟩

/-- the exceptional cases exist and are handled: identity + identity, `P + (-P)`, through the unified addition -/
example (p q : ℤ × ℤ × ℤ × ℤ) (P : Point C25519) (r : Rep C25519 p P) (r' : Rep C25519 q (-P)) :
    Rep C25519 (Ed.add_elements Ed.Q_c Ed.d_c p q) 0 := by
  have := (add_elements_ed25519 r r').1
  rwa [add_neg_cancel] at this

/-- the dedicated addition really fails on an exceptional difference: `P1 = P2` gives `Z₃ = 0` -/
example (p : ℤ × ℤ × ℤ × ℤ) (P : Point C25519) (r : Rep C25519 p P) :
    (((Ed.add_elements_nonunfied Ed.Q_c p p).2.2.1 : ℤ) : ZMod Qn) = 0 := by
  by_contra h
  have := (dedicated_add_Z_ne_zero_iff_ed25519 p p P P r r).1 h
  rw [sub_self] at this
  exact this.1 rfl

/-! ### Tie A for the element API above the ladders -/

/-- which ladder `scalarmult` runs, on which scalar (`s % L` for `Element`, `s ≥ 0` unreduced for
`ElementOfUnknownGroup`, none for `Zero`), is the translation `Gen/EdShape.lean` of the current source, for every curve -/
theorem scalarmult_dispatch_is_translated (c : Curve) (a : EdElem) (s : ℤ) :
    (Ed25519.smul c a s).map EdShapeTie.toS =
      EdShape.smul c.Q c.L c.d (Ed25519.zeroPt c) (EdShapeTie.toS a) s :=
  EdShapeTie.smul_tie c a s

end Spake2Verif.C12
