import Spake2Verif.Proofs.Agreement
import Mathlib.Tactic.Module
/-!
Property C02 (binding): two sessions that return the *same* key have -- unless a SHA-256 collision
is exhibited -- the same password and identities, each received exactly the message the other
sent, and computed the same key element.

* `finish_ok_inv`        : what a successful `finish()` has checked and computed
* `binding_asym`         : `SPAKE2_A` vs `SPAKE2_B`
* `binding_sym`          : two `SPAKE2_Symmetric` ends (the transcript is sorted, so besides the
                           honest crossing also `out₁ = out₂ ∧ in₁ = in₂` is possible: finding K1b)
* `params_mismatch_iff`  : honest exchange, equal `N`, different `M`: the key elements coincide iff
                           `(w*y)•(M − M') = 0` (in particular for `y = 0` or `w = 0`: finding K1a)
-/
namespace Spake2Verif
open Spake2Model Spake2Model.Gen Spake2Model.Transcript

variable {G : Group}

/-- **Inversion of a successful `finish()`.**  The message was `peer-byte ‖ body`, `body` is the
fixed-width encoding of a valid element `e` different from the session's own, and the key is the
transcript hash over `enc K` with `K = x•(e − w•U)`. -/
theorem finish_ok_inv (S : GroupSpec G) {i : Inst G} {x : ℤ} {ob m k : Bytes}
    (h : Ready S i x ob) (hm : IsBytes m) (hk : (i.finish m).2 = .ok k) :
    ∃ body e K, m = peerByte i.side ++ body ∧ G.dec body = .ok e ∧ S.Valid e ∧ G.enc e = body ∧
      body.length = G.elemSize ∧ body ≠ ob ∧ S.Valid K ∧
      S.abs K = keyAbs S i.params i.side (G.p2s i.pw) x (S.abs e) ∧
      k = i.finalize body ob (G.enc K) := by
  cases hx : extractMessage i.side m with
  | error err => rw [finish_extract_error i h.finished hx] at hk; cases hk
  | ok body =>
    have hmb := extractMessage_ok hx
    have hb : IsBytes body := by rw [hmb] at hm; exact (isBytes_append.mp hm).2
    obtain ⟨a1, a2, a3⟩ := finish_ready S h hx hb
    cases hd : G.dec body with
    | error err => rw [a1 err hd] at hk; cases hk
    | ok e =>
      obtain ⟨ve, ee⟩ := S.dec_strict body e hb hd
      by_cases he : G.enc e = ob
      · rw [a2 e hd he] at hk; cases hk
      · obtain ⟨K, vK, aK, hK⟩ := a3 e hd he
        rw [hK] at hk; injection hk with hk
        exact ⟨body, e, K, hmb, hd, ve, ee, ee ▸ (S.enc_len e ve).1, ee ▸ he, vK, aK, hk.symm⟩

/-- the abstract value of a decoded element is determined by its encoding -/
theorem abs_of_enc_eq (S : GroupSpec G) {e e' : G.Elem} (v : S.Valid e) (v' : S.Valid e')
    (h : G.enc e = G.enc e') : S.abs e = S.abs e' := (S.enc_inj e e' v v').mp h

/-- **C02, asymmetric.**  `a` is a ready `SPAKE2_A` session (password `a.pw`, identities, parameters
`a.params`, secret `x`, sent `A‖obA`), `b` a ready `SPAKE2_B` session with possibly different
password, identities and parameters.  If `a.finish(dA)` and `b.finish(dB)` return the same key then,
unless a SHA-256 collision is exhibited, passwords and identities agree, each end received exactly
what the other sent, and the two key elements coincide. -/
theorem binding_asym (S : GroupSpec G) {a b : Inst G} {x y : ℤ} {obA obB dA dB k : Bytes}
    (ha : Ready S a x obA) (hb : Ready S b y obB) (sa : a.side = .A) (sb : b.side = .B)
    (hdA : IsBytes dA) (hdB : IsBytes dB)
    (hkA : (a.finish dA).2 = .ok k) (hkB : (b.finish dB).2 = .ok k) :
    Collision ∨
    (a.pw = b.pw ∧ a.idA = b.idA ∧ a.idB = b.idB ∧
      dB = Consts.sideA ++ obA ∧ dA = Consts.sideB ++ obB ∧
      ∃ KA KB, S.Valid KA ∧ S.Valid KB ∧ G.enc KA = G.enc KB ∧ S.abs KA = S.abs KB ∧
        S.abs KA = keyAbs S a.params .A (G.p2s a.pw) x (msgAbs S b.params .B (G.p2s b.pw) y) ∧
        S.abs KB = keyAbs S b.params .B (G.p2s b.pw) y (msgAbs S a.params .A (G.p2s a.pw) x) ∧
        k = finalizeSPAKE2 a.idA a.idB obA obB (G.enc KA) a.pw) := by
  obtain ⟨bodyA, eA', KA, mA, -, vA', encA', lenA, -, vKA, aKA, kA⟩ := finish_ok_inv S ha hdA hkA
  obtain ⟨bodyB, eB', KB, mB, -, vB', encB', lenB, -, vKB, aKB, kB⟩ := finish_ok_inv S hb hdB hkB
  obtain ⟨eA, vA, aA, encA, lA, -⟩ := ha.ob_elem
  obtain ⟨eB, vB, aB, encB, lB, -⟩ := hb.ob_elem
  rw [sa] at mA aKA aA
  rw [sb] at mB aKB aB
  have hfin : finalizeSPAKE2 a.idA a.idB obA bodyA (G.enc KA) a.pw
      = finalizeSPAKE2 b.idA b.idB bodyB obB (G.enc KB) b.pw := by
    have e1 : a.finalize bodyA obA (G.enc KA) = finalizeSPAKE2 a.idA a.idB obA bodyA (G.enc KA) a.pw := by
      simp [Inst.finalize, sa]
    have e2 : b.finalize bodyB obB (G.enc KB) = finalizeSPAKE2 b.idA b.idB bodyB obB (G.enc KB) b.pw := by
      simp [Inst.finalize, sb]
    rw [← e1, ← e2, ← kA, ← kB]
  rcases finalize_injective (by rw [lA, lenB]) (by rw [lenA, lB]) hfin with hc | ⟨i1, i2, i3, i4, i5, i6⟩
  · exact Or.inl hc
  refine Or.inr ⟨i6, i1, i2, by rw [mB, i3]; rfl, by rw [mA, i4]; rfl, KA, KB, vKA, vKB, i5,
    abs_of_enc_eq S vKA vKB i5, ?_, ?_, ?_⟩
  · rw [aKA, ← aB, abs_of_enc_eq S vA' vB (by rw [encA', i4, encB])]
  · rw [aKB, ← aA, abs_of_enc_eq S vB' vA (by rw [encB', ← i3, encA])]
  · rw [kA]; simp [Inst.finalize, sa, i4]

/-- **C02, symmetric.**  Two ready `SPAKE2_Symmetric` sessions returning the same key: unless a
collision is exhibited, password and identity agree, the key elements have the same encoding, and
the unordered pairs `{in, out}` coincide -- either crossed (the honest run) or straight
(`out₁ = out₂ ∧ in₁ = in₂`: both ends used the same secret and were fed the same third message). -/
theorem binding_sym (S : GroupSpec G) {a b : Inst G} {x y : ℤ} {ob₁ ob₂ d₁ d₂ k : Bytes}
    (ha : Ready S a x ob₁) (hb : Ready S b y ob₂) (sa : a.side = .S) (sb : b.side = .S)
    (hd₁ : IsBytes d₁) (hd₂ : IsBytes d₂)
    (hk₁ : (a.finish d₁).2 = .ok k) (hk₂ : (b.finish d₂).2 = .ok k) :
    Collision ∨
    (a.pw = b.pw ∧ a.idA = b.idA ∧
      ∃ in₁ in₂ K₁ K₂, d₁ = Consts.sideS ++ in₁ ∧ d₂ = Consts.sideS ++ in₂ ∧
        S.Valid K₁ ∧ S.Valid K₂ ∧ G.enc K₁ = G.enc K₂ ∧ S.abs K₁ = S.abs K₂ ∧
        k = finalizeSymmetric a.idA in₁ ob₁ (G.enc K₁) a.pw ∧
        ((in₁ = ob₂ ∧ in₂ = ob₁) ∨ (ob₁ = ob₂ ∧ in₁ = in₂))) := by
  obtain ⟨body₁, e₁, K₁, m₁, -, v₁, enc₁, len₁, -, vK₁, aK₁, k₁⟩ := finish_ok_inv S ha hd₁ hk₁
  obtain ⟨body₂, e₂, K₂, m₂, -, v₂, enc₂, len₂, -, vK₂, aK₂, k₂⟩ := finish_ok_inv S hb hd₂ hk₂
  obtain ⟨eA, vA, aA, encA, lA, -⟩ := ha.ob_elem
  obtain ⟨eB, vB, aB, encB, lB, -⟩ := hb.ob_elem
  rw [sa] at m₁
  rw [sb] at m₂
  have f₁ : a.finalize body₁ ob₁ (G.enc K₁) = finalizeSymmetric a.idA body₁ ob₁ (G.enc K₁) a.pw := by
    simp [Inst.finalize, sa]
  have f₂ : b.finalize body₂ ob₂ (G.enc K₂) = finalizeSymmetric b.idA body₂ ob₂ (G.enc K₂) b.pw := by
    simp [Inst.finalize, sb]
  have hfin : finalizeSymmetric a.idA body₁ ob₁ (G.enc K₁) a.pw
      = finalizeSymmetric b.idA body₂ ob₂ (G.enc K₂) b.pw := by rw [← f₁, ← f₂, ← k₁, ← k₂]
  rcases finalize_sym_injective len₁ lA len₂ lB hfin with hc | ⟨i1, i2, i3, i4⟩
  · exact Or.inl hc
  refine Or.inr ⟨i2, i1, body₁, body₂, K₁, K₂, m₁, m₂, vK₁, vK₂, i3,
    abs_of_enc_eq S vK₁ vK₂ i3, by rw [k₁, f₁], ?_⟩
  rcases i4 with ⟨j1, j2⟩ | ⟨j1, j2⟩
  · exact Or.inr ⟨j2, j1⟩
  · exact Or.inl ⟨j1, j2.symm⟩

/-! ### mismatching parameters -/

/-- the algebra: with equal `N`, `x•(Y − w•N) = y•(X − w•M')` iff `(w*y)•(M − M') = 0` -/
theorem mismatch_algebra {A : Type} [AddCommGroup A] (x y w : ℤ) (B M M' N : A) :
    x • ((y • B + w • N) - w • N) = y • ((x • B + w • M) - w • M') ↔ (w * y) • (M - M') = 0 := by
  have : y • ((x • B + w • M) - w • M')
      = x • ((y • B + w • N) - w • N) + (w * y) • (M - M') := by module
  rw [this]
  exact left_eq_add

/-- **C02 (parameter mismatch), key elements.**  Same password (`w`), `A` holds `(M, N)`, `B` holds
`(M', N')` with `N' = N` as group elements.  The key elements the two ends derive from an honest
exchange coincide iff `(w*y)•(M − M') = 0`. -/
theorem params_mismatch_iff (S : GroupSpec G) (Pa Pb : Params G) (w x y : ℤ)
    (hN : S.abs Pa.N = S.abs Pb.N) :
    keyAbs S Pa .A w x (msgAbs S Pb .B w y) = keyAbs S Pb .B w y (msgAbs S Pa .A w x) ↔
      (w * y) • (S.abs Pa.M - S.abs Pb.M) = 0 := by
  simp only [keyAbs, msgAbs, blinding, unblinding]
  rw [← hN]
  exact mismatch_algebra _ _ _ _ _ _ _

/-- **C02 (parameter mismatch), keys.**  Honest exchange between a ready `A` session and a ready
`B` session with the same password and identities whose parameters agree on `N` but possibly not on
`M`; both ends return a key.  If `(w*y)•(M − M') = 0` the keys are equal; if the keys are equal then
a SHA-256 collision is exhibited or `(w*y)•(M − M') = 0`. -/
theorem params_mismatch_keys (S : GroupSpec G) {a b : Inst G} {x y : ℤ} {obA obB kA kB : Bytes}
    (ha : Ready S a x obA) (hb : Ready S b y obB) (sa : a.side = .A) (sb : b.side = .B)
    (hpw : a.pw = b.pw) (hidA : a.idA = b.idA) (hidB : a.idB = b.idB)
    (hN : S.abs a.params.N = S.abs b.params.N)
    (hkA : (a.finish (Consts.sideB ++ obB)).2 = .ok kA)
    (hkB : (b.finish (Consts.sideA ++ obA)).2 = .ok kB) :
    ((G.p2s a.pw * y) • (S.abs a.params.M - S.abs b.params.M) = 0 → kA = kB) ∧
    (kA = kB → Collision ∨ (G.p2s a.pw * y) • (S.abs a.params.M - S.abs b.params.M) = 0) := by
  obtain ⟨eA, vA, aA, rfl, lA, bA⟩ := ha.ob_elem
  obtain ⟨eB, vB, aB, rfl, lB, bB⟩ := hb.ob_elem
  have hdA : IsBytes (Consts.sideB ++ G.enc eB) :=
    isBytes_append.mpr ⟨by decide, bB⟩
  have hdB : IsBytes (Consts.sideA ++ G.enc eA) :=
    isBytes_append.mpr ⟨by decide, bA⟩
  obtain ⟨bodyA, eA', KA, mA, -, vA', encA', -, -, vKA, aKA, kA'⟩ := finish_ok_inv S ha hdA hkA
  obtain ⟨bodyB, eB', KB, mB, -, vB', encB', -, -, vKB, aKB, kB'⟩ := finish_ok_inv S hb hdB hkB
  rw [sa] at mA aKA aA
  rw [sb] at mB aKB aB
  have hbA : bodyA = G.enc eB := (List.append_cancel_left mA).symm
  have hbB : bodyB = G.enc eA := (List.append_cancel_left mB).symm
  subst hbA; subst hbB
  have eKA : S.abs KA = keyAbs S a.params .A (G.p2s a.pw) x (msgAbs S b.params .B (G.p2s a.pw) y) := by
    rw [aKA, abs_of_enc_eq S vA' vB encA', aB, hpw]
  have eKB : S.abs KB = keyAbs S b.params .B (G.p2s a.pw) y (msgAbs S a.params .A (G.p2s a.pw) x) := by
    rw [aKB, abs_of_enc_eq S vB' vA encB', aA, hpw]
  have hiff := params_mismatch_iff S a.params b.params (G.p2s a.pw) x y hN
  have fA : kA = finalizeSPAKE2 a.idA a.idB (G.enc eA) (G.enc eB) (G.enc KA) a.pw := by
    rw [kA']; simp [Inst.finalize, sa]
  have fB : kB = finalizeSPAKE2 a.idA a.idB (G.enc eA) (G.enc eB) (G.enc KB) a.pw := by
    rw [kB']; simp [Inst.finalize, sb, hpw, hidA, hidB]
  constructor
  · intro h0
    have : G.enc KA = G.enc KB := by
      rw [S.enc_inj KA KB vKA vKB, eKA, eKB]; exact hiff.mpr h0
    rw [fA, fB, this]
  · intro hk
    rw [fA, fB] at hk
    rcases finalize_injective rfl rfl hk with hc | ⟨-, -, -, -, i5, -⟩
    · exact Or.inl hc
    · right
      apply hiff.mp
      rw [← eKA, ← eKB]
      exact abs_of_enc_eq S vKA vKB i5

end Spake2Verif

section Audit
open Spake2Verif
#print axioms finish_ok_inv
#print axioms binding_asym
#print axioms binding_sym
#print axioms params_mismatch_iff
#print axioms params_mismatch_keys
end Audit
