import Spake2Model.Model.Published
import Batteries.Lean.Except
/-!
Kernel evaluations (`decide +kernel`: SHA-256 / HKDF / group arithmetic run inside the Lean kernel,
no axioms) of the blinding elements -- here: the asymmetric end-to-end vector of `test_compat.py` (messages, scalars), reproduced by the model.
Re-exported by `Properties/C03.lean`.
-/
set_option maxRecDepth 100000
namespace Spake2Verif.PublishedEval
open Spake2Model Spake2Model.Gen

theorem vector_asym_msgA :
    (defaultParams (edGroup Spake2Model.ed25519)).toOption.map (fun P =>
      (Inst.new (G := edGroup Spake2Model.ed25519) .A (asciiOf "password") [] [] P ⟨Sha.sha256 (asciiOf "prng-0-A") ++ Sha.sha256 (asciiOf "prng-1-A")⟩).start.2.toOption.map hexlify) =
    some (some (asciiOf "416fc960df73c9cf8ed7198b0c9534e2e96a5984bfc5edc023fd24dacf371f2af9")) := by
  decide +kernel

theorem vector_asym_msgB :
    (defaultParams (edGroup Spake2Model.ed25519)).toOption.map (fun P =>
      (Inst.new (G := edGroup Spake2Model.ed25519) .B (asciiOf "password") [] [] P ⟨Sha.sha256 (asciiOf "prng-0-B") ++ Sha.sha256 (asciiOf "prng-1-B")⟩).start.2.toOption.map hexlify) =
    some (some (asciiOf "42354e97b88406922b1df4bea1d7870f17aed3dba7c720b313edae315b00959309")) := by
  decide +kernel

theorem vector_asym_scalars :
    (defaultParams (edGroup Spake2Model.ed25519)).toOption.map (fun P =>
      ((Inst.new (G := edGroup Spake2Model.ed25519) .A (asciiOf "password") [] [] P ⟨Sha.sha256 (asciiOf "prng-0-A") ++ Sha.sha256 (asciiOf "prng-1-A")⟩).start.1.pwScalar,
       (Inst.new (G := edGroup Spake2Model.ed25519) .A (asciiOf "password") [] [] P ⟨Sha.sha256 (asciiOf "prng-0-A") ++ Sha.sha256 (asciiOf "prng-1-A")⟩).start.1.xyScalar,
       (Inst.new (G := edGroup Spake2Model.ed25519) .B (asciiOf "password") [] [] P ⟨Sha.sha256 (asciiOf "prng-0-B") ++ Sha.sha256 (asciiOf "prng-1-B")⟩).start.1.xyScalar)) =
    some (3515301705789368674385125653994241092664323519848410154015274772661223168839,
      some 2611694063369306139794446498317402240796898290761098242657700742213257926693,
      some 7002393159576182977806091886122272758628412261510164356026361256515836884383) := by
  decide +kernel

end Spake2Verif.PublishedEval

section Audit
open Spake2Verif.PublishedEval
#print axioms vector_asym_msgA
#print axioms vector_asym_msgB
#print axioms vector_asym_scalars
end Audit
