import Spake2Model.Model.Spake2
/-!
Property C17: the transcript hashes `finalize_SPAKE2` / `finalize_SPAKE2_symmetric`.
Layout, order-independence of the symmetric variant, and injectivity up to a SHA-256 collision.
Core Lean only.
-/
namespace Spake2Model
namespace Transcript

/-- an explicit SHA-256 collision -/
def Collision : Prop := ∃ a b : Bytes, a ≠ b ∧ Sha.sha256 a = Sha.sha256 b

/-! ### layouts -/

theorem finalize_def (idA idB X Y K pw : Bytes) :
    finalizeSPAKE2 idA idB X Y K pw
      = Sha.sha256 (Sha.sha256 pw ++ Sha.sha256 idA ++ Sha.sha256 idB ++ X ++ Y ++ K) := rfl

theorem finalize_sym_def (idS m1 m2 K pw : Bytes) :
    finalizeSymmetric idS m1 m2 K pw
      = Sha.sha256 (Sha.sha256 pw ++ Sha.sha256 idS ++ (sorted2 m1 m2).1 ++ (sorted2 m1 m2).2 ++ K) := rfl

/-! ### `bytesLt` is a strict total order on arbitrary `List Nat` -/

theorem bytesLt_irrefl (a : Bytes) : bytesLt a a = false := by
  induction a with
  | nil => rfl
  | cons x xs ih => simp [bytesLt, ih]

theorem bytesLt_asymm : ∀ (a b : Bytes), bytesLt a b = true → bytesLt b a = false
  | [], [], _ => rfl
  | [], _ :: _, _ => rfl
  | _ :: _, [], h => by simp [bytesLt] at h
  | x :: xs, y :: ys, h => by
    unfold bytesLt at h ⊢
    by_cases h1 : x < y
    · have h2 : ¬ y < x := by omega
      simp [h2, h1]
    · by_cases h2 : y < x
      · simp [h1, h2] at h
      · simp [h1, h2] at h ⊢
        exact bytesLt_asymm xs ys h

theorem bytesLt_total : ∀ (a b : Bytes), bytesLt a b = false → bytesLt b a = false → a = b
  | [], [], _, _ => rfl
  | [], _ :: _, h, _ => by simp [bytesLt] at h
  | _ :: _, [], _, h => by simp [bytesLt] at h
  | x :: xs, y :: ys, h, h' => by
    unfold bytesLt at h h'
    by_cases h1 : x < y
    · simp [h1] at h
    · by_cases h2 : y < x
      · simp [h2] at h'
      · simp [h1, h2] at h h'
        have : x = y := by omega
        subst this
        rw [bytesLt_total xs ys h h']

theorem sorted2_swap (m1 m2 : Bytes) : sorted2 m1 m2 = sorted2 m2 m1 := by
  unfold sorted2
  cases h21 : bytesLt m2 m1 <;> cases h12 : bytesLt m1 m2
  · have := bytesLt_total m1 m2 h12 h21; subst this; simp
  · simp
  · simp
  · have := bytesLt_asymm m1 m2 h12; simp [this] at h21

/-- `sorted2` returns its two arguments, in one of the two orders -/
theorem sorted2_cases (m1 m2 : Bytes) :
    sorted2 m1 m2 = (m1, m2) ∨ sorted2 m1 m2 = (m2, m1) := by
  unfold sorted2; split <;> simp

/-- the first component is not above the second -/
theorem sorted2_ordered (m1 m2 : Bytes) :
    bytesLt (sorted2 m1 m2).2 (sorted2 m1 m2).1 = false := by
  unfold sorted2
  cases h : bytesLt m2 m1
  · simp [h]
  · simp [bytesLt_asymm _ _ h]

/-- the symmetric transcript does not depend on which message is "mine" -/
theorem sym_swap (idS m1 m2 K pw : Bytes) :
    finalizeSymmetric idS m1 m2 K pw = finalizeSymmetric idS m2 m1 K pw := by
  rw [finalize_sym_def, finalize_sym_def, sorted2_swap]

/-! ### the digest is always 32 bytes -/

theorem natToLE_length : ∀ (k n : Nat), (natToLE k n).length = k
  | 0, _ => rfl
  | k+1, n => by simp [natToLE, natToLE_length k]

theorem natToBE_length (k n : Nat) : (natToBE k n).length = k := by
  simp [natToBE, natToLE_length]

theorem compress_length (h block : List Nat) : (Sha.compress h block).length = h.length := by
  unfold Sha.compress
  split <;> rfl

theorem blocks_length : ∀ (n : Nat) (h m : List Nat), (Sha.blocks n h m).length = h.length
  | 0, _, _ => rfl
  | n+1, h, m => by
    unfold Sha.blocks
    split
    · rfl
    · rw [blocks_length n, compress_length]

theorem flatMap_natToBE_length (l : List Nat) :
    (l.flatMap (fun w => natToBE 4 w)).length = 4 * l.length := by
  induction l with
  | nil => rfl
  | cons x xs ih => simp [List.flatMap_cons, natToBE_length, ih]; omega

theorem sha256_length (m : Bytes) : (Sha.sha256 m).length = 32 := by
  unfold Sha.sha256
  simp only []
  rw [flatMap_natToBE_length, blocks_length]
  rfl

/-- the digest consists of bytes (for every input list, even one with entries ≥ 256) -/
theorem natToLE_isBytes : ∀ (k n : Nat), IsBytes (natToLE k n)
  | 0, _ => by intro x hx; cases hx
  | k+1, n => by
    intro x hx
    rw [natToLE] at hx
    rcases List.mem_cons.mp hx with e | hx
    · subst e; omega
    · exact natToLE_isBytes k _ x hx

theorem sha256_isBytes (m : Bytes) : IsBytes (Sha.sha256 m) := by
  intro x hx
  unfold Sha.sha256 at hx
  simp only [List.mem_flatMap] at hx
  obtain ⟨w, _, hx⟩ := hx
  rw [natToBE, List.mem_reverse] at hx
  exact natToLE_isBytes 4 w x hx

/-! ### injectivity up to a collision -/

theorem sha256_inj_or {a b : Bytes} (h : Sha.sha256 a = Sha.sha256 b) : Collision ∨ a = b := by
  by_cases hab : a = b
  · exact Or.inr hab
  · exact Or.inl ⟨a, b, hab, h⟩

/-- Equal `finalize_SPAKE2` outputs: either a SHA-256 collision is exhibited, or all six inputs agree.
Only the lengths of `X` and `Y` have to agree (true for the fixed-width group encodings);
nothing is assumed about `K`. -/
theorem finalize_injective {idA idB X Y K pw idA' idB' X' Y' K' pw' : Bytes}
    (hX : X.length = X'.length) (hY : Y.length = Y'.length)
    (h : finalizeSPAKE2 idA idB X Y K pw = finalizeSPAKE2 idA' idB' X' Y' K' pw') :
    Collision ∨ (idA = idA' ∧ idB = idB' ∧ X = X' ∧ Y = Y' ∧ K = K' ∧ pw = pw') := by
  rw [finalize_def, finalize_def] at h
  rcases sha256_inj_or h with hc | hT
  · exact Or.inl hc
  simp only [List.append_assoc] at hT
  have l := sha256_length
  obtain ⟨e1, hT⟩ := List.append_inj hT (by rw [l, l])
  obtain ⟨e2, hT⟩ := List.append_inj hT (by rw [l, l])
  obtain ⟨e3, hT⟩ := List.append_inj hT (by rw [l, l])
  obtain ⟨e4, hT⟩ := List.append_inj hT hX
  obtain ⟨e5, e6⟩ := List.append_inj hT hY
  rcases sha256_inj_or e1 with hc | e1
  · exact Or.inl hc
  rcases sha256_inj_or e2 with hc | e2
  · exact Or.inl hc
  rcases sha256_inj_or e3 with hc | e3
  · exact Or.inl hc
  exact Or.inr ⟨e2, e3, e4, e5, e6, e1⟩

/-- Symmetric analogue: all four messages have one common length `n`. -/
theorem finalize_sym_injective {idS m1 m2 K pw idS' m1' m2' K' pw' : Bytes} {n : Nat}
    (h1 : m1.length = n) (h2 : m2.length = n) (h1' : m1'.length = n) (h2' : m2'.length = n)
    (h : finalizeSymmetric idS m1 m2 K pw = finalizeSymmetric idS' m1' m2' K' pw') :
    Collision ∨ (idS = idS' ∧ pw = pw' ∧ K = K' ∧
      ((m1 = m1' ∧ m2 = m2') ∨ (m1 = m2' ∧ m2 = m1'))) := by
  rw [finalize_sym_def, finalize_sym_def] at h
  rcases sha256_inj_or h with hc | hT
  · exact Or.inl hc
  simp only [List.append_assoc] at hT
  have l := sha256_length
  have lf : (sorted2 m1 m2).1.length = (sorted2 m1' m2').1.length := by
    rcases sorted2_cases m1 m2 with e | e <;> rcases sorted2_cases m1' m2' with e' | e' <;>
      simp [e, e', h1, h2, h1', h2']
  have ls : (sorted2 m1 m2).2.length = (sorted2 m1' m2').2.length := by
    rcases sorted2_cases m1 m2 with e | e <;> rcases sorted2_cases m1' m2' with e' | e' <;>
      simp [e, e', h1, h2, h1', h2']
  obtain ⟨e1, hT⟩ := List.append_inj hT (by rw [l, l])
  obtain ⟨e2, hT⟩ := List.append_inj hT (by rw [l, l])
  obtain ⟨e3, hT⟩ := List.append_inj hT lf
  obtain ⟨e4, e5⟩ := List.append_inj hT ls
  rcases sha256_inj_or e1 with hc | e1
  · exact Or.inl hc
  rcases sha256_inj_or e2 with hc | e2
  · exact Or.inl hc
  refine Or.inr ⟨e2, e1, e5, ?_⟩
  rcases sorted2_cases m1 m2 with e | e <;> rcases sorted2_cases m1' m2' with e' | e' <;>
    simp only [e, e'] at e3 e4
  · exact Or.inl ⟨e3, e4⟩
  · exact Or.inr ⟨e3, e4⟩
  · exact Or.inr ⟨e4, e3⟩
  · exact Or.inl ⟨e4, e3⟩

/-! ### the two peers compute the same transcript hash -/

/-- side A (outbound `X`, inbound `Y`) and side B (inbound `X`, outbound `Y`) hash the same transcript -/
theorem finalize_agree_AB {G : Group} (a b : Inst G) (ha : a.side = .A) (hb : b.side = .B)
    (hA : a.idA = b.idA) (hB : a.idB = b.idB) (hpw : a.pw = b.pw) (X Y K : Bytes) :
    a.finalize Y X K = b.finalize X Y K := by
  simp [Inst.finalize, ha, hb, hA, hB, hpw]

/-- two symmetric peers (each one's inbound is the other's outbound) hash the same transcript -/
theorem finalize_agree_S {G : Group} (a b : Inst G) (ha : a.side = .S) (hb : b.side = .S)
    (hS : a.idA = b.idA) (hpw : a.pw = b.pw) (m1 m2 K : Bytes) :
    a.finalize m2 m1 K = b.finalize m1 m2 K := by
  simp only [Inst.finalize, ha, hb, hS, hpw]
  exact sym_swap _ _ _ _ _

end Transcript
end Spake2Model

section Audit
open Spake2Model Spake2Model.Transcript
#print axioms finalize_def
#print axioms finalize_sym_def
#print axioms sym_swap
#print axioms sha256_length
#print axioms sha256_isBytes
#print axioms finalize_injective
#print axioms finalize_sym_injective
#print axioms finalize_agree_AB
#print axioms finalize_agree_S
end Audit
