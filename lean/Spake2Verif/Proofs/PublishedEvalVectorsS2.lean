import Spake2Model.Model.Published
import Batteries.Lean.Except
/-!
Kernel evaluations (`decide +kernel`: SHA-256 / HKDF / group arithmetic run inside the Lean kernel,
no axioms) of the blinding elements -- here: the symmetric end-to-end vector of `test_compat.py` (keys), reproduced by the model.
Re-exported by `Properties/C03.lean`.
-/
set_option maxRecDepth 100000
namespace Spake2Verif.PublishedEval
open Spake2Model Spake2Model.Gen

theorem vector_asym_keyA :
    (defaultParams (edGroup Spake2Model.ed25519)).toOption.map (fun P =>
      ((Inst.new (G := edGroup Spake2Model.ed25519) .A (asciiOf "password") [] [] P ⟨Sha.sha256 (asciiOf "prng-0-A") ++ Sha.sha256 (asciiOf "prng-1-A")⟩).start.1.finish
        ((Inst.new (G := edGroup Spake2Model.ed25519) .B (asciiOf "password") [] [] P ⟨Sha.sha256 (asciiOf "prng-0-B") ++ Sha.sha256 (asciiOf "prng-1-B")⟩).start.2.toOption.getD [])).2.toOption.map hexlify) =
    some (some (asciiOf "a480bca13fa04464bb644f10e340125e96c9494f7399fef7c2bda67eb0fdf06d")) := by
  decide +kernel

theorem vector_asym_keyB :
    (defaultParams (edGroup Spake2Model.ed25519)).toOption.map (fun P =>
      ((Inst.new (G := edGroup Spake2Model.ed25519) .B (asciiOf "password") [] [] P ⟨Sha.sha256 (asciiOf "prng-0-B") ++ Sha.sha256 (asciiOf "prng-1-B")⟩).start.1.finish
        ((Inst.new (G := edGroup Spake2Model.ed25519) .A (asciiOf "password") [] [] P ⟨Sha.sha256 (asciiOf "prng-0-A") ++ Sha.sha256 (asciiOf "prng-1-A")⟩).start.2.toOption.getD [])).2.toOption.map hexlify) =
    some (some (asciiOf "a480bca13fa04464bb644f10e340125e96c9494f7399fef7c2bda67eb0fdf06d")) := by
  decide +kernel

theorem vector_sym_key1 :
    (defaultParams (edGroup Spake2Model.ed25519)).toOption.map (fun P =>
      ((Inst.new (G := edGroup Spake2Model.ed25519) .S (asciiOf "password") [] [] P ⟨Sha.sha256 (asciiOf "prng-0-1") ++ Sha.sha256 (asciiOf "prng-1-1")⟩).start.1.finish
        ((Inst.new (G := edGroup Spake2Model.ed25519) .S (asciiOf "password") [] [] P ⟨Sha.sha256 (asciiOf "prng-0-2") ++ Sha.sha256 (asciiOf "prng-1-2")⟩).start.2.toOption.getD [])).2.toOption.map hexlify) =
    some (some (asciiOf "9c4fccaa3f0740615cee6fd10ed5d3a311b91b5bdc65f53e4ea7cb2fe8aa96eb")) := by
  decide +kernel

theorem vector_sym_key2 :
    (defaultParams (edGroup Spake2Model.ed25519)).toOption.map (fun P =>
      ((Inst.new (G := edGroup Spake2Model.ed25519) .S (asciiOf "password") [] [] P ⟨Sha.sha256 (asciiOf "prng-0-2") ++ Sha.sha256 (asciiOf "prng-1-2")⟩).start.1.finish
        ((Inst.new (G := edGroup Spake2Model.ed25519) .S (asciiOf "password") [] [] P ⟨Sha.sha256 (asciiOf "prng-0-1") ++ Sha.sha256 (asciiOf "prng-1-1")⟩).start.2.toOption.getD [])).2.toOption.map hexlify) =
    some (some (asciiOf "9c4fccaa3f0740615cee6fd10ed5d3a311b91b5bdc65f53e4ea7cb2fe8aa96eb")) := by
  decide +kernel

end Spake2Verif.PublishedEval

section Audit
open Spake2Verif.PublishedEval
#print axioms vector_asym_keyA
#print axioms vector_asym_keyB
#print axioms vector_sym_key1
#print axioms vector_sym_key2
end Audit
