import Spake2Verif.Proofs.PropAuxB7

/-!
Auxiliary lemma for C14 (`arb_int_never_identity_partial`): the **exact** outcome of integer-group
`arbitrary_element` for a prime modulus `p` and `q > 0`, in terms of the reduced HKDF output `h` and the cofactor
`r = (p-1) // q`:

* `AssertionError`  ⇔  `r·q ≠ p-1`  or  `h = 0`            (`0^r = 0` is not a member);
* the identity `1`  ⇔  `r·q = p-1`, `h ≠ 0` and `h^r ≡ 1 (mod p)`;
* otherwise a member different from the identity.

This is the precise class of known finding K3.
-/
namespace Spake2Verif.PropAuxC
open Spake2Model Spake2Model.Gen Spake2Verif.PropAuxB

theorem raise_ne_ok {α : Type} (e : PyExc) (a : α) : (raise e : R α) ≠ .ok a := by
  simp [raise]

/-- `h = 0`: the candidate is `0^r mod p = 0` (`r ≥ 1`), which fails `_is_member` -/
theorem ig_arb_zero (P : IntGroupParams) (hp : 1 < P.p) (hq : 0 < P.q)
    (hrq : Int.fdiv (P.p - 1) P.q * P.q = P.p - 1) (seed : Bytes)
    (hh : (beToNat (Sha.hkdf seed [] (asciiOf "SPAKE2 arbitrary element") (sizeBytes P.p)) : Int) % P.p = 0) :
    IG.arb P seed = raise .AssertionError := by
  set r : Int := Int.fdiv (P.p - 1) P.q with hr
  have hr1 : 0 < r := by
    by_contra hneg
    have h0 : r ≤ 0 := by omega
    have : r * P.q ≤ 0 := Int.mul_nonpos_of_nonpos_of_nonneg h0 (le_of_lt hq)
    rw [hrq] at this; omega
  have e1 : Py.pow3 0 r P.p = 0 := by
    rw [Py.pow3_spec _ _ _ (le_of_lt hr1) (by omega), zero_pow (by omega)]; simp
  have e2 : Py.pow3 0 P.q P.p = 0 := by
    rw [Py.pow3_spec _ _ _ (le_of_lt hq) (by omega), zero_pow (by omega)]; simp
  rw [ig_arb_unfold P (by omega) seed, if_neg (not_not.2 hrq), hh, e1, e2, if_neg (by decide)]

/-- **exact characterisation** (p prime, q > 0) -/
theorem ig_arb_char (P : IntGroupParams) (hpp : Nat.Prime P.p.toNat) (hq : 0 < P.q) (seed : Bytes)
    (h r : Int)
    (hh : h = (beToNat (Sha.hkdf seed [] (asciiOf "SPAKE2 arbitrary element") (sizeBytes P.p)) : Int) % P.p)
    (hr : r = Int.fdiv (P.p - 1) P.q) :
    (IG.arb P seed = raise .AssertionError ↔ (r * P.q ≠ P.p - 1 ∨ h = 0)) ∧
    (IG.arb P seed = .ok 1 ↔ (r * P.q = P.p - 1 ∧ h ≠ 0 ∧ Py.pow3 h r P.p = 1)) ∧
    (r * P.q = P.p - 1 → h ≠ 0 → IG.arb P seed = .ok (Py.pow3 h r P.p)) := by
  have hp2 := hpp.two_le
  have hp : 1 < P.p := by omega
  subst hh hr
  by_cases hrq : Int.fdiv (P.p - 1) P.q * P.q = P.p - 1
  · by_cases h0 : (beToNat (Sha.hkdf seed [] (asciiOf "SPAKE2 arbitrary element") (sizeBytes P.p)) : Int) % P.p = 0
    · have := ig_arb_zero P hp hq hrq seed h0
      refine ⟨⟨fun _ => Or.inr h0, fun _ => this⟩, ⟨fun e => ?_, fun e => absurd h0 e.2.1⟩,
        fun _ e => absurd h0 e⟩
      rw [this] at e; exact absurd e (raise_ne_ok _ _)
    · have := ig_arb_total P hpp hq hrq seed h0
      refine ⟨⟨fun e => ?_, fun e => ?_⟩, ⟨fun e => ⟨hrq, h0, ?_⟩, fun e => ?_⟩, fun _ _ => this⟩
      · rw [this] at e; exact absurd e.symm (raise_ne_ok _ _)
      · rcases e with e | e
        · exact absurd hrq e
        · exact absurd e h0
      · rw [this] at e; injection e
      · rw [this, e.2.2]
  · have : IG.arb P seed = raise .AssertionError := by
      rw [ig_arb_unfold P (by omega) seed, if_pos hrq]
    refine ⟨⟨fun _ => Or.inl hrq, fun _ => this⟩, ⟨fun e => ?_, fun e => absurd e.1 hrq⟩,
      fun e => absurd e hrq⟩
    rw [this] at e; exact absurd e (raise_ne_ok _ _)

/-- the remaining case: a member different from the identity -/
theorem ig_arb_member_ne_one (P : IntGroupParams) (hpp : Nat.Prime P.p.toNat) (hq : 0 < P.q) (seed : Bytes)
    (h r : Int)
    (hh : h = (beToNat (Sha.hkdf seed [] (asciiOf "SPAKE2 arbitrary element") (sizeBytes P.p)) : Int) % P.p)
    (hr : r = Int.fdiv (P.p - 1) P.q)
    (hrq : r * P.q = P.p - 1) (h0 : h ≠ 0) (h1 : Py.pow3 h r P.p ≠ 1) :
    ∃ e : Int, IG.arb P seed = .ok e ∧ e = Py.pow3 h r P.p ∧ e ≠ 1 ∧ 0 < e ∧ e < P.p ∧ Py.pow3 e P.q P.p = 1 := by
  have hp2 := hpp.two_le
  have hp : 1 < P.p := by omega
  have he := (ig_arb_char P hpp hq seed h r hh hr).2.2 hrq h0
  obtain ⟨v1, v2, v3⟩ := IntGroupSpec.arb_valid hp hq seed _ he
  exact ⟨_, he, rfl, h1, v1, v2, v3⟩

#print axioms ig_arb_zero
#print axioms ig_arb_char
#print axioms ig_arb_member_ne_one

end Spake2Verif.PropAuxC
