import Spake2Verif.Proofs.ProtoBasics
import Spake2Verif.Proofs.SerializeProofs
/-!
Inversion lemmas for `from_serialized()`: what a *successful* restore must have read from its
input and what the record it returns looks like.  No group contract is needed here.
-/
namespace Spake2Verif
open Spake2Model Spake2Model.Gen Spake2Model.Json

variable {G : Group}

/-- `hash_params()` reads only the side (symmetric or not) and the parameters -/
theorem hashParams_congr {i i' : Inst G} (hs : i.side = i'.side) (hp : i.params = i'.params) :
    i.hashParams = i'.hashParams := by
  unfold Inst.hashParams; rw [hs, hp]

theorem restoreTail_inv {i i' : Inst G} {d : Json.Dict} (h : restoreTail i d = .ok i') :
    ∃ hp xb x ob, getStr d k_hashed_params = .ok hp ∧ i.hashParams = .ok hp ∧
      getHex d k_xy_scalar = .ok xb ∧ G.scalarDec xb = .ok x ∧
      i.outboundFor x = .ok ob ∧
      i' = { i with started := true, xyScalar := some x, outbound := some ob } := by
  unfold restoreTail at h
  cases h1 : getStr d k_hashed_params with
  | error e => simp [h1, bind, Except.bind] at h
  | ok hp =>
    cases h2 : i.hashParams with
    | error e => simp [h1, h2, bind, Except.bind] at h
    | ok mine =>
      by_cases hne : hp = mine
      · subst hne
        cases h3 : getHex d k_xy_scalar with
        | error e => simp [h1, h2, h3, bind, Except.bind] at h
        | ok xb =>
          cases h4 : G.scalarDec xb with
          | error e => simp [h1, h2, h3, h4, bind, Except.bind] at h
          | ok x =>
            have hcongr : Inst.outboundFor { i with started := true, xyScalar := some x } x
                = i.outboundFor x := outboundFor_congr rfl rfl rfl x
            cases h5 : i.outboundFor x with
            | error e =>
              simp [h1, h2, h3, h4, hcongr, h5, bind, Except.bind] at h
            | ok ob =>
              simp only [h1, h2, h3, h4, hcongr, h5, bind, Except.bind, ne_eq, not_true_eq_false,
                if_false, pure, Except.pure, Except.ok.injEq] at h
              exact ⟨hp, xb, x, ob, rfl, rfl, rfl, h4, h5, h.symm⟩
      · simp [h1, h2, hne, bind, Except.bind] at h

theorem fromDict_inv {side : Side} {d : Json.Dict} {P : Params G} {i' : Inst G}
    (h : fromDict side d P = .ok i') :
    ∃ pw idA idB, getStr d k_side = .ok side.byte ∧ getHex d k_password = .ok pw ∧
      (side = .S → getHex d k_idS = .ok idA ∧ idB = []) ∧
      (side ≠ .S → getHex d k_idA = .ok idA ∧ getHex d k_idB = .ok idB) ∧
      restoreTail (Inst.new side pw idA idB P ⟨[]⟩) d = .ok i' := by
  have key : ∀ s : Side, s ≠ .S →
      (do
        let pw ← getHex d k_password
        let idA ← getHex d k_idA
        let idB ← getHex d k_idB
        let sd ← getStr d k_side
        if sd ≠ s.byte then (Except.error Err.WrongSideSerialized : R (Inst G)) else
        restoreTail (Inst.new s pw idA idB P ⟨[]⟩) d) = .ok i' →
      ∃ pw idA idB, getStr d k_side = .ok s.byte ∧ getHex d k_password = .ok pw ∧
        (s = .S → getHex d k_idS = .ok idA ∧ idB = []) ∧
        (s ≠ .S → getHex d k_idA = .ok idA ∧ getHex d k_idB = .ok idB) ∧
        restoreTail (Inst.new s pw idA idB P ⟨[]⟩) d = .ok i' := by
    intro s hs h
    cases h1 : getHex d k_password with
    | error e => simp [h1, bind, Except.bind] at h
    | ok pw =>
      cases h2 : getHex d k_idA with
      | error e => simp [h1, h2, bind, Except.bind] at h
      | ok idA =>
        cases h3 : getHex d k_idB with
        | error e => simp [h1, h2, h3, bind, Except.bind] at h
        | ok idB =>
          cases h4 : getStr d k_side with
          | error e => simp [h1, h2, h3, h4, bind, Except.bind] at h
          | ok sd =>
            by_cases hsd : sd = s.byte
            · subst hsd
              simp only [h1, h2, h3, h4, bind, Except.bind, ne_eq, not_true_eq_false,
                if_false] at h
              exact ⟨pw, idA, idB, rfl, rfl, fun h' => absurd h' hs, fun _ => ⟨rfl, rfl⟩, h⟩
            · simp [h1, h2, h3, h4, hsd, bind, Except.bind] at h
  cases side with
  | A => exact key .A (by simp) h
  | B => exact key .B (by simp) h
  | S =>
    simp only [fromDict] at h
    cases h1 : getStr d k_side with
    | error e => simp [h1, bind, Except.bind] at h
    | ok sd =>
      by_cases hsd : sd = Consts.sideS
      · subst hsd
        cases h2 : getHex d k_password with
        | error e => simp [h1, h2, bind, Except.bind] at h
        | ok pw =>
          cases h3 : getHex d k_idS with
          | error e => simp [h1, h2, h3, bind, Except.bind] at h
          | ok idS =>
            simp only [h1, h2, h3, bind, Except.bind, ne_eq, not_true_eq_false, if_false] at h
            exact ⟨pw, idS, [], rfl, rfl, fun _ => ⟨rfl, rfl⟩, fun h' => absurd rfl h', h⟩
      · simp [h1, hsd, bind, Except.bind] at h

theorem fromSerialized_inv {side : Side} {data : Bytes} {P : Params G} {i' : Inst G}
    (h : fromSerialized side data P = .ok i') :
    data.any (· ≥ 128) = false ∧ ∃ d, Json.parse data = some d ∧ fromDict side d P = .ok i' := by
  unfold fromSerialized at h
  cases ha : data.any (· ≥ 128) with
  | true => simp [ha, raise] at h
  | false =>
    simp only [ha, Bool.false_eq_true, if_false] at h
    cases hp : Json.parse data with
    | none => simp [hp, raise] at h
    | some d => simp only [hp] at h; exact ⟨rfl, d, rfl, h⟩

/-- **Shape of a restored session.**  Whatever the input, a successful `from_serialized` returns a
started, unfinished session of the requested side under the supplied parameters, whose password
scalar and outbound message were recomputed from the restored password and secret scalar. -/
theorem fromSerialized_shape {side : Side} {data : Bytes} {P : Params G} {i' : Inst G}
    (h : fromSerialized side data P = .ok i') :
    ∃ d pw idA idB hp xb x ob,
      Json.parse data = some d ∧
      getStr d k_side = .ok side.byte ∧ getStr d k_hashed_params = .ok hp ∧
      getHex d k_password = .ok pw ∧ getHex d k_xy_scalar = .ok xb ∧ G.scalarDec xb = .ok x ∧
      (side = .S → getHex d k_idS = .ok idA ∧ idB = []) ∧
      (side ≠ .S → getHex d k_idA = .ok idA ∧ getHex d k_idB = .ok idB) ∧
      i'.hashParams = .ok hp ∧ i'.outboundFor x = .ok ob ∧
      i' = { Inst.new side pw idA idB P ⟨[]⟩ with
              started := true, xyScalar := some x, outbound := some ob } := by
  obtain ⟨-, d, hparse, hd⟩ := fromSerialized_inv h
  obtain ⟨pw, idA, idB, hside, hpw, hS, hAB, ht⟩ := fromDict_inv hd
  obtain ⟨hp, xb, x, ob, h1, h2, h3, h4, h5, rfl⟩ := restoreTail_inv ht
  refine ⟨d, pw, idA, idB, hp, xb, x, ob, hparse, hside, h1, hpw, h3, h4, hS, hAB, ?_, ?_, rfl⟩
  · rw [← h2]; exact hashParams_congr rfl rfl
  · rw [← h5]; exact outboundFor_congr rfl rfl rfl x

/-- the flags and the plain fields of a restored session -/
theorem fromSerialized_fields {side : Side} {data : Bytes} {P : Params G} {i' : Inst G}
    (h : fromSerialized side data P = .ok i') :
    i'.side = side ∧ i'.params = P ∧ i'.started = true ∧ i'.finished = false ∧
    i'.pwScalar = G.p2s i'.pw ∧ i'.inbound = none ∧ i'.entropy = ⟨[]⟩ ∧
    ∃ x ob, i'.xyScalar = some x ∧ i'.outbound = some ob ∧ i'.outboundFor x = .ok ob := by
  obtain ⟨d, pw, idA, idB, hp, xb, x, ob, -, -, -, -, -, -, -, -, -, hob, rfl⟩ :=
    fromSerialized_shape h
  exact ⟨rfl, rfl, rfl, rfl, rfl, rfl, rfl, x, ob, rfl, rfl, hob⟩

end Spake2Verif

section Audit
open Spake2Verif
#print axioms fromSerialized_shape
#print axioms fromSerialized_fields
end Audit
