import Spake2Verif.Proofs.PropAuxB5
import Spake2Verif.Proofs.PublishedEvalEd
import Spake2Verif.Proofs.PublishedEval1024
import Spake2Verif.Proofs.PublishedEval2048
import Spake2Verif.Proofs.PublishedEval3072

/-!
Auxiliary definitions and lemmas for `Properties/C18.lean` (`MNS_distinct_members_shipped`).

* `specPub1024 / specPub2048 / specPub3072`: the `GroupSpec` instances of the integer groups over the **published**
  literals `Published.i1024 …` (all side conditions by kernel evaluation; no primality of `p` needed);
* `i1024_eq …`: the parameter triples generated from the current source equal the published ones, and the kernel
  evaluations of `PublishedEval1024 / 2048 / 3072` transported to the generated triples (`generated_M_1024 …`);
* `published_enc_distinct`: the released encodings differ from the encodings of the generator and of the identity of
  the *published* group objects (closed evaluation; the analogue of `C18.MNS_distinct`, which encodes with the generated
  group objects);
* `mns_of_eval`: the composition lemma — from the three evaluated encodings to validity / distinctness as group elements.
-/
set_option maxRecDepth 100000
namespace Spake2Verif.PropAuxC
open Spake2Model Spake2Model.Gen Spake2Verif.PublishedEval

/-! ### the integer groups over the published literals -/

noncomputable def specPub1024 : GroupSpec (intGroup Published.i1024) :=
  intGroupSpec Published.i1024 (by decide +kernel) (by decide +kernel) (by decide +kernel) (by decide +kernel)

noncomputable def specPub2048 : GroupSpec (intGroup Published.i2048) :=
  intGroupSpec Published.i2048 (by decide +kernel) (by decide +kernel) (by decide +kernel) (by decide +kernel)

noncomputable def specPub3072 : GroupSpec (intGroup Published.i3072) :=
  intGroupSpec Published.i3072 (by decide +kernel) (by decide +kernel) (by decide +kernel) (by decide +kernel)

theorem i1024_eq : (⟨IntGroup.I1024_p, IntGroup.I1024_q, IntGroup.I1024_g⟩ : IntGroupParams) = Published.i1024 := by
  decide +kernel

theorem i2048_eq : (⟨IntGroup.I2048_p, IntGroup.I2048_q, IntGroup.I2048_g⟩ : IntGroupParams) = Published.i2048 := by
  decide +kernel

theorem i3072_eq : (⟨IntGroup.I3072_p, IntGroup.I3072_q, IntGroup.I3072_g⟩ : IntGroupParams) = Published.i3072 := by
  decide +kernel

/-! ### the kernel evaluations, transported to the generated parameter triples -/

theorem generated_M_1024 :
    (IG.arb ⟨IntGroup.I1024_p, IntGroup.I1024_q, IntGroup.I1024_g⟩ Consts.seedM).map
      (IG.enc ⟨IntGroup.I1024_p, IntGroup.I1024_q, IntGroup.I1024_g⟩) = .ok Published.M_1024 := by
  rw [i1024_eq]; exact published_M_1024

theorem generated_N_1024 :
    (IG.arb ⟨IntGroup.I1024_p, IntGroup.I1024_q, IntGroup.I1024_g⟩ Consts.seedN).map
      (IG.enc ⟨IntGroup.I1024_p, IntGroup.I1024_q, IntGroup.I1024_g⟩) = .ok Published.N_1024 := by
  rw [i1024_eq]; exact published_N_1024

theorem generated_S_1024 :
    (IG.arb ⟨IntGroup.I1024_p, IntGroup.I1024_q, IntGroup.I1024_g⟩ Consts.seedS).map
      (IG.enc ⟨IntGroup.I1024_p, IntGroup.I1024_q, IntGroup.I1024_g⟩) = .ok Published.S_1024 := by
  rw [i1024_eq]; exact published_S_1024

theorem generated_M_2048 :
    (IG.arb ⟨IntGroup.I2048_p, IntGroup.I2048_q, IntGroup.I2048_g⟩ Consts.seedM).map
      (IG.enc ⟨IntGroup.I2048_p, IntGroup.I2048_q, IntGroup.I2048_g⟩) = .ok Published.M_2048 := by
  rw [i2048_eq]; exact published_M_2048

theorem generated_N_2048 :
    (IG.arb ⟨IntGroup.I2048_p, IntGroup.I2048_q, IntGroup.I2048_g⟩ Consts.seedN).map
      (IG.enc ⟨IntGroup.I2048_p, IntGroup.I2048_q, IntGroup.I2048_g⟩) = .ok Published.N_2048 := by
  rw [i2048_eq]; exact published_N_2048

theorem generated_S_2048 :
    (IG.arb ⟨IntGroup.I2048_p, IntGroup.I2048_q, IntGroup.I2048_g⟩ Consts.seedS).map
      (IG.enc ⟨IntGroup.I2048_p, IntGroup.I2048_q, IntGroup.I2048_g⟩) = .ok Published.S_2048 := by
  rw [i2048_eq]; exact published_S_2048

theorem generated_M_3072 :
    (IG.arb ⟨IntGroup.I3072_p, IntGroup.I3072_q, IntGroup.I3072_g⟩ Consts.seedM).map
      (IG.enc ⟨IntGroup.I3072_p, IntGroup.I3072_q, IntGroup.I3072_g⟩) = .ok Published.M_3072 := by
  rw [i3072_eq]; exact published_M_3072

theorem generated_N_3072 :
    (IG.arb ⟨IntGroup.I3072_p, IntGroup.I3072_q, IntGroup.I3072_g⟩ Consts.seedN).map
      (IG.enc ⟨IntGroup.I3072_p, IntGroup.I3072_q, IntGroup.I3072_g⟩) = .ok Published.N_3072 := by
  rw [i3072_eq]; exact published_N_3072

theorem generated_S_3072 :
    (IG.arb ⟨IntGroup.I3072_p, IntGroup.I3072_q, IntGroup.I3072_g⟩ Consts.seedS).map
      (IG.enc ⟨IntGroup.I3072_p, IntGroup.I3072_q, IntGroup.I3072_g⟩) = .ok Published.S_3072 := by
  rw [i3072_eq]; exact published_S_3072

/-! ### the released encodings against generator / identity of the published group objects -/

theorem published_enc_distinct :
    (∀ x ∈ [Published.M_ed, Published.N_ed, Published.S_ed],
        x ≠ (edGroup Published.curve).enc (edGroup Published.curve).base ∧
        x ≠ (edGroup Published.curve).enc (edGroup Published.curve).zero) ∧
    (∀ x ∈ [Published.M_1024, Published.N_1024, Published.S_1024],
        x ≠ (intGroup Published.i1024).enc (intGroup Published.i1024).base ∧
        x ≠ (intGroup Published.i1024).enc (intGroup Published.i1024).zero) ∧
    (∀ x ∈ [Published.M_2048, Published.N_2048, Published.S_2048],
        x ≠ (intGroup Published.i2048).enc (intGroup Published.i2048).base ∧
        x ≠ (intGroup Published.i2048).enc (intGroup Published.i2048).zero) ∧
    (∀ x ∈ [Published.M_3072, Published.N_3072, Published.S_3072],
        x ≠ (intGroup Published.i3072).enc (intGroup Published.i3072).base ∧
        x ≠ (intGroup Published.i3072).enc (intGroup Published.i3072).zero) := by
  refine ⟨?_, ?_, ?_, ?_⟩ <;> decide +kernel


/-! ### the evaluations in the form the composition lemma consumes (`G.arb`, `G.enc` of the `Group` record)

The statements are rewritten with `rfl`-lemmas about *variables* and closed by syntactic matching, so that neither the
elaborator nor the kernel re-evaluates a closed `arbitrary_element` call. -/

theorem intGroup_arb (P : IntGroupParams) : (intGroup P).arb = IG.arb P := rfl
theorem intGroup_enc (P : IntGroupParams) : (intGroup P).enc = IG.enc P := rfl
theorem edGroup_arb (c : Curve) : (edGroup c).arb = Ed25519.arb c := rfl
theorem edGroup_enc (c : Curve) : (edGroup c).enc = Ed25519.toBytes c := rfl

theorem eval_pub_ed :
    (((edGroup Published.curve).arb Published.seedM).map (edGroup Published.curve).enc = .ok Published.M_ed) ∧
    (((edGroup Published.curve).arb Published.seedN).map (edGroup Published.curve).enc = .ok Published.N_ed) ∧
    (((edGroup Published.curve).arb Published.seedS).map (edGroup Published.curve).enc = .ok Published.S_ed) := by
  rw [edGroup_arb, edGroup_enc]; exact ⟨published_M_ed, published_N_ed, published_S_ed⟩

theorem eval_gen_ed :
    (((edGroup Spake2Model.ed25519).arb Consts.seedM).map (edGroup Spake2Model.ed25519).enc = .ok Published.M_ed) ∧
    (((edGroup Spake2Model.ed25519).arb Consts.seedN).map (edGroup Spake2Model.ed25519).enc = .ok Published.N_ed) ∧
    (((edGroup Spake2Model.ed25519).arb Consts.seedS).map (edGroup Spake2Model.ed25519).enc = .ok Published.S_ed) := by
  rw [edGroup_arb, edGroup_enc]; exact ⟨generated_M_ed, generated_N_ed, generated_S_ed⟩

theorem eval_pub_1024 :
    (((intGroup Published.i1024).arb Published.seedM).map (intGroup Published.i1024).enc = .ok Published.M_1024) ∧
    (((intGroup Published.i1024).arb Published.seedN).map (intGroup Published.i1024).enc = .ok Published.N_1024) ∧
    (((intGroup Published.i1024).arb Published.seedS).map (intGroup Published.i1024).enc = .ok Published.S_1024) := by
  rw [intGroup_arb, intGroup_enc]; exact ⟨published_M_1024, published_N_1024, published_S_1024⟩

theorem eval_gen_1024 :
    (((intGroup ⟨IntGroup.I1024_p, IntGroup.I1024_q, IntGroup.I1024_g⟩).arb Consts.seedM).map (intGroup ⟨IntGroup.I1024_p, IntGroup.I1024_q, IntGroup.I1024_g⟩).enc = .ok Published.M_1024) ∧
    (((intGroup ⟨IntGroup.I1024_p, IntGroup.I1024_q, IntGroup.I1024_g⟩).arb Consts.seedN).map (intGroup ⟨IntGroup.I1024_p, IntGroup.I1024_q, IntGroup.I1024_g⟩).enc = .ok Published.N_1024) ∧
    (((intGroup ⟨IntGroup.I1024_p, IntGroup.I1024_q, IntGroup.I1024_g⟩).arb Consts.seedS).map (intGroup ⟨IntGroup.I1024_p, IntGroup.I1024_q, IntGroup.I1024_g⟩).enc = .ok Published.S_1024) := by
  rw [intGroup_arb, intGroup_enc]; exact ⟨generated_M_1024, generated_N_1024, generated_S_1024⟩

theorem eval_pub_2048 :
    (((intGroup Published.i2048).arb Published.seedM).map (intGroup Published.i2048).enc = .ok Published.M_2048) ∧
    (((intGroup Published.i2048).arb Published.seedN).map (intGroup Published.i2048).enc = .ok Published.N_2048) ∧
    (((intGroup Published.i2048).arb Published.seedS).map (intGroup Published.i2048).enc = .ok Published.S_2048) := by
  rw [intGroup_arb, intGroup_enc]; exact ⟨published_M_2048, published_N_2048, published_S_2048⟩

theorem eval_gen_2048 :
    (((intGroup ⟨IntGroup.I2048_p, IntGroup.I2048_q, IntGroup.I2048_g⟩).arb Consts.seedM).map (intGroup ⟨IntGroup.I2048_p, IntGroup.I2048_q, IntGroup.I2048_g⟩).enc = .ok Published.M_2048) ∧
    (((intGroup ⟨IntGroup.I2048_p, IntGroup.I2048_q, IntGroup.I2048_g⟩).arb Consts.seedN).map (intGroup ⟨IntGroup.I2048_p, IntGroup.I2048_q, IntGroup.I2048_g⟩).enc = .ok Published.N_2048) ∧
    (((intGroup ⟨IntGroup.I2048_p, IntGroup.I2048_q, IntGroup.I2048_g⟩).arb Consts.seedS).map (intGroup ⟨IntGroup.I2048_p, IntGroup.I2048_q, IntGroup.I2048_g⟩).enc = .ok Published.S_2048) := by
  rw [intGroup_arb, intGroup_enc]; exact ⟨generated_M_2048, generated_N_2048, generated_S_2048⟩

theorem eval_pub_3072 :
    (((intGroup Published.i3072).arb Published.seedM).map (intGroup Published.i3072).enc = .ok Published.M_3072) ∧
    (((intGroup Published.i3072).arb Published.seedN).map (intGroup Published.i3072).enc = .ok Published.N_3072) ∧
    (((intGroup Published.i3072).arb Published.seedS).map (intGroup Published.i3072).enc = .ok Published.S_3072) := by
  rw [intGroup_arb, intGroup_enc]; exact ⟨published_M_3072, published_N_3072, published_S_3072⟩

theorem eval_gen_3072 :
    (((intGroup ⟨IntGroup.I3072_p, IntGroup.I3072_q, IntGroup.I3072_g⟩).arb Consts.seedM).map (intGroup ⟨IntGroup.I3072_p, IntGroup.I3072_q, IntGroup.I3072_g⟩).enc = .ok Published.M_3072) ∧
    (((intGroup ⟨IntGroup.I3072_p, IntGroup.I3072_q, IntGroup.I3072_g⟩).arb Consts.seedN).map (intGroup ⟨IntGroup.I3072_p, IntGroup.I3072_q, IntGroup.I3072_g⟩).enc = .ok Published.N_3072) ∧
    (((intGroup ⟨IntGroup.I3072_p, IntGroup.I3072_q, IntGroup.I3072_g⟩).arb Consts.seedS).map (intGroup ⟨IntGroup.I3072_p, IntGroup.I3072_q, IntGroup.I3072_g⟩).enc = .ok Published.S_3072) := by
  rw [intGroup_arb, intGroup_enc]; exact ⟨generated_M_3072, generated_N_3072, generated_S_3072⟩

/-- the released encodings against generator / identity of the group objects generated from the current source
(the content of the last clauses of `C18.MNS_distinct`, in `G.base` / `G.zero` form) -/
theorem generated_enc_distinct :
    (∀ x ∈ [Published.M_ed, Published.N_ed, Published.S_ed],
        x ≠ (edGroup Spake2Model.ed25519).enc (edGroup Spake2Model.ed25519).base ∧
        x ≠ (edGroup Spake2Model.ed25519).enc (edGroup Spake2Model.ed25519).zero) ∧
    (∀ x ∈ [Published.M_1024, Published.N_1024, Published.S_1024],
        x ≠ (intGroup ⟨IntGroup.I1024_p, IntGroup.I1024_q, IntGroup.I1024_g⟩).enc (intGroup ⟨IntGroup.I1024_p, IntGroup.I1024_q, IntGroup.I1024_g⟩).base ∧
        x ≠ (intGroup ⟨IntGroup.I1024_p, IntGroup.I1024_q, IntGroup.I1024_g⟩).enc (intGroup ⟨IntGroup.I1024_p, IntGroup.I1024_q, IntGroup.I1024_g⟩).zero) ∧
    (∀ x ∈ [Published.M_2048, Published.N_2048, Published.S_2048],
        x ≠ (intGroup ⟨IntGroup.I2048_p, IntGroup.I2048_q, IntGroup.I2048_g⟩).enc (intGroup ⟨IntGroup.I2048_p, IntGroup.I2048_q, IntGroup.I2048_g⟩).base ∧
        x ≠ (intGroup ⟨IntGroup.I2048_p, IntGroup.I2048_q, IntGroup.I2048_g⟩).enc (intGroup ⟨IntGroup.I2048_p, IntGroup.I2048_q, IntGroup.I2048_g⟩).zero) ∧
    (∀ x ∈ [Published.M_3072, Published.N_3072, Published.S_3072],
        x ≠ (intGroup ⟨IntGroup.I3072_p, IntGroup.I3072_q, IntGroup.I3072_g⟩).enc (intGroup ⟨IntGroup.I3072_p, IntGroup.I3072_q, IntGroup.I3072_g⟩).base ∧
        x ≠ (intGroup ⟨IntGroup.I3072_p, IntGroup.I3072_q, IntGroup.I3072_g⟩).enc (intGroup ⟨IntGroup.I3072_p, IntGroup.I3072_q, IntGroup.I3072_g⟩).zero) := by
  refine ⟨?_, ?_, ?_, ?_⟩ <;> decide +kernel

theorem defaultParams_eq (G : Group) : defaultParams G = mkParams G Consts.seedM Consts.seedN Consts.seedS := rfl

/-! ### composition -/

variable {G : Group}

theorem exists_of_map_ok {α β : Type} {x : R α} {f : α → β} {b : β} (h : x.map f = .ok b) :
    ∃ a, x = .ok a ∧ f a = b := by
  cases x with
  | error e => cases h
  | ok a => exact ⟨a, rfl, by injection h⟩

/-- the three `arbitrary_element` calls succeed, hence `mkParams` does -/
theorem mkParams_total_of_eval {sM sN sS m n s : Bytes}
    (hM : (G.arb sM).map G.enc = .ok m) (hN : (G.arb sN).map G.enc = .ok n)
    (hS : (G.arb sS).map G.enc = .ok s) :
    ∃ P, mkParams G sM sN sS = .ok P := by
  obtain ⟨M, h1, -⟩ := exists_of_map_ok hM
  obtain ⟨N, h2, -⟩ := exists_of_map_ok hN
  obtain ⟨S', h3, -⟩ := exists_of_map_ok hS
  exact ⟨⟨M, N, S'⟩, by simp [mkParams, h1, h2, h3, bind, Except.bind, pure, Except.pure]⟩

/-- the encodings of the elements of a parameter set built by `mkParams` are the evaluated ones -/
theorem mkParams_enc_of_eval {sM sN sS m n s : Bytes}
    (hM : (G.arb sM).map G.enc = .ok m) (hN : (G.arb sN).map G.enc = .ok n)
    (hS : (G.arb sS).map G.enc = .ok s) {P : Params G} (hP : mkParams G sM sN sS = .ok P) :
    G.enc P.M = m ∧ G.enc P.N = n ∧ G.enc P.S = s := by
  obtain ⟨a1, a2, a3⟩ := PropAuxB.mkParams_inv hP
  rw [a1] at hM; rw [a2] at hN; rw [a3] at hS
  exact ⟨by injection hM, by injection hN, by injection hS⟩

/-- **composition lemma**: from the evaluated encodings `m n s` of `arbitrary_element` on the three seeds and the
(closed) facts that `m n s` are pairwise distinct and differ from the encodings of generator and identity, to the
soundness of the parameter set `mkParams` builds -/
theorem mns_of_eval (S : GroupSpec G) {sM sN sS m n s : Bytes}
    (hM : (G.arb sM).map G.enc = .ok m) (hN : (G.arb sN).map G.enc = .ok n)
    (hS : (G.arb sS).map G.enc = .ok s)
    (hmn : m ≠ n) (hms : m ≠ s) (hns : n ≠ s)
    (hgz : ∀ x ∈ [m, n, s], x ≠ G.enc G.base ∧ x ≠ G.enc G.zero)
    {P : Params G} (hP : mkParams G sM sN sS = .ok P) :
    (S.Valid P.M ∧ S.Valid P.N ∧ S.Valid P.S) ∧
    (G.enc P.M = m ∧ G.enc P.N = n ∧ G.enc P.S = s) ∧
    ((S.q : ℤ) • S.abs P.M = 0 ∧ (S.q : ℤ) • S.abs P.N = 0 ∧ (S.q : ℤ) • S.abs P.S = 0) ∧
    (S.abs P.M ≠ S.abs P.N ∧ S.abs P.M ≠ S.abs P.S ∧ S.abs P.N ≠ S.abs P.S) ∧
    (S.abs P.M ≠ S.abs G.base ∧ S.abs P.N ≠ S.abs G.base ∧ S.abs P.S ≠ S.abs G.base) ∧
    (S.abs P.M ≠ 0 ∧ S.abs P.N ≠ 0 ∧ S.abs P.S ≠ 0) := by
  obtain ⟨vM, vN, vS⟩ := PropAuxB.mkParams_valid S hP
  obtain ⟨eM, eN, eS⟩ := mkParams_enc_of_eval hM hN hS hP
  have gm := hgz m (by simp)
  have gn := hgz n (by simp)
  have gs := hgz s (by simp)
  subst eM eN eS
  have ne := fun {a b : G.Elem} (va : S.Valid a) (vb : S.Valid b) (h : G.enc a ≠ G.enc b) =>
    (PropAuxB.abs_ne_of_enc_ne S va vb h).1
  refine ⟨⟨vM, vN, vS⟩, ⟨rfl, rfl, rfl⟩,
    ⟨S.order_smul _ vM, S.order_smul _ vN, S.order_smul _ vS⟩,
    ⟨ne vM vN hmn, ne vM vS hms, ne vN vS hns⟩,
    ⟨ne vM S.base_valid gm.1, ne vN S.base_valid gn.1, ne vS S.base_valid gs.1⟩, ?_, ?_, ?_⟩
  · have := ne vM S.zero_valid gm.2; rwa [S.abs_zero] at this
  · have := ne vN S.zero_valid gn.2; rwa [S.abs_zero] at this
  · have := ne vS S.zero_valid gs.2; rwa [S.abs_zero] at this

#print axioms specPub1024
#print axioms i1024_eq
#print axioms generated_M_1024
#print axioms published_enc_distinct
#print axioms mns_of_eval

end Spake2Verif.PropAuxC
