import Spake2Verif.Proofs.UtilProofs
import Mathlib.Data.Finset.Card
import Mathlib.Data.Finset.Prod
import Mathlib.Tactic.Ring
import Mathlib.Algebra.BigOperators.Group.Finset.Basic

/-!
Property C11: `unbiased_randrange` (util.py) — mask generation, candidate range, rejection
sampling (first accepted chunk), exact uniformity by counting entropy streams; and the
bias bound of Ed25519's `random_scalar` (reduce a 512-bit integer mod L) as pure arithmetic.
-/
set_option linter.unusedSimpArgs false
set_option linter.unusedTactic false
set_option linter.unreachableTactic false
namespace Spake2Model
open Gen

/-! ### `generate_mask` -/

/-- number of significant bits kept in the top byte -/
def topBits (m : Int) : Nat := sizeBits m - 8 * (sizeBytes m - 1)

theorem topBits_spec {m : Int} (h : 0 ≤ m) :
    1 ≤ topBits m ∧ topBits m ≤ 8 ∧ 8 * (sizeBytes m - 1) + topBits m = sizeBits m := by
  have := sizeBits_pos h
  unfold topBits; rw [sizeBytes_eq h]; omega

theorem topBits_eq {m : Int} (h : 0 ≤ m) :
    topBits m = if sizeBits m % 8 = 0 then 8 else sizeBits m % 8 := by
  have := sizeBits_pos h
  unfold topBits; rw [sizeBytes_eq h]; split <;> omega

/-- the top-byte mask as a natural number: `2^k - 1` -/
def maskOf (m : Int) : Nat := 2 ^ topBits m - 1

/-- `(1 << e) - 1` for an exponent known to be the natural number `t` -/
theorem shl_one_sub_one_eq (e : Int) (t : Nat) (he : e = (t : Int)) :
    Py.shl 1 e - 1 = ((2 ^ t - 1 : Nat) : Int) := by
  subst he
  have hp : 0 < 2 ^ t := Nat.pow_pos (by omega)
  unfold Py.shl
  rw [Int.toNat_natCast, Int.one_mul, Int.natCast_sub hp]
  simp

/-- The generated `generate_mask` returns `(2^topBits - 1, sizeBytes)`, whether the top byte is described
by `leftover_bits = bits % 8` (with the special case `0 ↦ 0xff`) or directly by
`bits - 8*(num_bytes - 1)`, and whether `num_bytes` is `size_bytes(maxval)` or `(bits+7)//8`. -/
theorem generate_mask_eq {m : Int} (h : 0 ≤ m) :
    Util.generate_mask m = ((maskOf m : Int), (sizeBytes m : Int)) := by
  have hb := sizeBits_pos h
  have hnb := sizeBytes_eq h
  have htb := topBits_spec h
  have emod8 : ∀ a : Int, Int.emod a 8 = a % 8 := fun _ => rfl
  unfold Util.generate_mask maskOf
  simp only [size_bytes_eq_sizeBytes h, size_bits_eq h, fdiv8, emod8]
  rw [Prod.mk.injEq]
  constructor
  · -- the mask
    (try split_ifs with hl) <;> (try simp only [decide_eq_true_eq, ne_eq, not_not] at hl) <;>
    first
    | (refine shl_one_sub_one_eq _ _ ?_; omega)
    | (have ht : topBits m = 8 := by omega
       rw [ht]; rfl)
  · -- the number of bytes
    first
    | rfl
    | omega

theorem maskOf_le {m : Int} (h : 0 ≤ m) : maskOf m ≤ 255 := by
  have ⟨h1, h2, _⟩ := topBits_spec h
  unfold maskOf
  have : 2 ^ topBits m ≤ 2 ^ 8 := Nat.pow_le_pow_right (by omega) h2
  omega

theorem maskOf_succ (m : Int) : maskOf m + 1 = 2 ^ topBits m := by
  unfold maskOf
  have : 0 < 2 ^ topBits m := Nat.pow_pos (by omega)
  omega

/-! ### candidates -/

/-- the candidate integer of one chunk of entropy -/
def cand (mask : Nat) (bs : Bytes) : Nat := beToNat (maskTop mask bs)

theorem mul_add_mod_mul (P Q b R : Nat) (hR : R < P) : (b * P + R) % (P * Q) = (b % Q) * P + R := by
  have hP : 0 < P := by omega
  rw [Nat.mod_mul, Nat.mul_comm b P, Nat.mul_add_mod, Nat.mul_add_div hP, Nat.mod_eq_of_lt hR,
    Nat.div_eq_of_lt hR, Nat.add_zero, Nat.mul_comm P, Nat.add_comm]

theorem two_pow_sizeBits {m : Int} (h : 0 ≤ m) :
    2 ^ sizeBits m = 256 ^ (sizeBytes m - 1) * 2 ^ topBits m := by
  rw [← (topBits_spec h).2.2, Nat.pow_add, two_pow_eight_mul]

/-- masking the top byte reduces the big-endian value modulo `2^bits` -/
theorem cand_eq_mod {m : Int} (h : 0 ≤ m) {bs : Bytes} (hb : IsBytes bs)
    (hlen : bs.length = sizeBytes m) : cand (maskOf m) bs = beToNat bs % 2 ^ sizeBits m := by
  have hnb := sizeBytes_pos h
  cases bs with
  | nil => simp at hlen; omega
  | cons b rest =>
    have hrl : rest.length = sizeBytes m - 1 := by simp at hlen; omega
    have hR := beToNat_lt rest (isBytes_cons.mp hb).2
    unfold cand maskTop maskOf
    rw [beToNat_cons, beToNat_cons, two_pow_sizeBits h, ← hrl, mul_add_mod_mul _ _ _ _ hR,
      Nat.and_comm, Nat.and_two_pow_sub_one_eq_mod]

theorem cand_lt {m : Int} (h : 0 ≤ m) {bs : Bytes} (hb : IsBytes bs)
    (hlen : bs.length = sizeBytes m) : cand (maskOf m) bs < 2 ^ sizeBits m := by
  rw [cand_eq_mod h hb hlen]; exact Nat.mod_lt _ (Nat.pow_pos (by omega))

/-- more than half of the candidate range is accepted: expected number of draws `< 2` -/
theorem accept_half {m : Int} (h : 0 < m) : 2 ^ sizeBits m ≤ 2 * m.toNat := by
  have ⟨h1, _⟩ := sizeBits_spec_nat h
  have hb := sizeBits_pos (Int.le_of_lt h)
  have : 2 ^ sizeBits m = 2 * 2 ^ (sizeBits m - 1) := by
    conv_lhs => rw [show sizeBits m = (sizeBits m - 1) + 1 by omega, Nat.pow_succ, Nat.mul_comm]
  omega

/-! ### the rejection loop -/

theorem loop_short (mask nb : Nat) (maxval start : Int) (fuel : Nat) (s : Bytes)
    (h : s.length < nb) :
    randrangeLoop mask nb maxval start (fuel + 1) ⟨s⟩ = raise .EntropyExhausted := by
  rw [randrangeLoop]; simp [Entropy.take, h, raise]

theorem loop_step (mask nb : Nat) (maxval start : Int) (fuel : Nat) (s : Bytes)
    (h : nb ≤ s.length) :
    randrangeLoop mask nb maxval start (fuel + 1) ⟨s⟩ =
      if (cand mask (s.take nb) : Int) < maxval then .ok (start + (cand mask (s.take nb) : Int), ⟨s.drop nb⟩)
      else randrangeLoop mask nb maxval start fuel ⟨s.drop nb⟩ := by
  rw [randrangeLoop]
  have : ¬ s.length < nb := by omega
  -- the generated acceptance test and result, however they are written
  have hacc : ∀ c : Int, Util.randrange_accept maxval c = true ↔ c < maxval := by
    intro c
    simp only [Util.randrange_accept, decide_eq_true_eq, Bool.not_eq_true', decide_eq_false_iff_not,
      Bool.not_eq_eq_eq_not, Bool.not_true, not_le, not_lt, ge_iff_le, gt_iff_lt]
    all_goals omega
  have hres : ∀ c : Int, Util.randrange_result start c = start + c := by
    intro c
    simp only [Util.randrange_result]
    all_goals omega
  simp only [Entropy.take, this, if_false, hres, Int.ofNat_eq_natCast]
  by_cases hc : (cand mask (s.take nb) : Int) < maxval
  · rw [if_pos hc]; exact if_pos ((hacc _).2 hc)
  · rw [if_neg hc]; exact if_neg (fun h' => hc ((hacc _).1 h'))

/-- `i`-th chunk of `nb` bytes of a stream -/
def chunk (nb : Nat) (s : Bytes) (i : Nat) : Bytes := (s.drop (i * nb)).take nb

theorem chunk_zero (nb : Nat) (s : Bytes) : chunk nb s 0 = s.take nb := by simp [chunk]

theorem chunk_succ (nb : Nat) (s : Bytes) (i : Nat) : chunk nb s (i + 1) = chunk nb (s.drop nb) i := by
  unfold chunk; rw [List.drop_drop]; congr 2; rw [Nat.succ_mul]; omega

/-- every returned value lies in `[start, start + maxval)` -/
theorem loop_range (mask nb : Nat) (maxval start : Int) :
    ∀ (fuel : Nat) (s : Bytes) (v : Int) (e : Entropy),
      randrangeLoop mask nb maxval start fuel ⟨s⟩ = .ok (v, e) → start ≤ v ∧ v < start + maxval
  | 0, s, v, e, h => by simp [randrangeLoop, raise] at h
  | fuel+1, s, v, e, h => by
      by_cases hs : nb ≤ s.length
      · rw [loop_step _ _ _ _ _ _ hs] at h
        split at h
        · next hc =>
          cases h
          have : (0 : Int) ≤ (cand mask (List.take nb s) : Int) := Int.natCast_nonneg _
          omega
        · exact loop_range mask nb maxval start fuel _ v e h
      · rw [loop_short _ _ _ _ _ _ (by omega)] at h
        simp [raise] at h

/-- **first accept**: if chunk `j` is the first whose candidate is `< maxval`, the loop returns
`start + candidate_j` and leaves exactly the bytes after chunk `j`. -/
theorem loop_first_accept (mask nb : Nat) (maxval start : Int) :
    ∀ (j fuel : Nat) (s : Bytes), j < fuel → (j + 1) * nb ≤ s.length →
      (∀ i < j, ¬ (cand mask (chunk nb s i) : Int) < maxval) →
      (cand mask (chunk nb s j) : Int) < maxval →
      randrangeLoop mask nb maxval start fuel ⟨s⟩ =
        .ok (start + (cand mask (chunk nb s j) : Int), ⟨s.drop ((j + 1) * nb)⟩)
  | j, 0, s, hf, _, _, _ => by omega
  | 0, fuel+1, s, _, hlen, _, hacc => by
      rw [loop_step _ _ _ _ _ _ (by omega)]
      rw [chunk_zero] at hacc
      rw [if_pos hacc, chunk_zero]; simp
  | j+1, fuel+1, s, hf, hlen, hrej, hacc => by
      have hnb : nb ≤ s.length := by
        have : nb ≤ (j + 1 + 1) * nb := Nat.le_mul_of_pos_left _ (by omega)
        omega
      rw [loop_step _ _ _ _ _ _ hnb]
      have h0 := hrej 0 (by omega)
      rw [chunk_zero] at h0
      rw [if_neg h0]
      have hlen' : (j + 1) * nb ≤ (s.drop nb).length := by
        rw [List.length_drop]
        have : (j + 1 + 1) * nb = (j + 1) * nb + nb := Nat.succ_mul _ _
        omega
      have := loop_first_accept mask nb maxval start j fuel (s.drop nb) (by omega) hlen'
        (fun i hi => by rw [← chunk_succ]; exact hrej (i + 1) (by omega))
        (by rw [← chunk_succ]; exact hacc)
      rw [this, ← chunk_succ, List.drop_drop]
      have e : nb + (j + 1) * nb = (j + 1 + 1) * nb := by rw [Nat.succ_mul (j + 1)]; omega
      rw [e]

/-- if no complete chunk qualifies the loop raises `EntropyExhausted` -/
theorem loop_exhausted (mask nb : Nat) (maxval start : Int) :
    ∀ (fuel : Nat) (s : Bytes), s.length < fuel * nb →
      (∀ i, (i + 1) * nb ≤ s.length → ¬ (cand mask (chunk nb s i) : Int) < maxval) →
      randrangeLoop mask nb maxval start fuel ⟨s⟩ = raise .EntropyExhausted
  | 0, s, h, _ => by omega
  | fuel+1, s, hlen, hrej => by
      by_cases hs : nb ≤ s.length
      · rw [loop_step _ _ _ _ _ _ hs]
        have h0 := hrej 0 (by omega)
        rw [chunk_zero] at h0
        rw [if_neg h0]
        apply loop_exhausted mask nb maxval start fuel
        · rw [List.length_drop]
          have : (fuel + 1) * nb = fuel * nb + nb := Nat.succ_mul _ _
          omega
        · intro i hi
          rw [← chunk_succ]
          apply hrej
          rw [List.length_drop] at hi
          have : (i + 1 + 1) * nb = (i + 1) * nb + nb := Nat.succ_mul _ _
          omega
      · exact loop_short _ _ _ _ _ _ (by omega)

/-! ### `unbiased_randrange` -/

theorem unbiasedRandrange_eq {start stop : Int} (h : start ≤ stop) (ent : Entropy) :
    unbiasedRandrange start stop ent =
      randrangeLoop (maskOf (stop - start)) (sizeBytes (stop - start)) (stop - start) start
        (ent.stream.length + 1) ent := by
  have hmv : Util.randrange_maxval start stop = stop - start := by
    simp only [Util.randrange_maxval]
    all_goals omega
  unfold unbiasedRandrange
  simp only [hmv, generate_mask_eq (m := stop - start) (by omega), Int.toNat_natCast]

/-- **range**: a returned value satisfies `start ≤ v < stop` -/
theorem randrange_range {start stop v : Int} {ent ent' : Entropy}
    (h : unbiasedRandrange start stop ent = .ok (v, ent')) : start ≤ v ∧ v < stop := by
  unfold unbiasedRandrange at h
  have := loop_range _ _ _ _ _ _ _ _ h
  have hmv : Util.randrange_maxval start stop = stop - start := by
    simp only [Util.randrange_maxval]
    all_goals omega
  rw [hmv] at this
  omega

/-! ### counting: residues in an initial segment (also Ed25519's sampler bias) -/

theorem succ_div_mod (N L : Nat) (hL : 0 < L) :
    (N % L + 1 < L ∧ (N + 1) / L = N / L ∧ (N + 1) % L = N % L + 1) ∨
    (N % L + 1 = L ∧ (N + 1) / L = N / L + 1 ∧ (N + 1) % L = 0) := by
  have hN := Nat.div_add_mod N L
  have hlt := Nat.mod_lt N hL
  rcases Nat.lt_or_ge (N % L + 1) L with h | h
  · left
    have e : N + 1 = L * (N / L) + (N % L + 1) := by omega
    refine ⟨h, ?_, ?_⟩
    · conv_lhs => rw [e, Nat.mul_add_div hL, Nat.div_eq_of_lt h, Nat.add_zero]
    · conv_lhs => rw [e, Nat.mul_add_mod, Nat.mod_eq_of_lt h]
  · right
    have h' : N % L + 1 = L := by omega
    have e : N + 1 = L * (N / L + 1) := by rw [Nat.mul_add, Nat.mul_one]; omega
    refine ⟨h', ?_, ?_⟩
    · conv_lhs => rw [e, Nat.mul_div_cancel_left _ hL]
    · conv_lhs => rw [e, Nat.mul_mod_right]

/-- the number of `n < N` with `n % L = r` is `N / L`, plus one if `r < N % L` -/
theorem card_mod_eq (L r : Nat) (hL : 0 < L) (hr : r < L) : ∀ N : Nat,
    ((Finset.range N).filter (fun n => n % L = r)).card = N / L + (if r < N % L then 1 else 0)
  | 0 => by simp
  | N+1 => by
      rw [Finset.range_add_one, Finset.filter_insert]
      have ih := card_mod_eq L r hL hr N
      rcases succ_div_mod N L hL with ⟨h1, h2, h3⟩ | ⟨h1, h2, h3⟩
      · rw [h2, h3]
        by_cases hN : N % L = r
        · rw [if_pos hN, Finset.card_insert_of_notMem (by simp), ih]
          rw [if_neg (by omega), if_pos (by omega)]
        · rw [if_neg hN, ih]
          by_cases hlt : r < N % L
          · rw [if_pos hlt, if_pos (by omega)]
          · rw [if_neg hlt, if_neg (by omega)]
      · rw [h2, h3]
        by_cases hN : N % L = r
        · rw [if_pos hN, Finset.card_insert_of_notMem (by simp), ih]
          rw [if_neg (by omega), if_neg (by omega)]
        · rw [if_neg hN, ih, if_pos (by omega), if_neg (by omega)]

/-- **Ed25519 `random_scalar` bias** (`bytes_to_number(64 random bytes) % L`): every residue
`r < L` has `⌊2^512/L⌋` or `⌊2^512/L⌋ + 1` preimages among the 512-bit integers. -/
theorem ed25519_sampler_bias (L r : Nat) (hL : 0 < L) (hr : r < L) :
    ((Finset.range (2 ^ 512)).filter (fun n => n % L = r)).card = 2 ^ 512 / L ∨
    ((Finset.range (2 ^ 512)).filter (fun n => n % L = r)).card = 2 ^ 512 / L + 1 := by
  rw [card_mod_eq L r hL hr]
  split
  · exact Or.inr rfl
  · exact Or.inl rfl

/-- any two residues differ by at most one preimage -/
theorem sampler_bias_le_one (N L r r' : Nat) (hL : 0 < L) (hr : r < L) (hr' : r' < L) :
    ((Finset.range N).filter (fun n => n % L = r)).card ≤
      ((Finset.range N).filter (fun n => n % L = r')).card + 1 := by
  rw [card_mod_eq L r hL hr, card_mod_eq L r' hL hr']
  split <;> split <;> omega

/-! ### counting: byte strings of a given length -/

/-- the finite set of all byte strings of length `n` -/
def bytesOfLen (n : Nat) : Finset Bytes := (Finset.range (256 ^ n)).image (natToBE n)

theorem mem_bytesOfLen {n : Nat} {bs : Bytes} : bs ∈ bytesOfLen n ↔ IsBytes bs ∧ bs.length = n := by
  unfold bytesOfLen
  rw [Finset.mem_image]
  constructor
  · rintro ⟨N, _, rfl⟩
    exact ⟨natToBE_isBytes n N, natToBE_length n N⟩
  · rintro ⟨hb, rfl⟩
    exact ⟨beToNat bs, Finset.mem_range.mpr (beToNat_lt bs hb), natToBE_beToNat bs hb⟩

theorem natToBE_injOn (n : Nat) : Set.InjOn (natToBE n) (Finset.range (256 ^ n) : Finset Nat) := by
  intro a ha b hb h
  exact natToBE_injective (Finset.mem_range.mp (Finset.mem_coe.mp ha))
    (Finset.mem_range.mp (Finset.mem_coe.mp hb)) h

theorem card_bytesOfLen (n : Nat) : (bytesOfLen n).card = 256 ^ n := by
  unfold bytesOfLen
  rw [Finset.card_image_of_injOn (natToBE_injOn n), Finset.card_range]

/-- counting byte strings = counting their big-endian values -/
theorem card_filter_bytesOfLen (n : Nat) (p : Bytes → Prop) [DecidablePred p] :
    ((bytesOfLen n).filter p).card =
      ((Finset.range (256 ^ n)).filter (fun N => p (natToBE n N))).card := by
  unfold bytesOfLen
  rw [Finset.filter_image, Finset.card_image_of_injOn]
  exact (natToBE_injOn n).mono (Finset.coe_subset.mpr (Finset.filter_subset _ _))

theorem bytesOfLen_add (a b : Nat) :
    bytesOfLen (a + b) = ((bytesOfLen a) ×ˢ (bytesOfLen b)).image (fun p => p.1 ++ p.2) := by
  ext s
  simp only [Finset.mem_image, Finset.mem_product, mem_bytesOfLen, Prod.exists]
  constructor
  · rintro ⟨hb, hl⟩
    refine ⟨s.take a, s.drop a, ⟨⟨hb.take a, ?_⟩, ⟨hb.drop a, ?_⟩⟩, List.take_append_drop a s⟩
    · rw [List.length_take]; omega
    · rw [List.length_drop]; omega
  · rintro ⟨x, y, ⟨⟨hx, hxl⟩, ⟨hy, hyl⟩⟩, rfl⟩
    exact ⟨isBytes_append.mpr ⟨hx, hy⟩, by rw [List.length_append, hxl, hyl]⟩

/-- a predicate on `a+b`-byte strings that factors through the split at `a` is counted by a product -/
theorem card_filter_append (a b : Nat) (p q r : Bytes → Prop)
    [DecidablePred p] [DecidablePred q] [DecidablePred r]
    (h : ∀ x ∈ bytesOfLen a, ∀ y ∈ bytesOfLen b, p (x ++ y) ↔ q x ∧ r y) :
    ((bytesOfLen (a + b)).filter p).card =
      ((bytesOfLen a).filter q).card * ((bytesOfLen b).filter r).card := by
  rw [bytesOfLen_add, Finset.filter_image, Finset.card_image_of_injOn]
  · rw [← Finset.card_product, ← Finset.filter_product]
    congr 1
    apply Finset.filter_congr
    rintro ⟨x, y⟩ hxy
    rw [Finset.mem_product] at hxy
    exact h x hxy.1 y hxy.2
  · rintro ⟨x, y⟩ hxy ⟨x', y'⟩ hxy' heq
    have hxy := Finset.mem_product.mp (Finset.mem_filter.mp (Finset.mem_coe.mp hxy)).1
    have hxy' := Finset.mem_product.mp (Finset.mem_filter.mp (Finset.mem_coe.mp hxy')).1
    have hl : x.length = x'.length := by
      rw [(mem_bytesOfLen.mp hxy.1).2, (mem_bytesOfLen.mp hxy'.1).2]
    have := List.append_inj heq hl
    exact Prod.ext this.1 this.2

/-! ### single draw: every candidate value is hit by the same number of chunks -/

section Draw
variable {m : Int}

theorem pow_nb_eq (h : 0 ≤ m) :
    256 ^ sizeBytes m = 2 ^ (8 * sizeBytes m - sizeBits m) * 2 ^ sizeBits m := by
  rw [← Nat.pow_add, ← two_pow_eight_mul]
  congr 1
  have := (sizeBits_le_sizeBytes h).1
  omega

/-- explicit characterisation: the chunks with candidate `c` are exactly those whose big-endian
value is `t * 2^bits + c` for a (unique) `t < 2^(8*nb - bits)` -/
theorem cand_eq_iff (h : 0 ≤ m) {bs : Bytes} (hb : IsBytes bs) (hlen : bs.length = sizeBytes m)
    {c : Nat} (hc : c < 2 ^ sizeBits m) :
    cand (maskOf m) bs = c ↔
      ∃! t, t < 2 ^ (8 * sizeBytes m - sizeBits m) ∧ beToNat bs = t * 2 ^ sizeBits m + c := by
  rw [cand_eq_mod h hb hlen]
  have hlt := beToNat_lt bs hb
  rw [hlen, pow_nb_eq h] at hlt
  have hpos : 0 < 2 ^ sizeBits m := Nat.pow_pos (by omega)
  constructor
  · intro hmod
    refine ⟨beToNat bs / 2 ^ sizeBits m, ⟨(Nat.div_lt_iff_lt_mul hpos).mpr hlt, ?_⟩, ?_⟩
    · rw [← hmod, Nat.mul_comm]; exact (Nat.div_add_mod _ _).symm
    · rintro t ⟨_, ht⟩
      rw [ht, Nat.mul_comm, Nat.mul_add_div hpos, Nat.div_eq_of_lt hc, Nat.add_zero]
  · rintro ⟨t, ⟨_, ht⟩, _⟩
    rw [ht, Nat.mul_comm, Nat.mul_add_mod, Nat.mod_eq_of_lt hc]

/-- **draw_uniform**: each candidate value `c < 2^bits` is produced by exactly
`256^nb / 2^bits = 2^(8*nb - bits)` of the `nb`-byte chunks. -/
theorem draw_uniform (h : 0 ≤ m) {c : Nat} (hc : c < 2 ^ sizeBits m) :
    ((bytesOfLen (sizeBytes m)).filter (fun bs => cand (maskOf m) bs = c)).card =
      2 ^ (8 * sizeBytes m - sizeBits m) := by
  rw [card_filter_bytesOfLen]
  have : (Finset.range (256 ^ sizeBytes m)).filter
        (fun N => cand (maskOf m) (natToBE (sizeBytes m) N) = c) =
      (Finset.range (256 ^ sizeBytes m)).filter (fun N => N % 2 ^ sizeBits m = c) := by
    apply Finset.filter_congr
    intro N hN
    rw [cand_eq_mod h (natToBE_isBytes _ _) (natToBE_length _ _),
      beToNat_natToBE_of_lt (Finset.mem_range.mp hN)]
  rw [this, card_mod_eq _ _ (Nat.pow_pos (by omega)) hc, pow_nb_eq h,
    Nat.mul_div_cancel _ (Nat.pow_pos (by omega)), Nat.mul_mod_left, if_neg (by omega), Nat.add_zero]

/-- number of accepted chunks -/
theorem card_accept (h : 0 < m) :
    ((bytesOfLen (sizeBytes m)).filter (fun bs => (cand (maskOf m) bs : Int) < m)).card =
      m.toNat * 2 ^ (8 * sizeBytes m - sizeBits m) := by
  have h0 : 0 ≤ m := Int.le_of_lt h
  rw [Finset.card_eq_sum_card_fiberwise (f := cand (maskOf m)) (t := Finset.range m.toNat)]
  · rw [Finset.sum_const_nat (m := 2 ^ (8 * sizeBytes m - sizeBits m)), Finset.card_range]
    intro c hc
    rw [Finset.filter_filter]
    have hc' : c < m.toNat := Finset.mem_range.mp hc
    rw [← draw_uniform h0 (c := c) (Nat.lt_trans hc' (sizeBits_spec_nat h).2)]
    congr 1
    apply Finset.filter_congr
    intro bs _
    constructor
    · exact fun hh => hh.2
    · intro hh; refine ⟨?_, hh⟩; rw [hh]; omega
  · intro bs hbs
    have := (Finset.mem_filter.mp (Finset.mem_coe.mp hbs)).2
    rw [Finset.mem_coe, Finset.mem_range]; omega

/-- number of rejected chunks -/
theorem card_reject (h : 0 < m) :
    ((bytesOfLen (sizeBytes m)).filter (fun bs => ¬ (cand (maskOf m) bs : Int) < m)).card =
      (2 ^ sizeBits m - m.toNat) * 2 ^ (8 * sizeBytes m - sizeBits m) := by
  have h0 : 0 ≤ m := Int.le_of_lt h
  have := Finset.card_filter_add_card_filter_not (s := bytesOfLen (sizeBytes m))
    (fun bs => (cand (maskOf m) bs : Int) < m)
  rw [card_accept h, card_bytesOfLen, pow_nb_eq h0] at this
  rw [Nat.sub_mul, Nat.mul_comm (2 ^ sizeBits m)]
  omega

end Draw

/-! ### streams: exact uniformity of the rejection sampler -/

theorem loop_nil_not_ok (mask nb : Nat) (maxval start : Int) (hnb : 1 ≤ nb) :
    ∀ (fuel : Nat) (r : Int × Entropy), randrangeLoop mask nb maxval start fuel ⟨[]⟩ ≠ .ok r
  | 0, r => by simp [randrangeLoop, raise]
  | fuel+1, r => by
      rw [loop_short _ _ _ _ _ _ (show ([] : Bytes).length < nb from hnb)]; simp [raise]

/-- with enough fuel (`stream.length < fuel * nb`) the artificial `Fuel` error never occurs -/
theorem loop_no_fuel (mask nb : Nat) (maxval start : Int) :
    ∀ (fuel : Nat) (s : Bytes), s.length < fuel * nb →
      randrangeLoop mask nb maxval start fuel ⟨s⟩ ≠ raise .Fuel
  | 0, s, h => by omega
  | fuel+1, s, hlen => by
      by_cases hs : nb ≤ s.length
      · rw [loop_step _ _ _ _ _ _ hs]
        split
        · simp [raise]
        · apply loop_no_fuel mask nb maxval start fuel
          rw [List.length_drop]
          have : (fuel + 1) * nb = fuel * nb + nb := Nat.succ_mul _ _
          omega
      · rw [loop_short _ _ _ _ _ _ (by omega)]; simp [raise]

section Streams
variable {m : Int}

open Classical in
/-- number of `(j+1)`-chunk streams on which the loop rejects `j` chunks and then returns
`start + c`, having consumed the whole stream -/
theorem loop_count (h : 0 < m) (start : Int) {c : Nat} (hc : c < m.toNat) :
    ∀ (j fuel : Nat), j < fuel →
      ((bytesOfLen ((j + 1) * sizeBytes m)).filter (fun s =>
          randrangeLoop (maskOf m) (sizeBytes m) m start fuel ⟨s⟩ =
            .ok (start + (c : Int), ⟨[]⟩))).card =
        ((2 ^ sizeBits m - m.toNat) * 2 ^ (8 * sizeBytes m - sizeBits m)) ^ j *
          2 ^ (8 * sizeBytes m - sizeBits m)
  | _, 0, hf => by omega
  | 0, f+1, _ => by
      have h0 : 0 ≤ m := Int.le_of_lt h
      have hnb := sizeBytes_pos h0
      rw [Nat.zero_add, Nat.one_mul, Nat.pow_zero, Nat.one_mul,
        ← draw_uniform h0 (c := c) (Nat.lt_trans hc (sizeBits_spec_nat h).2)]
      congr 1
      apply Finset.filter_congr
      intro s hs
      have hl := (mem_bytesOfLen.mp hs).2
      rw [loop_step _ _ _ _ _ _ (by omega), List.take_of_length_le (by omega),
        List.drop_of_length_le (by omega)]
      by_cases hacc : (cand (maskOf m) s : Int) < m
      · rw [if_pos hacc]
        simp only [Except.ok.injEq, Prod.mk.injEq, and_true]
        omega
      · rw [if_neg hacc]
        constructor
        · intro heq; exact absurd heq (loop_nil_not_ok _ _ _ _ hnb _ _)
        · intro hh; rw [hh] at hacc; omega
  | j+1, f+1, hf => by
      have h0 : 0 ≤ m := Int.le_of_lt h
      have hnb := sizeBytes_pos h0
      have e : (j + 1 + 1) * sizeBytes m = sizeBytes m + (j + 1) * sizeBytes m := by
        rw [Nat.succ_mul (j + 1)]; omega
      rw [e, card_filter_append (sizeBytes m) ((j + 1) * sizeBytes m) _
        (fun x => ¬ (cand (maskOf m) x : Int) < m)
        (fun y => randrangeLoop (maskOf m) (sizeBytes m) m start f ⟨y⟩ =
            .ok (start + (c : Int), ⟨[]⟩))]
      · rw [card_reject h, loop_count h start hc j f (by omega)]
        ring
      · intro x hx y hy
        have hxl := (mem_bytesOfLen.mp hx).2
        have hyl := (mem_bytesOfLen.mp hy).2
        have hy1 : 1 ≤ y.length := by
          rw [hyl]; exact Nat.le_trans hnb (Nat.le_mul_of_pos_left _ (by omega))
        have hyne : y ≠ [] := by rintro rfl; simp at hy1
        rw [loop_step _ _ _ _ _ _ (by rw [List.length_append]; omega), List.take_left' hxl,
          List.drop_left' hxl]
        by_cases hacc : (cand (maskOf m) x : Int) < m
        · rw [if_pos hacc]
          simp only [Except.ok.injEq, Prod.mk.injEq, Entropy.mk.injEq, hyne, and_false, hacc,
            not_true_eq_false, false_and]
        · rw [if_neg hacc]
          simp only [hacc, not_false_eq_true, true_and]

end Streams

/-! ### property-level statements (C11) -/

section C11
variable {start stop : Int}

/-- **mask**: for `maxval ≥ 1`, `generate_mask maxval = (2^k - 1, nb)` with `nb = size_bytes maxval ≥ 1`,
`1 ≤ k ≤ 8` and `8*(nb-1) + k = bits` -/
theorem generate_mask_spec (maxval : Int) (h : 1 ≤ maxval) :
    ∃ k : Nat, Util.generate_mask maxval = (((2 ^ k - 1 : Nat) : Int), (sizeBytes maxval : Int)) ∧
      Util.size_bytes maxval = (sizeBytes maxval : Int) ∧ 1 ≤ sizeBytes maxval ∧
      1 ≤ k ∧ k ≤ 8 ∧ 8 * (sizeBytes maxval - 1) + k = sizeBits maxval ∧
      (2 ^ k - 1) + 1 = 2 ^ (sizeBits maxval - 8 * (sizeBytes maxval - 1)) := by
  have h0 : 0 ≤ maxval := by omega
  have ⟨a, b, c⟩ := topBits_spec h0
  exact ⟨topBits maxval, generate_mask_eq h0, size_bytes_eq_sizeBytes h0, sizeBytes_pos h0, a, b, c,
    maskOf_succ maxval⟩

/-- **candidate range**: the masked chunk is the big-endian value reduced mod `2^bits` -/
theorem candidate_range (maxval : Int) (h : 1 ≤ maxval) (bs : Bytes) (hb : IsBytes bs)
    (hlen : bs.length = sizeBytes maxval) :
    beToNat (maskTop (Util.generate_mask maxval).1.toNat bs) = beToNat bs % 2 ^ sizeBits maxval ∧
    beToNat (maskTop (Util.generate_mask maxval).1.toNat bs) < 2 ^ sizeBits maxval := by
  have h0 : 0 ≤ maxval := by omega
  rw [generate_mask_eq h0]
  exact ⟨cand_eq_mod h0 hb hlen, cand_lt h0 hb hlen⟩

/-- **first accept**: `unbiased_randrange` returns `start + c` for the candidate `c` of the first
complete `nb`-byte chunk with `c < maxval`, consuming exactly `nb * (j+1)` bytes -/
theorem randrange_first_accept (h : start < stop) (s : Bytes) (j : Nat)
    (hlen : (j + 1) * sizeBytes (stop - start) ≤ s.length)
    (hrej : ∀ i < j, ¬ (cand (maskOf (stop - start)) (chunk (sizeBytes (stop - start)) s i) : Int)
        < stop - start)
    (hacc : (cand (maskOf (stop - start)) (chunk (sizeBytes (stop - start)) s j) : Int)
        < stop - start) :
    unbiasedRandrange start stop ⟨s⟩ =
      .ok (start + (cand (maskOf (stop - start)) (chunk (sizeBytes (stop - start)) s j) : Int),
           ⟨s.drop ((j + 1) * sizeBytes (stop - start))⟩) ∧
    (s.drop ((j + 1) * sizeBytes (stop - start))).length =
      s.length - sizeBytes (stop - start) * (j + 1) := by
  have hnb := sizeBytes_pos (m := stop - start) (by omega)
  constructor
  · rw [unbiasedRandrange_eq (Int.le_of_lt h)]
    apply loop_first_accept _ _ _ _ j _ s _ hlen hrej hacc
    have : j + 1 ≤ (j + 1) * sizeBytes (stop - start) := Nat.le_mul_of_pos_right _ hnb
    show j < s.length + 1
    omega
  · rw [List.length_drop, Nat.mul_comm]

/-- if no complete chunk has a candidate `< maxval` the entropy source is exhausted -/
theorem randrange_exhausted (h : start < stop) (s : Bytes)
    (hrej : ∀ i, (i + 1) * sizeBytes (stop - start) ≤ s.length →
      ¬ (cand (maskOf (stop - start)) (chunk (sizeBytes (stop - start)) s i) : Int) < stop - start) :
    unbiasedRandrange start stop ⟨s⟩ = raise .EntropyExhausted := by
  have hnb := sizeBytes_pos (m := stop - start) (by omega)
  rw [unbiasedRandrange_eq (Int.le_of_lt h)]
  apply loop_exhausted _ _ _ _ _ s _ hrej
  show s.length < (s.length + 1) * sizeBytes (stop - start)
  have : s.length + 1 ≤ (s.length + 1) * sizeBytes (stop - start) := Nat.le_mul_of_pos_right _ hnb
  omega

/-- the model's fuel bound is never hit -/
theorem randrange_no_fuel (h : start < stop) (s : Bytes) :
    unbiasedRandrange start stop ⟨s⟩ ≠ raise .Fuel := by
  have hnb := sizeBytes_pos (m := stop - start) (by omega)
  rw [unbiasedRandrange_eq (Int.le_of_lt h)]
  apply loop_no_fuel
  show s.length < (s.length + 1) * sizeBytes (stop - start)
  have : s.length + 1 ≤ (s.length + 1) * sizeBytes (stop - start) := Nat.le_mul_of_pos_right _ hnb
  omega

open Classical in
/-- **uniformity**: for every `k ≥ 1` the number of `k`-chunk entropy streams on which
`unbiased_randrange(start, stop)` returns `start + c` after reading exactly `k` chunks is
`((2^bits - maxval) * 2^(8nb-bits))^(k-1) * 2^(8nb-bits)` — the same for every `c < maxval`. -/
theorem randrange_uniform (h : start < stop) (k : Nat) (hk : 1 ≤ k) (c : Nat)
    (hc : (c : Int) < stop - start) :
    ((bytesOfLen (k * sizeBytes (stop - start))).filter (fun s =>
        unbiasedRandrange start stop ⟨s⟩ = .ok (start + (c : Int), ⟨[]⟩))).card =
      ((2 ^ sizeBits (stop - start) - (stop - start).toNat) *
          2 ^ (8 * sizeBytes (stop - start) - sizeBits (stop - start))) ^ (k - 1) *
        2 ^ (8 * sizeBytes (stop - start) - sizeBits (stop - start)) := by
  obtain ⟨j, rfl⟩ : ∃ j, k = j + 1 := ⟨k - 1, by omega⟩
  have hnb := sizeBytes_pos (m := stop - start) (by omega)
  rw [Nat.add_sub_cancel,
    ← loop_count (m := stop - start) (by omega) start (c := c) (by omega) j
      ((j + 1) * sizeBytes (stop - start) + 1)
      (by have : j + 1 ≤ (j + 1) * sizeBytes (stop - start) := Nat.le_mul_of_pos_right _ hnb
          omega)]
  congr 1
  apply Finset.filter_congr
  intro s hs
  rw [unbiasedRandrange_eq (Int.le_of_lt h)]
  show randrangeLoop _ _ _ _ (s.length + 1) _ = _ ↔ _
  rw [(mem_bytesOfLen.mp hs).2]

open Classical in
/-- the count does not depend on the returned value -/
theorem randrange_unbiased (h : start < stop) (k : Nat) (hk : 1 ≤ k) (c c' : Nat)
    (hc : (c : Int) < stop - start) (hc' : (c' : Int) < stop - start) :
    ((bytesOfLen (k * sizeBytes (stop - start))).filter (fun s =>
        unbiasedRandrange start stop ⟨s⟩ = .ok (start + (c : Int), ⟨[]⟩))).card =
    ((bytesOfLen (k * sizeBytes (stop - start))).filter (fun s =>
        unbiasedRandrange start stop ⟨s⟩ = .ok (start + (c' : Int), ⟨[]⟩))).card := by
  rw [randrange_uniform h k hk c hc, randrange_uniform h k hk c' hc']

/-- **C11** summary for `maxval = stop - start ≥ 1` -/
theorem C11_unbiased_randrange (h : start < stop) :
    -- acceptance probability of one draw is at least 1/2
    2 ^ sizeBits (stop - start) ≤ 2 * (stop - start).toNat ∧
    -- every candidate value is equally likely in one draw
    (∀ c, c < 2 ^ sizeBits (stop - start) →
      ((bytesOfLen (sizeBytes (stop - start))).filter
        (fun bs => cand (maskOf (stop - start)) bs = c)).card =
        2 ^ (8 * sizeBytes (stop - start) - sizeBits (stop - start))) ∧
    -- results are in range
    (∀ ent v ent', unbiasedRandrange start stop ent = .ok (v, ent') → start ≤ v ∧ v < stop) ∧
    -- the only failure is exhaustion of the entropy source
    (∀ s, unbiasedRandrange start stop ⟨s⟩ ≠ raise .Fuel) :=
  ⟨accept_half (by omega), fun _ hc => draw_uniform (by omega) hc,
   fun _ _ _ hh => randrange_range hh, randrange_no_fuel h⟩

end C11

#print axioms generate_mask_spec
#print axioms candidate_range
#print axioms accept_half
#print axioms randrange_range
#print axioms cand_eq_iff
#print axioms draw_uniform
#print axioms card_accept
#print axioms card_reject
#print axioms randrange_first_accept
#print axioms randrange_exhausted
#print axioms randrange_no_fuel
#print axioms randrange_uniform
#print axioms randrange_unbiased
#print axioms C11_unbiased_randrange
#print axioms card_mod_eq
#print axioms ed25519_sampler_bias
#print axioms sampler_bias_le_one

end Spake2Model
