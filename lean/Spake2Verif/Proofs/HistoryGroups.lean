import Spake2Verif.Proofs.History
/-!
The two group implementations of the model (`intGroup P` for every parameter triple, `edGroup c`
for every curve record) only ever fail with non-SPAKE exceptions (`Err.other _`); hence they are
`GroupQuiet`, and the exactness half of C07(e) (`History.refines_automaton`,
`History.fsm_errors_exact`) applies to them without further hypotheses.
-/
namespace Spake2Model
namespace History

theorem oo_ok {α : Type} (a : α) : OnlyOther (Except.ok a : R α) := by intro e h; cases h
theorem oo_raise {α : Type} (p : PyExc) : OnlyOther (raise p : R α) := by
  intro e h; cases h; exact ⟨p, rfl⟩
theorem oo_other {α : Type} (p : PyExc) : OnlyOther (Except.error (.other p) : R α) := by
  intro e h; cases h; exact ⟨p, rfl⟩
theorem oo_of_eq {α β : Type} {x : R α} (hx : OnlyOther x) {e : Err} (h : x = .error e) :
    OnlyOther (Except.error e : R β) := by
  intro e' h'; cases h'; exact hx e h

theorem numberToBytes_oo (n m : Int) : OnlyOther (numberToBytes n m) := by
  unfold numberToBytes
  repeat' split
  all_goals first | exact oo_ok _ | exact oo_raise _

theorem bytesToNumber_oo (s : Bytes) : OnlyOther (bytesToNumber s) := by
  unfold bytesToNumber
  split
  all_goals first | exact oo_ok _ | exact oo_raise _

theorem take_oo (e : Entropy) (n : Nat) : OnlyOther (e.take n) := by
  unfold Entropy.take
  split
  all_goals first | exact oo_ok _ | exact oo_raise _

theorem randrangeLoop_oo (mask nb : Nat) (maxval start : Int) (fuel : Nat) (ent : Entropy) :
    OnlyOther (randrangeLoop mask nb maxval start fuel ent) := by
  induction fuel generalizing ent with
  | zero => exact oo_raise _
  | succ f ih =>
    unfold randrangeLoop
    split
    · exact oo_of_eq (take_oo _ _) (by assumption)
    · dsimp only
      split
      · exact oo_ok _
      · exact ih _

theorem unbiasedRandrange_oo (a b : Int) (ent : Entropy) : OnlyOther (unbiasedRandrange a b ent) := by
  unfold unbiasedRandrange
  exact randrangeLoop_oo _ _ _ _ _ _

/-! ### integer groups -/

theorem intGroup_quiet (P : IntGroupParams) : GroupQuiet (intGroup P) := by
  refine GroupQuiet.of_other ?_ ?_ ?_ ?_ ?_ ?_ ?_
  · intro a b; exact oo_ok _
  · intro a n; exact oo_ok _
  · intro b
    show OnlyOther (IG.dec P b)
    unfold IG.dec
    repeat' split
    all_goals first | exact oo_ok _ | exact oo_raise _ | exact oo_of_eq (bytesToNumber_oo _) (by assumption)
  · intro x; exact numberToBytes_oo _ _
  · intro b
    show OnlyOther (IG.scalarDec P b)
    unfold IG.scalarDec
    repeat' split
    all_goals first | exact oo_ok _ | exact oo_raise _ | exact oo_of_eq (bytesToNumber_oo _) (by assumption)
  · intro s
    show OnlyOther (IG.arb P s)
    unfold IG.arb
    dsimp only
    repeat' split
    all_goals first | exact oo_ok _ | exact oo_raise _ | exact oo_of_eq (bytesToNumber_oo _) (by assumption)
  · intro e; exact unbiasedRandrange_oo _ _ _

/-! ### Ed25519 -/

theorem decodepoint_oo (c : Curve) (s : Bytes) : OnlyOther (Ed25519.decodepoint c s) := by
  unfold Ed25519.decodepoint
  dsimp only
  repeat' split
  all_goals first | exact oo_ok _ | exact oo_raise _ | exact oo_other _

theorem decUnknown_oo (c : Curve) (b : Bytes) : OnlyOther (Ed25519.decUnknown c b) := by
  unfold Ed25519.decUnknown
  repeat' split
  all_goals first | exact oo_ok _ | exact oo_of_eq (decodepoint_oo c _) (by assumption)

theorem arbLoop_oo (c : Curve) (y : Int) (fuel : Nat) (plus : Int) :
    OnlyOther (Ed25519.arbLoop c y fuel plus) := by
  induction fuel generalizing plus with
  | zero => exact oo_raise _
  | succ f ih =>
    unfold Ed25519.arbLoop
    dsimp only
    repeat' split
    all_goals first | exact oo_ok _ | exact oo_raise _ | exact ih _

theorem edGroup_quiet (c : Curve) : GroupQuiet (edGroup c) := by
  refine GroupQuiet.of_other ?_ ?_ ?_ ?_ ?_ ?_ ?_
  · intro a b
    show OnlyOther (Ed25519.add c a b)
    unfold Ed25519.add
    dsimp only
    repeat' split
    all_goals exact oo_ok _
  · intro a n
    show OnlyOther (Ed25519.smul c a n)
    unfold Ed25519.smul
    dsimp only
    repeat' split
    all_goals first | exact oo_ok _ | exact oo_raise _
  · intro b
    show OnlyOther (Ed25519.dec c b)
    unfold Ed25519.dec
    dsimp only
    repeat' split
    all_goals first | exact oo_ok _ | exact oo_raise _ | exact oo_of_eq (decUnknown_oo c _) (by assumption)
  · intro x
    show OnlyOther (Ed25519.scalarEnc c x)
    unfold Ed25519.scalarEnc
    dsimp only
    split
    all_goals first | exact oo_ok _ | exact oo_raise _
  · intro b
    show OnlyOther (Ed25519.scalarDec b)
    unfold Ed25519.scalarDec
    split
    all_goals first | exact oo_ok _ | exact oo_raise _
  · intro s
    show OnlyOther (Ed25519.arb c s)
    unfold Ed25519.arb
    dsimp only
    split
    · exact oo_of_eq (bytesToNumber_oo _) (by assumption)
    · exact arbLoop_oo c _ _ _
  · intro e
    show OnlyOther (Ed25519.randomScalar c e)
    unfold Ed25519.randomScalar
    repeat' split
    all_goals first | exact oo_ok _ | exact oo_of_eq (take_oo _ _) (by assumption)
                    | exact oo_of_eq (bytesToNumber_oo _) (by assumption)

end History
end Spake2Model

section Audit
open Spake2Model Spake2Model.History
#print axioms intGroup_quiet
#print axioms edGroup_quiet
end Audit
