import Spake2Verif.Proofs.ProtoBasics
/-!
Property C01 (agreement): two honest ends with the same password, identities and parameters,
after exchanging their `start()` messages, compute the same 32-byte key -- except in the two
degenerate situations the code itself singles out (both ends happened to send the same element:
`ReflectionThwarted`; a blinded element is the identity and the group's decoder refuses it).

The core statement `agreement_core` is over `Ready` sessions related by `Peers`, so it applies
verbatim to sessions that went through `serialize()/from_serialized()` (see `Restore.lean`,
`AgreementRestores.lean`).
-/
namespace Spake2Verif
open Spake2Model Spake2Model.Gen Spake2Model.Transcript

variable {G : Group}

/-- two ends of one conversation: sides `(A,B)` or `(S,S)`, same password / identities / parameters -/
structure Peers (a b : Inst G) : Prop where
  sides : (a.side = .A ∧ b.side = .B) ∨ (a.side = .S ∧ b.side = .S)
  pw : a.pw = b.pw
  idA : a.idA = b.idA
  idB : a.side ≠ .S → a.idB = b.idB
  params : a.params = b.params

namespace Peers
variable {a b : Inst G}

theorem blind_ab (h : Peers a b) : blinding a.params a.side = unblinding b.params b.side := by
  rw [h.params]; rcases h.sides with ⟨h1, h2⟩ | ⟨h1, h2⟩ <;> rw [h1, h2] <;> rfl

theorem blind_ba (h : Peers a b) : blinding b.params b.side = unblinding a.params a.side := by
  rw [h.params]; rcases h.sides with ⟨h1, h2⟩ | ⟨h1, h2⟩ <;> rw [h1, h2] <;> rfl

theorem peer_a (h : Peers a b) : peerByte a.side = b.side.byte := by
  rcases h.sides with ⟨h1, h2⟩ | ⟨h1, h2⟩ <;> rw [h1, h2] <;> rfl

theorem peer_b (h : Peers a b) : peerByte b.side = a.side.byte := by
  rcases h.sides with ⟨h1, h2⟩ | ⟨h1, h2⟩ <;> rw [h1, h2] <;> rfl

/-- both ends hash the same transcript -/
theorem finalize_eq (h : Peers a b) (X Y K : Bytes) : a.finalize Y X K = b.finalize X Y K := by
  rcases h.sides with ⟨h1, h2⟩ | ⟨h1, h2⟩
  · exact finalize_agree_AB a b h1 h2 h.idA (h.idB (by simp [h1])) h.pw X Y K
  · exact finalize_agree_S a b h1 h2 h.idA h.pw X Y K

theorem of_sameSession {a' b' : Inst G} (h : Peers a b) (ha : SameSession a a')
    (hb : SameSession b b') : Peers a' b' where
  sides := by rw [← ha.side, ← hb.side]; exact h.sides
  pw := by rw [← ha.pw, ← hb.pw]; exact h.pw
  idA := by rw [← ha.idA, ← hb.idA]; exact h.idA
  idB := by
    intro hs
    have hs' : a.side ≠ .S := ha.side ▸ hs
    have hbs : b.side ≠ .S := by
      rcases h.sides with ⟨h1, h2⟩ | ⟨h1, h2⟩
      · simp [h2]
      · exact absurd h1 hs'
    rw [← ha.idB hs', ← hb.idB hbs]; exact h.idB hs'
  params := by rw [← ha.params, ← hb.params]; exact h.params

end Peers

/-- what a ready session does with the (encoding of the) valid element `eP` sent by its peer -/
theorem recv_peer (S : GroupSpec G) {i : Inst G} {x : ℤ} {ob : Bytes} (h : Ready S i x ob)
    {eP : G.Elem} (vP : S.Valid eP) :
    (S.rejectsIdentity = true → S.abs eP = 0 →
      ∃ err, (i.finish (peerByte i.side ++ G.enc eP)).2 = .error err) ∧
    (¬(S.rejectsIdentity = true ∧ S.abs eP = 0) → G.enc eP = ob →
      (i.finish (peerByte i.side ++ G.enc eP)).2 = .error .ReflectionThwarted) ∧
    (¬(S.rejectsIdentity = true ∧ S.abs eP = 0) → G.enc eP ≠ ob →
      ∃ K, S.Valid K ∧ S.abs K = keyAbs S i.params i.side (G.p2s i.pw) x (S.abs eP) ∧
        (i.finish (peerByte i.side ++ G.enc eP)).2 = .ok (i.finalize (G.enc eP) ob (G.enc K))) := by
  have hx := extractMessage_peer i.side (G.enc eP)
  have hb := (S.enc_len eP vP).2
  obtain ⟨h1, h2, h3⟩ := finish_ready S h hx hb
  refine ⟨fun hr h0 => ?_, fun hn heq => ?_, fun hn hne => ?_⟩
  · obtain ⟨err, he⟩ := S.dec_zero hr eP vP h0
    exact ⟨err, h1 err he⟩
  · obtain ⟨e, hd, ha⟩ := S.dec_enc eP vP (fun hr h0 => hn ⟨hr, h0⟩)
    exact h2 e hd ((S.dec_strict _ e hb hd).2.trans heq)
  · obtain ⟨e, hd, ha⟩ := S.dec_enc eP vP (fun hr h0 => hn ⟨hr, h0⟩)
    obtain ⟨K, vK, aK, hK⟩ := h3 e hd (by rw [(S.dec_strict _ e hb hd).2]; exact hne)
    exact ⟨K, vK, by rw [aK, ha], hK⟩

/-- The three mutually exclusive outcomes of an honest exchange, indexed by the mathematical
elements `XA`, `YB` the two ends sent (`rA` is the result at the end that sent `XA`, i.e. the one
that *receives* `YB`):
1. normal case: both ends return the same 32-byte key;
2. both ends sent the same element: both raise `ReflectionThwarted`;
3. the decoder refuses the identity and one of the elements *is* the identity: the end receiving
   it raises; the other end returns a key unless it received the identity too. -/
def AgreementOutcome (S : GroupSpec G) (XA YB : S.A) (obA obB : Bytes) (rA rB : R Bytes) : Prop :=
  (¬(S.rejectsIdentity = true ∧ (XA = 0 ∨ YB = 0)) ∧ XA ≠ YB ∧
      ∃ k, rA = .ok k ∧ rB = .ok k ∧ k.length = 32) ∨
  (¬(S.rejectsIdentity = true ∧ (XA = 0 ∨ YB = 0)) ∧ XA = YB ∧ obA = obB ∧
      rA = .error .ReflectionThwarted ∧ rB = .error .ReflectionThwarted) ∨
  (S.rejectsIdentity = true ∧ (XA = 0 ∨ YB = 0) ∧
      (YB = 0 → ∃ err, rA = .error err) ∧ (XA = 0 → ∃ err, rB = .error err) ∧
      (YB ≠ 0 → ∃ k, rA = .ok k ∧ k.length = 32) ∧ (XA ≠ 0 → ∃ k, rB = .ok k ∧ k.length = 32))

/-- the three alternatives exclude each other (the first conjuncts are pairwise contradictory) -/
theorem AgreementOutcome.exclusive (S : GroupSpec G) (XA YB : S.A) :
    let C3 := S.rejectsIdentity = true ∧ (XA = 0 ∨ YB = 0)
    ¬((¬C3 ∧ XA ≠ YB) ∧ (¬C3 ∧ XA = YB)) ∧ ¬((¬C3 ∧ XA ≠ YB) ∧ C3) ∧ ¬((¬C3 ∧ XA = YB) ∧ C3) := by
  intro C3
  refine ⟨fun h => h.1.2 h.2.2, fun h => h.1.1 h.2, fun h => h.1.1 h.2⟩

/-- the shared key element: `x•(y•B + w•N − w•N) = y•(x•B + w•M − w•M)` -/
theorem key_algebra {A : Type} [AddCommGroup A] (x y w : ℤ) (B M N : A) :
    x • ((y • B + w • N) - w • N) = y • ((x • B + w • M) - w • M) := by
  rw [add_sub_cancel_right, add_sub_cancel_right, smul_comm]

/-- **Agreement, core form.** -/
theorem agreement_core (S : GroupSpec G) {a b : Inst G} {x y : ℤ} {obA obB : Bytes}
    (ha : Ready S a x obA) (hb : Ready S b y obB) (hp : Peers a b) :
    AgreementOutcome S (msgAbs S a.params a.side (G.p2s a.pw) x)
      (msgAbs S b.params b.side (G.p2s b.pw) y) obA obB
      (a.finish (b.side.byte ++ obB)).2 (b.finish (a.side.byte ++ obA)).2 := by
  obtain ⟨eA, vA, aA, rfl, -, -⟩ := ha.ob_elem
  obtain ⟨eB, vB, aB, rfl, -, -⟩ := hb.ob_elem
  rw [← hp.peer_a, ← hp.peer_b, ← aA, ← aB]
  obtain ⟨a1, a2, a3⟩ := recv_peer S ha vB
  obtain ⟨b1, b2, b3⟩ := recv_peer S hb vA
  have hencAB : G.enc eA = G.enc eB ↔ S.abs eA = S.abs eB := S.enc_inj eA eB vA vB
  by_cases hC3 : S.rejectsIdentity = true ∧ (S.abs eA = 0 ∨ S.abs eB = 0)
  · -- an identity element that the decoder refuses
    obtain ⟨hr, h0⟩ := hC3
    refine Or.inr (Or.inr ⟨hr, h0, a1 hr, b1 hr, fun hB0 => ?_, fun hA0 => ?_⟩)
    · have hA0 : S.abs eA = 0 := h0.resolve_right hB0
      have hne : G.enc eB ≠ G.enc eA := fun he => hB0 (by rw [← hencAB.mp he.symm, hA0])
      obtain ⟨K, -, -, hK⟩ := a3 (fun h => hB0 h.2) hne
      exact ⟨_, hK, finalize_length _ _ _ _⟩
    · have hB0 : S.abs eB = 0 := h0.resolve_left hA0
      have hne : G.enc eA ≠ G.enc eB := fun he => hA0 (by rw [hencAB.mp he, hB0])
      obtain ⟨K, -, -, hK⟩ := b3 (fun h => hA0 h.2) hne
      exact ⟨_, hK, finalize_length _ _ _ _⟩
  · have nA : ¬(S.rejectsIdentity = true ∧ S.abs eA = 0) := fun h => hC3 ⟨h.1, Or.inl h.2⟩
    have nB : ¬(S.rejectsIdentity = true ∧ S.abs eB = 0) := fun h => hC3 ⟨h.1, Or.inr h.2⟩
    by_cases heq : S.abs eA = S.abs eB
    · have he := hencAB.mpr heq
      exact Or.inr (Or.inl ⟨hC3, heq, he, a2 nB he.symm, b2 nA he⟩)
    · have hne : G.enc eA ≠ G.enc eB := fun he => heq (hencAB.mp he)
      obtain ⟨KA, vKA, aKA, hKA⟩ := a3 nB (Ne.symm hne)
      obtain ⟨KB, vKB, aKB, hKB⟩ := b3 nA hne
      have hK : G.enc KA = G.enc KB := by
        rw [S.enc_inj KA KB vKA vKB, aKA, aKB, aA, aB, keyAbs, keyAbs, msgAbs, msgAbs,
          hp.blind_ab, hp.blind_ba, ← hp.pw]
        exact key_algebra _ _ _ _ _ _
      refine Or.inl ⟨hC3, heq, _, hKA, ?_, finalize_length _ _ _ _⟩
      rw [hKB, hK, hp.finalize_eq]

/-- **C01, asymmetric.**  `SPAKE2_A` and `SPAKE2_B` with the same password, identities and
parameters: after both `start()` succeed and the messages are exchanged, exactly one of the three
`AgreementOutcome`s holds. -/
theorem agreement_asym (S : GroupSpec G) {P : Params G} (hP : ValidParams S P)
    {pw idA idB : Bytes} {entA entB : Entropy} {a b : Inst G} {mA mB : Bytes}
    (hA : (Inst.new .A pw idA idB P entA).start = (a, .ok mA))
    (hB : (Inst.new .B pw idA idB P entB).start = (b, .ok mB)) :
    ∃ x y, a.xyScalar = some x ∧ b.xyScalar = some y ∧
      AgreementOutcome S (msgAbs S P .A (G.p2s pw) x) (msgAbs S P .B (G.p2s pw) y)
        (mA.drop 1) (mB.drop 1) (a.finish mB).2 (b.finish mA).2 := by
  obtain ⟨x, obA, rfl, ra, sa, pa, ia, ja, qa, -⟩ := start_ready S hP hA
  obtain ⟨y, obB, rfl, rb, sb, pb, ib, jb, qb, -⟩ := start_ready S hP hB
  have hp : Peers a b :=
    ⟨Or.inl ⟨sa, sb⟩, pa.trans pb.symm, ia.trans ib.symm, fun _ => ja.trans jb.symm, qa.trans qb.symm⟩
  have := agreement_core S ra rb hp
  rw [sa, sb, pa, pb, qa, qb] at this
  exact ⟨x, y, ra.xy, rb.xy, this⟩

/-- **C01, symmetric.**  Two `SPAKE2_Symmetric` ends. -/
theorem agreement_sym (S : GroupSpec G) {P : Params G} (hP : ValidParams S P)
    {pw idS idB₁ idB₂ : Bytes} {ent₁ ent₂ : Entropy} {a b : Inst G} {m₁ m₂ : Bytes}
    (hA : (Inst.new .S pw idS idB₁ P ent₁).start = (a, .ok m₁))
    (hB : (Inst.new .S pw idS idB₂ P ent₂).start = (b, .ok m₂)) :
    ∃ x y, a.xyScalar = some x ∧ b.xyScalar = some y ∧
      AgreementOutcome S (msgAbs S P .S (G.p2s pw) x) (msgAbs S P .S (G.p2s pw) y)
        (m₁.drop 1) (m₂.drop 1) (a.finish m₂).2 (b.finish m₁).2 := by
  obtain ⟨x, obA, rfl, ra, sa, pa, ia, ja, qa, -⟩ := start_ready S hP hA
  obtain ⟨y, obB, rfl, rb, sb, pb, ib, jb, qb, -⟩ := start_ready S hP hB
  have hp : Peers a b :=
    ⟨Or.inr ⟨sa, sb⟩, pa.trans pb.symm, ia.trans ib.symm, fun h => absurd sa h, qa.trans qb.symm⟩
  have := agreement_core S ra rb hp
  rw [sa, sb, pa, pb, qa, qb] at this
  exact ⟨x, y, ra.xy, rb.xy, this⟩

/-- readable corollary: whenever both ends return a key, it is the same key -/
theorem agreement_keys_equal (S : GroupSpec G) {a b : Inst G} {x y : ℤ} {obA obB kA kB : Bytes}
    (ha : Ready S a x obA) (hb : Ready S b y obB) (hp : Peers a b)
    (hA : (a.finish (b.side.byte ++ obB)).2 = .ok kA)
    (hB : (b.finish (a.side.byte ++ obA)).2 = .ok kB) : kA = kB ∧ kA.length = 32 := by
  rcases agreement_core S ha hb hp with ⟨-, -, k, h1, h2, h3⟩ | ⟨-, -, -, h1, -⟩ | ⟨-, h0, e1, e2, -, -⟩
  · rw [hA] at h1; rw [hB] at h2
    injection h1 with h1; injection h2 with h2
    exact ⟨h1.trans h2.symm, h1 ▸ h3⟩
  · rw [hA] at h1; cases h1
  · rcases h0 with h0 | h0
    · obtain ⟨err, he⟩ := e2 h0; rw [hB] at he; cases he
    · obtain ⟨err, he⟩ := e1 h0; rw [hA] at he; cases he

end Spake2Verif

section Audit
open Spake2Verif
#print axioms recv_peer
#print axioms agreement_core
#print axioms agreement_asym
#print axioms agreement_sym
#print axioms agreement_keys_equal
end Audit
