import Spake2Verif.Spec.GroupSpec
import Spake2Verif.Spec.Ed25519Inst
import Spake2Verif.Spec.IntGroupSpec
import Mathlib.Tactic.Abel
/-!
Auxiliary definitions and lemmas for the property file C13:
* `Obtainable G e`: the closed world of element objects a caller can get hold of through the API
  (`Base`, `Zero`, `arbitrary_element`, `bytes_to_element`, results of `add`, `scalarmult`, `negate`);
* `addN G a n`: `n`-fold addition through the API, `((Zero + a) + a) + … + a`.
-/
namespace Spake2Verif.PropAuxB
open Spake2Model Spake2Model.Gen

/-- element objects obtainable through the API of `G` -/
inductive Obtainable (G : Group) : G.Elem → Prop
  | base : Obtainable G G.base
  | zero : Obtainable G G.zero
  | arb {seed : Bytes} {e : G.Elem} : G.arb seed = .ok e → Obtainable G e
  | dec {b : Bytes} {e : G.Elem} : IsBytes b → G.dec b = .ok e → Obtainable G e
  | add {a b c : G.Elem} : Obtainable G a → Obtainable G b → G.add a b = .ok c → Obtainable G c
  | smul {a c : G.Elem} {n : ℤ} : Obtainable G a → G.smul a n = .ok c → Obtainable G c
  | neg {a c : G.Elem} : Obtainable G a → G.neg a = .ok c → Obtainable G c

/-- `n`-fold addition through the API: `addN G a 0 = Zero`, `addN G a (n+1) = (addN G a n).add(a)` -/
def addN (G : Group) (a : G.Elem) : Nat → R G.Elem
  | 0 => .ok G.zero
  | n+1 =>
    match addN G a n with
    | .ok s => G.add s a
    | .error e => .error e

variable {G : Group} (S : GroupSpec G)

theorem obtainable_valid (hneg : ∀ a c, S.Valid a → G.neg a = .ok c → S.Valid c) :
    ∀ e, Obtainable G e → S.Valid e := by
  intro e he
  induction he with
  | base => exact S.base_valid
  | zero => exact S.zero_valid
  | arb h => exact S.arb_valid _ _ h
  | dec hb h => exact (S.dec_strict _ _ hb h).1
  | add _ _ h iha ihb =>
    obtain ⟨c', hc', vc', -⟩ := S.add_ok _ _ iha ihb
    rw [h] at hc'; cases hc'; exact vc'
  | smul _ h iha =>
    obtain ⟨c', hc', vc', -⟩ := S.smul_ok _ _ iha
    rw [h] at hc'; cases hc'; exact vc'
  | neg _ h iha => exact hneg _ _ iha h

theorem addN_ok (a : G.Elem) (va : S.Valid a) :
    ∀ n : ℕ, ∃ d, addN G a n = .ok d ∧ S.Valid d ∧ S.abs d = (n : ℤ) • S.abs a
  | 0 => ⟨G.zero, rfl, S.zero_valid, by rw [S.abs_zero]; simp⟩
  | n+1 => by
    obtain ⟨d, hd, vd, ad⟩ := addN_ok a va n
    obtain ⟨c, hc, vc, ac⟩ := S.add_ok d a vd va
    refine ⟨c, ?_, vc, ?_⟩
    · show (match addN G a n with | .ok s => G.add s a | .error e => .error e) = _
      rw [hd]; exact hc
    · rw [ac, ad]; push_cast; rw [add_zsmul, one_zsmul]

/-- reduction of the scalar modulo the order -/
theorem zsmul_emod_order {A : Type} [AddCommGroup A] (x : A) (q n : ℤ) (hq : q • x = 0) :
    (n % q) • x = n • x := by
  conv_rhs => rw [← Int.emod_add_mul_ediv n q]
  rw [add_zsmul, mul_zsmul', hq, zsmul_zero, add_zero]

/-- `negate` on the integer groups is not offered -/
theorem int_neg (P : IntGroupParams) (a : Int) : (intGroup P).neg a = raise .AttributeError := rfl

theorem int_hneg (P : IntGroupParams) (V : Int → Prop) :
    ∀ a c, V a → (intGroup P).neg a = .ok c → V c := by
  intro a c _ h; cases h

theorem ed_hneg (c : Curve) (h : CurveOK c) :
    ∀ a b, (ed25519Spec c h).Valid a → (edGroup c).neg a = .ok b → (ed25519Spec c h).Valid b := by
  intro a b va hb
  obtain ⟨b', hb', vb', -⟩ := Ed25519Spec.negate_spec c h a va
  have : (edGroup c).neg a = Ed25519.negate c a := rfl
  rw [this, hb'] at hb; cases hb; exact vb'

end Spake2Verif.PropAuxB
