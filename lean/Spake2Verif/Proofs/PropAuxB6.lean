import Spake2Verif.Proofs.TranscriptProofs
import Spake2Verif.Proofs.UtilProofs
import Spake2Verif.Basic.PyLemmas
import Spake2Model.Model.Group
/-!
Auxiliary lemmas for the property file C14: HKDF output length, unfolding of `password_to_scalar` and of the two
`arbitrary_element` constructions.
-/
namespace Spake2Verif.PropAuxB
open Spake2Model Spake2Model.Gen

/-! ### HKDF output length -/

theorem hmac_length (key msg : Bytes) : (Sha.hmac key msg).length = 32 := by
  unfold Sha.hmac; exact Transcript.sha256_length _

theorem hkdfExpand_length (prk info : Bytes) : ∀ (n i : Nat) (t acc : Bytes),
    (Sha.hkdfExpand prk info n i t acc).length = acc.length + 32 * n
  | 0, _, _, acc => by rw [Sha.hkdfExpand]; omega
  | n+1, i, t, acc => by
    rw [Sha.hkdfExpand]
    rw [hkdfExpand_length prk info n, List.length_append, hmac_length]
    omega

/-- HKDF returns exactly the number of bytes requested -/
theorem hkdf_length (ikm salt info : Bytes) (len : Nat) : (Sha.hkdf ikm salt info len).length = len := by
  unfold Sha.hkdf
  simp only []
  rw [List.length_take, hkdfExpand_length]
  simp only [List.length_nil]
  omega

/-! ### constants generated from the source -/

theorem info_pw_eq : IntGroup.info_pw = asciiOf "SPAKE2 pw" ∧ IntGroup.info_pw_salt = [] := by decide

theorem info_arb_eq : IntGroup.info_arb = asciiOf "SPAKE2 arbitrary element" ∧ IntGroup.info_arb_salt = [] := by
  decide

theorem p2s_len_eq (s : Nat) : (IntGroup.p2s_len (s : Int)).toNat = s + 16 := by
  unfold IntGroup.p2s_len; omega

/-! ### `password_to_scalar` -/

theorem p2s_unfold (pw : Bytes) (scalarSize : Nat) (q : Int) :
    passwordToScalar pw scalarSize q =
      (beToNat (Sha.hkdf pw [] (asciiOf "SPAKE2 pw") (scalarSize + 16)) : Int) % q := by
  unfold passwordToScalar expandPassword IntGroup.p2s_reduce
  rw [p2s_len_eq, info_pw_eq.1, info_pw_eq.2]
  rfl

theorem p2s_range (pw : Bytes) (scalarSize : Nat) {q : Int} (hq : 0 < q) :
    0 ≤ passwordToScalar pw scalarSize q ∧ passwordToScalar pw scalarSize q < q := by
  rw [p2s_unfold]
  exact ⟨Int.emod_nonneg _ (by omega), Int.emod_lt_of_pos _ hq⟩

/-! ### integer-group `arbitrary_element` -/

theorem expandArbSeed_eq (seed : Bytes) (n : Nat) :
    expandArbSeed seed n = Sha.hkdf seed [] (asciiOf "SPAKE2 arbitrary element") n := by
  unfold expandArbSeed; rw [info_arb_eq.1, info_arb_eq.2]

theorem bytesToNumber_hkdf (ikm salt info : Bytes) {n : Nat} (hn : 1 ≤ n) :
    bytesToNumber (Sha.hkdf ikm salt info n) = .ok (beToNat (Sha.hkdf ikm salt info n) : Int) := by
  apply bytesToNumber_ok
  intro h
  have := hkdf_length ikm salt info n
  rw [h] at this
  simp at this
  omega

/-- the published construction for integer groups: `h = HKDF(seed) mod p`, element `h^((p-1)/q) mod p`, accepted iff
`r·q = p-1` and the result passes `_is_member` -/
theorem ig_arb_unfold (P : IntGroupParams) (hp : 0 ≤ P.p) (seed : Bytes) :
    IG.arb P seed =
      if Int.fdiv (P.p - 1) P.q * P.q ≠ P.p - 1 then raise .AssertionError
      else if Py.pow3
          (Py.pow3 ((beToNat (Sha.hkdf seed [] (asciiOf "SPAKE2 arbitrary element") (sizeBytes P.p)) : Int) % P.p)
            (Int.fdiv (P.p - 1) P.q) P.p) P.q P.p = 1
        then .ok (Py.pow3
          ((beToNat (Sha.hkdf seed [] (asciiOf "SPAKE2 arbitrary element") (sizeBytes P.p)) : Int) % P.p)
          (Int.fdiv (P.p - 1) P.q) P.p)
        else raise .AssertionError := by
  unfold IG.arb
  simp only [IG.elemSize, expandArbSeed_eq, bytesToNumber_hkdf _ _ _ (sizeBytes_pos hp)]
  unfold IntGroup.arb_r IntGroup.arb_h IntGroup.arb_elem IntGroup.is_member
  simp only [show ∀ a b : Int, Int.emod a b = a % b from fun _ _ => rfl]
  by_cases h1 : Int.fdiv (P.p - 1) P.q * P.q ≠ P.p - 1
  · rw [if_pos h1, if_pos h1]
  · rw [if_neg h1, if_neg h1]
    by_cases h2 : Py.pow3
          (Py.pow3 ((beToNat (Sha.hkdf seed [] (asciiOf "SPAKE2 arbitrary element") (sizeBytes P.p)) : Int) % P.p)
            (Int.fdiv (P.p - 1) P.q) P.p) P.q P.p = 1
    · simp [h2]
    · simp [h2]

/-! ### Ed25519 `arbitrary_element` -/

/-- the `plus`-th candidate of the try-and-increment loop: `y' = (y + plus) mod Q`, `x' = xrecover(y')` -/
def arbPoint (c : Curve) (y : Int) (plus : Int) : Int × Int :=
  (Ed.xrecover c.Q c.d c.I ((y + plus) % c.Q), (y + plus) % c.Q)

/-- `8 · (x', y')` computed by the safe ladder -/
def arbTimes8 (c : Curve) (y : Int) (plus : Int) : P4 :=
  Ed.scalarmult_element_safe_slow c.Q c.d (Ed.xform_affine_to_extended c.Q (arbPoint c y plus)) Ed.arb_cofactor

/-- the candidate is taken: `(x', y')` is on the curve and `8·(x', y')` is not the identity -/
def arbGood (c : Curve) (y : Int) (plus : Int) : Bool :=
  Ed.isoncurve c.Q c.d (arbPoint c y plus) && !(Ed.is_extended_zero c.Q (arbTimes8 c y plus))

theorem arbLoop_succ (c : Curve) (y : Int) (fuel : Nat) (plus : Int) :
    Ed25519.arbLoop c y (fuel + 1) plus =
      if arbGood c y plus then
        (if Ed.is_extended_zero c.Q (Ed.scalarmult_element_safe_slow c.Q c.d (arbTimes8 c y plus) c.L)
          then .ok ⟨.elem, arbTimes8 c y plus⟩ else raise .AssertionError)
      else Ed25519.arbLoop c y fuel (plus + 1) := by
  rw [Ed25519.arbLoop]
  simp only [arbGood, arbTimes8, arbPoint]
  by_cases h1 : Ed.isoncurve c.Q c.d (Ed.xrecover c.Q c.d c.I ((y + plus) % c.Q), (y + plus) % c.Q) = true
  · by_cases h2 : Ed.is_extended_zero c.Q
        (Ed.scalarmult_element_safe_slow c.Q c.d
          (Ed.xform_affine_to_extended c.Q
            (Ed.xrecover c.Q c.d c.I ((y + plus) % c.Q), (y + plus) % c.Q)) Ed.arb_cofactor) = true
    · simp [h1, h2]
    · simp only [h1, h2, Bool.not_true, Bool.false_eq_true, if_false, Bool.true_and,
        Bool.not_false, if_true]
      cases hh : Ed.is_extended_zero c.Q
        (Ed.scalarmult_element_safe_slow c.Q c.d
          (Ed.xform_affine_to_extended c.Q
            (Ed.xrecover c.Q c.d c.I ((y + plus) % c.Q), (y + plus) % c.Q)) Ed.arb_cofactor)
      · rfl
      · exact absurd hh h2
  · simp [h1]

/-- **first good candidate**: if the candidates `plus, …, plus+n-1` are all rejected and `plus+n` is good, the loop
returns `8·(x', y')` for that candidate (or trips the code's final `L`-torsion assertion) -/
theorem arbLoop_first (c : Curve) (y : Int) : ∀ (n fuel : Nat) (plus : Int), n < fuel →
    (∀ k : Nat, k < n → arbGood c y (plus + k) = false) → arbGood c y (plus + n) = true →
    Ed25519.arbLoop c y fuel plus =
      if Ed.is_extended_zero c.Q (Ed.scalarmult_element_safe_slow c.Q c.d (arbTimes8 c y (plus + n)) c.L)
        then .ok ⟨.elem, arbTimes8 c y (plus + n)⟩ else raise .AssertionError
  | 0, fuel, plus, hf, _, hg => by
    obtain ⟨f, rfl⟩ : ∃ f, fuel = f + 1 := ⟨fuel - 1, by omega⟩
    simp only [Nat.cast_zero, add_zero] at hg ⊢
    rw [arbLoop_succ, hg, if_pos rfl]
  | n+1, fuel, plus, hf, hrej, hg => by
    obtain ⟨f, rfl⟩ : ∃ f, fuel = f + 1 := ⟨fuel - 1, by omega⟩
    have h0 : arbGood c y plus = false := by simpa using hrej 0 (by omega)
    rw [arbLoop_succ, h0]
    simp only [Bool.false_eq_true, if_false]
    have e : ∀ k : Nat, plus + 1 + (k : Int) = plus + ((k + 1 : Nat) : Int) := by
      intro k; push_cast; ring
    rw [arbLoop_first c y n f (plus + 1) (by omega)
      (fun k hk => by rw [e]; exact hrej (k + 1) (by omega)) (by rw [e]; exact hg), e]

theorem ed_arb_unfold (c : Curve) (seed : Bytes) :
    Ed25519.arb c seed =
      Ed25519.arbLoop c
        ((beToNat (Sha.hkdf seed [] (asciiOf "SPAKE2 arbitrary element") 48) : Int) % c.Q) 4096 0 := by
  unfold Ed25519.arb
  have h48 : Ed.arb_seed_len.toNat = 48 := by decide
  simp only [h48, expandArbSeed_eq, bytesToNumber_hkdf _ _ _ (by decide : 1 ≤ 48)]

end Spake2Verif.PropAuxB
