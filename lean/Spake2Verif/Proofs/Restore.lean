import Spake2Verif.Proofs.RestoreBasics
import Spake2Verif.Proofs.SideChecks
/-!
Properties C08 (a restored session is indistinguishable from the original), C09 (the checks
`from_serialized` performs: side, parameter fingerprint) and C10 (the serialisation format).

Hypothesis used where `serialize()` has to *succeed*: `hash_params()` succeeds, i.e.
`G.arb [] = .ok a0` (the contract does not promise that `arbitrary_element` is total; for the
shipped groups it is a closed computation).
-/
namespace Spake2Verif
open Spake2Model Spake2Model.Gen Spake2Model.Json Spake2Model.Serialize Spake2Model.Transcript

variable {G : Group}

/-! ### the parameter fingerprint -/

/-- the string hashed by `hash_params()` -/
def fpPieces (side : Side) (P : Params G) (a0 : G.Elem) (s0 : Bytes) : Bytes :=
  match side with
  | .S => G.enc a0 ++ s0 ++ G.enc P.S
  | _ => G.enc a0 ++ s0 ++ G.enc P.M ++ G.enc P.N

theorem hashParams_inv {i : Inst G} {hp : Bytes} (h : i.hashParams = .ok hp) :
    ∃ a0 s0, G.arb [] = .ok a0 ∧ G.scalarEnc (G.p2s []) = .ok s0 ∧
      hp = hexlify (Sha.sha256 (fpPieces i.side i.params a0 s0)) := by
  unfold Inst.hashParams at h
  cases ha : G.arb [] with
  | error e => rw [ha] at h; cases h
  | ok a =>
    cases hs : G.scalarEnc (G.p2s []) with
    | error e => rw [ha, hs] at h; cases h
    | ok s =>
      rw [ha, hs] at h
      simp only [bind, Except.bind, pure, Except.pure, Except.ok.injEq] at h
      refine ⟨a, s, rfl, rfl, ?_⟩
      rw [← h]; unfold fpPieces
      cases i.side <;> rfl

theorem hashParams_of {i : Inst G} {a0 : G.Elem} {s0 : Bytes} (ha : G.arb [] = .ok a0)
    (hs : G.scalarEnc (G.p2s []) = .ok s0) :
    i.hashParams = .ok (hexlify (Sha.sha256 (fpPieces i.side i.params a0 s0))) := by
  unfold Inst.hashParams
  rw [ha, hs]
  simp only [bind, Except.bind, pure, Except.pure, fpPieces]
  cases i.side <;> rfl

/-- under the contract `hash_params()` succeeds as soon as `arbitrary_element(b"")` does -/
theorem hashParams_ok (S : GroupSpec G) (i : Inst G) {a0 : G.Elem} (ha : G.arb [] = .ok a0) :
    ∃ s0, G.scalarEnc (G.p2s []) = .ok s0 ∧ s0.length = G.scalarSize ∧ IsBytes s0 ∧
      i.hashParams = .ok (hexlify (Sha.sha256 (fpPieces i.side i.params a0 s0))) := by
  obtain ⟨s0, h1, h2, h3, -⟩ := S.scalar_rt (G.p2s []) (S.p2s_range []).1 (S.p2s_range []).2
  exact ⟨s0, h1, h2, h3, hashParams_of ha h1⟩

theorem hashParams_clean {i : Inst G} {hp : Bytes} (h : i.hashParams = .ok hp) :
    Clean hp ∧ 127 ∉ hp := by
  obtain ⟨m, rfl⟩ := hashParams_hex h
  exact ⟨JsonAux.hexlify_clean _ (sha256_isBytes m), JsonAux.hexlify_no_del _ (sha256_isBytes m)⟩

/-! ### reading the dictionary `serialize()` writes -/

section DictOf
variable (side : Side) (hp idA idB pw xs : Bytes)

theorem dictOf_hp : getStr (dictOf side hp idA idB pw xs) k_hashed_params = .ok hp :=
  getStr_of_mem (dictOf_keys_nodup ..) (by cases side <;> simp [dictOf])

theorem dictOf_side : getStr (dictOf side hp idA idB pw xs) k_side = .ok side.byte :=
  getStr_of_mem (dictOf_keys_nodup ..) (by cases side <;> simp [dictOf])

theorem dictOf_pw (h : IsBytes pw) : getHex (dictOf side hp idA idB pw xs) k_password = .ok pw :=
  getHex_of_mem (dictOf_keys_nodup ..) h (by cases side <;> simp [dictOf])

theorem dictOf_xs (h : IsBytes xs) : getHex (dictOf side hp idA idB pw xs) k_xy_scalar = .ok xs :=
  getHex_of_mem (dictOf_keys_nodup ..) h (by cases side <;> simp [dictOf])

theorem dictOf_idS (h : IsBytes idA) : getHex (dictOf .S hp idA idB pw xs) k_idS = .ok idA :=
  getHex_of_mem (dictOf_keys_nodup ..) h (by simp [dictOf])

theorem dictOf_idA (hs : side ≠ .S) (h : IsBytes idA) :
    getHex (dictOf side hp idA idB pw xs) k_idA = .ok idA :=
  getHex_of_mem (dictOf_keys_nodup ..) h (by revert hs; cases side <;> simp [dictOf])

theorem dictOf_idB (hs : side ≠ .S) (h : IsBytes idB) :
    getHex (dictOf side hp idA idB pw xs) k_idB = .ok idB :=
  getHex_of_mem (dictOf_keys_nodup ..) h (by revert hs; cases side <;> simp [dictOf])

/-- a symmetric state has no `"idA"` member -/
theorem dictOf_S_no_idA : getHex (dictOf .S hp idA idB pw xs) k_idA = raise .KeyError := by
  have : lookup k_idA (dictOf .S hp idA idB pw xs) = none := by
    rw [lookup_eq_none_iff]; simp only [dictOf, keys, List.map_cons, List.map_nil]; decide
  simp [getHex, this]

end DictOf

/-- the record `from_serialized` starts from -/
def blank (side : Side) (pw idA idB : Bytes) (P : Params G) : Inst G :=
  Inst.new side pw idA (if side = .S then [] else idB) P ⟨[]⟩

theorem fromDict_dictOf_same (side : Side) (P' : Params G) {hp idA idB pw xs : Bytes}
    (hA : IsBytes idA) (hB : IsBytes idB) (hpw : IsBytes pw) :
    fromDict side (dictOf side hp idA idB pw xs) P'
      = restoreTail (blank side pw idA idB P') (dictOf side hp idA idB pw xs) := by
  cases side
  · simp [fromDict, blank, dictOf_pw, dictOf_idA, dictOf_idB, dictOf_side, hA, hB, hpw, bind,
      Except.bind]
  · simp [fromDict, blank, dictOf_pw, dictOf_idA, dictOf_idB, dictOf_side, hA, hB, hpw, bind,
      Except.bind]
  · simp [fromDict, blank, dictOf_pw, dictOf_idS, dictOf_side, hA, hpw, bind, Except.bind,
      Side.byte]

/-- **C09, wrong class.**  State written by side `s₀` handed to the class of side `s`:
A↔B and A/B→S are `WrongSideSerialized`; S→A/B is a `KeyError` (there is no `"idA"` member). -/
theorem fromDict_dictOf_wrong_side {side side0 : Side} (hne : side ≠ side0) (P' : Params G)
    {hp idA idB pw xs : Bytes} (hA : IsBytes idA) (hB : IsBytes idB) (hpw : IsBytes pw) :
    fromDict side (dictOf side0 hp idA idB pw xs) P' =
      .error (if side0 = .S then .other .KeyError else .WrongSideSerialized) := by
  cases side <;> cases side0 <;> first
    | exact absurd rfl hne
    | simp [fromDict, dictOf_pw, dictOf_idA, dictOf_idB, dictOf_side, dictOf_S_no_idA, hA, hB, hpw,
        bind, Except.bind, Side.byte, Consts.sideA, Consts.sideB, Consts.sideS, raise]

theorem restoreTail_dictOf {j : Inst G} {side : Side} {hp hp' idA idB pw xs : Bytes} {x : ℤ}
    (hj : j.hashParams = .ok hp') (hxs : IsBytes xs) (hdec : G.scalarDec xs = .ok x) :
    restoreTail j (dictOf side hp idA idB pw xs) =
      if hp ≠ hp' then .error .WrongGroupError else
        match j.outboundFor x with
        | .error e => .error e
        | .ok ob => .ok { j with started := true, xyScalar := some x, outbound := some ob } := by
  have hcongr : Inst.outboundFor { j with started := true, xyScalar := some x } x
      = j.outboundFor x := outboundFor_congr rfl rfl rfl x
  unfold restoreTail
  simp only [dictOf_hp, hj, dictOf_xs _ _ _ _ _ _ hxs, hdec, hcongr, bind, Except.bind]
  by_cases h : hp = hp'
  · simp only [h, ne_eq, not_true_eq_false, if_false]
    cases j.outboundFor x <;> rfl
  · simp [h]

/-! ### `serialize()` -/

/-- `serialize()` never reads the entropy source -/
theorem serialize_entropy (i : Inst G) (e : Entropy) :
    Inst.serialize { i with entropy := e } = i.serialize := rfl

/-- `serialize()` reads only the `SameSession` fields -/
theorem serialize_congr {i i' : Inst G} (h : SameSession i i') : i.serialize = i'.serialize := by
  have hh : i.hashParams = i'.hashParams := hashParams_congr h.side h.params
  unfold Inst.serialize Inst.toDict
  rw [← h.started, hh, ← h.xy, ← h.side, ← h.idA, ← h.pw]
  cases hs : i.side
  · rw [h.idB (by simp [hs])]
  · rw [h.idB (by simp [hs])]
  · rfl

/-- **C10 (format).**  The exact output of `serialize()` on a ready session:
`json.dumps` of the dictionary `dictOf` (6 members, 5 on side `S`, values hex except `side`). -/
theorem serialize_format (S : GroupSpec G) {i : Inst G} {x : ℤ} {ob hp : Bytes}
    (h : Ready S i x ob) (hh : i.hashParams = .ok hp) :
    ∃ xs, G.scalarEnc x = .ok xs ∧ xs.length = G.scalarSize ∧ IsBytes xs ∧ G.scalarDec xs = .ok x ∧
      i.serialize = .ok (Json.dumps (dictOf i.side hp i.idA i.idB i.pw xs)) := by
  obtain ⟨xs, h1, h2, h3, h4⟩ := S.scalar_rt x h.range.1 h.range.2
  refine ⟨xs, h1, h2, h3, h4, ?_⟩
  unfold Inst.serialize Inst.toDict
  simp only [h.started, Bool.not_true, Bool.false_eq_true, if_false, hh, h.xy, h1, bind, Except.bind,
    pure, Except.pure]
  cases i.side <;> rfl

/-- if `serialize()` succeeded then `hash_params()` did -/
theorem serialize_ok_hash {i : Inst G} {s : Bytes} (h : i.serialize = .ok s) :
    ∃ hp, i.hashParams = .ok hp := by
  unfold Inst.serialize at h
  cases hst : i.started with
  | false => simp [hst] at h
  | true =>
    simp only [hst, Bool.not_true, Bool.false_eq_true, if_false] at h
    cases hd : i.toDict with
    | error e => rw [hd] at h; cases h
    | ok d =>
      obtain ⟨hp, _, _, hhp, -⟩ := toDict_eq hd
      exact ⟨hp, hhp⟩

/-- `serialize()` before `start()` -/
theorem serialize_too_early (i : Inst G) (h : i.started = false) :
    i.serialize = .error .SerializedTooEarly := by
  simp [Inst.serialize, h]

/-- everything `serialize()` emits is printable ASCII, and it parses back -/
theorem serialize_printable (S : GroupSpec G) {i : Inst G} {x : ℤ} {ob s : Bytes}
    (h : Ready S i x ob) (hA : IsBytes i.idA) (hB : IsBytes i.idB) (hpw : IsBytes i.pw)
    (hs : i.serialize = .ok s) :
    (∀ c ∈ s, 0x20 ≤ c ∧ c ≤ 0x7e) ∧ s.any (· ≥ 128) = false := by
  obtain ⟨hp, hh⟩ := serialize_ok_hash hs
  obtain ⟨xs, -, -, bxs, -, hser⟩ := serialize_format S h hh
  rw [hs] at hser
  injection hser with hser
  obtain ⟨chp, dhp⟩ := hashParams_clean hh
  have hc := dictOf_clean i.side chp hA hB hpw bxs
  have hdel := dictOf_no_del i.side dhp (JsonAux.hexlify_no_del _ hA)
    (JsonAux.hexlify_no_del _ hB) (JsonAux.hexlify_no_del _ hpw) (JsonAux.hexlify_no_del _ bxs)
  rw [hser]
  exact ⟨dumps_printable hc hdel, dumps_no_high hc⟩

/-- `from_serialized` applied to the output of `serialize()` sees the dictionary that was written -/
theorem fromSerialized_of_ready (S : GroupSpec G) {i : Inst G} {x : ℤ} {ob s : Bytes}
    (h : Ready S i x ob) (hA : IsBytes i.idA) (hB : IsBytes i.idB) (hpw : IsBytes i.pw)
    (hs : i.serialize = .ok s) (side : Side) (P' : Params G) :
    ∃ hp xs, i.hashParams = .ok hp ∧ G.scalarEnc x = .ok xs ∧ xs.length = G.scalarSize ∧
      IsBytes xs ∧ G.scalarDec xs = .ok x ∧
      s = Json.dumps (dictOf i.side hp i.idA i.idB i.pw xs) ∧
      CleanDict (dictOf i.side hp i.idA i.idB i.pw xs) ∧
      fromSerialized side s P' = fromDict side (dictOf i.side hp i.idA i.idB i.pw xs) P' := by
  obtain ⟨hp, hh⟩ := serialize_ok_hash hs
  obtain ⟨xs, e1, e2, bxs, e4, hser⟩ := serialize_format S h hh
  rw [hs] at hser
  injection hser with hser
  have hc := dictOf_clean i.side (hashParams_clean hh).1 hA hB hpw bxs
  refine ⟨hp, xs, hh, e1, e2, bxs, e4, hser, hc, ?_⟩
  rw [hser, dumps_eq_dumpsWs]
  exact fromSerialized_dumpsWs (by intro c hc; cases hc) (by intro c hc; cases hc) stdWs_ok hc

/-! ### C08: restoring is transparent -/

/-- **C08.**  `from_serialized(serialize())` under the same class and parameters succeeds and
returns a session that agrees with the original on every field `finish()` and `serialize()` read;
therefore it finishes to the same result on every message and serialises to the same bytes. -/
theorem restore_transparent (S : GroupSpec G) {i : Inst G} {x : ℤ} {ob s : Bytes}
    (h : Ready S i x ob) (hA : IsBytes i.idA) (hB : IsBytes i.idB) (hpw : IsBytes i.pw)
    (hs : i.serialize = .ok s) :
    ∃ i', fromSerialized i.side s i.params = .ok i' ∧
      SameSession i i' ∧ Ready S i' x ob ∧
      i'.entropy = ⟨[]⟩ ∧ i'.inbound = none ∧ (i.side = .S → i'.idB = []) ∧
      i'.serialize = .ok s ∧ (∀ m, (i'.finish m).2 = (i.finish m).2) := by
  obtain ⟨hp, xs, hh, -, -, bxs, hdec, -, -, hfs⟩ :=
    fromSerialized_of_ready S h hA hB hpw hs i.side i.params
  have hj : (blank i.side i.pw i.idA i.idB i.params).hashParams = .ok hp := by
    rw [← hh]; exact hashParams_congr rfl rfl
  have hob : (blank i.side i.pw i.idA i.idB i.params).outboundFor x = .ok ob := by
    rw [← h.ob_eq]
    exact outboundFor_congr (i := blank i.side i.pw i.idA i.idB i.params) (i' := i) rfl rfl
      h.pwScalar.symm x
  rw [fromDict_dictOf_same _ _ hA hB hpw, restoreTail_dictOf hj bxs hdec] at hfs
  simp only [ne_eq, not_true_eq_false, if_false, hob] at hfs
  have hss : SameSession i { blank i.side i.pw i.idA i.idB i.params with
      started := true, xyScalar := some x, outbound := some ob } :=
    ⟨rfl, rfl, rfl, fun hS => by simp [blank, Inst.new, hS], rfl, h.pwScalar, h.started,
      h.finished, h.xy, h.outbound⟩
  refine ⟨_, hfs, hss, hss.ready h, rfl, rfl, fun hS => by simp [blank, Inst.new, hS], ?_,
    fun m => (finish_congr hss m).symm⟩
  rw [← serialize_congr hss]; exact hs

/-- with `hash_params()` total, `serialize()` of a ready session succeeds -/
theorem serialize_succeeds (S : GroupSpec G) {i : Inst G} {x : ℤ} {ob : Bytes}
    (h : Ready S i x ob) {a0 : G.Elem} (ha : G.arb [] = .ok a0) : ∃ s, i.serialize = .ok s := by
  obtain ⟨s0, -, -, -, hh⟩ := hashParams_ok S i ha
  obtain ⟨xs, -, -, -, -, hs⟩ := serialize_format S h hh
  exact ⟨_, hs⟩

/-- any number of serialise/restore round trips (same class, same parameters) -/
inductive RestoredFrom : Inst G → Inst G → Prop
  | refl (i : Inst G) : RestoredFrom i i
  | step {i j j' : Inst G} {s : Bytes} : RestoredFrom i j → j.serialize = .ok s →
      fromSerialized j.side s j.params = .ok j' → RestoredFrom i j'

/-- **C08, iterated.**  After any number of round trips the session is still the same session. -/
theorem RestoredFrom.sameSession (S : GroupSpec G) {i i' : Inst G} {x : ℤ} {ob : Bytes}
    (h : Ready S i x ob) (hA : IsBytes i.idA) (hB : IsBytes i.idB) (hpw : IsBytes i.pw)
    (hr : RestoredFrom i i') : SameSession i i' ∧ IsBytes i'.idB := by
  induction hr with
  | refl => exact ⟨SameSession.refl _, hB⟩
  | @step j j' s _ hser hfs ih =>
    obtain ⟨hss, hjB⟩ := ih
    have hj := hss.ready h
    obtain ⟨j₀, hfs₀, hss₀, -, -, -, hS, -, -⟩ :=
      restore_transparent S hj (hss.idA ▸ hA) hjB (hss.pw ▸ hpw) hser
    rw [hfs] at hfs₀
    injection hfs₀ with hfs₀
    subst hfs₀
    refine ⟨hss.trans hss₀, ?_⟩
    by_cases hside : j.side = .S
    · rw [hS hside]; exact isBytes_nil
    · rw [← hss₀.idB hside]; exact hjB

theorem RestoredFrom.finish_eq (S : GroupSpec G) {i i' : Inst G} {x : ℤ} {ob : Bytes}
    (h : Ready S i x ob) (hA : IsBytes i.idA) (hB : IsBytes i.idB) (hpw : IsBytes i.pw)
    (hr : RestoredFrom i i') :
    Ready S i' x ob ∧ (∀ m, (i'.finish m).2 = (i.finish m).2) ∧ i'.serialize = i.serialize := by
  have hss := (hr.sameSession S h hA hB hpw).1
  exact ⟨hss.ready h, fun m => (finish_congr hss m).symm, (serialize_congr hss).symm⟩

/-! ### C09: what a successful restore has checked -/

/-- **C09 (checks).**  If `from_serialized` of the class `side` succeeds on *any* input under
parameters `P'`, the input is a JSON object whose `"side"` member is that class's side byte and
whose `"hashed_params"` member is the fingerprint of `P'` as computed by the restored session. -/
theorem restore_checks {side : Side} {data : Bytes} {P' : Params G} {i' : Inst G}
    (h : fromSerialized side data P' = .ok i') :
    ∃ d hp, Json.parse data = some d ∧
      getStr d k_side = .ok side.byte ∧
      getStr d k_hashed_params = .ok hp ∧ i'.hashParams = .ok hp ∧
      i'.side = side ∧ i'.params = P' := by
  obtain ⟨d, pw, idA, idB, hp, xb, x, ob, h1, h2, h3, -, -, -, -, -, h4, -, rfl⟩ :=
    fromSerialized_shape h
  exact ⟨d, hp, h1, h2, h3, h4, rfl, rfl⟩

/-- **C09 (wrong class).**  Serialised state of one class handed to another class. -/
theorem restore_wrong_side (S : GroupSpec G) {i : Inst G} {x : ℤ} {ob s : Bytes}
    (h : Ready S i x ob) (hA : IsBytes i.idA) (hB : IsBytes i.idB) (hpw : IsBytes i.pw)
    (hs : i.serialize = .ok s) {side : Side} (hne : side ≠ i.side) (P' : Params G) :
    fromSerialized side s P' =
      .error (if i.side = .S then .other .KeyError else .WrongSideSerialized) := by
  obtain ⟨hp, xs, -, -, -, -, -, -, -, hfs⟩ := fromSerialized_of_ready S h hA hB hpw hs side P'
  rw [hfs, fromDict_dictOf_wrong_side hne P' hA hB hpw]

/-- **C09 (wrong parameters).**  Same class, other parameters: if the fingerprints differ the
restore fails with `WrongGroupError`. -/
theorem restore_wrong_params (S : GroupSpec G) {i : Inst G} {x : ℤ} {ob s hp hp' : Bytes}
    (h : Ready S i x ob) (hA : IsBytes i.idA) (hB : IsBytes i.idB) (hpw : IsBytes i.pw)
    (hs : i.serialize = .ok s) (P' : Params G) (hh : i.hashParams = .ok hp)
    (hh' : (blank i.side i.pw i.idA i.idB P').hashParams = .ok hp') (hne : hp ≠ hp') :
    fromSerialized i.side s P' = .error .WrongGroupError := by
  obtain ⟨hp₀, xs, hh₀, -, -, bxs, hdec, -, -, hfs⟩ :=
    fromSerialized_of_ready S h hA hB hpw hs i.side P'
  rw [hh] at hh₀; injection hh₀ with hh₀; subst hh₀
  rw [hfs, fromDict_dictOf_same _ _ hA hB hpw, restoreTail_dictOf hh' bxs hdec]
  simp [hne]

/-- fixed-width splitting of two fingerprint strings -/
theorem append3_inj {a b c a' b' c' : Bytes} (ha : a.length = a'.length) (hb : b.length = b'.length)
    (h : a ++ b ++ c = a' ++ b' ++ c') : a = a' ∧ b = b' ∧ c = c' := by
  simp only [List.append_assoc] at h
  obtain ⟨e1, h⟩ := List.append_inj h ha
  obtain ⟨e2, e3⟩ := List.append_inj h hb
  exact ⟨e1, e2, e3⟩

/-- **C09 (what the fingerprint binds).**  Two sessions, possibly over different group objects
with equal element and scalar widths, of the same kind (both symmetric or both not): equal
`hash_params()` outputs exhibit a SHA-256 collision or force equal encodings of
`arbitrary_element(b"")`, of `password_to_scalar(b"")` and of the blinding elements (`M`,`N` resp.
`S`).  (The generator and the group order enter only through these; cf. finding K2.) -/
theorem fingerprint_binds {G₁ G₂ : Group} (S₁ : GroupSpec G₁) (S₂ : GroupSpec G₂)
    {i₁ : Inst G₁} {i₂ : Inst G₂} (hP₁ : ValidParams S₁ i₁.params) (hP₂ : ValidParams S₂ i₂.params)
    (hel : G₁.elemSize = G₂.elemSize) (hsc : G₁.scalarSize = G₂.scalarSize)
    (hside : i₁.side = .S ↔ i₂.side = .S) {hp : Bytes}
    (h₁ : i₁.hashParams = .ok hp) (h₂ : i₂.hashParams = .ok hp) :
    Collision ∨ ∃ a₁ a₂ s₁ s₂, G₁.arb [] = .ok a₁ ∧ G₂.arb [] = .ok a₂ ∧
      G₁.scalarEnc (G₁.p2s []) = .ok s₁ ∧ G₂.scalarEnc (G₂.p2s []) = .ok s₂ ∧
      G₁.enc a₁ = G₂.enc a₂ ∧ s₁ = s₂ ∧
      (i₁.side = .S → G₁.enc i₁.params.S = G₂.enc i₂.params.S) ∧
      (i₁.side ≠ .S → G₁.enc i₁.params.M = G₂.enc i₂.params.M ∧
                      G₁.enc i₁.params.N = G₂.enc i₂.params.N) := by
  obtain ⟨a₁, s₁, ha₁, hs₁, e₁⟩ := hashParams_inv h₁
  obtain ⟨a₂, s₂, ha₂, hs₂, e₂⟩ := hashParams_inv h₂
  have hsha := hexlify_injective (sha256_isBytes _) (sha256_isBytes _) (e₁.symm.trans e₂)
  rcases sha256_inj_or hsha with hc | hpieces
  · exact Or.inl hc
  refine Or.inr ⟨a₁, a₂, s₁, s₂, ha₁, ha₂, hs₁, hs₂, ?_⟩
  have la₁ := (S₁.enc_len a₁ (S₁.arb_valid [] a₁ ha₁)).1
  have la₂ := (S₂.enc_len a₂ (S₂.arb_valid [] a₂ ha₂)).1
  have ls₁ : s₁.length = G₁.scalarSize := by
    obtain ⟨b, hb, hl, -⟩ := S₁.scalar_rt (G₁.p2s []) (S₁.p2s_range []).1 (S₁.p2s_range []).2
    rw [hs₁] at hb; injection hb with hb; rw [hb]; exact hl
  have ls₂ : s₂.length = G₂.scalarSize := by
    obtain ⟨b, hb, hl, -⟩ := S₂.scalar_rt (G₂.p2s []) (S₂.p2s_range []).1 (S₂.p2s_range []).2
    rw [hs₂] at hb; injection hb with hb; rw [hb]; exact hl
  have la : (G₁.enc a₁).length = (G₂.enc a₂).length := by rw [la₁, la₂, hel]
  have ls : s₁.length = s₂.length := by rw [ls₁, ls₂, hsc]
  by_cases hS : i₁.side = .S
  · have hS₂ := hside.mp hS
    rw [hS, hS₂] at hpieces
    simp only [fpPieces] at hpieces
    obtain ⟨e1, e2, e3⟩ := append3_inj la ls hpieces
    exact ⟨e1, e2, fun _ => e3, fun h => absurd hS h⟩
  · have hS₂ : i₂.side ≠ .S := fun h => hS (hside.mpr h)
    have p₁ : fpPieces i₁.side i₁.params a₁ s₁
        = G₁.enc a₁ ++ s₁ ++ (G₁.enc i₁.params.M ++ G₁.enc i₁.params.N) := by
      unfold fpPieces; revert hS; cases i₁.side <;> simp
    have p₂ : fpPieces i₂.side i₂.params a₂ s₂
        = G₂.enc a₂ ++ s₂ ++ (G₂.enc i₂.params.M ++ G₂.enc i₂.params.N) := by
      unfold fpPieces; revert hS₂; cases i₂.side <;> simp
    rw [p₁, p₂] at hpieces
    obtain ⟨e1, e2, e3⟩ := append3_inj la ls hpieces
    have lM : (G₁.enc i₁.params.M).length = (G₂.enc i₂.params.M).length := by
      rw [(S₁.enc_len _ hP₁.vM).1, (S₂.enc_len _ hP₂.vM).1, hel]
    obtain ⟨e4, e5⟩ := List.append_inj e3 lM
    exact ⟨e1, e2, fun h => absurd h hS, fun _ => ⟨e4, e5⟩⟩

/-! ### restoring under other (equivalent) parameters -/

theorem finalize_congr_fields {i i' : Inst G} (hs : i.side = i'.side) (hpw : i.pw = i'.pw)
    (hA : i.idA = i'.idA) (hB : i.side ≠ .S → i.idB = i'.idB) (inb ob K : Bytes) :
    i.finalize inb ob K = i'.finalize inb ob K := by
  unfold Inst.finalize
  rw [← hs, ← hA, ← hpw]
  cases hside : i.side
  · simp only []; rw [hB (by simp [hside])]
  · simp only []; rw [hB (by simp [hside])]
  · rfl

/-- two ready sessions with the same secret, message, password and identities, whose unblinding
elements have the same abstract value, finish alike on every byte string -/
theorem finish_eq_of_abs (S : GroupSpec G) {i i' : Inst G} {x : ℤ} {ob : Bytes}
    (h : Ready S i x ob) (h' : Ready S i' x ob) (hs : i.side = i'.side) (hpw : i.pw = i'.pw)
    (hA : i.idA = i'.idA) (hB : i.side ≠ .S → i.idB = i'.idB)
    (hU : S.abs (unblinding i.params i.side) = S.abs (unblinding i'.params i'.side))
    {m : Bytes} (hm : IsBytes m) : (i.finish m).2 = (i'.finish m).2 := by
  cases hx : extractMessage i.side m with
  | error err =>
    rw [finish_extract_error i h.finished hx, finish_extract_error i' h'.finished (hs ▸ hx)]
  | ok body =>
    have hx' : extractMessage i'.side m = .ok body := hs ▸ hx
    have hb : IsBytes body := by
      have := extractMessage_ok hx
      rw [this] at hm
      exact (isBytes_append.mp hm).2
    obtain ⟨a1, a2, a3⟩ := finish_ready S h hx hb
    obtain ⟨b1, b2, b3⟩ := finish_ready S h' hx' hb
    cases hd : G.dec body with
    | error err => rw [a1 err hd, b1 err hd]
    | ok e =>
      by_cases he : G.enc e = ob
      · rw [a2 e hd he, b2 e hd he]
      · obtain ⟨K, vK, aK, hK⟩ := a3 e hd he
        obtain ⟨K', vK', aK', hK'⟩ := b3 e hd he
        have : G.enc K = G.enc K' := by
          rw [S.enc_inj K K' vK vK', aK, aK', keyAbs, keyAbs, hU, hpw]
        rw [hK, hK', this, finalize_congr_fields hs hpw hA hB]

/-- core of the next two theorems: only the abstract values of this side's blinding and unblinding
elements matter -/
theorem restored_core (S : GroupSpec G) {i i' : Inst G} {x : ℤ} {ob s : Bytes}
    (h : Ready S i x ob) (hA : IsBytes i.idA) (hB : IsBytes i.idB) (hpw : IsBytes i.pw)
    (hs : i.serialize = .ok s) {P' : Params G} (hP' : ValidParams S P')
    (hBl : S.abs (blinding P' i.side) = S.abs (blinding i.params i.side))
    (hUn : S.abs (unblinding P' i.side) = S.abs (unblinding i.params i.side))
    (hr : fromSerialized i.side s P' = .ok i') :
    i'.outbound = some ob ∧ Ready S i' x ob ∧ i'.pw = i.pw ∧ i'.idA = i.idA ∧
      (i.side ≠ .S → i'.idB = i.idB) ∧
      ∀ m, IsBytes m → (i'.finish m).2 = (i.finish m).2 := by
  obtain ⟨hp, xs, hh, -, -, bxs, hdec, -, -, hfs⟩ :=
    fromSerialized_of_ready S h hA hB hpw hs i.side P'
  rw [hr, fromDict_dictOf_same _ _ hA hB hpw] at hfs
  obtain ⟨hp', xb, x', ob', g1, g2, g3, g4, g5, rfl⟩ := restoreTail_inv hfs.symm
  rw [dictOf_xs _ _ _ _ _ _ bxs] at g3
  injection g3 with g3; subst g3
  rw [hdec] at g4; injection g4 with g4; subst g4
  -- the recomputed outbound message is the same encoding
  have hPb : ValidParams S (blank i.side i.pw i.idA i.idB P').params := hP'
  obtain ⟨e', v', a', he'⟩ := outboundFor_spec S (blank i.side i.pw i.idA i.idB P') hPb x
  obtain ⟨e, v, a, he, -, -⟩ := h.ob_elem
  have habs : S.abs e' = S.abs e := by
    rw [a', a]
    show msgAbs S P' i.side (G.p2s i.pw) x = _
    unfold msgAbs
    rw [hBl]
  have hobeq : ob' = ob := by
    rw [g5] at he'; injection he' with he'
    rw [he', he]; exact (S.enc_inj e' e v' v).mpr habs
  subst hobeq
  have hready : Ready S { blank i.side i.pw i.idA i.idB P' with
      started := true, xyScalar := some x, outbound := some ob' } x ob' :=
    ⟨hP', rfl, rfl, rfl, rfl, h.range, rfl, by rw [← g5]; exact outboundFor_congr rfl rfl rfl x⟩
  refine ⟨rfl, hready, rfl, rfl, fun hs' => by simp [blank, Inst.new, hs'], fun m hm => ?_⟩
  refine finish_eq_of_abs S hready h rfl rfl rfl (fun hs' => ?_) hUn hm
  have : i.side ≠ .S := hs'
  simp [blank, Inst.new, this]

/-- **C09 (equivalent parameters).**  If the state of a ready session is restored under
parameters whose blinding elements have the same encodings, the restored session has the same
outbound message and finishes to the same result on every byte string. -/
theorem restored_equals_original (S : GroupSpec G) {i i' : Inst G} {x : ℤ} {ob s : Bytes}
    (h : Ready S i x ob) (hA : IsBytes i.idA) (hB : IsBytes i.idB) (hpw : IsBytes i.pw)
    (hs : i.serialize = .ok s) {P' : Params G} (hP' : ValidParams S P')
    (hM : G.enc P'.M = G.enc i.params.M) (hN : G.enc P'.N = G.enc i.params.N)
    (hS : G.enc P'.S = G.enc i.params.S)
    (hr : fromSerialized i.side s P' = .ok i') :
    i'.outbound = some ob ∧ Ready S i' x ob ∧ i'.pw = i.pw ∧ i'.idA = i.idA ∧
      (i.side ≠ .S → i'.idB = i.idB) ∧
      ∀ m, IsBytes m → (i'.finish m).2 = (i.finish m).2 := by
  have aM := (S.enc_inj _ _ hP'.vM h.params.vM).mp hM
  have aN := (S.enc_inj _ _ hP'.vN h.params.vN).mp hN
  have aS := (S.enc_inj _ _ hP'.vS h.params.vS).mp hS
  refine restored_core S h hA hB hpw hs hP' ?_ ?_ hr
  · cases i.side <;> simp only [blinding, aM, aN, aS]
  · cases i.side <;> simp only [unblinding, aM, aN, aS]

/-- **C09, combined.**  A restore of a ready session's state under *any* valid parameters of the
same group object either fails, or exhibits a SHA-256 collision, or yields a session with the same
outbound message and the same `finish()` results. -/
theorem restore_other_params (S : GroupSpec G) {i i' : Inst G} {x : ℤ} {ob s : Bytes}
    (h : Ready S i x ob) (hA : IsBytes i.idA) (hB : IsBytes i.idB) (hpw : IsBytes i.pw)
    (hs : i.serialize = .ok s) {P' : Params G} (hP' : ValidParams S P')
    (hr : fromSerialized i.side s P' = .ok i') :
    Collision ∨ (i'.outbound = some ob ∧ ∀ m, IsBytes m → (i'.finish m).2 = (i.finish m).2) := by
  obtain ⟨d, hp', hparse, -, hhp, hh', hside', hpar'⟩ := restore_checks hr
  obtain ⟨hp, xs, hh, -, -, bxs, -, hser, hc, -⟩ :=
    fromSerialized_of_ready S h hA hB hpw hs i.side P'
  -- the dictionary parsed is the one written
  have hd : d = dictOf i.side hp i.idA i.idB i.pw xs := by
    rw [hser, parse_dumps hc] at hparse; injection hparse with hparse; exact hparse.symm
  rw [hd, dictOf_hp] at hhp
  injection hhp with hhp; subst hhp
  have hvalid' : ValidParams S i'.params := hpar' ▸ hP'
  rcases fingerprint_binds S S h.params hvalid' rfl rfl (by rw [hside']) hh hh' with hcoll | hb
  · exact Or.inl hcoll
  obtain ⟨a₁, a₂, s₁, s₂, -, -, -, -, -, -, bS, bMN⟩ := hb
  rw [hpar'] at bS bMN
  right
  -- only the blinding elements of this side's kind are bound; the others are not used
  have key : S.abs (blinding P' i.side) = S.abs (blinding i.params i.side) ∧
      S.abs (unblinding P' i.side) = S.abs (unblinding i.params i.side) := by
    by_cases hS : i.side = .S
    · have aS := (S.enc_inj _ _ h.params.vS hP'.vS).mp (bS hS)
      rw [hS]; exact ⟨aS.symm, aS.symm⟩
    · obtain ⟨bM, bN⟩ := bMN hS
      have aM := (S.enc_inj _ _ h.params.vM hP'.vM).mp bM
      have aN := (S.enc_inj _ _ h.params.vN hP'.vN).mp bN
      revert hS; cases i.side <;> simp [blinding, unblinding, aM, aN]
  obtain ⟨r1, -, -, -, -, r2⟩ := restored_core S h hA hB hpw hs hP' key.1 key.2 hr
  exact ⟨r1, r2⟩

/-! ### C10: accepted formats -/

/-- `_deserialize_from_dict` only looks members up by key: the member order is irrelevant -/
theorem fromDict_perm {d d' : Json.Dict} (hn : (keys d).Nodup) (hp : d'.Perm d) (side : Side)
    (P' : Params G) : fromDict side d' P' = fromDict side d P' := by
  unfold fromDict restoreTail
  simp only [getStr_perm hn hp, getHex_perm hn hp]

/-- **C10 (accepted formats).**  Any reordering of the members `serialize()` wrote, rendered with
any JSON whitespace, is treated by `from_serialized` (of any class, under any parameters) exactly
as `serialize()`'s own output. -/
theorem accepts_released_format (S : GroupSpec G) {i : Inst G} {x : ℤ} {ob s : Bytes}
    (h : Ready S i x ob) (hA : IsBytes i.idA) (hB : IsBytes i.idB) (hpw : IsBytes i.pw)
    (hs : i.serialize = .ok s) :
    ∃ hp xs, i.hashParams = .ok hp ∧ G.scalarEnc x = .ok xs ∧
      s = Json.dumps (dictOf i.side hp i.idA i.idB i.pw xs) ∧
      ∀ (d' : Json.Dict) (w0 w1 : Bytes) (ws : Nat → PairWs) (side : Side) (P' : Params G),
        d'.Perm (dictOf i.side hp i.idA i.idB i.pw xs) → IsWs w0 → IsWs w1 → (∀ n, (ws n).Ok) →
        fromSerialized side (dumpsWs w0 w1 ws d') P' = fromSerialized side s P' := by
  obtain ⟨hp, xs, hh, hxs, -, bxs, -, hser, hc, -⟩ :=
    fromSerialized_of_ready S h hA hB hpw hs i.side i.params
  refine ⟨hp, xs, hh, hxs, hser, fun d' w0 w1 ws side P' hperm h0 h1 hws => ?_⟩
  have hn := dictOf_keys_nodup i.side hp i.idA i.idB i.pw xs
  have hc' : CleanDict d' := fun p hp' => hc p (hperm.mem_iff.mp hp')
  rw [fromSerialized_dumpsWs h0 h1 hws hc', fromDict_perm hn hperm, hser, dumps_eq_dumpsWs,
    fromSerialized_dumpsWs (by intro c hc; cases hc) (by intro c hc; cases hc) stdWs_ok hc]

end Spake2Verif

section Audit
open Spake2Verif
#print axioms serialize_entropy
#print axioms serialize_format
#print axioms serialize_printable
#print axioms serialize_succeeds
#print axioms restore_transparent
#print axioms RestoredFrom.sameSession
#print axioms RestoredFrom.finish_eq
#print axioms restore_checks
#print axioms restore_wrong_side
#print axioms restore_wrong_params
#print axioms fingerprint_binds
#print axioms restored_equals_original
#print axioms restore_other_params
#print axioms accepts_released_format
end Audit
