import Spake2Model.Gen.Ed25519Arith
import Spake2Verif.Basic.PyLemmas2
import Spake2Verif.Spec.Edwards
import Mathlib.Data.ZMod.Basic
import Mathlib.Algebra.Field.ZMod
import Mathlib.FieldTheory.Finite.Basic
import Mathlib.Tactic.Tauto

/-!
# The generated extended-coordinate kernels compute the Edwards group law

`Rep C p P`: the integer quadruple `p = (X, Y, Z, T)` (tuple order of the Python code)
represents the curve point `P` over `ZMod Q`:  `Z ≠ 0`, `X = xZ`, `Y = yZ`, `T = xyZ`.

Everything is stated for a general prime `Q`, and integer parameters `d`, `I` whose casts are the
parameters of an `EdCurve (ZMod Q)`; nothing here is specific to the Ed25519 numbers.
-/
set_option linter.unusedSimpArgs false
set_option linter.unusedTactic false
set_option linter.unreachableTactic false
namespace Spake2Verif.EdBridge
open Spake2Model Spake2Model.Gen.Ed Spake2Verif.Edw

variable {Q : ℕ} [Fact Q.Prime]

/-- the curve over `ZMod Q` determined by integer parameters -/
def mkCurve (Q : ℕ) [Fact Q.Prime] (d I : ℤ) (hQ : 2 < Q)
    (hI : ((I : ZMod Q))^2 = -1) (hd : ∀ s : ZMod Q, s^2 ≠ (d : ZMod Q)) : EdCurve (ZMod Q) where
  d := d
  i := I
  hi := hI
  hd := hd
  h2 := by
    intro h
    have h' : ((2:ℕ) : ZMod Q) = 0 := by exact_mod_cast h
    rw [ZMod.natCast_eq_zero_iff] at h'
    have := Nat.le_of_dvd (by norm_num) h'
    omega

@[simp] theorem mkCurve_d (d I : ℤ) (hQ : 2 < Q) (hI) (hd) : (mkCurve Q d I hQ hI hd).d = (d : ZMod Q) := rfl

/-- extended coordinates `(X,Y,Z,T)` represent the curve point `P` -/
def Rep (C : EdCurve (ZMod Q)) (p : ℤ × ℤ × ℤ × ℤ) (P : Point C) : Prop :=
  (p.2.2.1 : ZMod Q) ≠ 0 ∧ (p.1 : ZMod Q) = P.x * p.2.2.1 ∧ (p.2.1 : ZMod Q) = P.y * p.2.2.1
    ∧ (p.2.2.2 : ZMod Q) = P.x * P.y * p.2.2.1

/-- the part of `Rep` that does not mention `T` (all that `double_element` and
`xform_extended_to_affine` use) -/
def RepXYZ (C : EdCurve (ZMod Q)) (p : ℤ × ℤ × ℤ × ℤ) (P : Point C) : Prop :=
  (p.2.2.1 : ZMod Q) ≠ 0 ∧ (p.1 : ZMod Q) = P.x * p.2.2.1 ∧ (p.2.1 : ZMod Q) = P.y * p.2.2.1

theorem Rep.xyz {C : EdCurve (ZMod Q)} {p : ℤ × ℤ × ℤ × ℤ} {P : Point C} (h : Rep C p P) :
    RepXYZ C p P := ⟨h.1, h.2.1, h.2.2.1⟩

/-- all four coordinates lie in `[0, Q)` -/
def Reduced (Q : ℕ) (p : ℤ × ℤ × ℤ × ℤ) : Prop :=
  (0 ≤ p.1 ∧ p.1 < Q) ∧ (0 ≤ p.2.1 ∧ p.2.1 < Q) ∧ (0 ≤ p.2.2.1 ∧ p.2.2.1 < Q)
    ∧ (0 ≤ p.2.2.2 ∧ p.2.2.2 < Q)

theorem Q_pos : (0 : ℤ) < (Q : ℤ) := by
  have := (Fact.out : Q.Prime).pos; exact_mod_cast this

theorem Q_ne_zero : ((Q : ℕ) : ℤ) ≠ 0 := ne_of_gt Q_pos

theorem two_le_Q : (2 : ℤ) ≤ (Q : ℤ) := by
  have := (Fact.out : Q.Prime).two_le; exact_mod_cast this

/-- cast of `Int.emod a Q` -/
@[simp] theorem cast_emod (a : ℤ) : ((Int.emod a (Q : ℤ) : ℤ) : ZMod Q) = (a : ZMod Q) :=
  ZMod.intCast_mod a Q

theorem cast_emod_mul (a b : ℤ) :
    ((Int.emod (a * b) (Q : ℤ) : ℤ) : ZMod Q) = (a : ZMod Q) * (b : ZMod Q) := by
  rw [cast_emod, Int.cast_mul]

theorem emod_reduced (a : ℤ) : 0 ≤ Int.emod a (Q : ℤ) ∧ Int.emod a (Q : ℤ) < (Q : ℤ) :=
  ⟨Int.emod_nonneg a Q_ne_zero, Int.emod_lt_of_pos a Q_pos⟩

/-- a reduced integer is determined by its residue -/
theorem eq_val_of_cast_eq {a : ℤ} {z : ZMod Q} (h0 : 0 ≤ a) (h1 : a < Q) (h : (a : ZMod Q) = z) :
    a = (z.val : ℤ) := by
  have : NeZero Q := ⟨(Fact.out : Q.Prime).ne_zero⟩
  rw [← h, ZMod.val_intCast, Int.emod_eq_of_lt h0 h1]

/-- The common shape of the three hwcd formulas: `X3 = E·F, Y3 = G·H, Z3 = F·G, T3 = E·H`
with `x3 = E/G`, `y3 = H/F`. -/
theorem rep_of_EFGH {C : EdCurve (ZMod Q)} {X3 Y3 Z3 T3 : ℤ} {P : Point C}
    {nx dx ny dy E F G H : ZMod Q}
    (hx : P.x = nx / dx) (hy : P.y = ny / dy) (hdx : dx ≠ 0) (hdy : dy ≠ 0)
    (hX : (X3 : ZMod Q) = E * F) (hY : (Y3 : ZMod Q) = G * H) (hZ : (Z3 : ZMod Q) = F * G)
    (hT : (T3 : ZMod Q) = E * H)
    (hE : E * dx = nx * G) (hH : H * dy = ny * F) (hF : F ≠ 0) (hG : G ≠ 0) :
    Rep C (X3, Y3, Z3, T3) P := by
  have ex : P.x = E / G := by rw [hx, div_eq_div_iff hdx hG]; linear_combination -hE
  have ey : P.y = H / F := by rw [hy, div_eq_div_iff hdy hF]; linear_combination -hH
  refine ⟨?_, ?_, ?_, ?_⟩
  · show (Z3 : ZMod Q) ≠ 0
    rw [hZ]; exact mul_ne_zero hF hG
  · show (X3 : ZMod Q) = P.x * Z3
    rw [hX, hZ, ex]; field_simp
  · show (Y3 : ZMod Q) = P.y * Z3
    rw [hY, hZ, ey]; field_simp
  · show (T3 : ZMod Q) = P.x * P.y * Z3
    rw [hT, hZ, ex, ey]; field_simp

/-- `rep_of_EFGH` for an arbitrary quadruple (stated with projections), so that the bridge lemmas
below never have to match the *syntactic* shape of the generated code: the casts of the four
generated coordinates are compared with `E·F, G·H, F·G, E·H` by `push_cast; ring`, where
`E F G H` are written down here, semantically, in terms of the represented points. -/
theorem rep_of_EFGH' {C : EdCurve (ZMod Q)} {p : ℤ × ℤ × ℤ × ℤ} {P : Point C}
    {nx dx ny dy : ZMod Q} (E F G H : ZMod Q)
    (hx : P.x = nx / dx) (hy : P.y = ny / dy) (hdx : dx ≠ 0) (hdy : dy ≠ 0)
    (hX : (p.1 : ZMod Q) = E * F) (hY : (p.2.1 : ZMod Q) = G * H)
    (hZ : (p.2.2.1 : ZMod Q) = F * G) (hT : (p.2.2.2 : ZMod Q) = E * H)
    (hE : E * dx = nx * G) (hH : H * dy = ny * F) (hF : F ≠ 0) (hG : G ≠ 0) :
    Rep C p P := by
  obtain ⟨X3, Y3, Z3, T3⟩ := p
  exact rep_of_EFGH hx hy hdx hdy hX hY hZ hT hE hH hF hG

/-- the extended coordinates of the neutral element, however they are written -/
theorem zero_rep_literal (C : EdCurve (ZMod Q)) :
    Rep C ((0 : ℤ), (1 : ℤ), (1 : ℤ), (0 : ℤ)) (0 : Point C) ∧
      Reduced Q ((0 : ℤ), (1 : ℤ), (1 : ℤ), (0 : ℤ)) := by
  have := two_le_Q (Q := Q)
  refine ⟨⟨?_, ?_, ?_, ?_⟩, ⟨?_, ?_, ?_, ?_⟩⟩ <;> simp <;> omega

/-- normalise the cast to `ZMod Q` of an integer expression of the generated code: casts are pushed
to the leaves and every inner `% Q` disappears -/
macro "gen_cast" : tactic => `(tactic| push_cast [cast_emod])

section
variable (C : EdCurve (ZMod Q))

/-! ## `xform_affine_to_extended` -/

theorem xform_affine_to_extended_reduced (pt : ℤ × ℤ) :
    Reduced Q (xform_affine_to_extended (Q : ℤ) pt) := by
  obtain ⟨x, y⟩ := pt
  have := two_le_Q (Q := Q)
  refine ⟨emod_reduced _, emod_reduced _, ?_, emod_reduced _⟩
  show (0 : ℤ) ≤ 1 ∧ (1 : ℤ) < Q
  omega

/-- integer affine coordinates of a curve point go to a representative of that point -/
theorem xform_affine_to_extended_rep (pt : ℤ × ℤ) (P : Point C)
    (hx : (pt.1 : ZMod Q) = P.x) (hy : (pt.2 : ZMod Q) = P.y) :
    Rep C (xform_affine_to_extended (Q : ℤ) pt) P ∧
      Reduced Q (xform_affine_to_extended (Q : ℤ) pt) := by
  refine ⟨?_, xform_affine_to_extended_reduced pt⟩
  obtain ⟨x, y⟩ := pt
  simp only at hx hy
  refine ⟨?_, ?_, ?_, ?_⟩ <;> simp only [xform_affine_to_extended] <;> gen_cast <;>
    (try simp only [hx, hy]) <;> (try ring)
  exact one_ne_zero

/-- the identity `xform_affine_to_extended((0,1))` -/
theorem xform_zero_rep :
    Rep C (xform_affine_to_extended (Q : ℤ) ((0 : ℤ), (1 : ℤ))) (0 : Point C) ∧
      Reduced Q (xform_affine_to_extended (Q : ℤ) ((0 : ℤ), (1 : ℤ))) :=
  xform_affine_to_extended_rep C _ _ (by simp) (by simp)

/-- `xform_affine_to_extended((0,1))` is the literal `(0, 1, 1, 0)` -/
theorem xform_zero_eq :
    xform_affine_to_extended (Q : ℤ) ((0 : ℤ), (1 : ℤ)) = ((0 : ℤ), (1 : ℤ), (1 : ℤ), (0 : ℤ)) := by
  have h2 := two_le_Q (Q := Q)
  have e0 : Int.emod 0 (Q : ℤ) = 0 := Int.zero_emod _
  have e1 : Int.emod 1 (Q : ℤ) = 1 := Int.emod_eq_of_lt (by omega) (by omega)
  simp only [xform_affine_to_extended, mul_one, zero_mul, mul_zero, e0, e1]

/-! ## `inv` and `xform_extended_to_affine` -/

/-- `inv` is Fermat inversion -/
theorem inv_cast (z : ℤ) (hz : (z : ZMod Q) ≠ 0) : ((inv (Q : ℤ) z : ℤ) : ZMod Q) = (z : ZMod Q)⁻¹ := by
  unfold inv
  have h2 := two_le_Q (Q := Q)
  rw [Py.pow3_spec z ((Q : ℤ) - 2) Q (by omega) Q_pos]
  have e : ((z ^ ((Q : ℤ) - 2).toNat % (Q : ℤ) : ℤ) : ZMod Q) = (z : ZMod Q) ^ ((Q : ℤ) - 2).toNat := by
    rw [ZMod.intCast_mod]; push_cast; rfl
  rw [e]
  have hn : ((Q : ℤ) - 2).toNat = Q - 2 := by omega
  rw [hn]
  have hf : (z : ZMod Q) ^ (Q - 1) = 1 := ZMod.pow_card_sub_one_eq_one hz
  have hs : Q - 1 = (Q - 2) + 1 := by
    have := (Fact.out : Q.Prime).two_le; omega
  rw [hs, pow_succ] at hf
  exact eq_inv_of_mul_eq_one_left hf

theorem inv_reduced (z : ℤ) : 0 ≤ inv (Q : ℤ) z ∧ inv (Q : ℤ) z < Q :=
  ⟨Py.pow3_nonneg _ _ _, Py.pow3_lt _ _ _ Q_pos⟩

/-- `xform_extended_to_affine` returns the canonical (reduced) affine coordinates -/
theorem xform_extended_to_affine_rep (p : ℤ × ℤ × ℤ × ℤ) (P : Point C) (r : RepXYZ C p P) :
    xform_extended_to_affine (Q : ℤ) p = ((P.x.val : ℤ), (P.y.val : ℤ)) := by
  obtain ⟨X, Y, Z, T⟩ := p
  obtain ⟨hz, hx, hy⟩ := r
  simp only at hz hx hy
  simp only [xform_extended_to_affine]
  have hi := inv_cast Z hz
  refine Prod.ext ?_ ?_
  · apply eq_val_of_cast_eq (emod_reduced _).1 (emod_reduced _).2
    gen_cast
    rw [hi, hx]; field_simp
  · apply eq_val_of_cast_eq (emod_reduced _).1 (emod_reduced _).2
    gen_cast
    rw [hi, hy]; field_simp

/-! ## `add_elements` (hwcd-3, unified) -/

theorem add_elements_reduced (d : ℤ) (p1 p2 : ℤ × ℤ × ℤ × ℤ) :
    Reduced Q (add_elements (Q : ℤ) d p1 p2) := by
  obtain ⟨X1, Y1, Z1, T1⟩ := p1
  obtain ⟨X2, Y2, Z2, T2⟩ := p2
  exact ⟨emod_reduced _, emod_reduced _, emod_reduced _, emod_reduced _⟩

theorem add_elements_rep' (d : ℤ) (hd : (d : ZMod Q) = C.d) (p1 p2 : ℤ × ℤ × ℤ × ℤ)
    (P1 P2 : Point C) (r1 : Rep C p1 P1) (r2 : Rep C p2 P2) :
    Rep C (add_elements (Q : ℤ) d p1 p2) (P1 + P2) := by
  obtain ⟨X1, Y1, Z1, T1⟩ := p1
  obtain ⟨X2, Y2, Z2, T2⟩ := p2
  obtain ⟨hz1, hx1, hy1, ht1⟩ := r1
  obtain ⟨hz2, hx2, hy2, ht2⟩ := r2
  simp only at hz1 hx1 hy1 ht1 hz2 hx2 hy2 ht2
  obtain ⟨hp, hm⟩ := denoms_ne (Point.complete P1 P2)
  have h2z : (2 : ZMod Q) * Z1 * Z2 ≠ 0 := mul_ne_zero (mul_ne_zero C.h2 hz1) hz2
  refine rep_of_EFGH' (C := C)
    (2 * Z1 * Z2 * (P1.x * P2.y + P1.y * P2.x))
    (2 * Z1 * Z2 * (1 - C.d * P1.x * P2.x * P1.y * P2.y))
    (2 * Z1 * Z2 * (1 + C.d * P1.x * P2.x * P1.y * P2.y))
    (2 * Z1 * Z2 * (P1.y * P2.y + P1.x * P2.x))
    (Point.add_x P1 P2) (Point.add_y P1 P2) hp hm ?_ ?_ ?_ ?_ ?_ ?_ ?_ ?_
  -- the four generated coordinates: any arrangement of the same polynomials is accepted
  · simp only [add_elements]; gen_cast; (try simp only [hx1, hy1, ht1, hx2, hy2, ht2, hd]) <;> (try ring)
  · simp only [add_elements]; gen_cast; (try simp only [hx1, hy1, ht1, hx2, hy2, ht2, hd]) <;> (try ring)
  · simp only [add_elements]; gen_cast; (try simp only [hx1, hy1, ht1, hx2, hy2, ht2, hd]) <;> (try ring)
  · simp only [add_elements]; gen_cast; (try simp only [hx1, hy1, ht1, hx2, hy2, ht2, hd]) <;> (try ring)
  -- the semantic side (independent of the generated code)
  · ring
  · ring
  · exact mul_ne_zero h2z hm
  · exact mul_ne_zero h2z hp

/-! ## `double_element` (dbl-2008-hwcd) -/

theorem double_element_reduced (p : ℤ × ℤ × ℤ × ℤ) : Reduced Q (double_element (Q : ℤ) p) := by
  obtain ⟨X1, Y1, Z1, T1⟩ := p
  exact ⟨emod_reduced _, emod_reduced _, emod_reduced _, emod_reduced _⟩

theorem double_element_rep' (p : ℤ × ℤ × ℤ × ℤ) (P : Point C) (r : RepXYZ C p P) :
    Rep C (double_element (Q : ℤ) p) (P + P) := by
  obtain ⟨X1, Y1, Z1, T1⟩ := p
  obtain ⟨hz1, hx1, hy1⟩ := r
  simp only at hz1 hx1 hy1
  obtain ⟨hp, hm⟩ := denoms_ne (Point.complete P P)
  have hc := P.on
  unfold OnCurve at hc
  have hz2 : (Z1 : ZMod Q) ^ 2 ≠ 0 := pow_ne_zero 2 hz1
  refine rep_of_EFGH' (C := C)
    (2 * P.x * P.y * (Z1 : ZMod Q) ^ 2)
    (-((Z1 : ZMod Q) ^ 2 * (1 - C.d * P.x * P.x * P.y * P.y)))
    ((Z1 : ZMod Q) ^ 2 * (1 + C.d * P.x * P.x * P.y * P.y))
    (-((Z1 : ZMod Q) ^ 2 * (P.x ^ 2 + P.y ^ 2)))
    (Point.add_x P P) (Point.add_y P P) hp hm ?_ ?_ ?_ ?_ ?_ ?_ ?_ ?_
  -- the four generated coordinates (the curve equation `hc` turns `y²-x²` into `1+dx²y²`)
  · simp only [double_element]; gen_cast; (try simp only [hx1, hy1])
    linear_combination (2 * P.x * P.y * (Z1 : ZMod Q) ^ 4) * hc
  · simp only [double_element]; gen_cast; (try simp only [hx1, hy1])
    linear_combination (-((Z1 : ZMod Q) ^ 4 * (P.x ^ 2 + P.y ^ 2))) * hc
  · simp only [double_element]; gen_cast; (try simp only [hx1, hy1])
    linear_combination ((Z1 : ZMod Q) ^ 4 * ((-P.x ^ 2 + P.y ^ 2) + (1 + C.d * P.x ^ 2 * P.y ^ 2) - 2)) * hc
  · simp only [double_element]; gen_cast; (try simp only [hx1, hy1])
    ring
  -- the semantic side (independent of the generated code)
  · ring
  · ring
  · exact neg_ne_zero.2 (mul_ne_zero hz2 hm)
  · exact mul_ne_zero hz2 hp

/-! ## `_add_elements_nonunfied` (hwcd-4, dedicated) -/

theorem add_elements_nonunfied_reduced (p1 p2 : ℤ × ℤ × ℤ × ℤ) :
    Reduced Q (add_elements_nonunfied (Q : ℤ) p1 p2) := by
  obtain ⟨X1, Y1, Z1, T1⟩ := p1
  obtain ⟨X2, Y2, Z2, T2⟩ := p2
  exact ⟨emod_reduced _, emod_reduced _, emod_reduced _, emod_reduced _⟩

/-- the two factors of `Z3` in the dedicated addition, in terms of `P1 - P2` -/
theorem nonunfied_FG (p1 p2 : ℤ × ℤ × ℤ × ℤ) (P1 P2 : Point C) (r1 : Rep C p1 P1) (r2 : Rep C p2 P2) :
    ((p1.2.1 : ZMod Q) + p1.1) * ((p2.2.1 : ZMod Q) - p2.1)
        - ((p1.2.1 : ZMod Q) - p1.1) * ((p2.2.1 : ZMod Q) + p2.1)
      = 2 * p1.2.2.1 * p2.2.2.1 * ((P1 - P2).x * (1 - C.d * P1.x * P2.x * P1.y * P2.y))
    ∧ ((p1.2.1 : ZMod Q) + p1.1) * ((p2.2.1 : ZMod Q) - p2.1)
        + ((p1.2.1 : ZMod Q) - p1.1) * ((p2.2.1 : ZMod Q) + p2.1)
      = 2 * p1.2.2.1 * p2.2.2.1 * ((P1 - P2).y * (1 + C.d * P1.x * P2.x * P1.y * P2.y)) := by
  obtain ⟨X1, Y1, Z1, T1⟩ := p1
  obtain ⟨X2, Y2, Z2, T2⟩ := p2
  obtain ⟨hz1, hx1, hy1, ht1⟩ := r1
  obtain ⟨hz2, hx2, hy2, ht2⟩ := r2
  simp only at hz1 hx1 hy1 ht1 hz2 hx2 hy2 ht2
  obtain ⟨hp, hm⟩ := denoms_ne (Point.complete P1 P2)
  have ex : (P1 - P2).x * (1 - C.d * P1.x * P2.x * P1.y * P2.y) = P1.x * P2.y - P1.y * P2.x := by
    rw [Point.sub_x]; unfold addX
    have : 1 + C.d * P1.x * -P2.x * P1.y * P2.y = 1 - C.d * P1.x * P2.x * P1.y * P2.y := by ring
    rw [this, div_mul_cancel₀ _ hm]; ring
  have ey : (P1 - P2).y * (1 + C.d * P1.x * P2.x * P1.y * P2.y) = P1.y * P2.y - P1.x * P2.x := by
    rw [Point.sub_y]; unfold addY
    have : 1 - C.d * P1.x * -P2.x * P1.y * P2.y = 1 + C.d * P1.x * P2.x * P1.y * P2.y := by ring
    rw [this, div_mul_cancel₀ _ hp]; ring
  rw [ex, ey]
  simp only [hx1, hy1, hx2, hy2]
  constructor <;> ring

theorem add_elements_nonunfied_rep' (p1 p2 : ℤ × ℤ × ℤ × ℤ) (P1 P2 : Point C)
    (r1 : Rep C p1 P1) (r2 : Rep C p2 P2)
    (hxne : (P1 - P2).x ≠ 0) (hyne : (P1 - P2).y ≠ 0) :
    Rep C (add_elements_nonunfied (Q : ℤ) p1 p2) (P1 + P2) := by
  have hFG := nonunfied_FG C p1 p2 P1 P2 r1 r2
  obtain ⟨X1, Y1, Z1, T1⟩ := p1
  obtain ⟨X2, Y2, Z2, T2⟩ := p2
  obtain ⟨hz1, hx1, hy1, ht1⟩ := r1
  obtain ⟨hz2, hx2, hy2, ht2⟩ := r2
  simp only at hz1 hx1 hy1 ht1 hz2 hx2 hy2 ht2 hFG
  obtain ⟨hF, hG⟩ := hFG
  obtain ⟨hp, hm⟩ := denoms_ne (Point.complete P1 P2)
  have hdx := dual_x P1.on P2.on
  have hdy := dual_y P1.on P2.on
  have h2z : (2 : ZMod Q) * Z1 * Z2 ≠ 0 := mul_ne_zero (mul_ne_zero C.h2 hz1) hz2
  refine rep_of_EFGH' (C := C)
    (2 * Z1 * Z2 * (P1.x * P1.y + P2.x * P2.y))
    (((Y1 : ZMod Q) + X1) * ((Y2 : ZMod Q) - X2) - ((Y1 : ZMod Q) - X1) * ((Y2 : ZMod Q) + X2))
    (((Y1 : ZMod Q) + X1) * ((Y2 : ZMod Q) - X2) + ((Y1 : ZMod Q) - X1) * ((Y2 : ZMod Q) + X2))
    (2 * Z1 * Z2 * (P1.x * P1.y - P2.x * P2.y))
    (Point.add_x P1 P2) (Point.add_y P1 P2) hp hm ?_ ?_ ?_ ?_ ?_ ?_ ?_ ?_
  -- the four generated coordinates: any arrangement of the same polynomials is accepted
  · simp only [add_elements_nonunfied]; gen_cast; (try simp only [ht1, ht2]) <;> (try ring)
  · simp only [add_elements_nonunfied]; gen_cast; (try simp only [ht1, ht2]) <;> (try ring)
  · simp only [add_elements_nonunfied]; gen_cast; (try simp only [ht1, ht2]) <;> (try ring)
  · simp only [add_elements_nonunfied]; gen_cast; (try simp only [ht1, ht2]) <;> (try ring)
  -- the semantic side (independent of the generated code)
  · simp only [hx1, hy1, hx2, hy2]
    linear_combination (2 * (Z1 : ZMod Q) * Z2) * hdx
  · simp only [hx1, hy1, hx2, hy2]
    linear_combination (2 * (Z1 : ZMod Q) * Z2) * hdy
  · rw [hF]
    exact mul_ne_zero h2z (mul_ne_zero hxne hm)
  · rw [hG]
    exact mul_ne_zero h2z (mul_ne_zero hyne hp)

/-- `Z3 = F·G` of the dedicated addition is nonzero exactly when `P1 - P2` is none of the four
points with `x = 0` or `y = 0`, i.e. `(0,1), (0,-1), (i,0), (-i,0)` (`Point.x_or_y_eq_zero_iff`) -/
theorem add_elements_nonunfied_Z_ne_zero_iff (p1 p2 : ℤ × ℤ × ℤ × ℤ) (P1 P2 : Point C)
    (r1 : Rep C p1 P1) (r2 : Rep C p2 P2) :
    (((add_elements_nonunfied (Q : ℤ) p1 p2).2.2.1 : ℤ) : ZMod Q) ≠ 0 ↔
      ((P1 - P2).x ≠ 0 ∧ (P1 - P2).y ≠ 0) := by
  have hFG := nonunfied_FG C p1 p2 P1 P2 r1 r2
  obtain ⟨X1, Y1, Z1, T1⟩ := p1
  obtain ⟨X2, Y2, Z2, T2⟩ := p2
  obtain ⟨hz1, -, -, -⟩ := r1
  obtain ⟨hz2, -, -, -⟩ := r2
  simp only at hz1 hz2 hFG
  obtain ⟨hF, hG⟩ := hFG
  obtain ⟨hp, hm⟩ := denoms_ne (Point.complete P1 P2)
  have h2z : (2 : ZMod Q) * Z1 * Z2 ≠ 0 := mul_ne_zero (mul_ne_zero C.h2 hz1) hz2
  have hZ : (((add_elements_nonunfied (Q : ℤ) (X1, Y1, Z1, T1) (X2, Y2, Z2, T2)).2.2.1 : ℤ) : ZMod Q)
      = (((Y1 : ZMod Q) + X1) * ((Y2 : ZMod Q) - X2) - ((Y1 : ZMod Q) - X1) * ((Y2 : ZMod Q) + X2))
        * (((Y1 : ZMod Q) + X1) * ((Y2 : ZMod Q) - X2) + ((Y1 : ZMod Q) - X1) * ((Y2 : ZMod Q) + X2)) := by
    simp only [add_elements_nonunfied]; gen_cast; ring
  rw [hZ, hF, hG]
  simp only [ne_eq, mul_eq_zero, not_or]
  constructor
  · rintro ⟨⟨-, h1, -⟩, -, h2, -⟩; exact ⟨h1, h2⟩
  · rintro ⟨h1, h2⟩
    have h2z' : ¬ ((2 : ZMod Q) = 0 ∨ (Z1 : ZMod Q) = 0) ∧ ¬ (Z2 : ZMod Q) = 0 := by
      simpa [mul_eq_zero, not_or] using h2z
    exact ⟨⟨⟨⟨by tauto, by tauto⟩, h2z'.2⟩, h1, hm⟩, ⟨⟨by tauto, by tauto⟩, h2z'.2⟩, h2, hp⟩

/-! ## `is_extended_zero` -/

theorem is_extended_zero_iff' (p : ℤ × ℤ × ℤ × ℤ) (P : Point C) (r : RepXYZ C p P)
    (h0 : 0 ≤ p.1) (h1 : p.1 < Q) :
    is_extended_zero (Q : ℤ) p = true ↔ P = 0 := by
  obtain ⟨X, Y, Z, T⟩ := p
  obtain ⟨hz, hx, hy⟩ := r
  simp only at hz hx hy h0 h1
  have hYZ : Int.emod Y Q = Int.emod Z Q ↔ (Y : ZMod Q) = (Z : ZMod Q) :=
    (ZMod.intCast_eq_intCast_iff' Y Z Q).symm
  have hY0 : Int.emod Y Q = 0 ↔ (Y : ZMod Q) = 0 := by
    rw [ZMod.intCast_zmod_eq_zero_iff_dvd]; exact (Int.dvd_iff_emod_eq_zero).symm
  have hZ0 : Int.emod Z Q = 0 ↔ (Z : ZMod Q) = 0 := by
    rw [ZMod.intCast_zmod_eq_zero_iff_dvd]; exact (Int.dvd_iff_emod_eq_zero).symm
  have hX0 : X = 0 ↔ (X : ZMod Q) = 0 := by
    constructor
    · rintro rfl; simp
    · intro h
      rw [ZMod.intCast_zmod_eq_zero_iff_dvd] at h
      exact Int.eq_zero_of_dvd_of_nonneg_of_lt h0 h1 h
  -- whatever the order of the three tests and however the Boolean is returned
  have key : is_extended_zero (Q : ℤ) (X, Y, Z, T) = true ↔
      ((X : ZMod Q) = 0 ∧ (Y : ZMod Q) = (Z : ZMod Q)) ∧ ¬ (Y : ZMod Q) = 0 := by
    have hZY : Int.emod Z Q = Int.emod Y Q ↔ (Y : ZMod Q) = (Z : ZMod Q) :=
      eq_comm.trans hYZ
    simp only [is_extended_zero, Bool.and_eq_true, decide_eq_true_eq, ite_eq_left_iff,
      Bool.false_eq_true, imp_false, ne_eq, not_not, Bool.if_false_right, Bool.and_true,
      Bool.if_true_left, Bool.or_false, hYZ, hZY, hY0, hZ0, hX0]
    -- (closed already when the tests come in the order of the statement)
    all_goals tauto
  rw [key]
  constructor
  · rintro ⟨⟨hX, hYZ'⟩, -⟩
    apply Point.ext
    · rw [hx] at hX
      rcases mul_eq_zero.1 hX with h | h
      · exact h
      · exact absurd h hz
    · rw [hy] at hYZ'
      have : (P.y - 1) * (Z : ZMod Q) = 0 := by linear_combination hYZ'
      rcases mul_eq_zero.1 this with h | h
      · show P.y = 1
        linear_combination h
      · exact absurd h hz
  · rintro rfl
    simp only [Point.zero_x, Point.zero_y, zero_mul, one_mul] at hx hy
    exact ⟨⟨hx, hy⟩, by rw [hy]; exact hz⟩

end

/-! ## `isoncurve` -/

/-- the code's curve test is the curve equation over `ZMod Q` -/
theorem isoncurve_iff (d : ℤ) (P : ℤ × ℤ) :
    isoncurve (Q : ℤ) d P = true ↔ OnCurve (d : ZMod Q) (P.1 : ZMod Q) (P.2 : ZMod Q) := by
  obtain ⟨x, y⟩ := P
  simp only [isoncurve, decide_eq_true_eq]
  have h0 : ∀ a : ℤ, Int.emod a Q = 0 ↔ (a : ZMod Q) = 0 := fun a => by
    rw [ZMod.intCast_zmod_eq_zero_iff_dvd]; exact (Int.dvd_iff_emod_eq_zero).symm
  rw [h0]
  unfold OnCurve
  push_cast
  constructor
  · intro h; linear_combination h
  · intro h; linear_combination h

/-- a pair accepted by `isoncurve` is (the integer coordinates of) a curve point -/
def pointOfIsoncurve (C : EdCurve (ZMod Q)) (d : ℤ) (hd : (d : ZMod Q) = C.d) (P : ℤ × ℤ)
    (h : isoncurve (Q : ℤ) d P = true) : Point C :=
  ⟨(P.1 : ZMod Q), (P.2 : ZMod Q), by rw [← hd]; exact (isoncurve_iff d P).1 h⟩

/-! ## Summary (property-level statements) -/

variable (C : EdCurve (ZMod Q)) (d : ℤ)

/-- unified addition: no side condition (identity, equal, opposite, small-order inputs included) -/
theorem add_elements_rep (hd : (d : ZMod Q) = C.d) {p1 p2 : ℤ × ℤ × ℤ × ℤ} {P1 P2 : Point C}
    (r1 : Rep C p1 P1) (r2 : Rep C p2 P2) :
    Rep C (add_elements (Q : ℤ) d p1 p2) (P1 + P2) ∧ Reduced Q (add_elements (Q : ℤ) d p1 p2) :=
  ⟨add_elements_rep' C d hd p1 p2 P1 P2 r1 r2, add_elements_reduced d p1 p2⟩

/-- doubling: no side condition; `T` of the input is ignored -/
theorem double_element_rep {p : ℤ × ℤ × ℤ × ℤ} {P : Point C} (r : RepXYZ C p P) :
    Rep C (double_element (Q : ℤ) p) (P + P) ∧ Reduced Q (double_element (Q : ℤ) p) :=
  ⟨double_element_rep' C p P r, double_element_reduced p⟩

/-- dedicated addition: correct whenever `P1 - P2` is none of `(0,1), (0,-1), (i,0), (-i,0)` -/
theorem add_elements_nonunfied_rep {p1 p2 : ℤ × ℤ × ℤ × ℤ} {P1 P2 : Point C}
    (r1 : Rep C p1 P1) (r2 : Rep C p2 P2) (hne : ¬ ((P1 - P2).x = 0 ∨ (P1 - P2).y = 0)) :
    Rep C (add_elements_nonunfied (Q : ℤ) p1 p2) (P1 + P2) ∧
      Reduced Q (add_elements_nonunfied (Q : ℤ) p1 p2) :=
  ⟨add_elements_nonunfied_rep' C p1 p2 P1 P2 r1 r2 (fun h => hne (Or.inl h)) (fun h => hne (Or.inr h)),
    add_elements_nonunfied_reduced p1 p2⟩

theorem is_extended_zero_iff {p : ℤ × ℤ × ℤ × ℤ} {P : Point C} (r : Rep C p P)
    (h0 : 0 ≤ p.1) (h1 : p.1 < Q) : is_extended_zero (Q : ℤ) p = true ↔ P = 0 :=
  is_extended_zero_iff' C p P r.xyz h0 h1

theorem xform_extended_to_affine_spec {p : ℤ × ℤ × ℤ × ℤ} {P : Point C} (r : Rep C p P) :
    xform_extended_to_affine (Q : ℤ) p = ((P.x.val : ℤ), (P.y.val : ℤ)) :=
  xform_extended_to_affine_rep C p P r.xyz

#print axioms add_elements_rep
#print axioms double_element_rep
#print axioms add_elements_nonunfied_rep
#print axioms add_elements_nonunfied_Z_ne_zero_iff
#print axioms xform_affine_to_extended_rep
#print axioms xform_zero_rep
#print axioms xform_extended_to_affine_spec
#print axioms is_extended_zero_iff
#print axioms isoncurve_iff
#print axioms inv_cast
#print axioms mkCurve

end Spake2Verif.EdBridge
