import Spake2Model.Model.Group
import Spake2Verif.Proofs.EdEncode

/-!
# The element classes of `ed25519_basic.py` against the group of curve points

`Valid e`: `e` is the `Zero` object, or an `Element` whose (reduced) coordinates represent a
non-identity point killed by `L`.  `abs e`: the represented point (total: `0` when the
quadruple represents nothing).  On valid elements `add`, `scalarmult`, `negate`, `subtract`,
`==` are the group operations; `arbitrary_element` and `bytes_to_element` only produce valid
elements; scalar codecs round-trip.
-/
namespace Spake2Verif
open Spake2Model Spake2Model.Gen Spake2Verif.Edw Spake2Verif.EdBridge

namespace CurveOK
variable {c : Curve} [Fact c.Q.toNat.Prime] (h : CurveOK c)

/-- the elements the protocol layer may hold -/
def Valid (e : EdElem) : Prop :=
  e = Ed25519.Zero c ∨
    (e.kind = .elem ∧ Reduced c.Q.toNat e.pt ∧
      ∃ P : Point (EC h), Rep (EC h) e.pt P ∧ P ≠ 0 ∧ c.L.toNat • P = 0)

open Classical in
/-- the curve point an element object stands for (`0` if its quadruple represents none) -/
noncomputable def abs (e : EdElem) : Point (EC h) :=
  if hr : ∃ P : Point (EC h), Rep (EC h) e.pt P then Classical.choose hr else 0

include h

theorem abs_of_rep {e : EdElem} {P : Point (EC h)} (r : Rep (EC h) e.pt P) : abs h e = P := by
  unfold abs
  have hr : ∃ P : Point (EC h), Rep (EC h) e.pt P := ⟨P, r⟩
  rw [dif_pos hr]
  exact h.rep_unique (Classical.choose_spec hr) r

theorem abs_zero : abs h (Ed25519.Zero c) = 0 := h.abs_of_rep (e := Ed25519.Zero c) h.zeroPt_rep.1

theorem valid_zero : Valid h (Ed25519.Zero c) := Or.inl rfl

theorem valid_elem {p : P4} {P : Point (EC h)} (r : Rep (EC h) p P) (hr : Reduced c.Q.toNat p)
    (hP : P ≠ 0) (hL : c.L.toNat • P = 0) : Valid h ⟨.elem, p⟩ :=
  Or.inr ⟨rfl, hr, P, r, hP, hL⟩

theorem valid_base : Valid h (Ed25519.Base c) :=
  Or.inr ⟨rfl, h.base_rep.2, h.BP, h.base_rep.1, h.BP_ne_zero, h.L_smul_BP⟩

theorem abs_base : abs h (Ed25519.Base c) = h.BP := h.abs_of_rep h.base_rep.1

/-- what a valid element is, in one statement -/
theorem Valid.view {e : EdElem} (v : Valid h e) :
    ∃ P : Point (EC h), Rep (EC h) e.pt P ∧ Reduced c.Q.toNat e.pt ∧ c.L.toNat • P = 0 ∧
      abs h e = P ∧ ((e = Ed25519.Zero c ∧ P = 0) ∨ (e.kind = .elem ∧ P ≠ 0)) := by
  rcases v with rfl | ⟨k, hr, P, r, hP, hL⟩
  · exact ⟨0, h.zeroPt_rep.1, h.zeroPt_rep.2, smul_zero _, h.abs_zero, Or.inl ⟨rfl, rfl⟩⟩
  · exact ⟨P, r, hr, hL, h.abs_of_rep r, Or.inr ⟨k, hP⟩⟩

theorem L_zsmul {P : Point (EC h)} (hL : c.L.toNat • P = 0) : c.L • P = 0 := by
  rw [← h.L_cast, natCast_zsmul]; exact hL

/-! ### `add` -/

theorem add_ok (a b : EdElem) (va : Valid h a) (vb : Valid h b) :
    ∃ r, Ed25519.add c a b = .ok r ∧ Valid h r ∧ abs h r = abs h a + abs h b := by
  rcases va with rfl | ⟨ka, reda, Pa, ra, nza, tora⟩
  · exact ⟨b, rfl, vb, by rw [h.abs_zero, zero_add]⟩
  · rcases vb with rfl | ⟨kb, redb, Pb, rb, nzb, torb⟩
    · refine ⟨a, ?_, Or.inr ⟨ka, reda, Pa, ra, nza, tora⟩, by rw [h.abs_zero, add_zero]⟩
      simp only [Ed25519.add, ka]
      rw [if_pos (show (Ed25519.Zero c).kind = Kind.zero from rfl)]
    · have hsum := h.add_rep ra rb
      have hk : ¬ (b.kind = Kind.zero) := by rw [kb]; decide
      rw [h.abs_of_rep ra, h.abs_of_rep rb]
      by_cases hz : Ed.is_extended_zero c.Q (Ed.add_elements c.Q c.d a.pt b.pt) = true
      · refine ⟨Ed25519.Zero c, ?_, h.valid_zero, ?_⟩
        · simp only [Ed25519.add, ka, Ed25519.addUnknown, hz, if_true]
          rw [if_neg hk, if_pos (show (Ed25519.Zero c).kind = Kind.zero from rfl)]
        · rw [h.abs_zero]; exact ((h.zero_iff hsum.1 hsum.2).1 hz).symm
      · have hne : Pa + Pb ≠ 0 := fun e => hz ((h.zero_iff hsum.1 hsum.2).2 e)
        refine ⟨⟨.elem, Ed.add_elements c.Q c.d a.pt b.pt⟩, ?_, ?_, h.abs_of_rep hsum.1⟩
        · simp only [Ed25519.add, ka, Ed25519.addUnknown, hz]
          rw [if_neg hk]
          simp [kb]
        · exact h.valid_elem hsum.1 hsum.2 hne (by rw [smul_add, tora, torb, add_zero])

/-! ### `scalarmult` -/

theorem smul_ok (a : EdElem) (n : ℤ) (va : Valid h a) :
    ∃ r, Ed25519.smul c a n = .ok r ∧ Valid h r ∧ abs h r = n • abs h a := by
  rcases va with rfl | ⟨ka, reda, P, r, nz, tor⟩
  · exact ⟨Ed25519.Zero c, rfl, h.valid_zero, by rw [h.abs_zero, smul_zero]⟩
  · rw [h.abs_of_rep r]
    have hLpos : 0 < c.L := by have := h.L_gt; omega
    have hmod := h.zsmul_emod tor n
    by_cases hs : n % c.L = 0
    · refine ⟨Ed25519.Zero c, ?_, h.valid_zero, ?_⟩
      · simp only [Ed25519.smul, ka, hs, if_true]
      · rw [h.abs_zero, ← hmod, hs, zero_zsmul]
    · have h0 : 0 ≤ n % c.L := Int.emod_nonneg _ (ne_of_gt hLpos)
      have h1 : n % c.L < c.L := Int.emod_lt_of_pos _ hLpos
      have hr := h.fast_rep r tor nz (n % c.L) h0 h1
      rw [hmod] at hr
      refine ⟨⟨.elem, Ed.scalarmult_element c.Q a.pt (n % c.L)⟩, ?_, ?_, h.abs_of_rep hr.1⟩
      · simp only [Ed25519.smul, ka, hs, if_false]
      · refine h.valid_elem hr.1 hr.2 ?_ (by rw [smul_comm, tor, smul_zero])
        intro e
        have hd := h.dvd_of_zsmul_eq_zero tor nz n e
        exact hs (Int.emod_eq_zero_of_dvd hd)

theorem order_smul (a : EdElem) (va : Valid h a) : ((c.L.toNat : ℕ) : ℤ) • abs h a = 0 := by
  obtain ⟨P, -, -, hL, ha, -⟩ := Valid.view h va
  rw [ha, natCast_zsmul]; exact hL

/-! ### `negate`, `subtract`, `==` -/

omit [Fact c.Q.toNat.Prime] h in
/-- the scalar `Element.negate` multiplies by is `L - 1` (the generated definition is re-derived
from the source on every run: a regression to `L - 2` breaks this proof) -/
theorem negate_scalar_eq (L : ℤ) : Ed.negate_scalar L = L - 1 := by
  unfold Ed.negate_scalar; omega

theorem negate_spec (a : EdElem) (va : Valid h a) :
    ∃ b, Ed25519.negate c a = .ok b ∧ Valid h b ∧ abs h b = - abs h a := by
  rcases va with rfl | ⟨ka, reda, P, r, nz, tor⟩
  · exact ⟨Ed25519.Zero c, rfl, h.valid_zero, by rw [h.abs_zero, neg_zero]⟩
  · rw [h.abs_of_rep r]
    have hL2 := h.L_gt
    have hr := h.fast_rep r tor nz (c.L - 1) (by omega) (by omega)
    have e : (c.L - 1) • P = -P := by
      rw [sub_zsmul, h.L_zsmul tor, one_zsmul, zero_add]
    rw [e] at hr
    refine ⟨⟨.elem, Ed.scalarmult_element c.Q a.pt (Ed.negate_scalar c.L)⟩, ?_, ?_, ?_⟩
    · simp only [Ed25519.negate, ka]
    · rw [negate_scalar_eq]
      exact h.valid_elem hr.1 hr.2 (neg_ne_zero.2 nz) (by rw [smul_neg, tor, neg_zero])
    · rw [negate_scalar_eq]; exact h.abs_of_rep hr.1

theorem kind_ne_unknown {a : EdElem} (va : Valid h a) : a.kind ≠ .unknown := by
  rcases va with rfl | ⟨ka, -⟩
  · simp [Ed25519.Zero]
  · rw [ka]; decide

theorem subtract_spec (a b : EdElem) (va : Valid h a) (vb : Valid h b) :
    ∃ r, Ed25519.subtract c a b = .ok r ∧ Valid h r ∧ abs h r = abs h a - abs h b := by
  obtain ⟨nb, hnb, vnb, anb⟩ := h.negate_spec b vb
  obtain ⟨r, hr, vr, ar⟩ := h.add_ok a nb va vnb
  refine ⟨r, ?_, vr, by rw [ar, anb, sub_eq_add_neg]⟩
  have hk := h.kind_ne_unknown va
  unfold Ed25519.subtract
  rw [hnb]
  cases hka : a.kind with
  | unknown => exact absurd hka hk
  | elem => exact hr
  | zero => exact hr

theorem enc_inj (a b : EdElem) (va : Valid h a) (vb : Valid h b) :
    Ed25519.toBytes c a = Ed25519.toBytes c b ↔ abs h a = abs h b := by
  obtain ⟨Pa, ra, -, -, ha, -⟩ := Valid.view h va
  obtain ⟨Pb, rb, -, -, hb, -⟩ := Valid.view h vb
  rw [ha, hb]
  exact h.toBytes_eq_iff ra rb

theorem eq_spec (a b : EdElem) (va : Valid h a) (vb : Valid h b) :
    Ed25519.eq c a b = true ↔ abs h a = abs h b := by
  unfold Ed25519.eq
  rw [beq_iff_eq]
  exact h.enc_inj a b va vb

theorem enc_len (a : EdElem) (va : Valid h a) :
    (Ed25519.toBytes c a).length = 32 ∧ IsBytes (Ed25519.toBytes c a) := by
  obtain ⟨Pa, ra, -, -, -, -⟩ := Valid.view h va
  exact h.toBytes_length ra

/-! ### `arbitrary_element` -/

theorem arbLoop_valid (y : ℤ) : ∀ (fuel : ℕ) (plus : ℤ) (e : EdElem),
    Ed25519.arbLoop c y fuel plus = .ok e → Valid h e := by
  intro fuel
  induction fuel with
  | zero => intro plus e he; simp [Ed25519.arbLoop, raise] at he
  | succ fuel ih =>
    intro plus e he
    rw [Ed25519.arbLoop] at he
    simp only at he
    split at he
    · exact ih _ _ he
    · next hon =>
      have hon' : Ed.isoncurve c.Q c.d
          (Ed.xrecover c.Q c.d c.I ((y + plus) % c.Q), (y + plus) % c.Q) = true := by
        simpa using hon
      have rP := h.pointOf_rep _ hon'
      have r8 := h.safe_rep rP.1 Ed.arb_cofactor (by decide)
      split at he
      · exact ih _ _ he
      · next hz8 =>
        split at he
        · next hzL =>
          injection he with he
          subst he
          have rL := h.safe_rep r8.1 c.L (by have := h.L_gt; omega)
          have hL := (h.zero_iff rL.1 rL.2).1 hzL
          refine h.valid_elem r8.1 r8.2 (fun e0 => hz8 ((h.zero_iff r8.1 r8.2).2 e0)) ?_
          rw [← h.L_cast, natCast_zsmul] at hL
          exact hL
        · simp [raise] at he

theorem arb_valid (seed : Bytes) (e : EdElem) (he : Ed25519.arb c seed = .ok e) : Valid h e := by
  unfold Ed25519.arb at he
  simp only at he
  split at he
  · cases he
  · exact h.arbLoop_valid _ _ _ _ he

/-! ### `bytes_to_element` -/

/-- everything `bytes_to_element` guarantees about an accepted string -/
theorem dec_ok {b : Bytes} {e : EdElem} (hd : Ed25519.dec c b = .ok e) :
    e.kind = .elem ∧ Reduced c.Q.toNat e.pt ∧ Ed25519.toBytes c e = b ∧
      ∃ P : Point (EC h), Rep (EC h) e.pt P ∧ P ≠ 0 ∧ c.L.toNat • P = 0 := by
  unfold Ed25519.dec at hd
  split at hd
  · cases hd
  · next U hU =>
    simp only at hd
    split at hd
    · simp [raise] at hd
    · next hk =>
      split at hd
      · simp [raise] at hd
      · next hzL =>
        split at hd
        · simp [raise] at hd
        · next hcanon =>
          injection hd with hd
          subst hd
          have hcanon' : Ed25519.toBytes c ⟨.elem, U.pt⟩ = b := by simpa using hcanon
          have hzL' : Ed.is_extended_zero c.Q
              (Ed.scalarmult_element_safe_slow c.Q c.d U.pt c.L) = true := by simpa using hzL
          -- `U` came out of `bytes_to_unknown_group_element`
          unfold Ed25519.decUnknown at hU
          split at hU
          · injection hU with hU; subst hU; exact absurd rfl hk
          · next hnz =>
            split at hU
            · cases hU
            · next xy hxy =>
              injection hU with hU
              subst hU
              obtain ⟨x, y⟩ := xy
              obtain ⟨hon, -, -, -⟩ := decodepoint_sound hxy
              have rP := h.pointOf_rep (x, y) hon
              have rL := h.safe_rep rP.1 c.L (by have := h.L_gt; omega)
              have hL := (h.zero_iff rL.1 rL.2).1 hzL'
              rw [← h.L_cast, natCast_zsmul] at hL
              refine ⟨rfl, rP.2, hcanon', _, rP.1, ?_, hL⟩
              intro e0
              apply hnz
              rw [← hcanon', h.zeroBytes_eq,
                (h.toBytes_rep (e := ⟨Kind.elem, Ed.xform_affine_to_extended c.Q (x, y)⟩) rP.1).2, e0]

theorem dec_strict (b : Bytes) (e : EdElem) (hd : Ed25519.dec c b = .ok e) :
    Valid h e ∧ Ed25519.toBytes c e = b := by
  obtain ⟨k, hr, hb, P, r, nz, tor⟩ := h.dec_ok hd
  exact ⟨Or.inr ⟨k, hr, P, r, nz, tor⟩, hb⟩

theorem dec_nonzero (b : Bytes) (e : EdElem) (hd : Ed25519.dec c b = .ok e) : abs h e ≠ 0 := by
  obtain ⟨k, hr, hb, P, r, nz, tor⟩ := h.dec_ok hd
  rw [h.abs_of_rep r]; exact nz

/-- the identity is refused -/
theorem dec_zero (a : EdElem) (va : Valid h a) (ha : abs h a = 0) :
    ∃ err, Ed25519.dec c (Ed25519.toBytes c a) = .error err := by
  obtain ⟨P, r, -, -, hP, -⟩ := Valid.view h va
  rw [hP] at ha
  subst ha
  have hb : Ed25519.toBytes c a = Ed25519.zeroBytes c := by
    rw [(h.toBytes_rep r).2, h.zeroBytes_eq]
  rw [hb]
  refine ⟨.other .ValueError, ?_⟩
  unfold Ed25519.dec Ed25519.decUnknown
  rw [if_pos rfl]
  rfl

/-! ### scalars -/

omit [Fact c.Q.toNat.Prime] in
theorem scalar_rt (x : ℤ) (h0 : 0 ≤ x) (h1 : x < c.L) :
    ∃ b, Ed25519.scalarEnc c x = .ok b ∧ b.length = 32 ∧ IsBytes b ∧
      Ed25519.scalarDec b = .ok x := by
  have hL := h.L_lt
  have hx : x % c.L = x := Int.emod_eq_of_lt h0 h1
  have hlt : x.toNat < 256 ^ 32 := by
    have : (256 : ℕ) ^ 32 = 2 ^ 256 := by norm_num
    omega
  refine ⟨natToLE 32 x.toNat, ?_, natToLE_length _ _, natToLE_isBytes _ _, ?_⟩
  · unfold Ed25519.scalarEnc
    simp only [hx]
    rw [if_neg (not_not.2 ⟨h0, lt_trans h1 hL⟩)]
  · unfold Ed25519.scalarDec
    rw [if_neg (by rw [natToLE_length]; exact fun hh => hh rfl), leToNat_natToLE_of_lt hlt]
    congr 1
    exact Int.toNat_of_nonneg h0

omit [Fact c.Q.toNat.Prime] in
theorem p2s_range (pw : Bytes) : 0 ≤ Ed25519.p2s c pw ∧ Ed25519.p2s c pw < c.L := by
  have hLpos : 0 < c.L := by have := h.L_gt; omega
  unfold Ed25519.p2s passwordToScalar IntGroup.p2s_reduce
  exact ⟨Int.emod_nonneg _ (ne_of_gt hLpos), Int.emod_lt_of_pos _ hLpos⟩

omit [Fact c.Q.toNat.Prime] in
theorem random_range (ent : Entropy) (x : ℤ) (ent' : Entropy)
    (hr : Ed25519.randomScalar c ent = .ok (x, ent')) : 0 ≤ x ∧ x < c.L := by
  have hLpos : 0 < c.L := by have := h.L_gt; omega
  unfold Ed25519.randomScalar at hr
  split at hr
  · cases hr
  · split at hr
    · cases hr
    · injection hr with hr
      injection hr with hx _
      rw [← hx]
      exact ⟨Int.emod_nonneg _ (ne_of_gt hLpos), Int.emod_lt_of_pos _ hLpos⟩

/-- the base point has order exactly `L` -/
theorem base_order (n : ℤ) (hn : n • abs h (Ed25519.Base c) = 0) : c.L ∣ n := by
  rw [h.abs_base] at hn
  exact h.dvd_of_zsmul_eq_zero h.L_smul_BP h.BP_ne_zero n hn

end CurveOK

#print axioms CurveOK.add_ok
#print axioms CurveOK.smul_ok
#print axioms CurveOK.negate_spec
#print axioms CurveOK.subtract_spec
#print axioms CurveOK.eq_spec
#print axioms CurveOK.arb_valid
#print axioms CurveOK.dec_strict
#print axioms CurveOK.dec_zero
#print axioms CurveOK.scalar_rt
#print axioms CurveOK.base_order

end Spake2Verif

