import Spake2Verif.Proofs.Agreement
import Spake2Verif.Proofs.Restore
/-!
C01 together with C08: agreement is unaffected when either end is replaced, any number of times
between `start()` and `finish()`, by `from_serialized(serialize())` (same class, same parameters).
-/
namespace Spake2Verif
open Spake2Model Spake2Model.Gen

variable {G : Group}

/-- **C01 with restores, asymmetric.** -/
theorem agreement_with_restores (S : GroupSpec G) {P : Params G} (hP : ValidParams S P)
    {pw idA idB : Bytes} (hpw : IsBytes pw) (hidA : IsBytes idA) (hidB : IsBytes idB)
    {entA entB : Entropy} {a b a' b' : Inst G} {mA mB : Bytes}
    (hA : (Inst.new .A pw idA idB P entA).start = (a, .ok mA))
    (hB : (Inst.new .B pw idA idB P entB).start = (b, .ok mB))
    (ra : RestoredFrom a a') (rb : RestoredFrom b b') :
    ∃ x y, a'.xyScalar = some x ∧ b'.xyScalar = some y ∧
      AgreementOutcome S (msgAbs S P .A (G.p2s pw) x) (msgAbs S P .B (G.p2s pw) y)
        (mA.drop 1) (mB.drop 1) (a'.finish mB).2 (b'.finish mA).2 := by
  obtain ⟨x, obA, -, rdA, -, pa, ia, ja, -⟩ := start_ready S hP hA
  obtain ⟨y, obB, -, rdB, -, pb, ib, jb, -⟩ := start_ready S hP hB
  obtain ⟨x', y', hx', hy', hout⟩ := agreement_asym S hP hA hB
  have ex : x' = x := by rw [rdA.xy] at hx'; injection hx' with h; exact h.symm
  have ey : y' = y := by rw [rdB.xy] at hy'; injection hy' with h; exact h.symm
  subst ex; subst ey
  obtain ⟨rdA', fA, -⟩ := ra.finish_eq S rdA (ia ▸ hidA) (ja ▸ hidB) (pa ▸ hpw)
  obtain ⟨rdB', fB, -⟩ := rb.finish_eq S rdB (ib ▸ hidA) (jb ▸ hidB) (pb ▸ hpw)
  refine ⟨x', y', rdA'.xy, rdB'.xy, ?_⟩
  rw [fA, fB]; exact hout

/-- **C01 with restores, symmetric.** -/
theorem agreement_sym_with_restores (S : GroupSpec G) {P : Params G} (hP : ValidParams S P)
    {pw idS idB₁ idB₂ : Bytes} (hpw : IsBytes pw) (hidS : IsBytes idS)
    (h₁ : IsBytes idB₁) (h₂ : IsBytes idB₂)
    {ent₁ ent₂ : Entropy} {a b a' b' : Inst G} {m₁ m₂ : Bytes}
    (hA : (Inst.new .S pw idS idB₁ P ent₁).start = (a, .ok m₁))
    (hB : (Inst.new .S pw idS idB₂ P ent₂).start = (b, .ok m₂))
    (ra : RestoredFrom a a') (rb : RestoredFrom b b') :
    ∃ x y, a'.xyScalar = some x ∧ b'.xyScalar = some y ∧
      AgreementOutcome S (msgAbs S P .S (G.p2s pw) x) (msgAbs S P .S (G.p2s pw) y)
        (m₁.drop 1) (m₂.drop 1) (a'.finish m₂).2 (b'.finish m₁).2 := by
  obtain ⟨x, obA, -, rdA, -, pa, ia, ja, -⟩ := start_ready S hP hA
  obtain ⟨y, obB, -, rdB, -, pb, ib, jb, -⟩ := start_ready S hP hB
  obtain ⟨x', y', hx', hy', hout⟩ := agreement_sym S hP hA hB
  have ex : x' = x := by rw [rdA.xy] at hx'; injection hx' with h; exact h.symm
  have ey : y' = y := by rw [rdB.xy] at hy'; injection hy' with h; exact h.symm
  subst ex; subst ey
  obtain ⟨rdA', fA, -⟩ := ra.finish_eq S rdA (ia ▸ hidS) (ja ▸ h₁) (pa ▸ hpw)
  obtain ⟨rdB', fB, -⟩ := rb.finish_eq S rdB (ib ▸ hidS) (jb ▸ h₂) (pb ▸ hpw)
  refine ⟨x', y', rdA'.xy, rdB'.xy, ?_⟩
  rw [fA, fB]; exact hout

/-- a restore chain actually exists whenever `hash_params()` is total: one round trip succeeds -/
theorem restore_chain_exists (S : GroupSpec G) {i : Inst G} {x : ℤ} {ob : Bytes}
    (h : Ready S i x ob) (hA : IsBytes i.idA) (hB : IsBytes i.idB) (hpw : IsBytes i.pw)
    {a0 : G.Elem} (ha : G.arb [] = .ok a0) :
    ∃ s i', i.serialize = .ok s ∧ fromSerialized i.side s i.params = .ok i' ∧ RestoredFrom i i' := by
  obtain ⟨s, hs⟩ := serialize_succeeds S h ha
  obtain ⟨i', hr, -⟩ := restore_transparent S h hA hB hpw hs
  exact ⟨s, i', hs, hr, .step (.refl i) hs hr⟩

end Spake2Verif

section Audit
open Spake2Verif
#print axioms agreement_with_restores
#print axioms agreement_sym_with_restores
#print axioms restore_chain_exists
end Audit
