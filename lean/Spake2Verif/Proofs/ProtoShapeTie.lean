import Spake2Model.Model.Spake2
import Spake2Model.Gen.ProtoShape
/-!
Tie A for the protocol glue of `spake2.py`: the hand-written model of `Model/Spake2.lean` IS the
translation `Gen/ProtoShape.lean` that `tools/py2lean.py` regenerates from the source on every run.

* `finalize_asym_tie`, `finalize_sym_tie` : the two transcript functions (as functions)
* `extract_asym_tie`, `extract_sym_tie`   : `_extract_message` for sides A/B and S (all messages)
* `class_sides_tie`                        : `SPAKE2_A.side`, `SPAKE2_B.side`, `SPAKE2_Symmetric.side`
* `hashParams_tie`                         : `hash_params` hashes exactly the translated pieces, in order
* `toDict_tie_asym`, `toDict_tie_sym`      : key names, order and the field each value comes from

The proofs normalise (`++` associativity, `List.flatten` of a literal list, `let`s, case analysis on
the side tests), so that harmless respellings of the Python (join vs `+`, extra locals,
merged/unmerged `OffSides` branches) still check, while any change of layout, order, recipe or
outcome does not.
-/
set_option linter.unusedSimpArgs false
namespace Spake2Verif.ProtoShapeTie
open Spake2Model Spake2Model.Gen

variable {G : Group}

/-! ### transcripts -/

theorem finalize_asym_tie : finalizeSPAKE2 = Proto.finalize_asym := by
  funext idA idB X Y K pw
  simp [finalizeSPAKE2, Proto.finalize_asym, List.append_assoc]

theorem finalize_sym_tie : finalizeSymmetric = Proto.finalize_sym := by
  funext idS m1 m2 K pw
  simp [finalizeSymmetric, Proto.finalize_sym, List.append_assoc]

/-! ### side checks -/

theorem class_sides_tie :
    Side.byte .A = Proto.class_side_A ∧ Side.byte .B = Proto.class_side_B ∧
      Side.byte .S = Proto.class_side_S := by
  simp [Side.byte, Proto.class_side_A, Proto.class_side_B, Proto.class_side_S,
    Consts.sideA, Consts.sideB, Consts.sideS]

theorem extract_asym_tie (s : Side) (hs : s ≠ .S) :
    extractMessage s = Proto.extract_asym s.byte := by
  funext msg
  by_cases hA : List.take 1 msg = [65] <;> by_cases hB : List.take 1 msg = [66] <;>
    by_cases hS : List.take 1 msg = [83] <;> cases s <;>
    simp_all [extractMessage, Proto.extract_asym, Side.byte, Consts.sideA, Consts.sideB,
      Consts.sideS, raise]

theorem extract_sym_tie : extractMessage .S = Proto.extract_sym := by
  funext msg
  by_cases hA : List.take 1 msg = [65] <;> by_cases hB : List.take 1 msg = [66] <;>
    by_cases hS : List.take 1 msg = [83] <;>
    simp_all [extractMessage, Proto.extract_sym, Side.byte, Consts.sideA, Consts.sideB,
      Consts.sideS, raise]

/-! ### parameter fingerprint -/

/-- the translated piece list of the class of side `s` -/
def hashPieces (s : Side) (arb sc M N S : Bytes) : List Bytes :=
  match s with
  | .S => Proto.hash_pieces_sym arb sc M N S
  | _ => Proto.hash_pieces_asym arb sc M N S

/-- `hash_params()` is the hex digest of the join of the translated pieces, applied to the encodings of
`arbitrary_element(b"")`, `password_to_scalar(b"")`, `M`, `N`, `S`; the two fallible group operations
are evaluated in the order of the source -/
theorem hashParams_tie (i : Inst G) :
    i.hashParams = (do
      let a ← G.arb []
      let s ← G.scalarEnc (G.p2s [])
      pure (hexlify (Sha.sha256 (hashPieces i.side (G.enc a) s
        (G.enc i.params.M) (G.enc i.params.N) (G.enc i.params.S)).flatten))) ∧
    Proto.hash_effects_asym = ["arb_empty", "scalar_enc"] ∧
    Proto.hash_effects_sym = ["arb_empty", "scalar_enc"] := by
  refine ⟨?_, by decide, by decide⟩
  cases hs : i.side <;>
    simp [Inst.hashParams, hs, hashPieces, Proto.hash_pieces_asym, Proto.hash_pieces_sym,
      List.append_assoc]

/-! ### state dictionary -/

/-- the value a symbolic field name of `dict_keys_*` stands for (`idA` holds `idSymmetric` on side S) -/
def fieldVal (i : Inst G) (hp xs : Bytes) (f : String) : Option Bytes :=
  if f = "hash_params" then some hp
  else if f = "side" then some i.side.byte
  else if f = "hex idA" then some (hexlify i.idA)
  else if f = "hex idB" then some (hexlify i.idB)
  else if f = "hex idS" then some (hexlify i.idA)
  else if f = "hex pw" then some (hexlify i.pw)
  else if f = "hex scalar" then some (hexlify xs)
  else none

/-- the dictionary described by a (key, field) list -/
def dictOfShape (i : Inst G) (hp xs : Bytes) : List (String × String) → Option Json.Dict
  | [] => some []
  | (k, f) :: r =>
    match fieldVal i hp xs f, dictOfShape i hp xs r with
    | some v, some d => some ((asciiOf k, v) :: d)
    | _, _ => none

/-- `_serialize_to_dict` with the member list taken from the translation -/
def toDictVia (i : Inst G) (shape : List (String × String)) : R Json.Dict := do
  let hp ← i.hashParams
  let x ← match i.xyScalar with | some x => pure x | none => raise .AttributeError
  let xs ← G.scalarEnc x
  match dictOfShape i hp xs shape with
  | some d => pure d
  | none => raise .AssertionError

theorem key_consts :
    k_hashed_params = asciiOf "hashed_params" ∧ k_side = asciiOf "side" ∧ k_idA = asciiOf "idA" ∧
    k_idB = asciiOf "idB" ∧ k_idS = asciiOf "idS" ∧ k_password = asciiOf "password" ∧
    k_xy_scalar = asciiOf "xy_scalar" := ⟨rfl, rfl, rfl, rfl, rfl, rfl, rfl⟩

theorem toDict_tie_asym (i : Inst G) (hs : i.side ≠ .S) :
    i.toDict = toDictVia i Proto.dict_keys_asym := by
  cases h : i.side <;> cases hx : i.xyScalar <;>
    simp_all [Inst.toDict, toDictVia, Proto.dict_keys_asym, dictOfShape, fieldVal, k_hashed_params, k_side,
      k_idA, k_idB, k_idS, k_password, k_xy_scalar]

theorem toDict_tie_sym (i : Inst G) (hs : i.side = .S) :
    i.toDict = toDictVia i Proto.dict_keys_sym := by
  cases hx : i.xyScalar <;>
    simp [Inst.toDict, toDictVia, Proto.dict_keys_sym, dictOfShape, fieldVal, hs, hx, k_hashed_params, k_side,
      k_idA, k_idB, k_idS, k_password, k_xy_scalar]

end Spake2Verif.ProtoShapeTie
