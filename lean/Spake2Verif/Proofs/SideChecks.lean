import Spake2Verif.Proofs.RestoreBasics
/-!
Property C06: the side byte and the reflection check.

* `finish_side`     : a message that does not start with the peer's side byte never yields a key
                      (`OffSides`; on side `S` an `AssertionError` for bytes other than `A`,`B`,`S`)
* `no_reflection`   : a message carrying the session's own element is refused (`ReflectionThwarted`)
* `*_restored`      : the same for sessions obtained from `from_serialized`
-/
namespace Spake2Verif
open Spake2Model Spake2Model.Gen

variable {G : Group}

/-! ### `_extract_message` on a wrong side byte -/

/-- sides `A`/`B`: anything whose first byte is not the peer's side byte is `OffSides`
(the empty message, the own side byte, `S`, and every other value included) -/
theorem extract_AB_offsides {side : Side} (hs : side ≠ .S) {msg : Bytes}
    (h : msg.take 1 ≠ peerByte side) : extractMessage side msg = .error .OffSides := by
  cases side with
  | S => exact absurd rfl hs
  | A =>
    simp only [peerByte] at h
    simp only [extractMessage, Side.byte]
    by_cases hA : msg.take 1 = Consts.sideA
    · simp [hA, Consts.sideA, Consts.sideB]
    · simp [hA, h]
  | B =>
    simp only [peerByte] at h
    simp only [extractMessage, Side.byte]
    by_cases hB : msg.take 1 = Consts.sideB
    · simp [hB, Consts.sideA, Consts.sideB]
    · simp [hB, h]

/-- side `S`: first byte `A` or `B` is `OffSides` -/
theorem extract_S_offsides {msg : Bytes}
    (h : msg.take 1 = Consts.sideA ∨ msg.take 1 = Consts.sideB) :
    extractMessage .S msg = .error .OffSides := by
  rcases h with h | h <;> simp [extractMessage, h, Consts.sideA, Consts.sideB]

/-- side `S`: any other first byte than `A`, `B`, `S` (and the empty message) is an `AssertionError` -/
theorem extract_S_assert {msg : Bytes} (hA : msg.take 1 ≠ Consts.sideA)
    (hB : msg.take 1 ≠ Consts.sideB) (hS : msg.take 1 ≠ Consts.sideS) :
    extractMessage .S msg = .error (.other .AssertionError) := by
  simp [extractMessage, hA, hB, hS, raise]

/-- on every side: a first byte other than the expected one is an error -/
theorem extract_wrong_side (side : Side) {msg : Bytes} (h : msg.take 1 ≠ peerByte side) :
    ∃ err, extractMessage side msg = .error err ∧
      (side ≠ .S → err = .OffSides) ∧
      (side = .S → (msg.take 1 = Consts.sideA ∨ msg.take 1 = Consts.sideB → err = .OffSides) ∧
                   (msg.take 1 ≠ Consts.sideA → msg.take 1 ≠ Consts.sideB →
                      err = .other .AssertionError)) := by
  by_cases hs : side = .S
  · subst hs
    by_cases hAB : msg.take 1 = Consts.sideA ∨ msg.take 1 = Consts.sideB
    · refine ⟨_, extract_S_offsides hAB, fun h' => absurd rfl h', fun _ => ⟨fun _ => rfl, ?_⟩⟩
      intro hA hB; rcases hAB with h' | h'
      · exact absurd h' hA
      · exact absurd h' hB
    · have hA : msg.take 1 ≠ Consts.sideA := fun h' => hAB (Or.inl h')
      have hB : msg.take 1 ≠ Consts.sideB := fun h' => hAB (Or.inr h')
      exact ⟨_, extract_S_assert hA hB h, fun h' => absurd rfl h',
        fun _ => ⟨fun h' => absurd h' hAB, fun _ _ => rfl⟩⟩
  · exact ⟨_, extract_AB_offsides hs h, fun _ => rfl, fun h' => absurd h' hs⟩

/-- the messages mentioned explicitly: empty, own side byte, `S` (for A/B), other values -/
theorem wrong_first_byte_examples (side : Side) (rest : Bytes) :
    ([] : Bytes).take 1 ≠ peerByte side ∧
    (side ≠ .S → (side.byte ++ rest).take 1 ≠ peerByte side) ∧
    (side ≠ .S → (Consts.sideS ++ rest).take 1 ≠ peerByte side) ∧
    (∀ c : Nat, c ≠ 65 → c ≠ 66 → c ≠ 83 → (c :: rest).take 1 ≠ peerByte side) := by
  cases side <;>
    simp [peerByte, Side.byte, Consts.sideA, Consts.sideB, Consts.sideS] <;> omega

/-! ### `finish()` -/

/-- **C06 (side byte).**  An unfinished session (started or not, fresh or restored) given a message
whose first byte is not the peer's side byte raises -- `OffSides` on sides `A`/`B` and for `A`/`B`
bytes on side `S`, `AssertionError` otherwise -- and returns no key; the session is consumed. -/
theorem finish_side (i : Inst G) (hf : i.finished = false) {msg : Bytes}
    (h : msg.take 1 ≠ peerByte i.side) :
    ∃ err, i.finish msg = ({ i with finished := true }, .error err) ∧
      (∀ k, (i.finish msg).2 ≠ .ok k) ∧
      (i.side ≠ .S → err = .OffSides) ∧
      (i.side = .S → (msg.take 1 = Consts.sideA ∨ msg.take 1 = Consts.sideB → err = .OffSides) ∧
                     (msg.take 1 ≠ Consts.sideA → msg.take 1 ≠ Consts.sideB →
                        err = .other .AssertionError)) := by
  obtain ⟨err, he, h1, h2⟩ := extract_wrong_side i.side h
  have := finish_extract_error i hf he
  refine ⟨err, this, fun k => ?_, h1, h2⟩
  rw [this]; intro h'; cases h'

/-- sides `A`/`B`, as an equation -/
theorem finish_side_AB (i : Inst G) (hf : i.finished = false) (hs : i.side ≠ .S) {msg : Bytes}
    (h : msg.take 1 ≠ peerByte i.side) : (i.finish msg).2 = .error .OffSides := by
  rw [finish_extract_error i hf (extract_AB_offsides hs h)]

/-- a message is accepted by the side check iff it starts with the peer's side byte -/
theorem extract_ok_iff (side : Side) (msg : Bytes) :
    (∃ body, extractMessage side msg = .ok body) ↔ msg.take 1 = peerByte side ∧ msg ≠ [] := by
  constructor
  · rintro ⟨body, h⟩
    have := extractMessage_ok h
    subst this
    cases side <;> simp [peerByte, Consts.sideA, Consts.sideB, Consts.sideS]
  · rintro ⟨h, -⟩
    refine ⟨msg.drop 1, ?_⟩
    have : msg = peerByte side ++ msg.drop 1 := by
      rw [← h]; exact (List.take_append_drop 1 msg).symm
    rw [this, extractMessage_peer]
    cases side <;> simp [peerByte, Consts.sideA, Consts.sideB, Consts.sideS]

/-- **C06 (reflection).**  If the body of an accepted message decodes to an element whose
encoding is the session's own outbound message, `finish()` raises `ReflectionThwarted`. -/
theorem no_reflection (i : Inst G) (hf : i.finished = false) {ob msg body : Bytes} {e : G.Elem}
    (hob : i.outbound = some ob) (hx : extractMessage i.side msg = .ok body)
    (hd : G.dec body = .ok e) (he : G.enc e = ob) :
    (i.finish msg).2 = .error .ReflectionThwarted ∧ ∀ k, (i.finish msg).2 ≠ .ok k := by
  have : (i.finish msg).2 = .error .ReflectionThwarted := by
    rw [finish_result i hf hx]
    simp [Inst.finishKey, hd, hob, he, bind, Except.bind, pure, Except.pure]
  exact ⟨this, fun k h => by rw [this] at h; cases h⟩

/-- Under the group contract: a byte-string body equal to the session's own outbound message never
produces a key (the decoder either refuses it or the reflection check fires). -/
theorem no_reflection_bytes (S : GroupSpec G) (i : Inst G) (hf : i.finished = false)
    {ob msg : Bytes} (hob : i.outbound = some ob) (hb : IsBytes ob)
    (hx : extractMessage i.side msg = .ok ob) :
    ((i.finish msg).2 = .error .ReflectionThwarted ∨ ∃ err, G.dec ob = .error err ∧
        (i.finish msg).2 = .error err) ∧ ∀ k, (i.finish msg).2 ≠ .ok k := by
  have : (i.finish msg).2 = .error .ReflectionThwarted ∨ ∃ err, G.dec ob = .error err ∧
        (i.finish msg).2 = .error err := by
    cases hd : G.dec ob with
    | error err =>
      refine Or.inr ⟨err, rfl, ?_⟩
      rw [finish_result i hf hx]; exact finishKey_dec_error hd
    | ok e => exact Or.inl (no_reflection i hf hob hx hd (S.dec_strict ob e hb hd).2).1
  refine ⟨this, fun k h => ?_⟩
  rcases this with h' | ⟨err, -, h'⟩ <;> rw [h'] at h <;> cases h

/-- a ready session never accepts its own outbound message, whatever single side byte is put in
front of it (own side byte: `OffSides`; on side `S` the peer byte is `S` itself: reflection) -/
theorem own_message_refused (S : GroupSpec G) {i : Inst G} {x : ℤ} {ob : Bytes}
    (h : Ready S i x ob) (c : Nat) : ∀ k, (i.finish (c :: ob)).2 ≠ .ok k := by
  intro k hk
  by_cases hp : (c :: ob).take 1 = peerByte i.side
  · have hx : extractMessage i.side (c :: ob) = .ok ob := by
      have : c :: ob = peerByte i.side ++ ob := by
        rw [← hp]; rfl
      rw [this]; exact extractMessage_peer _ _
    obtain ⟨e, -, -, -, -, hb⟩ := h.ob_elem
    exact (no_reflection_bytes S i h.finished h.outbound hb hx).2 k hk
  · obtain ⟨err, he, -⟩ := finish_side i h.finished hp
    rw [he] at hk; cases hk

/-- in particular the message the session itself sent (`side ‖ ob`) is refused -/
theorem own_start_message_refused (S : GroupSpec G) {P : Params G} (hP : ValidParams S P)
    {side : Side} {pw idA idB : Bytes} {ent : Entropy} {a : Inst G} {m : Bytes}
    (h : (Inst.new side pw idA idB P ent).start = (a, .ok m)) : ∀ k, (a.finish m).2 ≠ .ok k := by
  obtain ⟨x, ob, rfl, ra, sa, -⟩ := start_ready S hP h
  cases side <;> exact own_message_refused S ra _

/-! ### restored sessions -/

/-- **C06 for restored sessions (side byte).**  Whatever bytes were deserialised, the session
returned by `from_serialized` enforces the side check of the class it was restored as. -/
theorem finish_side_restored {side : Side} {data : Bytes} {P : Params G} {i' : Inst G}
    (hr : fromSerialized side data P = .ok i') {msg : Bytes} (h : msg.take 1 ≠ peerByte side) :
    ∃ err, (i'.finish msg).2 = .error err ∧ (∀ k, (i'.finish msg).2 ≠ .ok k) ∧
      (side ≠ .S → err = .OffSides) ∧
      (side = .S → (msg.take 1 = Consts.sideA ∨ msg.take 1 = Consts.sideB → err = .OffSides) ∧
                   (msg.take 1 ≠ Consts.sideA → msg.take 1 ≠ Consts.sideB →
                      err = .other .AssertionError)) := by
  obtain ⟨hs, -, -, hf, -⟩ := fromSerialized_fields hr
  subst hs
  obtain ⟨err, he, hk, h1, h2⟩ := finish_side i' hf h
  exact ⟨err, by rw [he], hk, h1, h2⟩

/-- **C06 for restored sessions (reflection).**  The outbound message of a restored session is the
one recomputed from the restored scalar; a body decoding to it is refused. -/
theorem no_reflection_restored {side : Side} {data : Bytes} {P : Params G} {i' : Inst G}
    (hr : fromSerialized side data P = .ok i') :
    ∃ ob, i'.outbound = some ob ∧
      ∀ msg body e, extractMessage side msg = .ok body → G.dec body = .ok e → G.enc e = ob →
        (i'.finish msg).2 = .error .ReflectionThwarted := by
  obtain ⟨hs, -, -, hf, -, -, -, x, ob, -, hob, -⟩ := fromSerialized_fields hr
  subst hs
  exact ⟨ob, hob, fun msg body e hx hd he => (no_reflection i' hf hob hx hd he).1⟩

end Spake2Verif

section Audit
open Spake2Verif
#print axioms finish_side
#print axioms finish_side_AB
#print axioms extract_ok_iff
#print axioms no_reflection
#print axioms no_reflection_bytes
#print axioms own_message_refused
#print axioms own_start_message_refused
#print axioms finish_side_restored
#print axioms no_reflection_restored
end Audit
