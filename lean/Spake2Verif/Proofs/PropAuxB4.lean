import Spake2Verif.Spec.Edwards
import Spake2Verif.Spec.EdOrder
import Spake2Verif.Proofs.EdBridge
import Spake2Verif.Proofs.EdLadder
/-!
Auxiliary lemmas for the property file C12: the points with `x = 0 ∨ y = 0` are *exactly* the points of order
1, 2 or 4 (i.e. those killed by 4).
-/
namespace Spake2Verif.PropAuxB
open Spake2Verif.Edw

variable {F : Type*} [Field F] {C : EdCurve F}

/-- `P + P = 0 ↔ x(P) = 0`: the points of order dividing 2 are `(0, 1)` and `(0, -1)` -/
theorem add_self_eq_zero_iff (P : Point C) : P + P = 0 ↔ P.x = 0 := by
  constructor
  · intro h
    have hneg : P = -P := eq_neg_of_add_eq_zero_left h
    have hx : P.x = -P.x := by
      conv_lhs => rw [hneg]
      exact Point.neg_x P
    have h2 : (2 : F) * P.x = 0 := by linear_combination hx
    rcases mul_eq_zero.1 h2 with h | h
    · exact absurd h C.h2
    · exact h
  · exact Point.add_self_of_x_eq_zero

/-- `x(P + P) = 0 ↔ x(P) = 0 ∨ y(P) = 0` -/
theorem add_self_x_eq_zero_iff (P : Point C) : (P + P).x = 0 ↔ (P.x = 0 ∨ P.y = 0) := by
  rw [Point.add_x]
  unfold addX
  have hden := (denoms_ne (Point.complete P P)).1
  rw [div_eq_zero_iff]
  constructor
  · rintro (h | h)
    · have : (2 : F) * (P.x * P.y) = 0 := by linear_combination h
      rcases mul_eq_zero.1 this with h | h
      · exact absurd h C.h2
      · exact mul_eq_zero.1 h
    · exact absurd h hden
  · rintro (h | h)
    · left; rw [h]; ring
    · left; rw [h]; ring

/-- the points killed by 4 (order 1, 2 or 4) are exactly those with `x = 0` or `y = 0` -/
theorem four_zsmul_eq_zero_iff (P : Point C) : (4 : ℤ) • P = 0 ↔ (P.x = 0 ∨ P.y = 0) := by
  have e : (4 : ℤ) • P = (P + P) + (P + P) := by
    have : (4 : ℤ) = 1 + 1 + (1 + 1) := by norm_num
    rw [this, add_zsmul, add_zsmul, one_zsmul]
  rw [e, add_self_eq_zero_iff, add_self_x_eq_zero_iff]

/-- the same with the additive order -/
theorem addOrderOf_dvd_four_iff (P : Point C) : addOrderOf P ∣ 4 ↔ (P.x = 0 ∨ P.y = 0) := by
  rw [← four_zsmul_eq_zero_iff, addOrderOf_dvd_iff_nsmul_eq_zero]
  constructor
  · intro h
    have : ((4 : ℕ) : ℤ) • P = 0 := by rw [natCast_zsmul]; exact h
    exact_mod_cast this
  · intro h
    have : ((4 : ℕ) : ℤ) • P = 0 := by exact_mod_cast h
    rwa [natCast_zsmul] at this

end Spake2Verif.PropAuxB
