import Spake2Verif.Proofs.JsonProofs
import Spake2Verif.Proofs.TranscriptProofs
/-!
`serialize()` produces a dictionary of clean strings with distinct keys, so that the JSON layer
is transparent: `from_serialized` sees, for every key, exactly the field that was written, for any
member order and any inter-token whitespace.
-/
namespace Spake2Model
namespace Serialize
open Json JsonAux Transcript

variable {G : Group}

/-- the group's scalar encoder returns byte strings -/
def ScalarEncBytes (G : Group) : Prop := ∀ x xs, G.scalarEnc x = .ok xs → IsBytes xs

theorem side_byte_clean (s : Side) : Clean s.byte ∧ 127 ∉ s.byte := by
  cases s <;> decide

theorem hashParams_hex {i : Inst G} {hp : Bytes} (h : i.hashParams = .ok hp) :
    ∃ m, hp = hexlify (Sha.sha256 m) := by
  unfold Inst.hashParams at h
  cases ha : G.arb [] with
  | error e => rw [ha] at h; cases h
  | ok a =>
    cases hs : G.scalarEnc (G.p2s []) with
    | error e => rw [ha, hs] at h; cases h
    | ok s =>
      rw [ha, hs] at h
      simp only [bind, Except.bind, pure, Except.pure, Except.ok.injEq] at h
      exact ⟨_, h.symm⟩

/-- the dictionary `_serialize_to_dict` builds, explicitly -/
def dictOf (side : Side) (hp idA idB pw xs : Bytes) : Json.Dict :=
  match side with
  | .S => [(k_hashed_params, hp), (k_side, side.byte), (k_idS, hexlify idA),
           (k_password, hexlify pw), (k_xy_scalar, hexlify xs)]
  | _ => [(k_hashed_params, hp), (k_side, side.byte), (k_idA, hexlify idA), (k_idB, hexlify idB),
          (k_password, hexlify pw), (k_xy_scalar, hexlify xs)]

theorem toDict_eq {i : Inst G} {d : Json.Dict} (h : i.toDict = .ok d) :
    ∃ hp x xs, i.hashParams = .ok hp ∧ i.xyScalar = some x ∧ G.scalarEnc x = .ok xs ∧
      d = dictOf i.side hp i.idA i.idB i.pw xs := by
  unfold Inst.toDict at h
  cases hh : i.hashParams with
  | error e => simp [hh, bind, Except.bind] at h
  | ok hp =>
    cases hx : i.xyScalar with
    | none => simp [hh, hx, bind, Except.bind, raise] at h
    | some x =>
      simp only [hh, hx, bind, Except.bind, pure, Except.pure] at h
      cases hs : G.scalarEnc x with
      | error e => simp [hs] at h
      | ok xs =>
        rw [hs] at h
        refine ⟨hp, x, xs, rfl, rfl, hs, ?_⟩
        cases hside : i.side <;> simp only [hside, Except.ok.injEq] at h <;> exact h.symm

theorem dictOf_keys_nodup (side : Side) (hp idA idB pw xs : Bytes) :
    (keys (dictOf side hp idA idB pw xs)).Nodup := by
  cases side <;> simp only [dictOf, keys, List.map_cons, List.map_nil] <;> decide

theorem dictOf_clean (side : Side) {hp idA idB pw xs : Bytes} (hhp : Clean hp)
    (hA : IsBytes idA) (hB : IsBytes idB) (hpw : IsBytes pw) (hxs : IsBytes xs) :
    CleanDict (dictOf side hp idA idB pw xs) := by
  have kc := key_constants_clean
  have sc := (side_byte_clean side).1
  have cA := hexlify_clean _ hA
  have cB := hexlify_clean _ hB
  have cp := hexlify_clean _ hpw
  have cx := hexlify_clean _ hxs
  cases side <;> simp only [dictOf, CleanDict, List.mem_cons, List.not_mem_nil, or_false] <;>
    intro p hp <;> rcases hp with rfl | rfl | rfl | rfl | rfl | hp <;>
    first
      | exact ⟨by simp only [kc], by assumption⟩
      | (subst hp; exact ⟨by simp only [kc], by assumption⟩)

theorem dictOf_no_del (side : Side) {hp idA idB pw xs : Bytes} (d0 : 127 ∉ hp)
    (dA : 127 ∉ hexlify idA) (dB : 127 ∉ hexlify idB) (dp : 127 ∉ hexlify pw)
    (dx : 127 ∉ hexlify xs) :
    ∀ p ∈ dictOf side hp idA idB pw xs, 127 ∉ p.1 ∧ 127 ∉ p.2 := by
  have kd := allKeys_no_del
  have sd := (side_byte_clean side).2
  cases side <;> simp only [dictOf, List.mem_cons, List.not_mem_nil, or_false] <;>
    intro p hp <;> rcases hp with rfl | rfl | rfl | rfl | rfl | hp <;>
    first
      | exact ⟨kd _ (by simp [allKeys]), by assumption⟩
      | (subst hp; exact ⟨kd _ (by simp [allKeys]), by assumption⟩)

/-- reading a string field / a hex field -/
theorem getStr_of_mem {d : Json.Dict} {k v : Bytes} (hn : (keys d).Nodup) (h : (k, v) ∈ d) :
    getStr d k = .ok v := by
  simp [getStr, lookup_of_mem hn h]

theorem getHex_of_mem {d : Json.Dict} {k b : Bytes} (hn : (keys d).Nodup) (hb : IsBytes b)
    (h : (k, hexlify b) ∈ d) : getHex d k = .ok b := by
  simp [getHex, lookup_of_mem hn h, unhexlify_hexlify b hb]

theorem getStr_perm {d d' : Json.Dict} (hn : (keys d).Nodup) (hp : d'.Perm d) (k : Bytes) :
    getStr d' k = getStr d k := by
  simp [getStr, lookup_perm hn hp]

theorem getHex_perm {d d' : Json.Dict} (hn : (keys d).Nodup) (hp : d'.Perm d) (k : Bytes) :
    getHex d' k = getHex d k := by
  simp [getHex, lookup_perm hn hp]

/-- **What `serialize()` writes is what `from_serialized()` reads.**
If `serialize` succeeds with output `s` then `s` is the standard JSON text of an explicit
dictionary `d`; `s` is ASCII, parses back to `d`, and each field is recovered exactly. -/
theorem serialize_fields {i : Inst G} {s : Bytes} (h : i.serialize = .ok s)
    (hA : IsBytes i.idA) (hB : IsBytes i.idB) (hpw : IsBytes i.pw) (hsc : ScalarEncBytes G) :
    ∃ d hp x xs,
      i.started = true ∧ i.hashParams = .ok hp ∧ i.xyScalar = some x ∧ G.scalarEnc x = .ok xs ∧
      d = dictOf i.side hp i.idA i.idB i.pw xs ∧ s = Json.dumps d ∧
      CleanDict d ∧ (keys d).Nodup ∧
      s.any (· ≥ 128) = false ∧ (∀ c ∈ s, 32 ≤ c ∧ c ≤ 126) ∧
      Json.parse s = some d ∧
      getStr d k_hashed_params = .ok hp ∧ getStr d k_side = .ok i.side.byte ∧
      getHex d k_password = .ok i.pw ∧ getHex d k_xy_scalar = .ok xs ∧
      (i.side = .S → getHex d k_idS = .ok i.idA) ∧
      (i.side ≠ .S → getHex d k_idA = .ok i.idA ∧ getHex d k_idB = .ok i.idB) := by
  unfold Inst.serialize at h
  cases hst : i.started with
  | false => simp [hst] at h
  | true =>
    simp only [hst, Bool.not_true, Bool.false_eq_true, if_false] at h
    cases hd : i.toDict with
    | error e => rw [hd] at h; cases h
    | ok d =>
      rw [hd] at h
      simp only [bind, Except.bind, pure, Except.pure, Except.ok.injEq] at h
      obtain ⟨hp, x, xs, hhp, hx, hxs, rfl⟩ := toDict_eq hd
      obtain ⟨m, rfl⟩ := hashParams_hex hhp
      have bxs := hsc x xs hxs
      have bsha := sha256_isBytes m
      have hn := dictOf_keys_nodup i.side (hexlify (Sha.sha256 m)) i.idA i.idB i.pw xs
      have hc := dictOf_clean i.side (hexlify_clean _ bsha) hA hB hpw bxs
      have hdel := dictOf_no_del i.side (hexlify_no_del _ bsha) (hexlify_no_del _ hA)
        (hexlify_no_del _ hB) (hexlify_no_del _ hpw) (hexlify_no_del _ bxs)
      refine ⟨_, _, x, xs, rfl, hhp, hx, hxs, rfl, h.symm, hc, hn, ?_, ?_, ?_, ?_, ?_, ?_, ?_, ?_, ?_⟩
      · rw [← h]; exact dumps_no_high hc
      · rw [← h]; exact dumps_printable hc hdel
      · rw [← h]; exact parse_dumps hc
      · exact getStr_of_mem hn (by cases i.side <;> simp [dictOf])
      · exact getStr_of_mem hn (by cases i.side <;> simp [dictOf])
      · exact getHex_of_mem hn hpw (by cases i.side <;> simp [dictOf])
      · exact getHex_of_mem hn bxs (by cases i.side <;> simp [dictOf])
      · intro hS
        exact getHex_of_mem hn hA (by rw [hS]; simp [dictOf])
      · intro hS
        constructor
        · exact getHex_of_mem hn hA (by revert hS; cases i.side <;> simp [dictOf])
        · exact getHex_of_mem hn hB (by revert hS; cases i.side <;> simp [dictOf])

/-- `from_serialized` on any reordered, re-spaced rendering of the serialised dictionary behaves
as `fromDict` on that reordering; and `fromDict` only looks at `getStr`/`getHex`, which are
order-independent (`getStr_perm`, `getHex_perm`). -/
theorem fromSerialized_dumpsWs {side : Side} {params : Params G} {w0 w1 : Bytes}
    {ws : Nat → PairWs} {d' : Json.Dict}
    (h0 : IsWs w0) (h1 : IsWs w1) (hws : ∀ i, (ws i).Ok) (hc : CleanDict d') :
    fromSerialized side (dumpsWs w0 w1 ws d') params = fromDict side d' params := by
  have hascii : (dumpsWs w0 w1 ws d').any (· ≥ 128) = false := by
    rw [List.any_eq_false]
    intro c hcm
    have := dumpsWs_ascii h0 h1 hws hc c hcm
    simp; omega
  unfold fromSerialized
  rw [hascii, parse_dumpsWs h0 h1 hws hc]
  simp

/-- `from_serialized(serialize())` gets past the ASCII test and the JSON parser and continues
with exactly the dictionary that was written -/
theorem fromSerialized_serialize {i : Inst G} {s : Bytes} (h : i.serialize = .ok s)
    (hA : IsBytes i.idA) (hB : IsBytes i.idB) (hpw : IsBytes i.pw) (hsc : ScalarEncBytes G)
    (side : Side) (params : Params G) :
    ∃ hp x xs, i.hashParams = .ok hp ∧ i.xyScalar = some x ∧ G.scalarEnc x = .ok xs ∧
      fromSerialized side s params
        = fromDict side (dictOf i.side hp i.idA i.idB i.pw xs) params := by
  obtain ⟨d, hp, x, xs, _, h1, h2, h3, rfl, _, _, _, h4, _, h5, _⟩ :=
    serialize_fields h hA hB hpw hsc
  refine ⟨hp, x, xs, h1, h2, h3, ?_⟩
  unfold fromSerialized
  rw [h4, h5]
  simp

end Serialize
end Spake2Model

section Audit
open Spake2Model Spake2Model.Serialize
#print axioms toDict_eq
#print axioms dictOf_clean
#print axioms dictOf_keys_nodup
#print axioms getStr_perm
#print axioms getHex_perm
#print axioms serialize_fields
#print axioms fromSerialized_dumpsWs
#print axioms fromSerialized_serialize
end Audit
