import Spake2Verif.Proofs.ProtoSummary
import Spake2Verif.Proofs.SideChecks
import Spake2Verif.Proofs.Restore
import Spake2Verif.Spec.IntGroupSpec
import Spake2Verif.Spec.Ed25519Inst
/-!
Auxiliary definitions and lemmas for the property files `Properties/C01 … C10`
(the property files themselves contain only `theorem`s and `example`s).

* short names for the shipped group objects (`G1024 … GEd, GEdPub`);
* `validParams_of_mkParams`: a parameter set produced by `mkParams` (`_Params(group, M=…, N=…, S=…)`
  with the three elements obtained from `arbitrary_element`) is valid -- from `GroupSpec.arb_valid`;
* the toy group `IntegerGroup(23, 11, 2)` of the test-suite with its default parameter set
  (`M = 3, N = 18, S = 8`, evaluated in the kernel), used for the non-vacuity `example`s;
* small derived facts that need a `def`/`lemma` and therefore cannot live in a property file.
-/
namespace Spake2Verif
namespace PropAux
open Spake2Model Spake2Model.Gen Spake2Model.Transcript

/-! ### the shipped group objects -/

/-- `I1024` as computed from the constants *generated from the current source* -/
abbrev G1024 : Group := intGroup ⟨IntGroup.I1024_p, IntGroup.I1024_q, IntGroup.I1024_g⟩
abbrev G2048 : Group := intGroup ⟨IntGroup.I2048_p, IntGroup.I2048_q, IntGroup.I2048_g⟩
abbrev G3072 : Group := intGroup ⟨IntGroup.I3072_p, IntGroup.I3072_q, IntGroup.I3072_g⟩
/-- `Ed25519Group` with the constants the module computes -/
abbrev GEd : Group := edGroup Spake2Model.ed25519
/-- `Ed25519Group` over the literal RFC 8032 constants -/
abbrev GEdPub : Group := edGroup Published.curve

variable {G : Group}

/-! ### parameter sets produced by `mkParams` are valid -/

theorem mkParams_inv {mSeed nSeed sSeed : Bytes} {P : Params G}
    (h : mkParams G mSeed nSeed sSeed = .ok P) :
    G.arb mSeed = .ok P.M ∧ G.arb nSeed = .ok P.N ∧ G.arb sSeed = .ok P.S := by
  unfold mkParams at h
  cases hM : G.arb mSeed with
  | error e => simp [hM, bind, Except.bind] at h
  | ok M =>
    cases hN : G.arb nSeed with
    | error e => simp [hM, hN, bind, Except.bind] at h
    | ok N =>
      cases hS : G.arb sSeed with
      | error e => simp [hM, hN, hS, bind, Except.bind] at h
      | ok S' =>
        simp only [hM, hN, hS, bind, Except.bind, pure, Except.pure, Except.ok.injEq] at h
        subst h
        exact ⟨rfl, rfl, rfl⟩

theorem mkParams_of_arb {mSeed nSeed sSeed : Bytes} {M N S' : G.Elem}
    (hM : G.arb mSeed = .ok M) (hN : G.arb nSeed = .ok N) (hS : G.arb sSeed = .ok S') :
    mkParams G mSeed nSeed sSeed = .ok ⟨M, N, S'⟩ := by
  simp [mkParams, hM, hN, hS, bind, Except.bind, pure, Except.pure]

/-- every parameter set built by `mkParams` consists of valid elements (`arb_valid`) -/
theorem validParams_of_mkParams (S : GroupSpec G) {mSeed nSeed sSeed : Bytes} {P : Params G}
    (h : mkParams G mSeed nSeed sSeed = .ok P) : ValidParams S P := by
  obtain ⟨hM, hN, hS⟩ := mkParams_inv h
  exact ⟨S.arb_valid _ _ hM, S.arb_valid _ _ hN, S.arb_valid _ _ hS⟩

/-! ### `start()` succeeds whenever the entropy source yields a scalar -/

theorem start_exists (S : GroupSpec G) {P : Params G} (hP : ValidParams S P) (side : Side)
    (pw idA idB : Bytes) {ent ent' : Entropy} {x : ℤ} (hr : G.randomScalar ent = .ok (x, ent')) :
    ∃ a m, (Inst.new side pw idA idB P ent).start = (a, .ok m) ∧ a.xyScalar = some x := by
  obtain ⟨e, -, -, -, h⟩ := start_ok S hP side pw idA idB ent hr
  exact ⟨_, _, h, rfl⟩


/-! ### C06 helpers -/

/-- a key is only ever returned for an unfinished session and a message that starts with the peer's
side byte (no hypothesis on the record) -/
theorem finish_ok_peer_byte (i : Inst G) {msg k : Bytes} (h : (i.finish msg).2 = .ok k) :
    i.finished = false ∧ msg.take 1 = peerByte i.side ∧
      ∃ body, msg = peerByte i.side ++ body ∧ extractMessage i.side msg = .ok body := by
  cases hf : i.finished with
  | true => rw [finish_twice i hf] at h; cases h
  | false =>
    by_cases hp : msg.take 1 = peerByte i.side
    · have hm : msg = peerByte i.side ++ msg.drop 1 := by
        rw [← hp]; exact (List.take_append_drop 1 msg).symm
      refine ⟨rfl, hp, msg.drop 1, hm, ?_⟩
      conv_lhs => rw [hm]
      exact extractMessage_peer _ _
    · obtain ⟨err, he, -⟩ := finish_side i hf hp
      rw [he] at h; cases h

/-- a session returned by `from_serialized` under valid parameters refuses its own (recomputed)
outbound element under every label -/
theorem own_message_refused_restored (S : GroupSpec G) {P : Params G} (hP : ValidParams S P)
    {side : Side} {data : Bytes} {i' : Inst G} (hr : fromSerialized side data P = .ok i') :
    ∃ ob, i'.outbound = some ob ∧ ∀ (c : Nat) (k : Bytes), (i'.finish (c :: ob)).2 ≠ .ok k := by
  obtain ⟨-, hpar, -, hf, -, -, -, x, ob, -, hob, hof⟩ := fromSerialized_fields hr
  obtain ⟨e, v, -, he⟩ := outboundFor_spec S i' (hpar ▸ hP) x
  rw [hof] at he
  injection he with he
  have hb : IsBytes ob := he ▸ (S.enc_len e v).2
  refine ⟨ob, hob, fun c k hk => ?_⟩
  by_cases hp : (c :: ob).take 1 = peerByte i'.side
  · have hx : extractMessage i'.side (c :: ob) = .ok ob := by
      have : c :: ob = peerByte i'.side ++ ob := by rw [← hp]; rfl
      rw [this]; exact extractMessage_peer _ _
    exact (no_reflection_bytes S i' hf hob hb hx).2 k hk
  · obtain ⟨err, he', -⟩ := finish_side i' hf hp
    rw [he'] at hk; cases hk

/-- the message a session sent is refused by every session restored from it -/
theorem own_start_message_refused_restored (S : GroupSpec G) {P : Params G} (hP : ValidParams S P)
    {side : Side} {pw idA idB : Bytes} (hpw : IsBytes pw) (hidA : IsBytes idA) (hidB : IsBytes idB)
    {ent : Entropy} {a a' : Inst G} {m : Bytes}
    (h : (Inst.new side pw idA idB P ent).start = (a, .ok m)) (hr : RestoredFrom a a') :
    ∀ k, (a'.finish m).2 ≠ .ok k := by
  obtain ⟨x, ob, -, rd, -, pa, ia, ja, -⟩ := start_ready S hP h
  obtain ⟨-, f, -⟩ := hr.finish_eq S rd (ia ▸ hidA) (ja ▸ hidB) (pa ▸ hpw)
  intro k
  rw [f]
  exact own_start_message_refused S hP h k


/-! ### C08 helpers -/

/-- C08 for a session produced by `start()` whose `serialize()` returned `s` -/
theorem restore_transparent_started (S : GroupSpec G) {P : Params G} (hP : ValidParams S P)
    {side : Side} {pw idA idB : Bytes} (hpw : IsBytes pw) (hidA : IsBytes idA) (hidB : IsBytes idB)
    {ent : Entropy} {a : Inst G} {m s : Bytes}
    (hst : (Inst.new side pw idA idB P ent).start = (a, .ok m)) (hs : a.serialize = .ok s) :
    (∀ c ∈ s, 0x20 ≤ c ∧ c ≤ 0x7e) ∧
    ∃ a', fromSerialized side s P = .ok a' ∧ SameSession a a' ∧ a'.serialize = .ok s ∧
      (∀ msg, (a'.finish msg).2 = (a.finish msg).2) ∧
      ∀ a'', RestoredFrom a a'' →
        a''.serialize = .ok s ∧ ∀ msg, (a''.finish msg).2 = (a.finish msg).2 := by
  obtain ⟨x, ob, -, rd, sa, pa, ia, ja, qa, -⟩ := start_ready S hP hst
  have bA : IsBytes a.idA := ia ▸ hidA
  have bB : IsBytes a.idB := ja ▸ hidB
  have bp : IsBytes a.pw := pa ▸ hpw
  obtain ⟨a', hr, hss, -, -, -, -, hs', hf⟩ := restore_transparent S rd bA bB bp hs
  rw [sa, qa] at hr
  refine ⟨(serialize_printable S rd bA bB bp hs).1, a', hr, hss, hs', hf, fun a'' hr'' => ?_⟩
  obtain ⟨-, f, e⟩ := hr''.finish_eq S rd bA bB bp
  exact ⟨e.trans hs, f⟩

/-! ### the toy group `IntegerGroup(23, 11, 2)` -/

def toyP : IntGroupParams := ⟨23, 11, 2⟩
abbrev toyG : Group := intGroup toyP

noncomputable def toySpec : GroupSpec toyG :=
  intGroupSpec toyP (by decide) (by decide) (by decide) (by decide)

/-- `M, N, S = arbitrary_element(b"M"), (b"N"), (b"symmetric")` in the toy group -/
def toyParams : Params toyG := ⟨(3 : ℤ), (18 : ℤ), (8 : ℤ)⟩

theorem toy_arb_M : IG.arb toyP Consts.seedM = .ok 3 := by decide +kernel
theorem toy_arb_N : IG.arb toyP Consts.seedN = .ok 18 := by decide +kernel
theorem toy_arb_S : IG.arb toyP Consts.seedS = .ok 8 := by decide +kernel
theorem toy_arb_empty : IG.arb toyP [] = .ok 9 := by decide +kernel

set_option maxRecDepth 8000 in
theorem toy_mkParams : mkParams toyG Consts.seedM Consts.seedN Consts.seedS = .ok toyParams := by
  have hM : toyG.arb Consts.seedM = .ok (3 : ℤ) := toy_arb_M
  have hN : toyG.arb Consts.seedN = .ok (18 : ℤ) := toy_arb_N
  have hS : toyG.arb Consts.seedS = .ok (8 : ℤ) := toy_arb_S
  exact mkParams_of_arb hM hN hS

set_option maxRecDepth 8000 in
/-- `arbitrary_element(b"")` (evaluated by `hash_params()`) in the toy group -/
theorem toyG_arb_empty : toyG.arb [] = .ok (9 : ℤ) := toy_arb_empty

theorem toy_defaultParams : defaultParams toyG = .ok toyParams := toy_mkParams

theorem toy_valid : ValidParams toySpec toyParams := validParams_of_mkParams _ toy_mkParams

theorem toy_baseOrder : toySpec.BaseOrder :=
  baseOrder_of_prime _ _ _ _ _ (by decide) (by decide)

theorem toy_torsionIsCyclic : toySpec.TorsionIsCyclic :=
  torsionIsCyclic_of_prime_modulus _ _ _ _ _ (by decide) (by decide) (by decide)

/-- the one-byte entropy stream `[x]`, `x < 11`, makes `random_scalar` return `x` -/
theorem toy_random (x : ℕ) (hx : x < 11) : toyG.randomScalar ⟨[x]⟩ = .ok ((x : ℤ), ⟨[]⟩) := by
  show IG.randomScalar toyP ⟨[x]⟩ = _
  interval_cases x <;> decide +kernel

/-- the password `b"\x0d"` has password scalar `0` in the toy group (edge case `w = 0`) -/
theorem toy_pw_zero : toyG.p2s [13] = 0 := by
  show IG.p2s toyP [13] = 0
  decide +kernel

/-- the password `b"\x01"` has password scalar `3` -/
theorem toy_pw_three : toyG.p2s [1] = 3 := by
  show IG.p2s toyP [1] = 3
  decide +kernel

/-- a started toy session exists for every side, password, identities and scalar `x < 11` -/
theorem toy_start (side : Side) (pw idA idB : Bytes) (x : ℕ) (hx : x < 11) :
    ∃ a m, (Inst.new side pw idA idB toyParams ⟨[x]⟩).start = (a, .ok m) ∧
      a.xyScalar = some (x : ℤ) :=
  start_exists toySpec toy_valid side pw idA idB (toy_random x hx)

end PropAux
end Spake2Verif

section Audit
open Spake2Verif.PropAux
#print axioms validParams_of_mkParams
#print axioms toy_mkParams
#print axioms toy_valid
#print axioms toy_start
end Audit
