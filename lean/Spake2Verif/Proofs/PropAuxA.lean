import Spake2Verif.Proofs.ProtoSummary
import Spake2Verif.Proofs.SideChecks
import Spake2Verif.Proofs.Restore
import Spake2Verif.Proofs.HistoryGroups
import Spake2Verif.Spec.IntGroupSpec
import Spake2Verif.Spec.Ed25519Inst
import Spake2Verif.Spec.CurveCard
import Spake2Verif.Proofs.PublishedEvalEd
/-!
Auxiliary definitions and lemmas for the property files `Properties/C01 … C10`
(the property files themselves contain only `theorem`s and `example`s).

* short names for the shipped group objects (`G1024 … GEd, GEdPub`);
* `validParams_of_mkParams`: a parameter set produced by `mkParams` (`_Params(group, M=…, N=…, S=…)`
  with the three elements obtained from `arbitrary_element`) is valid -- from `GroupSpec.arb_valid`;
* the toy group `IntegerGroup(23, 11, 2)` of the test-suite with its default parameter set
  (`M = 3, N = 18, S = 8`, evaluated in the kernel), used for the non-vacuity `example`s;
* small derived facts that need a `def`/`lemma` and therefore cannot live in a property file.
-/
namespace Spake2Verif
namespace PropAux
open Spake2Model Spake2Model.Gen Spake2Model.Transcript Spake2Model.Json Spake2Model.Serialize

/-! ### the shipped group objects -/

/-- `I1024` as computed from the constants *generated from the current source* -/
abbrev G1024 : Group := intGroup ⟨IntGroup.I1024_p, IntGroup.I1024_q, IntGroup.I1024_g⟩
abbrev G2048 : Group := intGroup ⟨IntGroup.I2048_p, IntGroup.I2048_q, IntGroup.I2048_g⟩
abbrev G3072 : Group := intGroup ⟨IntGroup.I3072_p, IntGroup.I3072_q, IntGroup.I3072_g⟩
/-- `Ed25519Group` with the constants the module computes -/
abbrev GEd : Group := edGroup Spake2Model.ed25519
/-- `Ed25519Group` over the literal RFC 8032 constants -/
abbrev GEdPub : Group := edGroup Published.curve

variable {G : Group}

/-! ### parameter sets produced by `mkParams` are valid -/

theorem mkParams_inv {mSeed nSeed sSeed : Bytes} {P : Params G}
    (h : mkParams G mSeed nSeed sSeed = .ok P) :
    G.arb mSeed = .ok P.M ∧ G.arb nSeed = .ok P.N ∧ G.arb sSeed = .ok P.S := by
  unfold mkParams at h
  cases hM : G.arb mSeed with
  | error e => simp [hM, bind, Except.bind] at h
  | ok M =>
    cases hN : G.arb nSeed with
    | error e => simp [hM, hN, bind, Except.bind] at h
    | ok N =>
      cases hS : G.arb sSeed with
      | error e => simp [hM, hN, hS, bind, Except.bind] at h
      | ok S' =>
        simp only [hM, hN, hS, bind, Except.bind, pure, Except.pure, Except.ok.injEq] at h
        subst h
        exact ⟨rfl, rfl, rfl⟩

theorem mkParams_of_arb {mSeed nSeed sSeed : Bytes} {M N S' : G.Elem}
    (hM : G.arb mSeed = .ok M) (hN : G.arb nSeed = .ok N) (hS : G.arb sSeed = .ok S') :
    mkParams G mSeed nSeed sSeed = .ok ⟨M, N, S'⟩ := by
  simp [mkParams, hM, hN, hS, bind, Except.bind, pure, Except.pure]

/-- every parameter set built by `mkParams` consists of valid elements (`arb_valid`) -/
theorem validParams_of_mkParams (S : GroupSpec G) {mSeed nSeed sSeed : Bytes} {P : Params G}
    (h : mkParams G mSeed nSeed sSeed = .ok P) : ValidParams S P := by
  obtain ⟨hM, hN, hS⟩ := mkParams_inv h
  exact ⟨S.arb_valid _ _ hM, S.arb_valid _ _ hN, S.arb_valid _ _ hS⟩

/-! ### `start()` succeeds whenever the entropy source yields a scalar -/

theorem start_exists (S : GroupSpec G) {P : Params G} (hP : ValidParams S P) (side : Side)
    (pw idA idB : Bytes) {ent ent' : Entropy} {x : ℤ} (hr : G.randomScalar ent = .ok (x, ent')) :
    ∃ a m, (Inst.new side pw idA idB P ent).start = (a, .ok m) ∧ a.xyScalar = some x := by
  obtain ⟨e, -, -, -, h⟩ := start_ok S hP side pw idA idB ent hr
  exact ⟨_, _, h, rfl⟩


/-! ### C06 helpers -/

/-- a key is only ever returned for an unfinished session and a message that starts with the peer's
side byte (no hypothesis on the record) -/
theorem finish_ok_peer_byte (i : Inst G) {msg k : Bytes} (h : (i.finish msg).2 = .ok k) :
    i.finished = false ∧ msg.take 1 = peerByte i.side ∧
      ∃ body, msg = peerByte i.side ++ body ∧ extractMessage i.side msg = .ok body := by
  cases hf : i.finished with
  | true => rw [finish_twice i hf] at h; cases h
  | false =>
    by_cases hp : msg.take 1 = peerByte i.side
    · have hm : msg = peerByte i.side ++ msg.drop 1 := by
        rw [← hp]; exact (List.take_append_drop 1 msg).symm
      refine ⟨rfl, hp, msg.drop 1, hm, ?_⟩
      conv_lhs => rw [hm]
      exact extractMessage_peer _ _
    · obtain ⟨err, he, -⟩ := finish_side i hf hp
      rw [he] at h; cases h

/-- a session returned by `from_serialized` under valid parameters refuses its own (recomputed)
outbound element under every label -/
theorem own_message_refused_restored (S : GroupSpec G) {P : Params G} (hP : ValidParams S P)
    {side : Side} {data : Bytes} {i' : Inst G} (hr : fromSerialized side data P = .ok i') :
    ∃ ob, i'.outbound = some ob ∧ ∀ (c : Nat) (k : Bytes), (i'.finish (c :: ob)).2 ≠ .ok k := by
  obtain ⟨-, hpar, -, hf, -, -, -, x, ob, -, hob, hof⟩ := fromSerialized_fields hr
  obtain ⟨e, v, -, he⟩ := outboundFor_spec S i' (hpar ▸ hP) x
  rw [hof] at he
  injection he with he
  have hb : IsBytes ob := he ▸ (S.enc_len e v).2
  refine ⟨ob, hob, fun c k hk => ?_⟩
  by_cases hp : (c :: ob).take 1 = peerByte i'.side
  · have hx : extractMessage i'.side (c :: ob) = .ok ob := by
      have : c :: ob = peerByte i'.side ++ ob := by rw [← hp]; rfl
      rw [this]; exact extractMessage_peer _ _
    exact (no_reflection_bytes S i' hf hob hb hx).2 k hk
  · obtain ⟨err, he', -⟩ := finish_side i' hf hp
    rw [he'] at hk; cases hk

/-- the message a session sent is refused by every session restored from it -/
theorem own_start_message_refused_restored (S : GroupSpec G) {P : Params G} (hP : ValidParams S P)
    {side : Side} {pw idA idB : Bytes} (hpw : IsBytes pw) (hidA : IsBytes idA) (hidB : IsBytes idB)
    {ent : Entropy} {a a' : Inst G} {m : Bytes}
    (h : (Inst.new side pw idA idB P ent).start = (a, .ok m)) (hr : RestoredFrom a a') :
    ∀ k, (a'.finish m).2 ≠ .ok k := by
  obtain ⟨x, ob, -, rd, -, pa, ia, ja, -⟩ := start_ready S hP h
  obtain ⟨-, f, -⟩ := hr.finish_eq S rd (ia ▸ hidA) (ja ▸ hidB) (pa ▸ hpw)
  intro k
  rw [f]
  exact own_start_message_refused S hP h k


/-! ### C08 helpers -/

/-- C08 for a session produced by `start()` whose `serialize()` returned `s` -/
theorem restore_transparent_started (S : GroupSpec G) {P : Params G} (hP : ValidParams S P)
    {side : Side} {pw idA idB : Bytes} (hpw : IsBytes pw) (hidA : IsBytes idA) (hidB : IsBytes idB)
    {ent : Entropy} {a : Inst G} {m s : Bytes}
    (hst : (Inst.new side pw idA idB P ent).start = (a, .ok m)) (hs : a.serialize = .ok s) :
    (∀ c ∈ s, 0x20 ≤ c ∧ c ≤ 0x7e) ∧
    ∃ a', fromSerialized side s P = .ok a' ∧ SameSession a a' ∧ a'.serialize = .ok s ∧
      (∀ msg, (a'.finish msg).2 = (a.finish msg).2) ∧
      ∀ a'', RestoredFrom a a'' →
        a''.serialize = .ok s ∧ ∀ msg, (a''.finish msg).2 = (a.finish msg).2 := by
  obtain ⟨x, ob, -, rd, sa, pa, ia, ja, qa, -⟩ := start_ready S hP hst
  have bA : IsBytes a.idA := ia ▸ hidA
  have bB : IsBytes a.idB := ja ▸ hidB
  have bp : IsBytes a.pw := pa ▸ hpw
  obtain ⟨a', hr, hss, -, -, -, -, hs', hf⟩ := restore_transparent S rd bA bB bp hs
  rw [sa, qa] at hr
  refine ⟨(serialize_printable S rd bA bB bp hs).1, a', hr, hss, hs', hf, fun a'' hr'' => ?_⟩
  obtain ⟨-, f, e⟩ := hr''.finish_eq S rd bA bB bp
  exact ⟨e.trans hs, f⟩


/-! ### C07 helpers -/

/-- `scalar_to_bytes` of the integer groups returns byte strings -/
theorem scalarEncBytes_intGroup (P : IntGroupParams) : Serialize.ScalarEncBytes (intGroup P) := by
  intro x xs h
  change numberToBytes x P.q = .ok xs at h
  unfold numberToBytes at h
  split at h
  · cases h
  · split at h
    · cases h
    · injection h with h; subst h; exact Spake2Model.natToBE_isBytes _ _

/-- `scalar_to_bytes` of the Ed25519 group returns byte strings -/
theorem scalarEncBytes_edGroup (c : Curve) : Serialize.ScalarEncBytes (edGroup c) := by
  intro x xs h
  change Ed25519.scalarEnc c x = .ok xs at h
  unfold Ed25519.scalarEnc at h
  dsimp only at h
  split at h
  · cases h
  · injection h with h; subst h; exact Spake2Model.natToLE_isBytes _ _

/-- C07 (d) under the group contract: the secret scalar of a freshly constructed instance, once
set, stays the same over every history, restores included -/
theorem scalar_constant_spec (S : GroupSpec G) (hsc : Serialize.ScalarEncBytes G)
    (side : Side) (pw idA idB : Bytes) (params : Params G) (ent : Entropy)
    (hpw : IsBytes pw) (hA : IsBytes idA) (hB : IsBytes idB) (ops : List History.HOp) {j k : Nat}
    {x : Int} (hjk : j ≤ k) (hk : k ≤ ops.length)
    (hx : (History.stateAt (Inst.new side pw idA idB params ent) ops j).xyScalar = some x) :
    (History.stateAt (Inst.new side pw idA idB params ent) ops k).xyScalar = some x := by
  refine History.scalar_constant_range hsc (Good := fun x => 0 ≤ x ∧ x < (S.q : ℤ))
    (fun ent x ent' h => S.random_range ent x ent' h) ?_ side pw idA idB params ent hpw hA hB ops
    hjk hk hx
  intro x b hg hb
  obtain ⟨b', h1, -, -, h2⟩ := S.scalar_rt x hg.1 hg.2
  rw [hb] at h1; injection h1 with h1; rw [h1]; exact h2


/-! ### C05 helpers -/

/-- everything the contract says about an accepted byte string -/
theorem dec_accepted (S : GroupSpec G) {b : Bytes} {e : G.Elem} (hb : IsBytes b)
    (hd : G.dec b = .ok e) :
    b.length = G.elemSize ∧ S.Valid e ∧ G.enc e = b ∧ (S.q : ℤ) • S.abs e = 0 ∧
      (S.rejectsIdentity = true → S.abs e ≠ 0) ∧
      ∃ e', G.dec (G.enc e) = .ok e' ∧ S.abs e' = S.abs e := by
  obtain ⟨v, he⟩ := S.dec_strict b e hb hd
  have hnz : S.rejectsIdentity = true → S.abs e ≠ 0 := fun hr => S.dec_nonzero hr b e hb hd
  exact ⟨he ▸ (S.enc_len e v).1, v, he, S.order_smul e v, hnz, S.dec_enc e v hnz⟩

/-- the accepted byte strings are exactly the encodings of the valid (and, where the decoder refuses
the identity, non-identity) elements -/
theorem dec_accepts_iff (S : GroupSpec G) {b : Bytes} (hb : IsBytes b) :
    (∃ e, G.dec b = .ok e) ↔
      ∃ a, S.Valid a ∧ (S.rejectsIdentity = true → S.abs a ≠ 0) ∧ G.enc a = b := by
  constructor
  · rintro ⟨e, hd⟩
    obtain ⟨-, v, he, -, hnz, -⟩ := dec_accepted S hb hd
    exact ⟨e, v, hnz, he⟩
  · rintro ⟨a, v, hnz, rfl⟩
    obtain ⟨e, hd, -⟩ := S.dec_enc a v hnz
    exact ⟨e, hd⟩

/-- one byte string per element: two accepted strings decoding to the same group element are equal -/
theorem dec_unique (S : GroupSpec G) {b b' : Bytes} {e e' : G.Elem} (hb : IsBytes b)
    (hb' : IsBytes b') (hd : G.dec b = .ok e) (hd' : G.dec b' = .ok e')
    (h : S.abs e = S.abs e') : b = b' := by
  obtain ⟨v, he⟩ := S.dec_strict b e hb hd
  obtain ⟨v', he'⟩ := S.dec_strict b' e' hb' hd'
  rw [← he, ← he']; exact (S.enc_inj e e' v v').mpr h

/-- a key is only ever derived from a body the decoder accepted (every group object, every record) -/
theorem finish_key_implies_decoded (i : Inst G) {msg k : Bytes} (h : (i.finish msg).2 = .ok k) :
    ∃ body e, msg = peerByte i.side ++ body ∧ G.dec body = .ok e := by
  obtain ⟨hf, -, body, hm, hx⟩ := finish_ok_peer_byte i h
  rw [finish_result i hf hx] at h
  cases hd : G.dec body with
  | error err => rw [finishKey_dec_error hd] at h; cases h
  | ok e => exact ⟨body, e, hm, hd⟩

/-- … hence, under the contract, only from the canonical fixed-width encoding of a subgroup member -/
theorem finish_only_on_members (S : GroupSpec G) (i : Inst G) {msg k : Bytes} (hm : IsBytes msg)
    (h : (i.finish msg).2 = .ok k) :
    ∃ body e, msg = peerByte i.side ++ body ∧ G.dec body = .ok e ∧ body.length = G.elemSize ∧
      msg.length = 1 + G.elemSize ∧ S.Valid e ∧ G.enc e = body ∧ (S.q : ℤ) • S.abs e = 0 ∧
      (S.rejectsIdentity = true → S.abs e ≠ 0) := by
  obtain ⟨body, e, hmsg, hd⟩ := finish_key_implies_decoded i h
  have hb : IsBytes body := by rw [hmsg] at hm; exact (isBytes_append.mp hm).2
  obtain ⟨hl, v, he, ht, hnz, -⟩ := dec_accepted S hb hd
  refine ⟨body, e, hmsg, hd, hl, ?_, v, he, ht, hnz⟩
  rw [hmsg, List.length_append, hl]
  cases i.side <;> rfl


/-! ### C02 helpers -/

/-- C02 for two sessions produced by `start()` (possibly different passwords, identities and
parameter sets over the same group object) -/
theorem binding_asym_started (S : GroupSpec G) {P P' : Params G} (hP : ValidParams S P)
    (hP' : ValidParams S P') {pw idA idB pw' idA' idB' : Bytes} {entA entB : Entropy}
    {a b : Inst G} {mA mB dA dB k : Bytes}
    (hA : (Inst.new .A pw idA idB P entA).start = (a, .ok mA))
    (hB : (Inst.new .B pw' idA' idB' P' entB).start = (b, .ok mB))
    (hdA : IsBytes dA) (hdB : IsBytes dB)
    (hkA : (a.finish dA).2 = .ok k) (hkB : (b.finish dB).2 = .ok k) :
    Collision ∨
    (pw = pw' ∧ idA = idA' ∧ idB = idB' ∧ dB = mA ∧ dA = mB ∧
      ∃ x y, a.xyScalar = some x ∧ b.xyScalar = some y ∧
        keyAbs S P .A (G.p2s pw) x (msgAbs S P' .B (G.p2s pw') y) =
          keyAbs S P' .B (G.p2s pw') y (msgAbs S P .A (G.p2s pw) x)) := by
  obtain ⟨x, obA, rfl, ra, sa, pa, ia, ja, qa, -⟩ := start_ready S hP hA
  obtain ⟨y, obB, rfl, rb, sb, pb, ib, jb, qb, -⟩ := start_ready S hP' hB
  rcases binding_asym S ra rb sa sb hdA hdB hkA hkB with hc | ⟨h1, h2, h3, h4, h5, KA, KB, -, -, -, h6, h7, h8, -⟩
  · exact Or.inl hc
  · refine Or.inr ⟨by rw [← pa, ← pb]; exact h1, by rw [← ia, ← ib]; exact h2,
      by rw [← ja, ← jb]; exact h3, h4, h5, x, y, ra.xy, rb.xy, ?_⟩
    rw [pa, pb, qa, qb] at h7 h8
    rw [← h7, ← h8, h6]

theorem binding_sym_started (S : GroupSpec G) {P P' : Params G} (hP : ValidParams S P)
    (hP' : ValidParams S P') {pw idS idB₁ pw' idS' idB₂ : Bytes} {ent₁ ent₂ : Entropy}
    {a b : Inst G} {m₁ m₂ d₁ d₂ k : Bytes}
    (hA : (Inst.new .S pw idS idB₁ P ent₁).start = (a, .ok m₁))
    (hB : (Inst.new .S pw' idS' idB₂ P' ent₂).start = (b, .ok m₂))
    (hd₁ : IsBytes d₁) (hd₂ : IsBytes d₂)
    (hk₁ : (a.finish d₁).2 = .ok k) (hk₂ : (b.finish d₂).2 = .ok k) :
    Collision ∨
    (pw = pw' ∧ idS = idS' ∧ ((d₁ = m₂ ∧ d₂ = m₁) ∨ (m₁ = m₂ ∧ d₁ = d₂))) := by
  obtain ⟨x, ob₁, rfl, ra, sa, pa, ia, -⟩ := start_ready S hP hA
  obtain ⟨y, ob₂, rfl, rb, sb, pb, ib, -⟩ := start_ready S hP' hB
  rcases binding_sym S ra rb sa sb hd₁ hd₂ hk₁ hk₂ with hc | ⟨h1, h2, in₁, in₂, K₁, K₂, e1, e2, -, -, -, -, -, h3⟩
  · exact Or.inl hc
  · refine Or.inr ⟨by rw [← pa, ← pb]; exact h1, by rw [← ia, ← ib]; exact h2, ?_⟩
    rcases h3 with ⟨j1, j2⟩ | ⟨j1, j2⟩
    · exact Or.inl ⟨by rw [e1, j1]; rfl, by rw [e2, j2]; rfl⟩
    · exact Or.inr ⟨by rw [j1], by rw [e1, e2, j2]⟩

/-- the A/B binding theorem across two *different group objects*: equal keys force (up to a
collision) equal element widths as well -/
theorem binding_asym_two_groups {G₁ G₂ : Group} (S₁ : GroupSpec G₁) (S₂ : GroupSpec G₂)
    {a : Inst G₁} {b : Inst G₂} {x y : ℤ} {obA obB dA dB k : Bytes}
    (ha : Ready S₁ a x obA) (hb : Ready S₂ b y obB) (sa : a.side = .A) (sb : b.side = .B)
    (hdA : IsBytes dA) (hdB : IsBytes dB)
    (hkA : (a.finish dA).2 = .ok k) (hkB : (b.finish dB).2 = .ok k) :
    Collision ∨
    (G₁.elemSize = G₂.elemSize ∧ a.pw = b.pw ∧ a.idA = b.idA ∧ a.idB = b.idB ∧
      dB = Consts.sideA ++ obA ∧ dA = Consts.sideB ++ obB ∧
      ∃ KA KB, S₁.Valid KA ∧ S₂.Valid KB ∧ G₁.enc KA = G₂.enc KB ∧
        k = finalizeSPAKE2 a.idA a.idB obA obB (G₁.enc KA) a.pw) := by
  obtain ⟨bodyA, eA', KA, mA, -, vA', encA', lenA, -, vKA, aKA, kA⟩ := finish_ok_inv S₁ ha hdA hkA
  obtain ⟨bodyB, eB', KB, mB, -, vB', encB', lenB, -, vKB, aKB, kB⟩ := finish_ok_inv S₂ hb hdB hkB
  obtain ⟨eA, vA, aA, encA, lA, -⟩ := ha.ob_elem
  obtain ⟨eB, vB, aB, encB, lB, -⟩ := hb.ob_elem
  rw [sa] at mA
  rw [sb] at mB
  have e1 : a.finalize bodyA obA (G₁.enc KA)
      = finalizeSPAKE2 a.idA a.idB obA bodyA (G₁.enc KA) a.pw := by simp [Inst.finalize, sa]
  have e2 : b.finalize bodyB obB (G₂.enc KB)
      = finalizeSPAKE2 b.idA b.idB bodyB obB (G₂.enc KB) b.pw := by simp [Inst.finalize, sb]
  have hfin : finalizeSPAKE2 a.idA a.idB obA bodyA (G₁.enc KA) a.pw
      = finalizeSPAKE2 b.idA b.idB bodyB obB (G₂.enc KB) b.pw := by rw [← e1, ← e2, ← kA, ← kB]
  have lKA := (S₁.enc_len KA vKA).1
  have lKB := (S₂.enc_len KB vKB).1
  by_cases hs : G₁.elemSize = G₂.elemSize
  · rcases finalize_injective (by rw [lA, lenB, hs]) (by rw [lenA, lB, hs]) hfin with
      hc | ⟨i1, i2, i3, i4, i5, i6⟩
    · exact Or.inl hc
    · refine Or.inr ⟨hs, i6, i1, i2, by rw [mB, i3]; rfl, by rw [mA, i4]; rfl, KA, KB, vKA, vKB, i5, ?_⟩
      rw [kA, e1, i4]
  · left
    have hfin' := hfin
    rw [finalize_def, finalize_def] at hfin'
    rcases sha256_inj_or hfin' with hc | hT
    · exact hc
    · exfalso
      have := congrArg List.length hT
      simp only [List.length_append, sha256_length, lA, lenA, lKA, lB, lenB, lKB] at this
      omega

/-- the symmetric binding theorem across two different group objects -/
theorem binding_sym_two_groups {G₁ G₂ : Group} (S₁ : GroupSpec G₁) (S₂ : GroupSpec G₂)
    {a : Inst G₁} {b : Inst G₂} {x y : ℤ} {ob₁ ob₂ d₁ d₂ k : Bytes}
    (ha : Ready S₁ a x ob₁) (hb : Ready S₂ b y ob₂) (sa : a.side = .S) (sb : b.side = .S)
    (hd₁ : IsBytes d₁) (hd₂ : IsBytes d₂)
    (hk₁ : (a.finish d₁).2 = .ok k) (hk₂ : (b.finish d₂).2 = .ok k) :
    Collision ∨
    (G₁.elemSize = G₂.elemSize ∧ a.pw = b.pw ∧ a.idA = b.idA ∧
      ∃ in₁ in₂, d₁ = Consts.sideS ++ in₁ ∧ d₂ = Consts.sideS ++ in₂ ∧
        ((in₁ = ob₂ ∧ in₂ = ob₁) ∨ (ob₁ = ob₂ ∧ in₁ = in₂))) := by
  obtain ⟨body₁, e₁, K₁, m₁, -, v₁, enc₁, len₁, -, vK₁, aK₁, k₁⟩ := finish_ok_inv S₁ ha hd₁ hk₁
  obtain ⟨body₂, e₂, K₂, m₂, -, v₂, enc₂, len₂, -, vK₂, aK₂, k₂⟩ := finish_ok_inv S₂ hb hd₂ hk₂
  obtain ⟨eA, vA, aA, encA, lA, -⟩ := ha.ob_elem
  obtain ⟨eB, vB, aB, encB, lB, -⟩ := hb.ob_elem
  rw [sa] at m₁
  rw [sb] at m₂
  have f₁ : a.finalize body₁ ob₁ (G₁.enc K₁)
      = finalizeSymmetric a.idA body₁ ob₁ (G₁.enc K₁) a.pw := by simp [Inst.finalize, sa]
  have f₂ : b.finalize body₂ ob₂ (G₂.enc K₂)
      = finalizeSymmetric b.idA body₂ ob₂ (G₂.enc K₂) b.pw := by simp [Inst.finalize, sb]
  have hfin : finalizeSymmetric a.idA body₁ ob₁ (G₁.enc K₁) a.pw
      = finalizeSymmetric b.idA body₂ ob₂ (G₂.enc K₂) b.pw := by rw [← f₁, ← f₂, ← k₁, ← k₂]
  have lK₁ := (S₁.enc_len K₁ vK₁).1
  have lK₂ := (S₂.enc_len K₂ vK₂).1
  by_cases hs : G₁.elemSize = G₂.elemSize
  · rcases finalize_sym_injective len₁ lA (by rw [len₂, hs]) (by rw [lB, hs]) hfin with
      hc | ⟨i1, i2, -, i4⟩
    · exact Or.inl hc
    · refine Or.inr ⟨hs, i2, i1, body₁, body₂, m₁, m₂, ?_⟩
      rcases i4 with ⟨j1, j2⟩ | ⟨j1, j2⟩
      · exact Or.inr ⟨j2, j1⟩
      · exact Or.inl ⟨j1, j2.symm⟩
  · left
    have hfin' := hfin
    rw [finalize_sym_def, finalize_sym_def] at hfin'
    rcases sha256_inj_or hfin' with hc | hT
    · exact hc
    · exfalso
      have := congrArg List.length hT
      have s1 : (sorted2 body₁ ob₁).1.length + (sorted2 body₁ ob₁).2.length = 2 * G₁.elemSize := by
        rcases sorted2_cases body₁ ob₁ with e | e <;> simp [e, len₁, lA] <;> omega
      have s2 : (sorted2 body₂ ob₂).1.length + (sorted2 body₂ ob₂).2.length = 2 * G₂.elemSize := by
        rcases sorted2_cases body₂ ob₂ with e | e <;> simp [e, len₂, lB] <;> omega
      simp only [List.length_append, sha256_length, lK₁, lK₂] at this
      omega


/-! ### C10 helpers -/

/-- the hashed string of `hash_params()`, by role -/
theorem hashParams_formula {i : Inst G} {hp : Bytes} (h : i.hashParams = .ok hp) :
    ∃ a0 s0, G.arb [] = .ok a0 ∧ G.scalarEnc (G.p2s []) = .ok s0 ∧
      (i.side = .S → hp = hexlify (Sha.sha256 (G.enc a0 ++ s0 ++ G.enc i.params.S))) ∧
      (i.side ≠ .S → hp = hexlify (Sha.sha256
        (G.enc a0 ++ s0 ++ G.enc i.params.M ++ G.enc i.params.N))) := by
  obtain ⟨a0, s0, ha, hs, e⟩ := hashParams_inv h
  refine ⟨a0, s0, ha, hs, fun hS => ?_, fun hS => ?_⟩
  · rw [e, hS]; rfl
  · rw [e]; revert hS; cases i.side <;> simp [fpPieces]

/-- **an independent encoder of the released format**: for any role, byte-string password and
identities, valid parameters and scalar `x ∈ [0,q)`, the released-format object built directly from
these fields -- in any member order and with any JSON whitespace -- is accepted by
`from_serialized` of that role and parameters and resumes exactly that session -/
theorem released_format_restores (S : GroupSpec G) {P : Params G} (hP : ValidParams S P)
    (side : Side) {pw idA idB : Bytes} (hpw : IsBytes pw) (hA : IsBytes idA) (hB : IsBytes idB)
    {x : ℤ} (hx : 0 ≤ x ∧ x < (S.q : ℤ)) {a0 : G.Elem} (harb : G.arb [] = .ok a0) :
    ∃ hp xs ob, (Inst.new side pw idA idB P ⟨[]⟩).hashParams = .ok hp ∧
      G.scalarEnc x = .ok xs ∧ xs.length = G.scalarSize ∧
      (∃ e, S.Valid e ∧ S.abs e = msgAbs S P side (G.p2s pw) x ∧ ob = G.enc e) ∧
      ∀ (d' : Json.Dict) (w0 w1 : Bytes) (ws : Nat → PairWs),
        d'.Perm (dictOf side hp idA idB pw xs) → IsWs w0 → IsWs w1 → (∀ n, (ws n).Ok) →
        ∃ i', fromSerialized side (dumpsWs w0 w1 ws d') P = .ok i' ∧ Ready S i' x ob ∧
          i'.side = side ∧ i'.pw = pw ∧ i'.idA = idA ∧ (side ≠ .S → i'.idB = idB) ∧
          i'.params = P ∧ i'.xyScalar = some x ∧ i'.outbound = some ob := by
  obtain ⟨e, ve, ae, he⟩ := outboundFor_spec S (Inst.new side pw idA idB P ⟨[]⟩) hP x
  let i0 : Inst G := { Inst.new side pw idA idB P ⟨[]⟩ with
    started := true, xyScalar := some x, outbound := some (G.enc e) }
  have rd : Ready S i0 x (G.enc e) :=
    ⟨hP, rfl, rfl, rfl, rfl, hx, rfl, by rw [← he]; exact outboundFor_congr rfl rfl rfl x⟩
  obtain ⟨s0, -, -, -, hh⟩ := hashParams_ok S i0 harb
  obtain ⟨xs, hxs, hl, -, -, hser⟩ := serialize_format S rd hh
  obtain ⟨hp', xs', hh', hxs', -, hall⟩ := accepts_released_format S rd (i := i0) hA hB hpw hser
  rw [hh] at hh'; injection hh' with hh'
  rw [hxs] at hxs'; injection hxs' with hxs'
  subst hh'; subst hxs'
  obtain ⟨i', hr, hss, rd', -⟩ := restore_transparent S rd (i := i0) hA hB hpw hser
  refine ⟨hexlify (Sha.sha256 (fpPieces i0.side i0.params a0 s0)), xs, G.enc e, ?_, hxs, hl,
    ⟨e, ve, ae, rfl⟩, ?_⟩
  · rw [← hh]; exact hashParams_congr rfl rfl
  · intro d' w0 w1 ws hperm h0 h1 hws
    refine ⟨i', ?_, rd', hss.side.symm, hss.pw.symm, hss.idA.symm,
      fun hS => (hss.idB hS).symm, hss.params.symm, rd'.xy, rd'.outbound⟩
    rw [hall d' w0 w1 ws side P hperm h0 h1 hws]
    exact hr


/-! ### C03 helpers -/

theorem exists_of_map_ok {α β : Type} {x : R α} {f : α → β} {b : β} (h : x.map f = .ok b) :
    ∃ a, x = .ok a ∧ f a = b := by
  cases x with
  | error e => cases h
  | ok a => exact ⟨a, rfl, by injection h⟩

/-- from the evaluated encodings of the three `arbitrary_element` calls to the parameter set -/
theorem mkParams_encodings {sM sN sS bM bN bS : Bytes}
    (hM : (G.arb sM).map G.enc = .ok bM) (hN : (G.arb sN).map G.enc = .ok bN)
    (hS : (G.arb sS).map G.enc = .ok bS) :
    ∃ P, mkParams G sM sN sS = .ok P ∧ G.enc P.M = bM ∧ G.enc P.N = bN ∧ G.enc P.S = bS := by
  obtain ⟨M, h1, e1⟩ := exists_of_map_ok hM
  obtain ⟨N, h2, e2⟩ := exists_of_map_ok hN
  obtain ⟨S', h3, e3⟩ := exists_of_map_ok hS
  exact ⟨⟨M, N, S'⟩, mkParams_of_arb h1 h2 h3, e1, e2, e3⟩


theorem intGroup_params_encodings (IP : IntGroupParams) {sM sN sS bM bN bS : Bytes}
    (hM : (IG.arb IP sM).map (IG.enc IP) = .ok bM) (hN : (IG.arb IP sN).map (IG.enc IP) = .ok bN)
    (hS : (IG.arb IP sS).map (IG.enc IP) = .ok bS) :
    ∃ P, mkParams (intGroup IP) sM sN sS = .ok P ∧ (intGroup IP).enc P.M = bM ∧
      (intGroup IP).enc P.N = bN ∧ (intGroup IP).enc P.S = bS :=
  mkParams_encodings (G := intGroup IP) hM hN hS

theorem edGroup_params_encodings (c : Curve) {sM sN sS bM bN bS : Bytes}
    (hM : (Ed25519.arb c sM).map (Ed25519.toBytes c) = .ok bM)
    (hN : (Ed25519.arb c sN).map (Ed25519.toBytes c) = .ok bN)
    (hS : (Ed25519.arb c sS).map (Ed25519.toBytes c) = .ok bS) :
    ∃ P, mkParams (edGroup c) sM sN sS = .ok P ∧ (edGroup c).enc P.M = bM ∧
      (edGroup c).enc P.N = bN ∧ (edGroup c).enc P.S = bS :=
  mkParams_encodings (G := edGroup c) hM hN hS

/-- the message `start()` returns is the side byte followed by exactly `elemSize` bytes -/
theorem start_message_shape (S : GroupSpec G) {P : Params G} (hP : ValidParams S P)
    {side : Side} {pw idA idB : Bytes} {ent : Entropy} {a : Inst G} {m : Bytes}
    (h : (Inst.new side pw idA idB P ent).start = (a, .ok m)) :
    ∃ body, m = side.byte ++ body ∧ body.length = G.elemSize ∧ m.length = G.elemSize + 1 ∧
      IsBytes m := by
  obtain ⟨x, ob, rfl, rd, -⟩ := start_ready S hP h
  obtain ⟨e, -, -, -, hl, hb⟩ := rd.ob_elem
  refine ⟨ob, rfl, hl, ?_, isBytes_append.mpr ⟨by cases side <;> decide, hb⟩⟩
  rw [List.length_append, hl]
  cases side <;> simp [Side.byte, Consts.sideA, Consts.sideB, Consts.sideS] <;> omega

/-- the transcript layout of `_finalize`, by role -/
theorem finalize_layout (i : Inst G) (inb ob K : Bytes) :
    (i.side = .A → i.finalize inb ob K =
      Sha.sha256 (Sha.sha256 i.pw ++ Sha.sha256 i.idA ++ Sha.sha256 i.idB ++ ob ++ inb ++ K)) ∧
    (i.side = .B → i.finalize inb ob K =
      Sha.sha256 (Sha.sha256 i.pw ++ Sha.sha256 i.idA ++ Sha.sha256 i.idB ++ inb ++ ob ++ K)) ∧
    (i.side = .S → i.finalize inb ob K =
      Sha.sha256 (Sha.sha256 i.pw ++ Sha.sha256 i.idA ++ (sorted2 inb ob).1 ++ (sorted2 inb ob).2
        ++ K)) := by
  refine ⟨fun h => ?_, fun h => ?_, fun h => ?_⟩ <;> simp [Inst.finalize, h, finalizeSPAKE2,
    finalize_sym_def]


/-! ### Ed25519 non-vacuity: default parameters and edge scalars -/

section EdNonVacuity
set_option maxRecDepth 100000

/-- the default parameter set of the shipped Ed25519 group object exists -/
theorem ed_default_params_exists : ∃ P, defaultParams GEd = .ok P := by
  obtain ⟨P, h, -⟩ := edGroup_params_encodings Spake2Model.ed25519 PublishedEval.generated_M_ed
    PublishedEval.generated_N_ed PublishedEval.generated_S_ed
  exact ⟨P, h⟩

/-- 64 zero bytes of entropy give the secret scalar `0` -/
theorem ed_random_zero : GEd.randomScalar ⟨List.replicate 64 0⟩ = .ok (0, ⟨[]⟩) := by
  show Ed25519.randomScalar Spake2Model.ed25519 ⟨List.replicate 64 0⟩ = .ok (0, ⟨[]⟩)
  decide +kernel

/-- the 64-byte big-endian encoding of `L - 1` gives the secret scalar `L - 1` -/
theorem ed_random_Lm1 :
    GEd.randomScalar ⟨natToBE 64 (Ed.L_c - 1).toNat⟩ = .ok (Ed.L_c - 1, ⟨[]⟩) := by
  show Ed25519.randomScalar Spake2Model.ed25519 ⟨natToBE 64 (Ed.L_c - 1).toNat⟩ = .ok (Ed.L_c - 1, ⟨[]⟩)
  decide +kernel

/-- started Ed25519 sessions with the edge scalars `0` and `L - 1` exist, for every role, password
and identities, under the default parameters -/
theorem ed_start_edge (side : Side) (pw idA idB : Bytes) :
    ∃ (P : Params GEd) (a b : Inst GEd) (mA mB : Bytes), defaultParams GEd = .ok P ∧
      (Inst.new side pw idA idB P ⟨List.replicate 64 0⟩).start = (a, .ok mA) ∧
      a.xyScalar = some 0 ∧
      (Inst.new side pw idA idB P ⟨natToBE 64 (Ed.L_c - 1).toNat⟩).start = (b, .ok mB) ∧
      b.xyScalar = some (Ed.L_c - 1) := by
  obtain ⟨P, hP⟩ := ed_default_params_exists
  have v := validParams_of_mkParams specGen hP
  obtain ⟨a, mA, h1, h2⟩ := start_exists specGen v side pw idA idB ed_random_zero
  obtain ⟨b, mB, h3, h4⟩ := start_exists specGen v side pw idA idB ed_random_Lm1
  exact ⟨P, a, b, mA, mB, hP, h1, h2, h3, h4⟩

end EdNonVacuity

/-! ### the toy group `IntegerGroup(23, 11, 2)` -/

def toyP : IntGroupParams := ⟨23, 11, 2⟩
abbrev toyG : Group := intGroup toyP

noncomputable def toySpec : GroupSpec toyG :=
  intGroupSpec toyP (by decide) (by decide) (by decide) (by decide)

/-- `M, N, S = arbitrary_element(b"M"), (b"N"), (b"symmetric")` in the toy group -/
def toyParams : Params toyG := ⟨(3 : ℤ), (18 : ℤ), (8 : ℤ)⟩

theorem toy_arb_M : IG.arb toyP Consts.seedM = .ok 3 := by decide +kernel
theorem toy_arb_N : IG.arb toyP Consts.seedN = .ok 18 := by decide +kernel
theorem toy_arb_S : IG.arb toyP Consts.seedS = .ok 8 := by decide +kernel
theorem toy_arb_empty : IG.arb toyP [] = .ok 9 := by decide +kernel

set_option maxRecDepth 8000 in
theorem toy_mkParams : mkParams toyG Consts.seedM Consts.seedN Consts.seedS = .ok toyParams := by
  have hM : toyG.arb Consts.seedM = .ok (3 : ℤ) := toy_arb_M
  have hN : toyG.arb Consts.seedN = .ok (18 : ℤ) := toy_arb_N
  have hS : toyG.arb Consts.seedS = .ok (8 : ℤ) := toy_arb_S
  exact mkParams_of_arb hM hN hS

set_option maxRecDepth 8000 in
/-- `arbitrary_element(b"")` (evaluated by `hash_params()`) in the toy group -/
theorem toyG_arb_empty : toyG.arb [] = .ok (9 : ℤ) := toy_arb_empty

theorem toy_defaultParams : defaultParams toyG = .ok toyParams := toy_mkParams

theorem toy_valid : ValidParams toySpec toyParams := validParams_of_mkParams _ toy_mkParams

theorem toy_baseOrder : toySpec.BaseOrder :=
  baseOrder_of_prime _ _ _ _ _ (by decide) (by decide)

theorem toy_torsionIsCyclic : toySpec.TorsionIsCyclic :=
  torsionIsCyclic_of_prime_modulus _ _ _ _ _ (by decide) (by decide) (by decide)


/-- a second toy parameter set that differs from `toyParams` only in `M` (`9` instead of `3`) -/
def toyParamsM9 : Params toyG := ⟨(9 : ℤ), (18 : ℤ), (8 : ℤ)⟩

theorem toy_validM9 : ValidParams toySpec toyParamsM9 :=
  ⟨(by decide : (0 : ℤ) < 9 ∧ (9 : ℤ) < toyP.p ∧ Py.pow3 9 toyP.q toyP.p = 1),
   (by decide : (0 : ℤ) < 18 ∧ (18 : ℤ) < toyP.p ∧ Py.pow3 18 toyP.q toyP.p = 1),
   (by decide : (0 : ℤ) < 8 ∧ (8 : ℤ) < toyP.p ∧ Py.pow3 8 toyP.q toyP.p = 1)⟩

/-- K1a on the toy group, evaluated: `A` holds `M = 3`, `B` holds `M = 9`; when `B`'s secret scalar is
`0` both ends return the same key, when it is `5` they do not -/
theorem toy_k1a :
    ((Inst.new (G := toyG) .A [1] [1] [2] toyParams ⟨[4]⟩).start.1.finish
        ((Inst.new (G := toyG) .B [1] [1] [2] toyParamsM9 ⟨[0]⟩).start.2.toOption.getD [])).2 =
    ((Inst.new (G := toyG) .B [1] [1] [2] toyParamsM9 ⟨[0]⟩).start.1.finish
        ((Inst.new (G := toyG) .A [1] [1] [2] toyParams ⟨[4]⟩).start.2.toOption.getD [])).2 ∧
    (((Inst.new (G := toyG) .A [1] [1] [2] toyParams ⟨[4]⟩).start.1.finish
        ((Inst.new (G := toyG) .B [1] [1] [2] toyParamsM9 ⟨[0]⟩).start.2.toOption.getD [])).2).toOption.isSome
      = true ∧
    ((Inst.new (G := toyG) .A [1] [1] [2] toyParams ⟨[4]⟩).start.1.finish
        ((Inst.new (G := toyG) .B [1] [1] [2] toyParamsM9 ⟨[5]⟩).start.2.toOption.getD [])).2 ≠
    ((Inst.new (G := toyG) .B [1] [1] [2] toyParamsM9 ⟨[5]⟩).start.1.finish
        ((Inst.new (G := toyG) .A [1] [1] [2] toyParams ⟨[4]⟩).start.2.toOption.getD [])).2 := by
  decide +kernel

/-- K1b on the toy group, evaluated: two symmetric ends with the same secret scalar, both handed the
same third message `S‖2`, return the same key -/
theorem toy_k1b :
    ((Inst.new (G := toyG) .S [1] [7] [] toyParams ⟨[4]⟩).start.1.finish [83, 2]).2 =
    ((Inst.new (G := toyG) .S [1] [7] [8] toyParams ⟨[4, 9]⟩).start.1.finish [83, 2]).2 ∧
    (((Inst.new (G := toyG) .S [1] [7] [] toyParams ⟨[4]⟩).start.1.finish [83, 2]).2).toOption.isSome
      = true := by
  decide +kernel


/-! ### C09 helpers -/

/-- same group object: if the parameters offered on restore differ (in encoding) from the saved
ones in a blinding element the role uses, the restore fails with `WrongGroupError` -- or a SHA-256
collision is exhibited -/
theorem restore_mismatch_detected (S : GroupSpec G) {i : Inst G} {x : ℤ} {ob s : Bytes}
    (h : Ready S i x ob) (hA : IsBytes i.idA) (hB : IsBytes i.idB) (hpw : IsBytes i.pw)
    (hs : i.serialize = .ok s) {P' : Params G} (hP' : ValidParams S P')
    (hdiff : (i.side = .S → G.enc P'.S ≠ G.enc i.params.S) ∧
      (i.side ≠ .S → G.enc P'.M ≠ G.enc i.params.M ∨ G.enc P'.N ≠ G.enc i.params.N)) :
    Collision ∨ fromSerialized i.side s P' = .error .WrongGroupError := by
  obtain ⟨hp, hh⟩ := serialize_ok_hash hs
  obtain ⟨a0, s0, ha0, hs0, -⟩ := hashParams_inv hh
  have hh' : (blank i.side i.pw i.idA i.idB P').hashParams = .ok
      (hexlify (Sha.sha256 (fpPieces (blank i.side i.pw i.idA i.idB P').side
        (blank i.side i.pw i.idA i.idB P').params a0 s0))) := hashParams_of ha0 hs0
  by_cases he : hp = hexlify (Sha.sha256 (fpPieces (blank i.side i.pw i.idA i.idB P').side
        (blank i.side i.pw i.idA i.idB P').params a0 s0))
  · rw [← he] at hh'
    rcases fingerprint_binds S S (i₁ := i) (i₂ := blank i.side i.pw i.idA i.idB P') h.params hP'
        rfl rfl (by simp [blank, Inst.new]) hh hh' with hc | ⟨a₁, a₂, s₁, s₂, -, -, -, -, -, -, bS, bMN⟩
    · exact Or.inl hc
    · exfalso
      by_cases hS : i.side = .S
      · exact hdiff.1 hS (bS hS).symm
      · obtain ⟨e1, e2⟩ := bMN hS
        rcases hdiff.2 hS with h' | h'
        · exact h' e1.symm
        · exact h' e2.symm
  · exact Or.inr (restore_wrong_params S h hA hB hpw hs P' hh hh' he)

/-- restoring across two group objects: whenever `from_serialized` (class `side`, group `G₂`,
parameters `P₂`) accepts the state serialised by a session over `G₁`, the class is the saving class
and the two fingerprints are equal, hence (equal widths) a collision is exhibited or the encodings
of `arbitrary_element(b"")`, `password_to_scalar(b"")` and of the used blinding elements agree -/
theorem restore_cross_group_binds {G₁ G₂ : Group} (S₁ : GroupSpec G₁) (S₂ : GroupSpec G₂)
    {i : Inst G₁} {x : ℤ} {ob s : Bytes} (h : Ready S₁ i x ob) (hA : IsBytes i.idA)
    (hB : IsBytes i.idB) (hpw : IsBytes i.pw) (hs : i.serialize = .ok s)
    {side : Side} {P₂ : Params G₂} (hP₂ : ValidParams S₂ P₂) {i₂ : Inst G₂}
    (hr : fromSerialized side s P₂ = .ok i₂)
    (hel : G₁.elemSize = G₂.elemSize) (hsc : G₁.scalarSize = G₂.scalarSize) :
    side = i.side ∧ i₂.params = P₂ ∧
    (Collision ∨ ∃ a₁ a₂ s₁ s₂, G₁.arb [] = .ok a₁ ∧ G₂.arb [] = .ok a₂ ∧
      G₁.scalarEnc (G₁.p2s []) = .ok s₁ ∧ G₂.scalarEnc (G₂.p2s []) = .ok s₂ ∧
      G₁.enc a₁ = G₂.enc a₂ ∧ s₁ = s₂ ∧
      (i.side = .S → G₁.enc i.params.S = G₂.enc P₂.S) ∧
      (i.side ≠ .S → G₁.enc i.params.M = G₂.enc P₂.M ∧ G₁.enc i.params.N = G₂.enc P₂.N)) := by
  obtain ⟨hp, xs, hh, -, -, -, -, hser, hclean, -⟩ :=
    fromSerialized_of_ready S₁ h hA hB hpw hs i.side i.params
  obtain ⟨d, hp₂, hparse, hside, hhp, hh₂, hs₂, hpar₂⟩ := restore_checks hr
  rw [hser, Json.parse_dumps hclean] at hparse
  injection hparse with hparse
  subst hparse
  rw [dictOf_side] at hside
  rw [dictOf_hp] at hhp
  injection hhp with hhp
  subst hhp
  have hsd : side = i.side := by
    injection hside with hside
    revert hside
    cases side <;> cases i.side <;> simp [Side.byte, Consts.sideA, Consts.sideB, Consts.sideS]
  refine ⟨hsd, hpar₂, ?_⟩
  have := fingerprint_binds S₁ S₂ (i₁ := i) (i₂ := i₂) h.params (hpar₂ ▸ hP₂) hel hsc
    (by rw [hs₂, hsd]) hh hh₂
  rw [hpar₂] at this
  exact this

theorem restore_wrong_side_started (S : GroupSpec G) {P : Params G} (hP : ValidParams S P)
    {side : Side} {pw idA idB : Bytes} (hpw : IsBytes pw) (hidA : IsBytes idA) (hidB : IsBytes idB)
    {ent : Entropy} {a : Inst G} {m s : Bytes}
    (hst : (Inst.new side pw idA idB P ent).start = (a, .ok m)) (hs : a.serialize = .ok s)
    {side' : Side} (hne : side' ≠ side) (P' : Params G) :
    fromSerialized side' s P' =
      .error (if side = .S then .other .KeyError else .WrongSideSerialized) := by
  obtain ⟨x, ob, -, rd, sa, pa, ia, ja, qa, -⟩ := start_ready S hP hst
  have := restore_wrong_side S rd (ia ▸ hidA) (ja ▸ hidB) (pa ▸ hpw) hs (side := side')
    (by rw [sa]; exact hne) P'
  rw [sa] at this
  exact this

theorem restore_other_params_started (S : GroupSpec G) {P P' : Params G} (hP : ValidParams S P)
    (hP' : ValidParams S P')
    {side : Side} {pw idA idB : Bytes} (hpw : IsBytes pw) (hidA : IsBytes idA) (hidB : IsBytes idB)
    {ent : Entropy} {a a' : Inst G} {m s : Bytes}
    (hst : (Inst.new side pw idA idB P ent).start = (a, .ok m)) (hs : a.serialize = .ok s)
    (hr : fromSerialized side s P' = .ok a') :
    Collision ∨ (a'.outbound = a.outbound ∧ (∃ ob, a'.outbound = some ob ∧ m = side.byte ++ ob) ∧
      ∀ msg, IsBytes msg → (a'.finish msg).2 = (a.finish msg).2) := by
  obtain ⟨x, ob, hm, rd, sa, pa, ia, ja, qa, -⟩ := start_ready S hP hst
  rw [← sa] at hr
  rcases restore_other_params S rd (ia ▸ hidA) (ja ▸ hidB) (pa ▸ hpw) hs hP' hr with hc | ⟨h1, h2⟩
  · exact Or.inl hc
  · exact Or.inr ⟨by rw [h1, rd.outbound], ⟨ob, h1, hm⟩, h2⟩

theorem restore_mismatch_detected_started (S : GroupSpec G) {P P' : Params G}
    (hP : ValidParams S P) (hP' : ValidParams S P')
    {side : Side} {pw idA idB : Bytes} (hpw : IsBytes pw) (hidA : IsBytes idA) (hidB : IsBytes idB)
    {ent : Entropy} {a : Inst G} {m s : Bytes}
    (hst : (Inst.new side pw idA idB P ent).start = (a, .ok m)) (hs : a.serialize = .ok s)
    (hdiff : (side = .S → G.enc P'.S ≠ G.enc P.S) ∧
      (side ≠ .S → G.enc P'.M ≠ G.enc P.M ∨ G.enc P'.N ≠ G.enc P.N)) :
    Collision ∨ fromSerialized side s P' = .error .WrongGroupError := by
  obtain ⟨x, ob, -, rd, sa, pa, ia, ja, qa, -⟩ := start_ready S hP hst
  have := restore_mismatch_detected S rd (ia ▸ hidA) (ja ▸ hidB) (pa ▸ hpw) hs hP'
    (by rw [sa, qa]; exact hdiff)
  rw [sa] at this
  exact this

/-- finding K2: `hash_params()` of an integer group does not read the generator -/
theorem fingerprint_ignores_generator (p q g g' : ℤ) (side : Side) (pw idA idB : Bytes)
    (M N S' : ℤ) (ent : Entropy) :
    (Inst.new (G := intGroup ⟨p, q, g⟩) side pw idA idB ⟨M, N, S'⟩ ent).hashParams =
    (Inst.new (G := intGroup ⟨p, q, g'⟩) side pw idA idB ⟨M, N, S'⟩ ent).hashParams := rfl

/-- K2 evaluated on the toy group: state saved under `IntegerGroup(23, 11, 2)` is accepted by
`from_serialized` under `IntegerGroup(23, 11, 4)` (same `M`, `N`, `S`), and the restored session
sends a *different* element -/
theorem toy_k2 :
    ((fromSerialized (G := intGroup ⟨23, 11, 4⟩) .A
        ((Inst.new (G := toyG) .A [1] [1] [2] toyParams ⟨[4]⟩).start.1.serialize.toOption.getD [])
        ⟨(3 : ℤ), (18 : ℤ), (8 : ℤ)⟩).toOption.map (fun i => i.outbound)) = some (some [12]) ∧
    (Inst.new (G := toyG) .A [1] [1] [2] toyParams ⟨[4]⟩).start.1.outbound = some [18] := by
  decide +kernel


/-! ### C04 helpers: the Ed25519 instance meets `TorsionIsCyclic` -/

section EdTorsion
open Spake2Verif.Spec Spake2Verif.Edw
set_option maxRecDepth 100000

instance instFactGenQ : Fact (Nat.Prime Spake2Model.ed25519.Q.toNat) := curveOK_gen.fact

/-- the curve behind `specGen` is (definitionally) the curve `C25519` of `Spec/EdOrder.lean` -/
theorem EC_gen_eq : CurveOK.EC curveOK_gen = C25519 := rfl

/-- … and its base point is `Bpt` -/
theorem BP_gen_eq : CurveOK.BP curveOK_gen = Bpt := rfl

/-- **the `L`-torsion of Ed25519 (generated constants) is the cyclic group generated by the base
point** -- from `#E = 8·L` (`CurveCard.torsion_cyclic`) -/
theorem specGen_torsionIsCyclic : specGen.TorsionIsCyclic := by
  intro a ha
  have hb : specGen.abs (edGroup Spake2Model.ed25519).base = Bpt :=
    (CurveOK.abs_base curveOK_gen).trans BP_gen_eq
  obtain ⟨n, hn⟩ := torsion_cyclic (a : Point C25519) ha
  exact ⟨n, hn.trans (by rw [← hb]; rfl)⟩

end EdTorsion

/-- the toy group, exhaustively: for three passwords (password scalars 3, 0, 9) and the three roles'
blinding elements, the messages over all 11 secret scalars are the 11 subgroup members, each once -/
theorem toy_messages_exhaustive :
    (List.range 11).map (msgBytes (G := toyG) toyParams .A [1]) =
      [[4], [8], [16], [9], [18], [13], [3], [6], [12], [1], [2]] ∧
    (List.range 11).map (msgBytes (G := toyG) toyParams .A [13]) =
      [[1], [2], [4], [8], [16], [9], [18], [13], [3], [6], [12]] ∧
    (List.range 11).map (msgBytes (G := toyG) toyParams .S [5]) =
      [[9], [18], [13], [3], [6], [12], [1], [2], [4], [8], [16]] := by
  decide +kernel

/-- the one-byte entropy stream `[x]`, `x < 11`, makes `random_scalar` return `x` -/
theorem toy_random (x : ℕ) (hx : x < 11) : toyG.randomScalar ⟨[x]⟩ = .ok ((x : ℤ), ⟨[]⟩) := by
  show IG.randomScalar toyP ⟨[x]⟩ = _
  interval_cases x <;> decide +kernel

/-- the password `b"\x0d"` has password scalar `0` in the toy group (edge case `w = 0`) -/
theorem toy_pw_zero : toyG.p2s [13] = 0 := by
  show IG.p2s toyP [13] = 0
  decide +kernel

/-- the password `b"\x01"` has password scalar `3` -/
theorem toy_pw_three : toyG.p2s [1] = 3 := by
  show IG.p2s toyP [1] = 3
  decide +kernel

/-- a started toy session exists for every side, password, identities and scalar `x < 11` -/
theorem toy_start (side : Side) (pw idA idB : Bytes) (x : ℕ) (hx : x < 11) :
    ∃ a m, (Inst.new side pw idA idB toyParams ⟨[x]⟩).start = (a, .ok m) ∧
      a.xyScalar = some (x : ℤ) :=
  start_exists toySpec toy_valid side pw idA idB (toy_random x hx)


/-! ### kernel evaluations used by the `example`s of C05 -/

section Eval
set_option maxRecDepth 100000

/-- all one-byte strings of the toy group: exactly the 11 subgroup members are accepted -/
theorem toy_dec_exhaustive :
    (List.range 256).filter (fun n => (IG.dec toyP [n]).toOption.isSome) =
      [1, 2, 3, 4, 6, 8, 9, 12, 13, 16, 18] := by
  decide +kernel

/-- Ed25519 (published constants): the encoding of the base point decodes to the base point -/
theorem edPub_dec_base :
    Ed25519.dec Published.curve (Ed25519.toBytes Published.curve (Ed25519.Base Published.curve)) =
      .ok (Ed25519.Base Published.curve) := by
  decide +kernel

/-- Ed25519 (published constants), refused classes: over-long, truncated, canonical identity,
identity with sign bit, all-zero (order 4), order 2 (`y = Q-1`), `y = Q+1`, off-curve `y = 2` -/
theorem edPub_dec_refused :
    (Ed25519.dec Published.curve
      (Ed25519.toBytes Published.curve (Ed25519.Base Published.curve) ++ [0])).toOption = none ∧
    (Ed25519.dec Published.curve
      ((Ed25519.toBytes Published.curve (Ed25519.Base Published.curve)).take 31)).toOption = none ∧
    (Ed25519.dec Published.curve (1 :: List.replicate 31 0)).toOption = none ∧
    (Ed25519.dec Published.curve (1 :: List.replicate 30 0 ++ [128])).toOption = none ∧
    (Ed25519.dec Published.curve (List.replicate 32 0)).toOption = none ∧
    (Ed25519.dec Published.curve (natToLE 32 (Published.Q - 1).toNat)).toOption = none ∧
    (Ed25519.dec Published.curve (natToLE 32 (Published.Q + 1).toNat)).toOption = none ∧
    (Ed25519.dec Published.curve (natToLE 32 2)).toOption = none := by
  decide +kernel

end Eval

end PropAux
end Spake2Verif

section Audit
open Spake2Verif.PropAux
#print axioms validParams_of_mkParams
#print axioms toy_mkParams
#print axioms toy_valid
#print axioms toy_start
end Audit
