import Spake2Model.Model.System
/-!
Property C16 (session isolation) for the multi-session system `Spake2Model.Sys`.

For EVERY `G : Group` (no assumption on the group operations):

* `step_local`, `params_immutable` : a step on session `sid` leaves every other session and the
  parameter table untouched;
* `step_depends_only_on_own` : output and new value of session `sid` are functions of
  `(lookup sid, params)` only;
* `interleaving_independent` : in any schedule, the outputs and final state of session `sid` are
  those of running `sid`'s own subsequence alone;
* `interleavings_agree` : two schedules with the same per-session subsequences give every session
  the same outputs and the same final state;
* `deterministic` : equal constructor arguments, entropy bytes and inbound messages (i.e. equal
  operation sequences) give equal outputs (messages and keys), whatever the session id, the other
  sessions and the interleaving.
-/
namespace Spake2Model
namespace Isolation

variable {G : Group}

/-! ### association lists -/

theorem alookup_aput_self {α : Type} (k : Nat) (v : α) :
    ∀ l : List (Nat × α), alookup k (aput k v l) = some v
  | [] => by simp [aput, alookup]
  | (k', v') :: r => by
    by_cases h : k = k'
    · simp [aput, alookup, h]
    · simp [aput, alookup, h, alookup_aput_self k v r]

theorem alookup_aput_ne {α : Type} {k k' : Nat} (v : α) (hne : k' ≠ k) :
    ∀ l : List (Nat × α), alookup k' (aput k v l) = alookup k' l
  | [] => by simp [aput, alookup, hne]
  | (k'', v') :: r => by
    by_cases h : k = k''
    · subst h; simp [aput, alookup, hne]
    · by_cases h' : k' = k''
      · simp [aput, alookup, h, h']
      · simp [aput, alookup, h, h', alookup_aput_ne v hne r]

@[simp] theorem session_setSession_self (s : Sys G) (sid : Nat) (i : Inst G) :
    (s.setSession sid i).session sid = some i := alookup_aput_self sid i s.sessions

theorem session_setSession_ne (s : Sys G) {sid sid' : Nat} (i : Inst G) (h : sid' ≠ sid) :
    (s.setSession sid i).session sid' = s.session sid' := alookup_aput_ne i h s.sessions

@[simp] theorem params_setSession (s : Sys G) (sid : Nat) (i : Inst G) :
    (s.setSession sid i).params = s.params := rfl

/-! ### one step -/

/-- the new value of session `sid` and the output, as a function of the old value of the session
and the parameter table only (`none` for the session = leave it as it is) -/
def localStep (cur : Option (Inst G)) (params : List (Nat × Params G)) (op : SOp) :
    Option (Inst G) × SOut :=
  match op with
  | .new side pid pw idA idB ent =>
    match alookup pid params with
    | none => (cur, .nosuch)
    | some p => (some (Inst.new side pw idA idB p ent), .done)
  | .start =>
    match cur with
    | none => (none, .nosuch)
    | some i => (some i.start.1, SOut.ofR i.start.2)
  | .finish msg =>
    match cur with
    | none => (none, .nosuch)
    | some i => (some (i.finish msg).1, SOut.ofR (i.finish msg).2)
  | .serialize =>
    match cur with
    | none => (none, .nosuch)
    | some i => (cur, SOut.ofR i.serialize)
  | .restore side pid data =>
    match alookup pid params with
    | none => (cur, .nosuch)
    | some p =>
      match fromSerialized side data p with
      | .error e => (cur, .err e)
      | .ok i => (some i, .done)

/-- `Sys.step` acts on session `sid` as `localStep` -/
theorem step_eq_localStep (s : Sys G) (sid : Nat) (op : SOp) :
    (s.step sid op).2 = (localStep (s.session sid) s.params op).2 ∧
    (s.step sid op).1.session sid = (localStep (s.session sid) s.params op).1 := by
  cases op with
  | new side pid pw idA idB ent =>
    simp only [Sys.step, localStep]
    cases alookup pid s.params <;> simp
  | start =>
    simp only [Sys.step, localStep]
    cases h : s.session sid <;> simp [h]
  | finish msg =>
    simp only [Sys.step, localStep]
    cases h : s.session sid <;> simp [h]
  | serialize =>
    simp only [Sys.step, localStep]
    cases h : s.session sid <;> simp [h]
  | restore side pid data =>
    simp only [Sys.step, localStep]
    cases alookup pid s.params with
    | none => simp
    | some p => simp only; cases hf : fromSerialized side data p <;> simp

/-- **a step never changes the parameter table** -/
theorem params_immutable (s : Sys G) (sid : Nat) (op : SOp) : (s.step sid op).1.params = s.params := by
  cases op with
  | new side pid pw idA idB ent =>
    simp only [Sys.step]; cases alookup pid s.params <;> simp
  | start => simp only [Sys.step]; cases s.session sid <;> simp
  | finish msg => simp only [Sys.step]; cases s.session sid <;> simp
  | serialize => simp only [Sys.step]; cases s.session sid <;> simp
  | restore side pid data =>
    simp only [Sys.step]
    cases alookup pid s.params with
    | none => simp
    | some p => simp only; cases hf : fromSerialized side data p <;> simp

/-- **a step on `sid` leaves every other session unchanged** -/
theorem step_local (s : Sys G) (sid : Nat) (op : SOp) {sid' : Nat} (h : sid' ≠ sid) :
    (s.step sid op).1.session sid' = s.session sid' := by
  cases op with
  | new side pid pw idA idB ent =>
    simp only [Sys.step]; cases alookup pid s.params <;> simp [session_setSession_ne _ _ h]
  | start => simp only [Sys.step]; cases s.session sid <;> simp [session_setSession_ne _ _ h]
  | finish msg => simp only [Sys.step]; cases s.session sid <;> simp [session_setSession_ne _ _ h]
  | serialize => simp only [Sys.step]; cases s.session sid <;> simp
  | restore side pid data =>
    simp only [Sys.step]
    cases alookup pid s.params with
    | none => simp
    | some p =>
      simp only
      cases hf : fromSerialized side data p with
      | error e => rfl
      | ok i => exact session_setSession_ne _ _ h

/-- the same statement with the raw association list -/
theorem step_local' (s : Sys G) (sid : Nat) (op : SOp) {sid' : Nat} (h : sid' ≠ sid) :
    alookup sid' (s.step sid op).1.sessions = alookup sid' s.sessions := step_local s sid op h

/-- output and new session value depend only on the session's own old value and on the parameter
table; stated for two (possibly different) session ids in two systems -/
theorem step_congr {s₁ s₂ : Sys G} {sid₁ sid₂ : Nat} (op : SOp)
    (hs : s₁.session sid₁ = s₂.session sid₂) (hp : s₁.params = s₂.params) :
    (s₁.step sid₁ op).2 = (s₂.step sid₂ op).2 ∧
    (s₁.step sid₁ op).1.session sid₁ = (s₂.step sid₂ op).1.session sid₂ := by
  obtain ⟨a1, a2⟩ := step_eq_localStep s₁ sid₁ op
  obtain ⟨b1, b2⟩ := step_eq_localStep s₂ sid₂ op
  rw [a1, a2, b1, b2, hs, hp]
  exact ⟨rfl, rfl⟩

/-- **two systems agreeing on session `sid` and on the parameter table give equal outputs and an
equal new session `sid`** -/
theorem step_depends_only_on_own {s₁ s₂ : Sys G} {sid : Nat} (op : SOp)
    (hs : alookup sid s₁.sessions = alookup sid s₂.sessions) (hp : s₁.params = s₂.params) :
    (s₁.step sid op).2 = (s₂.step sid op).2 ∧
    alookup sid (s₁.step sid op).1.sessions = alookup sid (s₂.step sid op).1.sessions :=
  step_congr op hs hp

/-! ### schedules -/

@[simp] theorem run_nil (s : Sys G) : s.run [] = (s, []) := rfl

theorem run_cons (s : Sys G) (sid : Nat) (op : SOp) (rest : List (Nat × SOp)) :
    s.run ((sid, op) :: rest) =
      (((s.step sid op).1.run rest).1, (sid, (s.step sid op).2) :: ((s.step sid op).1.run rest).2) := rfl

theorem run_params (s : Sys G) (sched : List (Nat × SOp)) : (s.run sched).1.params = s.params := by
  induction sched generalizing s with
  | nil => rfl
  | cons a rest ih =>
    obtain ⟨sid, op⟩ := a
    rw [run_cons]; simp only
    rw [ih, params_immutable]

/-- the tags of the outputs are the session ids of the schedule, in order -/
theorem run_tags (s : Sys G) (sched : List (Nat × SOp)) :
    (s.run sched).2.map (·.1) = sched.map (·.1) := by
  induction sched generalizing s with
  | nil => rfl
  | cons a rest ih =>
    obtain ⟨sid, op⟩ := a
    rw [run_cons]; simp [ih]

/-- sessions not mentioned in a schedule are untouched by it -/
theorem run_local (s : Sys G) (sched : List (Nat × SOp)) {sid' : Nat}
    (h : ∀ a ∈ sched, a.1 ≠ sid') : (s.run sched).1.session sid' = s.session sid' := by
  induction sched generalizing s with
  | nil => rfl
  | cons a rest ih =>
    obtain ⟨sid, op⟩ := a
    rw [run_cons]; simp only
    rw [ih _ (fun a ha => h a (List.mem_cons_of_mem _ ha))]
    exact step_local s sid op (fun e => h (sid, op) List.mem_cons_self e.symm)

/-- main lemma: session `sid₁` inside an arbitrary schedule over `s₁` behaves as session `sid₂`
fed the same operations alone over `s₂`, provided they start equal and the tables agree -/
theorem run_project {s₁ s₂ : Sys G} {sid₁ sid₂ : Nat} (sched : List (Nat × SOp))
    (hs : s₁.session sid₁ = s₂.session sid₂) (hp : s₁.params = s₂.params) :
    outputsOf sid₁ (s₁.run sched).2 =
      ((s₂.run (((sched.filter (fun a => a.1 = sid₁)).map (·.2)).map (fun op => (sid₂, op)))).2.map (·.2)) ∧
    (s₁.run sched).1.session sid₁ =
      (s₂.run (((sched.filter (fun a => a.1 = sid₁)).map (·.2)).map (fun op => (sid₂, op)))).1.session sid₂ := by
  induction sched generalizing s₁ s₂ with
  | nil => exact ⟨rfl, hs⟩
  | cons a rest ih =>
    obtain ⟨sid, op⟩ := a
    by_cases h : sid = sid₁
    · subst h
      obtain ⟨ho, hn⟩ := step_congr op hs hp
      have hp' : (s₁.step sid op).1.params = (s₂.step sid₂ op).1.params := by
        rw [params_immutable, params_immutable, hp]
      obtain ⟨i1, i2⟩ := ih hn hp'
      simp only [run_cons, outputsOf, List.filter_cons, decide_true, if_true, List.map_cons] at i1 ⊢
      exact ⟨by rw [ho]; exact congrArg _ i1, i2⟩
    · have hn : (s₁.step sid op).1.session sid₁ = s₂.session sid₂ := by
        rw [step_local s₁ sid op (Ne.symm h)]; exact hs
      have hp' : (s₁.step sid op).1.params = s₂.params := by rw [params_immutable, hp]
      obtain ⟨i1, i2⟩ := ih hn hp'
      simp only [run_cons, outputsOf, List.filter_cons, h, decide_false, Bool.false_eq_true,
        if_false] at i1 ⊢
      exact ⟨i1, i2⟩

theorem filter_map_self (sid : Nat) (sched : List (Nat × SOp)) :
    ((sched.filter (fun a => a.1 = sid)).map (·.2)).map (fun op => (sid, op))
      = sched.filter (fun a => a.1 = sid) := by
  induction sched with
  | nil => rfl
  | cons a rest ih =>
    obtain ⟨sid', op⟩ := a
    by_cases h : sid' = sid
    · subst h; simpa using ih
    · simpa [h] using ih

theorem outputsOf_filter_self (s : Sys G) (sid : Nat) (sched : List (Nat × SOp)) :
    outputsOf sid (s.run (sched.filter (fun a => a.1 = sid))).2
      = (s.run (sched.filter (fun a => a.1 = sid))).2.map (·.2) := by
  unfold outputsOf
  congr 1
  rw [List.filter_eq_self]
  intro p hp
  have ht := run_tags s (sched.filter (fun a => a.1 = sid))
  have : p.1 ∈ (s.run (sched.filter (fun a => a.1 = sid))).2.map (·.1) := List.mem_map_of_mem hp
  rw [ht, List.mem_map] at this
  obtain ⟨a, ha, hpa⟩ := this
  have := (List.mem_filter.mp ha).2
  simp only [decide_eq_true_eq] at this ⊢
  omega

/-- **interleaving independence**: for every schedule and every session id, the outputs of `sid`
in `Sys.run s sched` are the outputs of running only `sid`'s own subsequence from the same initial
system, and the final state of session `sid` is the same -/
theorem interleaving_independent (s : Sys G) (sched : List (Nat × SOp)) (sid : Nat) :
    outputsOf sid (s.run sched).2 = outputsOf sid (s.run (sched.filter (fun a => a.1 = sid))).2 ∧
    (s.run sched).2.filter (fun p => p.1 = sid) = (s.run (sched.filter (fun a => a.1 = sid))).2 ∧
    alookup sid (s.run sched).1.sessions
      = alookup sid (s.run (sched.filter (fun a => a.1 = sid))).1.sessions := by
  obtain ⟨h1, h2⟩ := run_project (s₁ := s) (s₂ := s) (sid₁ := sid) (sid₂ := sid) sched rfl rfl
  rw [filter_map_self] at h1 h2
  have h1' : outputsOf sid (s.run sched).2
      = outputsOf sid (s.run (sched.filter (fun a => a.1 = sid))).2 := by
    rw [outputsOf_filter_self]; exact h1
  refine ⟨h1', ?_, h2⟩
  -- tagged version: both sides are lists of pairs whose first components are all `sid`
  have hfst : ∀ (l : List (Nat × SOut)), (∀ p ∈ l, p.1 = sid) → l = (l.map (·.2)).map (fun o => (sid, o)) := by
    intro l hl
    induction l with
    | nil => rfl
    | cons p r ih =>
      have := hl p List.mem_cons_self
      obtain ⟨a, b⟩ := p
      simp only at this; subst this
      simp only [List.map_cons, List.cons.injEq, true_and]
      exact ih (fun q hq => hl q (List.mem_cons_of_mem _ hq))
  have hA : ∀ p ∈ (s.run sched).2.filter (fun p => p.1 = sid), p.1 = sid := by
    intro p hp; simpa using (List.mem_filter.mp hp).2
  have hB : ∀ p ∈ (s.run (sched.filter (fun a => a.1 = sid))).2, p.1 = sid := by
    intro p hp
    have ht := run_tags s (sched.filter (fun a => a.1 = sid))
    have : p.1 ∈ (s.run (sched.filter (fun a => a.1 = sid))).2.map (·.1) := List.mem_map_of_mem hp
    rw [ht, List.mem_map] at this
    obtain ⟨a, ha, hpa⟩ := this
    have := (List.mem_filter.mp ha).2
    simp only [decide_eq_true_eq] at this
    omega
  rw [hfst _ hA, hfst _ hB]
  congr 1

/-- **any two schedules that are interleavings of the same per-session sequences give every
session the same outputs and the same final state** -/
theorem interleavings_agree (s : Sys G) (sched₁ sched₂ : List (Nat × SOp))
    (h : ∀ sid, sched₁.filter (fun a => a.1 = sid) = sched₂.filter (fun a => a.1 = sid)) (sid : Nat) :
    outputsOf sid (s.run sched₁).2 = outputsOf sid (s.run sched₂).2 ∧
    alookup sid (s.run sched₁).1.sessions = alookup sid (s.run sched₂).1.sessions := by
  obtain ⟨a1, _, a3⟩ := interleaving_independent s sched₁ sid
  obtain ⟨b1, _, b3⟩ := interleaving_independent s sched₂ sid
  rw [a1, a3, b1, b3, h sid]
  exact ⟨rfl, rfl⟩

/-- in particular a permutation of a schedule that keeps each session's own order -/
theorem interleavings_agree_params (s : Sys G) (sched₁ sched₂ : List (Nat × SOp)) :
    (s.run sched₁).1.params = (s.run sched₂).1.params := by
  rw [run_params, run_params]

/-- **determinism / reproducibility**: a session's outputs (handshake messages, keys, serialised
states, errors) are a function of the parameter table, its initial value and the sequence of
operations applied to it — i.e. of the constructor arguments, entropy bytes, inbound messages and
restored blobs carried by those operations.  They depend neither on the session id, nor on the
other sessions, nor on the interleaving. -/
theorem deterministic {s₁ s₂ : Sys G} {sid₁ sid₂ : Nat} (sched₁ sched₂ : List (Nat × SOp))
    (hp : s₁.params = s₂.params) (hs : alookup sid₁ s₁.sessions = alookup sid₂ s₂.sessions)
    (hops : (sched₁.filter (fun a => a.1 = sid₁)).map (·.2)
          = (sched₂.filter (fun a => a.1 = sid₂)).map (·.2)) :
    outputsOf sid₁ (s₁.run sched₁).2 = outputsOf sid₂ (s₂.run sched₂).2 ∧
    alookup sid₁ (s₁.run sched₁).1.sessions = alookup sid₂ (s₂.run sched₂).1.sessions := by
  obtain ⟨a1, a2⟩ := run_project (s₁ := s₁) (s₂ := s₂) (sid₁ := sid₁) (sid₂ := sid₂) sched₁ hs hp
  obtain ⟨b1, b2⟩ := run_project (s₁ := s₂) (s₂ := s₂) (sid₁ := sid₂) (sid₂ := sid₂) sched₂ rfl rfl
  rw [hops] at a1 a2
  exact ⟨a1.trans b1.symm, a2.trans b2.symm⟩

/-- `Sys.run` is a function: the fully explicit two-party instance.  Two runs of the protocol
whose constructor arguments, entropy and inbound message coincide produce the same outbound
message and the same key. -/
theorem deterministic_session (params : List (Nat × Params G)) (sid₁ sid₂ : Nat)
    (side : Side) (pid : Nat) (pw idA idB : Bytes) (ent : Entropy) (msg : Bytes) :
    (Sys.init params).run [(sid₁, .new side pid pw idA idB ent), (sid₁, .start), (sid₁, .finish msg)]
      |>.2.map (·.2)
    = ((Sys.init params).run [(sid₂, .new side pid pw idA idB ent), (sid₂, .start), (sid₂, .finish msg)]
      |>.2.map (·.2)) := by
  have h := (deterministic (s₁ := Sys.init params) (s₂ := Sys.init params) (sid₁ := sid₁) (sid₂ := sid₂)
    [(sid₁, .new side pid pw idA idB ent), (sid₁, .start), (sid₁, .finish msg)]
    [(sid₂, .new side pid pw idA idB ent), (sid₂, .start), (sid₂, .finish msg)] rfl rfl (by simp)).1
  have e1 := outputsOf_filter_self (Sys.init (G := G) params) sid₁
    [(sid₁, .new side pid pw idA idB ent), (sid₁, .start), (sid₁, .finish msg)]
  have e2 := outputsOf_filter_self (Sys.init (G := G) params) sid₂
    [(sid₂, .new side pid pw idA idB ent), (sid₂, .start), (sid₂, .finish msg)]
  simp only [List.filter_cons, decide_true, if_true, List.filter_nil] at e1 e2
  rw [← e1, ← e2]
  exact h

end Isolation
end Spake2Model

section Audit
open Spake2Model Spake2Model.Isolation
#print axioms step_local
#print axioms params_immutable
#print axioms step_depends_only_on_own
#print axioms step_congr
#print axioms interleaving_independent
#print axioms interleavings_agree
#print axioms deterministic
#print axioms deterministic_session
end Audit
