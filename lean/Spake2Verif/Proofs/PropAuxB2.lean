import Spake2Verif.Proofs.RandrangeProofs
import Spake2Verif.Proofs.Restore
import Spake2Model.Model.Ed25519
import Spake2Model.Model.Group
/-!
Auxiliary lemmas for the property file C11: the Ed25519 sampler, and "entropy is touched only by `start()`".
-/
namespace Spake2Verif.PropAuxB
open Spake2Model Spake2Model.Gen

/-! ### Ed25519 `random_scalar` -/

theorem random_scalar_bytes_eq : Ed.random_scalar_bytes = 64 := by decide

/-- `random_scalar` unfolded: exactly 64 bytes are requested, once; their big-endian value is reduced mod `L` -/
theorem ed_randomScalar_eq (c : Curve) (ent : Entropy) :
    Ed25519.randomScalar c ent =
      if ent.stream.length < 64 then raise .EntropyExhausted
      else .ok ((beToNat (ent.stream.take 64) : Int) % c.L, ⟨ent.stream.drop 64⟩) := by
  unfold Ed25519.randomScalar Entropy.take
  have h64 : Ed.random_scalar_bytes.toNat = 64 := by decide
  rw [h64]
  by_cases h : ent.stream.length < 64
  · rw [if_pos h, if_pos h]; rfl
  · rw [if_neg h, if_neg h]
    have hne : ent.stream.take 64 ≠ [] := by
      intro he
      have := congrArg List.length he
      rw [List.length_take, List.length_nil] at this
      omega
    simp only [bytesToNumber_ok hne]

/-- on a stream of exactly 64 bytes -/
theorem ed_randomScalar_64 (c : Curve) {s : Bytes} (hs : s.length = 64) :
    Ed25519.randomScalar c ⟨s⟩ = .ok ((beToNat s : Int) % c.L, ⟨[]⟩) := by
  rw [ed_randomScalar_eq]
  have h1 : ¬ (s.length < 64) := by omega
  simp only [h1, if_false]
  rw [List.take_of_length_le (by omega), List.drop_of_length_le (by omega)]

set_option maxRecDepth 10000 in
open Classical in
/-- the count over 64-byte strings, as a count over `N < 256^64` -/
theorem ed_scalar_count (c : Curve) (hL : 0 < c.L) (r : Nat) :
    ((bytesOfLen 64).filter (fun s => Ed25519.randomScalar c ⟨s⟩ = .ok ((r : Int), ⟨[]⟩))).card
      = ((Finset.range (256 ^ 64)).filter (fun n => n % c.L.toNat = r)).card := by
  have hcast : ((c.L.toNat : ℕ) : Int) = c.L := Int.toNat_of_nonneg (le_of_lt hL)
  refine (card_filter_bytesOfLen 64 _).trans (congrArg Finset.card ?_)
  apply Finset.filter_congr
  intro N hN
  have hN' : N < 256 ^ 64 := Finset.mem_range.mp hN
  rw [ed_randomScalar_64 c (natToBE_length 64 N), beToNat_natToBE_of_lt hN']
  constructor
  · intro h
    injection h with h
    injection h with h _
    have : ((N % c.L.toNat : ℕ) : Int) = (r : Int) := by rw [Int.natCast_mod, hcast]; exact h
    exact_mod_cast this
  · intro h
    have : (N : Int) % c.L = (r : Int) := by rw [← hcast, ← Int.natCast_mod, h]
    rw [this]

set_option exponentiation.threshold 600 in
open Classical in
/-- **bias of the Ed25519 sampler on byte strings**: every residue `r < L` is returned for
`⌊2^512/L⌋` or `⌊2^512/L⌋ + 1` of the `2^512` strings of 64 bytes -/
theorem ed_scalar_bias (c : Curve) (hL : 0 < c.L) (r : Nat) (hr : (r : Int) < c.L) :
    ((bytesOfLen 64).filter (fun s => Ed25519.randomScalar c ⟨s⟩ = .ok ((r : Int), ⟨[]⟩))).card
        = 2 ^ 512 / c.L.toNat ∨
    ((bytesOfLen 64).filter (fun s => Ed25519.randomScalar c ⟨s⟩ = .ok ((r : Int), ⟨[]⟩))).card
        = 2 ^ 512 / c.L.toNat + 1 := by
  have hLn : 0 < c.L.toNat := by omega
  have hrn : r < c.L.toNat := by omega
  have hX := ed_scalar_count c hL r
  rw [card_mod_eq c.L.toNat r hLn hrn] at hX
  generalize ((bytesOfLen 64).filter
    (fun s => Ed25519.randomScalar c ⟨s⟩ = .ok ((r : Int), ⟨[]⟩))).card = X at hX ⊢
  have e : (256 : ℕ) ^ 64 = 2 ^ 512 := (Nat.pow_mul 2 8 64).symm
  rw [← e, hX]
  split
  · exact Or.inr rfl
  · exact Or.inl rfl

/-! ### entropy is read and written by `start()` only -/

variable {G : Group}

theorem finish_entropy (i : Inst G) (msg : Bytes) : (i.finish msg).1.entropy = i.entropy := by
  unfold Inst.finish
  cases hf : i.finished
  · simp only [Bool.false_eq_true, if_false]
    cases extractMessage i.side msg with
    | error err => rfl
    | ok inb => rfl
  · simp only [if_true]

theorem finishKey_entropy (i : Inst G) (e : Entropy) (inb : Bytes) :
    Inst.finishKey { i with entropy := e } inb = i.finishKey inb := rfl

/-- `finish()` on a record with another entropy source: same result, same new state up to that field -/
theorem finish_entropy_congr (i : Inst G) (e : Entropy) (msg : Bytes) :
    Inst.finish { i with entropy := e } msg =
      ({ (i.finish msg).1 with entropy := e }, (i.finish msg).2) := by
  unfold Inst.finish
  cases hf : i.finished
  · simp only [Bool.false_eq_true, if_false]
    cases extractMessage i.side msg with
    | error err => rfl
    | ok inb => rfl
  · simp only [if_true, hf]

theorem new_entropy (side : Side) (pw idA idB : Bytes) (P : Params G) (ent ent' : Entropy) :
    (Inst.new side pw idA idB P ent).entropy = ent ∧
    Inst.new side pw idA idB P ent = { Inst.new side pw idA idB P ent' with entropy := ent } :=
  ⟨rfl, rfl⟩

/-- what `start()` does to the entropy source: it hands it to `G.randomScalar` exactly once and stores
what `randomScalar` returns; otherwise the field is untouched -/
theorem start_entropy (i : Inst G) :
    (i.started = true → i.start.1.entropy = i.entropy) ∧
    (i.started = false → ∀ err, G.randomScalar i.entropy = .error err →
        i.start.1.entropy = i.entropy ∧ i.start.2 = .error err) ∧
    (i.started = false → ∀ x ent', G.randomScalar i.entropy = .ok (x, ent') →
        i.start.1.entropy = ent' ∧ i.start.1.xyScalar = some x) := by
  refine ⟨fun hs => ?_, fun hs err hr => ?_, fun hs x ent' hr => ?_⟩
  · unfold Inst.start; rw [if_pos hs]
  · unfold Inst.start
    simp only [hs, Bool.false_eq_true, if_false, hr]
    exact ⟨trivial, trivial⟩
  · unfold Inst.start
    simp only [hs, Bool.false_eq_true, if_false, hr]
    split <;> exact ⟨rfl, rfl⟩

/-- `start()` depends on the entropy source only through the value `randomScalar` returns -/
theorem start_only_via_randomScalar (i : Inst G) (e₁ e₂ : Entropy) {x : Int} {r₁ r₂ : Entropy}
    (h₁ : G.randomScalar e₁ = .ok (x, r₁)) (h₂ : G.randomScalar e₂ = .ok (x, r₂)) :
    (Inst.start { i with entropy := e₁ }).2 = (Inst.start { i with entropy := e₂ }).2 ∧
    (Inst.start { i with entropy := e₁ }).1 =
      { (Inst.start { i with entropy := e₂ }).1 with
          entropy := (Inst.start { i with entropy := e₁ }).1.entropy } := by
  unfold Inst.start
  cases hs : i.started
  · simp only [Bool.false_eq_true, if_false, h₁, h₂]
    have hc : ∀ r : Entropy,
        Inst.outboundFor { i with entropy := r, started := true, xyScalar := some x } x
          = i.outboundFor x := fun r => rfl
    rw [hc r₁, hc r₂]
    cases i.outboundFor x with
    | error err => exact ⟨rfl, rfl⟩
    | ok ob => exact ⟨rfl, rfl⟩
  · simp only [if_true]
    exact ⟨trivial, trivial⟩

/-- a restored session holds the empty entropy stream (the restore path has no entropy argument at all) -/
theorem restored_entropy {side : Side} {data : Bytes} {P : Params G} {i' : Inst G}
    (h : fromSerialized side data P = .ok i') : i'.entropy = ⟨[]⟩ :=
  (fromSerialized_fields h).2.2.2.2.2.2.1

/-! ### acceptance probability over chunks, bytes consumed by `start()` -/

/-- at least half of all `nb`-byte chunks are accepted (so the expected number of draws is at most 2) -/
theorem accept_chunks_half {m : Int} (h : 0 < m) :
    256 ^ sizeBytes m ≤
      2 * ((bytesOfLen (sizeBytes m)).filter (fun bs => (cand (maskOf m) bs : Int) < m)).card := by
  rw [card_accept h, pow_nb_eq (Int.le_of_lt h)]
  have := accept_half h
  calc 2 ^ (8 * sizeBytes m - sizeBits m) * 2 ^ sizeBits m
      ≤ 2 ^ (8 * sizeBytes m - sizeBits m) * (2 * m.toNat) := Nat.mul_le_mul_left _ this
    _ = 2 * (m.toNat * 2 ^ (8 * sizeBytes m - sizeBits m)) := by
        rw [Nat.mul_comm (2 ^ _) (2 * _), Nat.mul_assoc]

/-- integer groups: `start()` leaves exactly the stream after the first accepted chunk -/
theorem start_consumption_int (P : IntGroupParams) (hq : 0 < P.q) (i : Inst (intGroup P))
    (hs : i.started = false) (j : Nat)
    (hlen : (j + 1) * sizeBytes P.q ≤ i.entropy.stream.length)
    (hrej : ∀ k < j, ¬ (cand (maskOf P.q) (chunk (sizeBytes P.q) i.entropy.stream k) : Int) < P.q)
    (hacc : (cand (maskOf P.q) (chunk (sizeBytes P.q) i.entropy.stream j) : Int) < P.q) :
    i.start.1.entropy = ⟨i.entropy.stream.drop ((j + 1) * sizeBytes P.q)⟩ ∧
    i.start.1.xyScalar = some (cand (maskOf P.q) (chunk (sizeBytes P.q) i.entropy.stream j) : Int) := by
  have hsub : P.q - 0 = P.q := Int.sub_zero _
  have h := (randrange_first_accept (start := 0) (stop := P.q) hq i.entropy.stream j
    (by rw [hsub]; exact hlen) (by rw [hsub]; exact hrej) (by rw [hsub]; exact hacc)).1
  rw [hsub, Int.zero_add] at h
  exact (start_entropy i).2.2 hs _ _ h

/-- Ed25519: `start()` leaves exactly the stream after the first 64 bytes -/
theorem start_consumption_ed (c : Curve) (i : Inst (edGroup c)) (hs : i.started = false) :
    (i.entropy.stream.length < 64 → i.start.1.entropy = i.entropy ∧
        i.start.2 = raise .EntropyExhausted) ∧
    (64 ≤ i.entropy.stream.length → i.start.1.entropy = ⟨i.entropy.stream.drop 64⟩ ∧
        i.start.1.xyScalar = some ((beToNat (i.entropy.stream.take 64) : Int) % c.L)) := by
  have hr := ed_randomScalar_eq c i.entropy
  constructor
  · intro hlt
    rw [if_pos hlt] at hr
    exact (start_entropy i).2.1 hs _ hr
  · intro hge
    rw [if_neg (by omega)] at hr
    exact (start_entropy i).2.2 hs _ _ hr

end Spake2Verif.PropAuxB
