import Spake2Verif.Proofs.PropAuxB6
import Spake2Verif.Spec.IntGroupSpec
import Mathlib.FieldTheory.Finite.Basic
/-!
Auxiliary lemma for C14: with a prime modulus, integer-group `arbitrary_element` returns unless the expanded seed is
`≡ 0 (mod p)` (Fermat's little theorem).
-/
namespace Spake2Verif.PropAuxB
open Spake2Model Spake2Model.Gen

theorem ig_arb_total (P : IntGroupParams) (hpp : Nat.Prime P.p.toNat) (hq : 0 < P.q)
    (hrq : Int.fdiv (P.p - 1) P.q * P.q = P.p - 1) (seed : Bytes)
    (hh : (beToNat (Sha.hkdf seed [] (asciiOf "SPAKE2 arbitrary element") (sizeBytes P.p)) : Int) % P.p ≠ 0) :
    IG.arb P seed = .ok (Py.pow3
      ((beToNat (Sha.hkdf seed [] (asciiOf "SPAKE2 arbitrary element") (sizeBytes P.p)) : Int) % P.p)
      (Int.fdiv (P.p - 1) P.q) P.p) := by
  have : Fact P.p.toNat.Prime := ⟨hpp⟩
  have hp2 := hpp.two_le
  have hp : 1 < P.p := by omega
  have hpn : ((P.p.toNat : ℕ) : Int) = P.p := Int.toNat_of_nonneg (by omega)
  set h : Int := (beToNat (Sha.hkdf seed [] (asciiOf "SPAKE2 arbitrary element") (sizeBytes P.p)) : Int) % P.p
    with hdef
  set r : Int := Int.fdiv (P.p - 1) P.q with hr
  have hr0 : 0 ≤ r := by
    by_contra hneg
    have : r * P.q < 0 := Int.mul_neg_of_neg_of_pos (by omega) hq
    rw [hrq] at this; omega
  have hrange : 0 ≤ h ∧ h < P.p := ⟨Int.emod_nonneg _ (by omega), Int.emod_lt_of_pos _ (by omega)⟩
  have hne : (h : ZMod P.p.toNat) ≠ 0 := by
    intro h0
    rw [ZMod.intCast_zmod_eq_zero_iff_dvd, hpn] at h0
    have := Int.emod_eq_zero_of_dvd h0
    rw [Int.emod_eq_of_lt hrange.1 hrange.2] at this
    exact hh this
  have hmem : Py.pow3 (Py.pow3 h r P.p) P.q P.p = 1 := by
    rw [IntGroupSpec.pow3_eq_one_iff hp (le_of_lt hq), IntGroupSpec.cast_pow3 hp h r hr0, ← pow_mul]
    have e : r.toNat * P.q.toNat = P.p.toNat - 1 := by
      have h1 : ((r.toNat * P.q.toNat : ℕ) : Int) = P.p - 1 := by
        push_cast
        rw [Int.toNat_of_nonneg hr0, Int.toNat_of_nonneg (le_of_lt hq)]
        exact hrq
      omega
    rw [e]
    exact ZMod.pow_card_sub_one_eq_one hne
  rw [ig_arb_unfold P (by omega) seed, if_neg (not_not.2 hrq), if_pos hmem]

end Spake2Verif.PropAuxB
