import Spake2Verif.Proofs.EdCurveOK
import Spake2Verif.Proofs.BytesLemmas

/-!
# `encodepoint`, `to_bytes`, and soundness of `decodepoint`

* `encodepoint (x, y)` for `0 ≤ y < 2^255` is the 32-byte little-endian string of
  `y + 2^255·(x mod 2)`;
* `to_bytes` of any representative of a curve point `P` is `natToLE 32 (encN P)`: 32 bytes,
  depending only on `P`, and injective in `P` (`toBytes_eq_iff`);
* `decodepoint` only returns pairs that pass `isoncurve`, with `0 ≤ y < 2^255`.

None of this needs `xrecover` to be correct.
-/
namespace Spake2Verif
open Spake2Model Spake2Model.Gen Spake2Verif.Edw Spake2Verif.EdBridge

namespace PyBits

theorem shl_1_255 : Py.shl 1 255 = 2 ^ 255 := by decide +kernel

theorem bitLength_clamp : Py.bitLength (2 ^ 255 - 1) = 255 := by decide +kernel

theorem bitLength_top : Py.bitLength (2 ^ 255) = 256 := by decide +kernel

/-- `a & (2^255 - 1)` is `a mod 2^255` -/
theorem band_clamp (a : ℤ) : Py.band a (2 ^ 255 - 1) = a % 2 ^ 255 := by
  unfold Py.band
  rw [if_pos (by norm_num), bitLength_clamp]
  have h1 : ((255 : ℤ).toNat) = 255 := rfl
  have h2 : ((2 : ℤ) ^ 255 - 1).toNat = 2 ^ 255 - 1 := by decide +kernel
  rw [h1, h2]
  show (((a % 2 ^ 255).toNat &&& 2 ^ 255 - 1 : ℕ) : ℤ) = a % 2 ^ 255
  rw [Nat.and_two_pow_sub_one_eq_mod]
  have h0 : 0 ≤ a % 2 ^ 255 := Int.emod_nonneg _ (by norm_num)
  have h3 : a % 2 ^ 255 < 2 ^ 255 := Int.emod_lt_of_pos _ (by norm_num)
  have h4 : (a % 2 ^ 255).toNat < 2 ^ 255 := by omega
  rw [Nat.mod_eq_of_lt h4]
  omega

/-- `a & 2^255` is nonzero exactly when bit 255 of `a` is set -/
theorem band_top_ne_zero (a : ℤ) : Py.band a (2 ^ 255) ≠ 0 ↔ a / 2 ^ 255 % 2 = 1 := by
  unfold Py.band
  rw [if_pos (by norm_num), bitLength_top]
  have h1 : ((256 : ℤ).toNat) = 256 := rfl
  have h2 : ((2 : ℤ) ^ 255).toNat = 2 ^ 255 := by decide +kernel
  rw [h1, h2]
  show (((a % 2 ^ 256).toNat &&& 2 ^ 255 : ℕ) : ℤ) ≠ 0 ↔ _
  rw [Nat.and_two_pow, Nat.testBit_eq_decide_div_mod_eq]
  have h0 : 0 ≤ a % 2 ^ 256 := Int.emod_nonneg _ (by norm_num)
  have h3 : a % 2 ^ 256 < 2 ^ 256 := Int.emod_lt_of_pos _ (by norm_num)
  by_cases hb : (a % 2 ^ 256).toNat / 2 ^ 255 % 2 = 1
  · simp only [hb, decide_true, Bool.toNat_true, one_mul]
    constructor
    · intro _; omega
    · intro _; positivity
  · simp only [hb, decide_false, Bool.toNat_false, zero_mul]
    constructor
    · intro hh; exact absurd rfl hh
    · intro hh; exfalso; apply hb; omega

end PyBits

open PyBits

/-- the integer whose 32 little-endian bytes `encodepoint` writes -/
def encInt (x y : ℤ) : ℕ := y.toNat + 2 ^ 255 * (x % 2).toNat

theorem encInt_lt {x y : ℤ} (hy : y < 2 ^ 255) : encInt x y < 256 ^ 32 := by
  unfold encInt
  have h0 : 0 ≤ x % 2 := Int.emod_nonneg _ (by norm_num)
  have h1 : x % 2 < 2 := Int.emod_lt_of_pos _ (by norm_num)
  have : (x % 2).toNat ≤ 1 := by omega
  have : (256 : ℕ) ^ 32 = 2 ^ 255 + 2 ^ 255 := by norm_num
  have : y.toNat < 2 ^ 255 := by omega
  nlinarith

/-- `encodepoint` on a pair with `0 ≤ y < 2^255` -/
theorem encodepoint_ok (x y : ℤ) (hy0 : 0 ≤ y) (hy : y < 2 ^ 255) :
    Ed25519.encodepoint (x, y) = .ok (natToLE 32 (encInt x y)) := by
  unfold Ed25519.encodepoint
  simp only [shl_1_255, Py.band_one]
  rw [if_neg (not_not.2 ⟨hy0, hy⟩)]
  have h0 : 0 ≤ x % 2 := Int.emod_nonneg _ (by norm_num)
  have h1 : x % 2 < 2 := Int.emod_lt_of_pos _ (by norm_num)
  congr 2
  unfold encInt
  by_cases hx : x % 2 = 0
  · simp [hx]
  · have hx1 : x % 2 = 1 := by omega
    simp only [ne_eq, hx1]
    have : (1 : ℤ).toNat = 1 := rfl
    rw [this]; omega

/-- `encodepoint` refuses `y` outside `[0, 2^255)` -/
theorem encodepoint_err (x y : ℤ) (hy : ¬ (0 ≤ y ∧ y < 2 ^ 255)) :
    Ed25519.encodepoint (x, y) = raise .AssertionError := by
  unfold Ed25519.encodepoint
  simp only [shl_1_255]
  rw [if_pos hy]

/-- `encodepoint` of a pair with `0 ≤ y < 2^255`: 32 bytes, little-endian value
`y + 2^255·(x mod 2)` -/
theorem encodepoint_spec (x y : ℤ) (hy0 : 0 ≤ y) (hy : y < 2 ^ 255) :
    ∃ b, Ed25519.encodepoint (x, y) = .ok b ∧ b.length = 32 ∧ IsBytes b ∧
      (leToNat b : ℤ) = y + 2 ^ 255 * (x % 2) := by
  refine ⟨_, encodepoint_ok x y hy0 hy, natToLE_length _ _, natToLE_isBytes _ _, ?_⟩
  rw [leToNat_natToLE_of_lt (encInt_lt hy)]
  unfold encInt
  have h0 : 0 ≤ x % 2 := Int.emod_nonneg _ (by norm_num)
  push_cast
  rw [Int.toNat_of_nonneg hy0, Int.toNat_of_nonneg h0]

theorem ok_of_ite {α : Type} {b : Bool} {v w : α} {e : Err}
    (h : (if b = true then Except.ok v else Except.error e) = Except.ok w) : b = true ∧ v = w := by
  cases b
  · simp at h
  · simp at h; exact ⟨rfl, h⟩

namespace CurveOK
variable {c : Curve} [Fact c.Q.toNat.Prime] (h : CurveOK c)
include h

/-- the encoding of a curve point, as a number `< 2^256` -/
def encN (P : Point (EC h)) : ℕ := P.y.val + 2 ^ 255 * (P.x.val % 2)

theorem encN_eq (P : Point (EC h)) : encInt (P.x.val : ℤ) (P.y.val : ℤ) = encN h P := by
  unfold encInt encN
  have : ((P.x.val : ℤ) % 2).toNat = P.x.val % 2 := by omega
  rw [this, Int.toNat_natCast]

theorem val_lt_255 (z : ZMod c.Q.toNat) : (z.val : ℤ) < 2 ^ 255 :=
  lt_trans (h.val_lt z) h.Q_lt

theorem encN_lt (P : Point (EC h)) : encN h P < 256 ^ 32 := by
  rw [← encN_eq]; exact encInt_lt (h.val_lt_255 _)

/-- the canonical encoding of a curve point -/
def encP (P : Point (EC h)) : Bytes := natToLE 32 (encN h P)

theorem encP_length (P : Point (EC h)) : (encP h P).length = 32 := natToLE_length _ _
theorem encP_isBytes (P : Point (EC h)) : IsBytes (encP h P) := natToLE_isBytes _ _

/-- `to_bytes` of any representative of `P` is the canonical encoding of `P` -/
theorem toBytes_rep {e : EdElem} {P : Point (EC h)} (r : Rep (EC h) e.pt P) :
    Ed25519.toBytesR c e = .ok (encP h P) ∧ Ed25519.toBytes c e = encP h P := by
  have h1 : Ed25519.toBytesR c e = .ok (encP h P) := by
    unfold Ed25519.toBytesR
    rw [h.to_affine r, encodepoint_ok _ _ (Int.natCast_nonneg _) (h.val_lt_255 _), encN_eq]
    rfl
  refine ⟨h1, ?_⟩
  unfold Ed25519.toBytes
  rw [h1]

/-- `1 + d·y² ≠ 0` because `d` is not a square -/
theorem one_add_d_sq_ne_zero (y : ZMod c.Q.toNat) : 1 + (c.d : ZMod c.Q.toNat) * y ^ 2 ≠ 0 := by
  intro h0
  by_cases hy : y = 0
  · rw [hy] at h0; simp at h0
  · apply h.d_nonsq ((c.I : ZMod c.Q.toNat) / y)
    rw [div_pow, h.I_sq]
    field_simp
    linear_combination -h0

/-- on the curve, `x²` is determined by `y`: `x²·(1 + d·y²) = y² - 1` -/
theorem x_sq_eq {x y : ZMod c.Q.toNat} (hon : OnCurve (c.d : ZMod c.Q.toNat) x y) :
    x ^ 2 = (y ^ 2 - 1) / (1 + (c.d : ZMod c.Q.toNat) * y ^ 2) := by
  rw [eq_div_iff (h.one_add_d_sq_ne_zero y)]
  unfold OnCurve at hon
  linear_combination -hon

omit [Fact c.Q.toNat.Prime] in
theorem Qn_odd : c.Q.toNat % 2 = 1 := by have := h.Qn_mod8; omega

/-- a nonzero residue and its negative have representatives of different parity -/
theorem neg_val_parity {x : ZMod c.Q.toNat} (hx : x ≠ 0) : (-x).val % 2 ≠ x.val % 2 := by
  have : NeZero c.Q.toNat := ⟨(Fact.out : c.Q.toNat.Prime).ne_zero⟩
  rw [ZMod.neg_val, if_neg hx]
  have := ZMod.val_lt x
  have := h.Qn_odd
  omega

/-- a curve point is determined by `y` and the parity of `x` -/
theorem point_ext_parity {P P' : Point (EC h)} (hy : P.y = P'.y)
    (hx : P.x.val % 2 = P'.x.val % 2) : P = P' := by
  have e1 := h.x_sq_eq (x := P.x) (y := P.y) P.on
  have e2 := h.x_sq_eq (x := P'.x) (y := P'.y) P'.on
  rw [hy, ← e2] at e1
  have : (P.x - P'.x) * (P.x + P'.x) = 0 := by linear_combination e1
  rcases mul_eq_zero.1 this with hh | hh
  · exact Point.ext (by linear_combination hh) hy
  · have hneg : P.x = -P'.x := by linear_combination hh
    by_cases h0 : P'.x = 0
    · exact Point.ext (by rw [hneg, h0, neg_zero]) hy
    · exfalso
      rw [hneg] at hx
      exact h.neg_val_parity h0 hx

theorem encN_injective {P P' : Point (EC h)} (he : encN h P = encN h P') : P = P' := by
  unfold encN at he
  have h1 := h.val_lt_255 P.y
  have h2 := h.val_lt_255 P'.y
  have hy : P.y.val = P'.y.val := by omega
  have hx : P.x.val % 2 = P'.x.val % 2 := by omega
  have : NeZero c.Q.toNat := ⟨(Fact.out : c.Q.toNat.Prime).ne_zero⟩
  exact h.point_ext_parity (ZMod.val_injective _ hy) hx

theorem encP_injective {P P' : Point (EC h)} (he : encP h P = encP h P') : P = P' :=
  h.encN_injective (natToLE_injective (h.encN_lt P) (h.encN_lt P') he)

/-- `to_bytes` depends only on the represented point, and determines it -/
theorem toBytes_eq_iff {a b : EdElem} {P P' : Point (EC h)} (ra : Rep (EC h) a.pt P)
    (rb : Rep (EC h) b.pt P') : Ed25519.toBytes c a = Ed25519.toBytes c b ↔ P = P' := by
  rw [(h.toBytes_rep ra).2, (h.toBytes_rep rb).2]
  exact ⟨h.encP_injective, fun e => by rw [e]⟩

theorem toBytes_length {a : EdElem} {P : Point (EC h)} (ra : Rep (EC h) a.pt P) :
    (Ed25519.toBytes c a).length = 32 ∧ IsBytes (Ed25519.toBytes c a) := by
  rw [(h.toBytes_rep ra).2]; exact ⟨encP_length h P, encP_isBytes h P⟩

theorem zeroBytes_eq : Ed25519.zeroBytes c = encP h 0 :=
  (h.toBytes_rep (e := Ed25519.Zero c) h.zeroPt_rep.1).2

/-! ### soundness of `decodepoint` -/

omit [Fact c.Q.toNat.Prime] h in
/-- `decodepoint` returns only pairs accepted by `isoncurve`, with `y` in `[0, 2^255)` -/
theorem decodepoint_sound {s : Bytes} {x y : ℤ} (hd : Ed25519.decodepoint c s = .ok (x, y)) :
    Ed.isoncurve c.Q c.d (x, y) = true ∧ 0 ≤ y ∧ y < 2 ^ 255 ∧
      y = ((leToNat (s.take 32) : ℕ) : ℤ) % 2 ^ 255 := by
  unfold Ed25519.decodepoint at hd
  simp only [shl_1_255, band_clamp] at hd
  split at hd
  · cases hd
  · obtain ⟨hon, hv⟩ := ok_of_ite hd
    injection hv with hx hy
    rw [hx, hy] at hon
    refine ⟨hon, ?_, ?_, hy.symm⟩
    · rw [← hy]; exact Int.emod_nonneg _ (by norm_num)
    · rw [← hy]; exact Int.emod_lt_of_pos _ (by norm_num)

end CurveOK

#print axioms encodepoint_spec
#print axioms CurveOK.toBytes_rep
#print axioms CurveOK.toBytes_eq_iff
#print axioms CurveOK.decodepoint_sound

end Spake2Verif

