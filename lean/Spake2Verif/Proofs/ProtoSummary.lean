import Spake2Verif.Proofs.AgreementRestores
import Spake2Verif.Proofs.Binding
import Spake2Verif.Proofs.Hiding
/-!
Entry points under the names used in the work plan, and the all-in-one form of C08 for a session
that was produced by `start()`.
-/
namespace Spake2Verif
open Spake2Model Spake2Model.Gen

variable {G : Group}

/-- `start_ok` : see `C03_start_spec` for the full statement -/
theorem start_ok (S : GroupSpec G) {P : Params G} (hP : ValidParams S P) (side : Side)
    (pw idA idB : Bytes) (ent : Entropy) {x : ℤ} {ent' : Entropy}
    (hr : G.randomScalar ent = .ok (x, ent')) :
    ∃ e, S.Valid e ∧ S.abs e = x • S.abs G.base + G.p2s pw • S.abs (blinding P side) ∧
      (G.enc e).length = G.elemSize ∧
      (Inst.new side pw idA idB P ent).start =
        ({ Inst.new side pw idA idB P ent with
            started := true, entropy := ent', xyScalar := some x, outbound := some (G.enc e) },
         .ok (side.byte ++ G.enc e)) := by
  obtain ⟨e, v, a, l, -, -, h⟩ := start_unstarted S (Inst.new side pw idA idB P ent) hP rfl hr
  exact ⟨e, v, a, l, h⟩

/-- `finish_spec` : see `C03_finish_spec` -/
theorem finish_spec (S : GroupSpec G) {i : Inst G} {x : ℤ} {ob msg body : Bytes}
    (h : Ready S i x ob) (hx : extractMessage i.side msg = .ok body) (hb : IsBytes body) :
    (∀ err, G.dec body = .error err → (i.finish msg).2 = .error err) ∧
    (∀ e, G.dec body = .ok e → G.enc e = ob → (i.finish msg).2 = .error .ReflectionThwarted) ∧
    (∀ e, G.dec body = .ok e → G.enc e ≠ ob → ∃ K, S.Valid K ∧
        S.abs K = x • (S.abs e - G.p2s i.pw • S.abs (unblinding i.params i.side)) ∧
        (i.finish msg).2 = .ok (i.finalize body ob (G.enc K))) :=
  finish_ready S h hx hb

/-- **C08, all in one**, for a session produced by `start()`: with `hash_params()` total,
`serialize()` succeeds, its output is printable ASCII, restoring it under the same class and
parameters succeeds, and the restored session is the same session (same `finish()` result on every
message, same `serialize()` output); this survives any number of further round trips. -/
theorem C08_restore_transparent (S : GroupSpec G) {P : Params G} (hP : ValidParams S P)
    {side : Side} {pw idA idB : Bytes} (hpw : IsBytes pw) (hidA : IsBytes idA) (hidB : IsBytes idB)
    {ent : Entropy} {a : Inst G} {m : Bytes}
    (hst : (Inst.new side pw idA idB P ent).start = (a, .ok m))
    {a0 : G.Elem} (harb : G.arb [] = .ok a0) :
    ∃ s a', a.serialize = .ok s ∧ (∀ c ∈ s, 0x20 ≤ c ∧ c ≤ 0x7e) ∧
      fromSerialized side s P = .ok a' ∧ SameSession a a' ∧
      a'.serialize = .ok s ∧ (∀ msg, (a'.finish msg).2 = (a.finish msg).2) ∧
      ∀ a'', RestoredFrom a a'' →
        a''.serialize = .ok s ∧ ∀ msg, (a''.finish msg).2 = (a.finish msg).2 := by
  obtain ⟨x, ob, -, rd, sa, pa, ia, ja, qa, -⟩ := start_ready S hP hst
  have bA : IsBytes a.idA := ia ▸ hidA
  have bB : IsBytes a.idB := ja ▸ hidB
  have bp : IsBytes a.pw := pa ▸ hpw
  obtain ⟨s, hs⟩ := serialize_succeeds S rd harb
  obtain ⟨a', hr, hss, -, -, -, -, hs', hf⟩ := restore_transparent S rd bA bB bp hs
  rw [sa, qa] at hr
  refine ⟨s, a', hs, (serialize_printable S rd bA bB bp hs).1, hr, hss, hs', hf, fun a'' hr'' => ?_⟩
  obtain ⟨-, f, e⟩ := hr''.finish_eq S rd bA bB bp
  exact ⟨e.trans hs, f⟩

end Spake2Verif

section Audit
open Spake2Verif
#print axioms start_ok
#print axioms finish_spec
#print axioms C08_restore_transparent
end Audit
