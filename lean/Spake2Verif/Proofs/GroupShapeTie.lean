import Spake2Model.Model.Group
import Spake2Model.Gen.GroupShape
import Spake2Verif.Proofs.EdShapeTie
import Spake2Verif.Proofs.TranscriptProofs
import Spake2Verif.Proofs.UtilProofs
import Mathlib.Tactic.SplitIfs
/-!
Tie A for the class layer of the integer groups (`groups.py`) and the group-level glue of Ed25519
(`ed25519_basic.py`, `ed25519_group.py`): the hand-written `IG.*` of `Model/IntGroup.lean`, the scalar codecs,
`randomScalar`, `p2s`, `arb` of `Model/Ed25519.lean` and the fields of `intGroup P` / `edGroup c` of `Model/Group.lean`
ARE the translation `Gen/GroupShape.lean` (regenerated from the source on every run), once the abstract primitives of
the translation are instantiated with the model's primitives (`modelPrims`).

Integer elements are embedded as `toE a = (true, a)` (the element belongs to the group object at hand).
Hypotheses that appear are the ones the source forces: `0 < q` where the model omits the (always true for a valid
group) assertion `0 <= 0 < self.q`; `0 ≤ L` where `P8.scalarmult(L)` goes through `assert s >= 0`.
-/
set_option linter.unusedSimpArgs false
set_option linter.unusedVariables false
namespace Spake2Verif.GroupShapeTie
open Spake2Model Spake2Model.Gen Spake2Model.Gen.GroupShape

/-- `binascii.unhexlify(("%0<w>x" % y).encode("ascii"))` for `0 ≤ y < 16^w`, `w` even: the `w/2`-byte big-endian
encoding.  (Outside that range the real function returns longer strings or raises; both callers assert the range
first, and the value chosen here for the rest is never observed by the tie theorems' right-hand sides' callers.) -/
def fmtHexModel (w y : Int) : R Bytes :=
  if 0 ≤ y ∧ y < 16 ^ w.toNat then .ok (natToBE (w.toNat / 2) y.toNat) else raise .BinasciiError

/-- the model's primitives, as the `Prims` of the translation -/
def modelPrims : Prims where
  b2n := bytesToNumber
  n2b := numberToBytes
  expandPw := fun data n => expandPassword data n.toNat
  expandArb := fun data n => expandArbSeed data n.toNat
  randrange := unbiasedRandrange
  draw := fun e n => e.take n.toNat
  hexint := bytesToNumber
  fmtHex := fmtHexModel

/-- a model element as an `_Element` of the group object at hand -/
def toE (a : Int) : Bool × Int := (true, a)

/-- `to_bytes` is total in the model (`[]` on the unreachable error) -/
def orNil : R Bytes → Bytes
  | .ok b => b
  | .error _ => []

/-! ### small facts -/

theorem bitLength_nonneg (m : Int) : 0 ≤ Py.bitLength m := by
  unfold Py.bitLength
  split_ifs
  · exact Int.le_refl 0
  · exact Int.ofNat_zero_le _

theorem emod_eq (a b : Int) : Int.emod a b = a % b := rfl

theorem size_bytes_pos (m : Int) : 1 ≤ Util.size_bytes m := by
  have h := bitLength_nonneg m
  unfold Util.size_bytes Util.size_bits
  rw [Spake2Model.ceilDiv8]
  split_ifs <;> simp_all <;> omega

theorem len_eq_iff (b : Bytes) {n : Int} (h : 0 ≤ n) : ((b.length : Int) = n) ↔ b.length = n.toNat := by
  omega

theorem hkdfExpand_length (prk info : Bytes) : ∀ (n i : Nat) (t acc : Bytes),
    (Sha.hkdfExpand prk info n i t acc).length = acc.length + 32 * n
  | 0, _, _, acc => by rw [Sha.hkdfExpand]; omega
  | n+1, i, t, acc => by
    rw [Sha.hkdfExpand]
    rw [hkdfExpand_length prk info n, List.length_append]
    unfold Sha.hmac; rw [Transcript.sha256_length]
    omega

/-- HKDF returns exactly the number of bytes requested (the `assert len(...)` of the callers cannot fail) -/
theorem hkdf_length (ikm salt info : Bytes) (len : Nat) : (Sha.hkdf ikm salt info len).length = len := by
  unfold Sha.hkdf
  simp only []
  rw [List.length_take, hkdfExpand_length]
  simp only [List.length_nil]
  omega

theorem expandPw_length (pw : Bytes) (n : Nat) : (expandPassword pw n).length = n := by
  unfold expandPassword; exact hkdf_length _ _ _ _

theorem expandArb_length (s : Bytes) (n : Nat) : (expandArbSeed s n).length = n := by
  unfold expandArbSeed; exact hkdf_length _ _ _ _

theorem b2n_of_pos {s : Bytes} (h : 0 < s.length) : bytesToNumber s = .ok (Int.ofNat (beToNat s)) := by
  unfold bytesToNumber
  cases s with
  | nil => simp at h
  | cons a t => simp

macro "shape_cases" : tactic =>
  `(tactic| (try split_ifs) <;> (try simp_all [toE, Except.map, raise, emod_eq]) <;> (try omega))

/-! ### (1) `IntegerGroup.bytes_to_element`, `_is_member` -/

theorem int_is_member_tie (P : IntGroupParams) (a : Int) :
    IntShape.is_member modelPrims P.p P.q P.g (toE a) = .ok (IntGroup.is_member P.p P.q a) := by
  unfold IntShape.is_member IntGroup.is_member toE
  shape_cases

/-- length test, `bytes_to_number`, range test `i <= 0 or i >= p`, membership test, in this order, with these
exceptions -/
theorem int_dec_tie (P : IntGroupParams) (b : Bytes) :
    (IG.dec P b).map toE = IntShape.bytes_to_element modelPrims P.p P.q P.g b := by
  have hs := size_bytes_pos P.p
  unfold IG.dec IntShape.bytes_to_element
  simp only [IG.elemSize, sizeBytes, len_eq_iff b (show 0 ≤ Util.size_bytes P.p by omega), modelPrims, if_true]
  by_cases hl : b.length = (Util.size_bytes P.p).toNat
  · simp only [hl, ne_eq, not_true_eq_false, if_false, if_true]
    cases hb : bytesToNumber b with
    | error e => simp [Except.map]
    | ok i =>
      have hm := int_is_member_tie P i
      simp only [modelPrims, toE] at hm
      simp only [hm]
      shape_cases
  · simp [hl, Except.map, raise]

/-! ### (2) element operations of the integer groups -/

theorem int_add_tie (P : IntGroupParams) (a b : Int) :
    (IG.add P a b).map toE = IntShape.elem_add modelPrims P.p P.q P.g (toE a) (toE b) := by
  simp [IG.add, IntShape.elem_add, IntShape.add, IntGroup.add, toE, Except.map, emod_eq, modelPrims]

theorem int_smul_tie (P : IntGroupParams) (a i : Int) :
    (IG.smul P a i).map toE = IntShape.elem_scalarmult modelPrims P.p P.q P.g (toE a) i := by
  simp [IG.smul, IntShape.elem_scalarmult, IntShape.scalarmult, IntGroup.scalarmult, toE, Except.map, emod_eq, modelPrims]

/-- `to_bytes`: `number_to_bytes(e, p)` after the same-group assertion -/
theorem int_enc_tie (P : IntGroupParams) (a : Int) :
    IntShape.elem_to_bytes modelPrims P.p P.q P.g (toE a) = numberToBytes a P.p ∧
    IG.enc P a = orNil (IntShape.elem_to_bytes modelPrims P.p P.q P.g (toE a)) := by
  have h : IntShape.elem_to_bytes modelPrims P.p P.q P.g (toE a) = numberToBytes a P.p := by
    simp only [IntShape.elem_to_bytes, IntShape.element_to_bytes, toE, modelPrims, if_true]
    cases numberToBytes a P.p <;> rfl
  refine ⟨h, ?_⟩
  rw [h]; unfold IG.enc orNil
  cases numberToBytes a P.p <;> rfl

/-- `==` / `!=` of two elements of the same group object: equality of the values -/
theorem int_eq_tie (P : IntGroupParams) (a b : Int) :
    IntShape.elem_eq modelPrims P.p P.q P.g (toE a) (toE b) = .ok ((intGroup P).eq a b) ∧
    IntShape.elem_ne modelPrims P.p P.q P.g (toE a) (toE b) = .ok (!(intGroup P).eq a b) := by
  simp [IntShape.elem_eq, IntShape.elem_ne, intGroup, toE]

/-- `Zero`, `Base`, `order()` -/
theorem int_consts_tie (P : IntGroupParams) :
    toE (intGroup P).zero = IntShape.zero P.p P.q P.g ∧ toE (intGroup P).base = IntShape.base P.p P.q P.g ∧
    IntShape.order modelPrims P.p P.q P.g = .ok (intGroup P).order ∧
    ((intGroup P).scalarSize : Int) = IntShape.scalar_size_bytes P.p P.q P.g ∧
    ((intGroup P).elemSize : Int) = IntShape.element_size_bytes P.p P.q P.g := by
  have h1 := size_bytes_pos P.p
  have h2 := size_bytes_pos P.q
  refine ⟨rfl, rfl, rfl, ?_, ?_⟩ <;>
    simp only [intGroup, IG.scalarSize, IG.elemSize, sizeBytes, IntShape.scalar_size_bytes, IntShape.element_size_bytes] <;> omega

/-! ### (3) scalar codecs of the integer groups -/

theorem int_scalarDec_tie (P : IntGroupParams) (b : Bytes) :
    IG.scalarDec P b = IntShape.bytes_to_scalar modelPrims P.p P.q P.g b := by
  have hs := size_bytes_pos P.q
  unfold IG.scalarDec IntShape.bytes_to_scalar
  simp only [IG.scalarSize, sizeBytes, len_eq_iff b (show 0 ≤ Util.size_bytes P.q by omega), modelPrims, if_true]
  by_cases hl : b.length = (Util.size_bytes P.q).toNat
  · simp only [hl, ne_eq, not_true_eq_false, if_false, if_true]
    cases hb : bytesToNumber b with
    | error e => rfl
    | ok i => shape_cases
  · simp [hl, raise]

/-- `scalar_to_bytes`: the source asserts `0 <= 0 < self.q` (sic) before `number_to_bytes(i, q)` -/
theorem int_scalarEnc_tie (P : IntGroupParams) (hq : 0 < P.q) (i : Int) :
    IG.scalarEnc P i = IntShape.scalar_to_bytes modelPrims P.p P.q P.g i := by
  unfold IG.scalarEnc IntShape.scalar_to_bytes
  simp only [modelPrims, hq, if_true, Int.le_refl, and_self]
  cases numberToBytes i P.q <;> rfl

/-- `random_scalar`: `unbiased_randrange(0, q, entropy_f)` -/
theorem int_randomScalar_tie (P : IntGroupParams) (ent : Entropy) :
    IG.randomScalar P ent = IntShape.random_scalar modelPrims P.p P.q P.g ent := by
  unfold IG.randomScalar IntShape.random_scalar
  simp only [modelPrims]
  cases unbiasedRandrange 0 P.q ent <;> rfl

/-! ### (4) `password_to_scalar` -/

/-- the module-level `password_to_scalar(pw, scalar_size_bytes, q)`: `scalar_size_bytes + 16` HKDF bytes, the length
assertion, big-endian number, `% q` -/
theorem p2s_tie (pw : Bytes) (n : Nat) (q : Int) :
    IntShape.password_to_scalar modelPrims pw (n : Int) q = .ok (passwordToScalar pw n q) := by
  unfold IntShape.password_to_scalar passwordToScalar IntGroup.p2s_reduce IntGroup.p2s_len
  have hl : (expandPassword pw ((n : Int) + 16).toNat).length = n + 16 := by
    rw [expandPw_length]; omega
  have hb := b2n_of_pos (s := expandPassword pw ((n : Int) + 16).toNat) (by omega)
  simp only [modelPrims, if_true, hl, hb]
  rw [if_pos (by omega)]
  rfl

theorem int_p2s_tie (P : IntGroupParams) (pw : Bytes) :
    IntShape.g_password_to_scalar modelPrims P.p P.q P.g pw = .ok (IG.p2s P pw) := by
  have hs := size_bytes_pos P.q
  unfold IntShape.g_password_to_scalar IG.p2s IG.scalarSize sizeBytes
  have h : Util.size_bytes P.q = (((Util.size_bytes P.q).toNat : Nat) : Int) := by omega
  have := p2s_tie pw (Util.size_bytes P.q).toNat P.q
  rw [← h] at this
  rw [this]

/-! ### (5) `arbitrary_element` of the integer groups -/

/-- expand to `element_size_bytes`, the length assertion, `r = (p-1)//q`, `assert r*q == p-1`, `h = number % p`,
`pow(h, r, p)`, `assert _is_member` -/
theorem int_arb_tie (P : IntGroupParams) (seed : Bytes) :
    (IG.arb P seed).map toE = IntShape.arbitrary_element modelPrims P.p P.q P.g seed := by
  have hs := size_bytes_pos P.p
  unfold IG.arb IntShape.arbitrary_element IntGroup.arb_r IntGroup.arb_h IntGroup.arb_elem
  have hl : ((expandArbSeed seed (Util.size_bytes P.p).toNat).length : Int) = Util.size_bytes P.p := by
    rw [expandArb_length]; omega
  simp only [modelPrims, if_true, IG.elemSize, sizeBytes, hl]
  by_cases hr : Int.fdiv (P.p - 1) P.q * P.q = P.p - 1
  · simp only [hr, ne_eq, not_true_eq_false, if_false, if_true]
    cases hb : bytesToNumber (expandArbSeed seed (Util.size_bytes P.p).toNat) with
    | error e => rfl
    | ok n =>
      have hm := int_is_member_tie P (Py.pow3 (n % P.p) (Int.fdiv (P.p - 1) P.q) P.p)
      simp only [modelPrims, toE] at hm
      simp only [hm]
      shape_cases
  · simp [hr, Except.map, raise]

/-! ### Ed25519: scalar codecs, `random_scalar`, `password_to_scalar`, `arbitrary_element` -/

open EdShapeTie (toS)

theorem bind_id {α : Type} (x : R α) :
    (match x with | .error e => .error e | .ok r => .ok r : R α) = x := by cases x <;> rfl

theorem bind_pair_id {α β : Type} (x : R (α × β)) :
    (match x with | .error e => .error e | .ok r => .ok (r.1, r.2) : R (α × β)) = x := by cases x <;> rfl

/-- `bytes_to_scalar`: `assert len(s) == 32`, little-endian (`int(hexlify(s[::-1]), 16)`), no range check -/
theorem ed_scalarDec_tie (c : Curve) (b : Bytes) :
    Ed25519.scalarDec b = EdGroupShape.bytes_to_scalar modelPrims c.Q c.L c.d c.I (Ed25519.zeroPt c) b := by
  unfold Ed25519.scalarDec EdGroupShape.bytes_to_scalar
  by_cases hl : b.length = 32
  · have hb := b2n_of_pos (s := b.reverse) (by simp [hl])
    simp only [modelPrims, hl, hb, beToNat, List.reverse_reverse]
    simp
  · have : ¬ ((b.length : Int) = 32) := by omega
    simp [hl, this]

/-- `scalar_to_bytes`: `y % L`, `assert 0 <= y < 2**256`, 32 bytes little-endian (`unhexlify("%064x" % y)[::-1]`) -/
theorem ed_scalarEnc_tie (c : Curve) (y : Int) :
    Ed25519.scalarEnc c y = EdGroupShape.scalar_to_bytes modelPrims c.Q c.L c.d c.I (Ed25519.zeroPt c) y := by
  unfold Ed25519.scalarEnc EdGroupShape.scalar_to_bytes
  have h16 : (16 : Int) ^ (64 : Int).toNat = 2 ^ 256 := by decide
  simp only [modelPrims, fmtHexModel, h16]
  by_cases h : 0 ≤ y % c.L ∧ y % c.L < 2 ^ 256
  · simp only [h, not_true_eq_false, if_false, if_true, and_self, natToBE]
    simp
  · simp only [h, not_false_eq_true, if_true, if_false]

/-- `random_scalar`: one draw of `32+32` bytes, big-endian number, `% L` -/
theorem ed_randomScalar_tie (c : Curve) (ent : Entropy) :
    Ed25519.randomScalar c ent = EdGroupShape.random_scalar modelPrims c.Q c.L c.d c.I (Ed25519.zeroPt c) ent := by
  unfold Ed25519.randomScalar EdGroupShape.random_scalar Ed.random_scalar_bytes
  simp only [modelPrims]
  cases ent.take ((32 : Int) + 32).toNat with
  | error e => rfl
  | ok r =>
    rcases r with ⟨bs, ent'⟩
    simp only []
    cases bytesToNumber bs <;> rfl

/-- `_Ed25519Group.password_to_scalar`: the shared `password_to_scalar(pw, 32, L)` -/
theorem ed_p2s_tie (c : Curve) (pw : Bytes) :
    EdGroupShape.g_password_to_scalar modelPrims c.Q c.L c.d c.I (Ed25519.zeroPt c) pw = .ok (Ed25519.p2s c pw) := by
  unfold EdGroupShape.g_password_to_scalar EdGroupShape.g_order Ed25519.p2s
  have : IntShape.password_to_scalar modelPrims pw (32 : Int) c.L = .ok (passwordToScalar pw 32 c.L) := p2s_tie pw 32 c.L
  simp only [this]
  rfl

/-- the retry loop: candidate `y + plus`, `xrecover`, reject when not on the curve, multiply by the cofactor 8, reject
the identity, assert `L·P8 = 0`, return `Element(P8)` -/
theorem ed_arbLoop_tie (c : Curve) (hL : 0 ≤ c.L) (y : Int) : ∀ (fuel : Nat) (plus : Int),
    (Ed25519.arbLoop c y fuel plus).map toS =
      EdGroupShape.arbitrary_element_loop modelPrims c.Q c.L c.d c.I (Ed25519.zeroPt c) y fuel plus
  | 0, _ => rfl
  | fuel+1, plus => by
    have ih := ed_arbLoop_tie c hL y fuel (plus + 1)
    rw [Ed25519.arbLoop, EdGroupShape.arbitrary_element_loop]
    simp only [EdShape.smul, EdShape.smul_unknown, Ed.arb_cofactor]
    by_cases h1 : Ed.isoncurve c.Q c.d (Ed.xrecover c.Q c.d c.I ((y + plus) % c.Q), (y + plus) % c.Q) = true
    · simp only [h1, Bool.not_true, Bool.false_eq_true, if_false, not_true_eq_false, if_true]
      split_ifs <;> simp_all [toS, Except.map, raise] <;> (try split_ifs) <;>
        (try simp_all [toS, Except.map, raise]) <;> (try omega)
    · simp only [h1, Bool.not_false, if_true, not_false_eq_true]
      simpa using ih

/-- `arbitrary_element(seed)`: 48 HKDF bytes, big-endian number `% Q`, then the loop from `plus = 0` (the model runs it
with 4096 rounds of fuel) -/
theorem ed_arb_tie (c : Curve) (hL : 0 ≤ c.L) (seed : Bytes) :
    (Ed25519.arb c seed).map toS =
      EdGroupShape.arbitrary_element modelPrims c.Q c.L c.d c.I (Ed25519.zeroPt c) 4096 seed := by
  unfold Ed25519.arb EdGroupShape.arbitrary_element Ed.arb_seed_len
  simp only [modelPrims]
  cases bytesToNumber (expandArbSeed seed (48 : Int).toNat) with
  | error e => rfl
  | ok n => exact ed_arbLoop_tie c hL (n % c.Q) 4096 0

/-- the scalar codecs, `random_scalar` and the size attributes of `_Ed25519Group` (methods delegating to
`ed25519_basic`), as fields of the model's `edGroup c` -/
theorem ed_codecs_tie (c : Curve) :
    (∀ b, (edGroup c).scalarDec b = EdGroupShape.g_bytes_to_scalar modelPrims c.Q c.L c.d c.I (Ed25519.zeroPt c) b) ∧
    (∀ y, (edGroup c).scalarEnc y = EdGroupShape.g_scalar_to_bytes modelPrims c.Q c.L c.d c.I (Ed25519.zeroPt c) y) ∧
    (∀ ent, (edGroup c).randomScalar ent = EdGroupShape.g_random_scalar modelPrims c.Q c.L c.d c.I (Ed25519.zeroPt c) ent) ∧
    (((edGroup c).scalarSize : Int) = EdGroupShape.g_scalar_size_bytes ∧
     ((edGroup c).elemSize : Int) = EdGroupShape.g_element_size_bytes) := by
  refine ⟨fun b => ?_, fun y => ?_, fun ent => ?_, rfl, rfl⟩
  · unfold EdGroupShape.g_bytes_to_scalar; rw [← ed_scalarDec_tie]
    show Ed25519.scalarDec b = _
    cases Ed25519.scalarDec b <;> rfl
  · unfold EdGroupShape.g_scalar_to_bytes; rw [← ed_scalarEnc_tie]
    show Ed25519.scalarEnc c y = _
    cases Ed25519.scalarEnc c y <;> rfl
  · unfold EdGroupShape.g_random_scalar; rw [← ed_randomScalar_tie]
    show Ed25519.randomScalar c ent = _
    cases Ed25519.randomScalar c ent <;> rfl

/-- the methods of `_Ed25519Group` delegate to the functions above; the fields of the model's `edGroup c` are these -/
theorem ed_group_tie (c : Curve) (hL : 0 ≤ c.L) :
    (∀ b, (edGroup c).scalarDec b = EdGroupShape.g_bytes_to_scalar modelPrims c.Q c.L c.d c.I (Ed25519.zeroPt c) b) ∧
    (∀ y, (edGroup c).scalarEnc y = EdGroupShape.g_scalar_to_bytes modelPrims c.Q c.L c.d c.I (Ed25519.zeroPt c) y) ∧
    (∀ ent, (edGroup c).randomScalar ent = EdGroupShape.g_random_scalar modelPrims c.Q c.L c.d c.I (Ed25519.zeroPt c) ent) ∧
    (∀ pw, .ok ((edGroup c).p2s pw) = EdGroupShape.g_password_to_scalar modelPrims c.Q c.L c.d c.I (Ed25519.zeroPt c) pw) ∧
    (∀ seed, ((edGroup c).arb seed).map toS =
      EdGroupShape.g_arbitrary_element modelPrims c.Q c.L c.d c.I (Ed25519.zeroPt c) 4096 seed) ∧
    EdGroupShape.g_order modelPrims c.Q c.L c.d c.I (Ed25519.zeroPt c) = .ok (edGroup c).order ∧
    ((edGroup c).scalarSize : Int) = EdGroupShape.g_scalar_size_bytes ∧
    ((edGroup c).elemSize : Int) = EdGroupShape.g_element_size_bytes := by
  refine ⟨fun b => ?_, fun y => ?_, fun ent => ?_, fun pw => (ed_p2s_tie c pw).symm, fun seed => ?_, rfl, rfl, rfl⟩
  · unfold EdGroupShape.g_bytes_to_scalar; rw [← ed_scalarDec_tie]
    show Ed25519.scalarDec b = _
    cases Ed25519.scalarDec b <;> rfl
  · unfold EdGroupShape.g_scalar_to_bytes; rw [← ed_scalarEnc_tie]
    show Ed25519.scalarEnc c y = _
    cases Ed25519.scalarEnc c y <;> rfl
  · unfold EdGroupShape.g_random_scalar; rw [← ed_randomScalar_tie]
    show Ed25519.randomScalar c ent = _
    cases Ed25519.randomScalar c ent <;> rfl
  · unfold EdGroupShape.g_arbitrary_element; rw [← ed_arb_tie c hL]
    show (Ed25519.arb c seed).map toS = _
    cases Ed25519.arb c seed <;> rfl

/-- the fields of the model's `intGroup P` are the translated methods of `IntegerGroup` / `_Element` -/
theorem int_group_tie (P : IntGroupParams) (hq : 0 < P.q) :
    (∀ b, ((intGroup P).dec b).map toE = IntShape.bytes_to_element modelPrims P.p P.q P.g b) ∧
    (∀ a b, ((intGroup P).add a b).map toE = IntShape.elem_add modelPrims P.p P.q P.g (toE a) (toE b)) ∧
    (∀ a i, ((intGroup P).smul a i).map toE = IntShape.elem_scalarmult modelPrims P.p P.q P.g (toE a) i) ∧
    (∀ a, (intGroup P).enc a = orNil (IntShape.elem_to_bytes modelPrims P.p P.q P.g (toE a))) ∧
    (∀ b, (intGroup P).scalarDec b = IntShape.bytes_to_scalar modelPrims P.p P.q P.g b) ∧
    (∀ i, (intGroup P).scalarEnc i = IntShape.scalar_to_bytes modelPrims P.p P.q P.g i) ∧
    (∀ ent, (intGroup P).randomScalar ent = IntShape.random_scalar modelPrims P.p P.q P.g ent) ∧
    (∀ pw, .ok ((intGroup P).p2s pw) = IntShape.g_password_to_scalar modelPrims P.p P.q P.g pw) ∧
    (∀ seed, ((intGroup P).arb seed).map toE = IntShape.arbitrary_element modelPrims P.p P.q P.g seed) :=
  ⟨int_dec_tie P, int_add_tie P, int_smul_tie P, fun a => (int_enc_tie P a).2, int_scalarDec_tie P,
   int_scalarEnc_tie P hq, int_randomScalar_tie P, fun pw => (int_p2s_tie P pw).symm, int_arb_tie P⟩

end Spake2Verif.GroupShapeTie
