import Spake2Verif.Spec.GroupSpec
import Spake2Verif.Proofs.BytesLemmas
import Spake2Verif.Proofs.TranscriptProofs
import Mathlib.Algebra.Group.Basic
import Mathlib.Algebra.Module.Basic
/-!
Property C03 (conformance of `start()` / `finish()` to the SPAKE2 definition), and the basic
vocabulary shared by the protocol-level proofs.

Everything is stated over an arbitrary `G : Group` with a contract `S : GroupSpec G`; no concrete
group is unfolded.

* `ValidParams S P`     : the three blinding elements of `P` are valid group elements
* `blinding`/`unblinding`: `M/N/S` resp. `N/M/S` by side
* `msgAbs`, `keyAbs`    : the *mathematical* message `x•B + w•M` and key element `x•(Y − w•N)`
* `Ready S i x ob`      : `i` is a started, unfinished session with secret scalar `x` and outbound
                          element encoding `ob` (the invariant established by `start()` and by
                          `from_serialized()`)
* `SameSession i i'`    : the two records agree on every field `finish()`/`serialize()` read
-/
namespace Spake2Verif
open Spake2Model Spake2Model.Gen Spake2Model.Transcript

variable {G : Group}

/-! ### vocabulary -/

/-- the three blinding elements are valid -/
structure ValidParams (S : GroupSpec G) (P : Params G) : Prop where
  vM : S.Valid P.M
  vN : S.Valid P.N
  vS : S.Valid P.S

/-- `my_blinding()` by side -/
def blinding (P : Params G) : Side → G.Elem
  | .A => P.M | .B => P.N | .S => P.S

/-- `my_unblinding()` by side -/
def unblinding (P : Params G) : Side → G.Elem
  | .A => P.N | .B => P.M | .S => P.S

theorem myBlinding_eq (i : Inst G) : i.myBlinding = blinding i.params i.side := by
  unfold Inst.myBlinding blinding; cases i.side <;> rfl

theorem myUnblinding_eq (i : Inst G) : i.myUnblinding = unblinding i.params i.side := by
  unfold Inst.myUnblinding unblinding; cases i.side <;> rfl

theorem ValidParams.blinding {S : GroupSpec G} {P : Params G} (h : ValidParams S P) (s : Side) :
    S.Valid (blinding P s) := by cases s <;> simp [Spake2Verif.blinding, h.vM, h.vN, h.vS]

theorem ValidParams.unblinding {S : GroupSpec G} {P : Params G} (h : ValidParams S P) (s : Side) :
    S.Valid (unblinding P s) := by cases s <;> simp [Spake2Verif.unblinding, h.vM, h.vN, h.vS]

/-- the mathematical outbound element `x•B + w•(M|N|S)` -/
def msgAbs (S : GroupSpec G) (P : Params G) (side : Side) (w x : ℤ) : S.A :=
  x • S.abs G.base + w • S.abs (blinding P side)

/-- the mathematical key element `x•(Y − w•(N|M|S))` for a received element `Y` -/
def keyAbs (S : GroupSpec G) (P : Params G) (side : Side) (w x : ℤ) (Y : S.A) : S.A :=
  x • (Y - w • S.abs (unblinding P side))

/-- the side byte expected in front of an inbound message -/
def peerByte : Side → Bytes
  | .A => Consts.sideB | .B => Consts.sideA | .S => Consts.sideS

/-! ### `compute_outbound_message` -/

theorem outboundFor_spec (S : GroupSpec G) (i : Inst G) (hP : ValidParams S i.params) (x : ℤ) :
    ∃ e, S.Valid e ∧ S.abs e = msgAbs S i.params i.side i.pwScalar x ∧
      i.outboundFor x = .ok (G.enc e) := by
  obtain ⟨xy, h1, v1, a1⟩ := S.smul_ok G.base x S.base_valid
  obtain ⟨bl, h2, v2, a2⟩ := S.smul_ok i.myBlinding i.pwScalar
    (by rw [myBlinding_eq]; exact hP.blinding _)
  obtain ⟨m, h3, v3, a3⟩ := S.add_ok xy bl v1 v2
  refine ⟨m, v3, ?_, ?_⟩
  · rw [a3, a1, a2, myBlinding_eq]; rfl
  · simp [Inst.outboundFor, h1, h2, h3, bind, Except.bind, pure, Except.pure]

/-- the outbound message depends only on side, parameters, password scalar and secret scalar -/
theorem outboundFor_congr {i i' : Inst G} (hs : i.side = i'.side) (hp : i.params = i'.params)
    (hw : i.pwScalar = i'.pwScalar) (x : ℤ) : i.outboundFor x = i'.outboundFor x := by
  unfold Inst.outboundFor Inst.myBlinding
  rw [hs, hp, hw]

/-! ### sessions that have been started -/

/-- `i` is a started, unfinished session with secret scalar `x` and outbound encoding `ob` -/
structure Ready (S : GroupSpec G) (i : Inst G) (x : ℤ) (ob : Bytes) : Prop where
  params : ValidParams S i.params
  pwScalar : i.pwScalar = G.p2s i.pw
  started : i.started = true
  finished : i.finished = false
  xy : i.xyScalar = some x
  range : 0 ≤ x ∧ x < (S.q : ℤ)
  outbound : i.outbound = some ob
  ob_eq : i.outboundFor x = .ok ob

/-- the outbound encoding of a ready session is the encoding of `x•B + w•M` -/
theorem Ready.ob_elem {S : GroupSpec G} {i : Inst G} {x : ℤ} {ob : Bytes} (h : Ready S i x ob) :
    ∃ e, S.Valid e ∧ S.abs e = msgAbs S i.params i.side (G.p2s i.pw) x ∧ ob = G.enc e ∧
      ob.length = G.elemSize ∧ IsBytes ob := by
  obtain ⟨e, v, a, he⟩ := outboundFor_spec S i h.params x
  rw [h.ob_eq] at he
  injection he with he
  rw [h.pwScalar] at a
  exact ⟨e, v, a, he, he ▸ (S.enc_len e v).1, he ▸ (S.enc_len e v).2⟩

/-- the fields read by `finish()` and `serialize()` agree (`idB` is unused on side `S`) -/
structure SameSession (i i' : Inst G) : Prop where
  side : i.side = i'.side
  pw : i.pw = i'.pw
  idA : i.idA = i'.idA
  idB : i.side ≠ .S → i.idB = i'.idB
  params : i.params = i'.params
  pwScalar : i.pwScalar = i'.pwScalar
  started : i.started = i'.started
  finished : i.finished = i'.finished
  xy : i.xyScalar = i'.xyScalar
  outbound : i.outbound = i'.outbound

theorem SameSession.refl (i : Inst G) : SameSession i i :=
  ⟨rfl, rfl, rfl, fun _ => rfl, rfl, rfl, rfl, rfl, rfl, rfl⟩

theorem SameSession.symm {i i' : Inst G} (h : SameSession i i') : SameSession i' i :=
  ⟨h.side.symm, h.pw.symm, h.idA.symm, fun hs => (h.idB (h.side ▸ hs)).symm, h.params.symm,
   h.pwScalar.symm, h.started.symm, h.finished.symm, h.xy.symm, h.outbound.symm⟩

theorem SameSession.trans {i j k : Inst G} (h : SameSession i j) (h' : SameSession j k) :
    SameSession i k :=
  ⟨h.side.trans h'.side, h.pw.trans h'.pw, h.idA.trans h'.idA,
   fun hs => (h.idB hs).trans (h'.idB (h.side ▸ hs)), h.params.trans h'.params,
   h.pwScalar.trans h'.pwScalar, h.started.trans h'.started, h.finished.trans h'.finished,
   h.xy.trans h'.xy, h.outbound.trans h'.outbound⟩

theorem SameSession.ready {S : GroupSpec G} {i i' : Inst G} {x : ℤ} {ob : Bytes}
    (h : SameSession i i') (r : Ready S i x ob) : Ready S i' x ob where
  params := h.params ▸ r.params
  pwScalar := by rw [← h.pwScalar, ← h.pw]; exact r.pwScalar
  started := h.started ▸ r.started
  finished := h.finished ▸ r.finished
  xy := h.xy ▸ r.xy
  range := r.range
  outbound := h.outbound ▸ r.outbound
  ob_eq := by rw [← outboundFor_congr h.side h.params h.pwScalar]; exact r.ob_eq

theorem finalize_congr {i i' : Inst G} (h : SameSession i i') (inb ob K : Bytes) :
    i.finalize inb ob K = i'.finalize inb ob K := by
  have hs := h.side
  have hB := h.idB
  unfold Inst.finalize
  rw [← hs, ← h.idA, ← h.pw]
  cases hside : i.side
  · simp only []; rw [hB (by simp [hside])]
  · simp only []; rw [hB (by simp [hside])]
  · rfl

theorem finishKey_congr {i i' : Inst G} (h : SameSession i i') (inb : Bytes) :
    i.finishKey inb = i'.finishKey inb := by
  unfold Inst.finishKey Inst.myUnblinding
  rw [← h.outbound, ← h.side, ← h.params, ← h.pwScalar, ← h.xy]
  simp only [finalize_congr h]

/-- `finish()` returns the same result on records that agree on the session fields -/
theorem finish_congr {i i' : Inst G} (h : SameSession i i') (msg : Bytes) :
    (i.finish msg).2 = (i'.finish msg).2 := by
  unfold Inst.finish
  rw [← h.finished, ← h.side]
  cases i.finished
  · simp only [Bool.false_eq_true, if_false]
    cases extractMessage i.side msg with
    | error e => rfl
    | ok inb =>
      simp only []
      apply finishKey_congr
      exact ⟨rfl, h.pw, h.idA, h.idB, h.params, h.pwScalar, h.started, rfl, h.xy, h.outbound⟩
  · simp

/-! ### `start()` -/

/-- `start()` on any record whose `_started` flag is clear and whose entropy source yields `x` -/
theorem start_unstarted (S : GroupSpec G) (i : Inst G) (hP : ValidParams S i.params)
    (hs : i.started = false) {x : ℤ} {ent' : Entropy}
    (hr : G.randomScalar i.entropy = .ok (x, ent')) :
    ∃ e, S.Valid e ∧ S.abs e = msgAbs S i.params i.side i.pwScalar x ∧
      (G.enc e).length = G.elemSize ∧ IsBytes (G.enc e) ∧
      i.outboundFor x = .ok (G.enc e) ∧
      i.start = ({ i with started := true, entropy := ent', xyScalar := some x,
                          outbound := some (G.enc e) }, .ok (i.side.byte ++ G.enc e)) := by
  obtain ⟨e, v, a, he⟩ := outboundFor_spec S i hP x
  refine ⟨e, v, a, (S.enc_len e v).1, (S.enc_len e v).2, he, ?_⟩
  have he' : Inst.outboundFor { i with started := true, entropy := ent', xyScalar := some x } x
      = .ok (G.enc e) := by
    rw [← he]; exact outboundFor_congr rfl rfl rfl x
  unfold Inst.start
  simp only [hs, Bool.false_eq_true, if_false, hr, he']

theorem start_raises (i : Inst G) (hs : i.started = false) {err : Err}
    (hr : G.randomScalar i.entropy = .error err) :
    i.start = ({ i with started := true }, .error err) := by
  unfold Inst.start
  simp only [hs, Bool.false_eq_true, if_false, hr]

theorem start_twice (i : Inst G) (hs : i.started = true) :
    i.start = (i, .error .OnlyCallStartOnce) := by
  unfold Inst.start
  simp only [hs, if_true]

/-- a successful `start()` of a fresh session leaves a `Ready` session behind -/
theorem start_ready (S : GroupSpec G) {P : Params G} (hP : ValidParams S P)
    {side : Side} {pw idA idB : Bytes} {ent : Entropy} {a : Inst G} {m : Bytes}
    (h : (Inst.new side pw idA idB P ent).start = (a, .ok m)) :
    ∃ x ob, m = side.byte ++ ob ∧ Ready S a x ob ∧
      a.side = side ∧ a.pw = pw ∧ a.idA = idA ∧ a.idB = idB ∧ a.params = P ∧
      (∃ ent', G.randomScalar ent = .ok (x, ent') ∧ a.entropy = ent') ∧ a.inbound = none := by
  cases hr : G.randomScalar ent with
  | error err =>
    rw [start_raises (Inst.new side pw idA idB P ent) rfl hr] at h
    cases h
  | ok xe =>
    obtain ⟨x, ent'⟩ := xe
    obtain ⟨e, v, ha, hl, hb, hob, hst⟩ :=
      start_unstarted S (Inst.new side pw idA idB P ent) hP rfl hr
    rw [hst] at h
    injection h with h1 h2
    injection h2 with h2
    subst h1
    refine ⟨x, G.enc e, h2.symm, ?_, rfl, rfl, rfl, rfl, rfl, ⟨ent', rfl, rfl⟩, rfl⟩
    exact ⟨hP, rfl, rfl, rfl, rfl, S.random_range ent x ent' hr, rfl,
      by rw [← hob]; exact outboundFor_congr rfl rfl rfl x⟩

/-! ### `_extract_message` -/

theorem extractMessage_ok {side : Side} {msg body : Bytes} (h : extractMessage side msg = .ok body) :
    msg = peerByte side ++ body := by
  have hsplit : msg = msg.take 1 ++ msg.drop 1 := (List.take_append_drop 1 msg).symm
  unfold extractMessage at h
  cases side
  · simp only [] at h
    split at h
    · cases h
    · split at h
      · cases h
      · rename_i h1 h2
        injection h with h
        have : msg.take 1 = Consts.sideB := by
          by_cases hA : msg.take 1 = Consts.sideA
          · exact absurd hA.symm h2
          · by_contra hB; exact h1 ⟨hA, hB⟩
        rw [← h, peerByte, ← this]; exact hsplit
  · simp only [] at h
    split at h
    · cases h
    · split at h
      · cases h
      · rename_i h1 h2
        injection h with h
        have : msg.take 1 = Consts.sideA := by
          by_cases hB : msg.take 1 = Consts.sideB
          · exact absurd hB.symm h2
          · by_contra hA; exact h1 ⟨hA, hB⟩
        rw [← h, peerByte, ← this]; exact hsplit
  · simp only [] at h
    split at h
    · cases h
    · split at h
      · cases h
      · split at h
        · cases h
        · rename_i h3
          injection h with h
          have : msg.take 1 = Consts.sideS := by by_contra hS; exact h3 hS
          rw [← h, peerByte, ← this]; exact hsplit

theorem extractMessage_peer (side : Side) (body : Bytes) :
    extractMessage side (peerByte side ++ body) = .ok body := by
  cases side <;> simp [extractMessage, peerByte, Consts.sideA, Consts.sideB, Consts.sideS, Side.byte]

/-! ### `finish()` -/

theorem finish_unfinished (i : Inst G) (hf : i.finished = false) {msg body : Bytes}
    (hx : extractMessage i.side msg = .ok body) :
    i.finish msg = ({ i with finished := true, inbound := some body },
                    Inst.finishKey { i with finished := true, inbound := some body } body) := by
  unfold Inst.finish
  simp only [hf, Bool.false_eq_true, if_false, hx]

theorem finish_result (i : Inst G) (hf : i.finished = false) {msg body : Bytes}
    (hx : extractMessage i.side msg = .ok body) :
    (i.finish msg).2 = i.finishKey body := by
  rw [finish_unfinished i hf hx]
  exact finishKey_congr ⟨rfl, rfl, rfl, fun _ => rfl, rfl, rfl, rfl, rfl, rfl, rfl⟩ body

theorem finish_extract_error (i : Inst G) (hf : i.finished = false) {msg : Bytes} {err : Err}
    (hx : extractMessage i.side msg = .error err) :
    i.finish msg = ({ i with finished := true }, .error err) := by
  unfold Inst.finish
  simp only [hf, Bool.false_eq_true, if_false, hx]

theorem finish_twice (i : Inst G) (hf : i.finished = true) (msg : Bytes) :
    i.finish msg = (i, .error .OnlyCallFinishOnce) := by
  unfold Inst.finish
  simp only [hf, if_true]

/-- the group computation of `finish()` once the element has been decoded -/
theorem finishKey_of_dec (S : GroupSpec G) {i : Inst G} {x : ℤ} {ob body : Bytes} {e : G.Elem}
    (hP : ValidParams S i.params) (hxy : i.xyScalar = some x) (hob : i.outbound = some ob)
    (hv : S.Valid e) (hd : G.dec body = .ok e) :
    (G.enc e = ob → i.finishKey body = .error .ReflectionThwarted) ∧
    (G.enc e ≠ ob → ∃ K, S.Valid K ∧
        S.abs K = keyAbs S i.params i.side i.pwScalar x (S.abs e) ∧
        i.finishKey body = .ok (i.finalize body ob (G.enc K))) := by
  constructor
  · intro heq
    simp [Inst.finishKey, hd, hob, heq, bind, Except.bind, pure, Except.pure]
  · intro hne
    obtain ⟨unb, h1, v1, a1⟩ := S.smul_ok i.myUnblinding (-i.pwScalar)
      (by rw [myUnblinding_eq]; exact hP.unblinding _)
    obtain ⟨s, h2, v2, a2⟩ := S.add_ok e unb hv v1
    obtain ⟨K, h3, v3, a3⟩ := S.smul_ok s x v2
    refine ⟨K, v3, ?_, ?_⟩
    · rw [a3, a2, a1, myUnblinding_eq, keyAbs, neg_smul, sub_eq_add_neg]
    · simp [Inst.finishKey, hd, hob, hne, h1, h2, hxy, h3, bind, Except.bind, pure, Except.pure]

theorem finishKey_dec_error {i : Inst G} {body : Bytes} {err : Err}
    (hd : G.dec body = .error err) : i.finishKey body = .error err := by
  simp [Inst.finishKey, hd, bind, Except.bind]

/-- `finish()` of a ready session, by cases on the decoder -/
theorem finish_ready (S : GroupSpec G) {i : Inst G} {x : ℤ} {ob msg body : Bytes}
    (h : Ready S i x ob) (hx : extractMessage i.side msg = .ok body) (hb : IsBytes body) :
    (∀ err, G.dec body = .error err → (i.finish msg).2 = .error err) ∧
    (∀ e, G.dec body = .ok e → G.enc e = ob → (i.finish msg).2 = .error .ReflectionThwarted) ∧
    (∀ e, G.dec body = .ok e → G.enc e ≠ ob → ∃ K, S.Valid K ∧
        S.abs K = keyAbs S i.params i.side (G.p2s i.pw) x (S.abs e) ∧
        (i.finish msg).2 = .ok (i.finalize body ob (G.enc K))) := by
  rw [finish_result i h.finished hx]
  refine ⟨fun err hd => finishKey_dec_error hd, fun e hd => ?_, fun e hd => ?_⟩
  · exact (finishKey_of_dec S h.params h.xy h.outbound (S.dec_strict body e hb hd).1 hd).1
  · have := (finishKey_of_dec S h.params h.xy h.outbound (S.dec_strict body e hb hd).1 hd).2
    rw [h.pwScalar] at this
    exact this

/-- every key `finish()` returns is a 32-byte string -/
theorem finalize_length (i : Inst G) (inb ob K : Bytes) : (i.finalize inb ob K).length = 32 := by
  unfold Inst.finalize
  cases i.side <;> simp only [finalizeSPAKE2, finalize_sym_def, sha256_length]

/-! ### C03: conformance to the definition -/

/-- **C03 (start).**  A fresh session whose entropy source yields `x` sends
`side ‖ enc(x•B + w•M)` (`M`, `N` or `S` by side, `w = password_to_scalar(pw)`), a fixed-width
string, and records `x` and the message; if the entropy source raises, `start()` raises the same
error; a second `start()` raises `OnlyCallStartOnce`. -/
theorem C03_start_spec (S : GroupSpec G) (P : Params G) (hP : ValidParams S P)
    (side : Side) (pw idA idB : Bytes) (ent : Entropy) :
    (∀ x ent', G.randomScalar ent = .ok (x, ent') →
      ∃ e m i', S.Valid e ∧
        S.abs e = x • S.abs G.base + G.p2s pw • S.abs (blinding P side) ∧
        m = G.enc e ∧ m.length = G.elemSize ∧ IsBytes m ∧ 0 ≤ x ∧ x < (S.q : ℤ) ∧
        (Inst.new side pw idA idB P ent).start = (i', .ok (side.byte ++ m)) ∧
        i' = { Inst.new side pw idA idB P ent with
                started := true, entropy := ent', xyScalar := some x, outbound := some m } ∧
        i'.started = true ∧ i'.finished = false ∧ i'.xyScalar = some x ∧ i'.outbound = some m ∧
        Ready S i' x m ∧
        i'.start = (i', .error .OnlyCallStartOnce)) ∧
    (∀ err, G.randomScalar ent = .error err →
      ∃ i', (Inst.new side pw idA idB P ent).start = (i', .error err) ∧ i'.started = true ∧
        i'.start = (i', .error .OnlyCallStartOnce)) ∧
    (∀ i : Inst G, i.started = true → i.start = (i, .error .OnlyCallStartOnce)) := by
  refine ⟨fun x ent' hr => ?_, fun err hr => ?_, fun i hi => start_twice i hi⟩
  · obtain ⟨e, v, ha, hl, hb, hob, hst⟩ :=
      start_unstarted S (Inst.new side pw idA idB P ent) hP rfl hr
    have hrange := S.random_range ent x ent' hr
    obtain ⟨x', ob', hm, hready, -⟩ := start_ready S hP hst
    refine ⟨e, G.enc e, _, v, ha, rfl, hl, hb, hrange.1, hrange.2, hst, rfl, rfl, rfl, rfl, rfl,
      ?_, start_twice _ rfl⟩
    exact ⟨hP, rfl, rfl, rfl, rfl, hrange, rfl, by rw [← hob]; exact outboundFor_congr rfl rfl rfl x⟩
  · exact ⟨_, start_raises _ rfl hr, rfl, start_twice _ rfl⟩

/-- **C03 (finish).**  A started, unfinished session with secret `x` and outbound encoding `ob`,
given `peer-side-byte ‖ body`:
* `body` does not decode → the decoder's error;
* `body` decodes to `e` with `enc e = ob` → `ReflectionThwarted`;
* otherwise the key is the transcript hash over `enc K`, `K = x•(e − w•N)` (`N`, `M` or `S` by side).
In every case the session is marked finished, and a second `finish()` raises `OnlyCallFinishOnce`. -/
theorem C03_finish_spec (S : GroupSpec G) {i : Inst G} {x : ℤ} {ob msg body : Bytes}
    (h : Ready S i x ob) (hx : extractMessage i.side msg = .ok body) (hb : IsBytes body) :
    msg = peerByte i.side ++ body ∧
    (i.finish msg).1 = { i with finished := true, inbound := some body } ∧
    (∀ m', ((i.finish msg).1.finish m').2 = .error .OnlyCallFinishOnce) ∧
    (∀ err, G.dec body = .error err → (i.finish msg).2 = .error err) ∧
    (∀ e, G.dec body = .ok e → G.enc e = ob → (i.finish msg).2 = .error .ReflectionThwarted) ∧
    (∀ e, G.dec body = .ok e → G.enc e ≠ ob → ∃ K, S.Valid e ∧ G.enc e = body ∧ S.Valid K ∧
        S.abs K = x • (S.abs e - G.p2s i.pw • S.abs (unblinding i.params i.side)) ∧
        (i.finish msg).2 = .ok (i.finalize body ob (G.enc K)) ∧
        (i.finalize body ob (G.enc K)).length = 32) := by
  obtain ⟨h1, h2, h3⟩ := finish_ready S h hx hb
  refine ⟨extractMessage_ok hx, ?_, fun m' => ?_, h1, h2, fun e hd hne => ?_⟩
  · rw [finish_unfinished i h.finished hx]
  · rw [finish_unfinished i h.finished hx, finish_twice _ rfl]
  · obtain ⟨K, vK, aK, hK⟩ := h3 e hd hne
    obtain ⟨ve, ee⟩ := S.dec_strict body e hb hd
    exact ⟨K, ve, ee, vK, aK, hK, finalize_length _ _ _ _⟩

end Spake2Verif

section Audit
open Spake2Verif
#print axioms start_ready
#print axioms finish_ready
#print axioms finish_congr
#print axioms C03_start_spec
#print axioms C03_finish_spec
end Audit
