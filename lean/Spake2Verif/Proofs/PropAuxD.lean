import Spake2Verif.Proofs.RandrangeProofs
import Mathlib.Tactic.Linarith
import Mathlib.Algebra.BigOperators.Ring.Finset

/-!
Auxiliary lemmas for the property file C11, clause "with at most two expected draws", as pure counting
statements over the `256^(K·nb)` entropy streams of `K` chunks:

* `allRej_count`, `firstAt_count`: numbers of `K`-chunk streams whose first `k` candidates are all rejected /
  whose first accepted candidate is that of chunk `j` (any masks / widths / bounds);
* `exhausted_iff`, `returnsAt_iff`: on a `K`-chunk stream `unbiased_randrange` raises `EntropyExhausted` iff all
  `K` candidates are rejected, and returns leaving exactly the bytes after chunk `j` iff chunk `j` is the first
  accepted one;
* `randrange_tail_bound`: the number of `k`-chunk streams still undecided after `k` draws is
  `(rejecting chunks)^k ≤ (256^nb / 2)^k`, i.e. at most a fraction `2^-k` of all streams;
* `geom_sum_le`: `∑_{j<K} (j+1)·R^j·A·N^(K-1-j) + (K+2)·R^K ≤ 2·N^K` when `A + R = N`, `2R ≤ N`;
* `randrange_expected_draws_le_two`: `∑_{j<K} (j+1) · #{K-chunk streams returning at draw j+1} ≤ 2·256^(K·nb)`.
-/
namespace Spake2Verif.PropAuxD
open Spake2Model Spake2Model.Gen

/-! ### chunks of a concatenation -/

theorem chunk_append_zero {nb : Nat} {x : Bytes} (y : Bytes) (hx : x.length = nb) :
    chunk nb (x ++ y) 0 = x := by
  rw [chunk_zero, List.take_left' hx]

theorem chunk_append_succ {nb : Nat} {x : Bytes} (y : Bytes) (hx : x.length = nb) (i : Nat) :
    chunk nb (x ++ y) (i + 1) = chunk nb y i := by
  rw [chunk_succ, List.drop_left' hx]

/-! ### counting streams by the index of the first accepted chunk (any mask, width, bound) -/

section Count
variable (mask nb : Nat) (m : Int)

/-- accepted and rejected chunks together are all `256^nb` chunks -/
theorem accept_add_reject :
    ((bytesOfLen nb).filter (fun bs => (cand mask bs : Int) < m)).card +
      ((bytesOfLen nb).filter (fun bs => ¬ (cand mask bs : Int) < m)).card = 256 ^ nb := by
  rw [Finset.card_filter_add_card_filter_not, card_bytesOfLen]

/-- the `k`-chunk streams all of whose candidates are rejected -/
theorem allRej_count : ∀ k : Nat,
    ((bytesOfLen (k * nb)).filter
        (fun s => ∀ i < k, ¬ (cand mask (chunk nb s i) : Int) < m)).card =
      ((bytesOfLen nb).filter (fun bs => ¬ (cand mask bs : Int) < m)).card ^ k
  | 0 => by
      rw [Nat.zero_mul, pow_zero, Finset.filter_true_of_mem (by intro s _ i hi; omega), card_bytesOfLen,
        pow_zero]
  | k+1 => by
      have e : (k + 1) * nb = nb + k * nb := by rw [Nat.succ_mul]; omega
      rw [e, card_filter_append nb (k * nb) _ (fun x => ¬ (cand mask x : Int) < m)
        (fun y => ∀ i < k, ¬ (cand mask (chunk nb y i) : Int) < m), allRej_count k, pow_succ,
        Nat.mul_comm]
      intro x hx y _
      have hxl := (mem_bytesOfLen.mp hx).2
      constructor
      · intro H
        refine ⟨?_, fun i hi => ?_⟩
        · have := H 0 (by omega); rwa [chunk_append_zero y hxl] at this
        · have := H (i + 1) (by omega); rwa [chunk_append_succ y hxl] at this
      · rintro ⟨h0, hs⟩ i hi
        cases i with
        | zero => rwa [chunk_append_zero y hxl]
        | succ i => rw [chunk_append_succ y hxl]; exact hs i (by omega)

/-- the `(j+1+r)`-chunk streams whose first accepted candidate is that of chunk `j` -/
theorem firstAt_count : ∀ j r : Nat,
    ((bytesOfLen ((j + 1 + r) * nb)).filter
        (fun s => (∀ i < j, ¬ (cand mask (chunk nb s i) : Int) < m) ∧
          (cand mask (chunk nb s j) : Int) < m)).card =
      ((bytesOfLen nb).filter (fun bs => ¬ (cand mask bs : Int) < m)).card ^ j *
        ((bytesOfLen nb).filter (fun bs => (cand mask bs : Int) < m)).card * (256 ^ nb) ^ r
  | 0, r => by
      have e : (0 + 1 + r) * nb = nb + r * nb := by rw [Nat.zero_add, Nat.add_mul, Nat.one_mul]
      rw [e, card_filter_append nb (r * nb) _ (fun x => (cand mask x : Int) < m) (fun _ => True),
        Finset.filter_true_of_mem (s := bytesOfLen (r * nb)) (by intros; trivial), card_bytesOfLen,
        pow_zero, Nat.one_mul,
        pow_mul']
      intro x hx y _
      have hxl := (mem_bytesOfLen.mp hx).2
      rw [chunk_append_zero y hxl]
      constructor
      · intro H; exact ⟨H.2, trivial⟩
      · intro H; exact ⟨by intro i hi; omega, H.1⟩
  | j+1, r => by
      have e : (j + 1 + 1 + r) * nb = nb + (j + 1 + r) * nb := by
        rw [show j + 1 + 1 + r = (j + 1 + r) + 1 by omega, Nat.succ_mul]; omega
      rw [e, card_filter_append nb ((j + 1 + r) * nb) _ (fun x => ¬ (cand mask x : Int) < m)
        (fun y => (∀ i < j, ¬ (cand mask (chunk nb y i) : Int) < m) ∧
          (cand mask (chunk nb y j) : Int) < m), firstAt_count j r, pow_succ]
      · ring
      intro x hx y _
      have hxl := (mem_bytesOfLen.mp hx).2
      rw [chunk_append_succ y hxl]
      constructor
      · rintro ⟨H, ha⟩
        refine ⟨?_, fun i hi => ?_, ha⟩
        · have := H 0 (by omega); rwa [chunk_append_zero y hxl] at this
        · have := H (i + 1) (by omega); rwa [chunk_append_succ y hxl] at this
      · rintro ⟨h0, hs, ha⟩
        refine ⟨fun i hi => ?_, ha⟩
        cases i with
        | zero => rwa [chunk_append_zero y hxl]
        | succ i => rw [chunk_append_succ y hxl]; exact hs i (by omega)

/-- every stream either has its first `K` candidates rejected or has a first accepted chunk `j < K` -/
theorem allRej_or_firstAt (s : Bytes) : ∀ K : Nat,
    (∀ i < K, ¬ (cand mask (chunk nb s i) : Int) < m) ∨
    ∃ j < K, (∀ i < j, ¬ (cand mask (chunk nb s i) : Int) < m) ∧ (cand mask (chunk nb s j) : Int) < m
  | 0 => Or.inl (by intro i hi; omega)
  | K+1 => by
      rcases allRej_or_firstAt s K with h | ⟨j, hj, h⟩
      · by_cases ha : (cand mask (chunk nb s K) : Int) < m
        · exact Or.inr ⟨K, by omega, h, ha⟩
        · left
          intro i hi
          rcases Nat.lt_succ_iff_lt_or_eq.mp hi with h' | rfl
          · exact h i h'
          · exact ha
      · exact Or.inr ⟨j, by omega, h⟩

end Count

/-! ### the arithmetic of the geometric distribution, in natural numbers -/

/-- with `A` accepting and `R` rejecting chunks out of `N = A + R`, `2R ≤ N`:
`∑_{j<K} (j+1)·R^j·A·N^(K-1-j) + (K+2)·R^K ≤ 2·N^K` -/
theorem geom_sum_le (A R N : Nat) (hN : A + R = N) (h2 : 2 * R ≤ N) : ∀ K : Nat,
    (∑ j ∈ Finset.range K, (j + 1) * (R ^ j * A * N ^ (K - 1 - j))) + (K + 2) * R ^ K ≤ 2 * N ^ K
  | 0 => by simp
  | K+1 => by
      have ih := geom_sum_le A R N hN h2 K
      have hstep : (∑ j ∈ Finset.range (K + 1), (j + 1) * (R ^ j * A * N ^ (K + 1 - 1 - j))) =
          N * (∑ j ∈ Finset.range K, (j + 1) * (R ^ j * A * N ^ (K - 1 - j))) +
            (K + 1) * (R ^ K * A) := by
        rw [Finset.sum_range_succ, Finset.mul_sum]
        congr 1
        · apply Finset.sum_congr rfl
          intro j hj
          have hj' := Finset.mem_range.mp hj
          rw [show K + 1 - 1 - j = (K - 1 - j) + 1 by omega, pow_succ]
          ring
        · rw [show K + 1 - 1 - K = 0 by omega, pow_zero, Nat.mul_one]
      rw [hstep]
      generalize (∑ j ∈ Finset.range K, (j + 1) * (R ^ j * A * N ^ (K - 1 - j))) = e at ih ⊢
      rw [pow_succ, pow_succ]
      generalize R ^ K = t at ih ⊢
      generalize N ^ K = u at ih ⊢
      have h1 : t * A + t * R = t * N := by rw [← Nat.mul_add, hN]
      have h1' : K * (t * A) + K * (t * R) = K * (t * N) := by rw [← Nat.mul_add, h1]
      have h2' : N * e + N * ((K + 2) * t) ≤ N * (2 * u) := by
        rw [← Nat.mul_add]; exact Nat.mul_le_mul_left N ih
      have h3 : t * (2 * R) ≤ t * N := Nat.mul_le_mul_left t h2
      have e1 : N * e + (K + 1) * (t * A) + (K + 1 + 2) * (t * R) =
          N * e + (K * (t * A) + K * (t * R)) + (t * A + t * R) + t * (2 * R) := by ring
      have e2 : N * ((K + 2) * t) = K * (t * N) + t * N + t * N := by ring
      have e3 : N * (2 * u) = 2 * (u * N) := by ring
      rw [e1, h1', h1]
      rw [e2] at h2'
      rw [e3] at h2'
      omega

/-! ### `unbiased_randrange` on streams of `K` chunks -/

section Streams
variable {start stop : Int}

/-- on a `K`-chunk stream: `EntropyExhausted` iff all `K` candidates are rejected -/
theorem exhausted_iff (h : start < stop) {K : Nat} {s : Bytes}
    (hs : s ∈ bytesOfLen (K * sizeBytes (stop - start))) :
    unbiasedRandrange start stop ⟨s⟩ = raise .EntropyExhausted ↔
      ∀ i < K, ¬ (cand (maskOf (stop - start)) (chunk (sizeBytes (stop - start)) s i) : Int)
        < stop - start := by
  have hnb := sizeBytes_pos (m := stop - start) (by omega)
  have hl := (mem_bytesOfLen.mp hs).2
  constructor
  · intro hex
    rcases allRej_or_firstAt (maskOf (stop - start)) (sizeBytes (stop - start)) (stop - start) s K
      with hall | ⟨j, hj, hrej, hacc⟩
    · exact hall
    · have := (randrange_first_accept h s j
        (by rw [hl]; exact Nat.mul_le_mul_right _ (by omega)) hrej hacc).1
      rw [hex] at this
      simp [raise] at this
  · intro hall
    apply randrange_exhausted h
    intro i hi
    apply hall
    rw [hl] at hi
    have := Nat.le_of_mul_le_mul_right hi hnb
    omega

/-- on a `K`-chunk stream, for `j < K`: the call returns leaving exactly the bytes after chunk `j` (i.e. at
draw `j+1`) iff chunk `j` is the first accepted one -/
theorem returnsAt_iff (h : start < stop) {K : Nat} {s : Bytes}
    (hs : s ∈ bytesOfLen (K * sizeBytes (stop - start))) {j : Nat} (hj : j < K) :
    (∃ v, unbiasedRandrange start stop ⟨s⟩ =
        .ok (v, ⟨s.drop ((j + 1) * sizeBytes (stop - start))⟩)) ↔
      ((∀ i < j, ¬ (cand (maskOf (stop - start)) (chunk (sizeBytes (stop - start)) s i) : Int)
          < stop - start) ∧
        (cand (maskOf (stop - start)) (chunk (sizeBytes (stop - start)) s j) : Int)
          < stop - start) := by
  have hnb := sizeBytes_pos (m := stop - start) (by omega)
  have hl := (mem_bytesOfLen.mp hs).2
  constructor
  · rintro ⟨v, hv⟩
    rcases allRej_or_firstAt (maskOf (stop - start)) (sizeBytes (stop - start)) (stop - start) s K
      with hall | ⟨j', hj', hrej, hacc⟩
    · rw [(exhausted_iff h hs).mpr hall] at hv
      simp [raise] at hv
    · have hle' : (j' + 1) * sizeBytes (stop - start) ≤ K * sizeBytes (stop - start) :=
        Nat.mul_le_mul_right _ (by omega)
      have hle : (j + 1) * sizeBytes (stop - start) ≤ K * sizeBytes (stop - start) :=
        Nat.mul_le_mul_right _ (by omega)
      have := (randrange_first_accept h s j' (by rw [hl]; exact hle') hrej hacc).1
      rw [hv] at this
      simp only [Except.ok.injEq, Prod.mk.injEq, Entropy.mk.injEq] at this
      have hlen := congrArg List.length this.2
      rw [List.length_drop, List.length_drop, hl] at hlen
      have hjj : (j + 1) * sizeBytes (stop - start) = (j' + 1) * sizeBytes (stop - start) := by omega
      have : j + 1 = j' + 1 := Nat.eq_of_mul_eq_mul_right hnb hjj
      have : j = j' := by omega
      subst this
      exact ⟨hrej, hacc⟩
  · rintro ⟨hrej, hacc⟩
    exact ⟨_, (randrange_first_accept h s j
      (by rw [hl]; exact Nat.mul_le_mul_right _ (by omega)) hrej hacc).1⟩

/-- the rejecting chunks are at most half of all chunks -/
theorem two_reject_le {m : Int} (h : 0 < m) :
    2 * ((bytesOfLen (sizeBytes m)).filter (fun bs => ¬ (cand (maskOf m) bs : Int) < m)).card ≤
      256 ^ sizeBytes m := by
  have hsum := accept_add_reject (maskOf m) (sizeBytes m) m
  have hacc : 256 ^ sizeBytes m ≤
      2 * ((bytesOfLen (sizeBytes m)).filter (fun bs => (cand (maskOf m) bs : Int) < m)).card := by
    rw [card_accept h, pow_nb_eq (Int.le_of_lt h)]
    have := accept_half h
    calc 2 ^ (8 * sizeBytes m - sizeBits m) * 2 ^ sizeBits m
        ≤ 2 ^ (8 * sizeBytes m - sizeBits m) * (2 * m.toNat) := Nat.mul_le_mul_left _ this
      _ = 2 * (m.toNat * 2 ^ (8 * sizeBytes m - sizeBits m)) := by
          rw [Nat.mul_comm (2 ^ _) (2 * _), Nat.mul_assoc]
  omega

open Classical in
/-- **tail bound**: among the `256^(k·nb)` streams of `k` chunks, those on which `unbiased_randrange` has not
returned within the first `k` draws (all `k` candidates rejected; the call raises `EntropyExhausted`) number
exactly `(rejecting chunks)^k`, which is at most `(256^nb / 2)^k`: a fraction of at most `2^-k`. -/
theorem randrange_tail_bound (h : start < stop) (k : Nat) :
    ((bytesOfLen (k * sizeBytes (stop - start))).filter (fun s =>
        unbiasedRandrange start stop ⟨s⟩ = raise .EntropyExhausted)).card =
      ((2 ^ sizeBits (stop - start) - (stop - start).toNat) *
          2 ^ (8 * sizeBytes (stop - start) - sizeBits (stop - start))) ^ k ∧
    ((bytesOfLen (k * sizeBytes (stop - start))).filter (fun s =>
        unbiasedRandrange start stop ⟨s⟩ = raise .EntropyExhausted)).card ≤
      (256 ^ sizeBytes (stop - start) / 2) ^ k ∧
    2 ^ k * ((bytesOfLen (k * sizeBytes (stop - start))).filter (fun s =>
        unbiasedRandrange start stop ⟨s⟩ = raise .EntropyExhausted)).card ≤
      256 ^ (k * sizeBytes (stop - start)) := by
  have hm : 0 < stop - start := by omega
  have hcount : ((bytesOfLen (k * sizeBytes (stop - start))).filter (fun s =>
        unbiasedRandrange start stop ⟨s⟩ = raise .EntropyExhausted)).card =
      ((bytesOfLen (sizeBytes (stop - start))).filter
        (fun bs => ¬ (cand (maskOf (stop - start)) bs : Int) < stop - start)).card ^ k := by
    rw [← allRej_count]
    congr 1
    apply Finset.filter_congr
    intro s hs
    exact exhausted_iff h hs
  have h2 := two_reject_le hm
  have hhalf : ((bytesOfLen (sizeBytes (stop - start))).filter
        (fun bs => ¬ (cand (maskOf (stop - start)) bs : Int) < stop - start)).card ≤
      256 ^ sizeBytes (stop - start) / 2 := by omega
  refine ⟨by rw [hcount, card_reject hm], ?_, ?_⟩
  · rw [hcount]; exact Nat.pow_le_pow_left hhalf k
  · rw [hcount, ← Nat.mul_pow, pow_mul']
    exact Nat.pow_le_pow_left h2 k

open Classical in
/-- the number of `K`-chunk streams on which the call returns at draw `j+1` (`j < K`):
`(rejecting chunks)^j · (accepting chunks) · (256^nb)^(K-1-j)` -/
theorem randrange_returnsAt_count (h : start < stop) (K j : Nat) (hj : j < K) :
    ((bytesOfLen (K * sizeBytes (stop - start))).filter (fun s =>
        ∃ v, unbiasedRandrange start stop ⟨s⟩ =
          .ok (v, ⟨s.drop ((j + 1) * sizeBytes (stop - start))⟩))).card =
      ((2 ^ sizeBits (stop - start) - (stop - start).toNat) *
          2 ^ (8 * sizeBytes (stop - start) - sizeBits (stop - start))) ^ j *
        ((stop - start).toNat * 2 ^ (8 * sizeBytes (stop - start) - sizeBits (stop - start))) *
        (256 ^ sizeBytes (stop - start)) ^ (K - 1 - j) := by
  have hm : 0 < stop - start := by omega
  obtain ⟨r, rfl⟩ : ∃ r, K = j + 1 + r := ⟨K - 1 - j, by omega⟩
  rw [show j + 1 + r - 1 - j = r by omega, ← card_reject hm, ← card_accept hm, ← firstAt_count]
  congr 1
  apply Finset.filter_congr
  intro s hs
  exact returnsAt_iff h hs hj

open Classical in
/-- **at most two expected draws**: over the `256^(K·nb)` streams of `K` chunks, the sum over the draws
`j+1 = 1..K` of `(j+1) ·` (number of streams on which the call returns exactly at draw `j+1`) is at most
`2 · 256^(K·nb)` -- the partial expectation of the number of draws, scaled by the number of streams, is `≤ 2`
for every horizon `K`. -/
theorem randrange_expected_draws_le_two (h : start < stop) (K : Nat) :
    (∑ j ∈ Finset.range K, (j + 1) *
      ((bytesOfLen (K * sizeBytes (stop - start))).filter (fun s =>
        ∃ v, unbiasedRandrange start stop ⟨s⟩ =
          .ok (v, ⟨s.drop ((j + 1) * sizeBytes (stop - start))⟩))).card) ≤
      2 * 256 ^ (K * sizeBytes (stop - start)) := by
  have hm : 0 < stop - start := by omega
  have hN := accept_add_reject (maskOf (stop - start)) (sizeBytes (stop - start)) (stop - start)
  have h2 := two_reject_le hm
  rw [card_accept hm, card_reject hm] at hN
  rw [card_reject hm] at h2
  have := geom_sum_le _ _ _ hN h2 K
  rw [pow_mul']
  calc _ = ∑ j ∈ Finset.range K, (j + 1) *
        (((2 ^ sizeBits (stop - start) - (stop - start).toNat) *
            2 ^ (8 * sizeBytes (stop - start) - sizeBits (stop - start))) ^ j *
          ((stop - start).toNat * 2 ^ (8 * sizeBytes (stop - start) - sizeBits (stop - start))) *
          (256 ^ sizeBytes (stop - start)) ^ (K - 1 - j)) := by
        apply Finset.sum_congr rfl
        intro j hj
        rw [randrange_returnsAt_count h K j (Finset.mem_range.mp hj)]
    _ ≤ _ := by omega

end Streams

end Spake2Verif.PropAuxD

#print axioms Spake2Verif.PropAuxD.randrange_tail_bound
#print axioms Spake2Verif.PropAuxD.randrange_returnsAt_count
#print axioms Spake2Verif.PropAuxD.randrange_expected_draws_le_two
