import Spake2Model.Model.Group
import Spake2Verif.Proofs.PublishedEvalEd

/-!
Auxiliary lemma for the non-vacuity `example` of `Properties/C14.lean`: on the seed `b"M"` the Ed25519 candidate loop finds a
usable point within the model's bound of 4096 candidates (from the kernel evaluation `PublishedEval.generated_M_ed`).
-/
namespace Spake2Verif.PropAuxC
open Spake2Model Spake2Model.Gen

theorem edGroup_arb' (c : Curve) : (edGroup c).arb = Ed25519.arb c := rfl

theorem ed_arb_M_not_fuel : (edGroup Spake2Model.ed25519).arb Consts.seedM ≠ raise .Fuel := by
  intro h
  rw [edGroup_arb'] at h
  have := PublishedEval.generated_M_ed
  rw [h] at this
  simp [raise, Except.map] at this

#print axioms ed_arb_M_not_fuel

end Spake2Verif.PropAuxC
