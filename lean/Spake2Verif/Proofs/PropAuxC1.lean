import Spake2Verif.Spec.Ed25519Inst
import Spake2Verif.Spec.CurveCard
import Spake2Verif.Proofs.PropAuxB5
import Spake2Verif.Proofs.PropAuxB6

/-!
# Point count `#E = 8·L` for *any* curve record with `CurveOK`, and its consequences

`Spec/CurveCard.lean` counts the points of the curve built from the generated constants.  Here the same short argument
is carried out for an arbitrary curve record `c` with `h : CurveOK c`, given

* an integer pair `T` accepted by the code's `isoncurve`, with `8·T = identity` and `4·T ≠ identity` according to the
  code's own safe ladder and zero test (three closed evaluations), and
* `Q < 8·L` (a closed comparison).

Consequences (used by C04 / C14):
* `CurveOK.card_eq`            : `Nat.card (Point (EC h)) = 8·L`;
* `CurveOK.torsionIsCyclic`    : `(ed25519Spec c h).TorsionIsCyclic`;
* `CurveOK.L_zsmul_eight_zsmul`: `L • (8 • P) = 0` for every point;
* `arbLoop_never_asserts` …    : the final assertion of `arbitrary_element` never fails (hypothesis: the point count).

Instances: `cardWitness_gen`, `cardWitness_published` (the literal order-8 point `Spec.P8`).
-/
set_option maxRecDepth 100000
namespace Spake2Verif
open Spake2Model Spake2Model.Gen Spake2Verif.Edw Spake2Verif.EdBridge

/-- closed-evaluation data from which `#E = 8·L` follows: a point of order exactly 8 (checked by the code's own ladder)
and the size comparison `Q < 8·L` -/
structure CardWitness (c : Curve) : Prop where
  T : ∃ T : ℤ × ℤ, Ed.isoncurve c.Q c.d T = true ∧
    Ed.is_extended_zero c.Q
      (Ed.scalarmult_element_safe_slow c.Q c.d (Ed.xform_affine_to_extended c.Q T) 8) = true ∧
    Ed.is_extended_zero c.Q
      (Ed.scalarmult_element_safe_slow c.Q c.d (Ed.xform_affine_to_extended c.Q T) 4) = false
  Q_lt : c.Q < 8 * c.L

namespace CurveOK
variable {c : Curve} [Fact c.Q.toNat.Prime] (h : CurveOK c)
include h

theorem addOrderOf_BP : addOrderOf h.BP = c.L.toNat := by
  have : Fact c.L.toNat.Prime := ⟨h.L_prime⟩
  exact addOrderOf_eq_prime h.L_smul_BP h.BP_ne_zero

/-- a point of order exactly 8 from the witness -/
theorem exists_order_eight (w : CardWitness c) : ∃ T : Point (EC h), addOrderOf T = 8 := by
  obtain ⟨T, hon, h8, h4⟩ := w.T
  have rT := h.pointOf_rep T hon
  have r8 := h.safe_rep rT.1 8 (by norm_num)
  have r4 := h.safe_rep rT.1 4 (by norm_num)
  have e8 : (8 : ℤ) • h.pointOf T hon = 0 := (h.zero_iff r8.1 r8.2).1 h8
  have e4 : (4 : ℤ) • h.pointOf T hon ≠ 0 := by
    intro h0
    have := (h.zero_iff r4.1 r4.2).2 h0
    rw [h4] at this
    exact Bool.false_ne_true this
  refine ⟨h.pointOf T hon, ?_⟩
  have h8' : (2 ^ (2 + 1)) • h.pointOf T hon = 0 := by
    rwa [show (8 : ℤ) = ((2 ^ (2 + 1) : ℕ) : ℤ) by norm_num, natCast_zsmul] at e8
  have h4' : ¬ (2 ^ 2) • h.pointOf T hon = 0 := by
    intro hh
    apply e4
    rw [show (4 : ℤ) = ((2 ^ 2 : ℕ) : ℤ) by norm_num, natCast_zsmul]; exact hh
  have := addOrderOf_eq_prime_pow (p := 2) h4' h8'
  simpa using this

omit [Fact c.Q.toNat.Prime] in
theorem coprime_L_eight : Nat.Coprime c.L.toNat 8 := by
  have h2 : Nat.Coprime c.L.toNat 2 := by
    rw [Nat.coprime_comm]
    refine (Nat.coprime_primes Nat.prime_two h.L_prime).2 ?_
    have := h.two_lt_Ln
    omega
  exact Nat.Coprime.pow_right 3 h2

/-- a point of order `8·L` -/
theorem exists_order_eight_L (w : CardWitness c) :
    ∃ G : Point (EC h), addOrderOf G = 8 * c.L.toNat ∧ ∃ T : Point (EC h), G = h.BP + T ∧ (8 : ℤ) • T = 0 := by
  obtain ⟨T, hT⟩ := h.exists_order_eight w
  refine ⟨h.BP + T, ?_, T, rfl, ?_⟩
  · have := (AddCommute.all h.BP T).addOrderOf_add_eq_mul_addOrderOf_of_coprime
      (by rw [h.addOrderOf_BP, hT]; exact h.coprime_L_eight)
    rw [this, h.addOrderOf_BP, hT, mul_comm]
  · have := addOrderOf_nsmul_eq_zero T
    rw [hT] at this
    rw [show (8 : ℤ) = ((8 : ℕ) : ℤ) by norm_num, natCast_zsmul]; exact this

/-- **the curve has exactly `8·L` points** -/
theorem card_eq (w : CardWitness c) : Nat.card (Point (EC h)) = 8 * c.L.toNat := by
  have : NeZero c.Q.toNat := ⟨(Fact.out : c.Q.toNat.Prime).ne_zero⟩
  rw [Nat.card_eq_fintype_card]
  obtain ⟨G, hG, -⟩ := h.exists_order_eight_L w
  have hdvd : 8 * c.L.toNat ∣ Fintype.card (Point (EC h)) := by
    rw [← hG]; exact addOrderOf_dvd_card
  obtain ⟨k, hk⟩ := hdvd
  have hpos : 0 < Fintype.card (Point (EC h)) := Fintype.card_pos
  have hle : Fintype.card (Point (EC h)) ≤ 2 * c.Q.toNat := by
    have := Point.card_le (C := EC h)
    rwa [ZMod.card] at this
  have hQ : 2 * c.Q.toNat < 2 * (8 * c.L.toNat) := by
    have := w.Q_lt
    have := h.Q_pos
    omega
  have hlt : Fintype.card (Point (EC h)) < 2 * (8 * c.L.toNat) := lt_of_le_of_lt hle hQ
  have hk1 : k = 1 := by
    rcases k with _ | _ | k
    · rw [hk] at hpos; simp at hpos
    · rfl
    · exfalso
      rw [hk] at hlt
      have : 2 * (8 * c.L.toNat) ≤ 8 * c.L.toNat * (k + 1 + 1) := by
        rw [mul_comm 2]; exact Nat.mul_le_mul_left _ (by omega)
      omega
  rw [hk, hk1, mul_one]

/-- every point is killed by `8·L` (from the point count) -/
theorem eight_L_nsmul_of_card (hcard : Nat.card (Point (EC h)) = 8 * c.L.toNat) (P : Point (EC h)) :
    (8 * c.L.toNat) • P = 0 := by
  have : NeZero c.Q.toNat := ⟨(Fact.out : c.Q.toNat.Prime).ne_zero⟩
  rw [Nat.card_eq_fintype_card] at hcard
  rw [← hcard]; exact card_nsmul_eq_zero

/-- cofactor clearing lands in the `L`-torsion (from the point count) -/
theorem L_zsmul_eight_zsmul_of_card (hcard : Nat.card (Point (EC h)) = 8 * c.L.toNat) (P : Point (EC h)) :
    c.L • ((8 : ℤ) • P) = 0 := by
  have e : c.L * 8 = ((8 * c.L.toNat : ℕ) : ℤ) := by
    rw [Nat.cast_mul, h.L_cast, mul_comm]; rfl
  rw [← mul_zsmul, e, natCast_zsmul]
  exact h.eight_L_nsmul_of_card hcard P

theorem eight_L_nsmul (w : CardWitness c) (P : Point (EC h)) : (8 * c.L.toNat) • P = 0 :=
  h.eight_L_nsmul_of_card (h.card_eq w) P

theorem L_zsmul_eight_zsmul (w : CardWitness c) (P : Point (EC h)) : c.L • ((8 : ℤ) • P) = 0 :=
  h.L_zsmul_eight_zsmul_of_card (h.card_eq w) P

/-- a point killed by `L` is a multiple of the base point -/
theorem torsion_cyclic (w : CardWitness c) (P : Point (EC h)) (hP : (c.L.toNat : ℤ) • P = 0) :
    ∃ n : ℤ, P = n • h.BP := by
  obtain ⟨G, hG, T, rfl, hT⟩ := h.exists_order_eight_L w
  have htop : AddSubgroup.zmultiples (h.BP + T) = ⊤ := by
    apply AddSubgroup.eq_top_of_card_eq
    rw [Nat.card_zmultiples, hG, h.card_eq w]
  have hmem : P ∈ AddSubgroup.zmultiples (h.BP + T) := by rw [htop]; trivial
  obtain ⟨n, rfl⟩ := AddSubgroup.mem_zmultiples_iff.1 hmem
  rw [← mul_zsmul, ← addOrderOf_dvd_iff_zsmul_eq_zero, hG] at hP
  have hLne : (c.L.toNat : ℤ) ≠ 0 := by
    have := h.L_prime.pos
    exact_mod_cast this.ne'
  have h8 : (8 : ℤ) ∣ n := by
    have : (c.L.toNat : ℤ) * 8 ∣ (c.L.toNat : ℤ) * n := by
      rw [mul_comm (c.L.toNat : ℤ) 8]; exact_mod_cast hP
    exact (mul_dvd_mul_iff_left hLne).1 this
  obtain ⟨m, rfl⟩ := h8
  refine ⟨8 * m, ?_⟩
  rw [zsmul_add, add_eq_left, mul_comm, mul_zsmul, hT, zsmul_zero]

end CurveOK

/-- **the `L`-torsion is the cyclic group generated by the base point**, for every curve record with `CurveOK` and a
`CardWitness` -/
theorem CurveOK.torsionIsCyclic {c : Curve} (h : CurveOK c) (w : CardWitness c) :
    (ed25519Spec c h).TorsionIsCyclic := by
  have : Fact c.Q.toNat.Prime := h.fact
  intro a ha
  obtain ⟨n, hn⟩ := h.torsion_cyclic w a ha
  exact ⟨n, hn.trans (by rw [← h.abs_base]; rfl)⟩

/-- the number of elements of the abstract group of the instance -/
theorem CurveOK.spec_card {c : Curve} (h : CurveOK c) (w : CardWitness c) :
    Nat.card (ed25519Spec c h).A = 8 * c.L.toNat :=
  have : Fact c.Q.toNat.Prime := h.fact
  h.card_eq w

/-! ### the two shipped curve records -/

theorem cardWitness_gen : CardWitness Spake2Model.ed25519 where
  T := ⟨Spec.P8, Spec.P8_isoncurve, Spec.eight_smul_P8_zero, Spec.four_smul_P8_ne_zero⟩
  Q_lt := by decide +kernel

theorem cardWitness_published : CardWitness Published.curve where
  T := ⟨Spec.P8, by decide +kernel, by decide +kernel, by decide +kernel⟩
  Q_lt := by decide +kernel

/-- `specPublished.TorsionIsCyclic`, no hypothesis -/
theorem specPublished_torsionIsCyclic : specPublished.TorsionIsCyclic :=
  curveOK_published.torsionIsCyclic cardWitness_published

/-- (again, through the generic argument) `specGen.TorsionIsCyclic` -/
theorem specGen_torsionIsCyclic' : specGen.TorsionIsCyclic :=
  curveOK_gen.torsionIsCyclic cardWitness_gen

theorem specPublished_card : Nat.card specPublished.A = 8 * Published.curve.L.toNat :=
  curveOK_published.spec_card cardWitness_published

theorem specGen_card : Nat.card specGen.A = 8 * Spake2Model.ed25519.L.toNat :=
  curveOK_gen.spec_card cardWitness_gen

/-! ### `arbitrary_element` never trips its final assertion -/

namespace PropAuxB

/-- **a good candidate always passes the final `L`-torsion assertion**: `L·(8·P)` is the identity for every curve point
`P`, because the curve group has exactly `8·L` elements -/
theorem arbGood_assert_holds {c : Curve} (h : CurveOK c) (hcard : Nat.card (ed25519Spec c h).A = 8 * c.L.toNat) (y plus : ℤ)
    (hg : arbGood c y plus = true) :
    Ed.is_extended_zero c.Q (Ed.scalarmult_element_safe_slow c.Q c.d (arbTimes8 c y plus) c.L) = true := by
  have : Fact c.Q.toNat.Prime := h.fact
  unfold arbGood at hg
  rw [Bool.and_eq_true] at hg
  have rP := h.pointOf_rep _ hg.1
  have r8 := h.safe_rep rP.1 Ed.arb_cofactor (by decide)
  have rL := h.safe_rep r8.1 c.L (by have := h.L_gt; omega)
  refine (h.zero_iff rL.1 rL.2).2 ?_
  exact h.L_zsmul_eight_zsmul_of_card hcard _

/-- one step of the loop, with the assertion discharged -/
theorem arbLoop_succ' {c : Curve} (h : CurveOK c) (hcard : Nat.card (ed25519Spec c h).A = 8 * c.L.toNat) (y : ℤ) (fuel : ℕ) (plus : ℤ) :
    Ed25519.arbLoop c y (fuel + 1) plus =
      if arbGood c y plus then .ok ⟨.elem, arbTimes8 c y plus⟩
      else Ed25519.arbLoop c y fuel (plus + 1) := by
  rw [arbLoop_succ]
  by_cases hg : arbGood c y plus = true
  · rw [if_pos hg, if_pos hg, if_pos (arbGood_assert_holds h hcard y plus hg)]
  · rw [if_neg hg, if_neg hg]

/-- the loop, completely: it returns `8·P` for the first good candidate among `plus, …, plus+fuel-1`, and runs out of
fuel exactly when there is none -/
theorem arbLoop_total {c : Curve} (h : CurveOK c) (hcard : Nat.card (ed25519Spec c h).A = 8 * c.L.toNat) (y : ℤ) :
    ∀ (fuel : ℕ) (plus : ℤ),
      (Ed25519.arbLoop c y fuel plus = raise .Fuel ∧ ∀ k : ℕ, k < fuel → arbGood c y (plus + k) = false) ∨
      (∃ n : ℕ, n < fuel ∧ (∀ k : ℕ, k < n → arbGood c y (plus + k) = false) ∧
        arbGood c y (plus + n) = true ∧
        Ed25519.arbLoop c y fuel plus = .ok ⟨.elem, arbTimes8 c y (plus + n)⟩)
  | 0, plus => Or.inl ⟨rfl, fun k hk => absurd hk (Nat.not_lt_zero k)⟩
  | fuel + 1, plus => by
    rw [arbLoop_succ' h hcard]
    by_cases hg : arbGood c y plus = true
    · right
      refine ⟨0, Nat.succ_pos _, fun k hk => absurd hk (Nat.not_lt_zero k), ?_, ?_⟩
      · simpa using hg
      · rw [if_pos hg]; simp
    · rw [if_neg hg]
      have hg' : arbGood c y plus = false := by simpa using hg
      have e : ∀ k : ℕ, plus + 1 + (k : ℤ) = plus + ((k + 1 : ℕ) : ℤ) := by
        intro k; push_cast; ring
      rcases arbLoop_total h hcard y fuel (plus + 1) with ⟨hf, hall⟩ | ⟨n, hn, hrej, hgood, hres⟩
      · left
        refine ⟨hf, fun k hk => ?_⟩
        rcases k with _ | k
        · simpa using hg'
        · rw [← e]; exact hall k (by omega)
      · right
        refine ⟨n + 1, by omega, fun k hk => ?_, by rw [← e]; exact hgood, by rw [← e]; exact hres⟩
        rcases k with _ | k
        · simpa using hg'
        · rw [← e]; exact hrej k (by omega)

theorem arbLoop_never_asserts {c : Curve} (h : CurveOK c) (hcard : Nat.card (ed25519Spec c h).A = 8 * c.L.toNat) (y : ℤ) (fuel : ℕ) (plus : ℤ) :
    Ed25519.arbLoop c y fuel plus ≠ raise .AssertionError := by
  rcases arbLoop_total h hcard y fuel plus with ⟨hf, -⟩ | ⟨n, -, -, -, hres⟩
  · rw [hf]; simp [raise]
  · rw [hres]; simp [raise]

/-- **`arbitrary_element` on a curve with `8·L` points, completely** (model's bound of 4096 candidates): either none of the
4096 consecutive candidates `y, y+1, …` is a curve point with `8·P ≠ 0` and the model reports `Fuel`, or the result is the
`Element` holding `8·P` for the first such candidate — a valid, non-identity element killed by `L` -/
theorem ed_arb_total {c : Curve} (h : CurveOK c) (hcard : Nat.card (ed25519Spec c h).A = 8 * c.L.toNat)
    (seed : Bytes) (y : ℤ)
    (hy : y = (beToNat (Sha.hkdf seed [] (asciiOf "SPAKE2 arbitrary element") 48) : Int) % c.Q) :
    ((edGroup c).arb seed = raise .Fuel ∧ ∀ k : ℕ, k < 4096 → arbGood c y (k : ℤ) = false) ∨
    (∃ n : ℕ, n < 4096 ∧ (∀ k : ℕ, k < n → arbGood c y (k : ℤ) = false) ∧ arbGood c y (n : ℤ) = true ∧
      (edGroup c).arb seed = .ok ⟨.elem, arbTimes8 c y (n : ℤ)⟩ ∧
      (ed25519Spec c h).Valid ⟨.elem, arbTimes8 c y (n : ℤ)⟩ ∧
      (ed25519Spec c h).abs ⟨.elem, arbTimes8 c y (n : ℤ)⟩ ≠ 0 ∧
      (c.L : ℤ) • (ed25519Spec c h).abs ⟨.elem, arbTimes8 c y (n : ℤ)⟩ = 0) := by
  subst hy
  have hu : (edGroup c).arb seed = _ := ed_arb_unfold c seed
  rcases arbLoop_total h hcard _ 4096 0 with ⟨hf, hall⟩ | ⟨n, hn, hrej, hgood, hres⟩
  · left
    refine ⟨hu.trans hf, fun k hk => ?_⟩
    have := hall k hk
    rwa [zero_add] at this
  · right
    rw [zero_add] at hgood hres
    have he := hu.trans hres
    obtain ⟨v, hne, hq⟩ := ed_arb_member c h seed _ he
    have hL : ((ed25519Spec c h).q : ℤ) = c.L := h.L_cast
    rw [hL] at hq
    refine ⟨n, hn, fun k hk => ?_, hgood, he, v, hne, hq⟩
    have := hrej k hk
    rwa [zero_add] at this

theorem ed_arb_never_asserts {c : Curve} (h : CurveOK c) (hcard : Nat.card (ed25519Spec c h).A = 8 * c.L.toNat)
    (seed : Bytes) : (edGroup c).arb seed ≠ raise .AssertionError := by
  have hu : (edGroup c).arb seed = _ := ed_arb_unfold c seed
  rw [hu]
  exact arbLoop_never_asserts h hcard _ _ _

end PropAuxB

#print axioms CurveOK.card_eq
#print axioms CurveOK.torsionIsCyclic
#print axioms cardWitness_gen
#print axioms cardWitness_published
#print axioms specPublished_torsionIsCyclic
#print axioms specPublished_card
#print axioms PropAuxB.arbGood_assert_holds
#print axioms PropAuxB.arbLoop_total
#print axioms PropAuxB.arbLoop_never_asserts
#print axioms PropAuxB.ed_arb_total
#print axioms PropAuxB.ed_arb_never_asserts

end Spake2Verif
