import Spake2Verif.Spec.Ed25519Spec
import Spake2Verif.Spec.Ed25519Inst
import Spake2Verif.Spec.ToyCurves

/-!
# The `ElementOfUnknownGroup` part of `ed25519_basic.py`

`Spec/Ed25519Spec.lean` is about the objects the protocol layer holds (`Valid`: the `Zero` object and
`Element`s of the prime-order subgroup).  This file is about the rest of the class lattice: objects
of class `ElementOfUnknownGroup`, which may hold *any* point of the curve (orders 1, 2, 4, 8, L, 2L,
4L, 8L), and the promotion rules between the three classes.

For a curve record `c` with `h : CurveOK c`, `RepElem h e P` says that the quadruple of the object
`e` has reduced coordinates and represents the curve point `P` (no condition on the class of `e`,
none on the order of `P`).

* `decUnknown_sound`, `decUnknown_complete`, `decUnknown_zeroBytes`, `decUnknown_noncanonical_zero`:
  `bytes_to_unknown_group_element` has no subgroup test, accepts the encoding of every curve point,
  returns the `Zero` object exactly on the canonical identity bytes, and returns an *unknown-group*
  object holding the identity on the non-canonical identity encoding `y = 1 | sign`;
* `addUnknown_spec`: `ElementOfUnknownGroup.add` is the group law on all curve points, with the
  sum normalised to the `Zero` object when it is the identity;
* `smul_unknown_spec`: `ElementOfUnknownGroup.scalarmult` is `n • P` for `n ≥ 0` on all curve
  points (result class `ElementOfUnknownGroup` even when the product is the identity), and an
  `AssertionError` for `n < 0`;
* `eq_unknown_spec`: `==` is equality of the represented points, whatever the classes;
* `add_mixed_spec`: `a.add(b)` for all nine combinations of classes;
* `negate_unknown`, `subtract_unknown`: the class offers neither `negate` nor `subtract`.
-/
namespace Spake2Verif
open Spake2Model Spake2Model.Gen Spake2Verif.Edw Spake2Verif.EdBridge
open PyBits
set_option maxRecDepth 100000

namespace CurveOK
variable {c : Curve} [Fact c.Q.toNat.Prime] (h : CurveOK c)

/-- the object `e` (of whatever class) holds reduced coordinates representing the curve point `P` -/
def RepElem (e : EdElem) (P : Point (EC h)) : Prop :=
  Rep (EC h) e.pt P ∧ Reduced c.Q.toNat e.pt

include h

theorem RepElem.abs_eq {e : EdElem} {P : Point (EC h)} (r : RepElem h e P) : abs h e = P :=
  h.abs_of_rep r.1

theorem RepElem.unique {e : EdElem} {P P' : Point (EC h)} (r : RepElem h e P) (r' : RepElem h e P') :
    P = P' := h.rep_unique r.1 r'.1

/-- the class does not matter -/
theorem RepElem.of_pt {e e' : EdElem} {P : Point (EC h)} (r : RepElem h e P) (hp : e'.pt = e.pt) :
    RepElem h e' P := by
  unfold RepElem at r ⊢; rw [hp]; exact r

theorem repElem_zero : RepElem h (Ed25519.Zero c) 0 := h.zeroPt_rep

theorem repElem_base : RepElem h (Ed25519.Base c) h.BP := h.base_rep

/-- every valid (protocol-level) object is a `RepElem` of its abstraction -/
theorem repElem_of_valid {e : EdElem} (v : Valid h e) : RepElem h e (abs h e) := by
  obtain ⟨P, r, red, -, hP, -⟩ := Valid.view h v
  rw [hP]; exact ⟨r, red⟩

/-- the canonical integer coordinates of a point, as an unknown-group quadruple -/
def canonPt (P : Point (EC h)) : P4 :=
  Ed.xform_affine_to_extended c.Q ((P.x.val : ℤ), (P.y.val : ℤ))

theorem canonPt_rep (P : Point (EC h)) (k : Kind) : RepElem h ⟨k, canonPt h P⟩ P := by
  have : NeZero c.Q.toNat := ⟨(Fact.out : c.Q.toNat.Prime).ne_zero⟩
  exact h.affine_rep ((P.x.val : ℤ), (P.y.val : ℤ)) P
    (by show (((P.x.val : ℕ) : ℤ) : ZMod c.Q.toNat) = P.x
        rw [Int.cast_natCast, ZMod.natCast_zmod_val])
    (by show (((P.y.val : ℕ) : ℤ) : ZMod c.Q.toNat) = P.y
        rw [Int.cast_natCast, ZMod.natCast_zmod_val])

/-! ### (a) `bytes_to_unknown_group_element` -/

/-- **soundness of `bytes_to_unknown_group_element`**: an accepted string is either the canonical
identity string (result: the `Zero` object), or a string `decodepoint` accepts, and then the
result is an `ElementOfUnknownGroup` whose reduced quadruple represents the curve point with the
decoded coordinates.  There is no further test: nothing about the order of the point. -/
theorem decUnknown_sound {b : Bytes} {e : EdElem} (hd : Ed25519.decUnknown c b = .ok e) :
    (b = Ed25519.zeroBytes c ∧ e = Ed25519.Zero c) ∨
      (b ≠ Ed25519.zeroBytes c ∧ e.kind = .unknown ∧
        ∃ (xy : ℤ × ℤ) (hon : Ed.isoncurve c.Q c.d xy = true),
          Ed25519.decodepoint c b = .ok xy ∧ e.pt = Ed.xform_affine_to_extended c.Q xy ∧
          RepElem h e (h.pointOf xy hon)) := by
  unfold Ed25519.decUnknown at hd
  split at hd
  · next hz => injection hd with hd; exact Or.inl ⟨hz, hd.symm⟩
  · next hnz =>
    split at hd
    · cases hd
    · next xy hxy =>
      injection hd with hd
      subst hd
      obtain ⟨x, y⟩ := xy
      obtain ⟨hon, -, -, -⟩ := decodepoint_sound hxy
      exact Or.inr ⟨hnz, rfl, (x, y), hon, hxy, rfl, h.pointOf_rep (x, y) hon⟩

/-- whatever `bytes_to_unknown_group_element` returns represents some curve point; the class of the
result is `_ZeroElement` exactly for the canonical identity string, `ElementOfUnknownGroup`
otherwise (never `Element`) -/
theorem decUnknown_ok {b : Bytes} {e : EdElem} (hd : Ed25519.decUnknown c b = .ok e) :
    (∃ P : Point (EC h), RepElem h e P) ∧ e.kind ≠ .elem ∧
      (e.kind = .zero ↔ b = Ed25519.zeroBytes c) ∧ (e.kind = .zero → e = Ed25519.Zero c) := by
  rcases h.decUnknown_sound hd with ⟨hb, rfl⟩ | ⟨hb, hk, xy, hon, -, -, r⟩
  · exact ⟨⟨0, h.repElem_zero⟩, by simp [Ed25519.Zero], ⟨fun _ => hb, fun _ => rfl⟩, fun _ => rfl⟩
  · refine ⟨⟨_, r⟩, by rw [hk]; decide, ⟨fun hz => ?_, fun hz => absurd hz hb⟩, fun hz => ?_⟩
    · rw [hk] at hz; cases hz
    · rw [hk] at hz; cases hz

omit [Fact c.Q.toNat.Prime] h in
/-- the canonical identity string gives the `Zero` object -/
theorem decUnknown_zeroBytes : Ed25519.decUnknown c (Ed25519.zeroBytes c) = .ok (Ed25519.Zero c) := by
  unfold Ed25519.decUnknown
  rw [if_pos rfl]

/-- **completeness of `bytes_to_unknown_group_element`**: the canonical encoding of *every* curve
point — of any order — is accepted.  The identity gives the `Zero` object; any other point `P`
gives the `ElementOfUnknownGroup` with the canonical coordinates of `P`. -/
theorem decUnknown_complete (P : Point (EC h)) :
    (P = 0 → Ed25519.decUnknown c (encP h P) = .ok (Ed25519.Zero c)) ∧
    (P ≠ 0 → Ed25519.decUnknown c (encP h P) = .ok ⟨.unknown, canonPt h P⟩) ∧
    ∃ e, Ed25519.decUnknown c (encP h P) = .ok e ∧ RepElem h e P ∧ (e.kind = .zero ↔ P = 0) ∧
      e.kind ≠ .elem := by
  have h0 : P = 0 → Ed25519.decUnknown c (encP h P) = .ok (Ed25519.Zero c) := by
    rintro rfl
    rw [← h.zeroBytes_eq]; exact decUnknown_zeroBytes
  have h1 : P ≠ 0 → Ed25519.decUnknown c (encP h P) = .ok ⟨.unknown, canonPt h P⟩ := by
    intro hnz
    unfold Ed25519.decUnknown
    rw [if_neg (fun e => hnz (h.encP_injective (e.trans h.zeroBytes_eq))), h.decode_encode P]
    rfl
  refine ⟨h0, h1, ?_⟩
  by_cases hP : P = 0
  · refine ⟨_, h0 hP, ?_, ⟨fun _ => hP, fun _ => rfl⟩, by simp [Ed25519.Zero]⟩
    rw [hP]; exact h.repElem_zero
  · exact ⟨_, h1 hP, h.canonPt_rep P .unknown, ⟨fun hk => (by cases hk), fun e => absurd e hP⟩,
      fun hk => (by cases hk)⟩

/-- the encoding of `e` is accepted for every object `e` holding a curve point -/
theorem decUnknown_toBytes {a : EdElem} {P : Point (EC h)} (r : RepElem h a P) :
    ∃ e, Ed25519.decUnknown c (Ed25519.toBytes c a) = .ok e ∧ RepElem h e P ∧
      (e.kind = .zero ↔ P = 0) := by
  rw [(h.toBytes_rep r.1).2]
  obtain ⟨-, -, e, he, re, hk, -⟩ := h.decUnknown_complete P
  exact ⟨e, he, re, hk⟩

/-! #### the non-canonical identity encoding `y = 1 | sign` -/

theorem zero_y_val : (((0 : Point (EC h)).y.val : ℕ) : ℤ) = 1 := by
  have : Fact (1 < c.Q.toNat) := ⟨by have := h.two_lt_Qn; omega⟩
  show (((1 : ZMod c.Q.toNat).val : ℕ) : ℤ) = 1
  rw [ZMod.val_one]; rfl

theorem zero_x_val : (0 : Point (EC h)).x.val = 0 := by
  show (0 : ZMod c.Q.toNat).val = 0
  exact ZMod.val_zero

theorem encN_zero : encN h 0 = 1 := by
  have h1 := h.zero_y_val
  have h2 := h.zero_x_val
  unfold encN
  rw [h2]
  omega

/-- `xrecover(1) = 0` -/
theorem xrecover_one : Ed.xrecover c.Q c.d c.I 1 = 0 := by
  have := h.xrecover_point 0
  rw [h.zero_y_val, h.zero_x_val] at this
  simpa using this

/-- `decodepoint` on the 32-byte string with `y = 1` and the sign bit set: `xrecover(1) = 0` is even,
the sign bit asks for an odd `x`, so `x = Q - 0 = Q`, and `(Q, 1)` passes `isoncurve` -/
theorem decodepoint_noncanonical_zero :
    Ed25519.decodepoint c (natToLE 32 (1 + 2 ^ 255)) = .ok (c.Q, 1) := by
  have hlen : (natToLE 32 (1 + 2 ^ 255)).length = 32 := natToLE_length _ _
  have htake : (natToLE 32 (1 + 2 ^ 255)).take 32 = natToLE 32 (1 + 2 ^ 255) :=
    List.take_of_length_le (by rw [hlen])
  have hne : (natToLE 32 (1 + 2 ^ 255)).isEmpty = false := by
    cases hE : natToLE 32 (1 + 2 ^ 255) with
    | nil => rw [hE] at hlen; simp at hlen
    | cons _ _ => rfl
  have hval : leToNat (natToLE 32 (1 + 2 ^ 255)) = 1 + 2 ^ 255 :=
    leToNat_natToLE_of_lt (by norm_num)
  have hy : (Int.ofNat (1 + 2 ^ 255)) % 2 ^ 255 = 1 := by decide +kernel
  have hsign : Py.band (Int.ofNat (1 + 2 ^ 255)) (2 ^ 255) ≠ 0 := by
    rw [band_top_ne_zero]; decide +kernel
  have hon : Ed.isoncurve c.Q c.d (c.Q, 1) = true := by
    rw [h.oncurve_iff]
    show OnCurve _ ((c.Q : ℤ) : ZMod c.Q.toNat) ((1 : ℤ) : ZMod c.Q.toNat)
    rw [h.cast_Q, Int.cast_one]
    unfold OnCurve; ring
  generalize (1 + 2 ^ 255 : ℕ) = N at htake hne hval hy hsign ⊢
  unfold Ed25519.decodepoint
  simp only [htake, hne, hval, shl_1_255, band_clamp, Py.band_one, hy, h.xrecover_one]
  generalize Py.band (Int.ofNat N) (2 ^ 255) = bnd at hsign ⊢
  simp [hsign, hon]

/-- **`bytes_to_unknown_group_element` on the non-canonical identity encoding** (`y = 1` with the
sign bit): the string is not `_zero_bytes`, so the result is *not* the `Zero` object but an
`ElementOfUnknownGroup` — holding exactly the quadruple `(0, 1, 1, 0)` of `Zero`.  Being `Zero` is a
matter of class (object identity in Python), and the unknown-group class can hold the identity. -/
theorem decUnknown_noncanonical_zero :
    Ed25519.decUnknown c (natToLE 32 (1 + 2 ^ 255)) = .ok ⟨.unknown, Ed25519.zeroPt c⟩ := by
  have hne : natToLE 32 (1 + 2 ^ 255) ≠ Ed25519.zeroBytes c := by
    intro e
    rw [h.zeroBytes_eq] at e
    have := natToLE_injective (by norm_num) (h.encN_lt 0) e
    rw [h.encN_zero] at this
    omega
  unfold Ed25519.decUnknown
  rw [if_neg hne, h.decodepoint_noncanonical_zero]
  show Except.ok (⟨.unknown, ((c.Q % c.Q, 1 % c.Q, 1, (c.Q * 1) % c.Q) : P4)⟩ : EdElem) =
    Except.ok ⟨.unknown, ((0 % c.Q, 1 % c.Q, 1, (0 * 1) % c.Q) : P4)⟩
  simp


/-- by contrast `bytes_to_element` refuses the canonical encoding of every point outside the
`L`-torsion (and of the identity) -/
theorem dec_refuses_non_torsion (P : Point (EC h)) (hP : c.L • P ≠ 0 ∨ P = 0) :
    Ed25519.dec c (encP h P) = raise .ValueError := by
  obtain ⟨h0, h1, -⟩ := h.decUnknown_complete P
  unfold Ed25519.dec
  by_cases hz : P = 0
  · rw [h0 hz]; rfl
  · rw [h1 hz]
    rcases hP with hP | hP
    · have rL := h.safe_rep (h.canonPt_rep P .unknown).1 c.L (by have := h.L_gt; omega)
      have hne : Ed.is_extended_zero c.Q
          (Ed.scalarmult_element_safe_slow c.Q c.d (canonPt h P) c.L) = false := by
        cases hb : Ed.is_extended_zero c.Q
          (Ed.scalarmult_element_safe_slow c.Q c.d (canonPt h P) c.L)
        · rfl
        · exact absurd ((h.zero_iff rL.1 rL.2).1 hb) hP
      simp only [hne]
      rw [if_neg (by decide)]
      rfl
    · exact absurd hP hz

/-! ### (b) `ElementOfUnknownGroup.add` -/

/-- **`ElementOfUnknownGroup.add`** on objects holding *any* two curve points (small-order points
included): the `Zero` object when the sum is the identity, otherwise an `ElementOfUnknownGroup`
holding the sum -/
theorem addUnknown_spec {a b : EdElem} {P R : Point (EC h)} (ra : RepElem h a P) (rb : RepElem h b R) :
    RepElem h (Ed25519.addUnknown c a b) (P + R) ∧
    (P + R = 0 → Ed25519.addUnknown c a b = Ed25519.Zero c) ∧
    (P + R ≠ 0 → Ed25519.addUnknown c a b = ⟨.unknown, Ed.add_elements c.Q c.d a.pt b.pt⟩) := by
  have hsum := h.add_rep ra.1 rb.1
  have hz := h.zero_iff hsum.1 hsum.2
  by_cases h0 : P + R = 0
  · have e : Ed25519.addUnknown c a b = Ed25519.Zero c := by
      unfold Ed25519.addUnknown
      simp only [hz.2 h0, if_true]
    refine ⟨?_, fun _ => e, fun hne => absurd h0 hne⟩
    rw [e, h0]; exact h.repElem_zero
  · have e : Ed25519.addUnknown c a b = ⟨.unknown, Ed.add_elements c.Q c.d a.pt b.pt⟩ := by
      unfold Ed25519.addUnknown
      rw [if_neg (fun hh => h0 (hz.1 hh))]
    refine ⟨?_, fun hh => absurd hh h0, fun _ => e⟩
    rw [e]; exact hsum

/-- the class of the sum: `_ZeroElement` exactly when the sum is the identity, otherwise
`ElementOfUnknownGroup` -/
theorem addUnknown_kind {a b : EdElem} {P R : Point (EC h)} (ra : RepElem h a P) (rb : RepElem h b R) :
    ((Ed25519.addUnknown c a b).kind = .zero ↔ P + R = 0) ∧
    ((Ed25519.addUnknown c a b).kind = .unknown ↔ P + R ≠ 0) := by
  obtain ⟨-, e0, e1⟩ := h.addUnknown_spec ra rb
  by_cases h0 : P + R = 0
  · rw [e0 h0]; simp [Ed25519.Zero, h0]
  · rw [e1 h0]; simp [h0]

/-! ### (c) `ElementOfUnknownGroup.scalarmult` -/

/-- **`ElementOfUnknownGroup.scalarmult`** on an object holding *any* curve point: for `n ≥ 0` the
safe ladder computes `n • P`, and the result is again an `ElementOfUnknownGroup` — the code does
*not* turn an identity product into the `Zero` object here; for `n < 0` the assertion fails. -/
theorem smul_unknown_spec {a : EdElem} {P : Point (EC h)} (ka : a.kind = .unknown)
    (ra : RepElem h a P) (n : ℤ) :
    (0 ≤ n → Ed25519.smul c a n =
        .ok ⟨.unknown, Ed.scalarmult_element_safe_slow c.Q c.d a.pt n⟩ ∧
      RepElem h ⟨.unknown, Ed.scalarmult_element_safe_slow c.Q c.d a.pt n⟩ (n • P)) ∧
    (n < 0 → Ed25519.smul c a n = raise .AssertionError) := by
  refine ⟨fun hn => ⟨?_, h.safe_rep ra.1 n hn⟩, fun hn => ?_⟩
  · simp only [Ed25519.smul, ka]
    rw [if_neg (by omega)]
  · simp only [Ed25519.smul, ka]
    rw [if_pos hn]

/-- the existential form of `smul_unknown_spec` -/
theorem smul_unknown_ok {a : EdElem} {P : Point (EC h)} (ka : a.kind = .unknown)
    (ra : RepElem h a P) (n : ℤ) (hn : 0 ≤ n) :
    ∃ e, Ed25519.smul c a n = .ok e ∧ e.kind = .unknown ∧ RepElem h e (n • P) :=
  ⟨_, ((h.smul_unknown_spec ka ra n).1 hn).1, rfl, ((h.smul_unknown_spec ka ra n).1 hn).2⟩

omit [Fact c.Q.toNat.Prime] h in
/-- no normalisation: multiplying an unknown-group object by `0` (or by any `n ≥ 0` with
`n • P = 0`) gives an `ElementOfUnknownGroup` holding the identity, not the `Zero` object -/
theorem smul_unknown_not_Zero {a : EdElem} (ka : a.kind = .unknown) (n : ℤ) (hn : 0 ≤ n) :
    Ed25519.smul c a n ≠ .ok (Ed25519.Zero c) := by
  simp only [Ed25519.smul, ka]
  rw [if_neg (by omega)]
  intro e
  injection e with e
  have := congrArg EdElem.kind e
  simp [Ed25519.Zero] at this

include h in
theorem smul_unknown_zero {a : EdElem} (ka : a.kind = .unknown) :
    Ed25519.smul c a 0 = .ok ⟨.unknown, Ed25519.zeroPt c⟩ := by
  simp only [Ed25519.smul, ka]
  rw [if_neg (by omega)]
  -- independent of how the code writes the n == 0 result (`xform_affine_to_extended((0,1))`, a hoisted
  -- constant or the literal `(0, 1, 1, 0)`): both sides evaluate to `(0, 1, 1, 0)` because `Q ≥ 2`
  have hQ : (2 : ℤ) ≤ c.Q := by have := h.Q_prime.two_le; omega
  have e1 : Int.emod 1 c.Q = 1 := Int.emod_eq_of_lt (by omega) (by omega)
  have e0 : Int.emod 0 c.Q = 0 := Int.zero_emod _
  simp [Ed.scalarmult_element_safe_slow, Ed.scalarmult_element_safe_slowAux, Ed25519.zeroPt,
    Ed.xform_affine_to_extended, Py.bitLength, e1, e0]

/-! ### (d) `==` -/

/-- **`a == b`** (comparison of `to_bytes`) is equality of the represented points, for objects of
any classes holding any curve points -/
theorem eq_unknown_spec {a b : EdElem} {P R : Point (EC h)} (ra : RepElem h a P) (rb : RepElem h b R) :
    Ed25519.eq c a b = true ↔ P = R := by
  unfold Ed25519.eq
  rw [beq_iff_eq]
  exact h.toBytes_eq_iff ra.1 rb.1

/-- in particular an `ElementOfUnknownGroup` holding the identity compares equal to `Zero` -/
theorem eq_Zero_iff {a : EdElem} {P : Point (EC h)} (ra : RepElem h a P) :
    Ed25519.eq c a (Ed25519.Zero c) = true ↔ P = 0 :=
  h.eq_unknown_spec ra h.repElem_zero

/-! ### (e) `a.add(b)` for all combinations of classes -/

end CurveOK

/-- the class of a non-identity sum `a.add(b)`, from the classes of `a` and `b`
(the Python promotion rules) -/
def promote : Kind → Kind → Kind
  | .zero, k => k
  | .unknown, _ => .unknown
  | .elem, .zero => .elem
  | .elem, .elem => .elem
  | .elem, .unknown => .unknown

namespace CurveOK
variable {c : Curve} [Fact c.Q.toNat.Prime] (h : CurveOK c)
include h

/-- **`a.add(b)` for every combination of classes.**  `a`, `b` hold the points `P`, `R`
(`_ZeroElement` objects hold the identity).  The call never raises, the result holds `P + R`, and
its class follows the promotion rules exactly:
* `Zero.add(b)` is `b` itself;
* `Element.add(Zero)` is the same `Element` (fix F2);
* in every other case the result is the `Zero` object when `P + R = 0`, and otherwise an object
  with the sum quadruple of class `promote a.kind b.kind`: `Element` for `Element + Element`,
  `ElementOfUnknownGroup` as soon as one operand is one (or `a` is one and `b` is `Zero`). -/
theorem add_mixed_spec {a b : EdElem} {P R : Point (EC h)} (ra : RepElem h a P) (rb : RepElem h b R)
    (hza : a.kind = .zero → P = 0) (hzb : b.kind = .zero → R = 0) :
    ∃ r, Ed25519.add c a b = .ok r ∧ RepElem h r (P + R) ∧
      (a.kind = .zero → r = b) ∧
      (a.kind = .elem → b.kind = .zero → r = a) ∧
      (a.kind ≠ .zero → ¬ (a.kind = .elem ∧ b.kind = .zero) →
        (P + R = 0 → r = Ed25519.Zero c) ∧
        (P + R ≠ 0 → r = ⟨promote a.kind b.kind, Ed.add_elements c.Q c.d a.pt b.pt⟩)) := by
  obtain ⟨rs, e0, e1⟩ := h.addUnknown_spec ra rb
  obtain ⟨k0, k1⟩ := h.addUnknown_kind ra rb
  cases ka : a.kind with
  | zero =>
    refine ⟨b, by simp only [Ed25519.add, ka], ?_, fun _ => rfl, fun hh => (by cases hh),
      fun hh => absurd rfl hh⟩
    rw [hza ka, zero_add]; exact rb
  | unknown =>
    refine ⟨Ed25519.addUnknown c a b, by simp only [Ed25519.add, ka], rs, fun hh => (by cases hh),
      fun hh => (by cases hh), fun _ _ => ⟨e0, fun hne => ?_⟩⟩
    rw [e1 hne]; rfl
  | elem =>
    by_cases kb : b.kind = .zero
    · refine ⟨a, ?_, ?_, fun hh => (by cases hh), fun _ _ => rfl, fun _ hh => absurd ⟨rfl, kb⟩ hh⟩
      · simp only [Ed25519.add, ka]; rw [if_pos kb]
      · rw [hzb kb, add_zero]; exact ra
    · by_cases hs : P + R = 0
      · refine ⟨Ed25519.Zero c, ?_, by rw [hs]; exact h.repElem_zero, fun hh => (by cases hh),
          fun _ hh => absurd hh kb, fun _ _ => ⟨fun _ => rfl, fun hne => absurd hs hne⟩⟩
        simp only [Ed25519.add, ka]
        rw [if_neg kb, e0 hs, if_pos (show (Ed25519.Zero c).kind = Kind.zero from rfl)]
      · have hnz : ¬ (Ed25519.addUnknown c a b).kind = Kind.zero := fun hh => hs (k0.1 hh)
        cases kb' : b.kind with
        | zero => exact absurd kb' kb
        | elem =>
          refine ⟨⟨.elem, Ed.add_elements c.Q c.d a.pt b.pt⟩, ?_, ?_, fun hh => (by cases hh),
            fun _ hh => (by cases hh), fun _ _ => ⟨fun hh => absurd hh hs, fun _ => rfl⟩⟩
          · simp only [Ed25519.add, ka]
            rw [if_neg kb, if_neg hnz, if_pos kb', e1 hs]
          · exact (h.add_rep ra.1 rb.1)
        | unknown =>
          refine ⟨⟨.unknown, Ed.add_elements c.Q c.d a.pt b.pt⟩, ?_, ?_, fun hh => (by cases hh),
            fun _ hh => (by cases hh), fun _ _ => ⟨fun hh => absurd hh hs, fun _ => rfl⟩⟩
          · simp only [Ed25519.add, ka]
            rw [if_neg kb, if_neg hnz, if_neg (by rw [kb']; decide), e1 hs]
          · exact (h.add_rep ra.1 rb.1)

open Classical in
/-- the class of `a.add(b)`, as one equation: `b`'s class for `Zero.add(b)`; `Element` for
`Element.add(Zero)`; otherwise `_ZeroElement` if the sum is the identity and the promoted class if
it is not -/
theorem add_mixed_kind {a b : EdElem} {P R : Point (EC h)} (ra : RepElem h a P) (rb : RepElem h b R)
    (hza : a.kind = .zero → P = 0) (hzb : b.kind = .zero → R = 0) :
    ∃ r, Ed25519.add c a b = .ok r ∧ RepElem h r (P + R) ∧
      r.kind = (if a.kind = .zero then b.kind
        else if a.kind = .elem ∧ b.kind = .zero then .elem
        else if P + R = 0 then .zero else promote a.kind b.kind) := by
  obtain ⟨r, hr, rr, c0, c1, c2⟩ := h.add_mixed_spec ra rb hza hzb
  refine ⟨r, hr, rr, ?_⟩
  by_cases ka : a.kind = .zero
  · rw [if_pos ka, c0 ka]
  · rw [if_neg ka]
    by_cases kab : a.kind = .elem ∧ b.kind = .zero
    · rw [if_pos kab, c1 kab.1 kab.2, kab.1]
    · rw [if_neg kab]
      obtain ⟨d0, d1⟩ := c2 ka kab
      by_cases hs : P + R = 0
      · rw [if_pos hs, d0 hs]; rfl
      · rw [if_neg hs, d1 hs]

/-! ### (f) no `negate` / `subtract` on `ElementOfUnknownGroup` -/

omit [Fact c.Q.toNat.Prime] h in
/-- **`ElementOfUnknownGroup` has no `negate`**: `AttributeError` -/
theorem negate_unknown {a : EdElem} (ka : a.kind = .unknown) :
    Ed25519.negate c a = raise .AttributeError := by
  simp only [Ed25519.negate, ka]

omit [Fact c.Q.toNat.Prime] h in
/-- **`ElementOfUnknownGroup` has no `subtract`**: `AttributeError`, whatever the argument -/
theorem subtract_unknown {a : EdElem} (ka : a.kind = .unknown) (b : EdElem) :
    Ed25519.subtract c a b = raise .AttributeError := by
  simp only [Ed25519.subtract, ka]

omit [Fact c.Q.toNat.Prime] h in
/-- subtracting an `ElementOfUnknownGroup` from anything: `other.negate()` raises `AttributeError` -/
theorem subtract_of_unknown (a : EdElem) {b : EdElem} (kb : b.kind = .unknown) :
    Ed25519.subtract c a b = raise .AttributeError := by
  unfold Ed25519.subtract
  rw [negate_unknown kb]
  cases a.kind <;> rfl

end CurveOK

/-! ## Instances

### the shipped curve (constants as generated from the current source) -/

section Gen

/-- (local) the field size of the shipped curve is prime -/
local instance factGen : Fact Spake2Model.ed25519.Q.toNat.Prime := curveOK_gen.fact

/-- the group of points of the shipped curve -/
abbrev GenPoint : Type := Point (CurveOK.EC curveOK_gen)

/-- `RepElem` on the shipped curve -/
abbrev GenRep (e : EdElem) (P : GenPoint) : Prop := CurveOK.RepElem curveOK_gen e P

theorem gen_decUnknown_sound {b : Bytes} {e : EdElem} (hd : Ed25519.decUnknown ed25519 b = .ok e) :
    (b = Ed25519.zeroBytes ed25519 ∧ e = Ed25519.Zero ed25519) ∨
      (b ≠ Ed25519.zeroBytes ed25519 ∧ e.kind = .unknown ∧
        ∃ (xy : ℤ × ℤ) (hon : Ed.isoncurve ed25519.Q ed25519.d xy = true),
          Ed25519.decodepoint ed25519 b = .ok xy ∧ e.pt = Ed.xform_affine_to_extended ed25519.Q xy ∧
          GenRep e (curveOK_gen.pointOf xy hon)) :=
  curveOK_gen.decUnknown_sound hd

theorem gen_decUnknown_complete (P : GenPoint) :
    (P = 0 → Ed25519.decUnknown ed25519 (CurveOK.encP curveOK_gen P) = .ok (Ed25519.Zero ed25519)) ∧
    (P ≠ 0 → Ed25519.decUnknown ed25519 (CurveOK.encP curveOK_gen P) =
      .ok ⟨.unknown, CurveOK.canonPt curveOK_gen P⟩) ∧
    ∃ e, Ed25519.decUnknown ed25519 (CurveOK.encP curveOK_gen P) = .ok e ∧ GenRep e P ∧
      (e.kind = .zero ↔ P = 0) ∧ e.kind ≠ .elem :=
  curveOK_gen.decUnknown_complete P

theorem gen_decUnknown_noncanonical_zero :
    Ed25519.decUnknown ed25519 (natToLE 32 (1 + 2 ^ 255)) = .ok ⟨.unknown, Ed25519.zeroPt ed25519⟩ :=
  curveOK_gen.decUnknown_noncanonical_zero

theorem gen_addUnknown_spec {a b : EdElem} {P R : GenPoint} (ra : GenRep a P) (rb : GenRep b R) :
    GenRep (Ed25519.addUnknown ed25519 a b) (P + R) ∧
    (P + R = 0 → Ed25519.addUnknown ed25519 a b = Ed25519.Zero ed25519) ∧
    (P + R ≠ 0 → Ed25519.addUnknown ed25519 a b = ⟨.unknown, Ed.add_elements ed25519.Q ed25519.d a.pt b.pt⟩) :=
  curveOK_gen.addUnknown_spec ra rb

theorem gen_smul_unknown_spec {a : EdElem} {P : GenPoint} (ka : a.kind = .unknown)
    (ra : GenRep a P) (n : ℤ) :
    (0 ≤ n → Ed25519.smul ed25519 a n =
        .ok ⟨.unknown, Ed.scalarmult_element_safe_slow ed25519.Q ed25519.d a.pt n⟩ ∧
      GenRep ⟨.unknown, Ed.scalarmult_element_safe_slow ed25519.Q ed25519.d a.pt n⟩ (n • P)) ∧
    (n < 0 → Ed25519.smul ed25519 a n = raise .AssertionError) :=
  curveOK_gen.smul_unknown_spec ka ra n

theorem gen_eq_unknown_spec {a b : EdElem} {P R : GenPoint} (ra : GenRep a P) (rb : GenRep b R) :
    Ed25519.eq ed25519 a b = true ↔ P = R :=
  curveOK_gen.eq_unknown_spec ra rb

theorem gen_add_mixed_spec {a b : EdElem} {P R : GenPoint} (ra : GenRep a P) (rb : GenRep b R)
    (hza : a.kind = .zero → P = 0) (hzb : b.kind = .zero → R = 0) :
    ∃ r, Ed25519.add ed25519 a b = .ok r ∧ GenRep r (P + R) ∧
      (a.kind = .zero → r = b) ∧
      (a.kind = .elem → b.kind = .zero → r = a) ∧
      (a.kind ≠ .zero → ¬ (a.kind = .elem ∧ b.kind = .zero) →
        (P + R = 0 → r = Ed25519.Zero ed25519) ∧
        (P + R ≠ 0 → r = ⟨promote a.kind b.kind, Ed.add_elements ed25519.Q ed25519.d a.pt b.pt⟩)) :=
  curveOK_gen.add_mixed_spec ra rb hza hzb

theorem gen_negate_unknown {a : EdElem} (ka : a.kind = .unknown) :
    Ed25519.negate ed25519 a = raise .AttributeError ∧
      (∀ b, Ed25519.subtract ed25519 a b = raise .AttributeError) ∧
      (∀ b, Ed25519.subtract ed25519 b a = raise .AttributeError) :=
  ⟨CurveOK.negate_unknown ka, CurveOK.subtract_unknown ka, fun b => CurveOK.subtract_of_unknown b ka⟩

end Gen

/-! ### the toy curve `(Q, L, d) = (389, 53, 61)`: the generic theorems, and the same facts by evaluation

`T = (163, 73)` is a point of order 8 (`cardWitness_toy389`). -/

section Toy

local instance factToy389 : Fact toy389.Q.toNat.Prime := curveOK_toy389.fact

/-- the generic theorems hold on the toy curve (one bundled instance) -/
theorem toy389_unknown_group {a b : EdElem} {P R : Point (CurveOK.EC curveOK_toy389)}
    (ra : CurveOK.RepElem curveOK_toy389 a P) (rb : CurveOK.RepElem curveOK_toy389 b R) :
    CurveOK.RepElem curveOK_toy389 (Ed25519.addUnknown toy389 a b) (P + R) ∧
    (Ed25519.eq toy389 a b = true ↔ P = R) ∧
    (a.kind = .unknown → ∀ n : ℤ, 0 ≤ n →
      ∃ e, Ed25519.smul toy389 a n = .ok e ∧ e.kind = .unknown ∧
        CurveOK.RepElem curveOK_toy389 e (n • P)) :=
  ⟨(curveOK_toy389.addUnknown_spec ra rb).1, curveOK_toy389.eq_unknown_spec ra rb,
    fun ka n hn => curveOK_toy389.smul_unknown_ok ka ra n hn⟩

/-- the encoding of the order-8 point `T` is accepted by `bytes_to_unknown_group_element` … -/
theorem toy389_decUnknown_T :
    Ed25519.decUnknown toy389 (natToLE 32 (73 + 2 ^ 255)) = .ok ⟨.unknown, (163, 73, 1, 229)⟩ := by
  decide +kernel

/-- … and refused by `bytes_to_element` -/
theorem toy389_dec_T : Ed25519.dec toy389 (natToLE 32 (73 + 2 ^ 255)) = raise .ValueError := by
  decide +kernel

/-- `T.scalarmult(8)` is an `ElementOfUnknownGroup` holding the identity `(0 : 9 : 9 : 0)`, which
compares equal to `Zero` without being the `Zero` object; `T.scalarmult(4)` is the point `(0, -1)` -/
theorem toy389_smul_T :
    Ed25519.smul toy389 ⟨.unknown, (163, 73, 1, 229)⟩ 8 = .ok ⟨.unknown, (0, 9, 9, 0)⟩ ∧
    Ed25519.eq toy389 ⟨.unknown, (0, 9, 9, 0)⟩ (Ed25519.Zero toy389) = true ∧
    Ed25519.smul toy389 ⟨.unknown, (163, 73, 1, 229)⟩ 4 = .ok ⟨.unknown, (0, 321, 68, 0)⟩ ∧
    Ed25519.toBytes toy389 ⟨.unknown, (0, 321, 68, 0)⟩ = natToLE 32 388 ∧
    Ed25519.smul toy389 ⟨.unknown, (163, 73, 1, 229)⟩ (-1) = raise .AssertionError := by
  decide +kernel

/-- `Base.add(T)` and `T.add(Base)`: both of class `ElementOfUnknownGroup` -/
theorem toy389_add_T :
    Ed25519.add toy389 (Ed25519.Base toy389) ⟨.unknown, (163, 73, 1, 229)⟩ =
      .ok ⟨.unknown, (270, 323, 272, 272)⟩ ∧
    Ed25519.add toy389 ⟨.unknown, (163, 73, 1, 229)⟩ (Ed25519.Base toy389) =
      .ok ⟨.unknown, (270, 323, 272, 272)⟩ := by
  decide +kernel

/-- the non-canonical identity string on the toy curve, by evaluation (cf.
`decUnknown_noncanonical_zero`) -/
theorem toy389_noncanonical_zero :
    Ed25519.decUnknown toy389 (natToLE 32 (1 + 2 ^ 255)) = .ok ⟨.unknown, (0, 1, 1, 0)⟩ ∧
    Ed25519.decUnknown toy389 (natToLE 32 1) = .ok (Ed25519.Zero toy389) := by
  decide +kernel

end Toy

/-! ## Summary -/

#print axioms CurveOK.decUnknown_sound
#print axioms CurveOK.decUnknown_ok
#print axioms CurveOK.decUnknown_zeroBytes
#print axioms CurveOK.decUnknown_complete
#print axioms CurveOK.decUnknown_toBytes
#print axioms CurveOK.decUnknown_noncanonical_zero
#print axioms CurveOK.dec_refuses_non_torsion
#print axioms CurveOK.addUnknown_spec
#print axioms CurveOK.addUnknown_kind
#print axioms CurveOK.smul_unknown_spec
#print axioms CurveOK.smul_unknown_ok
#print axioms CurveOK.smul_unknown_not_Zero
#print axioms CurveOK.eq_unknown_spec
#print axioms CurveOK.eq_Zero_iff
#print axioms CurveOK.add_mixed_spec
#print axioms CurveOK.add_mixed_kind
#print axioms CurveOK.negate_unknown
#print axioms CurveOK.subtract_unknown
#print axioms CurveOK.subtract_of_unknown
#print axioms gen_decUnknown_sound
#print axioms gen_decUnknown_complete
#print axioms gen_decUnknown_noncanonical_zero
#print axioms gen_addUnknown_spec
#print axioms gen_smul_unknown_spec
#print axioms gen_eq_unknown_spec
#print axioms gen_add_mixed_spec
#print axioms gen_negate_unknown
#print axioms toy389_unknown_group
#print axioms toy389_decUnknown_T
#print axioms toy389_dec_T
#print axioms toy389_smul_T
#print axioms toy389_add_T
#print axioms toy389_noncanonical_zero

end Spake2Verif
