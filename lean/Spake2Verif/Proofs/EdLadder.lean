import Spake2Verif.Proofs.EdBridge
import Mathlib.Tactic.Linarith

/-!
# The two scalar-multiplication ladders compute `n • P`

* `scalarmult_element_safe_slow` (unified addition): for every represented point and every `n ≥ 0`.
* `scalarmult_element` (dedicated addition): for `P ≠ 0` with `L • P = 0`, `L` an odd prime, and
  `0 ≤ n < L`.  At each odd step `n = 2m+1` the dedicated addition is applied to `2m • P` and `P`,
  whose difference `(n-2) • P` has order `L` (as `-1 ≤ n-2 < L`, `n-2 ≠ 0`), hence is none of the
  four exceptional points (which are killed by 4).

General `Q`, `d`, `L`; no primality is proved here.
-/
set_option linter.unusedSimpArgs false
namespace Spake2Verif.EdLadder
open Spake2Model Spake2Model.Gen.Ed Spake2Verif.Edw Spake2Verif.EdBridge

variable {Q : ℕ} [Fact Q.Prime] (C : EdCurve (ZMod Q))

/-- splitting a scalar into its shifted part and low bit -/
theorem zsmul_split (P : Point C) (n : ℤ) :
    n • P = ((n / 2) • P + (n / 2) • P) + (n % 2) • P := by
  rw [← add_zsmul, ← add_zsmul]
  congr 1
  omega

theorem half_bounds {n : ℤ} {fuel : ℕ} (h0 : 0 ≤ n) (h : n < 2 ^ (fuel + 1)) :
    0 ≤ n / 2 ∧ n / 2 < 2 ^ fuel := by
  rw [pow_succ] at h
  generalize (2:ℤ) ^ fuel = K at h ⊢
  omega

/-! ## the safe ladder -/

theorem safe_slowAux_rep (d : ℤ) (hd : (d : ZMod Q) = C.d) (pt : ℤ × ℤ × ℤ × ℤ) (P : Point C)
    (r : Rep C pt P) :
    ∀ (fuel : ℕ) (n : ℤ), 0 ≤ n → n < 2 ^ fuel →
      Rep C (scalarmult_element_safe_slowAux (Q : ℤ) d pt fuel n) (n • P) ∧
        Reduced Q (scalarmult_element_safe_slowAux (Q : ℤ) d pt fuel n) := by
  intro fuel
  induction fuel with
  | zero =>
    intro n h0 h1
    have hn : n = 0 := by
      have : n < 1 := by simpa using h1
      omega
    subst hn
    rw [zero_zsmul]
    -- the n == 0 result, written as `xform_affine_to_extended((0,1))` or as the literal `(0,1,1,0)`
    have hb : scalarmult_element_safe_slowAux (Q : ℤ) d pt 0 0 = ((0 : ℤ), (1 : ℤ), (1 : ℤ), (0 : ℤ)) := by
      simp only [scalarmult_element_safe_slowAux, xform_zero_eq]
    rw [hb]
    exact zero_rep_literal C
  | succ fuel ih =>
    intro n h0 h1
    rw [scalarmult_element_safe_slowAux]
    by_cases hn : n = 0
    · subst hn
      rw [zero_zsmul]
      simp only [decide_true, if_true, xform_zero_eq]
      exact zero_rep_literal C
    · obtain ⟨hh0, hh1⟩ := half_bounds h0 h1
      obtain ⟨rrec, -⟩ := ih (n / 2) hh0 hh1
      have rdbl := double_element_rep C rrec.xyz
      simp only [hn, decide_false, Bool.false_eq_true, if_false, Py.shr_one, Py.band_one]
      rw [zsmul_split C P n]
      by_cases hb : n % 2 = 0
      · simp only [hb, ne_eq, not_true_eq_false, decide_false, Bool.false_eq_true, if_false,
          zero_zsmul, add_zero]
        exact rdbl
      · have hb1 : n % 2 = 1 := by omega
        simp only [hb1, ne_eq, one_ne_zero, not_false_eq_true, decide_true, if_true, one_zsmul]
        exact add_elements_rep C d hd rdbl.1 r

/-! ## the fast ladder -/

section Fast
variable {L : ℕ} (hL : L.Prime) (hL2 : 2 < L)
include hL hL2

/-- multiples `k • P`, `L ∤ k`, of a point of odd prime order `L` avoid the four exceptional points -/
theorem no_small_order (P : Point C) (hLP : (L : ℤ) • P = 0) (hP : P ≠ 0) (k : ℤ)
    (hk : ¬ (L : ℤ) ∣ k) : ¬ ((k • P).x = 0 ∨ (k • P).y = 0) := by
  intro h
  have h4 : (4 * k) • P = 0 := by
    rw [mul_zsmul]; exact Point.four_zsmul_of_x_or_y_eq_zero h
  have hLi : Prime (L : ℤ) := Nat.prime_iff_prime_int.mp hL
  have hnd : ¬ (L : ℤ) ∣ 4 * k := by
    intro hd
    rcases hLi.dvd_mul.1 hd with h | h
    · have h' : L ∣ 2 ^ 2 := by
        have : ((L : ℕ) : ℤ) ∣ ((4 : ℕ) : ℤ) := by exact_mod_cast h
        exact Int.natCast_dvd_natCast.1 this
      have h2 := hL.dvd_of_dvd_pow h'
      have := Nat.le_of_dvd (by norm_num) h2
      omega
    · exact hk h
  obtain ⟨a, b, hab⟩ := (hLi.coprime_iff_not_dvd).2 hnd
  apply hP
  calc P = (1 : ℤ) • P := (one_zsmul P).symm
    _ = (a * (L : ℤ) + b * (4 * k)) • P := by rw [hab]
    _ = 0 := by rw [add_zsmul, mul_zsmul, mul_zsmul, hLP, h4, zsmul_zero, zsmul_zero, add_zero]

theorem fastAux_rep (pt : ℤ × ℤ × ℤ × ℤ) (P : Point C) (r : Rep C pt P)
    (hLP : (L : ℤ) • P = 0) (hP : P ≠ 0) :
    ∀ (fuel : ℕ) (n : ℤ), 0 ≤ n → n < 2 ^ fuel → n < L →
      Rep C (scalarmult_elementAux (Q : ℤ) pt fuel n) (n • P) ∧
        Reduced Q (scalarmult_elementAux (Q : ℤ) pt fuel n) := by
  intro fuel
  induction fuel with
  | zero =>
    intro n h0 h1 _
    have hn : n = 0 := by
      have : n < 1 := by simpa using h1
      omega
    subst hn
    rw [zero_zsmul]
    -- the n == 0 result, written as `xform_affine_to_extended((0,1))` or as the literal `(0,1,1,0)`
    have hb : scalarmult_elementAux (Q : ℤ) pt 0 0 = ((0 : ℤ), (1 : ℤ), (1 : ℤ), (0 : ℤ)) := by
      simp only [scalarmult_elementAux, xform_zero_eq]
    rw [hb]
    exact zero_rep_literal C
  | succ fuel ih =>
    intro n h0 h1 hnL
    rw [scalarmult_elementAux]
    by_cases hn : n = 0
    · subst hn
      rw [zero_zsmul]
      simp only [decide_true, if_true, xform_zero_eq]
      exact zero_rep_literal C
    · obtain ⟨hh0, hh1⟩ := half_bounds h0 h1
      obtain ⟨rrec, -⟩ := ih (n / 2) hh0 hh1 (by omega)
      have rdbl := double_element_rep C rrec.xyz
      simp only [hn, decide_false, Bool.false_eq_true, if_false, Py.shr_one, Py.band_one]
      rw [zsmul_split C P n]
      by_cases hb : n % 2 = 0
      · simp only [hb, ne_eq, not_true_eq_false, decide_false, Bool.false_eq_true, if_false,
          zero_zsmul, add_zero]
        exact rdbl
      · have hb1 : n % 2 = 1 := by omega
        simp only [hb1, ne_eq, one_ne_zero, not_false_eq_true, decide_true, if_true, one_zsmul]
        refine add_elements_nonunfied_rep C rdbl.1 r ?_
        have hdiff : ((n / 2) • P + (n / 2) • P) - P = (n - 2) • P := by
          rw [← add_zsmul, sub_eq_add_neg, ← neg_one_zsmul P, ← add_zsmul]
          congr 1
          omega
        rw [hdiff]
        apply no_small_order C hL hL2 P hLP hP
        intro hdvd
        have habs : |n - 2| < (L : ℤ) := by
          have : (2 : ℤ) < L := by exact_mod_cast hL2
          rw [abs_lt]; constructor <;> omega
        have := Int.eq_zero_of_abs_lt_dvd hdvd habs
        omega

end Fast

/-! ## Summary (property-level statements) -/

/-- `scalarmult_element_safe_slow(pt, n)` represents `n • P` for every represented `P` (any order,
including the identity and the small-order points) and every `n ≥ 0`; outputs are reduced -/
theorem scalarmult_element_safe_slow_rep (d : ℤ) (hd : (d : ZMod Q) = C.d)
    {pt : ℤ × ℤ × ℤ × ℤ} {P : Point C} (r : Rep C pt P) (n : ℤ) (hn : 0 ≤ n) :
    Rep C (scalarmult_element_safe_slow (Q : ℤ) d pt n) (n • P) ∧
      Reduced Q (scalarmult_element_safe_slow (Q : ℤ) d pt n) :=
  safe_slowAux_rep C d hd pt P r _ n hn (Py.lt_two_pow_bitLength_succ n hn)

/-- natural-number form -/
theorem scalarmult_element_safe_slow_rep_nat (d : ℤ) (hd : (d : ZMod Q) = C.d)
    {pt : ℤ × ℤ × ℤ × ℤ} {P : Point C} (r : Rep C pt P) (k : ℕ) :
    Rep C (scalarmult_element_safe_slow (Q : ℤ) d pt (k : ℤ)) (k • P) ∧
      Reduced Q (scalarmult_element_safe_slow (Q : ℤ) d pt (k : ℤ)) := by
  have := scalarmult_element_safe_slow_rep C d hd r (k : ℤ) (Int.natCast_nonneg k)
  rwa [natCast_zsmul] at this

/-- `scalarmult_element(pt, n)` (dedicated addition inside) represents `n • P` when `P` is a
non-identity point killed by the odd prime `L` and `0 ≤ n < L`; outputs are reduced -/
theorem scalarmult_element_rep {L : ℕ} (hL : L.Prime) (hL2 : 2 < L)
    {pt : ℤ × ℤ × ℤ × ℤ} {P : Point C} (r : Rep C pt P) (hLP : L • P = 0) (hP : P ≠ 0)
    (n : ℤ) (hn : 0 ≤ n) (hnL : n < L) :
    Rep C (scalarmult_element (Q : ℤ) pt n) (n • P) ∧
      Reduced Q (scalarmult_element (Q : ℤ) pt n) :=
  fastAux_rep C hL hL2 pt P r (by rw [natCast_zsmul]; exact hLP) hP _ n hn
    (Py.lt_two_pow_bitLength_succ n hn) hnL

/-- on the prime-order subgroup the two ladders represent the same point -/
theorem scalarmult_element_agrees {L : ℕ} (hL : L.Prime) (hL2 : 2 < L) (d : ℤ)
    (hd : (d : ZMod Q) = C.d)
    {pt : ℤ × ℤ × ℤ × ℤ} {P : Point C} (r : Rep C pt P) (hLP : L • P = 0) (hP : P ≠ 0)
    (n : ℤ) (hn : 0 ≤ n) (hnL : n < L) :
    xform_extended_to_affine (Q : ℤ) (scalarmult_element (Q : ℤ) pt n) =
      xform_extended_to_affine (Q : ℤ) (scalarmult_element_safe_slow (Q : ℤ) d pt n) := by
  rw [xform_extended_to_affine_spec C (scalarmult_element_rep C hL hL2 r hLP hP n hn hnL).1,
    xform_extended_to_affine_spec C (scalarmult_element_safe_slow_rep C d hd r n hn).1]

#print axioms scalarmult_element_safe_slow_rep
#print axioms scalarmult_element_safe_slow_rep_nat
#print axioms scalarmult_element_rep
#print axioms scalarmult_element_agrees
#print axioms no_small_order

end Spake2Verif.EdLadder
