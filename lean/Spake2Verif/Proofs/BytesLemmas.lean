import Spake2Model.Model.Bytes

/-!
Lemmas about the byte-string model `Spake2Model.Model.Bytes`:
fixed-width little/big-endian codecs, hex, Python's order on `bytes`, `sorted2`.
Core Lean only (no Mathlib).
-/
namespace Spake2Model

/-! ### `IsBytes` -/

theorem isBytes_nil : IsBytes [] := by intro x hx; cases hx

theorem isBytes_cons {a : Nat} {l : Bytes} : IsBytes (a :: l) ↔ a < 256 ∧ IsBytes l := by
  unfold IsBytes; simp

theorem isBytes_append {a b : Bytes} : IsBytes (a ++ b) ↔ IsBytes a ∧ IsBytes b := by
  unfold IsBytes
  constructor
  · intro h; exact ⟨fun x hx => h x (List.mem_append_left _ hx), fun x hx => h x (List.mem_append_right _ hx)⟩
  · rintro ⟨h1, h2⟩ x hx
    rcases List.mem_append.mp hx with h | h
    · exact h1 x h
    · exact h2 x h

theorem isBytes_reverse {a : Bytes} : IsBytes a.reverse ↔ IsBytes a := by
  unfold IsBytes; simp

theorem IsBytes.take {a : Bytes} (h : IsBytes a) (n : Nat) : IsBytes (a.take n) :=
  fun x hx => h x (List.mem_of_mem_take hx)

theorem IsBytes.drop {a : Bytes} (h : IsBytes a) (n : Nat) : IsBytes (a.drop n) :=
  fun x hx => h x (List.mem_of_mem_drop hx)

/-! ### little-endian -/

theorem natToLE_length : ∀ (k n : Nat), (natToLE k n).length = k
  | 0, _ => rfl
  | k+1, n => by simp [natToLE, natToLE_length k]

theorem natToLE_isBytes : ∀ (k n : Nat), IsBytes (natToLE k n)
  | 0, _ => isBytes_nil
  | k+1, n => by
      rw [natToLE, isBytes_cons]
      exact ⟨Nat.mod_lt _ (by decide), natToLE_isBytes k _⟩

theorem leToNat_natToLE : ∀ (k n : Nat), leToNat (natToLE k n) = n % 256 ^ k
  | 0, n => by simp [natToLE, leToNat, Nat.mod_one]
  | k+1, n => by
      rw [natToLE, leToNat, leToNat_natToLE k, Nat.pow_succ, Nat.mul_comm (256 ^ k) 256,
        Nat.mod_mul]

theorem leToNat_natToLE_of_lt {k n : Nat} (h : n < 256 ^ k) : leToNat (natToLE k n) = n := by
  rw [leToNat_natToLE, Nat.mod_eq_of_lt h]

theorem natToLE_leToNat : ∀ (bs : Bytes), IsBytes bs → natToLE bs.length (leToNat bs) = bs
  | [], _ => rfl
  | b :: bs, h => by
      have hb := (isBytes_cons.mp h).1
      have ih := natToLE_leToNat bs (isBytes_cons.mp h).2
      simp only [List.length_cons, natToLE, leToNat]
      have h1 : (b + 256 * leToNat bs) % 256 = b := by omega
      have h2 : (b + 256 * leToNat bs) / 256 = leToNat bs := by omega
      rw [h1, h2, ih]

theorem leToNat_lt : ∀ (bs : Bytes), IsBytes bs → leToNat bs < 256 ^ bs.length
  | [], _ => by simp [leToNat]
  | b :: bs, h => by
      have hb := (isBytes_cons.mp h).1
      have ih := leToNat_lt bs (isBytes_cons.mp h).2
      simp only [List.length_cons, leToNat, Nat.pow_succ]
      omega

/-- `natToLE k` only depends on `n mod 256^k` -/
theorem natToLE_mod (k n : Nat) : natToLE k (n % 256 ^ k) = natToLE k n := by
  have h1 := natToLE_leToNat (natToLE k n) (natToLE_isBytes k n)
  rw [natToLE_length, leToNat_natToLE] at h1
  exact h1

theorem natToLE_injective {k m n : Nat} (hm : m < 256 ^ k) (hn : n < 256 ^ k)
    (h : natToLE k m = natToLE k n) : m = n := by
  rw [← leToNat_natToLE_of_lt hm, ← leToNat_natToLE_of_lt hn, h]

theorem leToNat_injective {a b : Bytes} (ha : IsBytes a) (hb : IsBytes b)
    (hlen : a.length = b.length) (h : leToNat a = leToNat b) : a = b := by
  rw [← natToLE_leToNat a ha, ← natToLE_leToNat b hb, hlen, h]

/-! ### big-endian -/

theorem natToBE_length (k n : Nat) : (natToBE k n).length = k := by
  simp [natToBE, natToLE_length]

theorem natToBE_isBytes (k n : Nat) : IsBytes (natToBE k n) := by
  unfold natToBE; exact isBytes_reverse.mpr (natToLE_isBytes k n)

theorem beToNat_natToBE (k n : Nat) : beToNat (natToBE k n) = n % 256 ^ k := by
  simp [beToNat, natToBE, leToNat_natToLE]

theorem beToNat_natToBE_of_lt {k n : Nat} (h : n < 256 ^ k) : beToNat (natToBE k n) = n := by
  rw [beToNat_natToBE, Nat.mod_eq_of_lt h]

theorem natToBE_beToNat (bs : Bytes) (h : IsBytes bs) : natToBE bs.length (beToNat bs) = bs := by
  have := natToLE_leToNat bs.reverse (isBytes_reverse.mpr h)
  rw [List.length_reverse] at this
  simp [natToBE, beToNat, this]

theorem beToNat_lt (bs : Bytes) (h : IsBytes bs) : beToNat bs < 256 ^ bs.length := by
  have := leToNat_lt bs.reverse (isBytes_reverse.mpr h)
  rwa [List.length_reverse] at this

theorem natToBE_mod (k n : Nat) : natToBE k (n % 256 ^ k) = natToBE k n := by
  simp [natToBE, natToLE_mod]

theorem natToBE_injective {k m n : Nat} (hm : m < 256 ^ k) (hn : n < 256 ^ k)
    (h : natToBE k m = natToBE k n) : m = n := by
  rw [← beToNat_natToBE_of_lt hm, ← beToNat_natToBE_of_lt hn, h]

theorem beToNat_injective {a b : Bytes} (ha : IsBytes a) (hb : IsBytes b)
    (hlen : a.length = b.length) (h : beToNat a = beToNat b) : a = b := by
  rw [← natToBE_beToNat a ha, ← natToBE_beToNat b hb, hlen, h]

/-- big-endian value of a concatenation -/
theorem leToNat_append : ∀ (a b : Bytes), leToNat (a ++ b) = leToNat a + 256 ^ a.length * leToNat b
  | [], b => by simp [leToNat]
  | x :: a, b => by
      simp only [List.cons_append, leToNat, leToNat_append a b, List.length_cons, Nat.pow_succ]
      rw [Nat.mul_add, Nat.add_assoc, Nat.mul_comm (256 ^ a.length) 256, Nat.mul_assoc]

theorem beToNat_cons (x : Nat) (bs : Bytes) : beToNat (x :: bs) = x * 256 ^ bs.length + beToNat bs := by
  simp only [beToNat, List.reverse_cons, leToNat_append, List.length_reverse, leToNat]
  rw [Nat.mul_zero, Nat.add_zero, Nat.mul_comm, Nat.add_comm]

theorem beToNat_nil : beToNat [] = 0 := rfl

theorem beToNat_append (a b : Bytes) : beToNat (a ++ b) = beToNat a * 256 ^ b.length + beToNat b := by
  simp only [beToNat, List.reverse_append, leToNat_append, List.length_reverse]
  rw [Nat.mul_comm, Nat.add_comm]

/-! ### hex -/

theorem hexVal_hexDigit : ∀ d, d < 16 → hexVal? (hexDigit d) = some d := by decide

theorem hexDigit_printable : ∀ d, d < 16 →
    (0x30 ≤ hexDigit d ∧ hexDigit d ≤ 0x39) ∨ (0x61 ≤ hexDigit d ∧ hexDigit d ≤ 0x66) := by decide

theorem hexlify_length : ∀ (b : Bytes), (hexlify b).length = 2 * b.length
  | [] => rfl
  | x :: b => by simp only [hexlify, List.length_cons, hexlify_length b]; omega

theorem unhexlify_hexlify : ∀ (b : Bytes), IsBytes b → unhexlify (hexlify b) = some b
  | [], _ => rfl
  | x :: b, h => by
      have hx := (isBytes_cons.mp h).1
      have ih := unhexlify_hexlify b (isBytes_cons.mp h).2
      have h1 : hexVal? (hexDigit (x / 16)) = some (x / 16) := hexVal_hexDigit _ (by omega)
      have h2 : hexVal? (hexDigit (x % 16)) = some (x % 16) := hexVal_hexDigit _ (by omega)
      simp only [hexlify, unhexlify, h1, h2, ih]
      congr 2
      omega

/-- `hexlify` is injective on byte strings -/
theorem hexlify_injective {a b : Bytes} (ha : IsBytes a) (hb : IsBytes b)
    (h : hexlify a = hexlify b) : a = b := by
  have := unhexlify_hexlify a ha
  rw [h, unhexlify_hexlify b hb] at this
  exact (Option.some.inj this).symm

/-- every character of `hexlify b` is a printable lower-case hex digit `0-9a-f` -/
theorem hexlify_printable : ∀ (b : Bytes), IsBytes b → ∀ c ∈ hexlify b,
    (0x30 ≤ c ∧ c ≤ 0x39) ∨ (0x61 ≤ c ∧ c ≤ 0x66)
  | [], _, c, hc => by cases hc
  | x :: b, h, c, hc => by
      have hx := (isBytes_cons.mp h).1
      simp only [hexlify, List.mem_cons] at hc
      rcases hc with rfl | rfl | hc
      · exact hexDigit_printable _ (by omega)
      · exact hexDigit_printable _ (by omega)
      · exact hexlify_printable b (isBytes_cons.mp h).2 c hc

theorem hexlify_isBytes (b : Bytes) (h : IsBytes b) : IsBytes (hexlify b) := by
  intro c hc
  rcases hexlify_printable b h c hc with h | h <;> omega

/-! ### Python's order on `bytes` and `sorted2` -/

theorem bytesLt_irrefl : ∀ (a : Bytes), bytesLt a a = false
  | [] => rfl
  | x :: a => by simp [bytesLt, bytesLt_irrefl a]

theorem bytesLt_asymm : ∀ (a b : Bytes), bytesLt a b = true → bytesLt b a = false
  | [], [], h => by simp [bytesLt] at h
  | [], _ :: _, _ => rfl
  | _ :: _, [], h => by simp [bytesLt] at h
  | x :: a, y :: b, h => by
      unfold bytesLt at h ⊢
      by_cases h1 : x < y
      · have : ¬ y < x := by omega
        simp [this, h1]
      · by_cases h2 : y < x
        · simp [h1, h2] at h
        · simp only [h1, h2, if_false] at h ⊢
          exact bytesLt_asymm a b h

theorem bytesLt_total : ∀ (a b : Bytes), bytesLt a b = false → bytesLt b a = false → a = b
  | [], [], _, _ => rfl
  | [], _ :: _, h, _ => by simp [bytesLt] at h
  | _ :: _, [], _, h => by simp [bytesLt] at h
  | x :: a, y :: b, h1, h2 => by
      unfold bytesLt at h1 h2
      by_cases hxy : x < y
      · simp [hxy] at h1
      · by_cases hyx : y < x
        · simp [hyx] at h2
        · simp only [hxy, hyx, if_false] at h1 h2
          have : x = y := by omega
          rw [this, bytesLt_total a b h1 h2]

theorem bytesLt_trans : ∀ (a b c : Bytes), bytesLt a b = true → bytesLt b c = true → bytesLt a c = true
  | [], [], _, h, _ => by simp [bytesLt] at h
  | [], _ :: _, [], _, h => by simp [bytesLt] at h
  | [], _ :: _, _ :: _, _, _ => rfl
  | _ :: _, [], _, h, _ => by simp [bytesLt] at h
  | _ :: _, _ :: _, [], _, h => by simp [bytesLt] at h
  | x :: a, y :: b, z :: c, h1, h2 => by
      unfold bytesLt at h1 h2 ⊢
      by_cases hxy : x < y
      · by_cases hyz : y < z
        · have : x < z := by omega
          simp [this]
        · by_cases hzy : z < y
          · simp [hyz, hzy] at h2
          · have : x < z := by omega
            simp [this]
      · by_cases hyx : y < x
        · simp [hxy, hyx] at h1
        · have hxy' : x = y := by omega
          subst hxy'
          simp only [hxy, if_false] at h1
          by_cases hxz : x < z
          · simp [hxz]
          · by_cases hzx : z < x
            · simp [hxz, hzx] at h2
            · simp only [hxz, hzx, if_false] at h2 ⊢
              exact bytesLt_trans a b c h1 h2

/-- trichotomy: exactly one of `a < b`, `a = b`, `b < a` holds -/
theorem bytesLt_trichotomy (a b : Bytes) :
    (bytesLt a b = true ∧ a ≠ b ∧ bytesLt b a = false) ∨
    (bytesLt a b = false ∧ a = b ∧ bytesLt b a = false) ∨
    (bytesLt a b = false ∧ a ≠ b ∧ bytesLt b a = true) := by
  cases hab : bytesLt a b with
  | true =>
    refine Or.inl ⟨rfl, ?_, bytesLt_asymm a b hab⟩
    rintro rfl; rw [bytesLt_irrefl] at hab; cases hab
  | false =>
    cases hba : bytesLt b a with
    | true =>
      refine Or.inr (Or.inr ⟨rfl, ?_, rfl⟩)
      rintro rfl; rw [bytesLt_irrefl] at hba; cases hba
    | false => exact Or.inr (Or.inl ⟨rfl, bytesLt_total a b hab hba, rfl⟩)

/-- `sorted([a,b])` is a permutation of the inputs -/
theorem sorted2_mem (a b : Bytes) : sorted2 a b = (a, b) ∨ sorted2 a b = (b, a) := by
  unfold sorted2; split
  · exact Or.inr rfl
  · exact Or.inl rfl

/-- `sorted([a,b])` does not depend on the order of the arguments -/
theorem sorted2_comm (a b : Bytes) : sorted2 a b = sorted2 b a := by
  unfold sorted2
  rcases bytesLt_trichotomy a b with ⟨h1, _, h2⟩ | ⟨_, rfl, _⟩ | ⟨h1, _, h2⟩
  · simp [h1, h2]
  · rfl
  · simp [h1, h2]

/-- the result is in order -/
theorem sorted2_sorted (a b : Bytes) : bytesLt (sorted2 a b).2 (sorted2 a b).1 = false := by
  unfold sorted2; split
  · next h => exact bytesLt_asymm _ _ h
  · next h => simpa using h

theorem sorted2_eq_of_lt {a b : Bytes} (h : bytesLt a b = true) :
    sorted2 a b = (a, b) ∧ sorted2 b a = (a, b) := by
  unfold sorted2
  simp [h, bytesLt_asymm a b h]

/-! ### property-level statements -/

/-- fixed-width codecs: lengths, range, both round trips (LE and BE) -/
theorem codec_roundtrip :
    (∀ k n, (natToLE k n).length = k ∧ IsBytes (natToLE k n) ∧ leToNat (natToLE k n) = n % 256 ^ k) ∧
    (∀ k n, (natToBE k n).length = k ∧ IsBytes (natToBE k n) ∧ beToNat (natToBE k n) = n % 256 ^ k) ∧
    (∀ bs, IsBytes bs → natToLE bs.length (leToNat bs) = bs ∧ leToNat bs < 256 ^ bs.length) ∧
    (∀ bs, IsBytes bs → natToBE bs.length (beToNat bs) = bs ∧ beToNat bs < 256 ^ bs.length) :=
  ⟨fun k n => ⟨natToLE_length k n, natToLE_isBytes k n, leToNat_natToLE k n⟩,
   fun k n => ⟨natToBE_length k n, natToBE_isBytes k n, beToNat_natToBE k n⟩,
   fun bs h => ⟨natToLE_leToNat bs h, leToNat_lt bs h⟩,
   fun bs h => ⟨natToBE_beToNat bs h, beToNat_lt bs h⟩⟩

/-- hex: round trip, length, printable lower-case alphabet -/
theorem hex_roundtrip (b : Bytes) (h : IsBytes b) :
    unhexlify (hexlify b) = some b ∧ (hexlify b).length = 2 * b.length ∧
    ∀ c ∈ hexlify b, (0x30 ≤ c ∧ c ≤ 0x39) ∨ (0x61 ≤ c ∧ c ≤ 0x66) :=
  ⟨unhexlify_hexlify b h, hexlify_length b, hexlify_printable b h⟩

/-- `sorted2` is symmetric, a permutation of its inputs, and ordered -/
theorem sorted2_spec (a b : Bytes) :
    sorted2 a b = sorted2 b a ∧ (sorted2 a b = (a, b) ∨ sorted2 a b = (b, a)) ∧
    bytesLt (sorted2 a b).2 (sorted2 a b).1 = false :=
  ⟨sorted2_comm a b, sorted2_mem a b, sorted2_sorted a b⟩

#print axioms codec_roundtrip
#print axioms natToLE_injective
#print axioms leToNat_injective
#print axioms natToBE_injective
#print axioms beToNat_injective
#print axioms hex_roundtrip
#print axioms hexlify_injective
#print axioms bytesLt_trichotomy
#print axioms bytesLt_trans
#print axioms sorted2_spec

end Spake2Model
