import Spake2Model.Model.Ed25519
import Spake2Verif.Proofs.EdLadder

/-!
# `CurveOK c`: the side conditions on a `Curve` record, and the bridge lemmas restated for it

`CurveOK c` bundles everything the Ed25519 instance of `GroupSpec` needs from the five integers
`Q, L, d, I, B` of a `Curve`.  Every field is either a primality statement (discharged by the Pratt
certificates of `Spec/Primes.lean`), a statement in `ZMod Q` already proved in `Spec/EdConsts.lean`,
or a closed decidable statement (`decide +kernel`).

The lemmas of `EdBridge` / `EdLadder` are stated for a natural-number modulus `Q : ℕ`; here they
are restated for the integer field `c.Q` of a curve record (`c.Q = ↑c.Q.toNat`).
-/
namespace Spake2Verif
open Spake2Model Spake2Model.Gen Spake2Verif.Edw Spake2Verif.EdBridge Spake2Verif.EdLadder

/-- side conditions on the curve constants -/
structure CurveOK (c : Curve) : Prop where
  /-- the field size is prime -/
  Q_prime : c.Q.toNat.Prime
  /-- `Q ≡ 5 (mod 8)`: square roots by one exponentiation and a possible twist by `I` -/
  Q_mod8 : c.Q % 8 = 5
  /-- a field element fits in 255 bits, leaving the top bit of 32 bytes for the sign of `x` -/
  Q_lt : c.Q < 2 ^ 255
  /-- `I² = -1` -/
  I_sq : ((c.I : ZMod c.Q.toNat)) ^ 2 = -1
  /-- `d` is not a square (completeness of the addition law) -/
  d_nonsq : ∀ s : ZMod c.Q.toNat, s ^ 2 ≠ (c.d : ZMod c.Q.toNat)
  /-- the subgroup order is prime -/
  L_prime : c.L.toNat.Prime
  L_gt : 2 < c.L
  /-- a scalar fits in 32 bytes -/
  L_lt : c.L < 2 ^ 256
  /-- the base point: reduced coordinates -/
  B_red : (0 ≤ c.B.1 ∧ c.B.1 < c.Q) ∧ (0 ≤ c.B.2 ∧ c.B.2 < c.Q)
  /-- the base point is on the curve (the code's own test) -/
  B_on : Ed.isoncurve c.Q c.d c.B = true
  /-- `L·B` is the identity (the code's own ladder and test) -/
  B_tors : Ed.is_extended_zero c.Q
    (Ed.scalarmult_element_safe_slow c.Q c.d (Ed.xform_affine_to_extended c.Q c.B) c.L) = true
  /-- the base point is not the identity -/
  B_ne : c.B.1 ≠ 0

namespace CurveOK
variable {c : Curve}

theorem fact (h : CurveOK c) : Fact c.Q.toNat.Prime := ⟨h.Q_prime⟩

theorem Q_pos (h : CurveOK c) : 0 < c.Q := by have := h.Q_prime.two_le; omega

theorem five_le_Q (h : CurveOK c) : 5 ≤ c.Q := by have := h.Q_mod8; have := h.Q_pos; omega

theorem Q_cast (h : CurveOK c) : ((c.Q.toNat : ℕ) : ℤ) = c.Q := Int.toNat_of_nonneg (le_of_lt h.Q_pos)

theorem L_cast (h : CurveOK c) : ((c.L.toNat : ℕ) : ℤ) = c.L :=
  Int.toNat_of_nonneg (by have := h.L_gt; omega)

theorem two_lt_Qn (h : CurveOK c) : 2 < c.Q.toNat := by have := h.five_le_Q; omega

theorem two_lt_Ln (h : CurveOK c) : 2 < c.L.toNat := by have := h.L_gt; omega

theorem Qn_lt (h : CurveOK c) : c.Q.toNat < 2 ^ 255 := by have := h.Q_lt; omega

theorem Qn_mod8 (h : CurveOK c) : c.Q.toNat % 8 = 5 := by have := h.Q_mod8; have := h.Q_pos; omega

variable [Fact c.Q.toNat.Prime]

/-- the Edwards curve over `ZMod Q` of a good curve record -/
def EC (h : CurveOK c) : EdCurve (ZMod c.Q.toNat) :=
  mkCurve c.Q.toNat c.d c.I h.two_lt_Qn h.I_sq h.d_nonsq

@[simp] theorem EC_d (h : CurveOK c) : (EC h).d = (c.d : ZMod c.Q.toNat) := rfl
@[simp] theorem EC_i (h : CurveOK c) : (EC h).i = (c.I : ZMod c.Q.toNat) := rfl

variable (h : CurveOK c)
include h

/-! ### the bridge lemmas, for the integer modulus `c.Q` -/

theorem cast_Q : ((c.Q : ℤ) : ZMod c.Q.toNat) = 0 := by
  have := ZMod.natCast_self c.Q.toNat
  have e : ((c.Q : ℤ) : ZMod c.Q.toNat) = (((c.Q.toNat : ℕ) : ℤ) : ZMod c.Q.toNat) := by
    rw [h.Q_cast]
  rw [e]; exact_mod_cast this

theorem cast_emod (a : ℤ) : ((a % c.Q : ℤ) : ZMod c.Q.toNat) = (a : ZMod c.Q.toNat) := by
  have := ZMod.intCast_mod a c.Q.toNat
  rwa [h.Q_cast] at this

/-- a reduced integer is the `val` of its residue -/
theorem eq_val {a : ℤ} {z : ZMod c.Q.toNat} (h0 : 0 ≤ a) (h1 : a < c.Q) (hz : (a : ZMod c.Q.toNat) = z) :
    a = (z.val : ℤ) :=
  eq_val_of_cast_eq h0 (by rw [h.Q_cast]; exact h1) hz

theorem val_lt (z : ZMod c.Q.toNat) : (z.val : ℤ) < c.Q := by
  have : NeZero c.Q.toNat := ⟨(Fact.out : c.Q.toNat.Prime).ne_zero⟩
  have := ZMod.val_lt z
  calc (z.val : ℤ) < (c.Q.toNat : ℤ) := by exact_mod_cast this
    _ = c.Q := h.Q_cast

omit [Fact c.Q.toNat.Prime] in
theorem reduced_iff (p : P4) : Reduced c.Q.toNat p ↔
    (0 ≤ p.1 ∧ p.1 < c.Q) ∧ (0 ≤ p.2.1 ∧ p.2.1 < c.Q) ∧ (0 ≤ p.2.2.1 ∧ p.2.2.1 < c.Q)
      ∧ (0 ≤ p.2.2.2 ∧ p.2.2.2 < c.Q) := by
  unfold Reduced; rw [h.Q_cast]

theorem add_rep {p1 p2 : P4} {P1 P2 : Point (EC h)} (r1 : Rep (EC h) p1 P1) (r2 : Rep (EC h) p2 P2) :
    Rep (EC h) (Ed.add_elements c.Q c.d p1 p2) (P1 + P2) ∧
      Reduced c.Q.toNat (Ed.add_elements c.Q c.d p1 p2) := by
  have := add_elements_rep (EC h) c.d rfl r1 r2
  rwa [h.Q_cast] at this

theorem safe_rep {pt : P4} {P : Point (EC h)} (r : Rep (EC h) pt P) (n : ℤ) (hn : 0 ≤ n) :
    Rep (EC h) (Ed.scalarmult_element_safe_slow c.Q c.d pt n) (n • P) ∧
      Reduced c.Q.toNat (Ed.scalarmult_element_safe_slow c.Q c.d pt n) := by
  have := scalarmult_element_safe_slow_rep (EC h) c.d rfl r n hn
  rwa [h.Q_cast] at this

theorem fast_rep {pt : P4} {P : Point (EC h)} (r : Rep (EC h) pt P) (hLP : c.L.toNat • P = 0)
    (hP : P ≠ 0) (n : ℤ) (hn : 0 ≤ n) (hnL : n < c.L) :
    Rep (EC h) (Ed.scalarmult_element c.Q pt n) (n • P) ∧
      Reduced c.Q.toNat (Ed.scalarmult_element c.Q pt n) := by
  have := scalarmult_element_rep (EC h) h.L_prime h.two_lt_Ln r hLP hP n hn
    (by rw [h.L_cast]; exact hnL)
  rwa [h.Q_cast] at this

theorem affine_rep (pt : ℤ × ℤ) (P : Point (EC h))
    (hx : (pt.1 : ZMod c.Q.toNat) = P.x) (hy : (pt.2 : ZMod c.Q.toNat) = P.y) :
    Rep (EC h) (Ed.xform_affine_to_extended c.Q pt) P ∧
      Reduced c.Q.toNat (Ed.xform_affine_to_extended c.Q pt) := by
  have := xform_affine_to_extended_rep (EC h) pt P hx hy
  rwa [h.Q_cast] at this

theorem zero_iff {p : P4} {P : Point (EC h)} (r : Rep (EC h) p P) (hr : Reduced c.Q.toNat p) :
    Ed.is_extended_zero c.Q p = true ↔ P = 0 := by
  have := is_extended_zero_iff (EC h) r hr.1.1 hr.1.2
  rwa [h.Q_cast] at this

theorem to_affine {p : P4} {P : Point (EC h)} (r : Rep (EC h) p P) :
    Ed.xform_extended_to_affine c.Q p = ((P.x.val : ℤ), (P.y.val : ℤ)) := by
  have := xform_extended_to_affine_spec (EC h) r
  rwa [h.Q_cast] at this

theorem oncurve_iff (P : ℤ × ℤ) :
    Ed.isoncurve c.Q c.d P = true ↔
      OnCurve (c.d : ZMod c.Q.toNat) (P.1 : ZMod c.Q.toNat) (P.2 : ZMod c.Q.toNat) := by
  have := isoncurve_iff (Q := c.Q.toNat) c.d P
  rwa [h.Q_cast] at this

/-- the curve point of a pair accepted by `isoncurve` -/
def pointOf (P : ℤ × ℤ) (hP : Ed.isoncurve c.Q c.d P = true) : Point (EC h) :=
  ⟨(P.1 : ZMod c.Q.toNat), (P.2 : ZMod c.Q.toNat), (h.oncurve_iff P).1 hP⟩

@[simp] theorem pointOf_x (P : ℤ × ℤ) (hP) : (h.pointOf P hP).x = (P.1 : ZMod c.Q.toNat) := rfl
@[simp] theorem pointOf_y (P : ℤ × ℤ) (hP) : (h.pointOf P hP).y = (P.2 : ZMod c.Q.toNat) := rfl

theorem pointOf_rep (P : ℤ × ℤ) (hP : Ed.isoncurve c.Q c.d P = true) :
    Rep (EC h) (Ed.xform_affine_to_extended c.Q P) (h.pointOf P hP) ∧
      Reduced c.Q.toNat (Ed.xform_affine_to_extended c.Q P) :=
  h.affine_rep P _ rfl rfl

/-- `Rep` determines the point -/
theorem rep_unique {p : P4} {P P' : Point (EC h)} (r : Rep (EC h) p P) (r' : Rep (EC h) p P') :
    P = P' := by
  obtain ⟨hz, hx, hy, -⟩ := r
  obtain ⟨-, hx', hy', -⟩ := r'
  apply Point.ext
  · exact mul_right_cancel₀ hz (hx.symm.trans hx')
  · exact mul_right_cancel₀ hz (hy.symm.trans hy')

/-! ### the identity and the base point -/

theorem zeroPt_rep : Rep (EC h) (Ed25519.zeroPt c) 0 ∧ Reduced c.Q.toNat (Ed25519.zeroPt c) :=
  h.affine_rep (0, 1) 0 (by simp) (by simp)

/-- the base point as a curve point -/
def BP : Point (EC h) := h.pointOf c.B h.B_on

theorem base_rep : Rep (EC h) (Ed25519.Base c).pt (BP h) ∧ Reduced c.Q.toNat (Ed25519.Base c).pt :=
  h.pointOf_rep c.B h.B_on

theorem BP_ne_zero : BP h ≠ 0 := by
  intro h0
  have hx : (BP h).x = 0 := by rw [h0]; rfl
  have hx' : ((c.B.1 : ℤ) : ZMod c.Q.toNat) = 0 := hx
  have := h.eq_val h.B_red.1.1 h.B_red.1.2 hx'
  rw [ZMod.val_zero] at this
  exact h.B_ne (by simpa using this)

theorem L_smul_BP : c.L.toNat • BP h = 0 := by
  have r := h.safe_rep (base_rep h).1 c.L (by have := h.L_gt; omega)
  have := (h.zero_iff r.1 r.2).1 h.B_tors
  rwa [← h.L_cast, natCast_zsmul] at this

/-- in a group killed by the prime `L`, a multiple `k • P` of a non-identity point vanishes only
when `L ∣ k` -/
theorem dvd_of_zsmul_eq_zero {P : Point (EC h)} (hLP : c.L.toNat • P = 0) (hP : P ≠ 0) (k : ℤ)
    (hk : k • P = 0) : c.L ∣ k := by
  by_contra hnd
  have := no_small_order (EC h) h.L_prime h.two_lt_Ln P (by rw [natCast_zsmul]; exact hLP) hP k
    (by rw [h.L_cast]; exact hnd)
  apply this
  left; rw [hk]; rfl

theorem zsmul_emod {P : Point (EC h)} (hLP : c.L.toNat • P = 0) (n : ℤ) : (n % c.L) • P = n • P := by
  have hL : c.L • P = 0 := by rw [← h.L_cast, natCast_zsmul]; exact hLP
  conv_rhs => rw [← Int.emod_add_mul_ediv n c.L]
  rw [add_zsmul, mul_comm c.L (n / c.L), mul_zsmul, hL, smul_zero, add_zero]

end CurveOK
end Spake2Verif

