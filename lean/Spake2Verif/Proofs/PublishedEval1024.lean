import Spake2Model.Model.Published
import Batteries.Lean.Except
/-!
Kernel evaluations (`decide +kernel`: SHA-256 / HKDF / group arithmetic run inside the Lean kernel,
no axioms) of the blinding elements of the 1024-bit integer parameter set (literal published constants).
Re-exported by `Properties/C03.lean`.
-/
set_option maxRecDepth 100000
namespace Spake2Verif.PublishedEval
open Spake2Model Spake2Model.Gen

theorem published_M_1024 :
    (IG.arb Published.i1024 Published.seedM).map (IG.enc Published.i1024) = .ok Published.M_1024 := by
  decide +kernel

theorem published_N_1024 :
    (IG.arb Published.i1024 Published.seedN).map (IG.enc Published.i1024) = .ok Published.N_1024 := by
  decide +kernel

theorem published_S_1024 :
    (IG.arb Published.i1024 Published.seedS).map (IG.enc Published.i1024) = .ok Published.S_1024 := by
  decide +kernel

theorem hash_params_total_1024 :
    (IG.arb Published.i1024 []).toOption.isSome = true := by
  decide +kernel

end Spake2Verif.PublishedEval

section Audit
open Spake2Verif.PublishedEval
#print axioms published_M_1024
#print axioms published_N_1024
#print axioms published_S_1024
#print axioms hash_params_total_1024
end Audit
